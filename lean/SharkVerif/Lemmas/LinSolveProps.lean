/-
C02 — linear-system solvers and matrix decompositions satisfy their defining equations
(first layer; the headline file `Props/C02.lean` imports this one and the later layers
`Lemmas/LinSolve{Blocked,BlockedChol,CG,Semi,Pstrf}.lean`, `Lemmas/SolveExpr.lean`).

Property theorems about the executable model `Model/LinSolve.lean` (tied to
remora's kernels by `checks/c02.py`: exact correspondence on dyadic systems
while `FE_INEXACT` stays clear, residual oracle otherwise).  Helper lemmas:
`Lemmas/LinSolve*.lean`.  All statements are in exact arithmetic (`Rat`) and
quantify over every size `n`, every matrix / right-hand side, every
triangular tag and side; nothing is bounded.  What is *not* a theorem here:
floating-point backward-error bounds, conjugate gradient, convergence of the
symmetric eigensolver (see MANIFEST note of checks/c02.py).
-/
import SharkVerif.Lemmas.LinSolveChol
import SharkVerif.Lemmas.LinSolveLU
import SharkVerif.Lemmas.LinSolveUnique
import SharkVerif.Lemmas.LinSolveLUSolve
import SharkVerif.Lemmas.LinSolveUpdate
namespace SharkVerif.C02
open SharkVerif.LinSolve

/-! ## triangular systems -/

/-- `kernels::trsv<Triangular, left>`: for every size, every tag (lower/upper, unit/non-unit),
if no exception is thrown (no zero on a diagonal that is divided by) the returned vector
solves `T x = b`, `T` the triangular matrix the tag denotes. -/
theorem trsv_correct_left (t : Tri) (n : Nat) (A : Mat) (b : Vec)
    (h : triSingular t n A = false) :
    ∀ i, i < n → mulVec n (triPart t A) (trsv t true n A b) i = b i := by
  intro i hi
  exact trsvLeft_correct t n A b ((regular_iff_not_singular t n A).mpr h) hi

/-- `kernels::trsv<Triangular, right>`: `x T = b`. -/
theorem trsv_correct_right (t : Tri) (n : Nat) (A : Mat) (b : Vec)
    (h : triSingular t n A = false) :
    ∀ j, j < n → vecMul n (trsv t false n A b) (triPart t A) j = b j := by
  intro j hj
  have hr := ((regular_iff_not_singular t n A).mpr h).transposed
  have key := trsvLeft_correct t.transposed n (transpose A) b hr hj
  rw [← key]
  unfold vecMul mulVec trsv trsvArr
  apply sum_congr; intro k _
  rw [triPart_transposed]
  simp [Rat.mul_comm]

/-- both sides in one statement -/
theorem trsv_correct (t : Tri) (left : Bool) (n : Nat) (A : Mat) (b : Vec)
    (h : triSingular t n A = false) :
    ∀ i, i < n →
      (if left then mulVec n (triPart t A) (trsv t left n A b) i
       else vecMul n (trsv t left n A b) (triPart t A) i) = b i := by
  intro i hi
  cases left
  · simpa using trsv_correct_right t n A b h i hi
  · simpa using trsv_correct_left t n A b h i hi

/-- non-vacuity: a 2×2 lower system with garbage in the unused triangle -/
example : triSingular ⟨false, false⟩ 2 (fun i j => if i = 0 ∧ j = 1 then 7 else 2) = false := by decide

/-- `kernels::trsm<Triangular, left>`: `T X = B` for an `n × m` right-hand side. -/
theorem trsm_correct_left (t : Tri) (n m : Nat) (A B : Mat) (h : triSingular t n A = false) :
    ∀ i k, i < n → k < m → mul n (triPart t A) (trsm t true n m A B) i k = B i k := by
  intro i k hi hk
  have key := trsv_correct_left t n A (fun i' => B i' k) h i hi
  rw [← key]
  unfold mul mulVec trsm trsmArr trsv
  apply sum_congr; intro j _
  simp [mget, vget, Array.getD_eq_getD_getElem?, hk]

/-- `kernels::trsm<Triangular, right>`: `X T = B` for an `m × n` right-hand side. -/
theorem trsm_correct_right (t : Tri) (n m : Nat) (A B : Mat) (h : triSingular t n A = false) :
    ∀ k j, k < m → j < n → mul n (trsm t false n m A B) (triPart t A) k j = B k j := by
  intro k j hk hj
  have key := trsv_correct_right t n A (fun i' => B k i') h j hj
  rw [← key]
  unfold mul vecMul trsm trsmArr trsv
  apply sum_congr; intro i _
  simp [mget, vget, Array.getD_eq_getD_getElem?, hk]

/-! ## Cholesky decomposition (`potrf`) -/

/-- specification of the square-root parameter of the model *at the values it is applied to*:
`r s` is the positive root of a positive `s`.  (Over `Rat` the unrestricted
`∀ s > 0, r s * r s = s` is unsatisfiable — `√2` is irrational — so the hypothesis is
asked only of the pivots that actually occur; it holds e.g. for every `A = L Lᵀ` with
rational `L` and the exact rational root, which is what the correspondence runs.) -/
def SqrtOn (r : Rat → Rat) (s : Rat) : Prop := 0 < s → r s * r s = s ∧ 0 < r s

/-- `r` is a root of every pivot of the factorisation of `A` -/
def SqrtSpec (r : Rat → Rat) (n : Nat) (A : Mat) : Prop := ∀ j, j < n → SqrtOn r (cholPivot r n A j)

/-- the factor read off the in-place result: lower triangle incl. diagonal, zero above -/
def lowerOf (M : Mat) : Mat := fun i j => if j ≤ i then M i j else 0

theorem lowerOf_potrfLower (r : Rat → Rat) (n : Nat) (A : Mat) {i k : Nat} (hi : i < n) (hk : k < n) :
    lowerOf (potrfLower r n A) i k = chol r n A i k := by
  unfold lowerOf potrfLower potrfOut
  rw [mget_matOf]
  by_cases h : k ≤ i
  · simp [h, hi, hk, chol]
  · simp [h]; exact (chol_upper_zero r n A hi hk (by omega)).symm

/-- `potrf<lower>` (kernel `potrf_block(row_major, lower)`, test `s <= 0`):
**returns 0 ⇒ `L Lᵀ = A` on the stored (lower) triangle**, for every size and every input,
and the strict upper triangle of the storage is left untouched. -/
theorem potrf_correct (r : Rat → Rat) (n : Nat) (A : Mat) (hr : SqrtSpec r n A)
    (h0 : potrfInfo false r n A = 0) :
    (∀ i j, i < n → j ≤ i →
      mul n (lowerOf (potrfLower r n A)) (transpose (lowerOf (potrfLower r n A))) i j = A i j) ∧
    (∀ i j, i < n → j < n → i < j → potrfLower r n A i j = A i j) := by
  constructor
  · intro i j hi hji
    have hj : j < n := by omega
    have hp := infoOf_zero h0 j hj
    simp only [Bool.false_eq_true, if_false, not_le] at hp
    have hp' : 0 < cholS r n A j j := hp
    have hs := hr j hj hp'
    have key := chol_column_identity r n A hi hji ⟨hs.1, ne_of_gt hs.2⟩
    rw [← key]
    unfold mul transpose
    apply sum_congr; intro k hk
    rw [lowerOf_potrfLower r n A hi hk, lowerOf_potrfLower r n A hj hk]
  · intro i j hi hj hij
    unfold potrfLower potrfOut
    rw [mget_matOf]
    have : ¬ j ≤ i := by omega
    simp [hi, hj, this]

/-- the other scalar kernel (`potrf_block(row_major, upper)`, reached for column-major storage)
tests `Aii < 0` only.  PARTIAL: the conclusion needs the extra hypothesis that no pivot is
exactly zero — an input the real code accepts (it then divides by zero and returns 0 with
NaN entries; finding `C02-potrf-zero-pivot-accepted`, replayed on the real code by the check). -/
theorem potrf_strict_correct_partial (r : Rat → Rat) (n : Nat) (A : Mat) (hr : SqrtSpec r n A)
    (h0 : potrfInfo true r n A = 0) (hnz : ∀ j, j < n → cholPivot r n A j ≠ 0) :
    ∀ i j, i < n → j ≤ i →
      mul n (lowerOf (potrfLower r n A)) (transpose (lowerOf (potrfLower r n A))) i j = A i j := by
  intro i j hi hji
  have hj : j < n := by omega
  have hp := infoOf_zero h0 j hj
  simp only [if_true, not_lt] at hp
  have hp' : 0 < cholS r n A j j := lt_of_le_of_ne hp (fun e => hnz j hj e.symm)
  have hs := hr j hj hp'
  have key := chol_column_identity r n A hi hji ⟨hs.1, ne_of_gt hs.2⟩
  rw [← key]
  unfold mul transpose
  apply sum_congr; intro k hk
  rw [lowerOf_potrfLower r n A hi hk, lowerOf_potrfLower r n A hj hk]

/-- upper triangle incl. diagonal, zero below -/
def upperOf (M : Mat) : Mat := fun i j => if i ≤ j then M i j else 0

/-- `potrf<upper>` is `potrf<lower>` of the transposed storage: `Uᵀ U = A` on the upper triangle -/
theorem potrf_upper_correct (r : Rat → Rat) (n : Nat) (A : Mat) (hr : SqrtSpec r n (transpose A))
    (h0 : potrfInfo false r n (transpose A) = 0) :
    ∀ i j, j < n → i ≤ j →
      mul n (transpose (upperOf (potrfUpper r n A))) (upperOf (potrfUpper r n A)) i j = A i j := by
  intro i j hj hij
  have key := (potrf_correct r n (transpose A) hr h0).1 j i hj hij
  have hU : upperOf (potrfUpper r n A) = transpose (lowerOf (potrfLower r n (transpose A))) := rfl
  rw [hU]
  show _ = transpose A j i
  rw [← key]
  unfold mul transpose
  apply sum_congr; intro k _
  rw [Rat.mul_comm]

/-- return value `k+1`: `k < n`, every earlier pivot was positive — so the leading `k × k` block
*is* factorised — and the pivot of step `k`, i.e. the Schur complement
`A(k,k) − Σ_{c<k} L(k,c)²` of the leading `(k+1)`-minor, is not positive. -/
theorem potrf_info_spec (r : Rat → Rat) (n : Nat) (A : Mat) (k : Nat)
    (hk : potrfInfo false r n A = k + 1) :
    k < n ∧ cholPivot r n A k ≤ 0 ∧ ∀ j, j < k → 0 < cholPivot r n A j := by
  unfold potrfInfo infoOf at hk
  split at hk
  · rename_i j hsome
    have hjk : j = k := by omega
    subst hjk
    obtain ⟨h1, h2, h3⟩ := firstIdx_some hsome
    refine ⟨h1, ?_, ?_⟩
    · simpa [cholPivot] using h2
    · intro j' hj'
      have := h3 j' hj'
      simpa [cholPivot] using this
  · omega

/-- non-vacuity: the 1×1 system `[4]` with a root that is exact on the pivot -/
example : potrfInfo false (fun s => if s = 4 then 2 else 0) 1 (fun _ _ => 4) = 0 ∧
    SqrtSpec (fun s => if s = 4 then 2 else 0) 1 (fun _ _ => 4) := by
  constructor
  · norm_num [potrfInfo, infoOf, firstIdx, pivotOf, sum, List.range, List.range.loop]
  · intro j hj _
    have : j = 0 := by omega
    subst this
    norm_num [cholPivot, pivotOf, sum]

/-! ## pivoted LU (`getrf`) -/

/-- `kernels::getrf(A, P)`: for every size and every input on which no exception is thrown
(no zero pivot), **`P·A = L·U`**: `L` the unit lower triangle, `U` the upper triangle of the in-place
result, `P·A` the rows of `A` permuted by the recorded transposition sequence (`swap_rows(P, A)`). -/
theorem getrf_correct (n : Nat) (A : Mat) (h : (getrf n A).fail = false) :
    ∀ i k, i < n → k < n →
      mul n (triPart ⟨false, true⟩ (fun i j => mget (getrf n A).M i j))
            (triPart ⟨true, false⟩ (fun i j => mget (getrf n A).M i j)) i k
        = A (permOf (getrf n A).P n i) k := by
  intro i k hi hk
  have inv := getrf_inv n A n (Nat.le_refl n) h i k hi hk
  rw [← Lf_eq_triPart, ← Uf_eq_triPart]
  unfold getrf at *
  rw [inv, if_neg (by omega)]
  unfold mul
  ring

/-- non-vacuity: a 2×2 matrix that needs a row swap -/
example : (getrf 2 (fun i j => if i = 0 ∧ j = 0 then 1 else if i = 1 ∧ j = 1 then 3 else 2)).fail = false := by
  norm_num [getrf, iter, getrfStep, pivotRow, mget_matOf, absR, swapRows, sw, List.range, List.range.loop]

/-! ## `solver_traits`: solve = (permutation +) two triangular solves -/

/-- **solve from a factorisation**: if `A = B·C` on `[0,n)²`, `y` solves `B y = b` and `x` solves
`C x = y`, then `A x = b`.  This is the step from "the decomposition reproduces its matrix" and
"the triangular solves are correct" to "the solve call returns a solution"; it is instantiated
below for `symm_pos_def` (`B = L`, `C = Lᵀ`). -/
theorem solve_eq_of_factorisation (n : Nat) (A B C : Mat) (b x y : Vec)
    (hfac : ∀ i k, i < n → k < n → mul n B C i k = A i k)
    (hy : ∀ i, i < n → mulVec n B y i = b i)
    (hx : ∀ i, i < n → mulVec n C x i = y i) :
    ∀ i, i < n → mulVec n A x i = b i := by
  intro i hi
  rw [← hy i hi]
  rw [show mulVec n A x i = mulVec n (mul n B C) x i from
    mulVec_congr (fun k hk => (hfac i k hi hk).symm) (fun _ _ => rfl)]
  rw [mulVec_mul]
  exact mulVec_congr (fun _ _ => rfl) (fun k hk => hx k hk)

theorem chol_diag_pos (r : Rat → Rat) (n : Nat) (A : Mat) (hr : SqrtSpec r n A)
    (h0 : potrfInfo false r n A = 0) {j : Nat} (hj : j < n) :
    r (cholS r n A j j) * r (cholS r n A j j) = cholS r n A j j ∧ 0 < r (cholS r n A j j) := by
  have hp := infoOf_zero h0 j hj
  simp only [Bool.false_eq_true, if_false, not_le] at hp
  exact hr j hj hp

/-- `L Lᵀ = A` on the whole square for symmetric `A` -/
theorem chol_full (r : Rat → Rat) (n : Nat) (A : Mat) (hr : SqrtSpec r n A)
    (h0 : potrfInfo false r n A = 0) (hsym : ∀ i j, i < n → j < n → A i j = A j i) :
    ∀ i k, i < n → k < n → mul n (chol r n A) (transpose (chol r n A)) i k = A i k := by
  intro i k hi hk
  unfold mul transpose
  by_cases hki : k ≤ i
  · have hs := chol_diag_pos r n A hr h0 hk
    exact chol_column_identity r n A hi hki ⟨hs.1, ne_of_gt hs.2⟩
  · have hs := chol_diag_pos r n A hr h0 hi
    have := chol_column_identity r n A hk (by omega : i ≤ k) ⟨hs.1, ne_of_gt hs.2⟩
    rw [hsym i k hi hk, ← this]
    apply sum_congr; intro c _; rw [Rat.mul_comm]

/-- **`solve(A, b, symm_pos_def(), side)`** (= `cholesky_decomposition::solve`: `potrf`, `trsv<lower>`,
`trsv<upper>` on `Lᵀ`): for every size, every symmetric `A` on which `potrf` succeeds (returns 0)
the returned vector satisfies `A x = b` exactly. -/
theorem solve_spd_correct (r : Rat → Rat) (n : Nat) (A : Mat) (b : Vec) (hr : SqrtSpec r n A)
    (h0 : potrfInfo false r n A = 0) (hsym : ∀ i j, i < n → j < n → A i j = A j i) :
    ∀ i, i < n → mulVec n A (fun k => vget (solveSpdArr r n A b) k) i = b i := by
  set Lm : Mat := chol r n A with hLm
  have hdiag : ∀ j, j < n → Lm j j ≠ 0 := by
    intro j hj
    rw [hLm, chol_entry r n A hj hj, if_neg (by omega), if_pos rfl]
    exact ne_of_gt (chol_diag_pos r n A hr h0 hj).2
  have hreg1 : triSingular ⟨false, false⟩ n Lm = false :=
    (regular_iff_not_singular _ n Lm).mp (fun _ j hj => hdiag j hj)
  have hreg2 : triSingular ⟨true, false⟩ n (transpose Lm) = false :=
    (regular_iff_not_singular _ n (transpose Lm)).mp (fun _ j hj => hdiag j hj)
  set y : Vec := trsv ⟨false, false⟩ true n Lm b with hy
  set x : Vec := trsv ⟨true, false⟩ true n (transpose Lm) y with hx
  have hxeq : (fun k => vget (solveSpdArr r n A b) k) = x := rfl
  rw [hxeq]
  apply solve_eq_of_factorisation n A Lm (transpose Lm) b x y
  · exact chol_full r n A hr h0 hsym
  · intro i hi
    rw [← trsv_correct_left ⟨false, false⟩ n Lm b hreg1 i hi]
    apply mulVec_congr _ (fun _ _ => rfl)
    intro k hk
    unfold triPart
    by_cases hik : i = k
    · subst hik; simp
    · by_cases hlt : k < i
      · simp [hik, hlt]
      · simp [hik, hlt]; exact chol_upper_zero r n A hi hk (by omega)
  · intro i hi
    rw [← trsv_correct_left ⟨true, false⟩ n (transpose Lm) y hreg2 i hi]
    apply mulVec_congr _ (fun _ _ => rfl)
    intro k hk
    unfold triPart transpose
    by_cases hik : i = k
    · subst hik; simp
    · by_cases hlt : i < k
      · simp [hik, hlt]
      · simp [hik, hlt]; exact chol_upper_zero r n A hk hi (by omega)

/-! ## uniqueness, explicit inverse -/

/-- a regular triangular system has exactly one solution, the one `trsv` returns.  Consequence for
the tie: the blocked recursion of `trsm_recursive` / the column-major kernels, which also produce a
solution of `T x = b` in exact arithmetic, cannot return anything else than the modelled loop. -/
theorem trsv_unique (t : Tri) (n : Nat) (A : Mat) (b x : Vec) (h : triSingular t n A = false)
    (hx : ∀ i, i < n → mulVec n (triPart t A) x i = b i) :
    ∀ i, i < n → x i = trsv t true n A b i :=
  trsvLeft_unique t n A b x ((regular_iff_not_singular t n A).mpr h) hx

theorem mulVec_ident (n : Nat) (b : Vec) {i : Nat} (hi : i < n) : mulVec n ident b i = b i := by
  unfold mulVec
  rw [sum_single hi]
  · simp [ident]
  · intro k _ hk
    have : ¬ i = k := fun e => hk e.symm
    simp [ident, this]

/-- **`inv(A, tag) % b` = `solve(A, b, tag, left)`** for the triangular tags: the explicit inverse
`X` (`matrix_inverse::assign_to`: identity right-hand side, `trsm`) applied to `b` is the vector the
solve call returns — for every size and every regular triangular system. -/
theorem inv_prod_is_solve (t : Tri) (n : Nat) (A : Mat) (b : Vec) (h : triSingular t n A = false) :
    ∀ i, i < n → mulVec n (trsm t true n n A ident) b i = trsv t true n A b i := by
  apply trsv_unique t n A b _ h
  intro i hi
  rw [← mulVec_mul]
  rw [show mulVec n (mul n (triPart t A) (trsm t true n n A ident)) b i = mulVec n ident b i from
    mulVec_congr (fun k hk => trsm_correct_left t n n A ident h i k hi hk) (fun _ _ => rfl)]
  exact mulVec_ident n b hi

/-- uniqueness for the Cholesky-based solve: any `x` with `A x = b` is the vector returned -/
theorem solve_spd_unique (r : Rat → Rat) (n : Nat) (A : Mat) (b x : Vec) (hr : SqrtSpec r n A)
    (h0 : potrfInfo false r n A = 0) (hsym : ∀ i j, i < n → j < n → A i j = A j i)
    (hx : ∀ i, i < n → mulVec n A x i = b i) :
    ∀ i, i < n → x i = vget (solveSpdArr r n A b) i := by
  set Lm : Mat := chol r n A with hLm
  have hdiag : ∀ j, j < n → Lm j j ≠ 0 := by
    intro j hj
    rw [hLm, chol_entry r n A hj hj, if_neg (by omega), if_pos rfl]
    exact ne_of_gt (chol_diag_pos r n A hr h0 hj).2
  have hreg1 : triSingular ⟨false, false⟩ n Lm = false :=
    (regular_iff_not_singular _ n Lm).mp (fun _ j hj => hdiag j hj)
  have hreg2 : triSingular ⟨true, false⟩ n (transpose Lm) = false :=
    (regular_iff_not_singular _ n (transpose Lm)).mp (fun _ j hj => hdiag j hj)
  have hT1 : ∀ i k, i < n → k < n → triPart ⟨false, false⟩ Lm i k = Lm i k := by
    intro i k hi hk
    unfold triPart
    by_cases hik : i = k
    · subst hik; simp
    · by_cases hlt : k < i
      · simp [hik, hlt]
      · simp [hik, hlt]; exact (chol_upper_zero r n A hi hk (by omega)).symm
  have hT2 : ∀ i k, i < n → k < n → triPart ⟨true, false⟩ (transpose Lm) i k = transpose Lm i k := by
    intro i k hi hk
    unfold triPart transpose
    by_cases hik : i = k
    · subst hik; simp
    · by_cases hlt : i < k
      · simp [hik, hlt]
      · simp [hik, hlt]; exact (chol_upper_zero r n A hk hi (by omega)).symm
  -- y = Lᵀ x solves L y = b
  set y : Vec := mulVec n (transpose Lm) x with hy
  have hy1 : ∀ i, i < n → y i = trsv ⟨false, false⟩ true n Lm b i := by
    apply trsv_unique ⟨false, false⟩ n Lm b y hreg1
    intro i hi
    rw [show mulVec n (triPart ⟨false, false⟩ Lm) y i = mulVec n Lm y i from
      mulVec_congr (fun k hk => hT1 i k hi hk) (fun _ _ => rfl)]
    rw [hy, ← mulVec_mul, ← hx i hi]
    exact mulVec_congr (fun k hk => chol_full r n A hr h0 hsym i k hi hk) (fun _ _ => rfl)
  -- x solves Lᵀ x = y
  have hx2 := trsv_unique ⟨true, false⟩ n (transpose Lm) (trsv ⟨false, false⟩ true n Lm b) x hreg2 (by
    intro i hi
    rw [← hy1 i hi, hy]
    exact mulVec_congr (fun k hk => hT2 i k hi hk) (fun _ _ => rfl))
  intro i hi
  rw [hx2 i hi]
  rfl

/-- **`inv(A, symm_pos_def()) % b` = `solve(A, b, symm_pos_def(), left)`**: the explicit inverse
(solve applied to the columns of the identity) times `b` equals the solve call. -/
theorem inv_prod_is_solve_spd (r : Rat → Rat) (n : Nat) (A : Mat) (b : Vec) (hr : SqrtSpec r n A)
    (h0 : potrfInfo false r n A = 0) (hsym : ∀ i j, i < n → j < n → A i j = A j i) :
    ∀ i, i < n →
      mulVec n (fun i k => vget (solveSpdArr r n A (fun i' => ident i' k)) i) b i
        = vget (solveSpdArr r n A b) i := by
  apply solve_spd_unique r n A b _ hr h0 hsym
  intro i hi
  rw [← mulVec_mul]
  rw [show mulVec n (mul n A (fun i k => vget (solveSpdArr r n A (fun i' => ident i' k)) i)) b i
      = mulVec n ident b i from
    mulVec_congr (fun k hk => by
      have := solve_spd_correct r n A (fun i' => ident i' k) hr h0 hsym i hi
      unfold mul; unfold mulVec at this; exact this) (fun _ _ => rfl)]
  exact mulVec_ident n b hi

/-- **`solve(A, b, indefinite_full_rank(), left)`** (= `pivoting_lu_decomposition::solve`:
`getrf`, `swap_rows(P, b)`, `trsv<unit_lower>`, `trsv<upper>`): for every size and every matrix on
which `getrf` does not throw, the returned vector satisfies `A x = b` exactly. -/
theorem solve_lu_correct (n : Nat) (A : Mat) (b : Vec) (h : (getrf n A).fail = false) :
    ∀ i, i < n → mulVec n A (fun k => vget (luSolveLeftArr n (getrf n A) b) k) i = b i := by
  have side : LUSide n n (getrf n A) := getrf_side n A n (Nat.le_refl n) h
  set s := getrf n A with hs
  set F : Mat := fun i j => mget s.M i j with hF
  set pb : Vec := fun i => b (permOf s.P n i) with hpb
  have hreg1 : triSingular ⟨false, true⟩ n F = false := by simp [triSingular]
  have hreg2 : triSingular ⟨true, false⟩ n F = false :=
    (regular_iff_not_singular _ n F).mp (fun _ j hj => side.2 j hj)
  set y : Vec := trsv ⟨false, true⟩ true n F pb with hy
  set x : Vec := trsv ⟨true, false⟩ true n F y with hx
  have hxeq : (fun k => vget (luSolveLeftArr n s b) k) = x := rfl
  rw [hxeq]
  have hPA := solve_eq_of_factorisation n (fun i k => A (permOf s.P n i) k)
    (triPart ⟨false, true⟩ F) (triPart ⟨true, false⟩ F) pb x y
    (getrf_correct n A h)
    (trsv_correct_left ⟨false, true⟩ n F pb hreg1)
    (trsv_correct_left ⟨true, false⟩ n F y hreg2)
  intro i hi
  have hj : permInvOf s.P n i < n := permInvOf_lt s.P n n (Nat.le_refl n) side.1 i hi
  have hσ : permOf s.P n (permInvOf s.P n i) = i := permOf_permInvOf s.P n i
  have := hPA (permInvOf s.P n i) hj
  unfold mulVec at this ⊢
  simp only [hpb, hσ] at this
  exact this

/-- **`solve(A, b, indefinite_full_rank(), right)`** (`pivoting_lu_decomposition::solve(b, right)`:
`trsv<upper,right>`, `trsv<unit_lower,right>`, `swap_rows_inverted(P, b)`): for every size and every matrix
on which `getrf` does not throw, the returned vector satisfies `x A = b` exactly. -/
theorem solve_lu_right_correct (n : Nat) (A : Mat) (b : Vec) (h : (getrf n A).fail = false) :
    ∀ j, j < n → vecMul n (fun k => vget (luSolveRightArr n (getrf n A) b) k) A j = b j := by
  have side : LUSide n n (getrf n A) := getrf_side n A n (Nat.le_refl n) h
  have hfac := getrf_correct n A h
  set s := getrf n A with hs
  set F : Mat := fun i j => mget s.M i j with hF
  have hreg1 : triSingular ⟨false, true⟩ n F = false := by simp [triSingular]
  have hreg2 : triSingular ⟨true, false⟩ n F = false :=
    (regular_iff_not_singular _ n F).mp (fun _ j hj => side.2 j hj)
  set y : Vec := trsv ⟨true, false⟩ false n F b with hy
  set z : Vec := trsv ⟨false, true⟩ false n F y with hz
  have hyU := trsv_correct_right ⟨true, false⟩ n F b hreg2
  have hzL := trsv_correct_right ⟨false, true⟩ n F y hreg1
  intro j hj
  have hx : ∀ i, i < n → vget (luSolveRightArr n s b) i = z (permInvOf s.P n i) := by
    intro i hi
    unfold luSolveRightArr
    rw [vget_vecOf]; simp only [hi, if_true]; rfl
  unfold vecMul
  -- re-index the sum by the recorded row permutation
  rw [← sum_permOf s.P n n (Nat.le_refl n) side.1
        (fun k => vget (luSolveRightArr n s b) k * A k j)]
  have h1 : sum n (fun i => vget (luSolveRightArr n s b) (permOf s.P n i) * A (permOf s.P n i) j)
      = sum n (fun i => sum n (fun c => z i * triPart ⟨false, true⟩ F i c * triPart ⟨true, false⟩ F c j)) := by
    apply sum_congr; intro i hi
    have hlt : permOf s.P n i < n := by
      have := permOf_lt s.P n n (Nat.le_refl n) side.1 i hi; exact this
    rw [hx _ hlt, permInvOf_permOf, ← hfac i j hi hj]
    unfold mul; rw [← sum_mul_left]
    apply sum_congr; intro c _; ring
  have h2 : sum n (fun c => sum n (fun i => z i * triPart ⟨false, true⟩ F i c * triPart ⟨true, false⟩ F c j))
      = sum n (fun c => y c * triPart ⟨true, false⟩ F c j) := by
    apply sum_congr; intro c hc
    rw [sum_mul_right]
    have := hzL c hc; unfold vecMul at this; rw [this]
  rw [h1, sum_comm, h2]
  have := hyU j hj; unfold vecMul at this; exact this

/-- **`solve(A, b, symm_pos_def(), right)`**: the vector solve of a symmetric system is side-independent
(`cholesky_decomposition::solve(b, system_tag<Left>)` has one body); `x A = b` follows from `A x = b`. -/
theorem solve_spd_right_correct (r : Rat → Rat) (n : Nat) (A : Mat) (b : Vec) (hr : SqrtSpec r n A)
    (h0 : potrfInfo false r n A = 0) (hsym : ∀ i j, i < n → j < n → A i j = A j i) :
    ∀ j, j < n → vecMul n (fun k => vget (solveSpdArr r n A b) k) A j = b j := by
  intro j hj
  rw [← solve_spd_correct r n A b hr h0 hsym j hj]
  unfold vecMul mulVec
  apply sum_congr; intro k hk
  rw [hsym k j hk hj]; ring

/-! ## lazily consumed solve expressions (`solve.hpp`: `matrix_row_optimizer`, `matrix_vector_prod_optimizer`) -/

/-- `unit_vector(n, i)` -/
def unitVec (i : Nat) : Vec := fun k => if k = i then 1 else 0

/-- **`row(solve(A,B,tag,left), i) = prod(trans(B), solve(A, e_i, tag, right))`** — the rewrite of
`matrix_row_optimizer<matrix_matrix_solve<…,left>>`, for any system matrix `T`: if `y T = e_i`
(`y` is what the *right*-sided vector solve of the unit vector returns) and `T X = B`, then
`Bᵀ y` is row `i` of `X`.  Every size, every number of right-hand sides. -/
theorem row_of_left_solve (n m : Nat) (T X B : Mat) (y : Vec) (i : Nat) (hi : i < n)
    (hy : ∀ l, l < n → vecMul n y T l = unitVec i l)
    (hX : ∀ j k, j < n → k < m → mul n T X j k = B j k) :
    ∀ k, k < m → mulVec n (transpose B) y k = X i k := by
  intro k hk
  unfold mulVec transpose
  have h1 : sum n (fun j => B j k * y j) = sum n (fun j => sum n (fun l => y j * T j l * X l k)) := by
    apply sum_congr; intro j hj
    rw [← hX j k hj hk]; unfold mul
    rw [← sum_mul_right]
    apply sum_congr; intro l _; ring
  have h2 : sum n (fun l => sum n (fun j => y j * T j l * X l k)) = sum n (fun l => unitVec i l * X l k) := by
    apply sum_congr; intro l hl
    rw [sum_mul_right, ← hy l hl]; rfl
  rw [h1, sum_comm, h2, sum_single hi]
  · simp [unitVec]
  · intro l _ hne; simp [unitVec, hne]

/-- instance for the triangular tags on the model: the lazily computed row (`trsv` from the right of
the unit vector, then the product with `Bᵀ`) is row `i` of what `trsm` from the left returns. -/
theorem lazy_row_left_trsm (t : Tri) (n m : Nat) (A B : Mat) (i : Nat) (hi : i < n)
    (h : triSingular t n A = false) :
    ∀ k, k < m → mulVec n (transpose B) (trsv t false n A (unitVec i)) k = trsm t true n m A B i k :=
  row_of_left_solve n m (triPart t A) (trsm t true n m A B) B (trsv t false n A (unitVec i)) i hi
    (fun l hl => trsv_correct_right t n A (unitVec i) h l hl)
    (fun j k hj hk => trsm_correct_left t n m A B h j k hj hk)

/-- the hypothesis `y T = e_i` (the *right*-sided unit-vector solve) cannot be replaced by `T y = e_i`
(the left-sided one): witness `T = [[2,0],[1,2]]`, `B = I`, `X = T⁻¹`, `y = T⁻¹ e_0 = (1/2, -1/4)`;
`(Bᵀ y)_1 = -1/4` but `X 0 1 = 0`. -/
theorem row_of_left_solve_wrong_side_witness :
    ∃ (T X B : Mat) (y : Vec),
      (∀ l, l < 2 → mulVec 2 T y l = unitVec 0 l) ∧
      (∀ j k, j < 2 → k < 2 → mul 2 T X j k = B j k) ∧
      mulVec 2 (transpose B) y 1 ≠ X 0 1 := by
  refine ⟨fun i j => if i = 1 ∧ j = 0 then 1 else if i = j then 2 else 0,
          fun i j => if i = 1 ∧ j = 0 then -1/4 else if i = j then 1/2 else 0,
          ident, fun k => if k = 0 then 1/2 else -1/4, ?_, ?_, ?_⟩
  · intro l hl
    have : l = 0 ∨ l = 1 := by omega
    rcases this with rfl | rfl <;> norm_num [mulVec, sum, unitVec]
  · intro j k hj hk
    have hj' : j = 0 ∨ j = 1 := by omega
    have hk' : k = 0 ∨ k = 1 := by omega
    rcases hj' with rfl | rfl <;> rcases hk' with rfl | rfl <;> norm_num [mul, sum, ident]
  · norm_num [mulVec, sum, transpose, ident]

/-- **`prod(solve(A,B,tag,right), c) = prod(B, solve(A,c,tag,left))`**
(`matrix_vector_prod_optimizer<matrix_matrix_solve<…,right>>`): if `X T = B` and `T y = c` then `X c = B y`. -/
theorem prod_of_right_solve (n m : Nat) (T X B : Mat) (y c : Vec)
    (hy : ∀ l, l < n → mulVec n T y l = c l)
    (hX : ∀ k j, k < m → j < n → mul n X T k j = B k j) :
    ∀ k, k < m → mulVec n X c k = mulVec n B y k := by
  intro k hk
  unfold mulVec
  have h1 : sum n (fun l => X k l * c l) = sum n (fun l => sum n (fun j => X k l * T l j * y j)) := by
    apply sum_congr; intro l hl
    rw [← hy l hl]; unfold mulVec
    rw [← sum_mul_left]
    apply sum_congr; intro j _; ring
  have h2 : sum n (fun j => sum n (fun l => X k l * T l j * y j)) = sum n (fun j => B k j * y j) := by
    apply sum_congr; intro j hj
    rw [sum_mul_right, ← hX k j hk hj]; rfl
  rw [h1, sum_comm, h2]

/-- **`prod(solve(A,B,tag,left), c) = solve(A, prod(B,c), tag, left)`**
(`matrix_vector_prod_optimizer<matrix_matrix_solve<…,left>>`) for the triangular tags on the model. -/
theorem prod_of_left_trsm (t : Tri) (n m : Nat) (A B : Mat) (c : Vec) (h : triSingular t n A = false) :
    ∀ i, i < n → mulVec m (trsm t true n m A B) c i = trsv t true n A (mulVec m B c) i := by
  apply trsv_unique t n A (mulVec m B c) _ h
  intro i hi
  unfold mulVec
  have h1 : sum n (fun l => triPart t A i l * sum m (fun k => trsm t true n m A B l k * c k))
      = sum n (fun l => sum m (fun k => triPart t A i l * trsm t true n m A B l k * c k)) := by
    apply sum_congr; intro l _
    rw [← sum_mul_left]
    apply sum_congr; intro k _; ring
  have h2 : sum m (fun k => sum n (fun l => triPart t A i l * trsm t true n m A B l k * c k))
      = sum m (fun k => B i k * c k) := by
    apply sum_congr; intro k hk
    rw [sum_mul_right, ← trsm_correct_left t n m A B h i k hi hk]; rfl
  rw [h1, sum_comm, h2]

/-! ## rank-one update of a Cholesky factor -/

/-- **rank-one update of a Cholesky factor** (`cholesky_decomposition::update(alpha, beta, v)`, `beta ≠ 0`):
for every size, every lower-triangular factor `L` with non-zero diagonal, every update vector (zeros
anywhere), every `alpha` with an exact non-zero root and every `beta`: if no exception is thrown and the
root function is exact on the values it is applied to, the updated factor satisfies
`L' L'ᵀ = alpha L Lᵀ + beta v vᵀ`. -/
theorem cholUpdate_correct (r : Rat → Rat) (alpha beta : Rat) (n : Nat) (L : Arr2) (v : Vec)
    (hb : beta ≠ 0) (ha : r alpha * r alpha = alpha) (ha0 : r alpha ≠ 0)
    (hd : ∀ j, j < n → mget L j j ≠ 0)
    (hup : ∀ i c, i < n → c < n → i < c → mget L i c = 0)
    (hroot : ∀ t, t < n →
      r (updX (r alpha) beta (updRun r (r alpha) beta n L v t) t) * r (updX (r alpha) beta (updRun r (r alpha) beta n L v t) t)
        = updX (r alpha) beta (updRun r (r alpha) beta n L v t) t)
    (hok : (cholUpdate r alpha beta n L v).fail = false) :
    ∀ i k, i < n → k < n →
      sum n (fun c => mget (cholUpdate r alpha beta n L v).L i c * mget (cholUpdate r alpha beta n L v).L k c)
        = updTarget alpha beta n L v i k := by
  have hrun : cholUpdate r alpha beta n L v = updRun r (r alpha) beta n L v n := by
    unfold cholUpdate updRun updInit; simp [hb]
  rw [hrun] at hok ⊢
  have inv := updInv_run r (r alpha) alpha beta n L v ha ha0 hd hup hroot n (Nat.le_refl n) hok
  intro i k hi hk
  rw [← inv.main i k hi hk]
  have hwi : wHat n (updRun r (r alpha) beta n L v n) i = 0 := by unfold wHat; simp; intro h; omega
  rw [hwi]
  have : sum n (fun c => if c < n then mget (updRun r (r alpha) beta n L v n).L i c * mget (updRun r (r alpha) beta n L v n).L k c
        else alpha * (mget L i c * mget L k c))
      = sum n (fun c => mget (updRun r (r alpha) beta n L v n).L i c * mget (updRun r (r alpha) beta n L v n).L k c) :=
    sum_congr fun c hc => by simp [hc]
  rw [this]; ring

/-- `beta == 0`: the factor is scaled by `sqrt(alpha)`. -/
theorem cholUpdate_scale_correct (r : Rat → Rat) (alpha : Rat) (n : Nat) (L : Arr2) (v : Vec)
    (ha : r alpha * r alpha = alpha) :
    ∀ i k, i < n → k < n →
      sum n (fun c => mget (cholUpdate r alpha 0 n L v).L i c * mget (cholUpdate r alpha 0 n L v).L k c)
        = updTarget alpha 0 n L v i k := by
  intro i k hi hk
  unfold cholUpdate updTarget
  simp only [if_true]
  have : sum n (fun c => mget (matOf n n fun i j => r alpha * mget L i j) i c * mget (matOf n n fun i j => r alpha * mget L i j) k c)
      = sum n (fun c => alpha * (mget L i c * mget L k c)) := by
    apply sum_congr; intro c hc
    rw [mget_matOf, mget_matOf]; simp only [hi, hk, hc, and_self, if_true]
    have e : r alpha * mget L i c * (r alpha * mget L k c) = r alpha * r alpha * (mget L i c * mget L k c) := by ring
    rw [e, ha]
  rw [this, sum_mul_left]; ring

/-- non-vacuity: `n = 1`, `L = (1)`, `alpha = 1`, `beta = 3`, `v = (1)`: the value rooted is `4`, no exception,
and the root function below is exact on it -/
def rEx : Rat → Rat := fun x => if x = 4 then 2 else if x = 1 then 1 else 0

example : (cholUpdate rEx 1 3 1 #[#[1]] (fun _ => 1)).fail = false := by
  norm_num [cholUpdate, iter, updStep, mget, vget, vecOf, rEx, Array.getD]

example : updX (rEx 1) 3 (updRun rEx (rEx 1) 3 1 #[#[1]] (fun _ => 1) 0) 0 = 4 ∧ rEx 4 * rEx 4 = 4 := by
  norm_num [updX, updRun, updInit, iter, mget, vget, vecOf, rEx, Array.getD]

end SharkVerif.C02
