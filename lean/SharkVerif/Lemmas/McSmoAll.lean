import SharkVerif.Lemmas.McSmoTables
import SharkVerif.Lemmas.McSmoGrad
/-!
# All invariants of the `QpMcBoxDecomp` model, all operations, all histories

`FullInv` bundles `TablesInv` (mc_tables_inv), `BoxInv` (mc_box_inv), `GradInv` (mc_grad_inv) and
the standing assumptions on the constant data (`MWF`, `QSym`, `LabelsOK`, `0 ≤ C`).  It is
established by the constructor (`fullInv_init`), preserved by every valid operation
(`fullInv_apply`, including `shrink`, whose two loops are handled by induction over the number of
iterations) and therefore holds after every valid finite history (`fullInv_run`).
-/
namespace SharkVerif.Mc
open Finset

/-- the data an op never changes -/
def SameStatic (s s' : McBox Rat) : Prop :=
  s'.c = s.c ∧ s'.P = s.P ∧ s'.n = s.n ∧ s'.C = s.C ∧ s'.M = s.M ∧ s'.K = s.K ∧ s'.labels = s.labels

theorem SameStatic.refl (s : McBox Rat) : SameStatic s s := ⟨rfl, rfl, rfl, rfl, rfl, rfl, rfl⟩

theorem SameStatic.trans {s t u : McBox Rat} (h1 : SameStatic s t) (h2 : SameStatic t u) :
    SameStatic s u := by
  obtain ⟨a1, a2, a3, a4, a5, a6, a7⟩ := h1
  obtain ⟨b1, b2, b3, b4, b5, b6, b7⟩ := h2
  exact ⟨b1.trans a1, b2.trans a2, b3.trans a3, b4.trans a4, b5.trans a5, b6.trans a6, b7.trans a7⟩

/-! ### `SameStatic` for the individual operations -/

theorem sameStatic_gradientUpdate (s : McBox Rat) (r : Nat) (mu : Rat) (i : Nat) :
    SameStatic s (s.gradientUpdate r mu i) := ⟨rfl, rfl, rfl, rfl, rfl, rfl, rfl⟩

theorem sameStatic_updateSMO (s : McBox Rat) (v w : Nat) : SameStatic s (s.updateSMO v w) := by
  unfold McBox.updateSMO
  split
  · exact ⟨rfl, rfl, rfl, rfl, rfl, rfl, rfl⟩
  · exact ⟨rfl, rfl, rfl, rfl, rfl, rfl, rfl⟩

theorem sameStatic_deactivateVariable (s : McBox Rat) (v : Nat) :
    SameStatic s (s.deactivateVariable v) := ⟨rfl, rfl, rfl, rfl, rfl, rfl, rfl⟩

theorem sameStatic_deactivateExample (s : McBox Rat) (e : Nat) :
    SameStatic s (s.deactivateExample e) := by
  unfold McBox.deactivateExample
  dsimp only
  split
  · exact ⟨rfl, rfl, rfl, rfl, rfl, rfl, rfl⟩
  · exact ⟨rfl, rfl, rfl, rfl, rfl, rfl, rfl⟩

theorem sameStatic_unshrink (s : McBox Rat) : SameStatic s s.unshrink := by
  unfold McBox.unshrink
  dsimp only
  split
  · exact ⟨rfl, rfl, rfl, rfl, rfl, rfl, rfl⟩
  · exact ⟨rfl, rfl, rfl, rfl, rfl, rfl, rfl⟩

theorem sameStatic_addDeltaLinear (s : McBox Rat) (d : Nat → Nat → Rat) :
    SameStatic s (s.addDeltaLinear d) := ⟨rfl, rfl, rfl, rfl, rfl, rfl, rfl⟩

theorem sameStatic_svStep (A0 : Nat) (st : McBox Rat × Bool) (k : Nat) :
    SameStatic st.1 (svStep A0 st k).1 := by
  unfold svStep
  simp only
  split
  · exact sameStatic_deactivateVariable _ _
  · exact SameStatic.refl _

theorem sameStatic_svFold (A0 : Nat) (s : McBox Rat) (k : Nat) :
    SameStatic s ((List.range k).foldl (svStep A0) (s, false)).1 := by
  induction k with
  | zero => exact SameStatic.refl _
  | succ k ih =>
    rw [List.range_succ, List.foldl_append]
    exact ih.trans (sameStatic_svStep A0 _ k)

theorem sameStatic_shrinkVars (s : McBox Rat) : SameStatic s s.shrinkVars.1 := by
  rw [shrinkVars_eq]
  exact sameStatic_svFold _ _ _

theorem sameStatic_seStep (E0 : Nat) (s : McBox Rat) (k : Nat) :
    SameStatic s (seStep E0 s k) := by
  unfold seStep
  simp only
  split
  · exact sameStatic_deactivateExample _ _
  · exact SameStatic.refl _

theorem sameStatic_seFold (E0 : Nat) (s : McBox Rat) (k : Nat) :
    SameStatic s ((List.range k).foldl (seStep E0) s) := by
  induction k with
  | zero => exact SameStatic.refl _
  | succ k ih =>
    rw [List.range_succ, List.foldl_append]
    exact ih.trans (sameStatic_seStep E0 _ k)

theorem sameStatic_shrinkExamples (s : McBox Rat) : SameStatic s s.shrinkExamples := by
  rw [shrinkExamples_eq]
  exact sameStatic_seFold _ _ _

/-- the first stage of `shrink`: the optional `unshrink` with the flag set -/
def shrinkHead (s : McBox Rat) (eps : Rat) : McBox Rat :=
  if (!s.unshrinked) = true then
    if s.maxViolation < (10.0 : Rat) * eps then { s.unshrink with unshrinked := true } else s
  else s

/-- the two loops of `shrink` -/
def shrinkTail (s : McBox Rat) : McBox Rat :=
  if s.shrinkVars.2 then s.shrinkVars.1.shrinkExamples else s.shrinkVars.1

theorem shrink_eq (s : McBox Rat) (eps : Rat) :
    (s.shrink eps).1 = if (!s.useShrinking) = true then s else shrinkTail (shrinkHead s eps) := by
  unfold McBox.shrink shrinkTail shrinkHead
  by_cases hu : (!s.useShrinking) = true
  · rw [if_pos hu, if_pos hu]
  · rw [if_neg hu, if_neg hu]

theorem sameStatic_shrinkHead (s : McBox Rat) (eps : Rat) : SameStatic s (shrinkHead s eps) := by
  unfold shrinkHead
  split
  · split
    · exact (sameStatic_unshrink s).trans ⟨rfl, rfl, rfl, rfl, rfl, rfl, rfl⟩
    · exact SameStatic.refl _
  · exact SameStatic.refl _

theorem sameStatic_shrinkTail (s : McBox Rat) : SameStatic s (shrinkTail s) := by
  unfold shrinkTail
  split
  · exact (sameStatic_shrinkVars s).trans (sameStatic_shrinkExamples _)
  · exact sameStatic_shrinkVars s

theorem sameStatic_shrink (s : McBox Rat) (eps : Rat) : SameStatic s (s.shrink eps).1 := by
  rw [shrink_eq]
  split
  · exact SameStatic.refl _
  · exact (sameStatic_shrinkHead s eps).trans (sameStatic_shrinkTail _)

theorem sameStatic_apply (s : McBox Rat) (op : Op) : SameStatic s (s.apply op) := by
  cases op with
  | smo v w => exact sameStatic_updateSMO s v w
  | deactVar v => exact sameStatic_deactivateVariable s v
  | deactEx e => exact sameStatic_deactivateExample s e
  | shrink eps => exact sameStatic_shrink s eps
  | unshrink => exact sameStatic_unshrink s
  | addDelta d => exact sameStatic_addDeltaLinear s d

/-! ### transfer of the assumptions on the constant data -/

theorem MWF.transfer {s s' : McBox Rat} (h : MWF s) (hs : SameStatic s s') : MWF s' := by
  obtain ⟨_, hP, _, _, hM, _, _⟩ := hs
  unfold MWF
  rw [hM, hP]
  exact h

theorem QSym.transfer {s s' : McBox Rat} (h : QSym s) (hs : SameStatic s s') : QSym s' := by
  obtain ⟨hc, hP, _, _, hM, hK, _⟩ := hs
  unfold QSym McBox.Mget
  rw [hc, hP, hM, hK]
  exact h

theorem LabelsOK.transfer {s s' : McBox Rat} (h : LabelsOK s) (hs : SameStatic s s') :
    LabelsOK s' := by
  obtain ⟨hc, _, hn, _, _, _, hl⟩ := hs
  unfold LabelsOK
  rw [hc, hn, hl]
  exact h

/-- the conjunction of all invariants of the property (C16: mc_tables_inv, mc_box_inv, mc_grad_inv)
together with the standing assumptions on the constant data -/
structure FullInv (s : McBox Rat) : Prop where
  tables : TablesInv s
  box : BoxInv s
  grad : GradInv s
  mwf : MWF s
  qsym : QSym s
  labelsOK : LabelsOK s
  C_nonneg : 0 ≤ s.C

theorem fullInv_init (c P n : Nat) (C : Rat) (hC : 0 ≤ C) (M : Nat → Row Rat) (K : Nat → Nat → Rat)
    (labels : Nat → Nat) (linMat : Nat → Nat → Rat) (hP : 0 < P)
    (hM : ∀ r, ((M r).entries.map Prod.fst).Nodup ∧ ∀ en ∈ (M r).entries, en.1 < P)
    (hMsym : ∀ y p y' p', y < c → y' < c → p < P → p' < P →
      (M (c * (P * y + p) + y')).get p' = (M (c * (P * y' + p') + y)).get p)
    (hK : ∀ i j, K i j = K j i) (hl : ∀ i < n, labels i < c) :
    FullInv (McBox.init c P n C M K labels linMat) where
  tables := tablesInv_init c P n C M K labels linMat hP
  box := boxInv_init c P n C hC M K labels linMat
  grad := gradInv_init c P n C M K labels linMat
  mwf := hM
  qsym := ⟨hMsym, hK⟩
  labelsOK := hl
  C_nonneg := hC

/-- the three state invariants together -/
def Core (s : McBox Rat) : Prop := TablesInv s ∧ BoxInv s ∧ GradInv s

/-- if the three state invariants hold after an op, so does `FullInv` -/
theorem FullInv.of_core {s s' : McBox Rat} (h : FullInv s) (hs : SameStatic s s') (hc : Core s') :
    FullInv s' where
  tables := hc.1
  box := hc.2.1
  grad := hc.2.2
  mwf := h.mwf.transfer hs
  qsym := h.qsym.transfer hs
  labelsOK := h.labelsOK.transfer hs
  C_nonneg := by rw [hs.2.2.2.1]; exact h.C_nonneg

/-! ### `shrink` -/

theorem core_deactivateVariable (s : McBox Rat) (h : Core s) (v : Nat) (hv : v < s.activeVar) :
    Core (s.deactivateVariable v) :=
  ⟨tablesInv_deactivateVariable s h.1 v hv, boxInv_deactivateVariable s h.2.1 h.1 v hv,
    gradInv_deactivateVariable s h.1 h.2.2 v hv⟩

theorem core_deactivateExample (s : McBox Rat) (h : Core s) (e : Nat) (he : e < s.activeEx)
    (h0 : (s.ex e).active = 0) : Core (s.deactivateExample e) :=
  ⟨tablesInv_deactivateExample s h.1 e he h0, boxInv_deactivateExample s h.2.1 e,
    gradInv_deactivateExample s h.1 h.2.2 e he h0⟩

theorem svStep_core (A0 : Nat) (st : McBox Rat × Bool) (k : Nat) (h : Core st.1)
    (hA : A0 ≤ st.1.activeVar + k) (hk : k < A0) :
    Core (svStep A0 st k).1 ∧ A0 ≤ (svStep A0 st k).1.activeVar + (k + 1) := by
  unfold svStep
  simp only
  split
  · refine ⟨core_deactivateVariable _ h _ (by omega), ?_⟩
    simp only [deactivateVariable_activeVar]; omega
  · exact ⟨h, by omega⟩

theorem svFold_core (A0 : Nat) (s : McBox Rat) (h : Core s) (hA : s.activeVar = A0) :
    ∀ k, k ≤ A0 → Core ((List.range k).foldl (svStep A0) (s, false)).1 ∧
      A0 ≤ ((List.range k).foldl (svStep A0) (s, false)).1.activeVar + k := by
  intro k
  induction k with
  | zero => intro _; exact ⟨h, by simp [hA]⟩
  | succ k ih =>
    intro hk
    obtain ⟨h1, h2⟩ := ih (by omega)
    rw [List.range_succ, List.foldl_append]
    exact svStep_core A0 _ k h1 h2 (by omega)

theorem core_shrinkVars (s : McBox Rat) (h : Core s) : Core s.shrinkVars.1 := by
  rw [shrinkVars_eq]
  exact (svFold_core s.activeVar s h rfl s.activeVar (Nat.le_refl _)).1

theorem seStep_core (E0 : Nat) (s : McBox Rat) (k : Nat) (h : Core s)
    (hA : E0 ≤ s.activeEx + k) (hk : k < E0) :
    Core (seStep E0 s k) ∧ E0 ≤ (seStep E0 s k).activeEx + (k + 1) := by
  unfold seStep
  simp only
  split
  · rename_i h0
    refine ⟨core_deactivateExample _ h _ (by omega) (by simpa using h0), ?_⟩
    rw [deactivateExample_activeEx]; omega
  · exact ⟨h, by omega⟩

theorem seFold_core (E0 : Nat) (s : McBox Rat) (h : Core s) (hA : s.activeEx = E0) :
    ∀ k, k ≤ E0 → Core ((List.range k).foldl (seStep E0) s) ∧
      E0 ≤ ((List.range k).foldl (seStep E0) s).activeEx + k := by
  intro k
  induction k with
  | zero => intro _; exact ⟨h, by simp [hA]⟩
  | succ k ih =>
    intro hk
    obtain ⟨h1, h2⟩ := ih (by omega)
    rw [List.range_succ, List.foldl_append]
    exact seStep_core E0 _ k h1 h2 (by omega)

theorem core_shrinkExamples (s : McBox Rat) (h : Core s) : Core s.shrinkExamples := by
  rw [shrinkExamples_eq]
  exact (seFold_core s.activeEx s h rfl s.activeEx (Nat.le_refl _)).1

theorem core_shrinkTail (s : McBox Rat) (h : Core s) : Core (shrinkTail s) := by
  unfold shrinkTail
  split
  · exact core_shrinkExamples _ (core_shrinkVars _ h)
  · exact core_shrinkVars _ h

/-- setting the flag `bUnshrinked` changes nothing the invariants read -/
theorem core_setFlag (s : McBox Rat) (h : Core s) (b : Bool) : Core { s with unshrinked := b } :=
  ⟨h.1.congr rfl rfl rfl rfl rfl rfl rfl, fun v hv => h.2.1 v hv, fun v hv => h.2.2 v hv⟩

theorem core_unshrink (s : McBox Rat) (h : FullInv s) : Core s.unshrink :=
  ⟨tablesInv_unshrink s h.tables, boxInv_unshrink s h.box,
    gradInv_unshrink s h.tables h.mwf h.qsym h.labelsOK h.grad⟩

theorem core_shrinkHead (s : McBox Rat) (h : FullInv s) (eps : Rat) : Core (shrinkHead s eps) := by
  unfold shrinkHead
  split
  · split
    · exact core_setFlag _ (core_unshrink s h) true
    · exact ⟨h.tables, h.box, h.grad⟩
  · exact ⟨h.tables, h.box, h.grad⟩

theorem core_shrink (s : McBox Rat) (h : FullInv s) (eps : Rat) : Core (s.shrink eps).1 := by
  rw [shrink_eq]
  split
  · exact ⟨h.tables, h.box, h.grad⟩
  · exact core_shrinkTail _ (core_shrinkHead s h eps)

/-! ### all operations, all histories -/

theorem core_apply (s : McBox Rat) (h : FullInv s) (op : Op) (hv : op.valid s) :
    Core (s.apply op) := by
  cases op with
  | smo v w =>
    exact ⟨tablesInv_updateSMO s h.tables v w,
      boxInv_updateSMO s h.C_nonneg h.box v w (Nat.lt_of_lt_of_le hv.1 h.tables.aV_le)
        (Nat.lt_of_lt_of_le hv.2 h.tables.aV_le),
      gradInv_updateSMO s h.tables h.mwf h.qsym h.labelsOK h.grad v w hv.1 hv.2⟩
  | deactVar v => exact core_deactivateVariable s ⟨h.tables, h.box, h.grad⟩ v hv
  | deactEx e => exact core_deactivateExample s ⟨h.tables, h.box, h.grad⟩ e hv.1 hv.2
  | shrink eps => exact core_shrink s h eps
  | unshrink => exact core_unshrink s h
  | addDelta d =>
    exact ⟨tablesInv_addDeltaLinear s h.tables d, boxInv_addDeltaLinear s h.box d,
      gradInv_addDeltaLinear s h.tables h.grad d⟩

/-- every valid op preserves all invariants -/
theorem fullInv_apply (s : McBox Rat) (h : FullInv s) (op : Op) (hv : op.valid s) :
    FullInv (s.apply op) :=
  h.of_core (sameStatic_apply s op) (core_apply s h op hv)

/-- hence they hold after every valid finite history of operations (induction over the op list) -/
theorem fullInv_run (ops : List Op) :
    ∀ (s : McBox Rat), FullInv s → ValidRun s ops → FullInv (s.run ops) := by
  induction ops with
  | nil => intro s h _; exact h
  | cons op ops ih =>
    intro s h hr
    exact ih (s.apply op) (fullInv_apply s h op hr.1) hr.2

end SharkVerif.Mc
