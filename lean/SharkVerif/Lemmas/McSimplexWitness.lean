/-
Witness for finding F-C16-4 (root cause): the statement "shrink never deactivates a variable that violates the KKT
conditions" — `shrink_keeps_violator` for `QpMcBoxDecomp`, and what `QpSolver::solve` relies on between its two
selections of a pass — is FALSE for the model of `QpMcSimplexDecomp::shrink` (exact arithmetic, no rounding involved):
`updateVarsum` snaps `varsum` to `0` below `1e-14`, case 2 of `shrink` tests `varsum == 0`.
REMOVE this file (and `simplex_shrink_can_deactivate_violator` in Props/C16.lean) when the fix
`findings_proposed/C16-F4c-simplex-shrink-tiny-alpha.patch` is merged (see `C16-F4c-model-after-fix.diff`).
-/
import SharkVerif.Lemmas.McSimplex
import SharkVerif.Lemmas.McTables
namespace SharkVerif.Mc
open SharkVerif.Gen.McTables

namespace Witness

/-- the MMR problem with ONE example whose only variable holds `1e-15` (below the snapping threshold of
`updateVarsum`, so `varsum = 0`) and has gradient `-1`: the variable violates the KKT conditions (it can be decreased) -/
def dustState : McSx Rat :=
  { b := { (McBox.init 2 1 1 1 (fun r => (MMR_M 2).row r) (fun _ _ => 0) (fun _ => 0) (fun _ _ => -1) : McBox Rat) with
             alpha := fun _ => 1 / 1000000000000000, unshrinked := true },
    varsum := fun _ => 0 }

theorem sx_deactVar_activeVar (s : McSx Rat) (v : Nat) :
    (s.deactivateVariable v).b.activeVar = s.b.activeVar - 1 := by
  unfold McSx.deactivateVariable
  dsimp only
  split_ifs
  · show (McBox.deactivateExample _ _).activeVar = _
    unfold McBox.deactivateExample
    dsimp only
    split_ifs <;> rfl
  · rfl

theorem mvp : dustState.simplexMVP 0 = (-1, 0, -1, 0) := by
  rw [simplexMVP_eq]
  have h1 : (dustState.b.ex 0).active = 1 := rfl
  rw [h1]
  simp only [List.range_succ, List.range_zero, List.nil_append, List.foldl_cons, List.foldl_nil]
  unfold mvpStep
  have ha : dustState.b.alpha 0 = 1 / 1000000000000000 := rfl
  have hg : dustState.b.grad 0 = -1 := rfl
  have hv : (dustState.b.ex 0).avar 0 = 0 := rfl
  simp only [hv, ha, hg]
  norm_num

/-- **the property "shrink never deactivates a variable that violates the KKT conditions" fails for
`QpMcSimplexDecomp::shrink`** (it is `shrink_keeps_violator` for the box solver, and what the solve loop relies on):
in `dustState` variable 0 is active, positive and has a negative gradient, yet `shrink` deactivates everything. -/
theorem shrink_deactivates_violator :
    (0 < dustState.b.activeVar ∧ 0 < dustState.b.alpha 0 ∧ dustState.b.grad 0 < 0) ∧
    (dustState.shrink 1).1.b.activeVar = 0 := by
  refine ⟨⟨by decide, by show (0 : Rat) < 1 / 1000000000000000; norm_num, by show (-1 : Rat) < 0; norm_num⟩, ?_⟩
  rw [shrinkX_eq]
  have hu : (!dustState.b.useShrinking) = false := rfl
  rw [hu]
  simp only [Bool.false_eq_true, if_false]
  have hh : shrinkHeadX dustState 1 = dustState := by
    unfold shrinkHeadX
    have : (!dustState.b.unshrinked) = false := rfl
    rw [this]
    simp
  rw [hh]
  have hE : dustState.b.activeEx = 1 := rfl
  rw [hE]
  simp only [List.range_succ, List.range_zero, List.nil_append, List.foldl_cons, List.foldl_nil]
  unfold shrinkExStep
  have hvs : dustState.vsum 0 = 0 := rfl
  have hC : dustState.b.C = 1 := rfl
  simp only [hvs, hC]
  norm_num
  unfold McSx.shrinkCase2
  have h1 : (dustState.b.ex 0).active = 1 := rfl
  simp only [h1, List.range_succ, List.range_zero, List.nil_append, List.foldl_cons, List.foldl_nil]
  rw [mvp]
  norm_num
  rw [sx_deactVar_activeVar]
  rfl

end Witness

end SharkVerif.Mc
