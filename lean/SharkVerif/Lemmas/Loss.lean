/-
C06 helper lemmas: algebra of the loss models at the `Rat` instance.
-/
import Mathlib.Algebra.Order.Field.Rat
import Mathlib.Tactic.Ring
import Mathlib.Tactic.Linarith
import Mathlib.Tactic.FieldSimp
import Mathlib.Algebra.BigOperators.Group.List.Basic
import SharkVerif.Model.Loss
namespace SharkVerif.Loss
open Scalar

theorem sumL_eq_sum (l : List Rat) : sumL l = l.sum := by
  unfold sumL
  have : ∀ (acc : Rat), l.foldl (· + ·) acc = acc + l.sum := by
    induction l with
    | nil => intro acc; simp
    | cons x xs ih => intro acc; simp [List.foldl_cons, ih]; ring
  simpa using this 0

theorem half_eq : (half : Rat) = 1 / 2 := by simp [half, Scalar.dyadic]
theorem two_eq : (two : Rat) = 2 := by simp [two, Scalar.ofNat]

theorem smax_zero (a : Rat) : smax 0 a = max 0 a := by
  unfold smax
  split
  · rename_i h; rw [max_eq_right (le_of_lt h)]
  · rename_i h; rw [max_eq_left (not_lt.1 h)]

theorem sabs_eq (a : Rat) : sabs a = |a| := by
  unfold sabs
  split
  · rename_i h; rw [abs_of_neg h]
  · rename_i h; rw [abs_of_nonneg (not_lt.1 h)]

theorem sabs_sub_comm (a b : Rat) : sabs (a - b) = sabs (b - a) := by
  rw [sabs_eq, sabs_eq, abs_sub_comm]

theorem sqr_sub_comm (a b : Rat) : sqr (a - b) = sqr (b - a) := by unfold sqr; ring

/-- a batch of `n` rows of width `m` with one label per row -/
def WF {L : Type} (m : Nat) (labels : List L) (preds : List (List Rat)) : Prop :=
  labels.length = preds.length ∧ ∀ p ∈ preds, p.length = m

theorem zipWith_sum_singletons {L : Type} (f : L → List Rat → Rat) (ls : List L) (ps : List (List Rat)) :
    sumL (List.zipWith f ls ps) =
      (List.zipWith (fun l p => sumL (List.zipWith f [l] [p])) ls ps).sum := by
  rw [sumL_eq_sum]
  congr 1
  induction ls generalizing ps with
  | nil => simp
  | cons l ls ih =>
    cases ps with
    | nil => simp
    | cons p ps => simp [sumL, ih]

theorem normSqr_sub_comm (a b : List Rat) (h : a.length = b.length) :
    normSqr (zipSub a b) = normSqr (zipSub b a) := by
  unfold normSqr zipSub
  rw [sumL_eq_sum, sumL_eq_sum]
  congr 1
  induction a generalizing b with
  | nil => cases b <;> simp
  | cons x a ih =>
    cases b with
    | nil => simp at h
    | cons y b =>
      simp only [List.zipWith_cons_cons, List.map_cons]
      rw [sqr_sub_comm x y, ih b (by simpa using h)]

theorem zipWith_sum_mul {A B : Type} (c : Rat) (f : A → B → Rat) (ls : List A) (ps : List B) :
    c * (List.zipWith f ls ps).sum = (List.zipWith (fun l p => c * f l p) ls ps).sum := by
  induction ls generalizing ps with
  | nil => simp
  | cons l ls ih =>
    cases ps with
    | nil => simp
    | cons p ps => simp [mul_add, ih]

theorem zipWith_sum_div {A B : Type} (c : Rat) (f : A → B → Rat) (ls : List A) (ps : List B) :
    (List.zipWith f ls ps).sum / c = (List.zipWith (fun l p => f l p / c) ls ps).sum := by
  induction ls generalizing ps with
  | nil => simp
  | cons l ls ih =>
    cases ps with
    | nil => simp
    | cons p ps => simp [add_div, ih]

theorem map_sum_mul {A : Type} (c : Rat) (f : A → Rat) (l : List A) :
    (l.map fun a => c * f a).sum = c * (l.map f).sum := by
  induction l with
  | nil => simp
  | cons a l ih => simp [mul_add, ih]

theorem zipWith_congr' {A B C : Type} (f g : A → B → C) (ls : List A) (ps : List B)
    (h : ∀ l ∈ ls, ∀ p ∈ ps, f l p = g l p) : List.zipWith f ls ps = List.zipWith g ls ps := by
  induction ls generalizing ps with
  | nil => simp
  | cons l ls ih =>
    cases ps with
    | nil => simp
    | cons p ps =>
      simp only [List.zipWith_cons_cons]
      rw [h l (by simp) p (by simp), ih ps (fun a ha b hb => h a (by simp [ha]) b (by simp [hb]))]

end SharkVerif.Loss
