/-
C11: positive definiteness of the covariance matrix of the executable models, proved on the LIST-based
matrices the models (and the native driver) compute with — no detour through Mathlib's `Matrix`:

* `ent`, `Shape`, `qf` — entries, shape and quadratic form `Σᵢ Σⱼ xᵢ Mᵢⱼ xⱼ` of a `Mat Rat`;
* `qfE_combine` — the quadratic form of `α·A + β·u uᵀ + γ·B`;
* `ent_covUpdate`, `ent_rankMu_step` — entries of `CMA.covUpdate` / of one summand of `CMA.rankMu`;
* `rankMu_psd`, `covUpdate_psd`, `covUpdate_pd` — eq. (43) of `CMA::updatePopulation` keeps `C` symmetric positive
  (semi)definite;
* `vdCov_pd` — the VD-CMA parametrisation `D (I + v vᵀ) D` is symmetric positive definite for every `v` as soon as `D`
  has no zero entry.
-/
import SharkVerif.Model.CMA
import SharkVerif.Model.ES
import SharkVerif.Lemmas.ES
import Mathlib.Tactic.Linarith
import Mathlib.Tactic.Positivity
import Mathlib.Tactic.Ring
import Mathlib.Algebra.BigOperators.Ring.Finset
import Mathlib.Algebra.Order.BigOperators.Ring.Finset
namespace SharkVerif.CMACov
open SharkVerif.Opt SharkVerif.Opt.CMA SharkVerif.ES
open Finset

/-! ## entries, shape, quadratic form -/

/-- entry `(i, j)` of a list-of-rows matrix (0 outside) -/
def ent (M : Mat Rat) (i j : Nat) : Rat := (M.getD i []).getD j 0

/-- `n × n` -/
def Shape (n : Nat) (M : Mat Rat) : Prop := M.length = n ∧ ∀ r ∈ M, r.length = n

/-- quadratic form of an entry function on the first `n` coordinates -/
def qfE (n : Nat) (e : Nat → Nat → Rat) (x : Nat → Rat) : Rat :=
  ∑ i ∈ range n, ∑ j ∈ range n, x i * e i j * x j

def qf (n : Nat) (M : Mat Rat) (x : Nat → Rat) : Rat := qfE n (ent M) x

def SymmE (n : Nat) (e : Nat → Nat → Rat) : Prop := ∀ i j, i < n → j < n → e i j = e j i
def NonZero (n : Nat) (x : Nat → Rat) : Prop := ∃ i, i < n ∧ x i ≠ 0

/-- symmetric positive semidefinite `n × n` list matrix -/
def PSD (n : Nat) (M : Mat Rat) : Prop := Shape n M ∧ SymmE n (ent M) ∧ ∀ x, 0 ≤ qf n M x
/-- symmetric positive definite `n × n` list matrix -/
def PD (n : Nat) (M : Mat Rat) : Prop := Shape n M ∧ SymmE n (ent M) ∧ ∀ x, NonZero n x → 0 < qf n M x

theorem qfE_congr (n : Nat) (e e' : Nat → Nat → Rat) (h : ∀ i j, i < n → j < n → e i j = e' i j) (x : Nat → Rat) :
    qfE n e x = qfE n e' x := by
  unfold qfE
  refine sum_congr rfl fun i hi => sum_congr rfl fun j hj => ?_
  rw [h i j (mem_range.mp hi) (mem_range.mp hj)]

theorem qfE_zero_vec (n : Nat) (e : Nat → Nat → Rat) (x : Nat → Rat) (hx : ∀ i, i < n → x i = 0) : qfE n e x = 0 := by
  unfold qfE
  refine sum_eq_zero fun i hi => sum_eq_zero fun j _ => ?_
  rw [hx i (mem_range.mp hi)]; ring

theorem PD.psd {n : Nat} {M : Mat Rat} (h : PD n M) : PSD n M := by
  refine ⟨h.1, h.2.1, fun x => ?_⟩
  by_cases hx : NonZero n x
  · exact (h.2.2 x hx).le
  · have : ∀ i, i < n → x i = 0 := by
      intro i hi; by_contra hne; exact hx ⟨i, hi, hne⟩
    exact (qfE_zero_vec n _ x this).ge

/-- **the algebra of eq. (43)**: the quadratic form of `α·A + β·u uᵀ + γ·B` -/
theorem qfE_combine (n : Nat) (e a b : Nat → Nat → Rat) (u : Nat → Rat) (α β γ : Rat)
    (h : ∀ i j, i < n → j < n → e i j = α * a i j + β * (u i * u j) + γ * b i j) (x : Nat → Rat) :
    qfE n e x = α * qfE n a x + β * (∑ i ∈ range n, u i * x i) ^ 2 + γ * qfE n b x := by
  have e1 : qfE n e x = ∑ i ∈ range n, ∑ j ∈ range n,
      (α * (x i * a i j * x j) + β * ((u i * x i) * (u j * x j)) + γ * (x i * b i j * x j)) := by
    unfold qfE
    refine sum_congr rfl fun i hi => sum_congr rfl fun j hj => ?_
    rw [h i j (mem_range.mp hi) (mem_range.mp hj)]; ring
  rw [e1]
  unfold qfE
  rw [sq, sum_mul_sum]
  simp only [sum_add_distrib, mul_sum]

/-! ## list indexing -/

theorem getD_zipWith {β γ δ : Type} (f : β → γ → δ) (l1 : List β) (l2 : List γ) (i : Nat) (d1 : β) (d2 : γ) (d : δ)
    (h1 : i < l1.length) (h2 : i < l2.length) :
    (List.zipWith f l1 l2).getD i d = f (l1.getD i d1) (l2.getD i d2) := by
  induction l1 generalizing l2 i with
  | nil => simp at h1
  | cons a l ih =>
    cases l2 with
    | nil => simp at h2
    | cons b m =>
      cases i with
      | zero => simp
      | succ k =>
        simp only [List.zipWith_cons_cons, List.getD_cons_succ]
        exact ih m k (by simpa using h1) (by simpa using h2)

theorem getD_zip {β γ : Type} (l1 : List β) (l2 : List γ) (i : Nat) (d1 : β) (d2 : γ)
    (h1 : i < l1.length) (h2 : i < l2.length) :
    (List.zip l1 l2).getD i (d1, d2) = (l1.getD i d1, l2.getD i d2) := by
  unfold List.zip
  exact getD_zipWith Prod.mk l1 l2 i d1 d2 (d1, d2) h1 h2

theorem getD_lt {β : Type} (l : List β) (i : Nat) (d : β) (h : i < l.length) : l.getD i d = l[i] := by
  rw [List.getD_eq_getElem?_getD, List.getElem?_eq_getElem h]; rfl

theorem getD_ge {β : Type} (l : List β) (i : Nat) (d : β) (h : l.length ≤ i) : l.getD i d = d := by
  rw [List.getD_eq_getElem?_getD, List.getElem?_eq_none h]; rfl

theorem getD_mem {β : Type} (l : List β) (i : Nat) (d : β) (h : i < l.length) : l.getD i d ∈ l := by
  rw [getD_lt l i d h]; exact List.getElem_mem h

theorem row_length {n : Nat} {M : Mat Rat} (h : Shape n M) (i : Nat) (hi : i < n) : (M.getD i []).length = n :=
  h.2 _ (getD_mem M i [] (by rw [h.1]; exact hi))

/-! ## shapes -/

theorem shape_zipWith_rows {β : Type} (n : Nat) (M : Mat Rat) (v : List β) (g : Vec Rat → β → Vec Rat)
    (hM : Shape n M) (hv : v.length = n) (hg : ∀ r b, r.length = n → (g r b).length = n) :
    Shape n (List.zipWith g M v) := by
  refine ⟨by simp [hM.1, hv], ?_⟩
  intro r hr
  obtain ⟨i, hi, rfl⟩ := List.mem_iff_getElem.mp hr
  simp only [List.getElem_zipWith]
  exact hg _ _ (hM.2 _ (List.getElem_mem _))

theorem shape_zeros (n : Nat) : Shape n (List.replicate n (Vec.zeros n : Vec Rat)) := by
  refine ⟨by simp, ?_⟩
  intro r hr
  rw [List.eq_of_mem_replicate hr]; simp [Vec.zeros]

theorem ent_zeros (n i j : Nat) : ent (List.replicate n (Vec.zeros n : Vec Rat)) i j = 0 := by
  unfold ent
  by_cases hi : i < n
  · have : (List.replicate n (Vec.zeros n : Vec Rat)).getD i [] = Vec.zeros n := by
      rw [getD_lt _ _ _ (by simpa using hi)]; simp
    rw [this]
    by_cases hj : j < n
    · rw [getD_lt _ _ _ (by simpa [Vec.zeros] using hj)]; simp [Vec.zeros]
    · rw [getD_ge _ _ _ (by simpa [Vec.zeros] using hj)]
  · have : (List.replicate n (Vec.zeros n : Vec Rat)).getD i [] = [] := getD_ge _ _ _ (by simpa using hi)
    rw [this]; rfl

/-! ## the rank-μ matrix -/

/-- one summand of `rankMu`: `Z + w·d dᵀ` -/
def rankStep (Z : Mat Rat) (w : Rat) (d : Vec Rat) : Mat Rat :=
  List.zipWith (fun (row : Vec Rat) di => List.zipWith (fun zij dj => zij + w * (di * dj)) row d) Z d

theorem shape_rankStep (n : Nat) (Z : Mat Rat) (w : Rat) (d : Vec Rat) (hZ : Shape n Z) (hd : d.length = n) :
    Shape n (rankStep Z w d) :=
  shape_zipWith_rows n Z d _ hZ hd fun r _ hr => by simp [hr, hd]

theorem ent_rankStep (n : Nat) (Z : Mat Rat) (w : Rat) (d : Vec Rat) (hZ : Shape n Z) (hd : d.length = n)
    (i j : Nat) (hi : i < n) (hj : j < n) :
    ent (rankStep Z w d) i j = 1 * ent Z i j + w * (d.getD i 0 * d.getD j 0) + 0 * ent Z i j := by
  unfold ent rankStep
  rw [getD_zipWith _ Z d i [] 0 [] (by rw [hZ.1]; exact hi) (by rw [hd]; exact hi)]
  rw [getD_zipWith _ _ d j 0 0 0 (by rw [row_length hZ i hi]; exact hj) (by rw [hd]; exact hj)]
  ring

theorem rankMu_eq_foldl (n : Nat) (w : Vec Rat) (xs : List (Vec Rat)) (mean : Vec Rat) :
    rankMu n w xs mean = (List.zip w xs).foldl (fun Z (wx : Rat × Vec Rat) => rankStep Z wx.1 (Vec.sub wx.2 mean))
      (List.replicate n (Vec.zeros n)) := rfl

/-- the rank-μ matrix `Σ wᵢ (xᵢ − m)(xᵢ − m)ᵀ` with non-negative weights is symmetric positive semidefinite -/
theorem rankMu_psd (n : Nat) (w : Vec Rat) (xs : List (Vec Rat)) (mean : Vec Rat) (hw : ∀ a ∈ w, 0 ≤ a)
    (hxs : ∀ p ∈ xs, p.length = n) (hmean : mean.length = n) : PSD n (rankMu n w xs mean) := by
  rw [rankMu_eq_foldl]
  have hz : PSD n (List.replicate n (Vec.zeros n : Vec Rat)) := by
    refine ⟨shape_zeros n, fun i j _ _ => by rw [ent_zeros, ent_zeros], fun x => ?_⟩
    have : qf n (List.replicate n (Vec.zeros n : Vec Rat)) x = 0 := by
      unfold qf qfE
      refine sum_eq_zero fun i _ => sum_eq_zero fun j _ => ?_
      rw [ent_zeros]; ring
    rw [this]
  have hl : ∀ wx ∈ List.zip w xs, 0 ≤ wx.1 ∧ wx.2.length = n := by
    intro wx h
    obtain ⟨h1, h2⟩ := List.of_mem_zip h
    exact ⟨hw _ h1, hxs _ h2⟩
  generalize List.zip w xs = l at hl
  generalize (List.replicate n (Vec.zeros n : Vec Rat)) = Z0 at hz
  induction l generalizing Z0 with
  | nil => exact hz
  | cons a l ih =>
    simp only [List.foldl_cons]
    refine ih (fun wx h => hl wx (by simp [h])) _ ?_
    · have hd : (Vec.sub a.2 mean).length = n := by
        simp [Vec.sub, (hl a (by simp)).2, hmean]
      have hent := ent_rankStep n Z0 a.1 (Vec.sub a.2 mean) hz.1 hd
      refine ⟨shape_rankStep n Z0 a.1 _ hz.1 hd, ?_, fun x => ?_⟩
      · intro i j hi hj
        rw [hent i j hi hj, hent j i hj hi, hz.2.1 i j hi hj]; ring
      · have := qfE_combine n (ent (rankStep Z0 a.1 (Vec.sub a.2 mean))) (ent Z0) (ent Z0)
          (fun i => (Vec.sub a.2 mean).getD i 0) 1 a.1 0 hent x
        unfold qf; rw [this]
        have h0 := hz.2.2 x
        unfold qf at h0
        have hw0 := (hl a (by simp)).1
        have : 0 ≤ a.1 * (∑ i ∈ range n, (Vec.sub a.2 mean).getD i 0 * x i) ^ 2 := by positivity
        linarith

/-! ## eq. (43) -/

theorem shape_covUpdate (n : Nat) (c : Coeffs Rat) (δ σ : Rat) (C : Mat Rat) (pc : Vec Rat) (Z : Mat Rat)
    (hC : Shape n C) (hZ : Shape n Z) (hpc : pc.length = n) : Shape n (covUpdate c δ σ C pc Z) := by
  unfold covUpdate
  refine ⟨by simp [hC.1, hZ.1, hpc], ?_⟩
  intro r hr
  obtain ⟨i, hi, rfl⟩ := List.mem_iff_getElem.mp hr
  simp only [List.getElem_zipWith, List.getElem_zip, List.length_zipWith, List.length_zip]
  rw [hC.2 _ (List.getElem_mem _), hZ.2 _ (List.getElem_mem _), hpc]; simp

theorem ent_covUpdate (n : Nat) (c : Coeffs Rat) (δ σ : Rat) (C : Mat Rat) (pc : Vec Rat) (Z : Mat Rat)
    (hC : Shape n C) (hZ : Shape n Z) (hpc : pc.length = n) (i j : Nat) (hi : i < n) (hj : j < n) :
    ent (covUpdate c δ σ C pc Z) i j =
      (1 - c.c1 - c.cMu + c.c1 * δ) * ent C i j + c.c1 * (pc.getD i 0 * pc.getD j 0) + (c.cMu * 1 / (σ * σ)) * ent Z i j := by
  unfold ent covUpdate
  simp only [sone_rat]
  rw [getD_zipWith _ (List.zip C Z) pc i ([], []) 0 [] (by rw [List.length_zip, hC.1, hZ.1, Nat.min_self]; exact hi) (by rw [hpc]; exact hi)]
  rw [getD_zip C Z i [] [] (by rw [hC.1]; exact hi) (by rw [hZ.1]; exact hi)]
  simp only
  rw [getD_zipWith _ _ pc j (0, 0) 0 0
    (by rw [List.length_zip, row_length hC i hi, row_length hZ i hi, Nat.min_self]; exact hj) (by rw [hpc]; exact hj)]
  rw [getD_zip _ _ j 0 0 (by rw [row_length hC i hi]; exact hj) (by rw [row_length hZ i hi]; exact hj)]
  simp only
  ring

/-- eq. (43) keeps a symmetric positive semidefinite covariance symmetric positive semidefinite -/
theorem covUpdate_psd (n : Nat) (c : Coeffs Rat) (δ σ : Rat) (C : Mat Rat) (pc : Vec Rat) (Z : Mat Rat)
    (hC : PSD n C) (hZ : PSD n Z) (hpc : pc.length = n)
    (ha : 0 ≤ 1 - c.c1 - c.cMu + c.c1 * δ) (hc1 : 0 ≤ c.c1) (hcmu : 0 ≤ c.cMu) :
    PSD n (covUpdate c δ σ C pc Z) := by
  have hent := ent_covUpdate n c δ σ C pc Z hC.1 hZ.1 hpc
  have hcoef : 0 ≤ c.cMu * 1 / (σ * σ) := by
    have : 0 ≤ σ * σ := mul_self_nonneg σ
    positivity
  refine ⟨shape_covUpdate n c δ σ C pc Z hC.1 hZ.1 hpc, ?_, fun x => ?_⟩
  · intro i j hi hj
    rw [hent i j hi hj, hent j i hj hi, hC.2.1 i j hi hj, hZ.2.1 i j hi hj]; ring
  · have := qfE_combine n _ (ent C) (ent Z) (fun i => pc.getD i 0) _ c.c1 _ hent x
    unfold qf; rw [this]
    have h1 := hC.2.2 x; have h2 := hZ.2.2 x
    unfold qf at h1 h2
    have : 0 ≤ c.c1 * (∑ i ∈ range n, pc.getD i 0 * x i) ^ 2 := by positivity
    have := mul_nonneg ha h1
    have := mul_nonneg hcoef h2
    linarith

/-- eq. (43) keeps a symmetric positive definite covariance symmetric positive definite **as long as the old covariance
keeps a positive weight** -/
theorem covUpdate_pd (n : Nat) (c : Coeffs Rat) (δ σ : Rat) (C : Mat Rat) (pc : Vec Rat) (Z : Mat Rat)
    (hC : PD n C) (hZ : PSD n Z) (hpc : pc.length = n)
    (ha : 0 < 1 - c.c1 - c.cMu + c.c1 * δ) (hc1 : 0 ≤ c.c1) (hcmu : 0 ≤ c.cMu) :
    PD n (covUpdate c δ σ C pc Z) := by
  have hent := ent_covUpdate n c δ σ C pc Z hC.1 hZ.1 hpc
  have hcoef : 0 ≤ c.cMu * 1 / (σ * σ) := by
    have : 0 ≤ σ * σ := mul_self_nonneg σ
    positivity
  refine ⟨shape_covUpdate n c δ σ C pc Z hC.1 hZ.1 hpc, ?_, fun x hx => ?_⟩
  · intro i j hi hj
    rw [hent i j hi hj, hent j i hj hi, hC.2.1 i j hi hj, hZ.2.1 i j hi hj]; ring
  · have := qfE_combine n _ (ent C) (ent Z) (fun i => pc.getD i 0) _ c.c1 _ hent x
    unfold qf; rw [this]
    have h1 := hC.2.2 x hx; have h2 := hZ.2.2 x
    unfold qf at h1 h2
    have : 0 ≤ c.c1 * (∑ i ∈ range n, pc.getD i 0 * x i) ^ 2 := by positivity
    have := mul_pos ha h1
    have := mul_nonneg hcoef h2
    linarith

/-! ## VD-CMA: `C = D (I + v vᵀ) D` -/

/-- entry `(i,j)` of `D (I + v vᵀ) D` -/
def vdEnt (D v : Vec Rat) (i j : Nat) : Rat :=
  D.getD i 0 * ((if i = j then 1 else 0) + v.getD i 0 * v.getD j 0) * D.getD j 0

theorem vdEnt_symm (D v : Vec Rat) (i j : Nat) : vdEnt D v i j = vdEnt D v j i := by
  unfold vdEnt
  by_cases h : i = j
  · subst h; ring
  · have h' : ¬ j = i := fun e => h e.symm
    simp only [h, h', if_false]; ring

theorem qfE_vd (n : Nat) (D v : Vec Rat) (x : Nat → Rat) :
    qfE n (vdEnt D v) x = ∑ i ∈ range n, (D.getD i 0 * x i) ^ 2 + (∑ i ∈ range n, (v.getD i 0 * D.getD i 0) * x i) ^ 2 := by
  have h := qfE_combine n (vdEnt D v) (fun i j => if i = j then D.getD i 0 * D.getD j 0 else 0) (fun _ _ => 0)
    (fun i => v.getD i 0 * D.getD i 0) 1 1 0 (by
      intro i j _ _
      unfold vdEnt
      by_cases h : i = j
      · subst h; simp; ring
      · simp only [h, if_false]; ring) x
  rw [h]
  have : qfE n (fun i j => if i = j then D.getD i 0 * D.getD j 0 else 0) x = ∑ i ∈ range n, (D.getD i 0 * x i) ^ 2 := by
    unfold qfE
    refine sum_congr rfl fun i hi => ?_
    have : ∀ j ∈ range n, x i * (if i = j then D.getD i 0 * D.getD j 0 else 0) * x j =
        if i = j then (D.getD i 0 * x i) ^ 2 else 0 := by
      intro j _
      by_cases h : i = j
      · subst h; simp; ring
      · simp [h]
    rw [sum_congr rfl this, sum_ite_eq (range n) i]
    simp [hi]
  rw [this]; ring

/-- **vdCov_pd.**  For every dimension, every `v` and every `D` without zero entry, `D (I + v vᵀ) D` is symmetric and its
quadratic form is positive on every non-zero vector: the restricted covariance of VD-CMA is positive definite by
construction, whatever the update does to `v`. -/
theorem vdCov_pd (n : Nat) (D v : Vec Rat) (hD : ∀ i, i < n → D.getD i 0 ≠ 0) :
    SymmE n (vdEnt D v) ∧ ∀ x, NonZero n x → 0 < qfE n (vdEnt D v) x := by
  refine ⟨fun i j _ _ => vdEnt_symm D v i j, fun x hx => ?_⟩
  rw [qfE_vd]
  obtain ⟨k, hk, hxk⟩ := hx
  have h1 : 0 < ∑ i ∈ range n, (D.getD i 0 * x i) ^ 2 := by
    apply sum_pos' (fun i _ => sq_nonneg _)
    exact ⟨k, mem_range.mpr hk, by have := mul_ne_zero (hD k hk) hxk; positivity⟩
  have h2 : 0 ≤ (∑ i ∈ range n, (v.getD i 0 * D.getD i 0) * x i) ^ 2 := sq_nonneg _
  linarith

/-- and only then: a zero entry of `D` makes the form vanish on a coordinate vector -/
theorem vdCov_singular_of_zero (n : Nat) (D v : Vec Rat) (k : Nat) (hk : k < n) (h0 : D.getD k 0 = 0) :
    qfE n (vdEnt D v) (fun i => if i = k then 1 else 0) = 0 := by
  rw [qfE_vd]
  have e1 : ∑ i ∈ range n, (D.getD i 0 * (if i = k then (1 : Rat) else 0)) ^ 2 = 0 := by
    refine sum_eq_zero fun i _ => ?_
    by_cases h : i = k
    · subst h; rw [h0]; simp
    · simp [h]
  have e2 : ∑ i ∈ range n, (v.getD i 0 * D.getD i 0) * (if i = k then (1 : Rat) else 0) = 0 := by
    refine sum_eq_zero fun i _ => ?_
    by_cases h : i = k
    · subst h; rw [h0]; simp
    · simp [h]
  rw [e1, e2]; ring

end SharkVerif.CMACov
