/-
C04 (deep): the backward pass `Chain.backward` of a `ConcatenatedModel` of ANY length computes
the partial derivatives of the coefficient-weighted output sum (over `ℝ`), by induction over the
chain.  Layers: dense, element-wise neuron, softmax / normalizer row layers (so the final
theorems need no `Chain.Elementwise` hypothesis; that predicate is only provided for reference).

Deviation from the plan: `Chain.WF` is phrased through the auxiliary predicate `Layer.Fits`
(`WF ((l,_) :: rest) n ↔ l.Fits n ∧ WF rest l.nOut`); the meaning is unchanged, because a
neuron / rowact layer of width `k` has `nOut = k`.
-/
import SharkVerif.Lemmas.Models
import SharkVerif.Lemmas.ModelsDeriv
namespace SharkVerif.Models
open Scalar SharkVerif.Loss Finset

/-! ### definitions -/

/-- output dimension of a chain whose input has dimension `nIn` -/
def Chain.nOut : Chain ℝ → ℕ → ℕ
  | [], n => n
  | (l, _) :: rest, _ => Chain.nOut rest l.nOut

/-- a layer fits an input of dimension `n`: a dense layer reads exactly `n` columns, neuron / rowact
layers keep the dimension -/
def Layer.Fits : Layer ℝ → ℕ → Prop
  | .dense m, n => m.nIn = n
  | .neuron _ k, n => k = n
  | .rowact _ k, n => k = n

/-- shapes fit: a dense layer reads exactly the previous output dimension; neuron/rowact layers keep it -/
def Chain.WF : Chain ℝ → ℕ → Prop
  | [], _ => True
  | (l, _) :: rest, n => l.Fits n ∧ Chain.WF rest l.nOut

/-- only dense and element-wise neuron layers -/
def Chain.Elementwise : Chain ℝ → Prop
  | [] => True
  | (Layer.dense _, _) :: rest => Chain.Elementwise rest
  | (Layer.neuron _ _, _) :: rest => Chain.Elementwise rest
  | (Layer.rowact _ _, _) :: _ => False

/-- no pre-activation of a rectifier / fast-sigmoid layer sits on the kink 0, for the rows `i < B`;
a normalizer row has a non-zero norm -/
def Layer.NoKink (B : ℕ) : Layer ℝ → (ℕ → ℕ → ℝ) → Prop
  | .dense m, X => ∀ i, i < B → ∀ k, k < m.nOut → (m.act = .rectifier ∨ m.act = .fastSigmoid) → m.preB X i k ≠ 0
  | .neuron a n, X => ∀ i, i < B → ∀ k, k < n → (a = .rectifier ∨ a = .fastSigmoid) → X i k ≠ 0
  | .rowact .softmax _, _ => True
  | .rowact .normalizer n, X => ∀ i, i < B → (∑ k ∈ range n, X i k) ≠ 0

def Chain.NoKink (B : ℕ) : Chain ℝ → (ℕ → ℕ → ℝ) → Prop
  | [], _ => True
  | (l, _) :: rest, X => l.NoKink B X ∧ Chain.NoKink B rest (l.evalB Real.tanh Real.exp X)

/-- the coefficient-weighted sum of the outputs of a batch of `B` rows, input dimension `nIn` -/
noncomputable def Chain.objective (c : Chain ℝ) (B nIn : ℕ) (X C : ℕ → ℕ → ℝ) : ℝ :=
  ∑ i ∈ range B, ∑ k ∈ range (Chain.nOut c nIn), C i k * c.evalB Real.tanh Real.exp X i k

/-! ### structural lemmas -/
section Structural
set_option linter.unusedSectionVars false
variable {α : Type} [Scalar α] (tanh exp : α → α)

theorem Chain.evalB_nil (X : ℕ → ℕ → α) : Chain.evalB tanh exp ([] : Chain α) X = X := rfl

theorem Chain.evalB_cons (l : Layer α) (o : Bool) (rest : Chain α) (X : ℕ → ℕ → α) :
    Chain.evalB tanh exp ((l, o) :: rest) X = Chain.evalB tanh exp rest (l.evalB tanh exp X) := by
  cases rest with
  | nil => rfl
  | cons p rest =>
    obtain ⟨l', o'⟩ := p
    simp only [Chain.evalB, Chain.intermediates, List.getLast?_cons_cons]
    simp [List.getLast?_cons]

theorem Chain.evalB_append (c1 c2 : Chain α) (X : ℕ → ℕ → α) :
    Chain.evalB tanh exp (c1 ++ c2) X = Chain.evalB tanh exp c2 (Chain.evalB tanh exp c1 X) := by
  induction c1 generalizing X with
  | nil => rfl
  | cons p c1 ih =>
    obtain ⟨l, o⟩ := p
    rw [List.cons_append, Chain.evalB_cons, Chain.evalB_cons, ih]

theorem Chain.backward_nil (B : ℕ) (X C : ℕ → ℕ → α) :
    Chain.backward tanh exp B ([] : Chain α) X C = ([], C) := rfl

theorem Chain.backward_cons (B : ℕ) (l : Layer α) (o : Bool) (rest : Chain α) (X C : ℕ → ℕ → α) :
    Chain.backward tanh exp B ((l, o) :: rest) X C =
      ((if o then l.gradParams B X (l.evalB tanh exp X)
            (Chain.backward tanh exp B rest (l.evalB tanh exp X) C).2 else []) ++
          (Chain.backward tanh exp B rest (l.evalB tanh exp X) C).1,
        l.gradX X (l.evalB tanh exp X) (Chain.backward tanh exp B rest (l.evalB tanh exp X) C).2) := rfl

theorem Chain.backward_append (B : ℕ) (c1 c2 : Chain α) (X C : ℕ → ℕ → α) :
    Chain.backward tanh exp B (c1 ++ c2) X C =
      ((Chain.backward tanh exp B c1 X
            (Chain.backward tanh exp B c2 (Chain.evalB tanh exp c1 X) C).2).1 ++
          (Chain.backward tanh exp B c2 (Chain.evalB tanh exp c1 X) C).1,
        (Chain.backward tanh exp B c1 X
            (Chain.backward tanh exp B c2 (Chain.evalB tanh exp c1 X) C).2).2) := by
  induction c1 generalizing X with
  | nil => simp [Chain.backward_nil, Chain.evalB_nil]
  | cons p c1 ih =>
    obtain ⟨l, o⟩ := p
    rw [List.cons_append, Chain.backward_cons, Chain.backward_cons, Chain.evalB_cons, ih]
    simp only [List.append_assoc]

theorem Chain.params_nil : Chain.params ([] : Chain α) = [] := rfl

theorem Chain.params_cons (l : Layer α) (o : Bool) (rest : Chain α) :
    Chain.params ((l, o) :: rest) = (if o then l.params else []) ++ Chain.params rest := by
  simp [Chain.params]

theorem Chain.params_append (c1 c2 : Chain α) :
    Chain.params (c1 ++ c2) = Chain.params c1 ++ Chain.params c2 := by
  simp [Chain.params]

theorem Dense.params_length' (m : Dense α) :
    m.params.length = m.nOut * m.nIn + (if m.hasB then m.nOut else 0) := by
  unfold Dense.params
  rw [List.length_append, flatRows_length]
  split <;> simp

theorem Dense.gradParams_length (m : Dense α) (B : ℕ) (X out c : ℕ → ℕ → α) :
    (m.gradParams B X out c).length = m.params.length := by
  rw [Dense.params_length']
  unfold Dense.gradParams
  rw [List.length_append, flatRows_length]
  split <;> simp

theorem Layer.gradParams_length (l : Layer α) (B : ℕ) (X out c : ℕ → ℕ → α) :
    (l.gradParams B X out c).length = l.params.length := by
  cases l with
  | dense m => exact Dense.gradParams_length m B X out c
  | neuron a n => rfl
  | rowact k n => rfl

theorem Chain.backward_fst_length (B : ℕ) (c : Chain α) (X C : ℕ → ℕ → α) :
    (Chain.backward tanh exp B c X C).1.length = (Chain.params c).length := by
  induction c generalizing X with
  | nil => rfl
  | cons p c ih =>
    obtain ⟨l, o⟩ := p
    rw [Chain.backward_cons, Chain.params_cons, List.length_append, List.length_append, ih]
    cases o <;> simp [Layer.gradParams_length]

theorem getD_append_add {β : Type} (l1 l2 : List β) (n : ℕ) (d : β) :
    (l1 ++ l2).getD (l1.length + n) d = l2.getD n d := by
  rw [List.getD_eq_getElem?_getD, List.getD_eq_getElem?_getD, List.getElem?_append_right (by omega)]
  congr 2; omega

theorem getD_append_lt {β : Type} (l1 l2 : List β) (n : ℕ) (d : β) (h : n < l1.length) :
    (l1 ++ l2).getD n d = l1.getD n d := by
  rw [List.getD_eq_getElem?_getD, List.getD_eq_getElem?_getD, List.getElem?_append_left h]

end Structural

theorem Chain.nOut_cons (l : Layer ℝ) (o : Bool) (rest : Chain ℝ) (n : ℕ) :
    Chain.nOut ((l, o) :: rest) n = Chain.nOut rest l.nOut := rfl

theorem Chain.nOut_append (c1 c2 : Chain ℝ) (n : ℕ) :
    Chain.nOut (c1 ++ c2) n = Chain.nOut c2 (Chain.nOut c1 n) := by
  induction c1 generalizing n with
  | nil => rfl
  | cons p c1 ih =>
    obtain ⟨l, o⟩ := p
    rw [List.cons_append, Chain.nOut_cons, Chain.nOut_cons, ih]

theorem Chain.WF_cons (l : Layer ℝ) (o : Bool) (rest : Chain ℝ) (n : ℕ) :
    Chain.WF ((l, o) :: rest) n ↔ l.Fits n ∧ Chain.WF rest l.nOut := Iff.rfl

theorem Chain.WF_append (c1 c2 : Chain ℝ) (n : ℕ) :
    Chain.WF (c1 ++ c2) n ↔ Chain.WF c1 n ∧ Chain.WF c2 (Chain.nOut c1 n) := by
  induction c1 generalizing n with
  | nil => simp [Chain.WF, Chain.nOut]
  | cons p c1 ih =>
    obtain ⟨l, o⟩ := p
    rw [List.cons_append, Chain.WF_cons, Chain.WF_cons, Chain.nOut_cons, ih, and_assoc]

theorem Chain.NoKink_cons (B : ℕ) (l : Layer ℝ) (o : Bool) (rest : Chain ℝ) (X : ℕ → ℕ → ℝ) :
    Chain.NoKink B ((l, o) :: rest) X ↔
      l.NoKink B X ∧ Chain.NoKink B rest (l.evalB Real.tanh Real.exp X) := Iff.rfl

theorem Chain.NoKink_append (B : ℕ) (c1 c2 : Chain ℝ) (X : ℕ → ℕ → ℝ) :
    Chain.NoKink B (c1 ++ c2) X ↔
      Chain.NoKink B c1 X ∧ Chain.NoKink B c2 (Chain.evalB Real.tanh Real.exp c1 X) := by
  induction c1 generalizing X with
  | nil => simp [Chain.NoKink, Chain.evalB_nil]
  | cons p c1 ih =>
    obtain ⟨l, o⟩ := p
    rw [List.cons_append, Chain.NoKink_cons, Chain.NoKink_cons, Chain.evalB_cons, ih, and_assoc]

theorem Chain.Elementwise_append (c1 c2 : Chain ℝ) :
    Chain.Elementwise (c1 ++ c2) ↔ Chain.Elementwise c1 ∧ Chain.Elementwise c2 := by
  induction c1 with
  | nil => simp [Chain.Elementwise]
  | cons p c1 ih =>
    obtain ⟨l, o⟩ := p
    cases l with
    | dense m => simpa [Chain.Elementwise] using ih
    | neuron a n => simpa [Chain.Elementwise] using ih
    | rowact k n => simp [Chain.Elementwise]

/-! ### one pre-activation along a curve of inputs, weights and offset -/

theorem Dense.preB_eq_finset (m : Dense ℝ) (X : ℕ → ℕ → ℝ) (i k : ℕ) :
    m.preB X i k = (∑ j ∈ range m.nIn, X i j * m.W k j) + (if m.hasB then m.b k else 0) := by
  unfold Dense.preB
  simp only [sumR_eq_finset]
  split <;> simp

/-- `t ↦ act(Σ_j x_j(t)·w_j(t) + [b(t)])` has derivative `dfac(output)·(Σ_j (x_j'·w_j + x_j·w_j') + [b'])`
away from a kink of the activation -/
theorem preAct_hasDerivAt (a : Act) (n : ℕ) (hasB : Bool) (x w : ℝ → ℕ → ℝ) (b : ℝ → ℝ)
    (x' w' : ℕ → ℝ) (b' : ℝ) (t0 : ℝ)
    (hx : ∀ j, j < n → HasDerivAt (fun t => x t j) (x' j) t0)
    (hw : ∀ j, j < n → HasDerivAt (fun t => w t j) (w' j) t0)
    (hb : HasDerivAt b b' t0)
    (hnk : (a = .rectifier ∨ a = .fastSigmoid) →
      (∑ j ∈ range n, x t0 j * w t0 j) + (if hasB then b t0 else 0) ≠ 0) :
    HasDerivAt (fun t => a.eval Real.tanh ((∑ j ∈ range n, x t j * w t j) + (if hasB then b t else 0)))
      (a.dfac (a.eval Real.tanh ((∑ j ∈ range n, x t0 j * w t0 j) + (if hasB then b t0 else 0))) *
        ((∑ j ∈ range n, (x' j * w t0 j + x t0 j * w' j)) + (if hasB then b' else 0))) t0 := by
  have hsum : HasDerivAt (fun t => ∑ j ∈ range n, x t j * w t j)
      (∑ j ∈ range n, (x' j * w t0 j + x t0 j * w' j)) t0 := by
    apply HasDerivAt.fun_sum
    intro j hj
    exact (hx j (Finset.mem_range.1 hj)).mul (hw j (Finset.mem_range.1 hj))
  have hoff : HasDerivAt (fun t => if hasB then b t else 0) (if hasB then b' else 0) t0 := by
    cases hasB
    · simpa using hasDerivAt_const t0 (0 : ℝ)
    · simpa using hb
  have hpre := hsum.add hoff
  have hact := act_hasDerivAt a _ hnk
  exact HasDerivAt.comp (h₂ := a.eval Real.tanh) t0 hact hpre

/-! ### per-layer lemmas (curve form) -/

theorem Dense.curve_hasDerivAt (m : Dense ℝ) (B : ℕ) (X : ℝ → ℕ → ℕ → ℝ) (X' : ℕ → ℕ → ℝ) (t0 : ℝ)
    (hX : ∀ i, i < B → ∀ j, j < m.nIn → HasDerivAt (fun t => X t i j) (X' i j) t0)
    (hnk : (Layer.dense m).NoKink B (X t0)) (i : ℕ) (hi : i < B) (k : ℕ) (hk : k < m.nOut) :
    HasDerivAt (fun t => m.evalB Real.tanh (X t) i k)
      (m.act.dfac (m.evalB Real.tanh (X t0) i k) * ∑ j ∈ range m.nIn, X' i j * m.W k j) t0 := by
  have h := preAct_hasDerivAt m.act m.nIn m.hasB (fun t j => X t i j) (fun _ j => m.W k j) (fun _ => m.b k)
    (fun j => X' i j) (fun _ => 0) 0 t0 (fun j hj => hX i hi j hj) (fun j _ => hasDerivAt_const _ _)
    (hasDerivAt_const _ _) (by
      intro ha
      have := hnk i hi k hk ha
      rwa [Dense.preB_eq_finset] at this)
  simp only [← Dense.preB_eq_finset] at h
  simp only [mul_zero, add_zero, ite_self] at h
  exact h

/-- the per-layer lemma: along a differentiable curve of batch inputs the layer's outputs are
differentiable, and pairing the output derivative with coefficients `c` equals pairing the input
derivative with `gradX … c` (`gradX` is the transposed Jacobian applied to `c`) -/
theorem Layer.curve_hasDerivAt_dense (m : Dense ℝ) (B : ℕ) (X : ℝ → ℕ → ℕ → ℝ) (X' : ℕ → ℕ → ℝ) (t0 : ℝ)
    (hX : ∀ i, i < B → ∀ j, j < m.nIn → HasDerivAt (fun t => X t i j) (X' i j) t0)
    (hnk : (Layer.dense m).NoKink B (X t0)) :
    ∃ Y' : ℕ → ℕ → ℝ,
      (∀ i, i < B → ∀ k, k < m.nOut →
        HasDerivAt (fun t => (Layer.dense m).evalB Real.tanh Real.exp (X t) i k) (Y' i k) t0) ∧
      (∀ c : ℕ → ℕ → ℝ, ∑ i ∈ range B, ∑ k ∈ range m.nOut, c i k * Y' i k
        = ∑ i ∈ range B, ∑ j ∈ range m.nIn,
            (Layer.dense m).gradX (X t0) ((Layer.dense m).evalB Real.tanh Real.exp (X t0)) c i j * X' i j) := by
  refine ⟨fun i k => m.act.dfac (m.evalB Real.tanh (X t0) i k) * ∑ j ∈ range m.nIn, X' i j * m.W k j,
    fun i hi k hk => Dense.curve_hasDerivAt m B X X' t0 hX hnk i hi k hk, ?_⟩
  intro c
  apply Finset.sum_congr rfl
  intro i _
  simp only [Layer.gradX, Layer.evalB, Dense.gradX, Dense.delta, sumR_eq_finset]
  simp only [Finset.mul_sum, Finset.sum_mul]
  rw [Finset.sum_comm]
  apply Finset.sum_congr rfl
  intro j _
  apply Finset.sum_congr rfl
  intro k _
  ring

theorem Layer.curve_hasDerivAt_neuron (a : Act) (n : ℕ) (B : ℕ) (X : ℝ → ℕ → ℕ → ℝ) (X' : ℕ → ℕ → ℝ) (t0 : ℝ)
    (hX : ∀ i, i < B → ∀ j, j < n → HasDerivAt (fun t => X t i j) (X' i j) t0)
    (hnk : (Layer.neuron a n).NoKink B (X t0)) :
    ∃ Y' : ℕ → ℕ → ℝ,
      (∀ i, i < B → ∀ k, k < n →
        HasDerivAt (fun t => (Layer.neuron a n).evalB Real.tanh Real.exp (X t) i k) (Y' i k) t0) ∧
      (∀ c : ℕ → ℕ → ℝ, ∑ i ∈ range B, ∑ k ∈ range n, c i k * Y' i k
        = ∑ i ∈ range B, ∑ j ∈ range n,
            (Layer.neuron a n).gradX (X t0) ((Layer.neuron a n).evalB Real.tanh Real.exp (X t0)) c i j * X' i j) := by
  refine ⟨fun i k => a.dfac (a.eval Real.tanh (X t0 i k)) * X' i k, ?_, ?_⟩
  · intro i hi k hk
    have hact := act_hasDerivAt a (X t0 i k) (hnk i hi k hk)
    exact HasDerivAt.comp (h₂ := a.eval Real.tanh) t0 hact (hX i hi k hk)
  · intro c
    apply Finset.sum_congr rfl
    intro i _
    apply Finset.sum_congr rfl
    intro k _
    simp only [Layer.gradX, Layer.evalB]
    ring

theorem sum_sub_mul_const (n : ℕ) (f g : ℕ → ℝ) (A : ℝ) :
    ∑ k ∈ range n, (f k - g k * A) = ∑ k ∈ range n, f k - (∑ k ∈ range n, g k) * A := by
  rw [Finset.sum_sub_distrib, Finset.sum_mul]

theorem softmax_pairing (n : ℕ) (c out x' : ℕ → ℝ) :
    ∑ k ∈ range n, c k * (out k * (x' k - ∑ o ∈ range n, out o * x' o))
      = ∑ j ∈ range n, (c j - ∑ o ∈ range n, c o * out o) * out j * x' j := by
  generalize hD : ∑ o ∈ range n, out o * x' o = D
  generalize hA : ∑ o ∈ range n, c o * out o = A
  have hL : ∑ k ∈ range n, c k * (out k * (x' k - D))
      = ∑ k ∈ range n, (c k * out k * x' k - c k * out k * D) :=
    Finset.sum_congr rfl (fun k _ => by ring)
  have hR : ∑ j ∈ range n, (c j - A) * out j * x' j
      = ∑ j ∈ range n, (c j * out j * x' j - out j * x' j * A) :=
    Finset.sum_congr rfl (fun k _ => by ring)
  rw [hL, hR, sum_sub_mul_const, sum_sub_mul_const, hD, hA]
  ring

theorem normalizer_pairing (n : ℕ) (c out x' : ℕ → ℝ) (S : ℝ) :
    ∑ k ∈ range n, c k * ((x' k - out k * ∑ o ∈ range n, x' o) / S)
      = ∑ j ∈ range n, (c j - ∑ o ∈ range n, c o * out o) / S * x' j := by
  generalize hT : ∑ o ∈ range n, x' o = T
  generalize hA : ∑ o ∈ range n, c o * out o = A
  have hL : ∑ k ∈ range n, c k * ((x' k - out k * T) / S)
      = ∑ k ∈ range n, (c k * x' k / S - c k * out k * (T / S)) :=
    Finset.sum_congr rfl (fun k _ => by ring)
  have hR : ∑ j ∈ range n, (c j - A) / S * x' j
      = ∑ j ∈ range n, (c j * x' j / S - x' j * (A / S)) :=
    Finset.sum_congr rfl (fun k _ => by ring)
  rw [hL, hR, sum_sub_mul_const, sum_sub_mul_const, hT, hA]
  ring

theorem Layer.curve_hasDerivAt_softmax (n : ℕ) (B : ℕ) (X : ℝ → ℕ → ℕ → ℝ) (X' : ℕ → ℕ → ℝ) (t0 : ℝ)
    (hX : ∀ i, i < B → ∀ j, j < n → HasDerivAt (fun t => X t i j) (X' i j) t0) :
    ∃ Y' : ℕ → ℕ → ℝ,
      (∀ i, i < B → ∀ k, k < n →
        HasDerivAt (fun t => (Layer.rowact .softmax n).evalB Real.tanh Real.exp (X t) i k) (Y' i k) t0) ∧
      (∀ c : ℕ → ℕ → ℝ, ∑ i ∈ range B, ∑ k ∈ range n, c i k * Y' i k
        = ∑ i ∈ range B, ∑ j ∈ range n,
            (Layer.rowact .softmax n).gradX (X t0)
              ((Layer.rowact .softmax n).evalB Real.tanh Real.exp (X t0)) c i j * X' i j) := by
  refine ⟨fun i k => softmaxRow Real.exp n (X t0 i) k *
      (X' i k - ∑ o ∈ range n, softmaxRow Real.exp n (X t0 i) o * X' i o), ?_, ?_⟩
  · intro i hi k hk
    simp only [Layer.evalB, softmaxRow, sumR_eq_finset]
    have hS : 0 < ∑ o ∈ range n, Real.exp (X t0 i o) :=
      Finset.sum_pos (fun o _ => Real.exp_pos _) ⟨k, Finset.mem_range.2 hk⟩
    have hnum : HasDerivAt (fun t => Real.exp (X t i k)) (Real.exp (X t0 i k) * X' i k) t0 :=
      (hX i hi k hk).exp
    have hden : HasDerivAt (fun t => ∑ o ∈ range n, Real.exp (X t i o))
        (∑ o ∈ range n, Real.exp (X t0 i o) * X' i o) t0 := by
      apply HasDerivAt.fun_sum
      intro o ho
      exact (hX i hi o (Finset.mem_range.1 ho)).exp
    have hdiv := hnum.div hden (ne_of_gt hS)
    have hval : Real.exp (X t0 i k) / (∑ o ∈ range n, Real.exp (X t0 i o)) *
        (X' i k - ∑ o ∈ range n, Real.exp (X t0 i o) / (∑ o ∈ range n, Real.exp (X t0 i o)) * X' i o)
        = (Real.exp (X t0 i k) * X' i k * (∑ o ∈ range n, Real.exp (X t0 i o)) -
            Real.exp (X t0 i k) * ∑ o ∈ range n, Real.exp (X t0 i o) * X' i o) /
          (∑ o ∈ range n, Real.exp (X t0 i o)) ^ 2 := by
      have e : ∑ o ∈ range n, Real.exp (X t0 i o) / (∑ o ∈ range n, Real.exp (X t0 i o)) * X' i o
          = (∑ o ∈ range n, Real.exp (X t0 i o) * X' i o) / (∑ o ∈ range n, Real.exp (X t0 i o)) := by
        rw [Finset.sum_div]; apply Finset.sum_congr rfl; intro o _; ring
      rw [e]
      generalize (∑ o ∈ range n, Real.exp (X t0 i o) * X' i o) = D
      generalize (∑ o ∈ range n, Real.exp (X t0 i o)) = S at hS ⊢
      have hne : S ≠ 0 := ne_of_gt hS
      field_simp
    rw [hval]
    exact hdiv
  · intro c
    apply Finset.sum_congr rfl
    intro i _
    simp only [Layer.gradX, Layer.evalB, softmaxDeriv, sumR_eq_finset]
    exact softmax_pairing n (c i) (softmaxRow Real.exp n (X t0 i)) (X' i)

theorem Layer.curve_hasDerivAt_normalizer (n : ℕ) (B : ℕ) (X : ℝ → ℕ → ℕ → ℝ) (X' : ℕ → ℕ → ℝ) (t0 : ℝ)
    (hX : ∀ i, i < B → ∀ j, j < n → HasDerivAt (fun t => X t i j) (X' i j) t0)
    (hnk : (Layer.rowact .normalizer n).NoKink B (X t0)) :
    ∃ Y' : ℕ → ℕ → ℝ,
      (∀ i, i < B → ∀ k, k < n →
        HasDerivAt (fun t => (Layer.rowact .normalizer n).evalB Real.tanh Real.exp (X t) i k) (Y' i k) t0) ∧
      (∀ c : ℕ → ℕ → ℝ, ∑ i ∈ range B, ∑ k ∈ range n, c i k * Y' i k
        = ∑ i ∈ range B, ∑ j ∈ range n,
            (Layer.rowact .normalizer n).gradX (X t0)
              ((Layer.rowact .normalizer n).evalB Real.tanh Real.exp (X t0)) c i j * X' i j) := by
  refine ⟨fun i k => (X' i k - normalizeRow n (X t0 i) k * ∑ o ∈ range n, X' i o) /
      (∑ o ∈ range n, X t0 i o), ?_, ?_⟩
  · intro i hi k hk
    simp only [Layer.evalB, normalizeRow, sumR_eq_finset]
    have hS : (∑ o ∈ range n, X t0 i o) ≠ 0 := hnk i hi
    have hden : HasDerivAt (fun t => ∑ o ∈ range n, X t i o) (∑ o ∈ range n, X' i o) t0 := by
      apply HasDerivAt.fun_sum
      intro o ho
      exact hX i hi o (Finset.mem_range.1 ho)
    have hdiv := (hX i hi k hk).div hden hS
    have hval : (X' i k - X t0 i k / (∑ o ∈ range n, X t0 i o) * ∑ o ∈ range n, X' i o) /
          (∑ o ∈ range n, X t0 i o)
        = (X' i k * (∑ o ∈ range n, X t0 i o) - X t0 i k * ∑ o ∈ range n, X' i o) /
          (∑ o ∈ range n, X t0 i o) ^ 2 := by
      generalize (∑ o ∈ range n, X' i o) = T
      generalize (∑ o ∈ range n, X t0 i o) = S at hS ⊢
      field_simp
    rw [hval]
    exact hdiv
  · intro c
    apply Finset.sum_congr rfl
    intro i _
    simp only [Layer.gradX, Layer.evalB, normalizeDeriv, sumR_eq_finset]
    exact normalizer_pairing n (c i) (normalizeRow n (X t0 i)) (X' i) _

/-- **per-layer lemma**, all layer kinds -/
theorem Layer.curve_hasDerivAt (l : Layer ℝ) (B nIn : ℕ) (X : ℝ → ℕ → ℕ → ℝ) (X' : ℕ → ℕ → ℝ) (t0 : ℝ)
    (hfit : l.Fits nIn)
    (hX : ∀ i, i < B → ∀ j, j < nIn → HasDerivAt (fun t => X t i j) (X' i j) t0)
    (hnk : l.NoKink B (X t0)) :
    ∃ Y' : ℕ → ℕ → ℝ,
      (∀ i, i < B → ∀ k, k < l.nOut →
        HasDerivAt (fun t => l.evalB Real.tanh Real.exp (X t) i k) (Y' i k) t0) ∧
      (∀ c : ℕ → ℕ → ℝ, ∑ i ∈ range B, ∑ k ∈ range l.nOut, c i k * Y' i k
        = ∑ i ∈ range B, ∑ j ∈ range nIn,
            l.gradX (X t0) (l.evalB Real.tanh Real.exp (X t0)) c i j * X' i j) := by
  cases l with
  | dense m =>
    have : m.nIn = nIn := hfit
    subst this
    exact Layer.curve_hasDerivAt_dense m B X X' t0 hX hnk
  | neuron a n =>
    have : n = nIn := hfit
    subst this
    exact Layer.curve_hasDerivAt_neuron a n B X X' t0 hX hnk
  | rowact kd n =>
    have : n = nIn := hfit
    subst this
    cases kd with
    | softmax => exact Layer.curve_hasDerivAt_softmax n B X X' t0 hX
    | normalizer => exact Layer.curve_hasDerivAt_normalizer n B X X' t0 hX hnk

/-! ### the main induction -/

/-- **backward pass = derivative along any differentiable curve of batch inputs**, for chains of
any length: the input-coefficient matrix returned by `Chain.backward`, paired with the velocity
`X'` of the input curve, is the derivative of the coefficient-weighted output sum -/
theorem Chain.curve_hasDerivAt (B : ℕ) (t0 : ℝ) :
    ∀ (c : Chain ℝ) (nIn : ℕ) (X : ℝ → ℕ → ℕ → ℝ) (X' : ℕ → ℕ → ℝ),
      Chain.WF c nIn →
      (∀ i, i < B → ∀ j, j < nIn → HasDerivAt (fun t => X t i j) (X' i j) t0) →
      Chain.NoKink B c (X t0) → ∀ C : ℕ → ℕ → ℝ,
      HasDerivAt (fun t => ∑ i ∈ range B, ∑ k ∈ range (Chain.nOut c nIn),
          C i k * Chain.evalB Real.tanh Real.exp c (X t) i k)
        (∑ i ∈ range B, ∑ j ∈ range nIn,
          (Chain.backward Real.tanh Real.exp B c (X t0) C).2 i j * X' i j) t0
  | [], nIn, X, X', _, hX, _, C => by
    simp only [Chain.evalB_nil, Chain.nOut, Chain.backward_nil]
    apply HasDerivAt.fun_sum
    intro i hi
    apply HasDerivAt.fun_sum
    intro j hj
    exact (hX i (Finset.mem_range.1 hi) j (Finset.mem_range.1 hj)).const_mul (C i j)
  | (l, o) :: rest, nIn, X, X', hwf, hX, hnk, C => by
    obtain ⟨hfit, hwf'⟩ := hwf
    obtain ⟨hnkl, hnk'⟩ := hnk
    obtain ⟨Y', hY, hid⟩ := Layer.curve_hasDerivAt l B nIn X X' t0 hfit hX hnkl
    have ih := Chain.curve_hasDerivAt B t0 rest l.nOut (fun t => l.evalB Real.tanh Real.exp (X t)) Y'
      hwf' hY hnk' C
    simp only [Chain.evalB_cons, Chain.nOut_cons, Chain.backward_cons]
    rw [← hid]
    exact ih

/-- the same with the value of the curve at `t0` named `X0` -/
theorem Chain.curve_hasDerivAt' (B : ℕ) (t0 : ℝ) (c : Chain ℝ) (nIn : ℕ) (X : ℝ → ℕ → ℕ → ℝ)
    (X' X0 : ℕ → ℕ → ℝ) (hX0 : X t0 = X0) (hwf : Chain.WF c nIn)
    (hX : ∀ i, i < B → ∀ j, j < nIn → HasDerivAt (fun t => X t i j) (X' i j) t0)
    (hnk : Chain.NoKink B c X0) (C : ℕ → ℕ → ℝ) :
    HasDerivAt (fun t => ∑ i ∈ range B, ∑ k ∈ range (Chain.nOut c nIn),
        C i k * Chain.evalB Real.tanh Real.exp c (X t) i k)
      (∑ i ∈ range B, ∑ j ∈ range nIn,
        (Chain.backward Real.tanh Real.exp B c X0 C).2 i j * X' i j) t0 := by
  subst hX0
  exact Chain.curve_hasDerivAt B t0 c nIn X X' hwf hX hnk C

/-! ### final theorems -/

/-- **weighted input derivative of a chain of any length**: entry `(i0,j0)` of the second component
of `Chain.backward` is the partial derivative of the weighted output sum w.r.t. `X[i0][j0]` -/
theorem Chain.input_derivative_correct (c : Chain ℝ) (B nIn : ℕ) (X C : ℕ → ℕ → ℝ) (i0 j0 : ℕ)
    (hi0 : i0 < B) (hj0 : j0 < nIn) (hwf : Chain.WF c nIn) (hnk : Chain.NoKink B c X) :
    HasDerivAt (fun t => c.objective B nIn (fun i j => if i = i0 ∧ j = j0 then t else X i j) C)
      ((c.backward Real.tanh Real.exp B X C).2 i0 j0) (X i0 j0) := by
  have hX0 : (fun (t : ℝ) i j => if i = i0 ∧ j = j0 then t else X i j) (X i0 j0) = X := by
    funext i j
    simp only
    split
    · rename_i h; rw [h.1, h.2]
    · rfl
  have h := Chain.curve_hasDerivAt' B (X i0 j0) c nIn
    (fun t i j => if i = i0 ∧ j = j0 then t else X i j)
    (fun i j => if i = i0 ∧ j = j0 then 1 else 0) X hX0 hwf (by
      intro i _ j _
      by_cases h : i = i0 ∧ j = j0
      · simp only [h, and_self, ↓reduceIte]; exact hasDerivAt_id' _
      · simp only [h, ↓reduceIte]; exact hasDerivAt_const _ _) hnk C
  have hval : (∑ i ∈ range B, ∑ j ∈ range nIn,
      (Chain.backward Real.tanh Real.exp B c X C).2 i j * (if i = i0 ∧ j = j0 then (1 : ℝ) else 0))
      = (Chain.backward Real.tanh Real.exp B c X C).2 i0 j0 := by
    rw [Finset.sum_eq_single i0]
    · rw [Finset.sum_eq_single j0]
      · simp
      · intro j _ hj; simp [hj]
      · intro h; exact absurd (Finset.mem_range.2 hj0) h
    · intro i _ hi; simp [hi]
    · intro h; exact absurd (Finset.mem_range.2 hi0) h
  rw [hval] at h
  exact h

/-! ### position of a dense layer's parameters / gradient inside the chain's vectors -/

theorem flat_index_lt {a b k j : ℕ} (hk : k < a) (hj : j < b) : k * b + j < a * b := by
  calc k * b + j < k * b + b := by omega
    _ = (k + 1) * b := by rw [Nat.succ_mul]
    _ ≤ a * b := Nat.mul_le_mul_right b hk

theorem Dense.params_getD_weight (m : Dense ℝ) (d : ℝ) (k j : ℕ) (hk : k < m.nOut) (hj : j < m.nIn) :
    m.params.getD (k * m.nIn + j) d = m.W k j := by
  unfold Dense.params
  rw [getD_append_lt _ _ _ _ (by rw [flatRows_length]; exact flat_index_lt hk hj)]
  exact flatRows_getD m.nOut m.nIn m.W d k j hk hj

theorem Dense.params_getD_offset (m : Dense ℝ) (d : ℝ) (k : ℕ) (hk : k < m.nOut) (hb : m.hasB = true) :
    m.params.getD (m.nOut * m.nIn + k) d = m.b k := by
  unfold Dense.params
  have := getD_append_add ((List.range m.nOut).flatMap fun k => (List.range m.nIn).map fun j => m.W k j)
    (if m.hasB then (List.range m.nOut).map m.b else []) k d
  rw [flatRows_length] at this
  rw [this]
  simp [hb, hk]

theorem Dense.gradParams_getD_weight (m : Dense ℝ) (B : ℕ) (X out c : ℕ → ℕ → ℝ) (d : ℝ) (k j : ℕ)
    (hk : k < m.nOut) (hj : j < m.nIn) :
    (m.gradParams B X out c).getD (k * m.nIn + j) d = m.gradW B X out c k j := by
  unfold Dense.gradParams
  rw [getD_append_lt _ _ _ _ (by rw [flatRows_length]; exact flat_index_lt hk hj)]
  exact flatRows_getD m.nOut m.nIn (fun k j => m.gradW B X out c k j) d k j hk hj

theorem Dense.gradParams_getD_offset (m : Dense ℝ) (B : ℕ) (X out c : ℕ → ℕ → ℝ) (d : ℝ) (k : ℕ)
    (hk : k < m.nOut) (hb : m.hasB = true) :
    (m.gradParams B X out c).getD (m.nOut * m.nIn + k) d = m.gradB B out c k := by
  unfold Dense.gradParams
  have := getD_append_add
    ((List.range m.nOut).flatMap fun k => (List.range m.nIn).map fun j => m.gradW B X out c k j)
    (if m.hasB then (List.range m.nOut).map (m.gradB B out c) else []) k d
  rw [flatRows_length] at this
  rw [this]
  simp [hb, hk]

/-- the parameters of an optimised dense layer sit at offset `pre.params.length` of `parameterVector()` -/
theorem Chain.params_getD_mid (pre post : Chain ℝ) (m : Dense ℝ) (idx : ℕ) (d : ℝ)
    (hidx : idx < m.params.length) :
    (Chain.params (pre ++ (Layer.dense m, true) :: post)).getD ((Chain.params pre).length + idx) d
      = m.params.getD idx d := by
  rw [Chain.params_append, getD_append_add, Chain.params_cons]
  simp only [if_true]
  exact getD_append_lt _ _ _ _ hidx

/-- … and so does its gradient inside the gradient returned by `Chain.backward` -/
theorem Chain.backward_getD_mid (B : ℕ) (pre post : Chain ℝ) (m : Dense ℝ) (X C : ℕ → ℕ → ℝ)
    (idx : ℕ) (d : ℝ) (hidx : idx < m.params.length) :
    (Chain.backward Real.tanh Real.exp B (pre ++ (Layer.dense m, true) :: post) X C).1.getD
        ((Chain.params pre).length + idx) d
      = (m.gradParams B (Chain.evalB Real.tanh Real.exp pre X)
          (m.evalB Real.tanh (Chain.evalB Real.tanh Real.exp pre X))
          (Chain.backward Real.tanh Real.exp B post
            (m.evalB Real.tanh (Chain.evalB Real.tanh Real.exp pre X)) C).2).getD idx d := by
  rw [Chain.backward_append]
  simp only
  rw [← Chain.backward_fst_length Real.tanh Real.exp B pre X
    (Chain.backward Real.tanh Real.exp B ((Layer.dense m, true) :: post)
      (Chain.evalB Real.tanh Real.exp pre X) C).2, getD_append_add, Chain.backward_cons]
  simp only [if_true]
  exact getD_append_lt _ _ _ _ (by rw [Layer.gradParams_length]; exact hidx)

/-! ### a curve of layers in the middle of a chain -/

/-- if the layer in the middle of a chain moves along a curve `l t` (same output dimension) such
that its outputs on the (constant) output `Z` of `pre` are differentiable with derivative `Y'`,
then the weighted output sum of the whole chain has derivative `⟨cIn, Y'⟩`, where `cIn` are the
coefficients `Chain.backward` delivers at the output of that layer -/
theorem Chain.mid_curve_hasDerivAt (pre post : Chain ℝ) (l : ℝ → Layer ℝ) (l0 : Layer ℝ) (o : Bool)
    (B nIn : ℕ) (X C : ℕ → ℕ → ℝ) (Y' : ℕ → ℕ → ℝ) (t0 : ℝ)
    (hl0 : l t0 = l0) (hn : ∀ t, (l t).nOut = l0.nOut)
    (hwf : Chain.WF (pre ++ (l0, o) :: post) nIn)
    (hnk : Chain.NoKink B (pre ++ (l0, o) :: post) X)
    (hY : ∀ i, i < B → ∀ k, k < l0.nOut →
      HasDerivAt (fun t => (l t).evalB Real.tanh Real.exp (Chain.evalB Real.tanh Real.exp pre X) i k)
        (Y' i k) t0) :
    HasDerivAt (fun t => Chain.objective (pre ++ (l t, o) :: post) B nIn X C)
      (∑ i ∈ range B, ∑ k ∈ range l0.nOut,
        (Chain.backward Real.tanh Real.exp B post
          (l0.evalB Real.tanh Real.exp (Chain.evalB Real.tanh Real.exp pre X)) C).2 i k * Y' i k) t0 := by
  rw [Chain.WF_append, Chain.WF_cons] at hwf
  rw [Chain.NoKink_append, Chain.NoKink_cons] at hnk
  have h := Chain.curve_hasDerivAt' B t0 post l0.nOut
    (fun t => (l t).evalB Real.tanh Real.exp (Chain.evalB Real.tanh Real.exp pre X)) Y'
    (l0.evalB Real.tanh Real.exp (Chain.evalB Real.tanh Real.exp pre X)) (by simp only [hl0])
    hwf.2.2 hY hnk.2.2 C
  have hfun : (fun t => Chain.objective (pre ++ (l t, o) :: post) B nIn X C) =
      fun t => ∑ i ∈ range B, ∑ k ∈ range (Chain.nOut post l0.nOut), C i k *
        Chain.evalB Real.tanh Real.exp post
          ((l t).evalB Real.tanh Real.exp (Chain.evalB Real.tanh Real.exp pre X)) i k := by
    funext t
    unfold Chain.objective
    rw [Chain.nOut_append, Chain.nOut_cons, hn t, Chain.evalB_append, Chain.evalB_cons]
  rw [hfun]
  exact h

/-! ### final theorems 2 and 3 -/

/-- **weight gradient of a dense layer anywhere in a chain**: the entry of the gradient returned by
`Chain.backward` at position `pre.params.length + (k0·nIn + j0)` is the partial derivative of the
weighted output sum w.r.t. the weight `W[k0][j0]` of the (optimised) dense layer `m` -/
theorem Chain.weight_derivative_correct (pre post : Chain ℝ) (m : Dense ℝ) (B nIn : ℕ)
    (X C : ℕ → ℕ → ℝ) (k0 j0 : ℕ) (hk0 : k0 < m.nOut) (hj0 : j0 < m.nIn)
    (hwf : Chain.WF (pre ++ (Layer.dense m, true) :: post) nIn)
    (hnk : Chain.NoKink B (pre ++ (Layer.dense m, true) :: post) X) :
    HasDerivAt (fun t => Chain.objective
        (pre ++ (Layer.dense { m with W := fun k j => if k = k0 ∧ j = j0 then t else m.W k j }, true) :: post)
        B nIn X C)
      ((Chain.backward Real.tanh Real.exp B (pre ++ (Layer.dense m, true) :: post) X C).1.getD
        ((Chain.params pre).length + (k0 * m.nIn + j0)) 0) (m.W k0 j0) := by
  have hnkm : (Layer.dense m).NoKink B (Chain.evalB Real.tanh Real.exp pre X) := by
    have := hnk; rw [Chain.NoKink_append, Chain.NoKink_cons] at this; exact this.2.1
  have hidx : k0 * m.nIn + j0 < m.params.length := by
    rw [Dense.params_length']; have := flat_index_lt hk0 hj0; omega
  rw [Chain.backward_getD_mid B pre post m X C _ 0 hidx, Dense.gradParams_getD_weight m _ _ _ _ 0 k0 j0 hk0 hj0]
  generalize hZ : Chain.evalB Real.tanh Real.exp pre X = Z at hnkm ⊢
  have hw0 : ∀ k j, (if k = k0 ∧ j = j0 then m.W k0 j0 else m.W k j) = m.W k j := by
    intro k j; split
    · rename_i h; rw [h.1, h.2]
    · rfl
  have hl0 : (fun t => Layer.dense { m with W := fun k j => if k = k0 ∧ j = j0 then t else m.W k j })
      (m.W k0 j0) = Layer.dense m := by
    simp only [hw0]
  have h := Chain.mid_curve_hasDerivAt pre post
    (fun t => Layer.dense { m with W := fun k j => if k = k0 ∧ j = j0 then t else m.W k j })
    (Layer.dense m) true B nIn X C
    (fun i k => if k = k0 then m.act.dfac (m.evalB Real.tanh Z i k) * Z i j0 else 0) (m.W k0 j0)
    hl0 (fun _ => rfl) hwf hnk (by
      intro i hi k hk
      rw [hZ]
      have hp := preAct_hasDerivAt m.act m.nIn m.hasB (fun _ j => Z i j)
        (fun t j => if k = k0 ∧ j = j0 then t else m.W k j) (fun _ => m.b k)
        (fun _ => 0) (fun j => if k = k0 ∧ j = j0 then 1 else 0) 0 (m.W k0 j0)
        (fun j _ => hasDerivAt_const _ _)
        (fun j _ => by
          by_cases h : k = k0 ∧ j = j0
          · simp only [h, and_self, ↓reduceIte]; exact hasDerivAt_id' _
          · simp only [h, ↓reduceIte]; exact hasDerivAt_const _ _)
        (hasDerivAt_const _ _) (by
          intro ha
          simp only [hw0]
          have := hnkm i hi k hk ha
          rwa [Dense.preB_eq_finset] at this)
      have hfun : (fun t => (Layer.dense { m with W := fun k j => if k = k0 ∧ j = j0 then t else m.W k j }).evalB
            Real.tanh Real.exp Z i k)
          = fun t => m.act.eval Real.tanh ((∑ j ∈ range m.nIn, Z i j * (if k = k0 ∧ j = j0 then t else m.W k j)) +
              (if m.hasB then m.b k else 0)) := by
        funext t
        simp only [Layer.evalB, Dense.evalB]
        rw [Dense.preB_eq_finset]
      rw [hfun]
      refine hp.congr_deriv ?_
      simp only [hw0, zero_mul, zero_add, ite_self, add_zero, ← Dense.preB_eq_finset]
      by_cases hkk : k = k0
      · simp only [hkk, true_and, ↓reduceIte, Dense.evalB]
        rw [Finset.sum_eq_single j0]
        · simp
        · intro j _ hj; simp [hj]
        · intro h; exact absurd (Finset.mem_range.2 hj0) h
      · simp [hkk])
  rw [hZ] at h
  refine h.congr_deriv ?_
  unfold Dense.gradW Dense.delta
  rw [sumR_eq_finset]
  apply Finset.sum_congr rfl
  intro i _
  rw [Finset.sum_eq_single k0]
  · simp only [↓reduceIte, Layer.evalB]; ring
  · intro k _ hk; simp [hk]
  · intro h; exact absurd (Finset.mem_range.2 hk0) h

/-- the weight `W[k0][j0]` sits at the same position of `parameterVector()` -/
theorem Chain.params_getD_weight (pre post : Chain ℝ) (m : Dense ℝ) (k0 j0 : ℕ)
    (hk0 : k0 < m.nOut) (hj0 : j0 < m.nIn) :
    (Chain.params (pre ++ (Layer.dense m, true) :: post)).getD
      ((Chain.params pre).length + (k0 * m.nIn + j0)) 0 = m.W k0 j0 := by
  have hidx : k0 * m.nIn + j0 < m.params.length := by
    rw [Dense.params_length']; have := flat_index_lt hk0 hj0; omega
  rw [Chain.params_getD_mid pre post m _ 0 hidx, Dense.params_getD_weight m 0 k0 j0 hk0 hj0]

/-- **offset gradient of a dense layer anywhere in a chain**: the entry of the gradient returned by
`Chain.backward` at position `pre.params.length + (nOut·nIn + k0)` is the partial derivative of the
weighted output sum w.r.t. the offset entry `b[k0]` of the (optimised) dense layer `m` -/
theorem Chain.offset_derivative_correct (pre post : Chain ℝ) (m : Dense ℝ) (B nIn : ℕ)
    (X C : ℕ → ℕ → ℝ) (k0 : ℕ) (hk0 : k0 < m.nOut) (hb : m.hasB = true)
    (hwf : Chain.WF (pre ++ (Layer.dense m, true) :: post) nIn)
    (hnk : Chain.NoKink B (pre ++ (Layer.dense m, true) :: post) X) :
    HasDerivAt (fun t => Chain.objective
        (pre ++ (Layer.dense { m with b := fun k => if k = k0 then t else m.b k }, true) :: post)
        B nIn X C)
      ((Chain.backward Real.tanh Real.exp B (pre ++ (Layer.dense m, true) :: post) X C).1.getD
        ((Chain.params pre).length + (m.nOut * m.nIn + k0)) 0) (m.b k0) := by
  have hnkm : (Layer.dense m).NoKink B (Chain.evalB Real.tanh Real.exp pre X) := by
    have := hnk; rw [Chain.NoKink_append, Chain.NoKink_cons] at this; exact this.2.1
  have hidx : m.nOut * m.nIn + k0 < m.params.length := by
    rw [Dense.params_length', hb]; simp only [if_true]; omega
  rw [Chain.backward_getD_mid B pre post m X C _ 0 hidx, Dense.gradParams_getD_offset m _ _ _ _ 0 k0 hk0 hb]
  generalize hZ : Chain.evalB Real.tanh Real.exp pre X = Z at hnkm ⊢
  have hb0 : ∀ k, (if k = k0 then m.b k0 else m.b k) = m.b k := by
    intro k; split
    · rename_i h; rw [h]
    · rfl
  have hl0 : (fun t => Layer.dense { m with b := fun k => if k = k0 then t else m.b k })
      (m.b k0) = Layer.dense m := by
    simp only [hb0]
  have h := Chain.mid_curve_hasDerivAt pre post
    (fun t => Layer.dense { m with b := fun k => if k = k0 then t else m.b k })
    (Layer.dense m) true B nIn X C
    (fun i k => if k = k0 then m.act.dfac (m.evalB Real.tanh Z i k) else 0) (m.b k0)
    hl0 (fun _ => rfl) hwf hnk (by
      intro i hi k hk
      rw [hZ]
      have hp := preAct_hasDerivAt m.act m.nIn m.hasB (fun _ j => Z i j)
        (fun _ j => m.W k j) (fun t => if k = k0 then t else m.b k)
        (fun _ => 0) (fun _ => 0) (if k = k0 then 1 else 0) (m.b k0)
        (fun j _ => hasDerivAt_const _ _) (fun j _ => hasDerivAt_const _ _)
        (by
          by_cases h : k = k0
          · simp only [h, ↓reduceIte]; exact hasDerivAt_id' _
          · simp only [h, ↓reduceIte]; exact hasDerivAt_const _ _)
        (by
          intro ha
          simp only [hb0]
          have := hnkm i hi k hk ha
          rwa [Dense.preB_eq_finset] at this)
      have hfun : (fun t => (Layer.dense { m with b := fun k => if k = k0 then t else m.b k }).evalB
            Real.tanh Real.exp Z i k)
          = fun t => m.act.eval Real.tanh ((∑ j ∈ range m.nIn, Z i j * m.W k j) +
              (if m.hasB then (if k = k0 then t else m.b k) else 0)) := by
        funext t
        simp only [Layer.evalB, Dense.evalB]
        rw [Dense.preB_eq_finset]
      rw [hfun]
      refine hp.congr_deriv ?_
      simp only [hb0, zero_mul, mul_zero, add_zero, Finset.sum_const_zero, zero_add,
        ← Dense.preB_eq_finset]
      by_cases hkk : k = k0
      · simp [hkk, hb, Dense.evalB]
      · simp [hkk])
  rw [hZ] at h
  refine h.congr_deriv ?_
  unfold Dense.gradB Dense.delta
  rw [sumR_eq_finset]
  apply Finset.sum_congr rfl
  intro i _
  rw [Finset.sum_eq_single k0]
  · simp only [↓reduceIte, Layer.evalB]
  · intro k _ hk; simp [hk]
  · intro h; exact absurd (Finset.mem_range.2 hk0) h

/-- the offset entry `b[k0]` sits at the same position of `parameterVector()` -/
theorem Chain.params_getD_offset (pre post : Chain ℝ) (m : Dense ℝ) (k0 : ℕ)
    (hk0 : k0 < m.nOut) (hb : m.hasB = true) :
    (Chain.params (pre ++ (Layer.dense m, true) :: post)).getD
      ((Chain.params pre).length + (m.nOut * m.nIn + k0)) 0 = m.b k0 := by
  have hidx : m.nOut * m.nIn + k0 < m.params.length := by
    rw [Dense.params_length', hb]; simp only [if_true]; omega
  rw [Chain.params_getD_mid pre post m _ 0 hidx, Dense.params_getD_offset m 0 k0 hk0 hb]

/-! ### non-vacuity: a concrete four-layer chain satisfying all hypotheses -/

/-- tanh dense layer (2 → 3, optimised), frozen logistic neuron layer, linear dense layer
(3 → 2, optimised, no offset), softmax row layer -/
noncomputable def chainDemoPre : Chain ℝ :=
  [(Layer.dense { nIn := 2, nOut := 3, W := fun k j => (k : ℝ) - j, hasB := true, b := fun k => k, act := .tanh }, true),
   (Layer.neuron .logistic 3, false)]
noncomputable def chainDemoMid : Dense ℝ :=
  { nIn := 3, nOut := 2, W := fun k j => (k : ℝ) + 2 * j, hasB := false, b := fun _ => 0, act := .linear }
noncomputable def chainDemoPost : Chain ℝ := [(Layer.rowact .softmax 2, false)]
noncomputable def chainDemo : Chain ℝ := chainDemoPre ++ (Layer.dense chainDemoMid, true) :: chainDemoPost

example : Chain.WF chainDemo 2 := ⟨rfl, rfl, rfl, rfl, trivial⟩
example : Chain.nOut chainDemo 2 = 2 := rfl
example : Chain.Elementwise (chainDemoPre ++ [(Layer.dense chainDemoMid, true)]) := by
  simp [chainDemoPre, Chain.Elementwise]
example (B : ℕ) (X : ℕ → ℕ → ℝ) : Chain.NoKink B chainDemo X := by
  simp [chainDemo, chainDemoPre, chainDemoMid, chainDemoPost, Chain.NoKink, Layer.NoKink]
example : (Chain.params chainDemo).length = 15 := by
  simp [chainDemo, chainDemoPre, chainDemoMid, chainDemoPost, Chain.params, Layer.params, Dense.params_length']

/-- all hypotheses of the three final theorems hold for `chainDemo`, any batch and any coefficients -/
example (B : ℕ) (X C : ℕ → ℕ → ℝ) (hB : 0 < B) :
    HasDerivAt (fun t => chainDemo.objective B 2 (fun i j => if i = 0 ∧ j = 1 then t else X i j) C)
      ((chainDemo.backward Real.tanh Real.exp B X C).2 0 1) (X 0 1) :=
  Chain.input_derivative_correct chainDemo B 2 X C 0 1 hB (by decide) ⟨rfl, rfl, rfl, rfl, trivial⟩
    (by simp [chainDemo, chainDemoPre, chainDemoMid, chainDemoPost, Chain.NoKink, Layer.NoKink])

example (B : ℕ) (X C : ℕ → ℕ → ℝ) :
    HasDerivAt (fun t => Chain.objective
        (chainDemoPre ++ (Layer.dense { chainDemoMid with
          W := fun k j => if k = 1 ∧ j = 2 then t else chainDemoMid.W k j }, true) :: chainDemoPost) B 2 X C)
      ((Chain.backward Real.tanh Real.exp B chainDemo X C).1.getD
        ((Chain.params chainDemoPre).length + (1 * chainDemoMid.nIn + 2)) 0) (chainDemoMid.W 1 2) :=
  Chain.weight_derivative_correct chainDemoPre chainDemoPost chainDemoMid B 2 X C 1 2
    (by simp [chainDemoMid]) (by simp [chainDemoMid]) ⟨rfl, rfl, rfl, rfl, trivial⟩
    (by simp [chainDemoPre, chainDemoMid, chainDemoPost, Chain.NoKink, Layer.NoKink])

/-- offset of the first layer (`pre = []`, three layers behind it) -/
example (B : ℕ) (X C : ℕ → ℕ → ℝ) (m : Dense ℝ)
    (hm : m = { nIn := 2, nOut := 3, W := fun k j => (k : ℝ) - j, hasB := true, b := fun k => k, act := .tanh })
    (post : Chain ℝ)
    (hpost : post = (Layer.neuron .logistic 3, false) :: (Layer.dense chainDemoMid, true) :: chainDemoPost) :
    HasDerivAt (fun t => Chain.objective
        ([] ++ (Layer.dense { m with b := fun k => if k = 2 then t else m.b k }, true) :: post) B 2 X C)
      ((Chain.backward Real.tanh Real.exp B ([] ++ (Layer.dense m, true) :: post) X C).1.getD
        ((Chain.params ([] : Chain ℝ)).length + (m.nOut * m.nIn + 2)) 0) (m.b 2) :=
  Chain.offset_derivative_correct [] post m B 2 X C 2 (by subst hm; decide) (by subst hm; rfl)
    (by subst hm hpost; exact ⟨rfl, rfl, rfl, rfl, trivial⟩)
    (by subst hm hpost; simp [chainDemoMid, chainDemoPost, Chain.NoKink, Layer.NoKink])

end SharkVerif.Models
