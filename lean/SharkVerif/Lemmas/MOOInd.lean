/-
Lemmas for C14: the indicator models return `K` distinct positions of the front.
-/
import SharkVerif.Model.MOOInd
import SharkVerif.Lemmas.MOO
namespace SharkVerif.MOO
open SharkVerif.Pareto SharkVerif.HV

/-- `leastContributor` returns a position inside a non-empty front -/
def LcOK (lc : LeastFn) : Prop := ∀ points archive, points ≠ [] → lc points archive < points.length

theorem getD_mem_of_lt {l : List Nat} {i : Nat} (h : i < l.length) : l.getD i 0 ∈ l := by
  rw [List.getD_eq_getElem?_getD, List.getElem?_eq_getElem h]; exact List.getElem_mem h

theorem nodup_eraseIdx {l : List Nat} (h : l.Nodup) (i : Nat) : (l.eraseIdx i).Nodup :=
  List.Nodup.sublist (List.eraseIdx_sublist l i) h

theorem getD_not_mem_eraseIdx {l : List Nat} (h : l.Nodup) {i : Nat} (hi : i < l.length) :
    l.getD i 0 ∉ l.eraseIdx i := by
  intro hm
  rw [List.getD_eq_getElem?_getD, List.getElem?_eq_getElem hi] at hm
  simp only [Option.getD_some] at hm
  obtain ⟨j, hj, hne, e⟩ := List.mem_eraseIdx_iff_getElem.mp hm
  exact hne ((List.getElem_inj h).mp e)

/-- the shared `leastContributors` loop returns `K` distinct members of `active` -/
theorem iterLeast_spec (lc : LeastFn) (hlc : LcOK lc) (archive : List Pt) :
    ∀ (K : Nat) (points : List Pt) (active : List Nat), active.Nodup → points.length = active.length →
      K ≤ active.length →
      (iterLeast lc archive K points active).length = K ∧ (iterLeast lc archive K points active).Nodup ∧
      ∀ x ∈ iterLeast lc archive K points active, x ∈ active := by
  intro K
  induction K with
  | zero => intro points active _ _ _; simp [iterLeast]
  | succ K ih =>
    intro points active hnd hlen hK
    have hne : points ≠ [] := by
      intro h; rw [h] at hlen; simp at hlen; omega
    have hidx : lc points archive < active.length := hlen ▸ hlc points archive hne
    have hnd' := nodup_eraseIdx hnd (lc points archive)
    have hlen' : (points.eraseIdx (lc points archive)).length = (active.eraseIdx (lc points archive)).length := by
      rw [List.length_eraseIdx, List.length_eraseIdx, hlen]
    have hK' : K ≤ (active.eraseIdx (lc points archive)).length := by
      rw [List.length_eraseIdx]; simp [hidx]; omega
    obtain ⟨h1, h2, h3⟩ := ih _ _ hnd' hlen' hK'
    simp only [iterLeast]
    refine ⟨by simp [h1], ?_, ?_⟩
    · rw [List.nodup_cons]
      refine ⟨fun hm => getD_not_mem_eraseIdx hnd hidx (h3 _ hm), h2⟩
    · intro x hx
      rcases List.mem_cons.mp hx with rfl | hx
      · exact getD_mem_of_lt hidx
      · exact (List.eraseIdx_sublist active _).subset (h3 x hx)

/-- **every indicator built from a `leastContributor` that returns a valid position satisfies
the contract of the selection theorems** -/
theorem mkIndicator_ok (lc : LeastFn) (hlc : LcOK lc) (pts : List Pt) : IndOK (mkIndicator lc pts) := by
  intro front archive K hK
  have := iterLeast_spec lc hlc (archive.map (pt pts)) K (front.map (pt pts)) (List.range front.length)
    List.nodup_range (by simp) (by simpa using hK)
  refine ⟨this.1, this.2.1, fun x hx => ?_⟩
  exact List.mem_range.mp (this.2.2 x hx)

/-! ### the concrete `leastContributor`s return valid positions -/

theorem lastMin_mem : ∀ {l : List (Int × Nat)} {b}, lastMin l = some b → b ∈ l
  | [], _, h => by simp [lastMin] at h
  | c :: cs, b, h => by
    simp only [lastMin] at h
    cases hm : lastMin cs with
    | none => rw [hm] at h; simp at h; simp [h]
    | some b' =>
      rw [hm] at h
      by_cases hlt : c.1 < b'.1
      · simp [hlt] at h; simp [h]
      · simp [hlt] at h; subst h; exact List.mem_cons_of_mem _ (lastMin_mem hm)

theorem firstMinPair_mem : ∀ {l : List (Int × Nat)} {b}, firstMinPair l = some b → b ∈ l
  | [], _, h => by simp [firstMinPair] at h
  | c :: cs, b, h => by
    simp only [firstMinPair] at h
    cases hm : firstMinPair cs with
    | none => rw [hm] at h; simp at h; simp [h]
    | some b' =>
      rw [hm] at h
      by_cases hlt : b'.1 < c.1
      · simp [hlt] at h; subst h; exact List.mem_cons_of_mem _ (firstMinPair_mem hm)
      · simp [hlt] at h; simp [h]

theorem mem_zipIdx_snd_lt {α} {l : List α} {c : α × Nat} (h : c ∈ l.zipIdx) : c.2 < l.length := by
  obtain ⟨a, i⟩ := c
  have := List.mem_zipIdx h
  simp at this
  omega

theorem contribs2dGo_idx (r0 : Int) : ∀ (y : Int) (L : List (Pt × Nat)) (c : Int × Nat),
    c ∈ contribs2dGo r0 y L → ∃ p, (p, c.2) ∈ L
  | _, [], c, h => by simp [contribs2dGo] at h
  | y, (p, i) :: rest, c, h => by
    simp only [contribs2dGo] at h
    rcases List.mem_cons.mp h with rfl | h
    · exact ⟨p, by simp⟩
    · obtain ⟨q, hq⟩ := contribs2dGo_idx r0 (py p) rest c h
      exact ⟨q, List.mem_cons_of_mem _ hq⟩

theorem contribs2dLit_idx (ref : Option Pt) (points : List Pt) (c : Int × Nat)
    (h : c ∈ contribs2dLit ref points) : c.2 < points.length := by
  unfold contribs2dLit at h
  simp only at h
  have key : ∀ q, (q, c.2) ∈ points.zipIdx.mergeSort lexLe → c.2 < points.length := by
    intro q hq
    exact mem_zipIdx_snd_lt (c := (q, c.2)) ((List.mergeSort_perm _ _).mem_iff.mp hq)
  cases ref with
  | some r =>
    obtain ⟨q, hq⟩ := contribs2dGo_idx _ _ _ c h
    exact key q hq
  | none =>
    simp only at h
    split at h
    · simp at h
    · rename_i first rest hs
      obtain ⟨q, hq⟩ := contribs2dGo_idx _ _ _ c ((List.dropLast_sublist _).subset h)
      exact key q (by rw [hs]; exact List.mem_cons_of_mem _ hq)

theorem hvLeast2d_ok (ref : Option Pt) (points : List Pt) (hne : points ≠ []) :
    hvLeast2d ref points < points.length := by
  have hpos : 0 < points.length := List.length_pos_iff.mpr hne
  unfold hvLeast2d
  split
  · rename_i b hb
    exact contribs2dLit_idx ref points b (lastMin_mem hb)
  · exact hpos

theorem hvLeast3d_ok (hv : List Pt → Pt → Int) (r : Pt) (points : List Pt) (hne : points ≠ []) :
    hvLeast3d hv r points < points.length := by
  have hpos : 0 < points.length := List.length_pos_iff.mpr hne
  unfold hvLeast3d
  split
  · rename_i c rest hc
    have hm : c ∈ points.zipIdx.filter fun c => !ltAll c.1 r := by rw [hc]; simp
    exact mem_zipIdx_snd_lt (List.mem_filter.mp hm).1
  · simp only
    split
    · rename_i b hb
      have hm := firstMinPair_mem hb
      obtain ⟨c, hc, e⟩ := List.mem_map.mp hm
      have := mem_zipIdx_snd_lt ((List.mergeSort_perm _ _).mem_iff.mp hc)
      rw [← e]; exact this
    · exact hpos

theorem hvLeastRef_ok (r : Pt) : LcOK (hvLeastRef r) := by
  intro points archive hne
  unfold hvLeastRef
  split
  · exact hvLeast2d_ok _ _ hne
  · exact hvLeast3d_ok _ _ _ hne

theorem hvLeastNoRef2d_ok : LcOK hvLeastNoRef2d := fun points _ hne => hvLeast2d_ok _ _ hne

theorem firstMinGo_bound : ∀ (vs : List (Option Int)) (i bi : Nat) (bv : Option Int),
    firstMinGo vs i bi bv = bi ∨ (i ≤ firstMinGo vs i bi bv ∧ firstMinGo vs i bi bv < i + vs.length)
  | [], _, _, _ => Or.inl rfl
  | v :: vs, i, bi, bv => by
    simp only [firstMinGo]
    split
    · rcases firstMinGo_bound vs (i + 1) i v with h | h
      · right; rw [h]; simp
      · right; simp only [List.length_cons]; omega
    · rcases firstMinGo_bound vs (i + 1) bi bv with h | h
      · left; exact h
      · right; simp only [List.length_cons]; omega

theorem epsLeast_ok : LcOK epsLeast := by
  intro points archive hne
  have hpos : 0 < points.length := List.length_pos_iff.mpr hne
  unfold epsLeast
  rcases firstMinGo_bound ((List.range points.length).map (epsVal points)) 0 0 none with h | h
  · rw [h]; exact hpos
  · have := h.2; simpa using this

theorem minElemGo_bound {α} (N : CrowdNum α) : ∀ (vs : List α) (i bi : Nat) (bv : α),
    minElemGo N vs i bi bv = bi ∨ (i ≤ minElemGo N vs i bi bv ∧ minElemGo N vs i bi bv < i + vs.length)
  | [], _, _, _ => Or.inl rfl
  | v :: vs, i, bi, bv => by
    simp only [minElemGo]
    split
    · rcases minElemGo_bound N vs (i + 1) i v with h | h
      · right; rw [h]; simp
      · right; simp only [List.length_cons]; omega
    · rcases minElemGo_bound N vs (i + 1) bi bv with h | h
      · left; exact h
      · right; simp only [List.length_cons]; omega

theorem minElem_lt {α} (N : CrowdNum α) (l : List α) (h : 0 < l.length) : minElem N l < l.length := by
  cases l with
  | nil => simp at h
  | cons v vs =>
    simp only [minElem, List.length_cons]
    rcases minElemGo_bound N vs 1 0 v with h | h
    · rw [h]; omega
    · omega

theorem foldl_length_inv {α β} (f : List α → β → List α) (hf : ∀ l b, (f l b).length = l.length) :
    ∀ (bs : List β) (l : List α), (bs.foldl f l).length = l.length
  | [], l => rfl
  | b :: bs, l => by simp only [List.foldl_cons]; rw [foldl_length_inv f hf bs, hf]

theorem crowdDim_length {α} (N : CrowdNum α) (nf : Nat) (order : List (Int × Nat)) (dist : List α) :
    (crowdDim N nf order dist).length = dist.length := by
  unfold crowdDim
  simp only
  rw [foldl_length_inv]
  · split <;> split <;> simp
  · intro l b
    split <;> simp

theorem crowdLeast_ok {α} (N : CrowdNum α) : LcOK (crowdLeast N) := by
  intro front archive hne
  have hpos : 0 < front.length := List.length_pos_iff.mpr hne
  unfold crowdLeast
  split
  · exact hpos
  · simp only
    have key : ∀ (ds : List Nat) (dist : List α), dist.length = front.length →
        (ds.foldl (fun dist d =>
          crowdDim N front.length
            (((front ++ archive).zipIdx.map fun (p, j) => (p.getD d 0, j)).mergeSort fun a b => decide (a.1 ≤ b.1))
            dist) dist).length = front.length := by
      intro ds
      induction ds with
      | nil => intro dist h; simpa using h
      | cons d ds ih =>
        intro dist h
        simp only [List.foldl_cons]
        apply ih
        rw [crowdDim_length]; exact h
    have := key (List.range ((front.getD 0 []).length)) (List.replicate front.length N.zero) (by simp)
    have h2 := minElem_lt N _ (by rw [this]; exact hpos)
    rw [this] at h2
    exact h2

end SharkVerif.MOO
