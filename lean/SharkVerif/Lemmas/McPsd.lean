/-
Positive semidefiniteness of the multi-class kernel matrix: the centred Gram form of the class
codes is a Gram form, and the (Schur/Kronecker) product of two Gram forms is PSD.
-/
import SharkVerif.Lemmas.McOptimality
import Mathlib.Tactic.FieldSimp
namespace SharkVerif.Mc
open Finset

/-- PSD only depends on the entries with both indices below N -/
theorem PSD.congr {N : Nat} {Q Q' : Nat → Nat → Rat} (h : PSD N Q)
    (heq : ∀ v < N, ∀ w < N, Q' v w = Q v w) : PSD N Q' := by
  intro x
  have e : ∑ v ∈ range N, ∑ w ∈ range N, x v * Q' v w * x w
      = ∑ v ∈ range N, ∑ w ∈ range N, x v * Q v w * x w := by
    refine sum_congr rfl fun v hv => sum_congr rfl fun w hw => ?_
    rw [heq v (mem_range.mp hv) w (mem_range.mp hw)]
  rw [e]
  exact h x

/-- the centred Gram form is a Gram form: with `m v = (Σ_k a v k)/c`,
`Σ_k a v k * a w k − (Σ_k a v k)(Σ_k a w k)/c = Σ_k (a v k − m v)(a w k − m w)` -/
theorem centred_gram_eq (c : Nat) (hc : 0 < c) (a : Nat → Nat → Rat) (v w : Nat) :
    ∑ k ∈ range c, a v k * a w k - (∑ k ∈ range c, a v k) * (∑ k ∈ range c, a w k) / c
      = ∑ k ∈ range c, (a v k - (∑ j ∈ range c, a v j) / c) * (a w k - (∑ j ∈ range c, a w j) / c) := by
  have hc' : (c : Rat) ≠ 0 := Nat.cast_ne_zero.mpr (Nat.pos_iff_ne_zero.mp hc)
  generalize hSv : ∑ k ∈ range c, a v k = Sv
  generalize hSw : ∑ k ∈ range c, a w k = Sw
  have hexp : ∀ k, (a v k - Sv / c) * (a w k - Sw / c)
      = a v k * a w k - (Sw / c) * a v k - (Sv / c) * a w k + Sv / c * (Sw / c) := by
    intro k; ring
  simp only [hexp, sum_add_distrib, sum_sub_distrib, ← mul_sum, sum_const, card_range,
    nsmul_eq_mul, hSv, hSw]
  field_simp
  ring

/-- product of two Gram forms is a Gram form over the product index set, hence PSD (Schur/Kronecker step) -/
theorem psd_of_gram_mul_gram (N c T : Nat) (A : Nat → Nat → Rat) (B : Nat → Nat → Rat) :
    PSD N (fun v w => (∑ k ∈ range c, A v k * A w k) * (∑ t ∈ range T, B v t * B w t)) := by
  intro x
  have hQ : ∀ v w, (∑ k ∈ range c, A v k * A w k) * (∑ t ∈ range T, B v t * B w t)
      = ∑ k ∈ range c, ∑ t ∈ range T, (A v k * B v t) * (A w k * B w t) := by
    intro v w
    rw [sum_mul_sum]
    refine sum_congr rfl fun k _ => sum_congr rfl fun t _ => ?_
    ring
  have key : ∑ v ∈ range N, ∑ w ∈ range N,
        x v * ((∑ k ∈ range c, A v k * A w k) * (∑ t ∈ range T, B v t * B w t)) * x w
      = ∑ k ∈ range c, ∑ v ∈ range N, ∑ w ∈ range N,
          x v * (∑ t ∈ range T, (A v k * B v t) * (A w k * B w t)) * x w := by
    calc ∑ v ∈ range N, ∑ w ∈ range N,
          x v * ((∑ k ∈ range c, A v k * A w k) * (∑ t ∈ range T, B v t * B w t)) * x w
        = ∑ v ∈ range N, ∑ w ∈ range N, ∑ k ∈ range c,
            x v * (∑ t ∈ range T, (A v k * B v t) * (A w k * B w t)) * x w := by
          refine sum_congr rfl fun v _ => sum_congr rfl fun w _ => ?_
          rw [hQ, mul_sum, sum_mul]
      _ = ∑ v ∈ range N, ∑ k ∈ range c, ∑ w ∈ range N,
            x v * (∑ t ∈ range T, (A v k * B v t) * (A w k * B w t)) * x w :=
          sum_congr rfl fun v _ => sum_comm
      _ = ∑ k ∈ range c, ∑ v ∈ range N, ∑ w ∈ range N,
            x v * (∑ t ∈ range T, (A v k * B v t) * (A w k * B w t)) * x w := sum_comm
  show 0 ≤ ∑ v ∈ range N, ∑ w ∈ range N,
        x v * ((∑ k ∈ range c, A v k * A w k) * (∑ t ∈ range T, B v t * B w t)) * x w
  rw [key]
  exact sum_nonneg fun k _ => psd_of_gram N T (fun v t => A v k * B v t) x

/-- **Kronecker step**: `Q(v,w) = centredGram_a(v,w) · Gram_b(v,w)` is positive semidefinite -/
theorem psd_of_centred_gram_kron (N c T : Nat) (hc : 0 < c) (a : Nat → Nat → Rat) (b : Nat → Nat → Rat) :
    PSD N (fun v w =>
      (∑ k ∈ range c, a v k * a w k - (∑ k ∈ range c, a v k) * (∑ k ∈ range c, a w k) / c)
        * (∑ t ∈ range T, b v t * b w t)) := by
  refine (psd_of_gram_mul_gram N c T (fun v k => a v k - (∑ j ∈ range c, a v j) / c) b).congr ?_
  intro v _ w _
  show (∑ k ∈ range c, a v k * a w k - (∑ k ∈ range c, a v k) * (∑ k ∈ range c, a w k) / c)
        * (∑ t ∈ range T, b v t * b w t)
      = (∑ k ∈ range c, (a v k - (∑ j ∈ range c, a v j) / c) * (a w k - (∑ j ∈ range c, a w j) / c))
        * (∑ t ∈ range T, b v t * b w t)
  rw [centred_gram_eq c hc a v w]

end SharkVerif.Mc
