/-
Grouping a list by a key with values below k (what repartitionByClass and the fold
constructions do) is a permutation of the list.
-/
import SharkVerif.Lemmas.Dataset
namespace SharkVerif.Dataset

variable {α : Type}

theorem flatMap_nil_fun (l : List Nat) : (l.flatMap fun _ => ([] : List α)) = [] := by
  induction l with
  | nil => rfl
  | cons a l ih => simp [ih]

theorem flatMap_congr' {β : Type} (l : List β) (f g : β → List α) (h : ∀ p ∈ l, f p = g p) :
    l.flatMap f = l.flatMap g := by
  induction l with
  | nil => rfl
  | cons a l ih =>
    simp only [List.flatMap_cons]
    rw [h a (by simp), ih (fun p hp => h p (by simp [hp]))]

/-- inserting `x` into the group `p0 < k` of a grouped list is, up to permutation, consing it in front -/
theorem perm_flatMap_insert (x : α) (g : Nat → List α) (p0 : Nat) : ∀ k, p0 < k →
    ((List.range k).flatMap fun p => if p0 = p then x :: g p else g p).Perm (x :: (List.range k).flatMap g) := by
  intro k
  induction k with
  | zero => intro h; omega
  | succ k ih =>
    intro h
    rw [List.range_succ, List.flatMap_append, List.flatMap_append]
    simp only [List.flatMap_cons, List.flatMap_nil, List.append_nil]
    by_cases hk : p0 = k
    · subst hk
      have e : ((List.range p0).flatMap fun p => if p0 = p then x :: g p else g p) = (List.range p0).flatMap g := by
        apply flatMap_congr'
        intro p hp
        have : p0 ≠ p := by simp only [List.mem_range] at hp; omega
        simp [this]
      rw [e]
      simp only [if_true]
      exact List.perm_middle
    · have : p0 < k := by omega
      simp only [hk, if_false]
      exact (ih this).append_right _

/-- grouping by a key (groups in ascending key order, original order inside each group) is a permutation -/
theorem perm_flatMap_filter (key : α → Nat) (k : Nat) (l : List α) (h : ∀ x ∈ l, key x < k) :
    ((List.range k).flatMap fun p => l.filter (fun x => key x = p)).Perm l := by
  induction l with
  | nil => simp [flatMap_nil_fun]
  | cons x xs ih =>
    have hx : key x < k := h x (by simp)
    have hxs : ∀ y ∈ xs, key y < k := fun y hy => h y (by simp [hy])
    have e : ((List.range k).flatMap fun p => (x :: xs).filter (fun y => key y = p)) =
        (List.range k).flatMap fun p => if key x = p then x :: xs.filter (fun y => key y = p) else xs.filter (fun y => key y = p) := by
      apply flatMap_congr'
      intro p _
      by_cases hp : key x = p <;> simp [List.filter_cons, hp]
    rw [e]
    exact (perm_flatMap_insert x (fun p => xs.filter (fun y => key y = p)) (key x) k hx).trans ((ih hxs).cons x)

end SharkVerif.Dataset

namespace SharkVerif.Dataset
variable {α β : Type}

theorem mapM_except_length {ε' : Type} (f : α → Except ε' β) : ∀ (l : List α) (r : List β),
    l.mapM f = .ok r → r.length = l.length := by
  intro l
  induction l with
  | nil => intro r h; simp [List.mapM_nil, pure, Except.pure] at h; simp [← h]
  | cons a l ih =>
    intro r h
    simp only [List.mapM_cons, bind, Except.bind] at h
    split at h
    · simp at h
    · rename_i b hb
      split at h
      · simp at h
      · rename_i bs hbs
        simp only [pure, Except.pure, Except.ok.injEq] at h
        subst h
        simp [ih bs hbs]

theorem mapM_option_id_length : ∀ (l : List (Option α)) (r : List α), l.mapM id = some r → r.length = l.length := by
  intro l
  induction l with
  | nil => intro r h; simp at h; simp [← h]
  | cons a l ih =>
    intro r h
    cases a with
    | none => simp [List.mapM_cons] at h
    | some x =>
      simp only [List.mapM_cons, id, Option.bind_eq_bind, Option.bind_some] at h
      cases hl : l.mapM id with
      | none => simp [hl] at h
      | some bs =>
        simp only [hl, Option.bind_some, Option.pure_def, Option.some.injEq] at h
        subst h
        simp [ih bs hl]

theorem zip_map_fst_snd (l : List (α × β)) : List.zip (l.map (·.1)) (l.map (·.2)) = l := by
  induction l with
  | nil => rfl
  | cons a l ih => simp [ih]

theorem sum_flatMap (l : List Nat) (f : Nat → List Nat) : (l.flatMap f).sum = (l.map fun x => (f x).sum).sum := by
  induction l with
  | nil => rfl
  | cons a l ih => simp [List.sum_append, ih]

/-- group sizes add up to the length of the list -/
theorem sum_group_lengths (key : α → Nat) (k : Nat) (l : List α) (h : ∀ x ∈ l, key x < k) :
    ((List.range k).map fun p => (l.filter (fun x => key x = p)).length).sum = l.length := by
  have := (perm_flatMap_filter key k l h).length_eq
  rw [List.length_flatMap] at this
  exact this

end SharkVerif.Dataset
