/-
C09: the intrusive-list surgery of `LRUCache::swapLineIndices` (four cases of
the C++, `Model/Cache.lean` `IL.swapList`) refines the renaming `i ↔ j` of the
LRU list that the abstract model `LRU.swapLineIndices` performs.
-/
import SharkVerif.Lemmas.CachedMatrix
namespace SharkVerif.Cache
namespace IL

theorem next_at {A R : List Nat} {x : Nat} (h : x ∉ A) : next (A ++ x :: R) x = R.head? := by
  induction A with
  | nil => simp [next]
  | cons a A ih =>
    have ha : a ≠ x := fun e => h (by simp [e])
    have hA : x ∉ A := fun m => h (by simp [m])
    simp [next, ha, ih hA]

theorem insert_at {A R : List Nat} {p : Nat} (x : Nat) (h : p ∉ A) :
    insert (A ++ p :: R) (some p) x = A ++ x :: p :: R := by
  induction A with
  | nil => simp [insert]
  | cons a A ih =>
    have ha : a ≠ p := fun e => h (by simp [e])
    have hA : p ∉ A := fun m => h (by simp [m])
    simp [insert, ha, ih hA]

theorem insert_end (l : List Nat) (x : Nat) : insert l none x = l ++ [x] := by
  cases l <;> rfl

theorem erase_at {A R : List Nat} {x : Nat} (h : x ∉ A) : erase (A ++ x :: R) x = A ++ R := by
  unfold erase
  rw [List.erase_append_right _ h]; simp

theorem map_swap_notin {A : List Nat} {i j : Nat} (hi : i ∉ A) (hj : j ∉ A) :
    A.map (swapIdx i j) = A := by
  induction A with
  | nil => rfl
  | cons a A ih =>
    have h1 : a ≠ i := fun e => hi (by simp [e])
    have h2 : a ≠ j := fun e => hj (by simp [e])
    simp only [List.map_cons, swapIdx_other h1 h2]
    rw [ih (fun m => hi (by simp [m])) (fun m => hj (by simp [m]))]

/-- exactly one of the two lines is cached: node `i` is replaced by node `j` in place -/
theorem replace_eq_map {l : List Nat} (hnd : l.Nodup) {i j : Nat} (hij : i ≠ j)
    (hi : i ∈ l) (hj : j ∉ l) :
    erase (insert l (some i) j) i = l.map (swapIdx i j) := by
  obtain ⟨A, R, rfl⟩ := List.append_of_mem hi
  have hnd' := hnd
  rw [List.nodup_append] at hnd
  have hiA : i ∉ A := fun m => hnd.2.2 i m i (by simp) rfl
  have hiR : i ∉ R := (List.nodup_cons.1 hnd.2.1).1
  have hjA : j ∉ A := fun m => hj (by simp [m])
  have hjR : j ∉ R := fun m => hj (by simp [m])
  rw [insert_at j hiA]
  have : A ++ j :: i :: R = (A ++ [j]) ++ i :: R := by simp
  rw [this, erase_at (by simp [hiA, hij])]
  simp [map_swap_notin hiA hjA, map_swap_notin hiR hjR]

/-- both cached, `x` in front of `y`: what the list is -/
theorem decompose {l : List Nat} (hnd : l.Nodup) {x y : Nat} (hxy : x ≠ y) (hx : x ∈ l) (hy : y ∈ l) :
    (∃ A B C, l = A ++ x :: (B ++ y :: C)) ∨ (∃ A B C, l = A ++ y :: (B ++ x :: C)) := by
  obtain ⟨S, T, rfl⟩ := List.append_of_mem hx
  rcases List.mem_append.1 hy with h | h
  · obtain ⟨A, B, rfl⟩ := List.append_of_mem h
    right; exact ⟨A, B, T, by simp⟩
  · rcases List.mem_cons.1 h with e | h
    · exact absurd e.symm hxy
    · obtain ⟨B, C, rfl⟩ := List.append_of_mem h
      left; exact ⟨S, B, C, rfl⟩

/-- facts about a duplicate-free list `A ++ x :: (B ++ y :: C)` -/
theorem nodup_parts {A B C : List Nat} {x y : Nat} (h : (A ++ x :: (B ++ y :: C)).Nodup) :
    x ∉ A ∧ x ∉ B ∧ x ∉ C ∧ y ∉ A ∧ y ∉ B ∧ y ∉ C ∧ x ≠ y ∧
    (∀ b, b ∈ B → b ∉ A) ∧ (∀ c, c ∈ C → c ∉ A ∧ c ∉ B) := by
  rw [List.nodup_append] at h
  obtain ⟨_, h2, h3⟩ := h
  rw [List.nodup_cons] at h2
  obtain ⟨hx, h2⟩ := h2
  rw [List.nodup_append] at h2
  obtain ⟨_, h5, h6⟩ := h2
  rw [List.nodup_cons] at h5
  simp only [List.mem_append, List.mem_cons, not_or] at hx
  refine ⟨fun m => h3 x m x (by simp) rfl, hx.1, hx.2.2, fun m => h3 y m y (by simp) rfl,
    fun m => h6 y m y (by simp) rfl, h5.1, hx.2.1, ?_, ?_⟩
  · intro b hb m; exact h3 b m b (by simp [hb]) rfl
  · intro c hc
    exact ⟨fun m => h3 c m c (by simp [hc]) rfl, fun m => h6 c m c (by simp [hc]) rfl⟩

/-- both cached, node `i` in front of node `j` -/
theorem swap_both_i_first {A B C : List Nat} {i j : Nat} (hnd : (A ++ i :: (B ++ j :: C)).Nodup) :
    swapList (A ++ i :: (B ++ j :: C)) true true i j = A ++ j :: (B ++ i :: C) := by
  obtain ⟨hiA, hiB, hiC, hjA, hjB, hjC, hij, hBA, hCAB⟩ := nodup_parts hnd
  have hni : next (A ++ i :: (B ++ j :: C)) i = (B ++ j :: C).head? := next_at hiA
  have hnj : next (A ++ i :: (B ++ j :: C)) j = C.head? := by
    have : A ++ i :: (B ++ j :: C) = (A ++ i :: B) ++ j :: C := by simp
    rw [this]; exact next_at (by simp [hjA, hjB, Ne.symm hij])
  have hej : erase (A ++ i :: (B ++ j :: C)) j = A ++ i :: (B ++ C) := by
    have : A ++ i :: (B ++ j :: C) = (A ++ i :: B) ++ j :: C := by simp
    rw [this, erase_at (by simp [hjA, hjB, Ne.symm hij])]; simp
  have hei : erase (A ++ i :: (B ++ j :: C)) i = A ++ (B ++ j :: C) := erase_at hiA
  simp only [swapList, Bool.and_self, Bool.not_true, Bool.and_false, Bool.false_eq_true, ↓reduceIte,
    Bool.false_and, hni, hnj]
  cases B with
  | nil =>
    simp only [List.nil_append, List.head?_cons, ↓reduceIte] at hej ⊢
    rw [hej]; exact insert_at j hiA
  | cons b B' =>
    have hbj : b ≠ j := fun e => hjB (by simp [e])
    have hbA : b ∉ A := hBA b (by simp)
    simp only [List.cons_append, List.head?_cons, Option.some.injEq, hbj, ↓reduceIte]
    have hCi : C.head? ≠ some i := by
      intro e; exact hiC (List.mem_of_mem_head? e)
    simp only [hCi, ↓reduceIte]
    simp only [List.cons_append] at hei
    rw [hei]
    have he2 : erase (A ++ b :: (B' ++ j :: C)) j = A ++ b :: (B' ++ C) := by
      have : A ++ b :: (B' ++ j :: C) = (A ++ b :: B') ++ j :: C := by simp
      rw [this, erase_at (by
        simp only [List.mem_append, List.mem_cons, not_or]
        exact ⟨hjA, Ne.symm hbj, fun m => hjB (by simp [m])⟩)]
      simp
    rw [he2, insert_at j hbA]
    cases C with
    | nil => simp [insert_end]
    | cons c C' =>
      have hc := hCAB c (by simp)
      have hcj : c ≠ j := fun e => hjC (by simp [e])
      have : A ++ j :: b :: (B' ++ c :: C') = (A ++ j :: b :: B') ++ c :: C' := by simp
      simp only [List.head?_cons]
      rw [this, insert_at i (by
        simp only [List.mem_append, List.mem_cons, not_or]
        refine ⟨hc.1, hcj, ?_, ?_⟩
        · intro e; exact hc.2 (by simp [e])
        · intro m; exact hc.2 (by simp [m]))]
      simp

/-- both cached, node `j` in front of node `i` -/
theorem swap_both_j_first {A B C : List Nat} {i j : Nat} (hnd : (A ++ j :: (B ++ i :: C)).Nodup) :
    swapList (A ++ j :: (B ++ i :: C)) true true i j = A ++ i :: (B ++ j :: C) := by
  obtain ⟨hjA, hjB, hjC, hiA, hiB, hiC, hji, hBA, hCAB⟩ := nodup_parts hnd
  have hnj : next (A ++ j :: (B ++ i :: C)) j = (B ++ i :: C).head? := next_at hjA
  have hni : next (A ++ j :: (B ++ i :: C)) i = C.head? := by
    have : A ++ j :: (B ++ i :: C) = (A ++ j :: B) ++ i :: C := by simp
    rw [this]; exact next_at (by simp [hiA, hiB, Ne.symm hji])
  have hei : erase (A ++ j :: (B ++ i :: C)) i = A ++ j :: (B ++ C) := by
    have : A ++ j :: (B ++ i :: C) = (A ++ j :: B) ++ i :: C := by simp
    rw [this, erase_at (by simp [hiA, hiB, Ne.symm hji])]; simp
  have hCj : C.head? ≠ some j := by
    intro e; exact hjC (List.mem_of_mem_head? e)
  simp only [swapList, Bool.and_self, Bool.not_true, Bool.and_false, Bool.false_eq_true, ↓reduceIte,
    Bool.false_and, hni, hnj, hCj]
  cases B with
  | nil =>
    simp only [List.nil_append, List.head?_cons, ↓reduceIte] at hei ⊢
    rw [hei]; exact insert_at i hjA
  | cons b B' =>
    have hbi : b ≠ i := fun e => hiB (by simp [e])
    have hbA : b ∉ A := hBA b (by simp)
    simp only [List.cons_append, List.head?_cons, Option.some.injEq, hbi, ↓reduceIte] at hei ⊢
    rw [hei]
    have he2 : erase (A ++ j :: b :: (B' ++ C)) j = A ++ b :: (B' ++ C) := by
      rw [erase_at hjA]
    rw [he2]
    cases C with
    | nil =>
      simp only [List.head?_nil, insert_end, List.append_nil]
      have : A ++ b :: B' ++ [j] = A ++ b :: (B' ++ [j]) := by simp
      rw [this, insert_at i hbA]
    | cons c C' =>
      have hc := hCAB c (by simp)
      have : A ++ b :: (B' ++ c :: C') = (A ++ b :: B') ++ c :: C' := by simp
      simp only [List.head?_cons]
      rw [this, insert_at j (by
        simp only [List.mem_append, List.mem_cons, not_or]
        refine ⟨hc.1, ?_, ?_⟩
        · intro e; exact hc.2 (by simp [e])
        · intro m; exact hc.2 (by simp [m]))]
      have : A ++ b :: B' ++ j :: c :: C' = A ++ b :: (B' ++ j :: c :: C') := by simp
      rw [this, insert_at i hbA]

theorem map_swap_parts {A B C : List Nat} {i j : Nat} (hnd : (A ++ i :: (B ++ j :: C)).Nodup) :
    (A ++ i :: (B ++ j :: C)).map (swapIdx i j) = A ++ j :: (B ++ i :: C) := by
  obtain ⟨hiA, hiB, hiC, hjA, hjB, hjC, _, _, _⟩ := nodup_parts hnd
  simp [map_swap_notin hiA hjA, map_swap_notin hiB hjB, map_swap_notin hiC hjC]

theorem map_swap_parts' {A B C : List Nat} {i j : Nat} (hnd : (A ++ j :: (B ++ i :: C)).Nodup) :
    (A ++ j :: (B ++ i :: C)).map (swapIdx i j) = A ++ i :: (B ++ j :: C) := by
  obtain ⟨hjA, hjB, hjC, hiA, hiB, hiC, _, _, _⟩ := nodup_parts hnd
  simp [map_swap_notin hiA hjA, map_swap_notin hiB hjB, map_swap_notin hiC hjC]

/-- **the four list cases of `swapLineIndices` implement the renaming `i ↔ j`**
of a duplicate-free LRU list whose members are exactly the cached lines -/
theorem swapList_eq_map {l : List Nat} (hnd : l.Nodup) {i j : Nat} (hij : i ≠ j) {ci cj : Bool}
    (hci : ci = true ↔ i ∈ l) (hcj : cj = true ↔ j ∈ l) (hone : (ci || cj) = true) :
    swapList l ci cj i j = l.map (swapIdx i j) := by
  cases ci <;> cases cj
  · simp at hone
  · -- only j cached
    have hj : j ∈ l := hcj.1 rfl
    have hi : i ∉ l := fun m => by have := hci.2 m; simp at this
    simp only [swapList, Bool.false_and, Bool.false_eq_true, ↓reduceIte, Bool.not_false, Bool.and_self]
    rw [replace_eq_map hnd (Ne.symm hij) hj hi]
    apply List.map_congr_left; intro k _; exact swapIdx_comm j i k
  · have hi : i ∈ l := hci.1 rfl
    have hj : j ∉ l := fun m => by have := hcj.2 m; simp at this
    simp only [swapList, Bool.not_false, Bool.and_self, ↓reduceIte]
    exact replace_eq_map hnd hij hi hj
  · have hi : i ∈ l := hci.1 rfl
    have hj : j ∈ l := hcj.1 rfl
    rcases decompose hnd hij hi hj with ⟨A, B, C, rfl⟩ | ⟨A, B, C, rfl⟩
    · rw [swap_both_i_first hnd, map_swap_parts hnd]
    · rw [swap_both_j_first hnd, map_swap_parts' hnd]

end IL

open LRU
variable {V : Type}

/-- **refinement**: in every state satisfying the cache invariant, the C++
`swapLineIndices` (list surgery + `std::swap` of length/data) is the renaming -/
theorem swapLineIndicesIL_eq {s : LRU V} (h : Inv s) (i j : Nat) :
    s.swapLineIndicesIL i j = s.swapLineIndices i j := by
  unfold swapLineIndicesIL swapLineIndices
  split
  · rfl
  · rename_i hc
    simp only [Bool.or_eq_true, decide_eq_true_eq, Bool.and_eq_true, Bool.not_eq_true', not_or,
      not_and, Bool.not_eq_false] at hc
    obtain ⟨hij, hone⟩ := hc
    have hci : s.isCached i = true ↔ i ∈ s.lru := by rw [isCached_iff, h.mem]
    have hcj : s.isCached j = true ↔ j ∈ s.lru := by rw [isCached_iff, h.mem]
    have hone' : (s.isCached i || s.isCached j) = true := by
      cases hi : s.isCached i
      · simpa using hone hi
      · simp
    rw [IL.swapList_eq_map h.nodup hij hci hcj hone']
    congr 1
    funext k
    unfold upd swapIdx
    by_cases h1 : k = j
    · subst h1; simp [Ne.symm hij]
    · by_cases h2 : k = i
      · subst h2; simp [h1]
      · simp [h1, h2]

end SharkVerif.Cache
