/-
C02, blocked triangular solver (`Model/LinSolveBlocked.lean`, the recursion
`trsm_recursive` of `kernels/default/trsm.hpp`): for EVERY block size the blocked
recursion returns exactly what the unblocked substitution loop returns.

Route
* `SolvesSub t n m A s e X Y`: `Y` is `X` outside the rows `[s,e)`, and the rows `[s,e)` of `Y`
  solve the sub-system `T[s,e)×[s,e) · Y[s,e) = X[s,e)` (`T = triPart t A`);
* the block kernel establishes it (`trsvLeft_correct` on the shifted sub-matrix),
* two recursive calls with the `gemm` update in between compose
  (`solvesSub_lower`, `solvesSub_upper`: block decomposition of a triangular matrix),
* strong induction on `e - s` (`trsmRec_solves`);
* at `[0,n)` the invariant is `T · Y = B`, and uniqueness of the solution of a regular triangular
  system (`trsvLeft_unique`) identifies every column with the unblocked `trsv`.
-/
import SharkVerif.Model.LinSolveBlocked
import SharkVerif.Lemmas.LinSolveUnique

namespace SharkVerif.LinSolve

/-! ### small facts -/

theorem sum_split (a b : Nat) (f : Nat → Rat) :
    sum (a + b) f = sum a f + sum b (fun j => f (a + j)) := by
  induction b with
  | zero => simp [sum]
  | succ c ih =>
    show sum (a + c + 1) f = sum a f + sum (c + 1) (fun j => f (a + j))
    rw [sum, ih, sum]; ring

theorem triPart_shift (t : Tri) (A : Mat) (s i j : Nat) :
    triPart t (fun a c => A (s + a) (s + c)) i j = triPart t A (s + i) (s + j) := by
  unfold triPart
  have e1 : (s + i = s + j) ↔ i = j := by omega
  have e2 : (s + i < s + j) ↔ i < j := by omega
  have e3 : (s + j < s + i) ↔ j < i := by omega
  simp only [e1, e2, e3]

theorem triPart_lower_above {t : Tri} (hl : t.upper = false) (A : Mat) {i j : Nat} (h : i < j) :
    triPart t A i j = 0 := by
  have h1 : i ≠ j := by omega
  have h2 : ¬ j < i := by omega
  simp [triPart, hl, h1, h2]

theorem triPart_lower_below {t : Tri} (hl : t.upper = false) (A : Mat) {i j : Nat} (h : j < i) :
    triPart t A i j = A i j := by
  have h1 : i ≠ j := by omega
  simp [triPart, hl, h1, h]

theorem triPart_upper_below {t : Tri} (hu : t.upper = true) (A : Mat) {i j : Nat} (h : j < i) :
    triPart t A i j = 0 := by
  have h1 : i ≠ j := by omega
  have h2 : ¬ i < j := by omega
  simp [triPart, hu, h1, h2]

theorem triPart_upper_above {t : Tri} (hu : t.upper = true) (A : Mat) {i j : Nat} (h : i < j) :
    triPart t A i j = A i j := by
  have h1 : i ≠ j := by omega
  simp [triPart, hu, h1, h]

theorem Regular.shift {t : Tri} {n : Nat} {A : Mat} (h : Regular t n A) (s : Nat) {e : Nat}
    (he : e ≤ n) : Regular t (e - s) (fun a c => A (s + a) (s + c)) := by
  intro hu i hi
  exact h hu (s + i) (by omega)

theorem mget_ofFn (m : Nat) (g : Nat → Array Rat) {k : Nat} (hk : k < m) (j : Nat) :
    mget (Array.ofFn (n := m) fun k' => g k'.val) k j = vget (g k) j := by
  simp [mget, vget, Array.getD_eq_getD_getElem?, hk]

/-! ### the two elementary steps, entrywise -/

theorem mget_trsmBlockStep (t : Tri) (n m : Nat) (A : Mat) (s e : Nat) (X : Arr2) {i k : Nat}
    (hi : i < n) (hk : k < m) :
    mget (trsmBlockStep t n m A s e X) i k =
      if s ≤ i ∧ i < e then
        vget (trsvLeftArr t (e - s) (fun a c => A (s + a) (s + c)) (fun a => mget X (s + a) k)) (i - s)
      else mget X i k := by
  unfold trsmBlockStep
  rw [mget_matOf, if_pos ⟨hi, hk⟩]
  by_cases hc : s ≤ i ∧ i < e
  · rw [if_pos hc, if_pos hc]
    exact mget_ofFn m
      (fun k' => trsvLeftArr t (e - s) (fun a c => A (s + a) (s + c)) (fun a => mget X (s + a) k')) hk (i - s)
  · rw [if_neg hc, if_neg hc]

theorem mget_gemmSub (n m : Nat) (A : Mat) (r0 r1 c0 c1 : Nat) (X : Arr2) {i k : Nat}
    (hi : i < n) (hk : k < m) :
    mget (gemmSub n m A r0 r1 c0 c1 X) i k =
      if r0 ≤ i ∧ i < r1 then
        mget X i k - sum (c1 - c0) (fun j => A i (c0 + j) * mget X (c0 + j) k)
      else mget X i k := by
  unfold gemmSub
  rw [mget_matOf, if_pos ⟨hi, hk⟩]

/-! ### the invariant -/

/-- `Y` is `X` with the rows `[s, e)` replaced by the solution of the diagonal sub-system
`T[s,e)×[s,e) · Y[s,e) = X[s,e)`, `T = triPart t A` (all `m` columns). -/
def SolvesSub (t : Tri) (n m : Nat) (A : Mat) (s e : Nat) (X Y : Arr2) : Prop :=
  ∀ i k, i < n → k < m →
    (¬ (s ≤ i ∧ i < e) → mget Y i k = mget X i k) ∧
    (s ≤ i → i < e →
      sum (e - s) (fun j => triPart t A i (s + j) * mget Y (s + j) k) = mget X i k)

/-- the block kernel (unblocked substitution on the sub-matrix) solves the sub-system -/
theorem trsmBlockStep_solves (t : Tri) (n m : Nat) (A : Mat) (h : Regular t n A) {s e : Nat}
    (he : e ≤ n) (X : Arr2) :
    SolvesSub t n m A s e X (trsmBlockStep t n m A s e X) := by
  intro i k hi hk
  constructor
  · intro hn
    rw [mget_trsmBlockStep t n m A s e X hi hk, if_neg hn]
  · intro h1 h2
    have key := trsvLeft_correct t (e - s) (fun a c => A (s + a) (s + c))
      (fun a => mget X (s + a) k) (h.shift s he) (i := i - s) (by omega)
    unfold mulVec at key
    have hsi : s + (i - s) = i := by omega
    simp only [hsi] at key
    rw [← key]
    apply sum_congr
    intro j hj
    have hjn : s + j < n := by omega
    rw [mget_trsmBlockStep t n m A s e X hjn hk, if_pos ⟨by omega, by omega⟩, triPart_shift, hsi]
    have : s + j - s = j := by omega
    rw [this]

/-- lower triangular: solve the front block, `Bback -= A[back, front) * Bfront`, solve the back
block — together the whole block is solved -/
theorem solvesSub_lower {t : Tri} (hl : t.upper = false) (n m : Nat) (A : Mat) {s mid e : Nat}
    (h1 : s ≤ mid) (h2 : mid ≤ e) (he : e ≤ n) {X X1 Y : Arr2}
    (H1 : SolvesSub t n m A s mid X X1)
    (H2 : SolvesSub t n m A mid e (gemmSub n m A mid e s mid X1) Y) :
    SolvesSub t n m A s e X Y := by
  intro i k hi hk
  -- rows of the front block are the rows of `X1`
  have F1 : ∀ j, j < mid - s → mget Y (s + j) k = mget X1 (s + j) k := by
    intro j hj
    have hjn : s + j < n := by omega
    rw [(H2 (s + j) k hjn hk).1 (by omega), mget_gemmSub n m A mid e s mid X1 hjn hk,
      if_neg (by omega)]
  constructor
  · intro hn
    rw [(H2 i k hi hk).1 (by omega), mget_gemmSub n m A mid e s mid X1 hi hk, if_neg (by omega)]
    exact (H1 i k hi hk).1 (by omega)
  · intro hs hie
    have hsplit : e - s = (mid - s) + (e - mid) := by omega
    rw [hsplit, sum_split]
    have hidx : ∀ j, s + (mid - s + j) = mid + j := by intro j; omega
    simp only [hidx]
    have hfront : sum (mid - s) (fun j => triPart t A i (s + j) * mget Y (s + j) k)
        = sum (mid - s) (fun j => triPart t A i (s + j) * mget X1 (s + j) k) :=
      sum_congr fun j hj => by rw [F1 j hj]
    rw [hfront]
    by_cases hc : i < mid
    · -- a front row sees zeros in the back columns
      have hback : sum (e - mid) (fun j => triPart t A i (mid + j) * mget Y (mid + j) k) = 0 :=
        sum_zero' fun j _ => by rw [triPart_lower_above hl A (by omega)]; ring
      rw [hback, (H1 i k hi hk).2 hs hc]; ring
    · -- a back row: Σ_front + Σ_back = (X - X') + X'
      have hmi : mid ≤ i := by omega
      rw [(H2 i k hi hk).2 hmi hie, mget_gemmSub n m A mid e s mid X1 hi hk, if_pos ⟨hmi, hie⟩,
        (H1 i k hi hk).1 (by omega)]
      have hA : sum (mid - s) (fun j => triPart t A i (s + j) * mget X1 (s + j) k)
          = sum (mid - s) (fun j => A i (s + j) * mget X1 (s + j) k) :=
        sum_congr fun j hj => by rw [triPart_lower_below hl A (by omega)]
      rw [hA]; ring

/-- upper triangular: solve the back block, `Bfront -= A[front, back) * Bback`, solve the front
block -/
theorem solvesSub_upper {t : Tri} (hu : t.upper = true) (n m : Nat) (A : Mat) {s mid e : Nat}
    (h1 : s ≤ mid) (h2 : mid ≤ e) (he : e ≤ n) {X X1 Y : Arr2}
    (H1 : SolvesSub t n m A mid e X X1)
    (H2 : SolvesSub t n m A s mid (gemmSub n m A s mid mid e X1) Y) :
    SolvesSub t n m A s e X Y := by
  intro i k hi hk
  -- rows of the back block are the rows of `X1`
  have F1 : ∀ j, j < e - mid → mget Y (mid + j) k = mget X1 (mid + j) k := by
    intro j hj
    have hjn : mid + j < n := by omega
    rw [(H2 (mid + j) k hjn hk).1 (by omega), mget_gemmSub n m A s mid mid e X1 hjn hk,
      if_neg (by omega)]
  constructor
  · intro hn
    rw [(H2 i k hi hk).1 (by omega), mget_gemmSub n m A s mid mid e X1 hi hk, if_neg (by omega)]
    exact (H1 i k hi hk).1 (by omega)
  · intro hs hie
    have hsplit : e - s = (mid - s) + (e - mid) := by omega
    rw [hsplit, sum_split]
    have hidx : ∀ j, s + (mid - s + j) = mid + j := by intro j; omega
    simp only [hidx]
    have hback : sum (e - mid) (fun j => triPart t A i (mid + j) * mget Y (mid + j) k)
        = sum (e - mid) (fun j => triPart t A i (mid + j) * mget X1 (mid + j) k) :=
      sum_congr fun j hj => by rw [F1 j hj]
    rw [hback]
    by_cases hc : i < mid
    · -- a front row: Σ_front + Σ_back = (X - X') + X'
      rw [(H2 i k hi hk).2 hs hc, mget_gemmSub n m A s mid mid e X1 hi hk, if_pos ⟨hs, hc⟩,
        (H1 i k hi hk).1 (by omega)]
      have hA : sum (e - mid) (fun j => triPart t A i (mid + j) * mget X1 (mid + j) k)
          = sum (e - mid) (fun j => A i (mid + j) * mget X1 (mid + j) k) :=
        sum_congr fun j hj => by rw [triPart_upper_above hu A (by omega)]
      rw [hA]; ring
    · -- a back row sees zeros in the front columns
      have hmi : mid ≤ i := by omega
      have hfront : sum (mid - s) (fun j => triPart t A i (s + j) * mget Y (s + j) k) = 0 :=
        sum_zero' fun j _ => by rw [triPart_upper_below hu A (by omega)]; ring
      rw [hfront, (H1 i k hi hk).2 hmi hie]; ring

/-- unfolding of the recursion above the block size (lower) -/
theorem trsmRec_lower {bs : Nat} {t : Tri} (hl : t.upper = false) (n m : Nat) (A : Mat) {s e : Nat}
    (hbs : 1 ≤ bs) (hsz : bs < e - s) (X : Arr2) :
    trsmRec bs t n m A s e X =
      trsmRec bs t n m A (s + trsmSplit bs (e - s)) e
        (gemmSub n m A (s + trsmSplit bs (e - s)) e s (s + trsmSplit bs (e - s))
          (trsmRec bs t n m A s (s + trsmSplit bs (e - s)) X)) := by
  rw [trsmRec, dif_neg (by omega), if_neg (by simp [hl])]

/-- unfolding of the recursion above the block size (upper) -/
theorem trsmRec_upper {bs : Nat} {t : Tri} (hu : t.upper = true) (n m : Nat) (A : Mat) {s e : Nat}
    (hbs : 1 ≤ bs) (hsz : bs < e - s) (X : Arr2) :
    trsmRec bs t n m A s e X =
      trsmRec bs t n m A s (s + trsmSplit bs (e - s))
        (gemmSub n m A s (s + trsmSplit bs (e - s)) (s + trsmSplit bs (e - s)) e
          (trsmRec bs t n m A (s + trsmSplit bs (e - s)) e X)) := by
  rw [trsmRec, dif_neg (by omega), if_pos hu]

/-- at or below the block size the block kernel is called -/
theorem trsmRec_base {bs : Nat} (t : Tri) (n m : Nat) (A : Mat) {s e : Nat}
    (hsz : e - s ≤ bs ∨ bs = 0) (X : Arr2) :
    trsmRec bs t n m A s e X = trsmBlockStep t n m A s e X := by
  rw [trsmRec, dif_pos hsz]

/-- **the recursion solves the sub-system**, for every block size -/
theorem trsmRec_solves (bs : Nat) (t : Tri) (n m : Nat) (A : Mat) (h : Regular t n A) :
    ∀ d s e (X : Arr2), e - s = d → s ≤ e → e ≤ n →
      SolvesSub t n m A s e X (trsmRec bs t n m A s e X) := by
  intro d
  induction d using Nat.strong_induction_on with
  | _ d ih =>
    intro s e X hd hse he
    by_cases hc : e - s ≤ bs ∨ bs = 0
    · rw [trsmRec_base t n m A hc]
      exact trsmBlockStep_solves t n m A h he X
    · have hbs : 1 ≤ bs := by omega
      have hsz : bs < e - s := by omega
      obtain ⟨sp0, sp1⟩ := split_lt hbs hsz
      cases hu : t.upper
      · rw [trsmRec_lower hu n m A hbs hsz]
        exact solvesSub_lower hu n m A (by omega) (by omega) he
          (ih _ (by omega) s _ X rfl (by omega) (by omega))
          (ih _ (by omega) _ e _ rfl (by omega) he)
      · rw [trsmRec_upper hu n m A hbs hsz]
        exact solvesSub_upper hu n m A (by omega) (by omega) he
          (ih _ (by omega) _ e X rfl (by omega) he)
          (ih _ (by omega) s _ _ rfl (by omega) (by omega))

/-! ### the whole call -/

/-- the full recursion on `[0, n)` solves `T · Y = B` -/
theorem trsmRec_full_correct (bs : Nat) (t : Tri) (n m : Nat) (A B : Mat) (h : Regular t n A)
    {i k : Nat} (hi : i < n) (hk : k < m) :
    mulVec n (triPart t A) (fun a => mget (trsmRec bs t n m A 0 n (matOf n m B)) a k) i = B i k := by
  have H := (trsmRec_solves bs t n m A h n 0 n (matOf n m B) rfl (Nat.zero_le _) (Nat.le_refl _)
    i k hi hk).2 (Nat.zero_le _) hi
  rw [mget_matOf, if_pos ⟨hi, hk⟩] at H
  simp only [Nat.sub_zero, Nat.zero_add] at H
  exact H

/-- … hence every column is the unblocked `trsv` of that column -/
theorem trsmRec_full_eq (bs : Nat) (t : Tri) (n m : Nat) (A B : Mat) (h : Regular t n A)
    {i k : Nat} (hi : i < n) (hk : k < m) :
    mget (trsmRec bs t n m A 0 n (matOf n m B)) i k = vget (trsvLeftArr t n A (fun a => B a k)) i :=
  trsvLeft_unique t n A (fun a => B a k)
    (fun a => mget (trsmRec bs t n m A 0 n (matOf n m B)) a k) h
    (fun _ ha => trsmRec_full_correct bs t n m A B h ha hk) i hi

theorem trsm_left_entry (t : Tri) (n m : Nat) (A B : Mat) {k : Nat} (hk : k < m) (i : Nat) :
    trsm t true n m A B i k = vget (trsvLeftArr t n A (fun a => B a k)) i := by
  simp [trsm, trsmArr, trsvArr, mget, vget, Array.getD_eq_getD_getElem?, hk]

theorem trsm_right_entry (t : Tri) (n m : Nat) (A B : Mat) {k : Nat} (hk : k < m) (i : Nat) :
    trsm t false n m A B k i = vget (trsvLeftArr t.transposed n (transpose A) (fun a => B k a)) i := by
  simp [trsm, trsmArr, trsvArr, mget, vget, Array.getD_eq_getD_getElem?, hk]

/-- `trsm<Triangular, left>`: blocked = unblocked, entry by entry, every block size -/
theorem trsmBlocked_eq_trsm_left (bs : Nat) (t : Tri) (n m : Nat) (A B : Mat)
    (h : triSingular t n A = false) :
    ∀ i k, i < n → k < m → trsmBlocked bs t true n m A B i k = trsm t true n m A B i k := by
  intro i k hi hk
  rw [trsm_left_entry t n m A B hk i]
  exact trsmRec_full_eq bs t n m A B ((regular_iff_not_singular t n A).mpr h) hi hk

/-- `trsm<Triangular, right>` (`B` is `m × n`): blocked = unblocked -/
theorem trsmBlocked_eq_trsm_right (bs : Nat) (t : Tri) (n m : Nat) (A B : Mat)
    (h : triSingular t n A = false) :
    ∀ k i, k < m → i < n → trsmBlocked bs t false n m A B k i = trsm t false n m A B k i := by
  intro k i hk hi
  rw [trsm_right_entry t n m A B hk i]
  exact trsmRec_full_eq bs t.transposed n m (transpose A) (transpose B)
    ((regular_iff_not_singular t n A).mpr h).transposed hi hk

/-- **Blocking does not change the result.**  For every block size `bs` (the C++ uses 32), every
size `n`, number of right-hand sides `m`, triangular tag, side, matrix and right-hand side on which
no `[TRSM] Matrix is singular!` is thrown, `trsm_recursive` (recursive splitting at
`numBlocks/2*bs`, `gemm` updates, block kernel below `bs`) returns, entry by entry, the result of the
unblocked substitution loop.  Index range: `left`: `a < n` (row), `b < m` (right-hand side);
`right`: `a < m` (right-hand side), `b < n`. -/
theorem trsmBlocked_eq_trsm (bs : Nat) (t : Tri) (left : Bool) (n m : Nat) (A B : Mat)
    (h : triSingular t n A = false) :
    ∀ a b, (if left then a < n ∧ b < m else a < m ∧ b < n) →
      trsmBlocked bs t left n m A B a b = trsm t left n m A B a b := by
  intro a b hab
  cases left
  · simp only [Bool.false_eq_true, if_false] at hab
    exact trsmBlocked_eq_trsm_right bs t n m A B h a b hab.1 hab.2
  · simp only [if_true] at hab
    exact trsmBlocked_eq_trsm_left bs t n m A B h a b hab.1 hab.2

/-- `T X = B` for the blocked `trsm<Triangular, left>` -/
theorem trsmBlocked_correct_left (bs : Nat) (t : Tri) (n m : Nat) (A B : Mat)
    (h : triSingular t n A = false) :
    ∀ i k, i < n → k < m → mul n (triPart t A) (trsmBlocked bs t true n m A B) i k = B i k := by
  intro i k hi hk
  exact trsmRec_full_correct bs t n m A B ((regular_iff_not_singular t n A).mpr h) hi hk

/-- `X T = B` for the blocked `trsm<Triangular, right>` -/
theorem trsmBlocked_correct_right (bs : Nat) (t : Tri) (n m : Nat) (A B : Mat)
    (h : triSingular t n A = false) :
    ∀ k j, k < m → j < n → mul n (trsmBlocked bs t false n m A B) (triPart t A) k j = B k j := by
  intro k j hk hj
  have key := trsmRec_full_correct bs t.transposed n m (transpose A) (transpose B)
    ((regular_iff_not_singular t n A).mpr h).transposed hj hk
  show _ = transpose B j k
  rw [← key]
  unfold mul mulVec
  apply sum_congr; intro i _
  rw [triPart_transposed]
  exact Rat.mul_comm _ _

/-- both sides in one statement -/
theorem trsmBlocked_correct (bs : Nat) (t : Tri) (left : Bool) (n m : Nat) (A B : Mat)
    (h : triSingular t n A = false) :
    ∀ a b, (if left then a < n ∧ b < m else a < m ∧ b < n) →
      (if left then mul n (triPart t A) (trsmBlocked bs t left n m A B) a b
       else mul n (trsmBlocked bs t left n m A B) (triPart t A) a b) = B a b := by
  intro a b hab
  cases left
  · simp only [Bool.false_eq_true, if_false] at hab ⊢
    exact trsmBlocked_correct_right bs t n m A B h a b hab.1 hab.2
  · simp only [if_true] at hab ⊢
    exact trsmBlocked_correct_left bs t n m A B h a b hab.1 hab.2

/-! ### non-vacuity: the recursion really recurses -/

example : trsmSplit 1 3 = 1 ∧ trsmSplit 2 3 = 2 ∧ trsmSplit 32 33 = 32 ∧ trsmSplit 32 100 = 64 ∧ trsmSplit 32 129 = 64 := by decide

theorem trsmRec_bs1_n3_lower (t : Tri) (hl : t.upper = false) (m : Nat) (A : Mat) (X : Arr2) :
    trsmRec 1 t 3 m A 0 3 X =
      trsmBlockStep t 3 m A 2 3 (gemmSub 3 m A 2 3 1 2 (trsmBlockStep t 3 m A 1 2
        (gemmSub 3 m A 1 3 0 1 (trsmBlockStep t 3 m A 0 1 X)))) := by
  have e1 : trsmSplit 1 (3 - 0) = 1 := by decide
  have e2 : trsmSplit 1 (3 - 1) = 1 := by decide
  rw [trsmRec_lower hl 3 m A (by decide) (by decide), e1,
    trsmRec_base t 3 m A (s := 0) (e := 0 + 1) (by decide),
    trsmRec_lower hl 3 m A (s := 0 + 1) (e := 3) (by decide) (by decide), e2,
    trsmRec_base t 3 m A (s := 0 + 1) (e := 0 + 1 + 1) (by decide),
    trsmRec_base t 3 m A (s := 0 + 1 + 1) (e := 3) (by decide)]

def exA : Mat := fun i j => if j ≤ i then ((i + j + 1 : Nat) : Rat) else 7
def exB : Mat := fun i _ => if i = 0 then 1 else if i = 1 then 8 else 26

example : trsmBlocked 1 ⟨false, false⟩ true 3 1 exA exB 2 0 = 3 := by
  show mget (trsmRec 1 ⟨false, false⟩ 3 1 exA 0 3 (matOf 3 1 exB)) 2 0 = 3
  rw [trsmRec_bs1_n3_lower _ rfl]
  norm_num [mget_trsmBlockStep, mget_gemmSub, trsvLeftArr, fwdArr, tab, vget, sum, mget_matOf, exA, exB]

end SharkVerif.LinSolve
