/-
C06: the gradient matrices returned by the loss models are *total* derivatives (`BatchGradAt`,
`Lemmas/LossContract.lean`) of the batch value, over `ℝ`: squared loss (vector and class labels),
hinge loss (binary / multi-class), epsilon-hinge loss, squared hinge loss (binary / multi-class).
Kinks of the piecewise-linear losses are excluded by explicit hypotheses; the squared hinge losses
are C¹ and need none.
-/
import Mathlib.Analysis.Calculus.Deriv.Mul
import Mathlib.Analysis.Calculus.Deriv.Pow
import Mathlib.Analysis.Calculus.Deriv.Comp
import Mathlib.Analysis.Calculus.Deriv.Add
import Mathlib.Tactic.NormNum
import SharkVerif.Lemmas.LossContract
namespace SharkVerif.ErrFn
open Finset SharkVerif.Loss Scalar

/-! ## 0. list / index-function plumbing -/

theorem rowOf_length (m : ℕ) (q : ℕ → ℝ) : (rowOf m q).length = m := by simp [rowOf]

theorem rowOf_getD (m : ℕ) (q : ℕ → ℝ) (k : ℕ) (hk : k < m) : (rowOf m q).getD k 0 = q k := by
  simp [rowOf, List.getD_eq_getElem?_getD, hk]

theorem getD_map_range (m : ℕ) (f : ℕ → ℝ) (k : ℕ) (hk : k < m) :
    ((List.range m).map f).getD k 0 = f k := rowOf_getD m f k hk

theorem toRows_eq (B m : ℕ) (P : ℕ → ℕ → ℝ) :
    toRows B m P = (List.range B).map fun i => rowOf m (P i) := rfl

theorem zipWith_map_range_right {α β γ : Type} (g : α → β → γ) (d : α) (n : ℕ) (l : List α)
    (hl : l.length = n) (h : ℕ → β) :
    List.zipWith g l ((List.range n).map h) = (List.range n).map fun i => g (l.getD i d) (h i) := by
  apply List.ext_getElem
  · simp [hl]
  · intro i h1 h2
    have hi : i < l.length := by simp at h1; omega
    simp [List.getD_eq_getElem?_getD, hi]

theorem zipWith_map_range_left {α β γ : Type} (g : β → α → γ) (d : α) (n : ℕ) (l : List α)
    (hl : l.length = n) (h : ℕ → β) :
    List.zipWith g ((List.range n).map h) l = (List.range n).map fun i => g (h i) (l.getD i d) := by
  apply List.ext_getElem
  · simp [hl]
  · intro i h1 h2
    have hi : i < l.length := by simp at h1; omega
    simp [List.getD_eq_getElem?_getD, hi]

theorem list_sum_map_range (n : ℕ) (f : ℕ → ℝ) :
    ((List.range n).map f).sum = ∑ i ∈ range n, f i := by
  induction n with
  | zero => simp
  | succ n ih =>
    rw [List.range_succ, List.map_append, List.sum_append, ih, Finset.sum_range_succ]; simp

/-- batch value of a row-wise loss on `toRows B m P` as a `Finset` sum over the rows -/
theorem batch_sum_rows {L : Type} (ρ : L → List ℝ → ℝ) (d : L) (labels : List L) (B m : ℕ)
    (hB : labels.length = B) (P : ℕ → ℕ → ℝ) :
    (List.zipWith ρ labels (toRows B m P)).sum
      = ∑ i ∈ range B, ρ (labels.getD i d) (rowOf m (P i)) := by
  rw [toRows_eq, zipWith_map_range_right ρ d B labels hB, list_sum_map_range]

/-- row `i` of a row-wise gradient on `toRows B m P` -/
theorem batch_grad_rows {L : Type} (γ : L → List ℝ → List ℝ) (d : L) (labels : List L) (B m : ℕ)
    (hB : labels.length = B) (P : ℕ → ℕ → ℝ) (i : ℕ) (hi : i < B) :
    (List.zipWith γ labels (toRows B m P)).getD i [] = γ (labels.getD i d) (rowOf m (P i)) := by
  rw [toRows_eq, zipWith_map_range_right γ d B labels hB]
  simp [List.getD_eq_getElem?_getD, hi]

theorem row_sum_zipWith (g : ℝ → ℝ → ℝ) (l : List ℝ) (m : ℕ) (hl : l.length = m) (q : ℕ → ℝ) :
    (List.zipWith g l (rowOf m q)).sum = ∑ k ∈ range m, g (l.getD k 0) (q k) := by
  unfold rowOf
  rw [zipWith_map_range_right g 0 m l hl, list_sum_map_range]

theorem getD_mem_length (labels : List (List ℝ)) (m : ℕ) (hm : ∀ l ∈ labels, l.length = m)
    (i : ℕ) (hi : i < labels.length) : (labels.getD i []).length = m := by
  have : labels.getD i [] = labels[i] := by simp [List.getD_eq_getElem?_getD, hi]
  rw [this]; exact hm _ (List.getElem_mem hi)

/-- **separable rows**: `c · Σ_k φ_k(r_k)` has total derivative `(c · φ_k'(p_k))_k` -/
theorem rowGradAt_separable (m : ℕ) (c : ℝ) (φ : ℕ → ℝ → ℝ) (φ' : ℕ → ℝ) (g : List ℝ) (p0 : ℕ → ℝ)
    (hφ : ∀ k, k < m → HasDerivAt (φ k) (φ' k) (p0 k))
    (hg : ∀ k, k < m → g.getD k 0 = c * φ' k) :
    RowGradAt m (fun r => c * ∑ k ∈ range m, φ k (r.getD k 0)) g p0 := by
  intro q q' t0 h0 hd
  have hfun : (fun t => c * ∑ k ∈ range m, φ k ((rowOf m (q t)).getD k 0))
      = fun t => c * ∑ k ∈ range m, φ k (q t k) := by
    funext t; congr 1
    exact Finset.sum_congr rfl fun k hk => by rw [rowOf_getD m _ k (Finset.mem_range.1 hk)]
  rw [hfun]
  have hterm : ∀ k ∈ range m, HasDerivAt (fun t => φ k (q t k)) (φ' k * q' k) t0 := by
    intro k hk
    have hk' := Finset.mem_range.1 hk
    have h1 := hφ k hk'
    rw [← h0 k hk'] at h1
    exact h1.comp t0 (hd k hk')
  have hs := (HasDerivAt.fun_sum hterm).const_mul c
  have he : ∑ k ∈ range m, g.getD k 0 * q' k = c * ∑ k ∈ range m, φ' k * q' k := by
    rw [Finset.mul_sum]
    exact Finset.sum_congr rfl fun k hk => by rw [hg k (Finset.mem_range.1 hk)]; ring
  rw [he]; exact hs

/-! ## 1. SquaredLoss (vector labels) -/

theorem squared_batchGradAt (labels : List (List ℝ)) (B m : ℕ) (P0 : ℕ → ℕ → ℝ)
    (hB : labels.length = B) (hm : ∀ l ∈ labels, l.length = m) :
    BatchGradAt B m ((squaredLoss : LossFn ℝ (List ℝ)).eval labels)
      ((squaredLoss : LossFn ℝ (List ℝ)).evalDerivative labels (toRows B m P0)).2 P0 := by
  refine batchGradAt_of_rows B m _ _ P0
    (fun i r => (1 / 2 : ℝ) * ∑ k ∈ range m, (fun k x => ((labels.getD i []).getD k 0 - x) ^ 2) k (r.getD k 0))
    (fun i => zipSub (rowOf m (P0 i)) (labels.getD i [])) ?_ ?_ ?_
  · intro P
    show squaredEval labels (toRows B m P) = _
    unfold squaredEval
    rw [sumL_eq_sum_real, half_real, List.map_flatten, List.sum_flatten, List.map_map,
      List.map_zipWith, batch_sum_rows _ [] labels B m hB, Finset.mul_sum]
    refine Finset.sum_congr rfl fun i hi => ?_
    have hi' : i < labels.length := by rw [hB]; exact Finset.mem_range.1 hi
    congr 1
    simp only [Function.comp, zipSub, List.map_zipWith]
    rw [row_sum_zipWith _ _ m (getD_mem_length labels m hm i hi')]
    refine Finset.sum_congr rfl fun k hk => ?_
    rw [rowOf_getD m _ k (Finset.mem_range.1 hk)]
    simp [sqr, pow_two]
  · intro i hi
    show (List.zipWith zipSub (toRows B m P0) labels).getD i [] = _
    rw [toRows_eq, zipWith_map_range_left zipSub [] B labels hB]
    simp [List.getD_eq_getElem?_getD, hi]
  · intro i hi
    have hi' : i < labels.length := by rw [hB]; exact hi
    have hlen := getD_mem_length labels m hm i hi'
    refine rowGradAt_separable m (1 / 2) (fun k x => ((labels.getD i []).getD k 0 - x) ^ 2)
      (fun k => -(2 * ((labels.getD i []).getD k 0 - P0 i k))) _ _ ?_ ?_
    · intro k _
      have h1 : HasDerivAt (fun x : ℝ => (labels.getD i []).getD k 0 - x) (-1) (P0 i k) := by
        simpa using (hasDerivAt_id (P0 i k)).const_sub ((labels.getD i []).getD k 0)
      exact (h1.fun_pow 2).congr_deriv (by norm_num)
    · intro k hk
      unfold zipSub rowOf
      rw [zipWith_map_range_left _ 0 m _ hlen]
      simp [List.getD_eq_getElem?_getD, hk]

example : BatchGradAt 2 2 ((squaredLoss : LossFn ℝ (List ℝ)).eval [[1, 0], [0, 1]])
    ((squaredLoss : LossFn ℝ (List ℝ)).evalDerivative [[1, 0], [0, 1]] (toRows 2 2 fun i k => (i + 2 * k : ℝ))).2
    (fun i k => (i + 2 * k : ℝ)) :=
  squared_batchGradAt _ 2 2 _ (by simp) (by simp)

/-! ## 2. SquaredLoss (class labels) -/

theorem normSqr_rowOf (m : ℕ) (q : ℕ → ℝ) : normSqr (rowOf m q) = ∑ k ∈ range m, q k ^ 2 := by
  unfold normSqr rowOf
  rw [sumL_eq_sum_real, List.map_map, list_sum_map_range]
  exact Finset.sum_congr rfl fun k _ => by simp [sqr, pow_two]

theorem getD_lt_of_forall (labels : List ℕ) (m : ℕ) (hc : ∀ c ∈ labels, c < m)
    (i : ℕ) (hi : i < labels.length) : labels.getD i 0 < m := by
  have : labels.getD i 0 = labels[i] := by simp [List.getD_eq_getElem?_getD, hi]
  rw [this]; exact hc _ (List.getElem_mem hi)

theorem squaredClass_batchGradAt (labels : List ℕ) (B m : ℕ) (P0 : ℕ → ℕ → ℝ)
    (hB : labels.length = B) (hc : ∀ c ∈ labels, c < m) :
    BatchGradAt B m ((squaredClassLoss : LossFn ℝ ℕ).eval labels)
      ((squaredClassLoss : LossFn ℝ ℕ).evalDerivative labels (toRows B m P0)).2 P0 := by
  refine batchGradAt_of_rows B m _ _ P0
    (fun i r => (1 / 2 : ℝ) * ∑ k ∈ range m,
      (fun k x => x ^ 2 + (if k = labels.getD i 0 then 1 - 2 * x else 0)) k (r.getD k 0))
    (fun i => (fun c p => (List.range p.length).map fun o => if o = c then p.getD o 0 - 1 else p.getD o 0)
      (labels.getD i 0) (rowOf m (P0 i))) ?_ ?_ ?_
  · intro P
    show squaredClassEval labels (toRows B m P) = _
    unfold squaredClassEval
    rw [sumL_eq_sum_real, half_real, batch_sum_rows _ 0 labels B m hB, Finset.mul_sum]
    refine Finset.sum_congr rfl fun i hi => ?_
    have hci : labels.getD i 0 < m :=
      getD_lt_of_forall labels m hc i (by rw [hB]; exact Finset.mem_range.1 hi)
    congr 1
    have hr : ∑ k ∈ range m, (fun k x => x ^ 2 + (if k = labels.getD i 0 then 1 - 2 * x else 0)) k
          ((rowOf m (P i)).getD k 0)
        = ∑ k ∈ range m, (P i k ^ 2 + (if k = labels.getD i 0 then 1 - 2 * P i k else 0)) :=
      Finset.sum_congr rfl fun k hk => by rw [rowOf_getD m _ k (Finset.mem_range.1 hk)]
    rw [hr, Finset.sum_add_distrib, Finset.sum_ite_eq' (range m) (labels.getD i 0),
      if_pos (Finset.mem_range.2 hci), normSqr_rowOf, rowOf_getD m _ _ hci, two_real]
    ring
  · intro i hi
    show (List.zipWith _ labels (toRows B m P0)).getD i [] = _
    exact batch_grad_rows _ 0 labels B m hB P0 i hi
  · intro i hi
    refine rowGradAt_separable m (1 / 2)
      (fun k x => x ^ 2 + (if k = labels.getD i 0 then 1 - 2 * x else 0))
      (fun k => 2 * P0 i k + (if k = labels.getD i 0 then -2 else 0)) _ _ ?_ ?_
    · intro k _
      have h1 : HasDerivAt (fun x : ℝ => x ^ 2) (2 * P0 i k) (P0 i k) :=
        ((hasDerivAt_id (P0 i k)).fun_pow 2).congr_deriv (by simp)
      by_cases hk : k = labels.getD i 0
      · simp only [hk, if_true]
        have h2 : HasDerivAt (fun x : ℝ => 1 - 2 * x) (-2) (P0 i (labels.getD i 0)) := by
          simpa using ((hasDerivAt_id (P0 i (labels.getD i 0))).const_mul (2 : ℝ)).const_sub 1
        rw [← hk] at h2 ⊢
        exact h1.add h2
      · simp only [hk, if_false, add_zero]
        exact h1
    · intro k hk
      simp only [rowOf_length]
      rw [getD_map_range m _ k hk, rowOf_getD m _ k hk]
      split_ifs <;> ring

example : BatchGradAt 2 2 ((squaredClassLoss : LossFn ℝ ℕ).eval [1, 0])
    ((squaredClassLoss : LossFn ℝ ℕ).evalDerivative [1, 0] (toRows 2 2 fun i k => (i + 2 * k : ℝ))).2
    (fun i k => (i + 2 * k : ℝ)) :=
  squaredClass_batchGradAt _ 2 2 _ (by simp) (by simp)

/-! ## 3. HingeLoss, binary branch (one output column) -/

/-- `max 0 ∘ u` away from the kink `u = 0`: the active branch is locally constant -/
theorem hasDerivAt_max_zero_comp (u : ℝ → ℝ) (u' x : ℝ) (hu : HasDerivAt u u' x) (hne : u x ≠ 0) :
    HasDerivAt (fun t => max 0 (u t)) (if 0 < u x then u' else 0) x := by
  rcases lt_or_gt_of_ne hne with h | h
  · have hev : ∀ᶠ t in nhds x, u t < 0 := hu.continuousAt.eventually (gt_mem_nhds h)
    rw [if_neg (not_lt.2 (le_of_lt h))]
    refine (hasDerivAt_const x (0 : ℝ)).congr_of_eventuallyEq ?_
    filter_upwards [hev] with t ht
    exact max_eq_left (le_of_lt ht)
  · have hev : ∀ᶠ t in nhds x, 0 < u t := hu.continuousAt.eventually (lt_mem_nhds h)
    rw [if_pos h]
    refine hu.congr_of_eventuallyEq ?_
    filter_upwards [hev] with t ht
    exact max_eq_right (le_of_lt ht)

theorem mem_toRows_length (B m : ℕ) (P : ℕ → ℕ → ℝ) : ∀ p ∈ toRows B m P, p.length = m := by
  intro p hp
  rw [toRows_eq] at hp
  obtain ⟨i, _, rfl⟩ := List.mem_map.1 hp
  exact rowOf_length m _

theorem hingeEval_binary (labels : List ℕ) (preds : List (List ℝ)) (h : ∀ p ∈ preds, p.length = 1) :
    hingeEval labels preds = sumL (List.zipWith hingeRowBinary labels preds) := by
  cases preds with
  | nil => simp [hingeEval, sumL]
  | cons p0 ps => simp [hingeEval, h p0 (by simp)]

theorem hingeEvalDerivative_binary (labels : List ℕ) (preds : List (List ℝ)) (h : ∀ p ∈ preds, p.length = 1) :
    (hingeEvalDerivative labels preds).2 = List.zipWith hingeGradRowBinary labels preds := by
  cases preds with
  | nil => simp [hingeEvalDerivative]
  | cons p0 ps => simp [hingeEvalDerivative, h p0 (by simp)]

theorem hingeRowBinary_real' (c : ℕ) (r : List ℝ) :
    hingeRowBinary c r = max 0 (1 - (2 * (c : ℝ) - 1) * r.getD 0 0) := by
  unfold hingeRowBinary
  simp only []
  rw [smax_zero_real, two_real]
  rfl

theorem hinge_binary_batchGradAt (labels : List ℕ) (B : ℕ) (P0 : ℕ → ℕ → ℝ)
    (hB : labels.length = B)
    (hkink : ∀ i, i < B → 1 - (2 * ((labels.getD i 0 : ℕ) : ℝ) - 1) * P0 i 0 ≠ 0) :
    BatchGradAt B 1 ((hingeLoss : LossFn ℝ ℕ).eval labels)
      ((hingeLoss : LossFn ℝ ℕ).evalDerivative labels (toRows B 1 P0)).2 P0 := by
  refine batchGradAt_of_rows B 1 _ _ P0
    (fun i r => (1 : ℝ) * ∑ k ∈ range 1,
      (fun _ x => max 0 (1 - (2 * ((labels.getD i 0 : ℕ) : ℝ) - 1) * x)) k (r.getD k 0))
    (fun i => hingeGradRowBinary (labels.getD i 0) (rowOf 1 (P0 i))) ?_ ?_ ?_
  · intro P
    show hingeEval labels (toRows B 1 P) = _
    rw [hingeEval_binary _ _ (mem_toRows_length B 1 P), sumL_eq_sum_real,
      batch_sum_rows _ 0 labels B 1 hB]
    refine Finset.sum_congr rfl fun i _ => ?_
    rw [hingeRowBinary_real', Finset.sum_range_one, one_mul]
  · intro i hi
    show (hingeEvalDerivative labels (toRows B 1 P0)).2.getD i [] = _
    rw [hingeEvalDerivative_binary _ _ (mem_toRows_length B 1 P0)]
    exact batch_grad_rows _ 0 labels B 1 hB P0 i hi
  · intro i hi
    refine rowGradAt_separable 1 1
      (fun _ x => max 0 (1 - (2 * ((labels.getD i 0 : ℕ) : ℝ) - 1) * x))
      (fun _ => if 0 < 1 - (2 * ((labels.getD i 0 : ℕ) : ℝ) - 1) * P0 i 0
        then -(2 * ((labels.getD i 0 : ℕ) : ℝ) - 1) else 0) _ _ ?_ ?_
    · intro k hk
      have hk0 : k = 0 := by omega
      subst hk0
      have hu : HasDerivAt (fun x : ℝ => 1 - (2 * ((labels.getD i 0 : ℕ) : ℝ) - 1) * x)
          (-(2 * ((labels.getD i 0 : ℕ) : ℝ) - 1)) (P0 i 0) := by
        simpa using ((hasDerivAt_id (P0 i 0)).const_mul (2 * ((labels.getD i 0 : ℕ) : ℝ) - 1)).const_sub 1
      exact hasDerivAt_max_zero_comp _ _ _ hu (hkink i hi)
    · intro k hk
      have hk0 : k = 0 := by omega
      subst hk0
      unfold hingeGradRowBinary
      simp only []
      rw [smax_zero_real, two_real, rowOf_getD 1 _ 0 (by omega), one_mul]
      have hne := hkink i hi
      by_cases hpos : 0 < 1 - (2 * ((labels.getD i 0 : ℕ) : ℝ) - 1) * P0 i 0
      · have h1 : 0 < max 0 (1 - (2 * ((labels.getD i 0 : ℕ) : ℝ) - 1) * P0 i 0) := lt_max_of_lt_right hpos
        rw [if_pos hpos]
        simp only [ofNat_real]
        rw [if_pos h1]
        simp
      · have h1 : ¬ 0 < max 0 (1 - (2 * ((labels.getD i 0 : ℕ) : ℝ) - 1) * P0 i 0) := by
          rw [max_eq_left (not_lt.1 hpos)]; exact lt_irrefl 0
        rw [if_neg hpos]
        simp only [ofNat_real]
        rw [if_neg h1]
        simp

example : BatchGradAt 2 1 ((hingeLoss : LossFn ℝ ℕ).eval [1, 0])
    ((hingeLoss : LossFn ℝ ℕ).evalDerivative [1, 0] (toRows 2 1 fun i _ => (i + 2 : ℝ))).2
    (fun i _ => (i + 2 : ℝ)) :=
  hinge_binary_batchGradAt _ 2 _ (by simp) (by
    intro i hi
    have : i = 0 ∨ i = 1 := by omega
    rcases this with rfl | rfl <;> norm_num)

/-! ## 4. HingeLoss, multi-class branch -/

theorem list_sum_filter_map_range (m : ℕ) (b : ℕ → Bool) (f : ℕ → ℝ) :
    (((List.range m).filter b).map f).sum = ∑ o ∈ range m, if b o then f o else 0 := by
  induction m with
  | zero => simp
  | succ n ih =>
    rw [List.range_succ, List.filter_append, List.map_append, List.sum_append, ih,
      Finset.sum_range_succ]
    congr 1
    cases h : b n <;> simp [h]

theorem filter_length_real (m : ℕ) (b : ℕ → Bool) :
    (((List.range m).filter b).length : ℝ) = ∑ o ∈ range m, if b o then (1 : ℝ) else 0 := by
  induction m with
  | zero => simp
  | succ n ih =>
    rw [List.range_succ, List.filter_append, List.length_append, Nat.cast_add, ih,
      Finset.sum_range_succ]
    congr 1
    cases h : b n <;> simp [h]

/-- **one-versus-rest rows**: `κ · Σ_{o ≠ c} ψ(2 − r_c + r_o)` -/
theorem rowGradAt_multi (m c : ℕ) (hc : c < m) (κ : ℝ) (ψ : ℝ → ℝ) (ψ' : ℕ → ℝ) (p0 : ℕ → ℝ)
    (g : List ℝ)
    (hψ : ∀ o, o < m → o ≠ c → HasDerivAt ψ (ψ' o) (2 - p0 c + p0 o))
    (hgc : g.getD c 0 = -(∑ o ∈ range m, if o = c then 0 else ψ' o) * κ)
    (hgo : ∀ o, o < m → o ≠ c → g.getD o 0 = ψ' o * κ) :
    RowGradAt m (fun r => (∑ o ∈ range m, if o = c then 0 else ψ (2 - r.getD c 0 + r.getD o 0)) * κ)
      g p0 := by
  intro q q' t0 h0 hd
  have hfun : (fun t => (∑ o ∈ range m, if o = c then 0
        else ψ (2 - (rowOf m (q t)).getD c 0 + (rowOf m (q t)).getD o 0)) * κ)
      = fun t => (∑ o ∈ range m, if o = c then 0 else ψ (2 - q t c + q t o)) * κ := by
    funext t; congr 1
    exact Finset.sum_congr rfl fun o ho => by
      rw [rowOf_getD m _ o (Finset.mem_range.1 ho), rowOf_getD m _ c hc]
  rw [hfun]
  have hterm : ∀ o ∈ range m, HasDerivAt (fun t => if o = c then 0 else ψ (2 - q t c + q t o))
      (if o = c then 0 else ψ' o * (-q' c + q' o)) t0 := by
    intro o ho
    have ho' := Finset.mem_range.1 ho
    by_cases hoc : o = c
    · simp only [hoc, if_true]; exact hasDerivAt_const t0 (0 : ℝ)
    · simp only [hoc, if_false]
      have hu : HasDerivAt (fun t => 2 - q t c + q t o) (-q' c + q' o) t0 :=
        ((hd c hc).const_sub 2).add (hd o ho')
      have h1 := hψ o ho' hoc
      rw [← h0 c hc, ← h0 o ho'] at h1
      exact h1.comp t0 hu
  have hs := (HasDerivAt.fun_sum hterm).mul_const κ
  have he : ∑ k ∈ range m, g.getD k 0 * q' k
      = (∑ o ∈ range m, if o = c then 0 else ψ' o * (-q' c + q' o)) * κ := by
    have h1 : ∀ k ∈ range m, g.getD k 0 * q' k
        = (if k = c then (-(∑ o ∈ range m, if o = c then 0 else ψ' o) * κ) * q' c else 0)
          + (if k = c then 0 else ψ' k * κ * q' k) := by
      intro k hk
      by_cases h : k = c
      · rw [if_pos h, if_pos h, add_zero, h, hgc]
      · rw [if_neg h, if_neg h, zero_add, hgo k (Finset.mem_range.1 hk) h]
    rw [Finset.sum_congr rfl h1, Finset.sum_add_distrib, Finset.sum_ite_eq' (range m) c,
      if_pos (Finset.mem_range.2 hc), ← Finset.sum_neg_distrib, Finset.sum_mul, Finset.sum_mul,
      ← Finset.sum_add_distrib, Finset.sum_mul]
    refine Finset.sum_congr rfl fun o _ => ?_
    split_ifs <;> ring
  rw [he]; exact hs

theorem hingeEval_multi (labels : List ℕ) (preds : List (List ℝ)) (h : ∀ p ∈ preds, p.length ≠ 1) :
    hingeEval labels preds = sumL (List.zipWith hingeRowMulti labels preds) / two := by
  cases preds with
  | nil => simp [hingeEval, sumL]
  | cons p0 ps => simp [hingeEval, h p0 (by simp)]

theorem hingeEvalDerivative_multi (labels : List ℕ) (preds : List (List ℝ)) (h : ∀ p ∈ preds, p.length ≠ 1) :
    (hingeEvalDerivative labels preds).2 = List.zipWith hingeGradRowMulti labels preds := by
  cases preds with
  | nil => simp [hingeEvalDerivative]
  | cons p0 ps => simp [hingeEvalDerivative, h p0 (by simp)]

theorem hingeRowMulti_real (c m : ℕ) (p : List ℝ) (hp : p.length = m) :
    hingeRowMulti c p = ∑ o ∈ range m, if o = c then 0 else max 0 (2 - p.getD c 0 + p.getD o 0) := by
  unfold hingeRowMulti
  rw [sumL_eq_sum_real, hp, list_sum_filter_map_range]
  refine Finset.sum_congr rfl fun o _ => ?_
  by_cases h : o = c
  · simp [h]
  · simp [h, smax_zero_real, two_real]

theorem foldl_sub_half (n : ℕ) :
    (List.range n).foldl (fun (g : ℝ) _ => g - half) 0 = -(n : ℝ) * (1 / 2) := by
  induction n with
  | zero => simp
  | succ n ih => rw [List.range_succ, List.foldl_append, ih, half_real]; simp; ring

theorem hingeGradRowMulti_getD (c m : ℕ) (p : List ℝ) (hp : p.length = m) (k : ℕ) (hk : k < m) :
    (hingeGradRowMulti c p).getD k 0
      = if k = c then -(∑ o ∈ range m, if o = c then 0
            else (if 0 < 2 - p.getD c 0 + p.getD o 0 then (1 : ℝ) else 0)) * (1 / 2)
        else (if 0 < 2 - p.getD c 0 + p.getD k 0 then (1 : ℝ) else 0) * (1 / 2) := by
  unfold hingeGradRowMulti
  simp only []
  rw [hp, getD_map_range m _ k hk]
  have hv : ∀ o, (0 < smax 0 (two - p.getD c 0 + p.getD o 0)) ↔ 0 < 2 - p.getD c 0 + p.getD o 0 := by
    intro o; rw [smax_zero_real, two_real]; simp
  by_cases hkc : k = c
  · rw [if_pos hkc, if_pos hkc, foldl_sub_half, filter_length_real]
    congr 2
    refine Finset.sum_congr rfl fun o _ => ?_
    by_cases h : o = c
    · simp [h]
    · simp [h, hv, -List.getD_eq_getElem?_getD]
  · rw [if_neg hkc, if_neg hkc, half_real]
    by_cases h : 0 < 2 - p.getD c 0 + p.getD k 0
    · simp [hkc, hv, h, -List.getD_eq_getElem?_getD]
    · simp [hkc, hv, h, -List.getD_eq_getElem?_getD]

theorem hinge_multi_batchGradAt (labels : List ℕ) (B m : ℕ) (P0 : ℕ → ℕ → ℝ)
    (hB : labels.length = B) (hm : m ≠ 1) (hc : ∀ c ∈ labels, c < m)
    (hkink : ∀ i, i < B → ∀ o, o < m → o ≠ labels.getD i 0 →
      2 - P0 i (labels.getD i 0) + P0 i o ≠ 0) :
    BatchGradAt B m ((hingeLoss : LossFn ℝ ℕ).eval labels)
      ((hingeLoss : LossFn ℝ ℕ).evalDerivative labels (toRows B m P0)).2 P0 := by
  have hlen : ∀ P : ℕ → ℕ → ℝ, ∀ p ∈ toRows B m P, p.length ≠ 1 := by
    intro P p hp; rw [mem_toRows_length B m P p hp]; exact hm
  refine batchGradAt_of_rows B m _ _ P0
    (fun i r => (∑ o ∈ range m, if o = labels.getD i 0 then 0
      else (fun x => max 0 x) (2 - r.getD (labels.getD i 0) 0 + r.getD o 0)) * (1 / 2))
    (fun i => hingeGradRowMulti (labels.getD i 0) (rowOf m (P0 i))) ?_ ?_ ?_
  · intro P
    show hingeEval labels (toRows B m P) = _
    rw [hingeEval_multi _ _ (hlen P), sumL_eq_sum_real, batch_sum_rows _ 0 labels B m hB, two_real,
      div_eq_mul_one_div, Finset.sum_mul]
    refine Finset.sum_congr rfl fun i _ => ?_
    rw [hingeRowMulti_real _ m _ (rowOf_length m _)]
  · intro i hi
    show (hingeEvalDerivative labels (toRows B m P0)).2.getD i [] = _
    rw [hingeEvalDerivative_multi _ _ (hlen P0)]
    exact batch_grad_rows _ 0 labels B m hB P0 i hi
  · intro i hi
    have hci : labels.getD i 0 < m := getD_lt_of_forall labels m hc i (by rw [hB]; exact hi)
    refine rowGradAt_multi m (labels.getD i 0) hci (1 / 2) (fun x => max 0 x)
      (fun o => if 0 < 2 - (rowOf m (P0 i)).getD (labels.getD i 0) 0 + (rowOf m (P0 i)).getD o 0
        then (1 : ℝ) else 0) (P0 i) _ ?_ ?_ ?_
    · intro o ho hoc
      rw [rowOf_getD m _ _ hci, rowOf_getD m _ o ho]
      have := hasDerivAt_max_zero_comp (fun x => x) 1 _ (hasDerivAt_id _) (hkink i hi o ho hoc)
      exact this
    · rw [hingeGradRowMulti_getD _ m _ (rowOf_length m _) _ hci, if_pos rfl]
    · intro o ho hoc
      rw [hingeGradRowMulti_getD _ m _ (rowOf_length m _) _ ho, if_neg hoc]

example : BatchGradAt 2 2 ((hingeLoss : LossFn ℝ ℕ).eval [1, 0])
    ((hingeLoss : LossFn ℝ ℕ).evalDerivative [1, 0] (toRows 2 2 fun i k => (i + 5 * k : ℝ))).2
    (fun i k => (i + 5 * k : ℝ)) :=
  hinge_multi_batchGradAt _ 2 2 _ (by simp) (by norm_num) (by simp) (by
    intro i hi o ho
    have h1 : i = 0 ∨ i = 1 := by omega
    have h2 : o = 0 ∨ o = 1 := by omega
    rcases h1 with rfl | rfl <;> rcases h2 with rfl | rfl <;> norm_num)

/-! ## 5. EpsilonHingeLoss -/

theorem flatten_zipSub_map_sum (ψ : ℝ → ℝ) (labels : List (List ℝ)) (B m : ℕ)
    (hB : labels.length = B) (hm : ∀ l ∈ labels, l.length = m) (P : ℕ → ℕ → ℝ) :
    ((List.zipWith zipSub labels (toRows B m P)).flatten.map ψ).sum
      = ∑ i ∈ range B, ∑ k ∈ range m, ψ ((labels.getD i []).getD k 0 - P i k) := by
  rw [List.map_flatten, List.sum_flatten, List.map_map, List.map_zipWith,
    batch_sum_rows _ [] labels B m hB]
  refine Finset.sum_congr rfl fun i hi => ?_
  have hi' : i < labels.length := by rw [hB]; exact Finset.mem_range.1 hi
  simp only [Function.comp, zipSub, List.map_zipWith]
  rw [row_sum_zipWith _ _ m (getD_mem_length labels m hm i hi')]

theorem hasDerivAt_epsHinge (l eps x : ℝ) (heps : 0 ≤ eps) (hk : |x - l| ≠ eps) :
    HasDerivAt (fun t => max 0 (|l - t| - eps))
      (if 0 < |x - l| - eps then (if l < x then (1 : ℝ) else -1) else 0) x := by
  rcases lt_or_gt_of_ne hk with h | h
  · -- inside the tube: locally zero
    have hc : Continuous fun t : ℝ => |l - t| - eps :=
      (continuous_const.sub continuous_id).abs.sub continuous_const
    have hx : |l - x| - eps < 0 := by rw [abs_sub_comm]; linarith
    have hev : ∀ᶠ t in nhds x, |l - t| - eps < 0 := hc.continuousAt.eventually (gt_mem_nhds hx)
    rw [if_neg (by linarith)]
    refine (hasDerivAt_const x (0 : ℝ)).congr_of_eventuallyEq ?_
    filter_upwards [hev] with t ht
    exact max_eq_left (le_of_lt ht)
  · rw [if_pos (by linarith)]
    rcases lt_abs.1 h with h1 | h1
    · -- prediction above the label
      have hc : Continuous fun t : ℝ => t - l := continuous_id.sub continuous_const
      have hev : ∀ᶠ t in nhds x, eps < t - l := hc.continuousAt.eventually (lt_mem_nhds h1)
      rw [if_pos (by linarith)]
      have hd : HasDerivAt (fun t : ℝ => t - l - eps) 1 x := ((hasDerivAt_id x).sub_const l).sub_const eps
      refine hd.congr_of_eventuallyEq ?_
      filter_upwards [hev] with t ht
      rw [abs_of_neg (by linarith), max_eq_right (by linarith)]
      ring
    · -- prediction below the label
      have hc : Continuous fun t : ℝ => l - t := continuous_const.sub continuous_id
      have h1' : eps < l - x := by linarith
      have hev : ∀ᶠ t in nhds x, eps < l - t := hc.continuousAt.eventually (lt_mem_nhds h1')
      rw [if_neg (by linarith)]
      have hd : HasDerivAt (fun t : ℝ => l - t - eps) (-1) x :=
        ((hasDerivAt_id x).const_sub l).sub_const eps
      refine hd.congr_of_eventuallyEq ?_
      filter_upwards [hev] with t ht
      rw [abs_of_pos (by linarith), max_eq_right (by linarith)]

theorem epsHingeEvalDerivative_snd (eps : ℝ) (labels preds : List (List ℝ)) :
    (epsHingeEvalDerivative eps labels preds).2
      = List.zipWith (fun l p => List.zipWith (fun lo po =>
          if 0 < smax 0 (sabs (po - lo) - eps) then (if lo < po then (1 : ℝ) else -1) else 0) l p)
        labels preds := by
  unfold epsHingeEvalDerivative
  simp only [List.map_zipWith]

theorem epsHinge_batchGradAt (eps : ℝ) (heps : 0 ≤ eps) (labels : List (List ℝ)) (B m : ℕ)
    (P0 : ℕ → ℕ → ℝ) (hB : labels.length = B) (hm : ∀ l ∈ labels, l.length = m)
    (hkink : ∀ i, i < B → ∀ k, k < m → |P0 i k - (labels.getD i []).getD k 0| ≠ eps) :
    BatchGradAt B m ((epsHingeLoss eps : LossFn ℝ (List ℝ)).eval labels)
      ((epsHingeLoss eps : LossFn ℝ (List ℝ)).evalDerivative labels (toRows B m P0)).2 P0 := by
  refine batchGradAt_of_rows B m _ _ P0
    (fun i r => (1 : ℝ) * ∑ k ∈ range m,
      (fun k x => max 0 (|(labels.getD i []).getD k 0 - x| - eps)) k (r.getD k 0))
    (fun i => (fun l p => List.zipWith (fun lo po =>
          if 0 < smax 0 (sabs (po - lo) - eps) then (if lo < po then (1 : ℝ) else -1) else 0) l p)
        (labels.getD i []) (rowOf m (P0 i))) ?_ ?_ ?_
  · intro P
    show epsHingeEval eps labels (toRows B m P) = _
    unfold epsHingeEval
    rw [sumL_eq_sum_real, flatten_zipSub_map_sum _ labels B m hB hm]
    refine Finset.sum_congr rfl fun i _ => ?_
    rw [one_mul]
    refine Finset.sum_congr rfl fun k hk => ?_
    rw [rowOf_getD m _ k (Finset.mem_range.1 hk), smax_zero_real, sabs_real]
  · intro i hi
    show (epsHingeEvalDerivative eps labels (toRows B m P0)).2.getD i [] = _
    rw [epsHingeEvalDerivative_snd]
    exact batch_grad_rows _ [] labels B m hB P0 i hi
  · intro i hi
    have hi' : i < labels.length := by rw [hB]; exact hi
    have hlen := getD_mem_length labels m hm i hi'
    refine rowGradAt_separable m 1
      (fun k x => max 0 (|(labels.getD i []).getD k 0 - x| - eps))
      (fun k => if 0 < |P0 i k - (labels.getD i []).getD k 0| - eps
        then (if (labels.getD i []).getD k 0 < P0 i k then (1 : ℝ) else -1) else 0) _ _ ?_ ?_
    · intro k hk
      exact hasDerivAt_epsHinge _ eps _ heps (hkink i hi k hk)
    · intro k hk
      simp only []
      unfold rowOf
      rw [zipWith_map_range_right _ 0 m _ hlen, getD_map_range m _ k hk, smax_zero_real, sabs_real,
        one_mul]
      by_cases hpos : 0 < |P0 i k - (labels.getD i []).getD k 0| - eps
      · rw [if_pos hpos, if_pos (lt_max_of_lt_right hpos)]
      · rw [if_neg hpos, if_neg]
        rw [max_eq_left (not_lt.1 hpos)]; exact lt_irrefl 0

example : BatchGradAt 2 2 ((epsHingeLoss (1 / 2) : LossFn ℝ (List ℝ)).eval [[1, 0], [0, 1]])
    ((epsHingeLoss (1 / 2) : LossFn ℝ (List ℝ)).evalDerivative [[1, 0], [0, 1]]
      (toRows 2 2 fun i k => (i + 2 * k : ℝ))).2
    (fun i k => (i + 2 * k : ℝ)) :=
  epsHinge_batchGradAt (1 / 2) (by norm_num) _ 2 2 _ (by simp) (by simp) (by
    intro i hi k hk
    have h1 : i = 0 ∨ i = 1 := by omega
    have h2 : k = 0 ∨ k = 1 := by omega
    rcases h1 with rfl | rfl <;> rcases h2 with rfl | rfl <;> norm_num)

/-! ## 6. SquaredHingeLoss, binary branch: C¹, no kink exclusion -/

/-- `x ↦ (max 0 x)²` is differentiable everywhere with derivative `2 · max 0 x` -/
theorem hasDerivAt_sq_max_zero (x : ℝ) : HasDerivAt (fun t : ℝ => (max 0 t) ^ 2) (2 * max 0 x) x := by
  rcases lt_trichotomy x 0 with h | h | h
  · rw [max_eq_left (le_of_lt h), mul_zero]
    refine (hasDerivAt_const x (0 : ℝ)).congr_of_eventuallyEq ?_
    filter_upwards [gt_mem_nhds h] with t ht
    rw [max_eq_left (le_of_lt ht)]; simp
  · subst h
    rw [max_self, mul_zero, hasDerivAt_iff_isLittleO_nhds_zero]
    simp only [zero_add, max_self, smul_zero, sub_zero, ne_eq, OfNat.ofNat_ne_zero,
      not_false_eq_true, zero_pow]
    have h1 : (fun h : ℝ => (max 0 h) ^ 2) =O[nhds 0] fun h => h ^ 2 := by
      refine Asymptotics.IsBigO.of_bound 1 (Filter.Eventually.of_forall fun h => ?_)
      rw [Real.norm_eq_abs, Real.norm_eq_abs, one_mul, abs_pow, abs_pow]
      refine pow_le_pow_left₀ (abs_nonneg _) ?_ 2
      rcases le_total 0 h with h0 | h0
      · rw [max_eq_right h0]
      · rw [max_eq_left h0, abs_zero]; exact abs_nonneg _
    exact h1.trans_isLittleO (Asymptotics.isLittleO_pow_id (by norm_num))
  · rw [max_eq_right (le_of_lt h)]
    refine (((hasDerivAt_id x).fun_pow 2).congr_deriv (by simp)).congr_of_eventuallyEq ?_
    filter_upwards [lt_mem_nhds h] with t ht
    rw [max_eq_right (le_of_lt ht)]; rfl

theorem sqHingeEval_binary (labels : List ℕ) (preds : List (List ℝ)) (h : ∀ p ∈ preds, p.length = 1) :
    sqHingeEval labels preds
      = sumL (List.zipWith (fun c p => sqr (hingeRowBinary c p)) labels preds) / two := by
  cases preds with
  | nil => simp [sqHingeEval, sumL]
  | cons p0 ps => simp [sqHingeEval, h p0 (by simp)]

theorem sqHingeEvalDerivative_binary (labels : List ℕ) (preds : List (List ℝ))
    (h : ∀ p ∈ preds, p.length = 1) :
    (sqHingeEvalDerivative labels preds).2 = List.zipWith sqHingeGradRowBinary labels preds := by
  cases preds with
  | nil => simp [sqHingeEvalDerivative]
  | cons p0 ps => simp [sqHingeEvalDerivative, h p0 (by simp)]

theorem sqHinge_binary_batchGradAt (labels : List ℕ) (B : ℕ) (P0 : ℕ → ℕ → ℝ)
    (hB : labels.length = B) :
    BatchGradAt B 1 ((sqHingeLoss : LossFn ℝ ℕ).eval labels)
      ((sqHingeLoss : LossFn ℝ ℕ).evalDerivative labels (toRows B 1 P0)).2 P0 := by
  refine batchGradAt_of_rows B 1 _ _ P0
    (fun i r => (1 / 2 : ℝ) * ∑ k ∈ range 1,
      (fun _ x => (max 0 (1 - (2 * ((labels.getD i 0 : ℕ) : ℝ) - 1) * x)) ^ 2) k (r.getD k 0))
    (fun i => sqHingeGradRowBinary (labels.getD i 0) (rowOf 1 (P0 i))) ?_ ?_ ?_
  · intro P
    show sqHingeEval labels (toRows B 1 P) = _
    rw [sqHingeEval_binary _ _ (mem_toRows_length B 1 P), sumL_eq_sum_real,
      batch_sum_rows _ 0 labels B 1 hB, two_real, div_eq_mul_one_div, Finset.sum_mul]
    refine Finset.sum_congr rfl fun i _ => ?_
    rw [hingeRowBinary_real', Finset.sum_range_one]
    simp only [sqr]; ring
  · intro i hi
    show (sqHingeEvalDerivative labels (toRows B 1 P0)).2.getD i [] = _
    rw [sqHingeEvalDerivative_binary _ _ (mem_toRows_length B 1 P0)]
    exact batch_grad_rows _ 0 labels B 1 hB P0 i hi
  · intro i hi
    refine rowGradAt_separable 1 (1 / 2)
      (fun _ x => (max 0 (1 - (2 * ((labels.getD i 0 : ℕ) : ℝ) - 1) * x)) ^ 2)
      (fun _ => 2 * max 0 (1 - (2 * ((labels.getD i 0 : ℕ) : ℝ) - 1) * P0 i 0)
        * -(2 * ((labels.getD i 0 : ℕ) : ℝ) - 1)) _ _ ?_ ?_
    · intro k hk
      have hk0 : k = 0 := by omega
      subst hk0
      have hu : HasDerivAt (fun x : ℝ => 1 - (2 * ((labels.getD i 0 : ℕ) : ℝ) - 1) * x)
          (-(2 * ((labels.getD i 0 : ℕ) : ℝ) - 1)) (P0 i 0) := by
        simpa using ((hasDerivAt_id (P0 i 0)).const_mul (2 * ((labels.getD i 0 : ℕ) : ℝ) - 1)).const_sub 1
      exact (hasDerivAt_sq_max_zero _).comp (P0 i 0) hu
    · intro k hk
      have hk0 : k = 0 := by omega
      subst hk0
      unfold sqHingeGradRowBinary
      simp only []
      rw [smax_zero_real, two_real, rowOf_getD 1 _ 0 (by omega)]
      simp only [ofNat_real]
      by_cases hpos : 0 < 1 - (2 * ((labels.getD i 0 : ℕ) : ℝ) - 1) * P0 i 0
      · rw [if_pos (lt_max_of_lt_right hpos)]
        simp only [List.getD_cons_zero]; ring
      · rw [max_eq_left (not_lt.1 hpos), if_neg (lt_irrefl 0)]
        simp

example : BatchGradAt 2 1 ((sqHingeLoss : LossFn ℝ ℕ).eval [1, 0])
    ((sqHingeLoss : LossFn ℝ ℕ).evalDerivative [1, 0] (toRows 2 1 fun _ _ => (1 : ℝ))).2
    (fun _ _ => (1 : ℝ)) :=
  -- row 0 (label 1, prediction 1) sits exactly on the kink `1 − y·p = 0`
  sqHinge_binary_batchGradAt _ 2 _ (by simp)

/-! ## 7. SquaredHingeLoss, multi-class branch: C¹, no kink exclusion -/

theorem sqHingeEval_multi (labels : List ℕ) (preds : List (List ℝ)) (h : ∀ p ∈ preds, p.length ≠ 1) :
    sqHingeEval labels preds
      = sumL (List.zipWith (fun c p =>
          sumL (((List.range p.length).filter (· ≠ c)).map fun o =>
            sqr (smax 0 (two - p.getD c 0 + p.getD o 0)))) labels preds) / Scalar.ofNat 4 / two := by
  cases preds with
  | nil => simp [sqHingeEval, sumL]
  | cons p0 ps => simp [sqHingeEval, h p0 (by simp)]

theorem sqHingeEvalDerivative_multi (labels : List ℕ) (preds : List (List ℝ))
    (h : ∀ p ∈ preds, p.length ≠ 1) :
    (sqHingeEvalDerivative labels preds).2 = List.zipWith sqHingeGradRowMulti labels preds := by
  cases preds with
  | nil => simp [sqHingeEvalDerivative]
  | cons p0 ps => simp [sqHingeEvalDerivative, h p0 (by simp)]

theorem sqHingeRowMulti_real (c m : ℕ) (p : List ℝ) (hp : p.length = m) :
    sumL (((List.range p.length).filter (· ≠ c)).map fun o =>
        sqr (smax 0 (two - p.getD c 0 + p.getD o 0)))
      = ∑ o ∈ range m, if o = c then 0 else (max 0 (2 - p.getD c 0 + p.getD o 0)) ^ 2 := by
  rw [sumL_eq_sum_real, hp, list_sum_filter_map_range]
  refine Finset.sum_congr rfl fun o _ => ?_
  by_cases h : o = c
  · simp [h]
  · simp [h, smax_zero_real, two_real, sqr, pow_two, -List.getD_eq_getElem?_getD]

theorem foldl_sqHinge (L : List ℕ) (h : ℕ → ℝ) (q : ℝ) (acc : ℝ) :
    L.foldl (fun g o' => if 0 < h o' then g - h o' * q else g) acc
      = acc - (L.map fun o => max 0 (h o) * q).sum := by
  induction L generalizing acc with
  | nil => simp
  | cons a L ih =>
    simp only [List.foldl_cons, List.map_cons, List.sum_cons]
    rw [ih]
    by_cases ha : 0 < h a
    · rw [if_pos ha, max_eq_right (le_of_lt ha)]; ring
    · rw [if_neg ha, max_eq_left (not_lt.1 ha)]; ring

theorem quarter_real : (Scalar.dyadic 1 2 : ℝ) = 1 / 4 := by
  norm_num [Scalar.dyadic]

theorem sqHingeGradRowMulti_getD (c m : ℕ) (p : List ℝ) (hp : p.length = m) (k : ℕ) (hk : k < m) :
    (sqHingeGradRowMulti c p).getD k 0
      = if k = c then -(∑ o ∈ range m, if o = c then 0
            else 2 * max 0 (2 - p.getD c 0 + p.getD o 0)) * (1 / 8)
        else 2 * max 0 (2 - p.getD c 0 + p.getD k 0) * (1 / 8) := by
  unfold sqHingeGradRowMulti
  simp only []
  rw [hp, getD_map_range m _ k hk]
  by_cases hkc : k = c
  · rw [if_pos hkc, if_pos hkc,
      foldl_sqHinge _ (fun o => smax 0 (two - p.getD c 0 + p.getD o 0)) (Scalar.dyadic 1 2) 0,
      list_sum_filter_map_range, zero_sub, neg_mul, neg_inj, Finset.sum_mul]
    refine Finset.sum_congr rfl fun o _ => ?_
    by_cases h : o = c
    · simp [h]
    · have h' : decide (o ≠ c) = true := by simp [h]
      rw [if_pos h', if_neg h, smax_zero_real, two_real, quarter_real,
        max_eq_right (le_max_left _ _)]
      ring
  · rw [if_neg hkc, if_neg hkc, smax_zero_real, two_real, quarter_real]
    by_cases hpos : 0 < 2 - p.getD c 0 + p.getD k 0
    · rw [if_pos (lt_max_of_lt_right hpos)]; ring
    · rw [max_eq_left (not_lt.1 hpos), if_neg (lt_irrefl 0)]; ring

theorem sqHinge_multi_batchGradAt (labels : List ℕ) (B m : ℕ) (P0 : ℕ → ℕ → ℝ)
    (hB : labels.length = B) (hm : m ≠ 1) (hc : ∀ c ∈ labels, c < m) :
    BatchGradAt B m ((sqHingeLoss : LossFn ℝ ℕ).eval labels)
      ((sqHingeLoss : LossFn ℝ ℕ).evalDerivative labels (toRows B m P0)).2 P0 := by
  have hlen : ∀ P : ℕ → ℕ → ℝ, ∀ p ∈ toRows B m P, p.length ≠ 1 := by
    intro P p hp; rw [mem_toRows_length B m P p hp]; exact hm
  refine batchGradAt_of_rows B m _ _ P0
    (fun i r => (∑ o ∈ range m, if o = labels.getD i 0 then 0
      else (fun x => (max 0 x) ^ 2) (2 - r.getD (labels.getD i 0) 0 + r.getD o 0)) * (1 / 8))
    (fun i => sqHingeGradRowMulti (labels.getD i 0) (rowOf m (P0 i))) ?_ ?_ ?_
  · intro P
    show sqHingeEval labels (toRows B m P) = _
    rw [sqHingeEval_multi _ _ (hlen P), sumL_eq_sum_real, batch_sum_rows _ 0 labels B m hB]
    have h8 : ∀ x : ℝ, x / (Scalar.ofNat 4 : ℝ) / two = x * (1 / 8) := by
      intro x; rw [two_real, ofNat_real]; push_cast; ring
    rw [h8, Finset.sum_mul]
    refine Finset.sum_congr rfl fun i _ => ?_
    rw [sqHingeRowMulti_real _ m _ (rowOf_length m _)]
  · intro i hi
    show (sqHingeEvalDerivative labels (toRows B m P0)).2.getD i [] = _
    rw [sqHingeEvalDerivative_multi _ _ (hlen P0)]
    exact batch_grad_rows _ 0 labels B m hB P0 i hi
  · intro i hi
    have hci : labels.getD i 0 < m := getD_lt_of_forall labels m hc i (by rw [hB]; exact hi)
    refine rowGradAt_multi m (labels.getD i 0) hci (1 / 8) (fun x => (max 0 x) ^ 2)
      (fun o => 2 * max 0 (2 - (rowOf m (P0 i)).getD (labels.getD i 0) 0 + (rowOf m (P0 i)).getD o 0))
      (P0 i) _ ?_ ?_ ?_
    · intro o ho _
      rw [rowOf_getD m _ _ hci, rowOf_getD m _ o ho]
      exact hasDerivAt_sq_max_zero _
    · rw [sqHingeGradRowMulti_getD _ m _ (rowOf_length m _) _ hci, if_pos rfl]
    · intro o ho hoc
      rw [sqHingeGradRowMulti_getD _ m _ (rowOf_length m _) _ ho, if_neg hoc]

example : BatchGradAt 2 2 ((sqHingeLoss : LossFn ℝ ℕ).eval [1, 0])
    ((sqHingeLoss : LossFn ℝ ℕ).evalDerivative [1, 0] (toRows 2 2 fun _ k => (2 * k : ℝ))).2
    (fun _ k => (2 * k : ℝ)) :=
  -- row 0 (label 1, predictions (0, 2)) sits exactly on the kink `2 − p_c + p_o = 0`
  sqHinge_multi_batchGradAt _ 2 2 _ (by simp) (by norm_num) (by simp)

end SharkVerif.ErrFn
