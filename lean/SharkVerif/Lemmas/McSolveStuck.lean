/-
`QpSolver::solve` on the `QpMcBoxDecomp` model never violates the precondition of `updateSMO`
(`i, j < m_activeVar`, a SIZE_CHECK compiled out under NDEBUG) when the accuracy is positive:
`solve_never_stuck`.  No invariant of the state is needed: the argument only follows the comparisons.

* first selection: a positive violation names an active variable (`selectFirst_spec`), the partner chosen by the
  second-order rule is active too (`selectSecond_lt`);
* after the `unshrink` / `checkKKT() ≥ eps` / `shrink` detour the second selection sees a positive violation again,
  because `shrink` only deactivates variables that do not violate the KKT conditions (`shrink_keeps_violator`).
-/
import SharkVerif.Lemmas.McSolve
namespace SharkVerif.Mc
open Finset Grad

private theorem y0 : (0.0 : Rat) = 0 := by norm_num

/-- variable `a` can make a feasible step that improves the objective -/
def Violating (s : McBox Rat) (a : Nat) : Prop :=
  (s.alpha a < s.C ∧ 0 < s.grad a) ∨ (0 < s.alpha a ∧ s.grad a < 0)

/-- loop body of the first-order selection -/
def sfStep (s : McBox Rat) (st : Nat × Rat) (a : Nat) : Nat × Rat :=
  let aa := s.alpha a
  let ga := s.grad a
  if ga > st.2 ∧ aa < s.C then (a, ga)
  else if -ga > st.2 ∧ aa > (0.0 : Rat) then (a, -ga)
  else st

theorem selectFirst_eq (s : McBox Rat) :
    s.selectFirst = (List.range s.activeVar).foldl (sfStep s) (0, (0.0 : Rat)) := rfl

theorem sfFold_spec (s : McBox Rat) (k : Nat) :
    let r := (List.range k).foldl (sfStep s) (0, (0.0 : Rat))
    0 ≤ r.2 ∧ (r.2 ≠ 0 → r.1 < k) ∧
      ∀ a < k, (s.alpha a < s.C → s.grad a ≤ r.2) ∧ (0 < s.alpha a → -(s.grad a) ≤ r.2) := by
  induction k with
  | zero =>
    refine ⟨by simp [y0], fun h => absurd (by simp [y0]) h, fun a ha => absurd ha (Nat.not_lt_zero a)⟩
  | succ k ih =>
    obtain ⟨h0, h1, h2⟩ := ih
    simp only [List.range_succ, List.foldl_append, List.foldl_cons, List.foldl_nil]
    generalize (List.range k).foldl (sfStep s) (0, (0.0 : Rat)) = st at h0 h1 h2
    unfold sfStep
    dsimp only
    rw [y0]
    split_ifs with c1 c2
    · refine ⟨by linarith [c1.1], fun _ => Nat.lt_succ_self k, fun a ha => ?_⟩
      by_cases hak : a = k
      · subst hak
        exact ⟨fun _ => le_refl _, fun _ => by linarith [c1.1]⟩
      · have := h2 a (by omega)
        exact ⟨fun h => by linarith [this.1 h, c1.1], fun h => by linarith [this.2 h, c1.1]⟩
    · refine ⟨by linarith [c2.1], fun _ => Nat.lt_succ_self k, fun a ha => ?_⟩
      by_cases hak : a = k
      · subst hak
        refine ⟨fun h => ?_, fun _ => le_refl _⟩
        have : ¬ s.grad a > st.2 := fun hg => c1 ⟨hg, h⟩
        linarith [c2.1]
      · have := h2 a (by omega)
        exact ⟨fun h => by linarith [this.1 h, c2.1], fun h => by linarith [this.2 h, c2.1]⟩
    · refine ⟨h0, fun h => Nat.lt_succ_of_lt (h1 h), fun a ha => ?_⟩
      by_cases hak : a = k
      · subst hak
        refine ⟨fun h => ?_, fun h => ?_⟩
        · exact not_lt.mp fun hg => c1 ⟨hg, h⟩
        · exact not_lt.mp fun hg => c2 ⟨hg, h⟩
      · exact h2 a (by omega)

/-- the first-order selection: the reported violation is non-negative, a non-zero violation names an ACTIVE variable,
and the violation dominates that of every active variable -/
theorem selectFirst_spec (s : McBox Rat) :
    0 ≤ s.selectFirst.2 ∧ (s.selectFirst.2 ≠ 0 → s.selectFirst.1 < s.activeVar) ∧
      ∀ a < s.activeVar, (s.alpha a < s.C → s.grad a ≤ s.selectFirst.2) ∧
        (0 < s.alpha a → -(s.grad a) ≤ s.selectFirst.2) := by
  rw [selectFirst_eq]; exact sfFold_spec s s.activeVar

theorem selectFirst_pos_of_violating (s : McBox Rat) (a : Nat) (ha : a < s.activeVar) (hv : Violating s a) :
    0 < s.selectFirst.2 := by
  have := (selectFirst_spec s).2.2 a ha
  rcases hv with ⟨h1, h2⟩ | ⟨h1, h2⟩
  · linarith [this.1 h1]
  · linarith [this.2 h1]

theorem foldl_pres {σ β : Type} (P : σ → Prop) (f : σ → β → σ) (h : ∀ st x, P st → P (f st x)) :
    ∀ (l : List β) (init : σ), P init → P (l.foldl f init) := by
  intro l
  induction l with
  | nil => intro init hi; exact hi
  | cons x l ih => intro init hi; exact ih _ (h _ _ hi)

/-- the partner chosen by the second-order rule is an active variable -/
theorem selectSecond_lt (s : McBox Rat) (i : Nat) (hi : i < s.activeVar) : s.selectSecond i < s.activeVar := by
  unfold McBox.selectSecond
  refine foldl_pres (fun st : Nat × Rat => st.1 < s.activeVar) _ ?_ _ _ hi
  intro st a hst
  refine foldl_pres (fun w : (Nat × Rat) × List (Nat × Rat) => w.1.1 < s.activeVar) _ ?_ _ _ hst
  intro w pf hw
  dsimp only
  split_ifs with c1 c2 c3
  · exact hw
  · exact hw
  · exact not_le.mp fun hge => c1 (Or.inl hge)
  · exact hw

/-! ### `shrink` keeps a violating variable active -/

/-- some active variable violates the KKT conditions -/
def HasViolator (s : McBox Rat) : Prop := ∃ a < s.activeVar, Violating s a

theorem mvFold_attained (s : McBox Rat) (k : Nat) :
    0 < (List.range k).foldl (mvStep s) (0.0 : Rat) → ∃ a < k, Violating s a := by
  induction k with
  | zero => intro h; simp [y0] at h
  | succ k ih =>
    rw [List.range_succ, List.foldl_append, List.foldl_cons, List.foldl_nil]
    generalize (List.range k).foldl (mvStep s) (0.0 : Rat) = l at ih
    intro h
    by_cases hl : 0 < l
    · obtain ⟨a, ha, hv⟩ := ih hl
      exact ⟨a, by omega, hv⟩
    · unfold mvStep cmax at h
      dsimp only at h
      rw [y0] at h
      split_ifs at h
      all_goals first
        | exact absurd h hl
        | exact ⟨k, Nat.lt_succ_self k, Or.inl ⟨by assumption, by linarith⟩⟩
        | exact ⟨k, Nat.lt_succ_self k, Or.inr ⟨by assumption, by linarith⟩⟩

/-- `checkKKT() > 0` is attained by an active variable -/
theorem maxViolation_attained (s : McBox Rat) (h : 0 < s.maxViolation) : HasViolator s := by
  rw [maxViolation_eq] at h; exact mvFold_attained s s.activeVar h

theorem deactVar_keeps_violator (s : McBox Rat) (v : Nat) (hv : v < s.activeVar) (hnv : ¬ Violating s v)
    (h : HasViolator s) : HasViolator (s.deactivateVariable v) := by
  obtain ⟨x, hx, hvx⟩ := h
  have hxv : x ≠ v := fun e => hnv (e ▸ hvx)
  refine ⟨if x = s.activeVar - 1 then v else x, ?_, ?_⟩
  · show _ < s.activeVar - 1
    split_ifs <;> omega
  · have ha : (s.deactivateVariable v).alpha (if x = s.activeVar - 1 then v else x) = s.alpha x := by
      show swp s.alpha v (s.activeVar - 1) _ = _
      unfold swp
      split_ifs <;> simp_all
    have hg : (s.deactivateVariable v).grad (if x = s.activeVar - 1 then v else x) = s.grad x := by
      show swp s.grad v (s.activeVar - 1) _ = _
      unfold swp
      split_ifs <;> simp_all
    unfold Violating
    rw [ha, hg]
    exact hvx

theorem deactEx_keeps_violator (s : McBox Rat) (e : Nat) (h : HasViolator s) : HasViolator (s.deactivateExample e) := by
  have ha : (s.deactivateExample e).alpha = s.alpha := by unfold McBox.deactivateExample; dsimp only; split_ifs <;> rfl
  have hg : (s.deactivateExample e).grad = s.grad := by unfold McBox.deactivateExample; dsimp only; split_ifs <;> rfl
  have hC : (s.deactivateExample e).C = s.C := by unfold McBox.deactivateExample; dsimp only; split_ifs <;> rfl
  have hA : (s.deactivateExample e).activeVar = s.activeVar := by
    unfold McBox.deactivateExample; dsimp only; split_ifs <;> rfl
  unfold HasViolator Violating
  rw [ha, hg, hC, hA]
  exact h

theorem svFold_keeps_violator (A0 : Nat) (s : McBox Rat) (hA : s.activeVar = A0) (h : HasViolator s) :
    ∀ k, k ≤ A0 → HasViolator ((List.range k).foldl (svStep A0) (s, false)).1 ∧
      A0 ≤ ((List.range k).foldl (svStep A0) (s, false)).1.activeVar + k := by
  intro k
  induction k with
  | zero => intro _; exact ⟨h, by simp [hA]⟩
  | succ k ih =>
    intro hk
    obtain ⟨h1, h2⟩ := ih (by omega)
    rw [List.range_succ, List.foldl_append]
    simp only [List.foldl_cons, List.foldl_nil]
    generalize (List.range k).foldl (svStep A0) (s, false) = st at h1 h2
    unfold svStep
    simp only
    split
    · rename_i hc
      refine ⟨deactVar_keeps_violator _ _ (by omega) ?_ h1, ?_⟩
      · intro hv
        simp only [Bool.or_eq_true, Bool.and_eq_true, beq_iff_eq, decide_eq_true_eq, y0] at hc
        rcases hv with ⟨v1, v2⟩ | ⟨v1, v2⟩ <;> rcases hc with ⟨c1, c2⟩ | ⟨c1, c2⟩ <;> linarith
      · simp only [deactivateVariable_activeVar]; omega
    · exact ⟨h1, by omega⟩

theorem seFold_keeps_violator (E0 : Nat) (s : McBox Rat) (h : HasViolator s) :
    ∀ k, HasViolator ((List.range k).foldl (seStep E0) s) := by
  intro k
  induction k with
  | zero => exact h
  | succ k ih =>
    rw [List.range_succ, List.foldl_append]
    simp only [List.foldl_cons, List.foldl_nil]
    unfold seStep
    simp only
    split
    · exact deactEx_keeps_violator _ _ ih
    · exact ih

/-- `shrink`, called on a state with all variables active, keeps a violating variable active -/
theorem shrink_keeps_violator (s : McBox Rat) (hall : s.activeVar = s.numVars) (eps : Rat) (h : HasViolator s) :
    HasViolator (s.shrink eps).1 := by
  rw [shrink_eq]
  split
  · exact h
  · have hu : s.unshrink = s := by unfold McBox.unshrink; rw [if_pos hall]
    have hh : HasViolator (shrinkHead s eps) := by
      unfold shrinkHead
      rw [hu]
      split
      · split
        · exact h
        · exact h
      · exact h
    have h1 : HasViolator (shrinkHead s eps).shrinkVars.1 := by
      rw [shrinkVars_eq]; exact (svFold_keeps_violator _ _ rfl hh _ (Nat.le_refl _)).1
    unfold shrinkTail
    split
    · rw [shrinkExamples_eq]; exact seFold_keeps_violator _ _ h1 _
    · exact h1

/-! ### the loop never gets stuck -/

theorem selectFrom_valid (s : McBox Rat) (i0 j0 : Nat) (h : 0 < (s.selectWorkingSetFrom i0 j0).2.2) :
    (s.selectWorkingSetFrom i0 j0).1 < s.activeVar ∧ (s.selectWorkingSetFrom i0 j0).2.1 < s.activeVar := by
  unfold McBox.selectWorkingSetFrom at h ⊢
  dsimp only at h ⊢
  have hs := selectFirst_spec s
  by_cases hz : (s.selectFirst.2 == (0.0 : Rat)) = true
  · rw [if_pos hz] at h
    have : s.selectFirst.2 = 0 := by rw [y0] at hz; simpa using hz
    exact absurd h (by rw [this]; exact lt_irrefl 0)
  · rw [if_neg hz]
    have hne : s.selectFirst.2 ≠ 0 := by
      intro e; apply hz; rw [y0, e]; simp
    exact ⟨hs.2.1 hne, selectSecond_lt s _ (hs.2.1 hne)⟩

theorem solveTail_not_stuck (eps : Rat) (st : SolveSt Rat) (i j : Nat) (hv : i < st.s.activeVar ∧ j < st.s.activeVar) :
    (solveTail eps st i j).stop ≠ .stuck := by
  unfold solveTail
  dsimp only
  rw [if_pos hv]
  simp

theorem selectFrom_viol (s : McBox Rat) (i0 j0 : Nat) : (s.selectWorkingSetFrom i0 j0).2.2 = s.selectFirst.2 := by
  unfold McBox.selectWorkingSetFrom
  dsimp only
  split_ifs <;> rfl

/-- the state in which the second selection of a pass takes place -/
theorem second_selection_valid (eps : Rat) (heps : 0 < eps) (s : McBox Rat) (i0 j0 : Nat)
    (h2 : ¬ s.unshrink.checkKKT < eps) :
    ((s.unshrink.shrink eps).1.selectWorkingSetFrom i0 j0).1 < (s.unshrink.shrink eps).1.activeVar ∧
    ((s.unshrink.shrink eps).1.selectWorkingSetFrom i0 j0).2.1 < (s.unshrink.shrink eps).1.activeVar := by
  have hmv : 0 < s.unshrink.maxViolation := lt_of_lt_of_le heps (not_lt.mp h2)
  have hv := maxViolation_attained _ hmv
  have hall : s.unshrink.activeVar = s.unshrink.numVars := by
    rw [McBox.unshrink_activeVar]; unfold McBox.numVars; rw [McBox.unshrink_P, McBox.unshrink_n]
  obtain ⟨a, ha, hva⟩ := shrink_keeps_violator _ hall eps hv
  have hpos := selectFirst_pos_of_violating _ a ha hva
  exact selectFrom_valid _ _ _ (by rw [selectFrom_viol]; exact hpos)

theorem solveBody_not_stuck (eps : Rat) (heps : 0 < eps) (st : SolveSt Rat) : (solveBody eps st).stop ≠ .stuck := by
  unfold solveBody
  dsimp only
  split_ifs with h1 h2
  · simp
  · exact solveTail_not_stuck eps { st with s := (st.s.unshrink.shrink eps).1 } _ _
      (second_selection_valid eps heps st.s _ _ h2)
  · exact solveTail_not_stuck eps st _ _
      (selectFrom_valid _ _ _ (lt_of_lt_of_le heps (not_lt.mp h1)))

/-- **`QpSolver::solve` never calls `updateSMO` outside its precondition** (positive accuracy; any state, any
iteration limit, shrinking on or off) -/
theorem solve_never_stuck (s : McBox Rat) (eps : Rat) (heps : 0 < eps) (maxIter : Nat) :
    (solve s eps maxIter).stop ≠ .stuck := by
  suffices H : ∀ (fuel : Nat) (st : SolveSt Rat), (solveLoop eps fuel st).stop ≠ .stuck from
    H maxIter { s := s, iter := 0, shrinkCounter := 0, stop := .running }
  intro fuel
  induction fuel with
  | zero => intro st; simp [solveLoop]
  | succ fuel ih =>
    intro st
    unfold solveLoop
    dsimp only
    split_ifs with hr
    · exact ih _
    · exact solveBody_not_stuck eps heps st

end SharkVerif.Mc
