/-
What `IterativeNNQuery` computes on a tree whose leaves hold DISTINCT points
(finding K1): an exact search for the "leaf distance" of every point, i.e. the
distance stored at the leaf that holds it (the real code: the distance of the
leaf's first point).  Helper lemmas for `Props/C17.lean`; core Lean only.
-/
import SharkVerif.Lemmas.NN
namespace SharkVerif.NN

/-- the distance the query assigns to point `i`: `m_squaredPtDistance` of the
(first) leaf whose slice of the index list contains `i` -/
def entryDist? : List Leaf → Nat → Option Rat
  | [], _ => none
  | e :: es, i => if i ∈ e.pts then some e.d else entryDist? es i

def leafDist? : TTree → Nat → Option Rat
  | .leaf _ _ es, i => entryDist? es i
  | .node _ _ _ l r, i => match leafDist? l i with
    | some d => some d
    | none => leafDist? r i

def leafDist (t : TTree) (i : Nat) : Rat := (leafDist? t i).getD 0

/-- every leaf's stored distance is the true distance of one of its points (the
real code: of `index(0)`); in particular no leaf is empty -/
def LeafAnchored (dist : Nat → Rat) : TTree → Prop
  | .leaf _ _ es => es ≠ [] ∧ ∀ e ∈ es, ∃ p ∈ e.pts, dist p = e.d
  | .node _ _ _ l r => LeafAnchored dist l ∧ LeafAnchored dist r

theorem entryDist?_none : ∀ (es : List Leaf) (i : Nat), i ∉ qpts es → entryDist? es i = none
  | [], _, _ => rfl
  | e :: es, i, h => by
    simp only [qpts, List.flatMap_cons, List.mem_append, not_or] at h
    simp [entryDist?, h.1, entryDist?_none es i (by simpa [qpts] using h.2)]

/-- the entry that answers for `i` -/
theorem entryDist?_some : ∀ (es : List Leaf) (i : Nat), i ∈ qpts es →
    ∃ e ∈ es, i ∈ e.pts ∧ entryDist? es i = some e.d
  | [], i, h => by simp [qpts] at h
  | e :: es, i, h => by
    by_cases c : i ∈ e.pts
    · exact ⟨e, List.mem_cons_self .., c, by simp [entryDist?, c]⟩
    · have h' : i ∈ qpts es := by
        simp only [qpts, List.flatMap_cons, List.mem_append] at h
        rcases h with h | h
        · exact absurd h c
        · simpa [qpts] using h
      obtain ⟨e', he', hi, hd⟩ := entryDist?_some es i h'
      exact ⟨e', List.mem_cons_of_mem _ he', hi, by simp [entryDist?, c, hd]⟩

/-- with pairwise disjoint entries, every entry answers for all its points -/
theorem entryDist?_of_mem : ∀ (es : List Leaf), (qpts es).Nodup → ∀ e ∈ es, ∀ p ∈ e.pts,
    entryDist? es p = some e.d
  | [], _, e, he, _, _ => by simp at he
  | e0 :: es, hn, e, he, p, hp => by
    have hn' : (e0.pts ++ qpts es).Nodup := by simpa [qpts] using hn
    have hd := List.nodup_append.mp hn'
    rcases List.mem_cons.mp he with rfl | he'
    · simp [entryDist?, hp]
    · have hq : p ∈ qpts es := mem_qpts.mpr ⟨e, he', hp⟩
      have : p ∉ e0.pts := fun h0 => hd.2.2 p h0 p hq rfl
      simp [entryDist?, this, entryDist?_of_mem es hd.2.1 e he' p hp]

theorem leafDist?_none : ∀ (t : TTree) (i : Nat), i ∉ t.pts → leafDist? t i = none
  | .leaf _ _ es, i, h => by simpa [leafDist?] using entryDist?_none es i (by simpa [TTree.pts] using h)
  | .node _ _ _ l r, i, h => by
    simp only [TTree.pts, List.mem_append, not_or] at h
    simp [leafDist?, leafDist?_none l i h.1, leafDist?_none r i h.2]

theorem leafDist?_some : ∀ (t : TTree) (i : Nat), i ∈ t.pts → ∃ d, leafDist? t i = some d
  | .leaf _ _ es, i, h => by
    obtain ⟨e, _, _, hd⟩ := entryDist?_some es i (by simpa [TTree.pts] using h)
    exact ⟨e.d, by simpa [leafDist?] using hd⟩
  | .node _ _ _ l r, i, h => by
    simp only [TTree.pts, List.mem_append] at h
    by_cases hl : i ∈ l.pts
    · obtain ⟨d, hd⟩ := leafDist?_some l i hl
      exact ⟨d, by simp [leafDist?, hd]⟩
    · have hr : i ∈ r.pts := by cases h with | inl h => exact absurd h hl | inr h => exact h
      obtain ⟨d, hd⟩ := leafDist?_some r i hr
      exact ⟨d, by simp [leafDist?, leafDist?_none l i hl, hd]⟩

theorem leafDist_left {st lb gl} (l r : TTree) (i : Nat) (h : i ∈ l.pts) :
    leafDist (.node st lb gl l r) i = leafDist l i := by
  obtain ⟨d, hd⟩ := leafDist?_some l i h
  simp [leafDist, leafDist?, hd]

theorem leafDist_right {st lb gl} (l r : TTree) (i : Nat) (h : i ∉ l.pts) :
    leafDist (.node st lb gl l r) i = leafDist r i := by
  simp [leafDist, leafDist?, leafDist?_none l i h]

/-- the leaf distance of a point of the tree is the true distance of some point of the tree -/
theorem leafDist_anchor (dist : Nat → Rat) : ∀ (t : TTree), LeafAnchored dist t → ∀ i ∈ t.pts,
    ∃ p ∈ t.pts, leafDist t i = dist p
  | .leaf _ _ es, ⟨_, hc⟩, i, hi => by
    simp only [TTree.pts] at hi
    obtain ⟨e, he, _, hd⟩ := entryDist?_some es i hi
    obtain ⟨p, hp, hdp⟩ := hc e he
    refine ⟨p, by simpa [TTree.pts] using mem_qpts.mpr ⟨e, he, hp⟩, ?_⟩
    simp [leafDist, leafDist?, hd, hdp]
  | .node _ _ _ l r, ⟨hl, hr⟩, i, hi => by
    simp only [TTree.pts, List.mem_append] at hi ⊢
    by_cases h : i ∈ l.pts
    · obtain ⟨p, hp, e⟩ := leafDist_anchor dist l hl i h
      exact ⟨p, Or.inl hp, by rw [leafDist_left l r i h, e]⟩
    · have h' : i ∈ r.pts := by cases hi with | inl x => exact absurd x h | inr x => exact x
      obtain ⟨p, hp, e⟩ := leafDist_anchor dist r hr i h'
      exact ⟨p, Or.inr hp, by rw [leafDist_right l r i h, e]⟩

theorem anchored_nonempty (dist : Nat → Rat) : ∀ (t : TTree), LeafAnchored dist t → LeavesNonempty t
  | .leaf _ _ es, ⟨hne, hc⟩ => by
    refine ⟨hne, fun e he h => ?_⟩
    obtain ⟨p, hp, _⟩ := hc e he
    simp [h] at hp
  | .node _ _ _ l r, ⟨hl, hr⟩ => ⟨anchored_nonempty dist l hl, anchored_nonempty dist r hr⟩

/-- w.r.t. any function that agrees with the leaf distance on the points of `t`, the leaves are uniform -/
theorem leafUniform_leafDist (f : Nat → Rat) : ∀ (t : TTree), t.pts.Nodup →
    (∀ i ∈ t.pts, f i = leafDist t i) → LeafUniform f t
  | .leaf _ _ es, hn, h => by
    intro e he p hp
    have := h p (by simpa [TTree.pts] using mem_qpts.mpr ⟨e, he, hp⟩)
    simpa [leafDist, leafDist?, entryDist?_of_mem es (by simpa [TTree.pts] using hn) e he p hp] using this
  | .node _ _ _ l r, hn, h => by
    simp only [TTree.pts] at hn h
    have hd := List.nodup_append.mp hn
    refine ⟨leafUniform_leafDist f l hd.1 ?_, leafUniform_leafDist f r hd.2.1 ?_⟩
    · intro i hi
      rw [h i (List.mem_append.mpr (Or.inl hi)), leafDist_left l r i hi]
    · intro i hi
      have : i ∉ l.pts := fun hl => hd.2.2 i hl i hi rfl
      rw [h i (List.mem_append.mpr (Or.inr hi)), leafDist_right l r i this]

/-- bounds that are admissible for the true distances are admissible for the leaf distances -/
theorem lbAdm_leafDist (dist f : Nat → Rat) : ∀ (t : TTree), t.pts.Nodup → LbAdm dist t →
    LeafAnchored dist t → (∀ i ∈ t.pts, f i = leafDist t i) → LbAdm f t
  | .leaf q lb lf, _, ha, hc, h => by
    intro p hp
    have hp' : p ∈ (TTree.leaf q lb lf).pts := by simpa [TTree.pts] using hp
    obtain ⟨p', hp'', e⟩ := leafDist_anchor dist _ hc p hp'
    rw [h p hp', e]
    exact ha p' (by simpa [TTree.pts] using hp'')
  | .node st lb gl l r, hn, ⟨ha, hal, har⟩, ⟨hcl, hcr⟩, h => by
    have hd := List.nodup_append.mp (by simpa [TTree.pts] using hn)
    refine ⟨?_, lbAdm_leafDist dist f l hd.1 hal hcl ?_, lbAdm_leafDist dist f r hd.2.1 har hcr ?_⟩
    · intro p hp
      have hp' : p ∈ (TTree.node st lb gl l r).pts := by simpa [TTree.pts] using hp
      obtain ⟨p', hp'', e⟩ := leafDist_anchor dist (.node st lb gl l r) ⟨hcl, hcr⟩ p hp'
      rw [h p hp', e]
      exact ha p' (by simpa [TTree.pts] using hp'')
    · intro i hi
      rw [h i (by simp [TTree.pts, hi]), leafDist_left l r i hi]
    · intro i hi
      have : i ∉ l.pts := fun hl => hd.2.2 i hl i hi rfl
      rw [h i (by simp [TTree.pts, hi]), leafDist_right l r i this]

end SharkVerif.NN
