/-
The generated `batchPartitioning` (Gen/BatchArith.lean): the loop over the partitions.
Shared by Props/C03 (repartitionByClass) and Props/C12 (fold construction).
-/
import SharkVerif.Lemmas.BatchArith
namespace SharkVerif.BatchArith
open SharkVerif.CheckedNat SharkVerif.Gen.BatchArith

/-- fold starts: running sum of the batch counts -/
def starts : List Nat → Nat → List Nat
  | [], _ => []
  | c :: cs, acc => acc :: starts cs (acc + c)

theorem starts_append (a b : List Nat) (acc : Nat) : starts (a ++ b) acc = starts a acc ++ starts b (acc + a.sum) := by
  induction a generalizing acc with
  | nil => simp [starts]
  | cons x xs ih => simp [starts, ih, Nat.add_assoc]

/-- the loop of `batchPartitioning`, for any step function that behaves like the generated body -/
theorem partition_loop (ps : List Nat) (f : Nat → List Nat)
    (g : List Nat × List Nat × Nat → Nat → Option (List Nat × List Nat × Nat))
    (hg : ∀ s b c i p, ps[i]? = some p → g (s, b, c) i = some (s ++ [c], b ++ f p, c + (f p).length))
    (s0 b0 : List Nat) : ∀ k, k ≤ ps.length →
    (List.range k).foldlM g (s0, b0, 0) =
      some (s0 ++ starts ((ps.take k).map fun p => (f p).length) 0, b0 ++ (ps.take k).flatMap f,
            ((ps.take k).map fun p => (f p).length).sum) := by
  intro k
  induction k with
  | zero => intro _; simp [starts]
  | succ k ih =>
    intro hk
    have hlt : k < ps.length := by omega
    rw [List.range_succ, List.foldlM_append, ih (by omega)]
    simp only [Option.bind_eq_bind, Option.bind_some, List.foldlM_cons, List.foldlM_nil]
    rw [hg _ _ _ k ps[k] (List.getElem?_eq_getElem hlt)]
    simp only [Option.bind_some, pure, List.take_succ_eq_append_getElem hlt, List.map_append, List.map_cons, List.map_nil,
      starts_append, List.flatMap_append, List.flatMap_cons, List.flatMap_nil, List.sum_append, List.sum_cons,
      List.sum_nil, starts, List.append_assoc, Nat.zero_add, Nat.add_zero, List.append_nil]

/-- **batchPartitioning** (generated from the C++): if `optimalBatchSizes` is defined on every partition
size (`f` = its result), the function returns the total number of batches, the fold starts = prefix sums of
the per-partition batch counts (appended to `partitionStart`) and the concatenated batch sizes -/
theorem batchPartitioning_eq (ps s0 b0 : List Nat) (m : Nat) (f : Nat → List Nat)
    (hf : ∀ p ∈ ps, optimalBatchSizes p m = some (f p)) :
    batchPartitioning ps s0 b0 m =
      some ((ps.map fun p => (f p).length).sum, s0 ++ starts (ps.map fun p => (f p).length) 0, b0 ++ ps.flatMap f) := by
  unfold batchPartitioning
  simp only [Option.bind_eq_bind, Option.pure_def]
  rw [partition_loop ps f _ _ s0 b0 ps.length (Nat.le_refl _)]
  · simp
  · intro s b c i p hp
    have hmem : p ∈ ps := List.mem_of_getElem? hp
    simp [cget, hp, hf p hmem]

/-- closed form of `optimalBatchSizes` on partitions that may be empty, *given* that the current source
handles zero elements (`hz`; see `C03.optimalBatchSizes_zero` and finding F1) -/
def obs0 (m p : Nat) : List Nat := if p = 0 then [] else obsSpec p m

end SharkVerif.BatchArith
