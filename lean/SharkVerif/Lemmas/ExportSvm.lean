/-
C19: every token `%.<p>g` prints (finite, zero, infinite, NaN) is read by `double_` independently of what
follows; a record and a whole file written by `exportSparseData` are split and parsed by the record reader of
`importSparseData` token by token.  Core Lean only.
-/
import SharkVerif.Lemmas.ExportFmt
import SharkVerif.Lemmas.Import
namespace SharkVerif.Import.Export
open SharkVerif.Import

theorem isDigit_toNat {c : Char} (h : isDigit c = true) : 48 ≤ c.toNat ∧ c.toNat ≤ 57 := by
  simp only [isDigit, Bool.and_eq_true, decide_eq_true_eq] at h
  have h1 := Char.le_def.mp h.1
  have h2 := Char.le_def.mp h.2
  simp only [UInt32.le_iff_toNat_le] at h1 h2
  exact ⟨h1, h2⟩

theorem isDigit_not_space {c : Char} (h : isDigit c = true) : isSpace c = false := by
  have hn := isDigit_toNat h
  unfold isSpace
  have ne : ∀ d : Char, d.toNat < 48 → (c == d) = false := by
    intro d hd
    rw [beq_eq_false_iff_ne]
    rintro rfl
    omega
  simp only [ne ' ' (by decide), ne '\t' (by decide), ne '\n' (by decide), ne '\r' (by decide), Bool.false_or]
  simp only [Bool.or_eq_false_iff, beq_eq_false_iff_ne]
  omega

/-- a number character is not white space, not `:` and not a line feed -/
theorem numChar_props {c : Char} (h : numChar c = true) : isSpace c = false ∧ c ≠ '\n' ∧ c ≠ ':' ∧ c ≠ ' ' := by
  unfold numChar at h
  simp only [Bool.or_eq_true, beq_iff_eq] at h
  rcases h with (((((((h | h) | h) | h) | h) | h) | h) | h) | h
  · have := isDigit_toNat h
    refine ⟨isDigit_not_space h, ?_, ?_, ?_⟩ <;> (rintro rfl; simp at this)
  all_goals (subst h; decide)

/-- what may follow a printed value without changing how `double_` reads it: no digit, no `.`, `e`, `E` (would extend the
number), no `i` / `I` (`inf` → `infinity`), no `(` (`nan(...)`) -/
def TokEnd (rest : List Char) : Prop :=
  ∀ c t, rest = c :: t → isDigit c = false ∧ c ≠ '.' ∧ c ≠ 'e' ∧ c ≠ 'E' ∧ lower c ≠ 'i' ∧ c ≠ '('

theorem TokEnd.numEnd {rest : List Char} (h : TokEnd rest) : NumEnd rest :=
  fun c t hc => ⟨(h c t hc).1, (h c t hc).2.1, (h c t hc).2.2.1, (h c t hc).2.2.2.1⟩

theorem TokEnd.nil : TokEnd [] := fun _ _ h => by simp at h

/-- the value `double_` reads from a complete token -/
def readBack (s : List Char) : Option Val :=
  match real s with
  | some (v, []) => some v
  | _ => none

theorem scaled_rest (neg : Bool) (d : Nat) (k : Int) (rest : List Char) :
    scaled neg d k rest = ((scaled neg d k []).map (·.1)).map (fun v => (v, rest)) := by
  unfold scaled
  split
  · rfl
  · split
    · rfl
    · split <;> rfl

/-- from "for every admissible continuation" to `readBack` -/
theorem readBack_of_forall (tok : List Char) (o : Option Val)
    (h : ∀ rest, TokEnd rest → real (tok ++ rest) = o.map (fun v => (v, rest))) :
    readBack tok = o ∧ ∀ rest, TokEnd rest → real (tok ++ rest) = (readBack tok).map (fun v => (v, rest)) := by
  have h0 := h [] TokEnd.nil
  rw [List.append_nil] at h0
  have hrb : readBack tok = o := by
    unfold readBack
    rw [h0]
    cases o <;> rfl
  exact ⟨hrb, fun rest hr => by rw [hrb]; exact h rest hr⟩

theorem real_nan (rest : List Char) (hr : TokEnd rest) : real ("nan".toList ++ rest) = some (Val.nan, rest) := by
  cases rest with
  | nil => decide
  | cons c t =>
    have h := (hr c t rfl).2.2.2.2.2
    show real ('n' :: 'a' :: 'n' :: c :: t) = _
    unfold real
    simp [splitSign, digits, isDigit, litCI, lower]
    split
    · rename_i heq; injection heq with h1 _; exact absurd h1 h
    · rfl

theorem real_inf (neg : Bool) (rest : List Char) (hr : TokEnd rest) :
    real (signOf neg ++ "inf".toList ++ rest) = some (Val.inf neg, rest) := by
  cases rest with
  | nil => cases neg <;> decide
  | cons c t =>
    have h := (hr c t rfl).2.2.2.2.1
    have hl : (lower c == 'i') = false := by simpa using h
    cases neg
    · show real ('i' :: 'n' :: 'f' :: c :: t) = _
      unfold real
      simp [splitSign, digits, isDigit, litCI, hl, show lower 'i' = 'i' by decide, show lower 'n' = 'n' by decide,
        show lower 'f' = 'f' by decide]
    · show real ('-' :: 'i' :: 'n' :: 'f' :: c :: t) = _
      unfold real
      simp [splitSign, digits, isDigit, litCI, hl, show lower 'i' = 'i' by decide, show lower 'n' = 'n' by decide,
        show lower 'f' = 'f' by decide]

theorem tok_of_scaled (tok : List Char) (neg : Bool) (mant : Nat) (K : Int)
    (h : ∀ rest, NumEnd rest → real (tok ++ rest) = scaled neg mant K rest) :
    ∀ rest, TokEnd rest → real (tok ++ rest) = (readBack tok).map (fun x => (x, rest)) :=
  (readBack_of_forall tok ((scaled neg mant K []).map (·.1)) (fun rest hr => by rw [h rest hr.numEnd, ← scaled_rest])).2

/-- **every token `%.<p>g` prints is read independently of what follows**: `double_` consumes exactly the token
and returns `readBack token`, for every binary64 value (finite, zero, infinite, NaN) and every admissible
continuation -/
theorem real_fmtG_tok (p0 : Nat) (v : Val) (hv : isDouble v = true) :
    ∀ rest, TokEnd rest → real (fmtG p0 v ++ rest) = (readBack (fmtG p0 v)).map (fun x => (x, rest)) := by
  cases v with
  | nan => exact (readBack_of_forall _ (some .nan) (fun rest hr => real_nan rest hr)).2
  | inf neg => exact (readBack_of_forall _ (some (.inf neg)) (fun rest hr => real_inf neg rest hr)).2
  | fin neg m e =>
    by_cases hm : m = 0
    · subst hm
      refine (readBack_of_forall _ ((scaled neg 0 0 []).map (·.1)) (fun rest hr => ?_)).2
      have := real_int neg '0' [] rest rest 0 (by intro c hc; rw [List.mem_singleton.mp hc]; decide) hr.numEnd.noDigit
        (numEnd_not_dot hr.numEnd) (exponent_none rest hr.numEnd)
      rw [← scaled_rest]
      simpa [fmtG, dval] using this
    · obtain ⟨mant, z, _, _, hreal⟩ := real_fmtG p0 neg m e hm hv
      exact tok_of_scaled _ neg mant _ hreal

theorem fmtG_ne_nil (p0 : Nat) (v : Val) : fmtG p0 v ≠ [] := by
  cases v with
  | nan => show ("nan".toList : List Char) ≠ []; decide
  | inf neg =>
    cases neg
    · show ("inf".toList : List Char) ≠ []; decide
    · show ('-' :: "inf".toList : List Char) ≠ []; decide
  | fin neg m e =>
    simp only [fmtG]
    split
    · cases neg <;> simp [signOf]
    · have hP : 1 ≤ (if p0 = 0 then 1 else p0) := by split <;> omega
      generalize (if p0 = 0 then 1 else p0) = P at hP
      have hne : ∀ (ds j : Nat), 1 ≤ j → (fixedDigits P ds).take j ≠ [] := by
        intro ds j hj h
        have h1 : ((fixedDigits P ds).take j).length = min j (fixedDigits P ds).length := List.length_take
        rw [h, fixedDigits_length] at h1
        simp at h1; omega
      split
      · split
        · intro h
          have h2 := hne (sciDigits (P - 1) (Val.fin neg m e).ratOf.1 (Val.fin neg m e).ratOf.2).1
            ((sciDigits (P - 1) (Val.fin neg m e).ratOf.1 (Val.fin neg m e).ratOf.2).2.toNat + 1) (by omega)
          obtain ⟨c, hc⟩ := List.exists_mem_of_ne_nil _ h2
          have hmem := List.mem_append_left (if (stripZeros (List.drop ((sciDigits (P - 1) (Val.fin neg m e).ratOf.1 (Val.fin neg m e).ratOf.2).2.toNat + 1) (fixedDigits P (sciDigits (P - 1) (Val.fin neg m e).ratOf.1 (Val.fin neg m e).ratOf.2).1))).isEmpty = true then [] else '.' :: stripZeros (List.drop ((sciDigits (P - 1) (Val.fin neg m e).ratOf.1 (Val.fin neg m e).ratOf.2).2.toNat + 1) (fixedDigits P (sciDigits (P - 1) (Val.fin neg m e).ratOf.1 (Val.fin neg m e).ratOf.2).1))) (List.mem_append_right (signOf neg) hc)
          rw [h] at hmem
          simp at hmem
        · simp
      · intro h
        have h2 := hne (sciDigits (P - 1) (Val.fin neg m e).ratOf.1 (Val.fin neg m e).ratOf.2).1 1 (Nat.le_refl _)
        obtain ⟨c, hc⟩ := List.exists_mem_of_ne_nil _ h2
        have hlen := congrArg List.length h
        have hpos : 0 < (List.take 1 (fixedDigits P (sciDigits (P - 1) (Val.fin neg m e).ratOf.1 (Val.fin neg m e).ratOf.2).1)).length :=
          List.length_pos_of_mem hc
        simp only [List.length_append, List.length_nil] at hlen
        omega

/-- a printed value starts with a character that is not white space -/
theorem fmtG_head (p0 : Nat) (v : Val) : ∃ c t, fmtG p0 v = c :: t ∧ isSpace c = false := by
  cases h : fmtG p0 v with
  | nil => exact absurd h (fmtG_ne_nil p0 v)
  | cons c t => exact ⟨c, t, rfl, (numChar_props (fmtG_chars p0 v c (by rw [h]; simp))).1⟩

/-! ### a LibSVM record, and a LibSVM file, byte for byte -/

theorem skipSpace_cons {c : Char} {t : List Char} (h : isSpace c = false) : skipSpace (c :: t) = c :: t := by
  simp [skipSpace, h]

theorem svmFeats_cons (q : Nat × Val) (t : List (Nat × Val)) :
    svmFeats (q :: t) = ' ' :: (natDigits (q.1 + 1) ++ ':' :: (svmNum q.2 ++ svmFeats t)) := by
  simp [svmFeats, List.flatMap_cons, List.append_assoc]

theorem tokEnd_svmFeats (xs : List (Nat × Val)) : TokEnd (svmFeats xs) := by
  cases xs with
  | nil => exact TokEnd.nil
  | cons q t =>
    rw [svmFeats_cons]
    intro c t' h
    injection h with h1 _
    subst h1
    decide

theorem svmFeats_length (xs : List (Nat × Val)) : xs.length ≤ (svmFeats xs).length := by
  induction xs with
  | nil => simp
  | cons q t ih => rw [svmFeats_cons]; simp only [List.length_cons, List.length_append]; omega

/-- the stored entries of a record with the values that are read back: `(index, value, re-imported value)` -/
abbrev Entry := Nat × Val × Val

theorem svmPairs_feats : ∀ (feats : List Entry) (f : Nat) (acc : List (Nat × Val)), feats.length < f →
    (∀ q ∈ feats, q.1 + 1 < 4294967296 ∧ isDouble q.2.1 = true ∧ readBack (svmNum q.2.1) = some q.2.2) →
    svmPairs f (svmFeats (feats.map fun q => (q.1, q.2.1))) acc
      = (acc.reverse ++ feats.map (fun q => (q.1 + 1, q.2.2)), [])
  | [], f, acc, hf, _ => by
    cases f with
    | zero => omega
    | succ f => simp [svmFeats, svmPairs, skipSpace, uint, digits]
  | q :: t, f, acc, hf, h => by
    cases f with
    | zero => omega
    | succ f =>
      obtain ⟨hi, hv, hrb⟩ := h q (by simp)
      obtain ⟨c0, t0, hct, hc0⟩ := natDigits_cons (q.1 + 1)
      obtain ⟨c1, t1, hc1t, hc1⟩ := fmtG_head 6 q.2.1
      have hsk1 : skipSpace (' ' :: (natDigits (q.1 + 1) ++ ':' :: (svmNum q.2.1 ++ svmFeats (t.map fun q => (q.1, q.2.1)))))
          = natDigits (q.1 + 1) ++ ':' :: (svmNum q.2.1 ++ svmFeats (t.map fun q => (q.1, q.2.1))) := by
        have : skipSpace (' ' :: (natDigits (q.1 + 1) ++ ':' :: (svmNum q.2.1 ++ svmFeats (t.map fun q => (q.1, q.2.1)))))
            = skipSpace (natDigits (q.1 + 1) ++ ':' :: (svmNum q.2.1 ++ svmFeats (t.map fun q => (q.1, q.2.1)))) := by
          simp [skipSpace, isSpace]
        rw [this, hct, List.cons_append, skipSpace_cons (isDigit_not_space hc0)]
      have hu := uint_natDigits (q.1 + 1) (':' :: (svmNum q.2.1 ++ svmFeats (t.map fun q => (q.1, q.2.1)))) hi
        (noDigitHead_cons _ (by decide))
      have hsk2 : skipSpace (':' :: (svmNum q.2.1 ++ svmFeats (t.map fun q => (q.1, q.2.1))))
          = ':' :: (svmNum q.2.1 ++ svmFeats (t.map fun q => (q.1, q.2.1))) := skipSpace_cons (by decide)
      have hsk3 : skipSpace (svmNum q.2.1 ++ svmFeats (t.map fun q => (q.1, q.2.1)))
          = svmNum q.2.1 ++ svmFeats (t.map fun q => (q.1, q.2.1)) := by
        unfold svmNum; rw [hc1t, List.cons_append, skipSpace_cons hc1]
      have hre := real_fmtG_tok 6 q.2.1 hv (svmFeats (t.map fun q => (q.1, q.2.1))) (tokEnd_svmFeats _)
      have hrb' : readBack (fmtG 6 q.2.1) = some q.2.2 := hrb
      rw [hrb'] at hre
      simp only [Option.map_some] at hre
      have ih := svmPairs_feats t f ((q.1 + 1, q.2.2) :: acc) (by simp at hf; omega) (fun x hx => h x (by simp [hx]))
      simp only [List.map_cons, svmFeats_cons]
      unfold svmPairs
      simp only [hsk1, hu, hsk2, hsk3]
      show (match real (fmtG 6 q.2.1 ++ svmFeats (t.map fun q => (q.1, q.2.1))) with
        | some (v, r3) => svmPairs f r3 ((q.1 + 1, v) :: acc)
        | none => _) = _
      rw [hre]
      simp only [ih, List.reverse_cons, List.append_assoc, List.singleton_append]

/-- **one exported record is read back token by token**: label and `index+1:value` pairs, each value as
`readBack` of its token -/
theorem svmLine_print (lab lab' : Val) (feats : List Entry) (hl : isDouble lab = true)
    (hlr : readBack (svmNum lab) = some lab')
    (h : ∀ q ∈ feats, q.1 + 1 < 4294967296 ∧ isDouble q.2.1 = true ∧ readBack (svmNum q.2.1) = some q.2.2) :
    svmLine (svmNum lab ++ svmFeats (feats.map fun q => (q.1, q.2.1)))
      = some (lab', feats.map fun q => (q.1 + 1, q.2.2)) := by
  obtain ⟨c1, t1, hc1t, hc1⟩ := fmtG_head 6 lab
  have hsk : skipSpace (svmNum lab ++ svmFeats (feats.map fun q => (q.1, q.2.1)))
      = svmNum lab ++ svmFeats (feats.map fun q => (q.1, q.2.1)) := by
    unfold svmNum; rw [hc1t, List.cons_append, skipSpace_cons hc1]
  have hre := real_fmtG_tok 6 lab hl (svmFeats (feats.map fun q => (q.1, q.2.1))) (tokEnd_svmFeats _)
  have hlr' : readBack (fmtG 6 lab) = some lab' := hlr
  rw [hlr'] at hre
  simp only [Option.map_some] at hre
  have hlen : feats.length < (svmNum lab ++ svmFeats (feats.map fun q => (q.1, q.2.1))).length + 1 := by
    have := svmFeats_length (feats.map fun q => (q.1, q.2.1))
    simp only [List.length_map, List.length_append] at this ⊢
    omega
  have hp := svmPairs_feats feats _ [] hlen h
  unfold svmLine
  rw [hsk]
  show (match real (fmtG 6 lab ++ svmFeats (feats.map fun q => (q.1, q.2.1))) with
    | none => none
    | some (lab, r) => _) = _
  rw [hre]
  simp only [hp]
  simp [skipSpace]

theorem splitLines_run : ∀ (l rest cur : List Char) (acc : List (List Char)), (∀ c ∈ l, c ≠ '\n') →
    splitLines (l ++ rest) cur acc = splitLines rest (l.reverse ++ cur) acc
  | [], rest, cur, acc, _ => by simp
  | c :: t, rest, cur, acc, h => by
    have hc : (c == '\n') = false := by simpa using h c (by simp)
    simp only [List.cons_append, splitLines, hc, Bool.false_eq_true, if_false]
    rw [splitLines_run t rest (c :: cur) acc (fun x hx => h x (by simp [hx]))]
    simp

theorem splitLines_lines : ∀ (ls : List (List Char)) (acc : List (List Char)),
    (∀ l ∈ ls, l ≠ [] ∧ ∀ c ∈ l, c ≠ '\n') →
    splitLines (ls.flatMap fun l => l ++ ['\n']) [] acc = acc.reverse ++ ls
  | [], acc, _ => by simp [splitLines]
  | l :: t, acc, h => by
    obtain ⟨hne, hnl⟩ := h l (by simp)
    simp only [List.flatMap_cons, List.append_assoc]
    rw [splitLines_run l _ [] acc hnl]
    simp only [List.append_nil, List.singleton_append, splitLines]
    have hr : l.reverse.isEmpty = false := by
      cases l with
      | nil => exact absurd rfl hne
      | cons a b => simp
    simp only [show (('\n' : Char) == '\n') = true by decide, if_true, hr, Bool.false_eq_true, if_false, List.reverse_reverse]
    rw [splitLines_lines t (l :: acc) (fun x hx => h x (by simp [hx]))]
    simp

theorem mapM_some {α β : Type} (f : α → Option β) (g : α → β) : ∀ (l : List α), (∀ x ∈ l, f x = some (g x)) →
    l.mapM f = some (l.map g)
  | [], _ => rfl
  | a :: t, h => by
    rw [List.mapM_cons, h a (by simp), mapM_some f g t (fun x hx => h x (by simp [hx]))]
    rfl

theorem svmFeats_no_nl (xs : List (Nat × Val)) : ∀ c ∈ svmFeats xs, c ≠ '\n' := by
  induction xs with
  | nil => intro c hc; simp [svmFeats] at hc
  | cons q t ih =>
    intro c hc
    rw [svmFeats_cons] at hc
    simp only [List.mem_cons, List.mem_append] at hc
    rcases hc with rfl | hc | rfl | hc | hc
    · decide
    · exact (numChar_props (AllNum.natDigits _ c hc)).2.1
    · decide
    · exact (numChar_props (svmNum_chars _ c hc)).2.1
    · exact ih c hc

/-- a labelled element of a LibSVM regression file with the values that are read back -/
abbrev RegPoint := (Val × Val) × List Entry

/-- **C19, byte-level round trip of `exportSparseData` (regression labels) through the record reader.**  The bytes
`exportSparseData` writes for a dataset — per element the label in `%.6g`, then ` index+1:value` per stored
entry, then a line feed — are split and parsed by `importSparseDataReader` (model `svmRecords`: `getline` loop,
`phrase_parse` of each line, `first == last`) into exactly one record per element, with the label and every
value read back token by token (`readBack` of what was printed), for every dataset of binary64 values. -/
theorem svmRecords_svmRegr (pts : List RegPoint)
    (h : ∀ p ∈ pts, isDouble p.1.1 = true ∧ readBack (svmNum p.1.1) = some p.1.2 ∧
      ∀ q ∈ p.2, q.1 + 1 < 4294967296 ∧ isDouble q.2.1 = true ∧ readBack (svmNum q.2.1) = some q.2.2) :
    svmRecords (svmRegr (pts.map fun p => (p.1.1, p.2.map fun q => (q.1, q.2.1))))
      = some (pts.map fun p => (p.1.2, p.2.map fun q => (q.1 + 1, q.2.2))) := by
  have hform : svmRegr (pts.map fun p => (p.1.1, p.2.map fun q => (q.1, q.2.1)))
      = (pts.map fun p => svmNum p.1.1 ++ svmFeats (p.2.map fun q => (q.1, q.2.1))).flatMap fun l => l ++ ['\n'] := by
    simp [svmRegr, List.flatMap_map, List.append_assoc]
  unfold svmRecords
  rw [hform, splitLines_lines _ []]
  · simp only [List.reverse_nil, List.nil_append]
    rw [List.mapM_map] 
    exact mapM_some _ _ pts (fun p hp => svmLine_print p.1.1 p.1.2 p.2 (h p hp).1 (h p hp).2.1 (h p hp).2.2)
  · intro l hl
    obtain ⟨p, hp, rfl⟩ := List.mem_map.mp hl
    refine ⟨?_, ?_⟩
    · intro he
      have := List.append_eq_nil_iff.mp he
      exact fmtG_ne_nil 6 p.1.1 this.1
    · intro c hc
      rcases List.mem_append.mp hc with hc | hc
      · exact (numChar_props (svmNum_chars _ c hc)).2.1
      · exact svmFeats_no_nl _ c hc

/-! ### integers are converted exactly; class labels of `exportSparseData` -/

theorem stripTwos_succ (f m : Nat) (e : Int) :
    Val.stripTwos (f + 1) m e = if m ≠ 0 ∧ m % 2 = 0 then Val.stripTwos f (m / 2) (e + 1) else (m, e) := rfl

theorem stripTwos_fuel : ∀ (f a : Nat) (e : Int), a ≠ 0 → a < 2 ^ f → Val.stripTwos (f + 1) a e = Val.stripTwos f a e := by
  intro f
  induction f with
  | zero => intro a e h0 h; simp at h; omega
  | succ f ih =>
    intro a e h0 h
    rw [stripTwos_succ (f + 1) a e, stripTwos_succ f a e]
    by_cases hev : a ≠ 0 ∧ a % 2 = 0
    · rw [if_pos hev, if_pos hev]
      exact ih (a / 2) (e + 1) (by omega) (by rw [Nat.pow_succ] at h; omega)
    · rw [if_neg hev, if_neg hev]

theorem stripTwos_fuel_add (f a : Nat) (e : Int) (h0 : a ≠ 0) (h : a < 2 ^ f) :
    ∀ k, Val.stripTwos (f + k) a e = Val.stripTwos f a e := by
  intro k
  induction k with
  | zero => rfl
  | succ k ih =>
    rw [← Nat.add_assoc, stripTwos_fuel (f + k) a e h0 (Nat.lt_of_lt_of_le h (Nat.pow_le_pow_right (by decide) (by omega))), ih]

theorem stripTwos_shift : ∀ (t f a : Nat) (e : Int), a ≠ 0 →
    Val.stripTwos (f + t) (a * 2 ^ t) e = Val.stripTwos f a (e + t) := by
  intro t
  induction t with
  | zero => intro f a e _; simp
  | succ t ih =>
    intro f a e h0
    rw [← Nat.add_assoc, stripTwos_succ]
    have hne : a * 2 ^ (t + 1) ≠ 0 := Nat.mul_ne_zero h0 (Nat.pos_iff_ne_zero.mp (Nat.pow_pos (by decide)))
    have hev : a * 2 ^ (t + 1) % 2 = 0 := by rw [Nat.pow_succ, ← Nat.mul_assoc]; exact Nat.mul_mod_left _ _
    have hdiv : a * 2 ^ (t + 1) / 2 = a * 2 ^ t := by rw [Nat.pow_succ, ← Nat.mul_assoc]; exact Nat.mul_div_cancel _ (by decide)
    rw [if_pos ⟨hne, hev⟩, hdiv, ih f a (e + 1) h0]
    congr 1
    push_cast; omega

theorem log2_mul_pow (a t : Nat) (h0 : a ≠ 0) : (a * 2 ^ t).log2 = a.log2 + t := by
  induction t with
  | zero => simp
  | succ t ih =>
    have : a * 2 ^ (t + 1) = 2 * (a * 2 ^ t) := by rw [Nat.pow_succ, ← Nat.mul_assoc, Nat.mul_comm]
    rw [this, Nat.log2_two_mul (Nat.mul_ne_zero h0 (Nat.pos_iff_ne_zero.mp (Nat.pow_pos (by decide)))), ih]
    omega

/-- the normal form does not depend on how the value is split into mantissa and power of two -/
theorem mk_shift (neg : Bool) (a t : Nat) (e : Int) (h0 : a ≠ 0) : Val.mk neg (a * 2 ^ t) (e - t) = Val.mk neg a e := by
  have hne : a * 2 ^ t ≠ 0 := Nat.mul_ne_zero h0 (Nat.pos_iff_ne_zero.mp (Nat.pow_pos (by decide)))
  unfold Val.mk
  rw [if_neg hne, if_neg h0, log2_mul_pow a t h0]
  have : a.log2 + t + 1 = (a.log2 + 1) + t := by omega
  rw [this, stripTwos_shift t (a.log2 + 1) a (e - t) h0]
  have : e - (t : Int) + t = e := by omega
  rw [this]

/-- what `stripTwos` keeps: the value -/
theorem stripTwos_value : ∀ (f m : Nat) (e : Int), ∃ k : Nat,
    (Val.stripTwos f m e).2 = e + k ∧ (Val.stripTwos f m e).1 * 2 ^ k = m := by
  intro f
  induction f with
  | zero => intro m e; exact ⟨0, by simp [Val.stripTwos]⟩
  | succ f ih =>
    intro m e
    rw [stripTwos_succ]
    by_cases hev : m ≠ 0 ∧ m % 2 = 0
    · rw [if_pos hev]
      obtain ⟨k, h1, h2⟩ := ih (m / 2) (e + 1)
      refine ⟨k + 1, by rw [h1]; push_cast; omega, ?_⟩
      rw [Nat.pow_succ, ← Nat.mul_assoc, h2]; omega
    · rw [if_neg hev]; exact ⟨0, by simp⟩

/-- **integers below 2^53 are converted exactly**: `static_cast<double>(acc)` of the accumulator -/
theorem roundBin_nat (neg : Bool) (n : Nat) (h0 : n ≠ 0) (h53 : n < 2 ^ 53) :
    Val.roundBin 53 (-1074) 1024 neg n 1 = Val.mk neg n 0 := by
  have hL1 := Nat.log2_self_le h0
  have hL2 := Nat.lt_log2_self (n := n)
  have hL : n.log2 ≤ 52 := by
    have := (Nat.log2_lt h0).2 h53
    omega
  have hlog1 : Nat.log2 1 = 0 := by simpa using Nat.log2_two_pow (n := 0)
  generalize hLdef : n.log2 = L at hL1 hL2 hL
  unfold Val.roundBin
  rw [if_neg (by omega)]
  simp only [hLdef, hlog1]
  -- e0 = L - 53 < 0
  have he0 : ((L : Int) - ((0 : Nat) : Int) - ((53 : Nat) : Int)) = (L : Int) - 53 := by omega
  simp only [he0]
  have hneg0 : ¬ ((L : Int) - 53 ≥ 0) := by omega
  have hq0 : n * 2 ^ (-((L : Int) - 53)).toNat ≥ 2 ^ 53 := by
    have : (-((L : Int) - 53)).toNat = 53 - L := by omega
    rw [this]
    calc 2 ^ 53 = 2 ^ L * 2 ^ (53 - L) := by rw [← Nat.pow_add]; congr 1; omega
      _ ≤ n * 2 ^ (53 - L) := Nat.mul_le_mul_right _ hL1
  simp only [hneg0, if_false, Nat.mul_one, Nat.div_one, hq0, if_true]
  generalize hE1 : (L : Int) - 53 + 1 = E1
  by_cases hE : E1 ≥ 0
  · -- L = 52, E1 = 0
    have hE0 : E1 = 0 := by omega
    subst hE0
    simp only [Int.toNat_zero, Nat.pow_zero, Nat.mul_one, Nat.div_one, Nat.mod_one, ge_iff_le, Int.le_refl, if_true]
    have hq1 : ¬ (2 ^ 53 ≤ n) := by omega
    simp only [hq1, if_false]
    simp only [show ¬ ((0 : Int) < -1074) by decide, if_false, Int.le_refl, if_true, Int.toNat_zero, Nat.pow_zero, Nat.mul_one,
      Nat.div_one, Nat.mod_one, Nat.mul_zero]
    simp
    intro h
    exfalso
    have : (2 : Nat) ^ 53 ≤ 2 ^ 1024 := Nat.pow_le_pow_right (by decide) (by decide)
    omega
  · have hk : (-E1).toNat = 52 - L := by omega
    have hq1 : ¬ (n * 2 ^ (52 - L) ≥ 2 ^ 53) := by
      have : n * 2 ^ (52 - L) < 2 ^ (L + 1) * 2 ^ (52 - L) := Nat.mul_lt_mul_of_pos_right hL2 (Nat.pow_pos (by decide))
      have h2 : 2 ^ (L + 1) * 2 ^ (52 - L) = 2 ^ 53 := by rw [← Nat.pow_add]; congr 1; omega
      omega
    simp only [hE, if_false, hk, Nat.div_one, hq1]
    have hlt : ¬ (E1 < -1074) := by omega
    simp only [hlt, if_false, hE, hk, Nat.mod_one, Nat.mul_zero, Nat.div_one]
    simp only [show ¬ ((0 : Nat) > 1) by decide, show ¬ ((0 : Nat) = 1) by decide, false_and, or_false, if_false, false_and]
    have := mk_shift neg n (52 - L) 0 h0
    have hE' : (0 : Int) - ((52 - L : Nat) : Int) = E1 := by omega
    rw [hE'] at this
    exact this

theorem mk_ratOf (neg : Bool) (n : Nat) (h0 : n ≠ 0) :
    (Val.mk neg n 0).ratOf = (n, 1) ∧ (Val.mk neg n 0).isFin = true ∧
    Val.toInt32 (Val.mk neg n 0) = (if (if neg then -(n : Int) else (n : Int)) ≥ -2147483648 ∧ (if neg then -(n : Int) else (n : Int)) ≤ 2147483647
      then some (if neg then -(n : Int) else (n : Int)) else none) := by
  obtain ⟨k, h1, h2⟩ := stripTwos_value (n.log2 + 1) n 0
  unfold Val.mk
  rw [if_neg h0]
  generalize Val.stripTwos (n.log2 + 1) n 0 = st at h1 h2
  obtain ⟨m', e'⟩ := st
  simp only at h1 h2 ⊢
  have he : e' ≥ 0 := by omega
  have hk : e'.toNat = k := by omega
  refine ⟨?_, rfl, ?_⟩
  · simp only [Val.ratOf, he, if_true, hk, h2]
  · simp only [Val.toInt32, show ¬ (e' < 0) by omega, if_false, hk, h2]

theorem pow10D_zero : pow10D 0 = Val.fin false 1 0 := by
  have : pow10D 0 = Val.roundBin 53 (-1074) 1024 false 1 1 := by simp [pow10D, Val.ofDecimal]
  rw [this, roundBin_nat false 1 (by decide) (by decide)]
  decide

/-- **spirit converts an integer token below 2^53 exactly** -/
theorem scaled_int (neg : Bool) (n : Nat) (rest : List Char) (h0 : n ≠ 0) (h53 : n < 2 ^ 53) :
    scaled neg n 0 rest = some (Val.mk neg n 0, rest) := by
  unfold scaled
  rw [if_neg (by omega), if_pos (by omega)]
  obtain ⟨hr, hf, _⟩ := mk_ratOf false n h0
  have hb : (Val.fin false 1 0).isFin = true := rfl
  have hbr : (Val.fin false 1 0).ratOf = (1, 1) := by decide
  simp only [Int.toNat_zero, pow10D_zero, Val.ofNatD, roundBin_nat false n h0 h53, Val.mulD, hf, hr, hb, hbr,
    Bool.and_self, if_true, Nat.mul_one, roundBin_nat neg n h0 h53]

theorem intDigits_eq (i : Int) : intDigits i = signOf (decide (i < 0)) ++ natDigits i.natAbs := by
  unfold intDigits signOf
  by_cases h : i < 0 <;> simp [h]

/-- **an integer token (class label, `-1` / `+1`, an integer-valued cell) is read back exactly by `double_`**:
`|i| < 2^53`, `i ≠ 0`, followed by anything that is not a digit, `.`, `e`, `E` -/
theorem real_intDigits (i : Int) (rest : List Char) (h0 : i ≠ 0) (h53 : i.natAbs < 2 ^ 53) (hr : NumEnd rest) :
    real (intDigits i ++ rest) = some (Val.ofInt i, rest) := by
  obtain ⟨c0, t0, hct, _⟩ := natDigits_cons i.natAbs
  have hd := natDigits_digits i.natAbs
  rw [hct] at hd
  have h := real_int (decide (i < 0)) c0 t0 rest rest 0 hd hr.noDigit (numEnd_not_dot hr) (exponent_none rest hr)
  rw [← hct, foldl_natDigits, scaled_int _ _ _ (by omega) h53] at h
  rw [intDigits_eq, List.append_assoc, hct, List.cons_append]
  exact h

theorem svmPairs_lead_space (f : Nat) (Z : List Char) (acc : List (Nat × Val)) :
    (svmPairs f (' ' :: Z) acc).1 = (svmPairs f Z acc).1 ∧
    ((svmPairs f Z acc).2 = [] → skipSpace (svmPairs f (' ' :: Z) acc).2 = []) := by
  cases f with
  | zero =>
    simp only [svmPairs]
    exact ⟨trivial, fun h => by subst h; simp [skipSpace, isSpace]⟩
  | succ f =>
    have hsk : skipSpace (' ' :: Z) = skipSpace Z := by simp [skipSpace, isSpace]
    have hsp : ∀ Z' : List Char, Z' = [] → skipSpace (' ' :: Z') = [] := by
      intro Z' h; subst h; simp [skipSpace, isSpace]
    simp only [svmPairs, hsk]
    split
    · exact ⟨rfl, fun h => hsp Z h⟩
    · split
      · split
        · exact ⟨rfl, fun h => by rw [h]; rfl⟩
        · exact ⟨rfl, fun h => hsp Z h⟩
      · exact ⟨rfl, fun h => hsp Z h⟩

/-- one record of `exportSparseData` for class labels: label token, blank, entries -/
theorem svmLine_class (i : Int) (feats : List Entry) (h0 : i ≠ 0) (h53 : i.natAbs < 2 ^ 53)
    (h : ∀ q ∈ feats, q.1 + 1 < 4294967296 ∧ isDouble q.2.1 = true ∧ readBack (svmNum q.2.1) = some q.2.2) :
    svmLine (intDigits i ++ [' '] ++ svmFeats (feats.map fun q => (q.1, q.2.1)))
      = some (Val.ofInt i, feats.map fun q => (q.1 + 1, q.2.2)) := by
  have hne : intDigits i ≠ [] := by
    rw [intDigits_eq]
    obtain ⟨c, t, hct, _⟩ := natDigits_cons i.natAbs
    rw [hct]; simp
  obtain ⟨c1, t1, hc1t⟩ : ∃ c t, intDigits i = c :: t := by
    cases hh : intDigits i with
    | nil => exact absurd hh hne
    | cons c t => exact ⟨c, t, rfl⟩
  have hc1 : isSpace c1 = false := (numChar_props (AllNum.intDigits i c1 (by rw [hc1t]; simp))).1
  have hsk : skipSpace (intDigits i ++ [' '] ++ svmFeats (feats.map fun q => (q.1, q.2.1)))
      = intDigits i ++ (' ' :: svmFeats (feats.map fun q => (q.1, q.2.1))) := by
    rw [List.append_assoc, hc1t, List.cons_append, skipSpace_cons hc1]; rfl
  have hend : NumEnd (' ' :: svmFeats (feats.map fun q => (q.1, q.2.1))) := by
    intro c t hh; injection hh with h1 _; subst h1; decide
  have hre := real_intDigits i (' ' :: svmFeats (feats.map fun q => (q.1, q.2.1))) h0 h53 hend
  have hlen : feats.length < (intDigits i ++ [' '] ++ svmFeats (feats.map fun q => (q.1, q.2.1))).length + 1 := by
    have := svmFeats_length (feats.map fun q => (q.1, q.2.1))
    simp only [List.length_map, List.length_append] at this ⊢
    omega
  have hp := svmPairs_feats feats _ [] hlen h
  have hls := svmPairs_lead_space ((intDigits i ++ [' '] ++ svmFeats (feats.map fun q => (q.1, q.2.1))).length + 1)
    (svmFeats (feats.map fun q => (q.1, q.2.1))) []
  rw [hp] at hls
  unfold svmLine
  rw [hsk, hre]
  simp only
  generalize svmPairs _ (' ' :: svmFeats (feats.map fun q => (q.1, q.2.1))) [] = res at hls
  obtain ⟨ps, r⟩ := res
  simp only at hls
  have h1 := hls.1
  simp only [List.reverse_nil, List.nil_append] at h1
  simp [hls.2 trivial, h1]

/-- the label `exportSparseData` writes for class `l`: `2l - 1` with `oneMinusOne` (two classes), else `l + 1` -/
def svmLabelOut (omo : Bool) (l : Nat) : Int := if omo then 2 * (l : Int) - 1 else (l : Int) + 1

theorem svmLabelOut_props (omo : Bool) (l : Nat) (hl : l + 1 < 2 ^ 31) (ho : omo = true → l ≤ 1) :
    svmLabelOut omo l ≠ 0 ∧ (svmLabelOut omo l).natAbs < 2 ^ 53 ∧ -2147483648 ≤ svmLabelOut omo l ∧ svmLabelOut omo l ≤ 2147483647 := by
  unfold svmLabelOut
  have : (2 : Nat) ^ 31 = 2147483648 := by decide
  have h53 : (2 : Nat) ^ 53 = 9007199254740992 := by decide
  cases omo
  · simp only [if_false, Bool.false_eq_true]; omega
  · have := ho rfl
    simp only [if_true]; omega

theorem svmLabelOut_tok (omo : Bool) (l : Nat) :
    (if omo then intDigits (2 * (l : Int) - 1) else natDigits (l + 1)) = intDigits (svmLabelOut omo l) := by
  unfold svmLabelOut
  cases omo
  · simp only [Bool.false_eq_true, if_false]
    rw [intDigits_eq]
    have h1 : decide ((l : Int) + 1 < 0) = false := by simp; omega
    have h2 : ((l : Int) + 1).natAbs = l + 1 := by omega
    rw [h1, h2]; rfl
  · rfl

/-- `Val.toInt32 (Val.ofInt i) = some i` for every `int` -/
theorem toInt32_ofInt (i : Int) (h0 : i ≠ 0) (hlo : -2147483648 ≤ i) (hhi : i ≤ 2147483647) :
    Val.toInt32 (Val.ofInt i) = some i := by
  unfold Val.ofInt
  rw [(mk_ratOf (decide (i < 0)) i.natAbs (by omega)).2.2]
  by_cases h : i < 0
  · simp only [h, decide_true, if_true]
    have : -(i.natAbs : Int) = i := by omega
    rw [this, if_pos ⟨hlo, hhi⟩]
  · simp only [h, decide_false, Bool.false_eq_true, if_false]
    have : (i.natAbs : Int) = i := by omega
    rw [this, if_pos ⟨hlo, hhi⟩]

/-- a labelled element of a LibSVM classification file with the values that are read back -/
abbrev ClsPoint := Nat × List Entry

/-- **byte-level round trip of `exportSparseData` (class labels, `sortLabels = false`) through the record reader** -/
theorem svmRecords_svmClass (pts : List ClsPoint) (omo : Bool)
    (h : ∀ p ∈ pts, p.1 + 1 < 2 ^ 31 ∧
      ∀ q ∈ p.2, q.1 + 1 < 4294967296 ∧ isDouble q.2.1 = true ∧ readBack (svmNum q.2.1) = some q.2.2) :
    svmRecords (svmClass (pts.map fun p => (p.1, p.2.map fun q => (q.1, q.2.1))) omo false)
      = some (pts.map fun p =>
          (Val.ofInt (svmLabelOut (omo && (if pts.isEmpty then 1 else numberOfClasses (pts.map (·.1))) == 2) p.1),
           p.2.map fun q => (q.1 + 1, q.2.2))) := by
  generalize hO : (omo && (if pts.isEmpty then 1 else numberOfClasses (pts.map (·.1))) == 2) = O
  have hform : svmClass (pts.map fun p => (p.1, p.2.map fun q => (q.1, q.2.1))) omo false
      = (pts.map fun p => intDigits (svmLabelOut O p.1) ++ [' '] ++ svmFeats (p.2.map fun q => (q.1, q.2.1))).flatMap
          fun l => l ++ ['\n'] := by
    simp only [svmClass, List.isEmpty_map, List.map_map, Function.comp_def, hO, Bool.false_eq_true, if_false, svmLabelOut_tok,
      List.flatMap_map]
  unfold svmRecords
  rw [hform, splitLines_lines _ []]
  · simp only [List.reverse_nil, List.nil_append]
    rw [List.mapM_map]
    refine mapM_some _ _ pts (fun p hp => ?_)
    have ho : O = true → p.1 ≤ 1 := by
      intro hOt
      rw [hOt] at hO
      simp only [Bool.and_eq_true, beq_iff_eq] at hO
      have hne : pts.isEmpty = false := by
        cases hpe : pts.isEmpty with
        | false => rfl
        | true => rw [hpe] at hO; simp at hO
      rw [hne] at hO
      simp only [Bool.false_eq_true, if_false] at hO
      have := Svm.numberOfClasses_gt (pts.map (·.1)) p.1 (List.mem_map.mpr ⟨p, hp, rfl⟩)
      omega
    obtain ⟨h0, h53, _, _⟩ := svmLabelOut_props O p.1 (h p hp).1 ho
    exact svmLine_class (svmLabelOut O p.1) p.2 h0 h53 (h p hp).2
  · intro l hl
    obtain ⟨p, hp, rfl⟩ := List.mem_map.mp hl
    refine ⟨by simp, ?_⟩
    intro c hc
    simp only [List.mem_append, List.mem_singleton] at hc
    rcases hc with (hc | rfl) | hc
    · exact (numChar_props (AllNum.intDigits _ c hc)).2.1
    · decide
    · exact svmFeats_no_nl _ c hc

/-! ### every printed binary64 value is accepted again -/

theorem sciDigits_carry (p n d : Nat) (hd : 0 < d) (h : (sciDigits p n d).2 = decExp n d + 1) :
    (sciDigits p n d).1 = 10 ^ p := by
  have hq := sci_quot_lt p n d hd
  revert h
  unfold sciDigits
  simp only
  generalize (if (p : Int) - decExp n d ≥ 0 then n * 10 ^ ((p : Int) - decExp n d).toNat else n) = num at hq ⊢
  generalize (if (p : Int) - decExp n d ≥ 0 then d else d * 10 ^ (-((p : Int) - decExp n d)).toNat) = den at hq ⊢
  have hmle : (if 2 * (num % den) > den ∨ (2 * (num % den) = den ∧ num / den % 2 = 1) then num / den + 1 else num / den) ≤ num / den + 1 := by
    split <;> omega
  generalize (if 2 * (num % den) > den ∨ (2 * (num % den) = den ∧ num / den % 2 = 1) then num / den + 1 else num / den) = m at hmle ⊢
  generalize decExp n d = e0
  by_cases hc : m ≥ 10 ^ (p + 1)
  · rw [if_pos hc]
    intro _
    have hm : m = 10 ^ (p + 1) := by omega
    simp only
    rw [hm, Nat.pow_succ, Nat.mul_div_cancel _ (by decide)]
  · rw [if_neg hc]
    intro h
    simp only at h
    omega

set_option exponentiation.threshold 2000 in
theorem ratOf_lt9 (neg : Bool) (m : Nat) (e : Int) (h : isDouble (.fin neg m e) = true) :
    (Val.fin neg m e).ratOf.1 < 9 * 10 ^ 308 * (Val.fin neg m e).ratOf.2 := by
  simp only [isDouble, Bool.and_eq_true, decide_eq_true_eq] at h
  obtain ⟨⟨hm, hlo⟩, hhi⟩ := h
  by_cases he : e ≥ 0
  · simp only [Val.ratOf, he, if_true]
    have h1 : 2 ^ e.toNat ≤ 2 ^ 971 := Nat.pow_le_pow_right (by decide) (by omega)
    have h2 : m * 2 ^ e.toNat < 2 ^ 53 * 2 ^ 971 :=
      Nat.lt_of_lt_of_le (Nat.mul_lt_mul_of_pos_right hm (Nat.pow_pos (by decide))) (Nat.mul_le_mul_left _ h1)
    exact Nat.lt_trans h2 (by decide)
  · simp only [Val.ratOf, he, if_false]
    have h1 : 0 < 2 ^ (-e).toNat := Nat.pow_pos (by decide)
    calc m < 9 * 10 ^ 308 * 1 := Nat.lt_trans hm (by decide)
      _ ≤ 9 * 10 ^ 308 * 2 ^ (-e).toNat := Nat.mul_le_mul_left _ h1

set_option exponentiation.threshold 2000 in
/-- the decimal exponent of a printed binary64 value never exceeds 308 (no carry into `1e+309`) -/
theorem sciDigits_exp_le_308 (p n d : Nat) (hp : p < 308) (hd : 0 < d) (hn9 : n < 9 * 10 ^ 308 * d)
    (hlen : (natDigits n).length ≤ 309) : (sciDigits p n d).2 ≤ 308 := by
  have hb := decExp_bounds n d
  obtain ⟨hex, hnear⟩ := sciDigits_nearest p n d hd
  rcases hex with hex | hex
  · omega
  · by_cases h307 : decExp n d ≤ 307
    · omega
    · exfalso
      have he0 : decExp n d = 308 := by omega
      have hds := sciDigits_carry p n d hd hex
      rw [hex, hds, he0] at hnear
      have hs : ¬ ((p : Int) - 308 ≥ 0) := by omega
      have ht : (-((p : Int) - 308)).toNat = 308 - p := by omega
      have h1 : ((308 : Int) + 1 - 308).toNat = 1 := by decide
      simp only [hs, if_false, ht, h1] at hnear
      have hAB : 10 ^ p * 10 ^ (308 - p) = 10 ^ 308 := by rw [← Nat.pow_add]; congr 1; omega
      have hX : 10 ^ p * 10 ^ 1 * (d * 10 ^ (308 - p)) = 10 * (10 ^ 308 * d) := by
        rw [← hAB]; simp only [Nat.pow_one, Nat.mul_comm, Nat.mul_left_comm, Nat.mul_assoc]
      have hB : d * 10 ^ (308 - p) ≤ 10 ^ 308 * d := by
        rw [Nat.mul_comm]; exact Nat.mul_le_mul_right d (Nat.pow_le_pow_right (by decide) (by omega))
      have hn9' : n < 9 * (10 ^ 308 * d) := by rw [← Nat.mul_assoc]; exact hn9
      generalize 10 ^ 308 * d = T at hX hB hn9'
      generalize d * 10 ^ (308 - p) = den at hnear hB hX
      push_cast at hnear
      have hXi : ((10 : Int) ^ p * 10 * den) = 10 * T := by
        have := hX
        simp only [Nat.pow_one] at this
        exact_mod_cast this
      rw [hXi] at hnear
      omega

theorem scaled_some (neg : Bool) (dg : Nat) (K : Int) (rest : List Char) (h1 : -614 ≤ K) (h2 : K ≤ 308) :
    ∃ x, scaled neg dg K rest = some (x, rest) := by
  unfold scaled
  rw [if_neg (by omega)]
  split
  · exact ⟨_, rfl⟩
  · split <;> exact ⟨_, rfl⟩

/-- **every binary64 value printed by `%.<p>g`, `1 ≤ p ≤ 17`, is accepted by `double_` again** (the decimal exponent stays
inside spirit's range `[-614, 308]`), in particular everything `exportSparseData` (`%.6g`) and `exportCSV` (`%.10g`) print -/
theorem readBack_fmtG_some (p0 : Nat) (hp0 : p0 ≤ 17) (v : Val) (hv : isDouble v = true) : ∃ v', readBack (fmtG p0 v) = some v' := by
  cases v with
  | nan => exact ⟨.nan, by show readBack "nan".toList = some Val.nan; decide⟩
  | inf neg =>
    cases neg
    · exact ⟨.inf false, by show readBack "inf".toList = some (Val.inf false); decide⟩
    · exact ⟨.inf true, by show readBack ('-' :: "inf".toList) = some (Val.inf true); decide⟩
  | fin neg m e =>
    by_cases hm : m = 0
    · subst hm
      have : fmtG p0 (Val.fin neg 0 e) = signOf neg ++ ['0'] := by simp [fmtG]
      rw [this]
      cases neg
      · exact ⟨Val.fin false 0 0, by decide⟩
      · exact ⟨Val.fin true 0 0, by decide⟩
    · obtain ⟨mant, z, _, hK, hreal⟩ := real_fmtG p0 neg m e hm hv
      obtain ⟨hn, hd0, hd⟩ := ratOf_bounds neg m e hv
      have hP : 1 ≤ (if p0 = 0 then 1 else p0) ∧ (if p0 = 0 then 1 else p0) ≤ 17 := by split <;> omega
      generalize (if p0 = 0 then 1 else p0) = P at hP hK hreal
      have hb := sciDigits_exp_bounds (P - 1) (Val.fin neg m e).ratOf.1 (Val.fin neg m e).ratOf.2
      have h1 := natDigits_length_le _ 309 hn (by decide)
      have h2 := natDigits_length_le _ 324 hd (by decide)
      have h308 := sciDigits_exp_le_308 (P - 1) _ _ (by omega) hd0 (ratOf_lt9 neg m e hv) h1
      have hr := hreal [] (fun c t h => by simp at h)
      rw [List.append_nil] at hr
      obtain ⟨x, hx⟩ := scaled_some neg mant
        ((sciDigits (P - 1) (Val.fin neg m e).ratOf.1 (Val.fin neg m e).ratOf.2).2 - ((P - 1 : Nat) : Int) + (z : Int)) []
        (by omega) (by omega)
      exact ⟨x, by unfold readBack; rw [hr, hx]⟩

/-- the value `importSparseData` obtains for a value `exportSparseData` printed (`%.6g`) -/
def reimport6 (v : Val) : Val := (readBack (svmNum v)).getD .nan

theorem readBack_svmNum (v : Val) (hv : isDouble v = true) : readBack (svmNum v) = some (reimport6 v) := by
  obtain ⟨v', h⟩ := readBack_fmtG_some 6 (by decide) v hv
  unfold reimport6 svmNum
  rw [h]; rfl

end SharkVerif.Import.Export
