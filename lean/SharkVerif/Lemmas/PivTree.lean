/-
C17: construction and admissibility of the LC-tree / KHC-tree (`LCTree.h`, `KHCTree.h`), model
`buildPiv` / `pivTree` / `pivTrace` of `Model/NN.lean`.

Everything is proved for EVERY kernel `k`, data `P`, pivot choice `pick`, bucket size, depth limit and
fuel:

  * construction: the index list stays a permutation (`buildPiv_perm`), every inner node separates its
    two sides strictly by its threshold (`buildPiv_sep`), no leaf is empty (`buildPiv_leavesNE`), the
    recursion terminates on all inputs including duplicates (`buildPiv_fuel`: the result does not depend
    on the fuel once it is at least the number of points), every leaf holds at most `bucket` points or
    consists of points with one and the same projection (`buildPiv_bucket`);
  * query: the lower bounds `pivTrace` computes are admissible (`pivTrace_lbAdm`) for every kernel that
    satisfies Cauchy–Schwarz in feature space (`KernelCS`, proved for `dot` and `polyKernel 2 1` in
    `Lemmas/KernelCS.lean`) and has non-negative feature distances;
  * `pivTree_search_ready`: the trace tree of a freshly built tree satisfies all hypotheses of the search
    theorems of `Lemmas/NN*.lean`.
-/
import SharkVerif.Lemmas.KernelCS
import SharkVerif.Lemmas.Split
import SharkVerif.Lemmas.NN
import Mathlib.Algebra.Order.Field.Basic
namespace SharkVerif.NN

/-! ## Predicates on LC/KHC trees -/

/-- every inner node separates its two sides in the scaled projection -/
def PTree.Sep (k : Point → Point → Rat) (P : Nat → Point) : PTree → Prop
  | .leaf _ _ => True
  | .node _ pn thr l r =>
    (∀ i ∈ l.idx, projVal k P pn (P i) < thr) ∧ (∀ i ∈ r.idx, thr < projVal k P pn (P i)) ∧
      PTree.Sep k P l ∧ PTree.Sep k P r

def PTree.LeavesNE : PTree → Prop
  | .leaf _ ix => ix ≠ []
  | .node _ _ _ l r => PTree.LeavesNE l ∧ PTree.LeavesNE r

/-- a leaf holds at most `bucket` points, or all its points have the same projection for the pivot pair
the construction chooses for it (so that `splitList` cannot split it) -/
def PTree.LeafOK (k : Point → Point → Rat) (P : Nat → Point) (pick : List Nat → Nat × Nat) (bucket : Nat) :
    PTree → Prop
  | .leaf _ ix => ix.length ≤ bucket ∨
      ∀ i ∈ ix, ∀ j ∈ ix, projVal k P (pick ix) (P i) = projVal k P (pick ix) (P j)
  | .node _ _ _ l r => PTree.LeafOK k P pick bucket l ∧ PTree.LeafOK k P pick bucket r

/-- all points and all pivots of the tree are vectors of length `dim` -/
def PTree.Dim (P : Nat → Point) (dim : Nat) : PTree → Prop
  | .leaf _ ix => ∀ i ∈ ix, (P i).length = dim
  | .node _ pn _ l r => (P pn.1).length = dim ∧ (P pn.2).length = dim ∧ PTree.Dim P dim l ∧ PTree.Dim P dim r

theorem PTree.Dim.idx {P : Nat → Point} {dim : Nat} : ∀ {t : PTree}, t.Dim P dim → ∀ i ∈ t.idx, (P i).length = dim
  | .leaf _ _, h => h
  | .node _ _ _ l r, h => by
    obtain ⟨_, _, hl, hr⟩ := h
    intro i hi
    simp only [PTree.idx, List.mem_append] at hi
    rcases hi with hi | hi
    · exact hl.idx i hi
    · exact hr.idx i hi

theorem PTree.dim_of_all {P : Nat → Point} {dim : Nat} (hP : ∀ i, (P i).length = dim) : ∀ (t : PTree), t.Dim P dim
  | .leaf _ _ => fun i _ => hP i
  | .node _ _ _ l r => ⟨hP _, hP _, PTree.dim_of_all hP l, PTree.dim_of_all hP r⟩

/-! ## Unfolding `buildPiv` -/

/-- the three ways one call of `buildPiv` can end -/
theorem buildPiv_cases (k : Point → Point → Rat) (P : Nat → Point) (pick : List Nat → Nat × Nat) (bucket : Nat)
    (fuel depth : Nat) (idx : List Nat) :
    ((depth = 0 ∨ idx.length ≤ bucket) ∧ buildPiv k P pick bucket (fuel + 1) depth idx = .leaf 0 idx) ∨
    (¬ (depth = 0 ∨ idx.length ≤ bucket) ∧
      splitList (fun i => projVal k P (pick idx) (P i)) idx = none ∧
      buildPiv k P pick bucket (fuel + 1) depth idx = .leaf 0 idx) ∨
    (∃ s, ¬ (depth = 0 ∨ idx.length ≤ bucket) ∧
      splitList (fun i => projVal k P (pick idx) (P i)) idx = some s ∧
      buildPiv k P pick bucket (fuel + 1) depth idx =
        .node 0 (pick idx) s.thr (buildPiv k P pick bucket fuel (nextDepth depth) s.left)
          (buildPiv k P pick bucket fuel (nextDepth depth) s.right)) := by
  by_cases hc : depth = 0 ∨ idx.length ≤ bucket
  · left
    exact ⟨hc, by simp only [buildPiv, if_pos hc]⟩
  · right
    cases hs : splitList (fun i => projVal k P (pick idx) (P i)) idx with
    | none =>
      left
      refine ⟨hc, rfl, ?_⟩
      simp only [buildPiv, if_neg hc, hs]
    | some s =>
      right
      refine ⟨s, hc, rfl, ?_⟩
      simp only [buildPiv, if_neg hc, hs]

/-- a cell that is split holds at least two points -/
theorem two_le_of_not_leaf {depth bucket : Nat} {idx : List Nat} (hb : 1 ≤ bucket)
    (hc : ¬ (depth = 0 ∨ idx.length ≤ bucket)) : 2 ≤ idx.length := by
  have : ¬ idx.length ≤ bucket := fun h => hc (Or.inr h)
  omega

theorem nextDepth_ne_zero (d : Nat) : nextDepth d ≠ 0 := by
  unfold nextDepth normDepth
  split <;> omega

theorem normDepth_ne_zero (d : Nat) : normDepth d ≠ 0 := by
  unfold normDepth
  split <;> omega

theorem one_le_normBucket (b : Nat) : 1 ≤ normBucket b := by
  unfold normBucket
  split <;> omega

/-! ## Construction -/

/-- **indexList_perm**: the index list of the built tree is a permutation of the list it was built from -/
theorem buildPiv_perm (k : Point → Point → Rat) (P : Nat → Point) (pick : List Nat → Nat × Nat) (bucket : Nat) :
    ∀ (fuel depth : Nat) (idx : List Nat), (buildPiv k P pick bucket fuel depth idx).idx.Perm idx
  | 0, _, idx => by simp [buildPiv, PTree.idx]
  | fuel + 1, depth, idx => by
    rcases buildPiv_cases k P pick bucket fuel depth idx with ⟨_, e⟩ | ⟨_, _, e⟩ | ⟨s, _, hs, e⟩ <;> rw [e]
    · exact List.Perm.refl _
    · exact List.Perm.refl _
    · simp only [PTree.idx]
      exact (List.Perm.append (buildPiv_perm k P pick bucket fuel _ s.left)
        (buildPiv_perm k P pick bucket fuel _ s.right)).trans (splitList_perm hs)

theorem pivTree_perm (k : Point → Point → Rat) (P : Nat → Point) (pick : List Nat → Nat × Nat)
    (n md mb : Nat) : (pivTree k P pick n md mb).idx.Perm (List.range n) :=
  buildPiv_perm k P pick _ _ _ _

theorem buildPiv_mem (k : Point → Point → Rat) (P : Nat → Point) (pick : List Nat → Nat × Nat) (bucket : Nat)
    (fuel depth : Nat) (idx : List Nat) (i : Nat) :
    i ∈ (buildPiv k P pick bucket fuel depth idx).idx ↔ i ∈ idx :=
  (buildPiv_perm k P pick bucket fuel depth idx).mem_iff

/-- **separation**: at every inner node the left subtree lies strictly below the threshold and the right
subtree strictly above it (in the scaled projection onto the pivot line) -/
theorem buildPiv_sep (k : Point → Point → Rat) (P : Nat → Point) (pick : List Nat → Nat × Nat) {bucket : Nat}
    (hb : 1 ≤ bucket) : ∀ (fuel depth : Nat) (idx : List Nat), (buildPiv k P pick bucket fuel depth idx).Sep k P
  | 0, _, idx => by simp [buildPiv, PTree.Sep]
  | fuel + 1, depth, idx => by
    rcases buildPiv_cases k P pick bucket fuel depth idx with ⟨_, e⟩ | ⟨_, _, e⟩ | ⟨s, hc, hs, e⟩ <;> rw [e]
    · trivial
    · trivial
    · obtain ⟨sl, sr⟩ := splitList_sep (two_le_of_not_leaf hb hc) hs
      exact ⟨fun i hi => sl i ((buildPiv_mem k P pick bucket fuel _ s.left i).mp hi),
        fun i hi => sr i ((buildPiv_mem k P pick bucket fuel _ s.right i).mp hi),
        buildPiv_sep k P pick hb fuel _ s.left, buildPiv_sep k P pick hb fuel _ s.right⟩

/-- no leaf of the built tree is empty -/
theorem buildPiv_leavesNE (k : Point → Point → Rat) (P : Nat → Point) (pick : List Nat → Nat × Nat) {bucket : Nat}
    (hb : 1 ≤ bucket) : ∀ (fuel depth : Nat) (idx : List Nat), idx ≠ [] →
      (buildPiv k P pick bucket fuel depth idx).LeavesNE
  | 0, _, idx, h => by simpa [buildPiv, PTree.LeavesNE] using h
  | fuel + 1, depth, idx, h => by
    rcases buildPiv_cases k P pick bucket fuel depth idx with ⟨_, e⟩ | ⟨_, _, e⟩ | ⟨s, hc, hs, e⟩ <;> rw [e]
    · exact h
    · exact h
    · obtain ⟨nl, nr⟩ := splitList_nonempty (two_le_of_not_leaf hb hc) hs
      exact ⟨buildPiv_leavesNE k P pick hb fuel _ s.left nl, buildPiv_leavesNE k P pick hb fuel _ s.right nr⟩

/-- **termination on all inputs** (duplicates included): a cell whose projections are all equal becomes a
leaf and every successful split makes both parts strictly smaller, so the result is the same for every
fuel that is at least the number of points. -/
theorem buildPiv_fuel (k : Point → Point → Rat) (P : Nat → Point) (pick : List Nat → Nat × Nat) {bucket : Nat}
    (hb : 1 ≤ bucket) : ∀ (f1 f2 depth : Nat) (idx : List Nat), idx.length ≤ f1 → idx.length ≤ f2 →
      buildPiv k P pick bucket f1 depth idx = buildPiv k P pick bucket f2 depth idx
  | 0, 0, _, _, _, _ => rfl
  | 0, f2 + 1, depth, idx, h1, _ => by
    have hc : depth = 0 ∨ idx.length ≤ bucket := Or.inr (by omega)
    simp only [buildPiv, if_pos hc]
  | f1 + 1, 0, depth, idx, _, h2 => by
    have hc : depth = 0 ∨ idx.length ≤ bucket := Or.inr (by omega)
    simp only [buildPiv, if_pos hc]
  | f1 + 1, f2 + 1, depth, idx, h1, h2 => by
    rcases buildPiv_cases k P pick bucket f1 depth idx with ⟨hc, e⟩ | ⟨hc, hs, e⟩ | ⟨s, hc, hs, e⟩ <;> rw [e]
    · simp only [buildPiv, if_pos hc]
    · simp only [buildPiv, if_neg hc, hs]
    · obtain ⟨ll, lr⟩ := splitList_length_lt (two_le_of_not_leaf hb hc) hs
      simp only [buildPiv, if_neg hc, hs]
      rw [buildPiv_fuel k P pick hb f1 f2 _ s.left (by omega) (by omega),
        buildPiv_fuel k P pick hb f1 f2 _ s.right (by omega) (by omega)]

/-- the fuel `n + 1` of `pivTree` is never exhausted: any larger fuel builds the same tree -/
theorem pivTree_fuel (k : Point → Point → Rat) (P : Nat → Point) (pick : List Nat → Nat × Nat)
    (n md mb fuel : Nat) (h : n ≤ fuel) :
    buildPiv k P pick (normBucket mb) fuel (normDepth md) (List.range n) = pivTree k P pick n md mb := by
  unfold pivTree
  exact buildPiv_fuel k P pick (one_le_normBucket mb) _ _ _ _ (by simpa using h) (by simp)

/-- **bucket size**: with enough fuel every leaf holds at most `bucket` points, or it could not be split
because all its points have the same projection for the pivot pair chosen for it (the depth limit never
stops the construction: `nextDepth d ≠ 0`). -/
theorem buildPiv_bucket (k : Point → Point → Rat) (P : Nat → Point) (pick : List Nat → Nat × Nat) {bucket : Nat}
    (hb : 1 ≤ bucket) : ∀ (fuel depth : Nat) (idx : List Nat), idx.length ≤ fuel → depth ≠ 0 →
      (buildPiv k P pick bucket fuel depth idx).LeafOK k P pick bucket
  | 0, _, idx, h, _ => by
    have : idx.length ≤ bucket := by omega
    simp [buildPiv, PTree.LeafOK, this]
  | fuel + 1, depth, idx, h, hd => by
    rcases buildPiv_cases k P pick bucket fuel depth idx with ⟨hc, e⟩ | ⟨hc, hs, e⟩ | ⟨s, hc, hs, e⟩ <;> rw [e]
    · rcases hc with hc | hc
      · exact absurd hc hd
      · exact Or.inl hc
    · exact Or.inr ((splitList_none_iff (two_le_of_not_leaf hb hc)).mp hs)
    · obtain ⟨ll, lr⟩ := splitList_length_lt (two_le_of_not_leaf hb hc) hs
      exact ⟨buildPiv_bucket k P pick hb fuel _ s.left (by omega) (nextDepth_ne_zero _),
        buildPiv_bucket k P pick hb fuel _ s.right (by omega) (nextDepth_ne_zero _)⟩

theorem pivTree_bucket (k : Point → Point → Rat) (P : Nat → Point) (pick : List Nat → Nat × Nat)
    (n md mb : Nat) : (pivTree k P pick n md mb).LeafOK k P pick (normBucket mb) :=
  buildPiv_bucket k P pick (one_le_normBucket mb) _ _ _ (by simp) (normDepth_ne_zero md)

/-- all points and pivots of the built tree have length `dim`, provided the points of the start list
`idx0` have and the pivot choice picks such points for sublists of `idx0` (e.g. because it picks
members of the cell, `pick_dim_of_mem`). -/
theorem buildPiv_dim (k : Point → Point → Rat) {P : Nat → Point} {pick : List Nat → Nat × Nat} {bucket : Nat}
    (hb : 1 ≤ bucket) {dim : Nat} {idx0 : List Nat} (hP : ∀ i ∈ idx0, (P i).length = dim)
    (hpick : ∀ ix : List Nat, (∀ i ∈ ix, i ∈ idx0) → 2 ≤ ix.length →
      (P (pick ix).1).length = dim ∧ (P (pick ix).2).length = dim) :
    ∀ (fuel depth : Nat) (idx : List Nat), (∀ i ∈ idx, i ∈ idx0) →
      (buildPiv k P pick bucket fuel depth idx).Dim P dim
  | 0, _, idx, h => by
    simp only [buildPiv, PTree.Dim]
    exact fun i hi => hP i (h i hi)
  | fuel + 1, depth, idx, h => by
    rcases buildPiv_cases k P pick bucket fuel depth idx with ⟨_, e⟩ | ⟨_, _, e⟩ | ⟨s, hc, hs, e⟩ <;> rw [e]
    · exact fun i hi => hP i (h i hi)
    · exact fun i hi => hP i (h i hi)
    · obtain ⟨ml, mr⟩ := splitList_mem hs
      obtain ⟨p1, p2⟩ := hpick idx h (two_le_of_not_leaf hb hc)
      exact ⟨p1, p2, buildPiv_dim k hb hP hpick fuel _ s.left (fun i hi => h i (ml i hi)),
        buildPiv_dim k hb hP hpick fuel _ s.right (fun i hi => h i (mr i hi))⟩

/-- a pivot choice that picks members of the cell picks vectors of the right length -/
theorem pick_dim_of_mem {P : Nat → Point} {pick : List Nat → Nat × Nat} {dim : Nat} {idx0 : List Nat}
    (hP : ∀ i ∈ idx0, (P i).length = dim)
    (hmem : ∀ ix : List Nat, 2 ≤ ix.length → (pick ix).1 ∈ ix ∧ (pick ix).2 ∈ ix) :
    ∀ ix : List Nat, (∀ i ∈ ix, i ∈ idx0) → 2 ≤ ix.length →
      (P (pick ix).1).length = dim ∧ (P (pick ix).2).length = dim := by
  intro ix hix h2
  obtain ⟨m1, m2⟩ := hmem ix h2
  exact ⟨hP _ (hix _ m1), hP _ (hix _ m2)⟩

/-! ## The pivot choice of the C++ (`calculateNormal`) picks members of the cell -/

theorem farLoopJ_mem (S : Nat → Prop) (fd : Nat → Nat → Rat) (xi : Nat) (hxi : S xi) :
    ∀ (js : List Nat) (acc : Rat × Nat × Nat), (∀ j ∈ js, S j) → S acc.2.1 ∧ S acc.2.2 →
      S (farLoopJ fd xi js acc).2.1 ∧ S (farLoopJ fd xi js acc).2.2
  | [], _, _, h => h
  | xj :: js, acc, hjs, h => by
    simp only [farLoopJ]
    apply farLoopJ_mem S fd xi hxi js _ (fun j hj => hjs j (List.mem_cons_of_mem _ hj))
    split
    · exact ⟨hxi, hjs xj (List.mem_cons_self ..)⟩
    · exact h

theorem farLoopI_mem (S : Nat → Prop) (fd : Nat → Nat → Rat) :
    ∀ (rest before : List Nat) (acc : Rat × Nat × Nat), (∀ j ∈ before, S j) → (∀ j ∈ rest, S j) →
      S acc.2.1 ∧ S acc.2.2 → S (farLoopI fd before rest acc).2.1 ∧ S (farLoopI fd before rest acc).2.2
  | [], _, _, _, _, h => h
  | xi :: rest, before, acc, hb, hr, h => by
    simp only [farLoopI]
    have hxi : S xi := hr xi (List.mem_cons_self ..)
    apply farLoopI_mem S fd rest
    · intro j hj
      rcases List.mem_append.mp hj with hj | hj
      · exact hb j hj
      · rw [List.mem_singleton.mp hj]
        exact hxi
    · exact fun j hj => hr j (List.mem_cons_of_mem _ hj)
    · exact farLoopJ_mem S fd xi hxi before acc hb h

theorem farthestPair_mem (fd : Nat → Nat → Rat) {idx : List Nat} (h : idx ≠ []) :
    (farthestPair fd idx).1 ∈ idx ∧ (farthestPair fd idx).2 ∈ idx := by
  cases idx with
  | nil => exact absurd rfl h
  | cons x0 rest =>
    simp only [farthestPair]
    exact farLoopI_mem (fun j => j ∈ x0 :: rest) fd rest [x0] _
      (fun j hj => by rw [List.mem_singleton.mp hj]; exact List.mem_cons_self ..)
      (fun j hj => List.mem_cons_of_mem _ hj) ⟨List.mem_cons_self .., List.mem_cons_self ..⟩

theorem samples25_spec {idx : List Nat} (h : idx ≠ []) :
    samples25 idx ≠ [] ∧ ∀ x ∈ samples25 idx, x ∈ idx := by
  unfold samples25
  split
  · exact ⟨h, fun _ hx => hx⟩
  · rename_i hl
    refine ⟨?_, ?_⟩
    · intro hm
      have := congrArg List.length hm
      simp at this
    · intro x hx
      obtain ⟨i, hi, rfl⟩ := List.mem_map.mp hx
      have hi' : i < 25 := List.mem_range.mp hi
      have hlt : idx.length * (2 * i + 1) / 50 < idx.length := by
        rw [Nat.div_lt_iff_lt_mul (by omega)]
        exact Nat.mul_lt_mul_of_pos_left (by omega) (by omega)
      have e : idx.getD (idx.length * (2 * i + 1) / 50) 0 = idx[idx.length * (2 * i + 1) / 50] := by
        simp [List.getD_eq_getElem?_getD, List.getElem?_eq_getElem hlt]
      rw [e]
      exact List.getElem_mem _

/-- `calculateNormal` (farthest pair of at most 25 samples) picks two points of the cell -/
theorem pickFar_mem (k : Point → Point → Rat) (P : Nat → Point) (ix : List Nat) (h : 2 ≤ ix.length) :
    (pickFar k P ix).1 ∈ ix ∧ (pickFar k P ix).2 ∈ ix := by
  have hne : ix ≠ [] := by
    intro h0
    rw [h0] at h
    simp at h
  obtain ⟨s1, s2⟩ := samples25_spec hne
  obtain ⟨m1, m2⟩ := farthestPair_mem (fun i j => featureDist2 k (P i) (P j)) s1
  exact ⟨s2 _ m1, s2 _ m2⟩

/-! ## The trace tree: points, freshness, leaves -/

theorem qpts_leafEntries (pq : Bool) (dist : Nat → Rat) (rank : Nat) (ix : List Nat) :
    qpts (leafEntries pq dist rank ix) = ix := by
  cases pq
  · simp [leafEntries, qpts]
  · simp only [leafEntries, if_true, qpts]
    induction ix with
    | nil => rfl
    | cons i ix ih => simp only [List.map_cons, List.flatMap_cons, ih, List.singleton_append]

theorem pivTrace_pts (pq : Bool) (k : Point → Point → Rat) (P : Nat → Point) (q : Point) (dist : Nat → Rat) :
    ∀ (t : PTree) (acc : Rat), (pivTrace pq k P q dist t acc).pts = t.idx
  | .leaf rank ix, acc => by simp only [pivTrace, TTree.pts, PTree.idx, qpts_leafEntries]
  | .node _ pn thr l r, acc => by
    simp only [pivTrace, TTree.pts, PTree.idx, pivTrace_pts pq k P q dist l, pivTrace_pts pq k P q dist r]

theorem pivTrace_fresh (pq : Bool) (k : Point → Point → Rat) (P : Nat → Point) (q : Point) (dist : Nat → Rat) :
    ∀ (t : PTree) (acc : Rat), Fresh (pivTrace pq k P q dist t acc)
  | .leaf _ _, _ => rfl
  | .node _ _ _ l r, _ => ⟨rfl, pivTrace_fresh pq k P q dist l _, pivTrace_fresh pq k P q dist r _⟩

theorem leafEntries_nonempty (pq : Bool) (dist : Nat → Rat) (rank : Nat) {ix : List Nat} (h : ix ≠ []) :
    leafEntries pq dist rank ix ≠ [] ∧ ∀ e ∈ leafEntries pq dist rank ix, e.pts ≠ [] := by
  cases pq
  · simp [leafEntries, h]
  · simp only [leafEntries, if_true]
    refine ⟨by simpa using h, ?_⟩
    intro e he
    obtain ⟨i, _, rfl⟩ := List.mem_map.mp he
    simp

theorem pivTrace_leavesNonempty (pq : Bool) (k : Point → Point → Rat) (P : Nat → Point) (q : Point)
    (dist : Nat → Rat) : ∀ (t : PTree) (acc : Rat), t.LeavesNE → LeavesNonempty (pivTrace pq k P q dist t acc)
  | .leaf rank _, _, h => leafEntries_nonempty pq dist rank h
  | .node _ _ _ l r, _, h =>
    ⟨pivTrace_leavesNonempty pq k P q dist l _ h.1, pivTrace_leavesNonempty pq k P q dist r _ h.2⟩

/-- with the point queue every queue entry carries the distance of its (single) point -/
theorem pivTrace_leafUniform_pq (k : Point → Point → Rat) (P : Nat → Point) (q : Point) (dist : Nat → Rat) :
    ∀ (t : PTree) (acc : Rat), LeafUniform dist (pivTrace true k P q dist t acc)
  | .leaf _ _, _ => by
    simp only [pivTrace, LeafUniform, leafEntries, if_true]
    intro e he p hp
    obtain ⟨i, _, rfl⟩ := List.mem_map.mp he
    simp only [List.mem_singleton] at hp
    rw [hp]
  | .node _ _ _ l r, _ =>
    ⟨pivTrace_leafUniform_pq k P q dist l _, pivTrace_leafUniform_pq k P q dist r _⟩

/-! ## Admissibility of the lower bounds -/

theorem maxRat_le {a b c : Rat} (ha : a ≤ c) (hb : b ≤ c) : maxRat a b ≤ c := by
  unfold maxRat
  split <;> assumption

theorem le_maxRat_left (a b : Rat) : a ≤ maxRat a b := by
  unfold maxRat
  split
  · exact le_of_lt ‹_›
  · exact le_refl _

/-- arithmetic core: `0 < v < w`, `w^2 ≤ D d`, `0 ≤ d` give `0 < D` and `v^2 / D ≤ d` -/
theorem sq_div_le_of_cs {v w D d : Rat} (hv : 0 < v) (hvw : v < w) (hd : 0 ≤ d) (h : w * w ≤ D * d) :
    0 < D ∧ v * v / D ≤ d := by
  have h1 : v * v < w * w := by nlinarith
  have h2 : 0 < D * d := by linarith [mul_pos hv hv]
  have hd' : 0 < d := by
    rcases hd.lt_or_eq with h | h
    · exact h
    · rw [← h] at h2
      simp at h2
  have hD : 0 < D := by
    by_contra hn
    have : D * d ≤ 0 := by nlinarith [not_lt.mp hn]
    linarith
  refine ⟨hD, ?_⟩
  rw [div_le_iff₀ hD]
  linarith

/-- a point on the left of the cutting plane, the query on the right at signed (scaled) distance `v > 0`:
the squared plane distance `v^2 / D` bounds the squared feature distance from below -/
theorem piv_bound_left {k : Point → Point → Rat} {P : Nat → Point} {q x : Point} {dim : Nat} (hcs : KernelCS k dim)
    (hq : q.length = dim) (hx : x.length = dim) {pn : Nat × Nat} (hp1 : (P pn.1).length = dim)
    (hp2 : (P pn.2).length = dim) {thr : Rat} (hlt : projVal k P pn x < thr) (hv : 0 < projVal k P pn q - thr)
    (hnn : 0 ≤ featureDist2 k x q) :
    0 < pivD k P pn ∧
    (projVal k P pn q - thr) * (projVal k P pn q - thr) / pivD k P pn ≤ featureDist2 k x q := by
  have h := hcs (P pn.1) (P pn.2) x q hp1 hp2 hx hq
  apply sq_div_le_of_cs (w := projVal k P pn q - projVal k P pn x) hv (by linarith) hnn
  unfold projVal pivD
  calc (k (P pn.1) q - k (P pn.2) q - (k (P pn.1) x - k (P pn.2) x)) *
        (k (P pn.1) q - k (P pn.2) q - (k (P pn.1) x - k (P pn.2) x))
      = (k (P pn.1) x - k (P pn.1) q - k (P pn.2) x + k (P pn.2) q) *
        (k (P pn.1) x - k (P pn.1) q - k (P pn.2) x + k (P pn.2) q) := by ring
    _ ≤ _ := h

/-- the mirror image: the point on the right, the query on the left (`v < 0`) -/
theorem piv_bound_right {k : Point → Point → Rat} {P : Nat → Point} {q x : Point} {dim : Nat} (hcs : KernelCS k dim)
    (hq : q.length = dim) (hx : x.length = dim) {pn : Nat × Nat} (hp1 : (P pn.1).length = dim)
    (hp2 : (P pn.2).length = dim) {thr : Rat} (hgt : thr < projVal k P pn x) (hv : projVal k P pn q - thr < 0)
    (hnn : 0 ≤ featureDist2 k x q) :
    0 < pivD k P pn ∧
    (projVal k P pn q - thr) * (projVal k P pn q - thr) / pivD k P pn ≤ featureDist2 k x q := by
  have h := hcs (P pn.1) (P pn.2) x q hp1 hp2 hx hq
  have key := sq_div_le_of_cs (v := -(projVal k P pn q - thr)) (w := projVal k P pn x - projVal k P pn q)
    (D := pivD k P pn) (d := featureDist2 k x q) (by linarith) (by linarith) hnn (by
      unfold projVal pivD
      calc (k (P pn.1) x - k (P pn.2) x - (k (P pn.1) q - k (P pn.2) q)) *
            (k (P pn.1) x - k (P pn.2) x - (k (P pn.1) q - k (P pn.2) q))
          = (k (P pn.1) x - k (P pn.1) q - k (P pn.2) x + k (P pn.2) q) *
            (k (P pn.1) x - k (P pn.1) q - k (P pn.2) x + k (P pn.2) q) := by ring
        _ ≤ _ := h)
  rw [neg_mul_neg] at key
  exact key

/-- **the LC/KHC lower bounds are admissible.**  For a kernel with Cauchy–Schwarz in feature space, a tree
whose inner nodes separate their sides (`buildPiv_sep`), vectors of one length, non-negative feature
distances `dist i = featureDist2 k (P i) q`, and a start bound `acc` that is admissible for the whole
tree: every bound stored in the trace tree is at most the distance of every point below it. -/
theorem pivTrace_lbAdm (pq : Bool) {k : Point → Point → Rat} {P : Nat → Point} {q : Point} {dim : Nat}
    {dist : Nat → Rat} (hcs : KernelCS k dim) (hq : q.length = dim) :
    ∀ (t : PTree) (acc : Rat), t.Dim P dim → t.Sep k P →
      (∀ i ∈ t.idx, dist i = featureDist2 k (P i) q) → (∀ i ∈ t.idx, 0 ≤ dist i) →
      (∀ i ∈ t.idx, acc ≤ dist i) → LbAdm dist (pivTrace pq k P q dist t acc)
  | .leaf rank ix, acc, _, _, _, _, hacc => by
    simp only [pivTrace, LbAdm, qpts_leafEntries]
    exact hacc
  | .node rk pn thr l r, acc, hdim, hsep, hdist, hnn, hacc => by
    obtain ⟨hp1, hp2, hdl, hdr⟩ := hdim
    obtain ⟨hsl, hsr, hsepl, hsepr⟩ := hsep
    simp only [PTree.idx, List.mem_append] at hdist hnn hacc
    simp only [pivTrace]
    refine ⟨?_, pivTrace_lbAdm pq hcs hq l _ hdl hsepl (fun i hi => hdist i (Or.inl hi))
        (fun i hi => hnn i (Or.inl hi)) ?_,
      pivTrace_lbAdm pq hcs hq r _ hdr hsepr (fun i hi => hdist i (Or.inr hi))
        (fun i hi => hnn i (Or.inr hi)) ?_⟩
    · intro p hp
      rw [pivTrace_pts, pivTrace_pts] at hp
      exact hacc p (List.mem_append.mp hp)
    · intro i hi
      simp only [pivChildBounds]
      split
      · rename_i hv
        refine maxRat_le (hacc i (Or.inl hi)) ?_
        have hn := hnn i (Or.inl hi)
        rw [hdist i (Or.inl hi)] at hn ⊢
        exact (piv_bound_left hcs hq (hdl.idx i hi) hp1 hp2 (hsl i hi) hv hn).2
      · exact hacc i (Or.inl hi)
    · intro i hi
      simp only [pivChildBounds]
      split
      · rename_i hv
        refine maxRat_le (hacc i (Or.inr hi)) ?_
        have hn := hnn i (Or.inr hi)
        rw [hdist i (Or.inr hi)] at hn ⊢
        exact (piv_bound_right hcs hq (hdr.idx i hi) hp1 hp2 (hsr i hi) hv hn).2
      · exact hacc i (Or.inr hi)

/-! ## End to end -/

/-- **A freshly built LC/KHC tree is ready for the search theorems.**  For every kernel with
Cauchy–Schwarz and non-negative feature distances, every pivot choice that yields vectors of the right
length, every bucket size and depth limit, both queue variants: the trace tree of `pivTree` for the query
`q` is fresh, its lower bounds are admissible, no leaf is empty, and it holds exactly the points
`0 .. n-1`. -/
theorem pivTree_search_ready (pq : Bool) {k : Point → Point → Rat} {P : Nat → Point}
    {pick : List Nat → Nat × Nat} {q : Point} {dim : Nat} {dist : Nat → Rat} (n md mb : Nat) (hn : 0 < n)
    (hcs : KernelCS k dim) (hq : q.length = dim) (hP : ∀ i < n, (P i).length = dim)
    (hpick : ∀ ix : List Nat, (∀ i ∈ ix, i < n) → 2 ≤ ix.length →
      (P (pick ix).1).length = dim ∧ (P (pick ix).2).length = dim)
    (hdist : ∀ i < n, dist i = featureDist2 k (P i) q) (hnn : ∀ i < n, 0 ≤ dist i) :
    Fresh (pivTrace pq k P q dist (pivTree k P pick n md mb) 0) ∧
    LbAdm dist (pivTrace pq k P q dist (pivTree k P pick n md mb) 0) ∧
    LeavesNonempty (pivTrace pq k P q dist (pivTree k P pick n md mb) 0) ∧
    (pivTrace pq k P q dist (pivTree k P pick n md mb) 0).pts.Perm (List.range n) := by
  have hb := one_le_normBucket mb
  have hmem : ∀ i ∈ (pivTree k P pick n md mb).idx, i < n := fun i hi =>
    List.mem_range.mp ((pivTree_perm k P pick n md mb).mem_iff.mp hi)
  have hdim : (pivTree k P pick n md mb).Dim P dim :=
    buildPiv_dim k hb (idx0 := List.range n) (fun i hi => hP i (List.mem_range.mp hi))
      (fun ix hix h2 => hpick ix (fun i hi => List.mem_range.mp (hix i hi)) h2) _ _ _ (fun _ h => h)
  refine ⟨pivTrace_fresh pq k P q dist _ _, ?_, ?_, ?_⟩
  · exact pivTrace_lbAdm pq hcs hq _ _ hdim (buildPiv_sep k P pick hb _ _ _)
      (fun i hi => hdist i (hmem i hi)) (fun i hi => hnn i (hmem i hi)) (fun i hi => hnn i (hmem i hi))
  · apply pivTrace_leavesNonempty
    apply buildPiv_leavesNE k P pick hb
    intro h
    have := congrArg List.length h
    simp at this
    omega
  · rw [pivTrace_pts]
    exact pivTree_perm k P pick n md mb

/-- LC-tree / KHC-tree with the linear kernel: squared Euclidean distances, pivots among the cell's points -/
theorem lcTree_search_ready (pq : Bool) {P : Nat → Point} {pick : List Nat → Nat × Nat} {q : Point}
    {dim : Nat} (n md mb : Nat) (hn : 0 < n) (hq : q.length = dim) (hP : ∀ i < n, (P i).length = dim)
    (hmem : ∀ ix : List Nat, 2 ≤ ix.length → (pick ix).1 ∈ ix ∧ (pick ix).2 ∈ ix) :
    Fresh (pivTrace pq dot P q (fun i => dist2 (P i) q) (pivTree dot P pick n md mb) 0) ∧
    LbAdm (fun i => dist2 (P i) q) (pivTrace pq dot P q (fun i => dist2 (P i) q) (pivTree dot P pick n md mb) 0) ∧
    LeavesNonempty (pivTrace pq dot P q (fun i => dist2 (P i) q) (pivTree dot P pick n md mb) 0) ∧
    (pivTrace pq dot P q (fun i => dist2 (P i) q) (pivTree dot P pick n md mb) 0).pts.Perm (List.range n) := by
  have hd : ∀ i < n, dist2 (P i) q = featureDist2 dot (P i) q := fun i hi =>
    (featureDist2_dot_eq_dist2 _ _ (by rw [hP i hi, hq])).symm
  apply pivTree_search_ready pq n md mb hn (kernelCS_dot dim) hq hP
  · intro ix hix h2
    obtain ⟨m1, m2⟩ := hmem ix h2
    exact ⟨hP _ (hix _ m1), hP _ (hix _ m2)⟩
  · exact hd
  · intro i hi
    show 0 ≤ dist2 (P i) q
    rw [hd i hi]
    exact featureDist2_dot_nonneg _ _ (by rw [hP i hi, hq])

/-- KHC-tree with `PolynomialKernel(2, 1)` (the kernel of the check), pivots among the cell's points -/
theorem khcTree_poly21_search_ready (pq : Bool) {P : Nat → Point} {pick : List Nat → Nat × Nat} {q : Point}
    {dim : Nat} (n md mb : Nat) (hn : 0 < n) (hq : q.length = dim) (hP : ∀ i < n, (P i).length = dim)
    (hmem : ∀ ix : List Nat, 2 ≤ ix.length → (pick ix).1 ∈ ix ∧ (pick ix).2 ∈ ix) :
    Fresh (pivTrace pq (polyKernel 2 1) P q (fun i => featureDist2 (polyKernel 2 1) (P i) q)
      (pivTree (polyKernel 2 1) P pick n md mb) 0) ∧
    LbAdm (fun i => featureDist2 (polyKernel 2 1) (P i) q)
      (pivTrace pq (polyKernel 2 1) P q (fun i => featureDist2 (polyKernel 2 1) (P i) q)
        (pivTree (polyKernel 2 1) P pick n md mb) 0) ∧
    LeavesNonempty (pivTrace pq (polyKernel 2 1) P q (fun i => featureDist2 (polyKernel 2 1) (P i) q)
      (pivTree (polyKernel 2 1) P pick n md mb) 0) ∧
    (pivTrace pq (polyKernel 2 1) P q (fun i => featureDist2 (polyKernel 2 1) (P i) q)
      (pivTree (polyKernel 2 1) P pick n md mb) 0).pts.Perm (List.range n) := by
  apply pivTree_search_ready pq n md mb hn (kernelCS_poly21 dim) hq hP
  · intro ix hix h2
    obtain ⟨m1, m2⟩ := hmem ix h2
    exact ⟨hP _ (hix _ m1), hP _ (hix _ m2)⟩
  · intro i _
    rfl
  · intro i hi
    exact featureDist2_poly21_nonneg _ _ (by rw [hP i hi, hq])

/-- the LC-tree as the C++ builds it (pivots = `calculateNormal` on the cell, `pickFar`) -/
theorem lcTree_pickFar_search_ready (pq : Bool) {P : Nat → Point} {q : Point} {dim : Nat} (n md mb : Nat)
    (hn : 0 < n) (hq : q.length = dim) (hP : ∀ i < n, (P i).length = dim) :
    Fresh (pivTrace pq dot P q (fun i => dist2 (P i) q) (pivTree dot P (pickFar dot P) n md mb) 0) ∧
    LbAdm (fun i => dist2 (P i) q)
      (pivTrace pq dot P q (fun i => dist2 (P i) q) (pivTree dot P (pickFar dot P) n md mb) 0) ∧
    LeavesNonempty (pivTrace pq dot P q (fun i => dist2 (P i) q) (pivTree dot P (pickFar dot P) n md mb) 0) ∧
    (pivTrace pq dot P q (fun i => dist2 (P i) q) (pivTree dot P (pickFar dot P) n md mb) 0).pts.Perm
      (List.range n) :=
  lcTree_search_ready pq n md mb hn hq hP (pickFar_mem dot P)

/-- the KHC-tree with `PolynomialKernel(2, 1)` as the C++ builds it (pivots = `pickFar`) -/
theorem khcTree_poly21_pickFar_search_ready (pq : Bool) {P : Nat → Point} {q : Point} {dim : Nat} (n md mb : Nat)
    (hn : 0 < n) (hq : q.length = dim) (hP : ∀ i < n, (P i).length = dim) :
    Fresh (pivTrace pq (polyKernel 2 1) P q (fun i => featureDist2 (polyKernel 2 1) (P i) q)
      (pivTree (polyKernel 2 1) P (pickFar (polyKernel 2 1) P) n md mb) 0) ∧
    LbAdm (fun i => featureDist2 (polyKernel 2 1) (P i) q)
      (pivTrace pq (polyKernel 2 1) P q (fun i => featureDist2 (polyKernel 2 1) (P i) q)
        (pivTree (polyKernel 2 1) P (pickFar (polyKernel 2 1) P) n md mb) 0) ∧
    LeavesNonempty (pivTrace pq (polyKernel 2 1) P q (fun i => featureDist2 (polyKernel 2 1) (P i) q)
      (pivTree (polyKernel 2 1) P (pickFar (polyKernel 2 1) P) n md mb) 0) ∧
    (pivTrace pq (polyKernel 2 1) P q (fun i => featureDist2 (polyKernel 2 1) (P i) q)
      (pivTree (polyKernel 2 1) P (pickFar (polyKernel 2 1) P) n md mb) 0).pts.Perm (List.range n) :=
  khcTree_poly21_search_ready pq n md mb hn hq hP (pickFar_mem (polyKernel 2 1) P)

end SharkVerif.NN

