/-
Helper lemmas for C10 (Props/C10.lean): the backtracking loop, Rprop's
coordinate loop, list plumbing.
-/
import SharkVerif.Model.GradOpt
import Mathlib.Tactic.Linarith
import Mathlib.Tactic.Positivity
namespace SharkVerif.Opt

variable {α : Type} [Scalar α]

/-! ### backtracking loop -/

/-- whatever the loop accepts was evaluated at `point + t'·dir` and passed the Armijo test -/
theorem backtrackGo_some (o : Objective α) (point dir : Vec α) (value gtd : α) :
    ∀ (fuel : Nat) (t t' fnew : α) (gnew : Vec α),
      backtrackGo o point dir value gtd fuel t = some (t', fnew, gnew) →
      fnew = o.f (Vec.axpy point t' dir) ∧ gnew = o.grad (Vec.axpy point t' dir) ∧
      fnew < value + Scalar.ofRat (1/10000) * t' * gtd := by
  intro fuel
  induction fuel with
  | zero => intro t t' fnew gnew h; simp [backtrackGo] at h
  | succ k ih =>
    intro t t' fnew gnew h
    unfold backtrackGo at h
    simp only at h
    split at h
    · next hlt =>
      simp only [Option.some.injEq, Prod.mk.injEq] at h
      obtain ⟨rfl, rfl, rfl⟩ := h
      exact ⟨rfl, rfl, hlt⟩
    · exact ih _ _ _ _ h

/-- over `Rat`: the accepted step length is a non-negative multiple of the initial one -/
theorem backtrackGo_step_nonneg (o : Objective Rat) (point dir : Vec Rat) (value gtd : Rat) :
    ∀ (fuel : Nat) (t t' fnew : Rat) (gnew : Vec Rat), 0 ≤ t →
      backtrackGo o point dir value gtd fuel t = some (t', fnew, gnew) → 0 ≤ t' := by
  intro fuel
  induction fuel with
  | zero => intro t t' fnew gnew _ h; simp [backtrackGo] at h
  | succ k ih =>
    intro t t' fnew gnew ht h
    unfold backtrackGo at h
    simp only at h
    split at h
    · simp only [Option.some.injEq, Prod.mk.injEq] at h
      obtain ⟨rfl, -, -⟩ := h
      exact ht
    · refine ih _ _ _ _ ?_ h
      simp only [Scalar.half, Scalar.ofRat]
      positivity

/-! ### list plumbing -/

theorem set_set_getD_self {β : Type} (l : List β) (i : Nat) (x z : β) :
    (l.set i x).set i (l.getD i z) = l := by
  by_cases h : i < l.length
  · rw [List.set_set]
    have : l.getD i z = l[i] := by simp [List.getD, h]
    rw [this]; exact List.set_getElem_self h
  · have h' : l.length ≤ i := Nat.le_of_not_lt h
    rw [List.set_eq_of_length_le (by simpa using h'), List.set_eq_of_length_le h']

/-! ### Rprop coordinate loop keeps the point feasible -/

theorem Rprop.coord_feasible (o : Objective α) (s : Rprop α) (l : Rprop.Loop α) (i : Nat)
    (h : o.feasible l.point = true) : o.feasible (Rprop.coord o s l i).point = true := by
  unfold Rprop.coord
  generalize Rprop.coordChoice s l i = r
  simp only
  split
  · next hf => exact hf
  · simp only [Vec.get]
    rw [set_set_getD_self]
    exact h

theorem Rprop.fold_feasible (o : Objective α) (s : Rprop α) (is : List Nat) :
    ∀ (l : Rprop.Loop α), o.feasible l.point = true →
      o.feasible (is.foldl (Rprop.coord o s) l).point = true := by
  induction is with
  | nil => intro l h; exact h
  | cons i is ih => intro l h; exact ih _ (Rprop.coord_feasible o s l i h)

end SharkVerif.Opt
