/-
Indexed batch subsets and their complements (`Data::indexedSubset`, `detail::complement`,
`CVFolds::trainingFoldIndices`).
-/
import SharkVerif.Lemmas.Dataset
namespace SharkVerif.Dataset

variable {ε : Type}

/-- `indexedSubset`: batch j of the result is batch `indices[j]` of the source; shape kept -/
theorem indexedSubset_batches' (d d' : Data ε) (idx : List Nat) (h : d.indexedSubset idx = .ok d') :
    d'.batches.map some = idx.map (d.batches[·]?) ∧ d'.shape = d.shape := by
  simp only [Data.indexedSubset, bind_ok, pure_ok] at h
  obtain ⟨bs, hbs, rfl⟩ := h
  refine ⟨?_, rfl⟩
  simp only
  induction idx generalizing bs with
  | nil => simp [List.mapM_nil, pure, Except.pure] at hbs; simp [← hbs]
  | cons i idx ih =>
    simp only [List.mapM_cons, bind_ok, ofOpt_ok, pure_ok] at hbs
    obtain ⟨b, hb, bs', hbs', rfl⟩ := hbs
    simp [hb, ih bs' hbs']

/-- **training_is_complement**: for every index set `v` the training indices `complement v n` contain exactly
the batch indices below n that are not in `v`, each once, in ascending order -/
theorem complement_spec (v : List Nat) (n : Nat) :
    (∀ i, i ∈ Data.complement v n ↔ (i < n ∧ i ∉ v)) ∧ (Data.complement v n).Nodup := by
  refine ⟨fun i => ?_, ?_⟩
  · simp [Data.complement, List.mem_filter, List.mem_range]
  · exact List.Nodup.sublist List.filter_sublist List.nodup_range

/-- validation ∪ training is a permutation of all batch indices (for duplicate-free validation sets) -/
theorem subset_complement_indices (v : List Nat) (n : Nat) (hv : v.Nodup) (hlt : ∀ i ∈ v, i < n) :
    (v ++ Data.complement v n).Perm (List.range n) := by
  apply (List.perm_ext_iff_of_nodup ?_ List.nodup_range).mpr
  · intro i
    have := (complement_spec v n).1 i
    simp only [List.mem_append, List.mem_range, this]
    constructor
    · rintro (h | h)
      · exact hlt i h
      · exact h.1
    · intro h
      by_cases hi : i ∈ v
      · exact Or.inl hi
      · exact Or.inr ⟨h, hi⟩
  · apply List.nodup_append.mpr
    refine ⟨hv, (complement_spec v n).2, ?_⟩
    intro a ha b hb hab
    subst hab
    exact ((complement_spec v n).1 a).mp hb |>.2 ha

/-- the elements of an indexed subset: the listed batches, in the listed order -/
theorem indexedSubset_flat (d d' : Data ε) (idx : List Nat) (h : d.indexedSubset idx = .ok d') :
    d'.flat = idx.flatMap (fun i => d.batches.getD i []) ∧ ∀ i ∈ idx, i < d.numberOfBatches := by
  have hb := (indexedSubset_batches' d d' idx h).1
  simp only [Data.flat]
  generalize d'.batches = bs at hb
  clear h
  induction idx generalizing bs with
  | nil => simp at hb; simp [hb]
  | cons i idx ih =>
    cases bs with
    | nil => simp at hb
    | cons b bs =>
      simp only [List.map_cons, List.cons.injEq] at hb
      obtain ⟨hi, hrest⟩ := hb
      obtain ⟨h1, h2⟩ := ih bs hrest
      have hlt : i < d.batches.length := by
        rcases Nat.lt_or_ge i d.batches.length with hlt | hge
        · exact hlt
        · rw [List.getElem?_eq_none hge] at hi; simp at hi
      refine ⟨?_, ?_⟩
      · simp only [List.flatten_cons, List.flatMap_cons, h1]
        congr 1
        rw [List.getD_eq_getElem?_getD, ← hi]; rfl
      · intro j hj
        simp only [List.mem_cons] at hj
        rcases hj with rfl | hj
        · exact hlt
        · exact h2 j hj

theorem flatMap_range_getD (l : List (List ε)) : (List.range l.length).flatMap (fun i => l.getD i []) = l.flatten := by
  have : (List.range l.length).map (fun i => l.getD i []) = l := by
    apply List.ext_getElem?
    intro i
    by_cases hi : i < l.length
    · simp [hi, List.getD_eq_getElem?_getD]
    · simp [hi]
  rw [List.flatMap_def, this]

/-- **validation ∪ training = everything** at the element level: for a duplicate-free validation batch set
the elements of the validation part and of the training part (its complement) together are a permutation of
the elements of the reorganised dataset — nothing lost, nothing duplicated -/
theorem subset_complement_elements (d v t : Data ε) (idx : List Nat) (hnd : idx.Nodup)
    (hv : d.indexedSubset idx = .ok v) (ht : d.indexedSubset (Data.complement idx d.numberOfBatches) = .ok t) :
    (v.flat ++ t.flat).Perm d.flat := by
  obtain ⟨hvf, hlt⟩ := indexedSubset_flat d v idx hv
  obtain ⟨htf, _⟩ := indexedSubset_flat d t _ ht
  rw [hvf, htf, ← List.flatMap_append]
  have hp := subset_complement_indices idx d.numberOfBatches hnd hlt
  have := (hp.map (fun i => d.batches.getD i [])).flatten
  simp only [← List.flatMap_def] at this
  refine this.trans ?_
  rw [Data.numberOfBatches, flatMap_range_getD]
  exact List.Perm.refl _

end SharkVerif.Dataset
