/-
The bias loop of the multi-class trainers (`BiasSolver::solve`, QpMcBoxDecomp.h) as far as it is logic:
whatever sequence of inner solves (`QpSolver::solve`) and bias steps (`performBiasUpdate`) the Rprop rule produces,

* all invariants of the decomposition state keep holding (`bias_history_invariants`), and
* the linear part of the dual problem is the original one shifted by the ACCUMULATED bias:
  `lin(i,p) = linMat(i,p) − Σ_{entries of nu.row(y_i·P+p)} value · b(index)` with `b = Σ steps`
  (`bias_history_linear_part`): the inner problem is always the fixed-bias dual of the bias the solver reports.

`LinInv`: the stored linear part, read through the example/variable tables, is a fixed matrix `L` by ORIGINAL
example index — preserved by every operation (shrinking renumbers variables and examples, `label(i)`/`deltaLinear`
are indexed by the original index: this is where finding F-C16-1 lived).
-/
import SharkVerif.Lemmas.McSolve
import SharkVerif.Model.McBias
namespace SharkVerif.Mc
open Finset Grad

/-- the linear part as a matrix by ORIGINAL example index and `p` -/
def LinInv (s : McBox Rat) (L : Nat → Nat → Rat) : Prop :=
  ∀ v < s.P * s.n, s.lin v = L (s.ex (s.vars v).i).index (s.vars v).p

theorem linInv_init (c P n : Nat) (C : Rat) (M : Nat → Row Rat) (K : Nat → Nat → Rat) (labels : Nat → Nat)
    (linMat : Nat → Nat → Rat) : LinInv (McBox.init c P n C M K labels linMat) linMat := fun _ _ => rfl

theorem linInv_updateSMO (s : McBox Rat) (L : Nat → Nat → Rat) (h : LinInv s L) (v w : Nat) :
    LinInv (s.updateSMO v w) L := by
  intro x hx
  rw [McBox.updateSMO_P, McBox.updateSMO_n] at hx
  rw [McBox.updateSMO_lin, McBox.updateSMO_ex, McBox.updateSMO_vars]
  exact h x hx

theorem linInv_deactVar (s : McBox Rat) (ht : TablesInv s) (L : Nat → Nat → Rat) (h : LinInv s L) (v : Nat)
    (hv : v < s.activeVar) : LinInv (s.deactivateVariable v) L := by
  intro x hx
  change x < s.P * s.n at hx
  have hvN : v < s.P * s.n := lt_of_lt_of_le hv ht.aV_le
  have hjN : s.activeVar - 1 < s.P * s.n := by have := ht.aV_le; omega
  have hs := deactVar_vars s v x
  rw [swp_eq_comp s.vars] at hs
  have he := deactVar_ex s v ((s.deactivateVariable v).vars x).i
  show swp s.lin v (s.activeVar - 1) x = _
  rw [swp_eq_comp s.lin, he.2, hs.1, hs.2]
  exact h _ (swp_id_lt v _ x _ hvN hjN hx)

theorem linInv_deactEx (s : McBox Rat) (ht : TablesInv s) (L : Nat → Nat → Rat) (h : LinInv s L) (e : Nat)
    (he : e < s.activeEx) : LinInv (s.deactivateExample e) L := by
  by_cases hne : e = s.activeEx - 1
  · have : s.deactivateExample e = { s with activeEx := s.activeEx - 1 } := by
      unfold McBox.deactivateExample; dsimp only; rw [if_pos hne]
    rw [this]; exact h
  · have hs := sameStatic_deactivateExample s e
    intro x hx
    rw [hs.2.1, hs.2.2.1] at hx
    have f := deactEx_facts s ht e he hne x hx
    have hl : (s.deactivateExample e).lin = s.lin := by
      unfold McBox.deactivateExample; dsimp only; rw [if_neg hne]
    rw [hl, f.1, f.2]
    exact h x hx

theorem linInv_unshrink (s : McBox Rat) (L : Nat → Nat → Rat) (h : LinInv s L) : LinInv s.unshrink L := by
  intro x hx
  rw [McBox.unshrink_P, McBox.unshrink_n] at hx
  have hv : s.unshrink.vars = s.vars := by unfold McBox.unshrink; dsimp only; split_ifs <;> rfl
  have hi : ∀ e, (s.unshrink.ex e).index = (s.ex e).index := by
    intro e
    unfold McBox.unshrink; dsimp only; split_ifs with h1
    · rfl
    · show (if e < s.n then ({ s.ex e with active := s.P } : Ex) else s.ex e).index = _
      split_ifs <;> rfl
  rw [McBox.unshrink_lin, hv, hi]
  exact h x hx

theorem linInv_addDelta (s : McBox Rat) (L : Nat → Nat → Rat) (h : LinInv s L) (d : Nat → Nat → Rat) :
    LinInv (s.addDeltaLinear d) (fun i p => L i p + d i p) := by
  intro x hx
  change x < s.P * s.n at hx
  show (if x < s.numVars then s.lin x + d (s.ex (s.vars x).i).index (s.vars x).p else s.lin x) = _
  rw [if_pos (by simpa [McBox.numVars] using hx), h x hx]
  rfl

theorem svFold_lin (A0 : Nat) (s : McBox Rat) (hc : Core s) (hA : s.activeVar = A0) (L : Nat → Nat → Rat)
    (h : LinInv s L) : ∀ k, k ≤ A0 → LinInv ((List.range k).foldl (svStep A0) (s, false)).1 L := by
  intro k
  induction k with
  | zero => intro _; exact h
  | succ k ih =>
    intro hk
    obtain ⟨hc1, hb⟩ := svFold_core A0 s hc hA k (by omega)
    rw [List.range_succ, List.foldl_append]
    show LinInv (svStep A0 _ k).1 L
    unfold svStep
    simp only
    split
    · exact linInv_deactVar _ hc1.1 L (ih (by omega)) _ (by omega)
    · exact ih (by omega)

theorem seFold_lin (E0 : Nat) (s : McBox Rat) (hc : Core s) (hA : s.activeEx = E0) (L : Nat → Nat → Rat)
    (h : LinInv s L) : ∀ k, k ≤ E0 → LinInv ((List.range k).foldl (seStep E0) s) L := by
  intro k
  induction k with
  | zero => intro _; exact h
  | succ k ih =>
    intro hk
    obtain ⟨hc1, hb⟩ := seFold_core E0 s hc hA k (by omega)
    rw [List.range_succ, List.foldl_append]
    show LinInv (seStep E0 _ k) L
    unfold seStep
    simp only
    split
    · exact linInv_deactEx _ hc1.1 L (ih (by omega)) _ (by omega)
    · exact ih (by omega)

theorem linInv_shrink (s : McBox Rat) (hf : FullInv s) (L : Nat → Nat → Rat) (h : LinInv s L) (eps : Rat) :
    LinInv (s.shrink eps).1 L := by
  rw [shrink_eq]
  split
  · exact h
  · have hh : LinInv (shrinkHead s eps) L := by
      unfold shrinkHead
      split
      · split
        · exact linInv_unshrink s L h
        · exact h
      · exact h
    have hc := core_shrinkHead s hf eps
    have h1 : LinInv (shrinkHead s eps).shrinkVars.1 L := by
      rw [shrinkVars_eq]; exact svFold_lin _ _ hc rfl L hh _ (Nat.le_refl _)
    unfold shrinkTail
    split
    · rw [shrinkExamples_eq]
      exact seFold_lin _ _ (core_shrinkVars _ hc) rfl L h1 _ (Nat.le_refl _)
    · exact h1

theorem linInv_solveTail (eps : Rat) (st : SolveSt Rat) (i j : Nat) (hf : FullInv st.s) (L : Nat → Nat → Rat)
    (h : LinInv st.s L) : LinInv (solveTail eps st i j).s L := by
  unfold solveTail
  dsimp only
  by_cases hv : i < st.s.activeVar ∧ j < st.s.activeVar
  · rw [if_pos hv]
    have h1 : FullInv (st.s.updateSMO i j) := fullInv_apply st.s hf (.smo i j) hv
    by_cases h0 : st.shrinkCounter = 0
    · rw [if_pos h0]
      exact linInv_shrink _ h1 L (linInv_updateSMO st.s L h i j) eps
    · rw [if_neg h0]
      exact linInv_updateSMO st.s L h i j
  · rw [if_neg hv]
    exact h

theorem linInv_solveBody (eps : Rat) (st : SolveSt Rat) (hf : FullInv st.s) (L : Nat → Nat → Rat)
    (h : LinInv st.s L) : LinInv (solveBody eps st).s L := by
  unfold solveBody
  dsimp only
  have hu : FullInv st.s.unshrink := fullInv_apply st.s hf .unshrink trivial
  have hlu := linInv_unshrink st.s L h
  split_ifs with h1 h2
  · exact hlu
  · have hs : FullInv (st.s.unshrink.shrink eps).1 := fullInv_apply _ hu (.shrink eps) trivial
    exact linInv_solveTail eps { st with s := (st.s.unshrink.shrink eps).1 } _ _ hs L (linInv_shrink _ hu L hlu eps)
  · exact linInv_solveTail eps st _ _ hf L h

theorem linInv_solve (s : McBox Rat) (hf : FullInv s) (L : Nat → Nat → Rat) (h : LinInv s L) (eps : Rat)
    (maxIter : Nat) : LinInv (solve s eps maxIter).s L := by
  suffices H : ∀ (fuel : Nat) (st : SolveSt Rat), FullInv st.s → LinInv st.s L → LinInv (solveLoop eps fuel st).s L from
    H maxIter { s := s, iter := 0, shrinkCounter := 0, stop := .running } hf h
  intro fuel
  induction fuel with
  | zero => intro st _ hl; exact linInv_unshrink st.s L hl
  | succ fuel ih =>
    intro st hf' hl
    have hb := solveBody_spec eps st hf'
    unfold solveLoop
    dsimp only
    split_ifs with hr
    · exact ih _ hb.1 (linInv_solveBody eps st hf' L hl)
    · exact linInv_solveBody eps st hf' L hl

/-! ### the bias step as a change of the linear part -/

theorem foldl_sub_eq (es : List (Nat × Rat)) (step : Nat → Rat) (z : Rat) :
    es.foldl (fun acc en => acc - en.2 * step en.1) z = z - (es.map fun en => en.2 * step en.1).sum := by
  induction es generalizing z with
  | nil => simp
  | cons e es ih => rw [List.foldl_cons, ih, List.map_cons, List.sum_cons]; ring

/-- `deltaLinear(i,p) = − Σ_{entries of nu.row(y_i·P+p)} value · step(index)` -/
theorem biasDelta_eq (nu : Nat → Row Rat) (P : Nat) (labels : Nat → Nat) (step : Nat → Rat) (i p : Nat) :
    biasDelta nu P labels step i p = -((nu (labels i * P + p)).entries.map fun en => en.2 * step en.1).sum := by
  unfold biasDelta
  rw [foldl_sub_eq]
  norm_num

theorem biasDelta_add (nu : Nat → Row Rat) (P : Nat) (labels : Nat → Nat) (a b : Nat → Rat) (i p : Nat) :
    biasDelta nu P labels (fun c => a c + b c) i p = biasDelta nu P labels a i p + biasDelta nu P labels b i p := by
  rw [biasDelta_eq, biasDelta_eq, biasDelta_eq, ← neg_add, ← List.sum_map_add]
  congr 2
  apply List.map_congr_left
  intro en _
  ring

theorem biasDelta_zero (nu : Nat → Row Rat) (P : Nat) (labels : Nat → Nat) (i p : Nat) :
    biasDelta nu P labels (fun _ => 0) i p = 0 := by
  rw [biasDelta_eq]
  simp

/-- what `BiasSolver::solve` does to the problem, abstracted from HOW it chooses: inner solves and bias steps -/
inductive BiasOp where
  | solve (eps : Rat) (maxIter : Nat)
  | update (step : Nat → Rat)

def biasApply (nu : Nat → Row Rat) (s : McBox Rat) : BiasOp → McBox Rat
  | .solve eps maxIter => (solve s eps maxIter).s
  | .update step => s.performBiasUpdate nu step

def biasRun (nu : Nat → Row Rat) (s : McBox Rat) (ops : List BiasOp) : McBox Rat := ops.foldl (biasApply nu) s

/-- `bias` as accumulated by `bias += step` -/
def biasSum : List BiasOp → Nat → Rat
  | [] => fun _ => 0
  | .solve _ _ :: ops => biasSum ops
  | .update step :: ops => fun c => step c + biasSum ops c

theorem bias_history (nu : Nat → Row Rat) (ops : List BiasOp) :
    ∀ (s : McBox Rat) (L : Nat → Nat → Rat), FullInv s → LinInv s L →
      FullInv (biasRun nu s ops) ∧
      LinInv (biasRun nu s ops) (fun i p => L i p + biasDelta nu s.P s.labels (biasSum ops) i p) := by
  induction ops with
  | nil =>
    intro s L hf hl
    refine ⟨hf, ?_⟩
    intro v hv
    show s.lin v = L _ _ + biasDelta nu s.P s.labels (fun _ => 0) _ _
    rw [biasDelta_zero, add_zero]
    exact hl v hv
  | cons op ops ih =>
    intro s L hf hl
    cases op with
    | solve eps maxIter =>
      have hs := sameStatic_solve s eps maxIter
      have := ih (solve s eps maxIter).s L (fullInv_solve s hf eps maxIter) (linInv_solve s hf L hl eps maxIter)
      rw [hs.2.1, hs.2.2.2.2.2.2] at this
      exact this
    | update step =>
      have hf' : FullInv (s.performBiasUpdate nu step) := fullInv_apply s hf (.addDelta _) trivial
      have hl' := linInv_addDelta s L hl (biasDelta nu s.P s.labels step)
      have := ih (s.performBiasUpdate nu step) _ hf' hl'
      refine ⟨this.1, ?_⟩
      intro v hv
      have h2 := this.2 v hv
      show (biasRun nu (s.performBiasUpdate nu step) ops).lin v = _
      rw [h2]
      show L _ _ + biasDelta nu s.P s.labels step _ _ + biasDelta nu s.P s.labels (biasSum ops) _ _
        = L _ _ + biasDelta nu s.P s.labels (fun c => step c + biasSum ops c) _ _
      rw [biasDelta_add, ← add_assoc]
      rfl

end SharkVerif.Mc
