/-
Helper lemmas for the box-constrained L-BFGS direction (`Box.direction`, model of
`LBFGS::getBoxConstrainedDirection`): the clipping loop, the direction coordinate by coordinate, sums.
-/
import SharkVerif.Model.GradOpt
import Mathlib.Tactic.Linarith
import Mathlib.Tactic.Positivity
import Mathlib.Tactic.FieldSimp
import Mathlib.Tactic.Ring
import Mathlib.Tactic.SplitIfs
import Mathlib.Algebra.BigOperators.Group.List.Basic
import Mathlib.Algebra.BigOperators.Ring.List
namespace SharkVerif.Opt.LSOpt.Box
open SharkVerif.Opt

theorem zero_eq' : (Scalar.zero : Rat) = 0 := rfl
theorem one_eq' : (Scalar.one : Rat) = 1 := rfl

theorem smin_le_left (a b : Rat) : Scalar.min a b ≤ a := by
  unfold Scalar.min; split <;> linarith
theorem smin_le_right (a b : Rat) : Scalar.min a b ≤ b := by
  unfold Scalar.min; split <;> linarith
theorem smin_pos (a b : Rat) (ha : 0 < a) (hb : 0 < b) : 0 < Scalar.min a b := by
  unfold Scalar.min; split <;> assumption

variable (pt d : BoxCoord Rat → Rat)

theorem clipStep_pos (alpha : Rat) (c : BoxCoord Rat) (h : 0 < alpha) : 0 < clipStep pt d alpha c := by
  unfold clipStep
  by_cases h1 : (!c.act || Scalar.beq (d c) Scalar.zero) = true
  · rw [if_pos h1]; exact h
  · rw [if_neg h1]
    by_cases h2 : (Scalar.zero : Rat) < (c.u - pt c) / d c <;> by_cases h3 : (Scalar.zero : Rat) < (c.l - pt c) / d c
    · simp only [if_pos h2, if_pos h3]; exact smin_pos _ _ (smin_pos _ _ h h3) h2
    · simp only [if_pos h2, if_neg h3]; exact smin_pos _ _ h h2
    · simp only [if_neg h2, if_pos h3]; exact smin_pos _ _ h h3
    · simp only [if_neg h2, if_neg h3]; exact h

theorem clipStep_le (alpha : Rat) (c : BoxCoord Rat) : clipStep pt d alpha c ≤ alpha := by
  unfold clipStep
  by_cases h1 : (!c.act || Scalar.beq (d c) Scalar.zero) = true
  · rw [if_pos h1]
  · rw [if_neg h1]
    by_cases h2 : (Scalar.zero : Rat) < (c.u - pt c) / d c <;> by_cases h3 : (Scalar.zero : Rat) < (c.l - pt c) / d c
    · simp only [if_pos h2, if_pos h3]; exact le_trans (smin_le_left _ _) (smin_le_left _ _)
    · simp only [if_pos h2, if_neg h3]; exact smin_le_left _ _
    · simp only [if_neg h2, if_pos h3]; exact smin_le_left _ _
    · simp only [if_neg h2, if_neg h3]; exact le_refl _

theorem clip_pos (cs : List (BoxCoord Rat)) : ∀ a0 : Rat, 0 < a0 → 0 < clip pt d cs a0 := by
  induction cs with
  | nil => intro a0 h; exact h
  | cons c cs ih => intro a0 h; exact ih _ (clipStep_pos pt d a0 c h)

theorem clip_le (cs : List (BoxCoord Rat)) : ∀ a0 : Rat, clip pt d cs a0 ≤ a0 := by
  induction cs with
  | nil => intro a0; exact le_refl _
  | cons c cs ih => intro a0; exact le_trans (ih _) (clipStep_le pt d a0 c)

theorem beq_zero_false (a : Rat) (h : a ≠ 0) : Scalar.beq a (Scalar.zero : Rat) = false := by
  show (decide (a ≤ (0:Rat)) && decide ((0:Rat) ≤ a)) = false
  rcases lt_or_gt_of_ne h with h' | h'
  · have : ¬ (0:Rat) ≤ a := not_le.mpr h'
    simp [this]
  · have : ¬ a ≤ (0:Rat) := not_le.mpr h'
    simp [this]

theorem clipStep_bound (alpha : Rat) (c : BoxCoord Rat) (hact : c.act = true) (hd : d c ≠ 0) :
    ((0 : Rat) < (c.u - pt c) / d c → clipStep pt d alpha c ≤ (c.u - pt c) / d c) ∧
    ((0 : Rat) < (c.l - pt c) / d c → clipStep pt d alpha c ≤ (c.l - pt c) / d c) := by
  unfold clipStep
  have h1 : ¬ ((!c.act || Scalar.beq (d c) Scalar.zero) = true) := by
    simp [hact, beq_zero_false (d c) hd]
  rw [if_neg h1]
  by_cases h2 : (Scalar.zero : Rat) < (c.u - pt c) / d c <;> by_cases h3 : (Scalar.zero : Rat) < (c.l - pt c) / d c
  · simp only [if_pos h2, if_pos h3]
    exact ⟨fun _ => smin_le_right _ _, fun _ => le_trans (smin_le_left _ _) (smin_le_right _ _)⟩
  · simp only [if_pos h2, if_neg h3]
    exact ⟨fun _ => smin_le_right _ _, fun h => absurd h h3⟩
  · simp only [if_neg h2, if_pos h3]
    exact ⟨fun h => absurd h h2, fun _ => smin_le_right _ _⟩
  · simp only [if_neg h2, if_neg h3]
    exact ⟨fun h => absurd h h2, fun h => absurd h h3⟩

theorem clip_bound (cs : List (BoxCoord Rat)) : ∀ (a0 : Rat) (c : BoxCoord Rat), c ∈ cs → c.act = true → d c ≠ 0 →
    ((0 : Rat) < (c.u - pt c) / d c → clip pt d cs a0 ≤ (c.u - pt c) / d c) ∧
    ((0 : Rat) < (c.l - pt c) / d c → clip pt d cs a0 ≤ (c.l - pt c) / d c) := by
  induction cs with
  | nil => intro a0 c hc; cases hc
  | cons c' cs ih =>
    intro a0 c hc hact hd
    rcases List.mem_cons.mp hc with rfl | hc'
    · have hb := clipStep_bound pt d a0 c hact hd
      have hle : clip pt d (c :: cs) a0 ≤ clipStep pt d a0 c := clip_le pt d cs _
      exact ⟨fun h => le_trans hle (hb.1 h), fun h => le_trans hle (hb.2 h)⟩
    · exact ih _ c hc' hact hd

/-- moving from `pt` along `d` by the clipped step length stays inside `[l, u]` -/
theorem clip_move_feasible (cs : List (BoxCoord Rat)) (c : BoxCoord Rat) (hc : c ∈ cs)
    (hl : c.l ≤ pt c) (hu : pt c ≤ c.u) (h0 : c.act = false → d c = 0)
    (hroomU : c.act = true → 0 < d c → pt c < c.u) (hroomL : c.act = true → d c < 0 → c.l < pt c) :
    c.l ≤ pt c + clip pt d cs 1 * d c ∧ pt c + clip pt d cs 1 * d c ≤ c.u := by
  have hpos : 0 < clip pt d cs 1 := clip_pos pt d cs 1 (by norm_num)
  cases hact : c.act with
  | false => rw [h0 hact]; constructor <;> linarith
  | true =>
    rcases lt_trichotomy (d c) 0 with hd | hd | hd
    · have hb := (clip_bound pt d cs 1 c hc hact (ne_of_lt hd)).2
      have hroom := hroomL hact hd
      have hq : 0 < (c.l - pt c) / d c := div_pos_of_neg_of_neg (by linarith) hd
      have h1 := hb hq
      have h2 : clip pt d cs 1 * d c ≥ (c.l - pt c) / d c * d c := mul_le_mul_of_nonpos_right h1 (le_of_lt hd)
      rw [div_mul_cancel₀ _ (ne_of_lt hd)] at h2
      have h3 : clip pt d cs 1 * d c ≤ 0 := mul_nonpos_of_nonneg_of_nonpos (le_of_lt hpos) (le_of_lt hd)
      constructor <;> linarith
    · rw [hd]; constructor <;> linarith
    · have hb := (clip_bound pt d cs 1 c hc hact (ne_of_gt hd)).1
      have hroom := hroomU hact hd
      have hq : 0 < (c.u - pt c) / d c := div_pos (by linarith) hd
      have h1 := hb hq
      have h2 : clip pt d cs 1 * d c ≤ (c.u - pt c) / d c * d c := mul_le_mul_of_nonneg_right h1 (le_of_lt hd)
      rw [div_mul_cancel₀ _ (ne_of_gt hd)] at h2
      have h3 : 0 ≤ clip pt d cs 1 * d c := mul_nonneg (le_of_lt hpos) (le_of_lt hd)
      constructor <;> linarith

/-! ### the direction, coordinate by coordinate -/

/-- component of `direction pBp cs` belonging to the coordinate record `c` -/
def dirCoord (pBp : Rat) (cs : List (BoxCoord Rat)) (c : BoxCoord Rat) : Rat :=
  if Scalar.beq (Vec.normSqr (cs.map (·.p0))) Scalar.zero then c.p0
  else if !(cs.any stepInfeasibleAt) then c.step
  else if clip (·.x) (cauchy pBp) cs Scalar.one < Scalar.one then clip (·.x) (cauchy pBp) cs Scalar.one * cauchy pBp c
  else cauchy pBp c +
    clip (fun c => c.x + cauchy pBp c) (fun c => c.step - cauchy pBp c) cs Scalar.one * (c.step - cauchy pBp c)

theorem direction_eq_map (pBp : Rat) (cs : List (BoxCoord Rat)) :
    direction pBp cs = cs.map (dirCoord pBp cs) := by
  unfold direction dirCoord
  by_cases h1 : Scalar.beq (Vec.normSqr (cs.map (·.p0))) (Scalar.zero : Rat) = true
  · simp only [if_pos h1]
  · simp only [if_neg h1]
    by_cases h2 : (!(cs.any stepInfeasibleAt)) = true
    · simp only [if_pos h2]
    · simp only [if_neg h2]
      by_cases h3 : clip (·.x) (cauchy pBp) cs Scalar.one < (Scalar.one : Rat)
      · simp only [if_pos h3]
      · simp only [if_neg h3]

/-! ### sums -/

theorem dot_map_map (cs : List (BoxCoord Rat)) (f g : BoxCoord Rat → Rat) :
    Vec.dot (cs.map f) (cs.map g) = (cs.map fun c => f c * g c).sum := by
  unfold Vec.dot
  have : ∀ (l : List Rat) (a : Rat), l.foldl (· + ·) a = a + l.sum := by
    intro l; induction l with
    | nil => intro a; simp
    | cons x xs ih => intro a; simp only [List.foldl_cons, List.sum_cons, ih]; ring
  rw [this]
  have hz : List.zipWith (· * ·) (cs.map f) (cs.map g) = cs.map fun c => f c * g c := by
    induction cs with
    | nil => rfl
    | cons c cs ih => simp only [List.map_cons, List.zipWith_cons_cons, ih]
  rw [hz]; show (0 : Rat) + _ = _; ring

theorem sumsq_nonneg (cs : List (BoxCoord Rat)) (f : BoxCoord Rat → Rat) : 0 ≤ (cs.map fun c => f c * f c).sum := by
  induction cs with
  | nil => simp
  | cons c cs ih => simp only [List.map_cons, List.sum_cons]; nlinarith [mul_self_nonneg (f c)]

theorem sumsq_zero (cs : List (BoxCoord Rat)) (f : BoxCoord Rat → Rat) (h : (cs.map fun c => f c * f c).sum = 0) :
    ∀ c ∈ cs, f c = 0 := by
  induction cs with
  | nil => intro c hc; cases hc
  | cons c' cs ih =>
    simp only [List.map_cons, List.sum_cons] at h
    have h1 := sumsq_nonneg cs f
    have h2 := mul_self_nonneg (f c')
    have h3 : f c' * f c' = 0 := by linarith
    have h4 : (cs.map fun c => f c * f c).sum = 0 := by linarith
    intro c hc
    rcases List.mem_cons.mp hc with rfl | hc'
    · exact mul_self_eq_zero.mp h3
    · exact ih h4 c hc'

theorem beq_zero_true (a : Rat) (h : Scalar.beq a (Scalar.zero : Rat) = true) : a = 0 := by
  by_contra hne
  rw [beq_zero_false a hne] at h
  cases h

/-! ### the repaired clipping loop (bound chosen by the sign of the direction) -/

theorem smax_zero_nonneg (q : Rat) : 0 ≤ Scalar.max (Scalar.zero : Rat) q := by
  unfold Scalar.max
  by_cases h : (Scalar.zero : Rat) < q
  · rw [if_pos h]; exact le_of_lt h
  · rw [if_neg h]; exact le_refl _

theorem smax_zero_of_nonneg (q : Rat) (h : 0 ≤ q) : Scalar.max (Scalar.zero : Rat) q = q := by
  unfold Scalar.max
  by_cases h' : (Scalar.zero : Rat) < q
  · rw [if_pos h']
  · rw [if_neg h']; exact le_antisymm h (not_lt.mp h')

theorem smin_nonneg (a b : Rat) (ha : 0 ≤ a) (hb : 0 ≤ b) : 0 ≤ Scalar.min a b := by
  unfold Scalar.min; split <;> assumption

variable (pt d : BoxCoord Rat → Rat)

/-- the loop with the repaired body -/
def clipS (cs : List (BoxCoord Rat)) (a0 : Rat) : Rat := cs.foldl (clipStepSign pt d) a0

theorem clipStepSign_nonneg (alpha : Rat) (c : BoxCoord Rat) (h : 0 ≤ alpha) : 0 ≤ clipStepSign pt d alpha c := by
  unfold clipStepSign
  by_cases h1 : (!c.act || Scalar.beq (d c) Scalar.zero) = true
  · rw [if_pos h1]; exact h
  · rw [if_neg h1]
    exact smin_nonneg _ _ h (smax_zero_nonneg _)

theorem clipStepSign_le (alpha : Rat) (c : BoxCoord Rat) : clipStepSign pt d alpha c ≤ alpha := by
  unfold clipStepSign
  by_cases h1 : (!c.act || Scalar.beq (d c) Scalar.zero) = true
  · rw [if_pos h1]
  · rw [if_neg h1]; exact smin_le_left _ _

/-- the quotient the repaired loop clips against -/
def signQuot (c : BoxCoord Rat) : Rat := ((if (Scalar.zero : Rat) < d c then c.u else c.l) - pt c) / d c

theorem clipStepSign_bound (alpha : Rat) (c : BoxCoord Rat) (hact : c.act = true) (hd : d c ≠ 0) :
    clipStepSign pt d alpha c ≤ Scalar.max (Scalar.zero : Rat) (signQuot pt d c) := by
  unfold clipStepSign signQuot
  have h1 : ¬ ((!c.act || Scalar.beq (d c) Scalar.zero) = true) := by
    simp [hact, beq_zero_false (d c) hd]
  rw [if_neg h1]
  exact smin_le_right _ _

theorem clipStepSign_pos (alpha : Rat) (c : BoxCoord Rat) (h : 0 < alpha)
    (hq : c.act = true → d c ≠ 0 → 0 < signQuot pt d c) : 0 < clipStepSign pt d alpha c := by
  unfold clipStepSign
  by_cases h1 : (!c.act || Scalar.beq (d c) Scalar.zero) = true
  · rw [if_pos h1]; exact h
  · rw [if_neg h1]
    have hact : c.act = true := by
      cases hc : c.act with
      | true => rfl
      | false => simp [hc] at h1
    have hd : d c ≠ 0 := by
      intro h0
      have : Scalar.beq (d c) (Scalar.zero : Rat) = true := by
        rw [h0]; show (decide ((0:Rat) ≤ 0) && decide ((0:Rat) ≤ 0)) = true; simp
      simp [this] at h1
    have hq' := hq hact hd
    unfold signQuot at hq'
    simp only
    apply smin_pos _ _ h
    rw [smax_zero_of_nonneg _ (le_of_lt hq')]; exact hq'

theorem clipS_nonneg (cs : List (BoxCoord Rat)) : ∀ a0 : Rat, 0 ≤ a0 → 0 ≤ clipS pt d cs a0 := by
  induction cs with
  | nil => intro a0 h; exact h
  | cons c cs ih => intro a0 h; exact ih _ (clipStepSign_nonneg pt d a0 c h)

theorem clipS_le (cs : List (BoxCoord Rat)) : ∀ a0 : Rat, clipS pt d cs a0 ≤ a0 := by
  induction cs with
  | nil => intro a0; exact le_refl _
  | cons c cs ih => intro a0; exact le_trans (ih _) (clipStepSign_le pt d a0 c)

theorem clipS_bound (cs : List (BoxCoord Rat)) : ∀ (a0 : Rat) (c : BoxCoord Rat), c ∈ cs → c.act = true → d c ≠ 0 →
    clipS pt d cs a0 ≤ Scalar.max (Scalar.zero : Rat) (signQuot pt d c) := by
  induction cs with
  | nil => intro a0 c hc; cases hc
  | cons c' cs ih =>
    intro a0 c hc hact hd
    rcases List.mem_cons.mp hc with rfl | hc'
    · exact le_trans (clipS_le pt d cs _) (clipStepSign_bound pt d a0 c hact hd)
    · exact ih _ c hc' hact hd

theorem clipS_pos (cs : List (BoxCoord Rat)) : ∀ a0 : Rat, 0 < a0 →
    (∀ c ∈ cs, c.act = true → d c ≠ 0 → 0 < signQuot pt d c) → 0 < clipS pt d cs a0 := by
  induction cs with
  | nil => intro a0 h _; exact h
  | cons c cs ih =>
    intro a0 h hq
    exact ih _ (clipStepSign_pos pt d a0 c h (hq c List.mem_cons_self)) (fun c' hc' => hq c' (List.mem_cons_of_mem _ hc'))

/-- with the repaired loop, moving from a point inside the box along `d` by the clipped step length stays inside
the box — no "room" hypothesis is needed, a bound at distance 0 gives step length 0 -/
theorem clipS_move_feasible (cs : List (BoxCoord Rat)) (c : BoxCoord Rat) (hc : c ∈ cs)
    (hl : c.l ≤ pt c) (hu : pt c ≤ c.u) (h0 : c.act = false → d c = 0) :
    c.l ≤ pt c + clipS pt d cs 1 * d c ∧ pt c + clipS pt d cs 1 * d c ≤ c.u := by
  have hnn : 0 ≤ clipS pt d cs 1 := clipS_nonneg pt d cs 1 (by norm_num)
  cases hact : c.act with
  | false => rw [h0 hact]; constructor <;> linarith
  | true =>
    rcases lt_trichotomy (d c) 0 with hd | hd | hd
    · have hb := clipS_bound pt d cs 1 c hc hact (ne_of_lt hd)
      have hq : signQuot pt d c = (c.l - pt c) / d c := by
        unfold signQuot; rw [if_neg (show ¬ (Scalar.zero : Rat) < d c from not_lt.mpr (le_of_lt hd))]
      have hq0 : 0 ≤ (c.l - pt c) / d c := div_nonneg_of_nonpos (by linarith) (le_of_lt hd)
      rw [hq, smax_zero_of_nonneg _ hq0] at hb
      have h2 : clipS pt d cs 1 * d c ≥ (c.l - pt c) / d c * d c := mul_le_mul_of_nonpos_right hb (le_of_lt hd)
      rw [div_mul_cancel₀ _ (ne_of_lt hd)] at h2
      have h3 : clipS pt d cs 1 * d c ≤ 0 := mul_nonpos_of_nonneg_of_nonpos hnn (le_of_lt hd)
      constructor <;> linarith
    · rw [hd]; constructor <;> linarith
    · have hb := clipS_bound pt d cs 1 c hc hact (ne_of_gt hd)
      have hq : signQuot pt d c = (c.u - pt c) / d c := by
        unfold signQuot; rw [if_pos (show (Scalar.zero : Rat) < d c from hd)]
      have hq0 : 0 ≤ (c.u - pt c) / d c := div_nonneg (by linarith) (le_of_lt hd)
      rw [hq, smax_zero_of_nonneg _ hq0] at hb
      have h2 : clipS pt d cs 1 * d c ≤ (c.u - pt c) / d c * d c := mul_le_mul_of_nonneg_right hb (le_of_lt hd)
      rw [div_mul_cancel₀ _ (ne_of_gt hd)] at h2
      have h3 : 0 ≤ clipS pt d cs 1 * d c := mul_nonneg hnn (le_of_lt hd)
      constructor <;> linarith

end SharkVerif.Opt.LSOpt.Box
