/- Example-order equivariance of the dual problem built by `McBox.init` (QpMcBoxDecomp constructor). -/
import SharkVerif.Lemmas.McSmoDefs
namespace SharkVerif.Mc
open Finset

/-- the variable numbering induced by a reordering `σ` of the examples: `(i,p) ↦ (σ i, p)` -/
def liftPerm (P : Nat) (σ : Nat → Nat) (v : Nat) : Nat := P * σ (v / P) + v % P

theorem liftPerm_div (P : Nat) (hP : 0 < P) (σ : Nat → Nat) (v : Nat) : liftPerm P σ v / P = σ (v / P) := by
  unfold liftPerm
  rw [Nat.mul_add_div hP, Nat.div_eq_of_lt (Nat.mod_lt _ hP)]; simp

theorem liftPerm_mod (P : Nat) (_hP : 0 < P) (σ : Nat → Nat) (v : Nat) : liftPerm P σ v % P = v % P := by
  unfold liftPerm
  rw [Nat.mul_add_mod, Nat.mod_mod]

/-- **perm_examples_equivariant**: training on the examples in the order `σ` (labels, kernel matrix and linear part
permuted accordingly) is the SAME dual problem up to the induced renumbering of the variables: entry `(v,w)` of
`Q = M ⊗ K` and component `v` of the linear part of the permuted problem are entry `(σ̂ v, σ̂ w)` resp. component
`σ̂ v` of the original one. -/
theorem perm_examples_equivariant_Q (c P n : Nat) (hP : 0 < P) (C : Rat) (M : Nat → Row Rat) (K : Nat → Nat → Rat)
    (labels : Nat → Nat) (linMat : Nat → Nat → Rat) (σ : Nat → Nat) (v w : Nat) :
    (McBox.init c P n C M (fun i j => K (σ i) (σ j)) (fun i => labels (σ i)) (fun i p => linMat (σ i) p)).Q v w
      = (McBox.init c P n C M K labels linMat).Q (liftPerm P σ v) (liftPerm P σ w) ∧
    (McBox.init c P n C M (fun i j => K (σ i) (σ j)) (fun i => labels (σ i)) (fun i p => linMat (σ i) p)).lin v
      = (McBox.init c P n C M K labels linMat).lin (liftPerm P σ v) := by
  simp only [McBox.Q, McBox.init, McBox.Mget, liftPerm_div P hP, liftPerm_mod P hP, and_self]

end SharkVerif.Mc
