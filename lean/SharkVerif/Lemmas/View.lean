/-
DataView: the index table built by `DataView(dataset)` enumerates the labelled elements in order.
-/
import SharkVerif.Lemmas.Dataset
namespace SharkVerif.Dataset

variable {α ι κ : Type}

theorem drop_cons_inv (l : List α) : ∀ (n : Nat) (a : α) (t : List α), l.drop n = a :: t →
    l[n]? = some a ∧ l.drop (n + 1) = t := by
  induction l with
  | nil => intro n a t h; simp at h
  | cons x l ih =>
    intro n a t h
    cases n with
    | zero => simp at h; simp [h.1, h.2]
    | succ n => simp at h; simpa using ih n a t h

theorem map_range_getElem? (l : List α) {β : Type} (g : α → Option β) :
    (List.range l.length).map (fun i => (l[i]?).bind g) = l.map g := by
  apply List.ext_getElem?
  intro i
  by_cases hi : i < l.length
  · simp [hi]
  · simp [hi]

theorem map_range_zip_get (a : List ι) (b : List κ) (h : a.length = b.length) :
    (List.range a.length).map (fun j => (List.zip a b)[j]?) = (List.zip a b).map some := by
  have hl : (List.zip a b).length = a.length := by simp [h]
  have := map_range_getElem? (List.zip a b) (fun x => some x)
  rw [hl] at this
  simpa using this

/-- the entries `DataView(dataset)` creates for the batches from position `b0` on, read back through
`getBatchElement`, are the labelled elements of those batches in order -/
theorem view_go_get (d : LabeledData ι κ) : ∀ (ib : List (List ι)) (lb : List (List κ)) (b0 idx0 : Nat),
    d.inputs.batches.drop b0 = ib → d.labels.batches.drop b0 = lb →
    ib.map List.length = lb.map List.length →
    (View.ofDataset.go (ib.map List.length) b0 idx0).map (fun ix => d.get ix.batch ix.positionInBatch) =
      ((List.zip ib lb).flatMap fun p => List.zip p.1 p.2).map some := by
  intro ib
  induction ib with
  | nil => intro lb b0 idx0 _ _ hl; cases lb <;> simp_all [View.ofDataset.go]
  | cons bi ib ih =>
    intro lb b0 idx0 hi hl hlen
    cases lb with
    | nil => simp at hlen
    | cons bl lb =>
      simp only [List.map_cons, List.cons.injEq] at hlen
      obtain ⟨hgi, hdi⟩ := drop_cons_inv _ _ _ _ hi
      obtain ⟨hgl, hdl⟩ := drop_cons_inv _ _ _ _ hl
      have := ih lb (b0 + 1) (idx0 + bi.length) hdi hdl hlen.2
      simp only [List.map_cons, View.ofDataset.go, List.map_append, List.map_map, this,
        List.zip_cons_cons, List.flatMap_cons]
      congr 1
      have hget : ∀ j, d.get b0 j = (List.zip bi bl)[j]? := by
        intro j
        simp only [LabeledData.get, Data.get, hgi, hgl, getElem?_zip_bind, Option.bind_some, Option.bind_eq_bind]
        cases h1 : bi[j]? <;> cases h2 : bl[j]? <;> simp
      have : ((fun ix : ViewIndex => d.get ix.batch ix.positionInBatch) ∘ fun j => (⟨b0, j, idx0 + j⟩ : ViewIndex)) =
          fun j => (List.zip bi bl)[j]? := by
        funext j; simp [hget]
      rw [this]
      exact map_range_zip_get bi bl hlen.1

/-- **DataView(dataset)**: the view lists every labelled element of the dataset, in order -/
theorem view_elements (d : LabeledData ι κ) (h : d.inputs.partitioning = d.labels.partitioning) :
    (View.ofDataset d).elements = d.flat.map some := by
  have hgo := view_go_get d d.inputs.batches d.labels.batches 0 0 (by simp) (by simp) h
  simp only [View.elements, View.get, View.size, View.ofDataset, LabeledData.partitioning, Data.partitioning,
    LabeledData.flat] at hgo ⊢
  rw [← hgo]
  exact map_range_getElem? _ _

end SharkVerif.Dataset

namespace SharkVerif.Dataset
variable {α ι κ : Type}

theorem mapM_get_ok (l : List α) : ∀ (idx : List Nat) (r : List α),
    idx.mapM (fun i => ofOpt l[i]?) = .ok r → r.map some = idx.map (l[·]?) := by
  intro idx
  induction idx with
  | nil => intro r h; simp [List.mapM_nil, pure, Except.pure] at h; simp [← h]
  | cons i idx ih =>
    intro r h
    simp only [List.mapM_cons, bind_ok, ofOpt_ok, pure_ok] at h
    obtain ⟨b, hb, bs', hbs', rfl⟩ := h
    simp [hb, ih bs' hbs']

theorem mapM_id_some : ∀ (l : List (Option α)) (r : List α), l.mapM id = some r → l = r.map some := by
  intro l
  induction l with
  | nil => intro r h; simp at h; simp [← h]
  | cons a l ih =>
    intro r h
    cases a with
    | none => simp [List.mapM_cons] at h
    | some x =>
      simp only [List.mapM_cons, id, Option.bind_eq_bind, Option.bind_some] at h
      cases hl : l.mapM id with
      | none => simp [hl] at h
      | some bs =>
        simp only [hl, Option.bind_some, Option.pure_def, Option.some.injEq] at h
        subst h
        simp [ih bs hl]

theorem view_elements_eq_map (v : View ι κ) :
    v.elements = v.indices.map (fun ix => v.dataset.get ix.batch ix.positionInBatch) := by
  simp only [View.elements, View.get, View.size]
  exact map_range_getElem? _ _

/-- `subset(view, indices)`: element j of the sub-view is element `indices[j]` of the view -/
theorem subset_elements (v w : View ι κ) (idx : List Nat) (h : v.subset idx = .ok w) :
    w.elements = idx.map (fun i => (v.elements[i]?).join) ∧ w.dataset = v.dataset ∧ ∀ i ∈ idx, i < v.size := by
  simp only [View.subset, bind_ok, pure_ok] at h
  obtain ⟨ixs, hix, rfl⟩ := h
  have hm := mapM_get_ok _ _ _ hix
  refine ⟨?_, rfl, ?_⟩
  · rw [view_elements_eq_map, view_elements_eq_map]
    simp only
    apply List.ext_getElem?
    intro j
    have hj := congrArg (·[j]?) hm
    simp only [List.getElem?_map] at hj ⊢
    cases hij : idx[j]? with
    | none => simp [hij] at hj ⊢; simp [hj]
    | some i =>
      simp only [hij, Option.map_some] at hj ⊢
      cases hx : ixs[j]? with
      | none => simp [hx] at hj
      | some ix =>
        simp only [hx, Option.map_some, Option.some.injEq] at hj
        simp [← hj]
  · intro i hi
    obtain ⟨j, hj⟩ := List.getElem?_of_mem hi
    have hjj := congrArg (·[j]?) hm
    simp only [List.getElem?_map, hj, Option.map_some] at hjj
    rcases Nat.lt_or_ge i v.indices.length with hlt | hge
    · exact hlt
    · rw [List.getElem?_eq_none hge] at hjj
      cases hx : ixs[j]? <;> simp [hx] at hjj

end SharkVerif.Dataset
