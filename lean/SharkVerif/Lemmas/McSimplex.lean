/-
Invariants of the `QpMcSimplexDecomp` model (`Model/McSimplex.lean`) at `α := Rat`.

* `solve2DTriangle_mem`: the triangle sub-solver returns a point of the triangle;
* `gradInv_stepVar`: moving ONE variable to an arbitrary value and applying `gradientUpdate` with the step keeps
  the gradient invariant (the box and the simplex `updateSMO` are compositions of such steps);
* `SxInv`: tables / gradient invariants of the embedded `McBox` record + **mc_simplex_inv**
  (`0 ≤ α`, `0 ≤ varsum ≤ C`, `varsum ≥ Σ_p α − 1e-14`, hence `Σ_p α_{i,p} ≤ C + 1e-14`: the code snaps `varsum`
  to `0`/`C` within `1e-14`, so the constraint holds up to that slack and no better);
* preserved by `updateSMO`, `deactivateVariable`, `unshrink`, `addDeltaLinear`, `shrink`, and by every pass of
  `QpSolver::solve` (`sxInv_solveX`).
-/
import SharkVerif.Lemmas.McSolve
import SharkVerif.Model.McSimplex
namespace SharkVerif.Mc
open Finset Grad

private theorem z0 : (0.0 : Rat) = 0 := by norm_num

/-! ### sub-solvers -/

/-- membership in the triangle `0 ≤ x, 0 ≤ y, x + y ≤ m` -/
def InTri (m : Rat) (x : Rat × Rat) : Prop := 0 ≤ x.1 ∧ 0 ≤ x.2 ∧ x.1 + x.2 ≤ m

theorem triSnap_mem (m : Rat) (_hm : 0 ≤ m) (r : Rat × Rat) (hr : InTri m r) : InTri m (triSnap m r) := by
  obtain ⟨h1, h2, h3⟩ := hr
  unfold triSnap InTri
  dsimp only
  rw [z0]
  split_ifs <;> refine ⟨?_, ?_, ?_⟩ <;> (try dsimp only) <;> linarith

theorem triPick_mem (P : Rat × Rat → Prop) (ai aj gi gj Qii Qij Qjj : Rat) (best : (Rat × Rat) × Rat)
    (s : Rat × Rat) (hb : P best.1) (hs : P s) : P (triPick ai aj gi gj Qii Qij Qjj best s).1 := by
  unfold triPick
  dsimp only
  split_ifs
  · exact hs
  · exact hb

theorem triEdge0_mem (ai aj gj Qij Qjj m : Rat) (hm : 0 ≤ m) : InTri m (triEdge0 ai aj gj Qij Qjj m) := by
  unfold triEdge0 InTri
  rw [z0]
  have e := solveEdge_mem aj (gj + Qij * ai) Qjj 0 m hm
  exact ⟨le_refl _, e.1, by dsimp only; linarith [e.2]⟩

theorem triEdge1_mem (ai aj gi Qii Qij m : Rat) (hm : 0 ≤ m) : InTri m (triEdge1 ai aj gi Qii Qij m) := by
  unfold triEdge1 InTri
  rw [z0]
  have e := solveEdge_mem ai (gi + Qij * aj) Qii 0 m hm
  exact ⟨e.1, le_refl _, by dsimp only; linarith [e.2]⟩

theorem triEdge2_mem (ai aj gi gj Qii Qij Qjj m : Rat) (hm : 0 ≤ m) :
    InTri m (triEdge2 ai aj gi gj Qii Qij Qjj m) := by
  unfold triEdge2 InTri
  dsimp only
  rw [z0]
  have e := solveEdge_mem 0 (gj - (m - ai) * Qij + aj * Qjj - (gi - (m - ai) * Qii + aj * Qij))
    (Qii + Qjj - 2.0 * Qij) 0 m hm
  exact ⟨by linarith [e.2], e.1, by linarith⟩

theorem solve2DTriangle_mem (ai aj gi gj Qii Qij Qjj m : Rat) (hm : 0 ≤ m) :
    InTri m (solve2DTriangle ai aj gi gj Qii Qij Qjj m) := by
  unfold solve2DTriangle
  dsimp only
  split_ifs with hc
  · obtain ⟨_, h1, h2, h3⟩ := hc
    rw [z0] at h1 h2
    exact ⟨le_of_lt h1, le_of_lt h2, le_of_lt h3⟩
  · apply triSnap_mem m hm
    have t0 := triEdge0_mem ai aj gj Qij Qjj m hm
    have t1 := triEdge1_mem ai aj gi Qii Qij m hm
    have t2 := triEdge2_mem ai aj gi gj Qii Qij Qjj m hm
    exact triPick_mem (InTri m) _ _ _ _ _ _ _ _ _
      (triPick_mem (InTri m) _ _ _ _ _ _ _ _ _ (triPick_mem (InTri m) _ _ _ _ _ _ _ _ _ t0 t0) t1) t2

/-! ### one-variable steps and the gradient invariant -/

/-- variable `v` moved to `a'`, then `gradientUpdate` with the step `a' − α_v` (the common core of `updateSMO`
of both decomposition classes) -/
def stepVar (s : McBox Rat) (v : Nat) (a' : Rat) : McBox Rat :=
  ({ s with alpha := upd s.alpha v a' }).gradientUpdate
    (s.P * (s.ex (s.vars v).i).y + (s.vars v).p) (-(s.alpha v) + a') (s.vars v).i

theorem tablesInv_stepVar (s : McBox Rat) (ht : TablesInv s) (v : Nat) (a' : Rat) :
    TablesInv (stepVar s v a') := tablesInv_congr ht rfl rfl rfl rfl rfl rfl rfl

theorem sameStatic_stepVar (s : McBox Rat) (v : Nat) (a' : Rat) : SameStatic s (stepVar s v a') :=
  ⟨rfl, rfl, rfl, rfl, rfl, rfl, rfl⟩

theorem gradInv_stepVar (s : McBox Rat) (ht : TablesInv s) (hm : MWF s) (hq : QSym s) (hl : LabelsOK s)
    (h : GradInv s) (v : Nat) (hv : v < s.activeVar) (a' : Rat) : GradInv (stepVar s v a') := by
  intro f hf
  have hf' : f < s.activeVar := hf
  have hfn := lt_of_lt_of_le hf' ht.aV_le
  have hvn := lt_of_lt_of_le hv ht.aV_le
  have hg := gradientUpdate_grad ({ s with alpha := upd s.alpha v a' })
    (tablesInv_setAlpha ht _) hm (s.P * (s.ex (s.vars v).i).y + (s.vars v).p) (-(s.alpha v) + a')
    (s.vars v).i f hf'
  show (({ s with alpha := upd s.alpha v a' }).gradientUpdate _ _ _).grad f
    = s.lin f - ∑ w ∈ range (s.P * s.n), s.Q f w * upd s.alpha v a' w
  rw [hg, sum_upd _ _ _ _ _ hvn]
  have e := Q_symm_entry s ht hq hl f v hfn hvn
  show s.grad f - (-(s.alpha v) + a') * s.Mget (s.c * (s.P * (s.ex (s.vars v).i).y + (s.vars v).p)
    + (s.ex (s.vars f).i).y) (s.vars f).p * s.kpos (s.vars v).i (s.vars f).i = _
  rw [h f hf', ← e]
  ring

theorem stepVar_alpha (s : McBox Rat) (v : Nat) (a' : Rat) : (stepVar s v a').alpha = upd s.alpha v a' := rfl

/-- the two-variable update of the decomposition classes is two one-variable steps -/
theorem stepVar_twice (s : McBox Rat) (v w : Nat) (hvw : v ≠ w) (a1 a2 : Rat) :
    stepVar (stepVar s v a1) w a2 =
      (({ s with alpha := upd (upd s.alpha v a1) w a2 }).gradientUpdate
          (s.P * (s.ex (s.vars v).i).y + (s.vars v).p) (-(s.alpha v) + a1) (s.vars v).i).gradientUpdate
        (s.P * (s.ex (s.vars w).i).y + (s.vars w).p) (-(s.alpha w) + a2) (s.vars w).i := by
  have hw : upd s.alpha v a1 w = s.alpha w := by unfold upd; rw [if_neg (Ne.symm hvw)]
  unfold stepVar
  simp only [Grad.McBox.gradientUpdate_alpha, Grad.McBox.gradientUpdate_vars, Grad.McBox.gradientUpdate_ex, Grad.McBox.gradientUpdate_P]
  rw [hw]
  rfl

/-! ### the simplex invariant -/

/-- `Σ_p α(var e p)`: the true sum of the variables of the example at position `e` -/
def McSx.asum (s : McSx Rat) (e : Nat) : Rat := ∑ p ∈ range s.b.P, s.b.alpha ((s.b.ex e).var p)

/-- per-example part of the simplex invariant: `0 ≤ varsum ≤ C`, `varsum ≥ Σα − 1e-14` and `varsum ≤ Σα + 1e-14·C`
(the tracked sum differs from the true one only by the snapping of `updateVarsum`) -/
def Good (s : McSx Rat) (e : Nat) : Prop :=
  0 ≤ s.vsum e ∧ s.vsum e ≤ s.b.C ∧ s.asum e - (1.e-14 : Rat) ≤ s.vsum e ∧
    s.vsum e ≤ s.asum e + (1.e-14 : Rat) * s.b.C

/-- **mc_simplex_inv** -/
structure SimplexInv (s : McSx Rat) : Prop where
  nonneg : ∀ v < s.b.P * s.b.n, 0 ≤ s.b.alpha v
  good : ∀ e < s.b.n, Good s e

/-- the constraint the formulation states, up to the snapping slack of the code -/
theorem SimplexInv.sum_le {s : McSx Rat} (h : SimplexInv s) (e : Nat) (he : e < s.b.n) :
    s.asum e ≤ s.b.C + (1.e-14 : Rat) := by
  obtain ⟨_, h2, h3, _⟩ := h.good e he
  linarith

theorem foldl_add_eq_sum (f : Nat → Rat) (n : Nat) (z : Rat) :
    (List.range n).foldl (fun acc p => acc + f p) z = z + ∑ p ∈ range n, f p := by
  induction n with
  | zero => simp
  | succ n ih => rw [List.range_succ, List.foldl_append, List.foldl_cons, List.foldl_nil, ih, sum_range_succ]; ring

theorem updateVarsum_b (s : McSx Rat) (e : Nat) (mu : Rat) : (s.updateVarsum e mu).b = s.b := by
  unfold McSx.updateVarsum
  dsimp only
  split_ifs <;> rfl

/-- value `updateVarsum` stores for the example -/
theorem updateVarsum_good (s : McSx Rat) (hC : 0 ≤ s.b.C) (e : Nat) (mu : Rat)
    (hnn : 0 ≤ s.asum e) (hsum : s.asum e ≤ s.b.C + (1.e-14 : Rat))
    (hd : s.asum e - (1.e-14 : Rat) ≤ s.vsum e + mu)
    (hd2 : s.vsum e + mu ≤ s.asum e + (1.e-14 : Rat) * s.b.C) : Good (s.updateVarsum e mu) e := by
  have hfold : (List.range s.b.P).foldl (fun acc p => acc + s.b.alpha ((s.b.ex e).var p)) (0.0 : Rat) = s.asum e := by
    rw [foldl_add_eq_sum, z0, zero_add]; rfl
  unfold Good McSx.vsum McSx.asum
  rw [updateVarsum_b]
  unfold McSx.updateVarsum
  dsimp only
  rw [hfold]
  unfold McSx.vsum at hd hd2
  unfold McSx.asum at hnn hsum hd hd2 ⊢
  split_ifs with h1 h2 h3 h3 <;> simp only [upd, if_true] <;> rw [z0] at * <;>
    refine ⟨?_, ?_, ?_, ?_⟩ <;> norm_num at * <;> nlinarith

theorem updateVarsum_other (s : McSx Rat) (e : Nat) (mu : Rat) (idx : Nat) (h : idx ≠ (s.b.ex e).index) :
    (s.updateVarsum e mu).varsum idx = s.varsum idx := by
  unfold McSx.updateVarsum
  dsimp only
  split_ifs <;> simp only [upd, if_neg h]

/-- `Good` only reads `ex`, `P`, `C`, the varsum of the example and its true sum -/
theorem Good.congr {s s' : McSx Rat} {e : Nat} (h : Good s e) (hex : s'.b.ex = s.b.ex) (hC : s'.b.C = s.b.C)
    (hv : s'.varsum (s.b.ex e).index = s.varsum (s.b.ex e).index) (ha : s'.asum e = s.asum e) : Good s' e := by
  unfold Good McSx.vsum at *
  rw [hex, hC, hv, ha]
  exact h

/-! ### effect of moving one variable on the per-example sums -/

theorem var_eq_iff (b : McBox Rat) (ht : TablesInv b) (v : Nat) (hv : v < b.P * b.n) (e p : Nat) (he : e < b.n)
    (hp : p < b.P) : (b.ex e).var p = v ↔ e = (b.vars v).i ∧ p = (b.vars v).p := by
  constructor
  · intro h
    exact ⟨by rw [← h, ht.var_i e he p hp], by rw [← h, ht.var_p e he p hp]⟩
  · rintro ⟨rfl, rfl⟩
    exact ht.v_var v hv

theorem sum_upd_var_same (b : McBox Rat) (ht : TablesInv b) (v : Nat) (hv : v < b.P * b.n) (a' : Rat) :
    ∑ p ∈ range b.P, upd b.alpha v a' ((b.ex (b.vars v).i).var p)
      = ∑ p ∈ range b.P, b.alpha ((b.ex (b.vars v).i).var p) + (a' - b.alpha v) := by
  have hi := ht.v_i_lt v hv
  have hp0 := ht.v_p_lt v hv
  have : ∀ p ∈ range b.P, upd b.alpha v a' ((b.ex (b.vars v).i).var p)
      = b.alpha ((b.ex (b.vars v).i).var p) + (if p = (b.vars v).p then a' - b.alpha v else 0) := by
    intro p hp
    have hp' := mem_range.mp hp
    have hiff := var_eq_iff b ht v hv (b.vars v).i p hi hp'
    unfold upd
    by_cases h : (b.ex (b.vars v).i).var p = v
    · rw [if_pos h, if_pos (hiff.mp h).2, h]; ring
    · rw [if_neg h, if_neg (fun hh => h (hiff.mpr ⟨rfl, hh⟩))]; ring
  rw [sum_congr rfl this, sum_add_distrib, sum_ite_eq', if_pos (mem_range.mpr hp0)]

theorem sum_upd_var_other (b : McBox Rat) (ht : TablesInv b) (v : Nat) (hv : v < b.P * b.n) (a' : Rat)
    (e : Nat) (he : e < b.n) (hne : e ≠ (b.vars v).i) :
    ∑ p ∈ range b.P, upd b.alpha v a' ((b.ex e).var p) = ∑ p ∈ range b.P, b.alpha ((b.ex e).var p) := by
  refine sum_congr rfl fun p hp => ?_
  have hiff := var_eq_iff b ht v hv e p he (mem_range.mp hp)
  unfold upd
  rw [if_neg (fun h => hne (hiff.mp h).1)]

theorem asum_nonneg (s : McSx Rat) (ht : TablesInv s.b) (hnn : ∀ v < s.b.P * s.b.n, 0 ≤ s.b.alpha v)
    (e : Nat) (he : e < s.b.n) : 0 ≤ s.asum e :=
  sum_nonneg fun p hp => hnn _ (ht.var_lt e he p (mem_range.mp hp))

/-- `updateVarsum` for example `i` leaves the other examples as they are -/
theorem updateVarsum_keeps (s : McSx Rat) (ht : TablesInv s.b) (i : Nat) (hi : i < s.b.n) (mu : Rat)
    (e : Nat) (he : e < s.b.n) (hne : e ≠ i) (h : Good s e) : Good (s.updateVarsum i mu) e := by
  refine h.congr (by rw [updateVarsum_b]) (by rw [updateVarsum_b]) ?_ (by unfold McSx.asum; rw [updateVarsum_b])
  exact updateVarsum_other s i mu _ (fun hh => hne (ht.index_inj e he i hi hh))

/-- a state whose alpha was changed (anyhow) and one `updateVarsum` on example `i` -/
theorem simplexInv_updateVarsum (s1 : McSx Rat) (ht : TablesInv s1.b) (hC : 0 ≤ s1.b.C)
    (hnn : ∀ v < s1.b.P * s1.b.n, 0 ≤ s1.b.alpha v) (i : Nat) (hi : i < s1.b.n) (mu : Rat)
    (hsum : s1.asum i ≤ s1.b.C + (1.e-14 : Rat)) (hd : s1.asum i - (1.e-14 : Rat) ≤ s1.vsum i + mu)
    (hd2 : s1.vsum i + mu ≤ s1.asum i + (1.e-14 : Rat) * s1.b.C)
    (hothers : ∀ e < s1.b.n, e ≠ i → Good s1 e) : SimplexInv (s1.updateVarsum i mu) := by
  constructor
  · rw [updateVarsum_b]; exact hnn
  · rw [updateVarsum_b]
    intro e he
    by_cases hei : e = i
    · subst hei
      exact updateVarsum_good s1 hC e mu (asum_nonneg s1 ht hnn e he) hsum hd hd2
    · exact updateVarsum_keeps s1 ht i hi mu e he hei (hothers e he hei)

/-- state with a new alpha vector -/
def McSx.setAlpha (s : McSx Rat) (a : Nat → Rat) : McSx Rat := { s with b := { s.b with alpha := a } }

theorem good_setAlpha_other (s : McSx Rat) (a : Nat → Rat) (e : Nat) (h : Good s e)
    (ha : (s.setAlpha a).asum e = s.asum e) : Good (s.setAlpha a) e :=
  h.congr rfl rfl rfl ha

theorem nonneg_upd (al : Nat → Rat) (N v : Nat) (a' : Rat) (h : ∀ x < N, 0 ≤ al x) (h0 : 0 ≤ a') :
    ∀ x < N, 0 ≤ upd al v a' x := by
  intro x hx; unfold upd; split_ifs
  · exact h0
  · exact h x hx

/-- one variable moved inside `[0, C − varsum + α_v]` -/
theorem simplexInv_move1 (s : McSx Rat) (ht : TablesInv s.b) (hC : 0 ≤ s.b.C) (hs : SimplexInv s)
    (v : Nat) (hv : v < s.b.P * s.b.n) (a' : Rat) (h0 : 0 ≤ a')
    (hU : a' ≤ s.b.C - s.vsum (s.b.vars v).i + s.b.alpha v) :
    SimplexInv ((s.setAlpha (upd s.b.alpha v a')).updateVarsum (s.b.vars v).i (-(s.b.alpha v) + a')) := by
  have hi := ht.v_i_lt v hv
  have hsum1 : (s.setAlpha (upd s.b.alpha v a')).asum (s.b.vars v).i = s.asum (s.b.vars v).i + (a' - s.b.alpha v) :=
    sum_upd_var_same s.b ht v hv a'
  obtain ⟨_, _, g3, g4⟩ := hs.good _ hi
  refine simplexInv_updateVarsum (s.setAlpha (upd s.b.alpha v a')) (tablesInv_setAlpha ht _) hC
    (nonneg_upd _ _ _ _ hs.nonneg h0) _ hi _ ?_ ?_ ?_ ?_
  · rw [hsum1]; show _ ≤ s.b.C + _; linarith
  · rw [hsum1]; show _ ≤ s.vsum _ + _; linarith
  · rw [hsum1]; show s.vsum _ + _ ≤ _ + _ * s.b.C; linarith
  · intro e he hne
    exact good_setAlpha_other s _ e (hs.good e he) (sum_upd_var_other s.b ht v hv a' e he hne)

/-- two variables of the SAME example moved inside the triangle `a1 + a2 ≤ C − varsum + α_v + α_w` -/
theorem simplexInv_move2same (s : McSx Rat) (ht : TablesInv s.b) (hC : 0 ≤ s.b.C) (hs : SimplexInv s)
    (v w : Nat) (hv : v < s.b.P * s.b.n) (hw : w < s.b.P * s.b.n) (hvw : v ≠ w)
    (hsame : (s.b.vars v).i = (s.b.vars w).i) (a1 a2 : Rat) (h1 : 0 ≤ a1) (h2 : 0 ≤ a2)
    (hU : a1 + a2 ≤ s.b.C - s.vsum (s.b.vars v).i + s.b.alpha v + s.b.alpha w) :
    SimplexInv ((s.setAlpha (upd (upd s.b.alpha v a1) w a2)).updateVarsum (s.b.vars v).i
      (-(s.b.alpha v) + a1 + (-(s.b.alpha w) + a2))) := by
  have hi := ht.v_i_lt v hv
  have hw' : upd s.b.alpha v a1 w = s.b.alpha w := by unfold upd; rw [if_neg (Ne.symm hvw)]
  have ht' : TablesInv (s.setAlpha (upd s.b.alpha v a1)).b := tablesInv_setAlpha ht _
  have hsum1 : (s.setAlpha (upd (upd s.b.alpha v a1) w a2)).asum (s.b.vars v).i
      = s.asum (s.b.vars v).i + (a1 - s.b.alpha v) + (a2 - s.b.alpha w) := by
    have e1 := sum_upd_var_same (s.setAlpha (upd s.b.alpha v a1)).b ht' w hw a2
    have e2 := sum_upd_var_same s.b ht v hv a1
    show ∑ p ∈ range s.b.P, upd (upd s.b.alpha v a1) w a2 ((s.b.ex (s.b.vars v).i).var p) = _
    rw [hsame]
    rw [hsame] at e2
    have e1' : ∑ p ∈ range s.b.P, upd (upd s.b.alpha v a1) w a2 ((s.b.ex (s.b.vars w).i).var p)
        = ∑ p ∈ range s.b.P, upd s.b.alpha v a1 ((s.b.ex (s.b.vars w).i).var p) + (a2 - upd s.b.alpha v a1 w) := e1
    rw [e1', e2, hw']
    rfl
  obtain ⟨_, _, g3, g4⟩ := hs.good _ hi
  refine simplexInv_updateVarsum (s.setAlpha (upd (upd s.b.alpha v a1) w a2)) (tablesInv_setAlpha ht _) hC
    (nonneg_upd _ _ _ _ (nonneg_upd _ _ _ _ hs.nonneg h1) h2) _ hi _ ?_ ?_ ?_ ?_
  · rw [hsum1]; show _ ≤ s.b.C + _; linarith
  · rw [hsum1]; show _ ≤ s.vsum _ + _; linarith
  · rw [hsum1]; show s.vsum _ + _ ≤ _ + _ * s.b.C; linarith
  · intro e he hne
    refine good_setAlpha_other s _ e (hs.good e he) ?_
    have e1 := sum_upd_var_other (s.setAlpha (upd s.b.alpha v a1)).b ht' w hw a2 e he (show e ≠ (s.b.vars w).i from hsame ▸ hne)
    have e2 := sum_upd_var_other s.b ht v hv a1 e he hne
    exact e1.trans e2

/-- two variables of DIFFERENT examples moved inside their boxes -/
theorem simplexInv_move2diff (s : McSx Rat) (ht : TablesInv s.b) (hC : 0 ≤ s.b.C) (hs : SimplexInv s)
    (v w : Nat) (hv : v < s.b.P * s.b.n) (hw : w < s.b.P * s.b.n)
    (hdiff : (s.b.vars v).i ≠ (s.b.vars w).i) (a1 a2 : Rat) (h1 : 0 ≤ a1) (h2 : 0 ≤ a2)
    (hU1 : a1 ≤ s.b.C - s.vsum (s.b.vars v).i + s.b.alpha v)
    (hU2 : a2 ≤ s.b.C - s.vsum (s.b.vars w).i + s.b.alpha w) :
    SimplexInv (((s.setAlpha (upd (upd s.b.alpha v a1) w a2)).updateVarsum (s.b.vars v).i
      (-(s.b.alpha v) + a1)).updateVarsum (s.b.vars w).i (-(s.b.alpha w) + a2)) := by
  have hiv := ht.v_i_lt v hv
  have hiw := ht.v_i_lt w hw
  have hvw : v ≠ w := fun h => hdiff (by rw [h])
  have hw' : upd s.b.alpha v a1 w = s.b.alpha w := by unfold upd; rw [if_neg (Ne.symm hvw)]
  have ht' : TablesInv (s.setAlpha (upd s.b.alpha v a1)).b := tablesInv_setAlpha ht _
  set s1 := s.setAlpha (upd (upd s.b.alpha v a1) w a2) with hs1
  have ht1 : TablesInv s1.b := tablesInv_setAlpha ht _
  have hnn1 : ∀ x < s1.b.P * s1.b.n, 0 ≤ s1.b.alpha x :=
    nonneg_upd _ _ _ _ (nonneg_upd _ _ _ _ hs.nonneg h1) h2
  -- sums of the two examples after the move
  have hsumv : s1.asum (s.b.vars v).i = s.asum (s.b.vars v).i + (a1 - s.b.alpha v) := by
    have e1 := sum_upd_var_other (s.setAlpha (upd s.b.alpha v a1)).b ht' w hw a2 _ hiv hdiff
    have e2 := sum_upd_var_same s.b ht v hv a1
    exact e1.trans e2
  have hsumw : s1.asum (s.b.vars w).i = s.asum (s.b.vars w).i + (a2 - s.b.alpha w) := by
    have e1 := sum_upd_var_same (s.setAlpha (upd s.b.alpha v a1)).b ht' w hw a2
    have e2 := sum_upd_var_other s.b ht v hv a1 _ hiw (Ne.symm hdiff)
    have e1' : s1.asum (s.b.vars w).i
        = ∑ p ∈ range s.b.P, upd s.b.alpha v a1 ((s.b.ex (s.b.vars w).i).var p) + (a2 - upd s.b.alpha v a1 w) := e1
    rw [e1', e2, hw']; rfl
  have hother : ∀ e < s.b.n, e ≠ (s.b.vars v).i → e ≠ (s.b.vars w).i → Good s1 e := by
    intro e he hn1 hn2
    refine good_setAlpha_other s _ e (hs.good e he) ?_
    have e1 := sum_upd_var_other (s.setAlpha (upd s.b.alpha v a1)).b ht' w hw a2 e he hn2
    have e2 := sum_upd_var_other s.b ht v hv a1 e he hn1
    exact e1.trans e2
  obtain ⟨_, _, gv3, gv4⟩ := hs.good _ hiv
  obtain ⟨_, _, gw3, gw4⟩ := hs.good _ hiw
  -- first update
  have hgv : Good (s1.updateVarsum (s.b.vars v).i (-(s.b.alpha v) + a1)) (s.b.vars v).i := by
    refine updateVarsum_good s1 hC _ _ (asum_nonneg s1 ht1 hnn1 _ hiv) ?_ ?_ ?_
    · rw [hsumv]; show _ ≤ s.b.C + _; linarith
    · rw [hsumv]; show _ ≤ s.vsum _ + _; linarith
    · rw [hsumv]; show s.vsum _ + _ ≤ _ + _ * s.b.C; linarith
  set s2 := s1.updateVarsum (s.b.vars v).i (-(s.b.alpha v) + a1) with hs2
  have hb2 : s2.b = s1.b := updateVarsum_b _ _ _
  have hvs2 : s2.vsum (s.b.vars w).i = s.vsum (s.b.vars w).i := by
    unfold McSx.vsum
    rw [hb2]
    exact updateVarsum_other s1 _ _ _ (fun hh => hdiff (ht.index_inj _ hiw _ hiv hh).symm)
  have hasum2 : ∀ e, s2.asum e = s1.asum e := by intro e; unfold McSx.asum; rw [hb2]
  refine simplexInv_updateVarsum s2 (hb2 ▸ ht1) (by rw [hb2]; exact hC) (by rw [hb2]; exact hnn1) _
    (by rw [hb2]; exact hiw) _ ?_ ?_ ?_ ?_
  · rw [hasum2, hsumw, hb2]; show _ ≤ s.b.C + _; linarith
  · rw [hasum2, hsumw, hvs2]; linarith
  · rw [hasum2, hsumw, hvs2, hb2]; show s.vsum _ + _ ≤ _ + _ * s.b.C; linarith
  · rw [hb2]
    intro e he hne
    by_cases hev : e = (s.b.vars v).i
    · rw [hev]; exact hgv
    · exact updateVarsum_keeps s1 ht1 _ hiv _ e he hev (hother e he hev hne)

/-! ### all invariants of the simplex decomposition state -/

structure SxInv (s : McSx Rat) : Prop where
  tables : TablesInv s.b
  grad : GradInv s.b
  mwf : MWF s.b
  qsym : QSym s.b
  labelsOK : LabelsOK s.b
  C_nonneg : 0 ≤ s.b.C
  P_pos : 0 < s.b.P
  simplex : SimplexInv s

theorem SxInv.of_parts {s s' : McSx Rat} (h : SxInv s) (hs : SameStatic s.b s'.b) (ht : TablesInv s'.b)
    (hg : GradInv s'.b) (hx : SimplexInv s') : SxInv s' where
  tables := ht
  grad := hg
  mwf := h.mwf.transfer hs
  qsym := h.qsym.transfer hs
  labelsOK := h.labelsOK.transfer hs
  C_nonneg := by rw [hs.2.2.2.1]; exact h.C_nonneg
  P_pos := by rw [hs.2.1]; exact h.P_pos
  simplex := hx

/-- `SimplexInv` reads `alpha`, the `var`/`index` fields of the example records, `P`, `n`, `C` and `varsum` -/
theorem SimplexInv.congr {s s' : McSx Rat} (h : SimplexInv s) (hα : s'.b.alpha = s.b.alpha)
    (hvar : ∀ e, (s'.b.ex e).var = (s.b.ex e).var) (hidx : ∀ e, (s'.b.ex e).index = (s.b.ex e).index)
    (hP : s'.b.P = s.b.P) (hn : s'.b.n = s.b.n) (hC : s'.b.C = s.b.C) (hvs : s'.varsum = s.varsum) :
    SimplexInv s' := by
  constructor
  · rw [hP, hn, hα]; exact h.nonneg
  · rw [hn]
    intro e he
    have := h.good e he
    unfold Good McSx.vsum McSx.asum at *
    rw [hidx, hvs, hC, hP, hα, hvar]
    exact this

theorem sxInv_init (c P n : Nat) (C : Rat) (hC : 0 ≤ C) (M : Nat → Row Rat) (K : Nat → Nat → Rat)
    (labels : Nat → Nat) (linMat : Nat → Nat → Rat) (hP : 0 < P)
    (hM : ∀ r, ((M r).entries.map Prod.fst).Nodup ∧ ∀ en ∈ (M r).entries, en.1 < P)
    (hMsym : ∀ y p y' p', y < c → y' < c → p < P → p' < P →
      (M (c * (P * y + p) + y')).get p' = (M (c * (P * y' + p') + y)).get p)
    (hK : ∀ i j, K i j = K j i) (hl : ∀ i < n, labels i < c) :
    SxInv (McSx.init c P n C M K labels linMat) := by
  have hf := fullInv_init c P n C hC M K labels linMat hP hM hMsym hK hl
  refine ⟨hf.tables, hf.grad, hf.mwf, hf.qsym, hf.labelsOK, hf.C_nonneg, hP, ?_, ?_⟩
  · intro v _
    show 0 ≤ (0.0 : Rat)
    norm_num
  · intro e _
    have ha : (McSx.init c P n C M K labels linMat).asum e = 0 := by
      unfold McSx.asum
      apply sum_eq_zero
      intro p _
      show (0.0 : Rat) = 0
      norm_num
    have hv : (McSx.init c P n C M K labels linMat).vsum e = 0 := by
      show (0.0 : Rat) = 0
      norm_num
    unfold Good
    rw [ha, hv]
    refine ⟨le_refl _, hC, by norm_num, ?_⟩
    show (0 : Rat) ≤ 0 + (1.e-14 : Rat) * C
    have : (0 : Rat) ≤ (1.e-14 : Rat) := by norm_num
    nlinarith

theorem sxInv_unshrink (s : McSx Rat) (h : SxInv s) : SxInv s.unshrink := by
  refine h.of_parts (sameStatic_unshrink s.b) (tablesInv_unshrink s.b h.tables)
    (gradInv_unshrink s.b h.tables h.mwf h.qsym h.labelsOK h.grad) ?_
  refine h.simplex.congr (McBox.unshrink_alpha s.b) ?_ ?_ (McBox.unshrink_P s.b) (McBox.unshrink_n s.b)
    (sameStatic_unshrink s.b).2.2.2.1 rfl
  · intro e
    show (s.b.unshrink.ex e).var = _
    unfold McBox.unshrink; dsimp only; split_ifs with h1
    · rfl
    · show (if e < s.b.n then ({ s.b.ex e with active := s.b.P } : Ex) else s.b.ex e).var = _
      split_ifs <;> rfl
  · intro e
    show (s.b.unshrink.ex e).index = _
    unfold McBox.unshrink; dsimp only; split_ifs with h1
    · rfl
    · show (if e < s.b.n then ({ s.b.ex e with active := s.b.P } : Ex) else s.b.ex e).index = _
      split_ifs <;> rfl

theorem sxInv_addDeltaLinear (s : McSx Rat) (h : SxInv s) (d : Nat → Nat → Rat) : SxInv (s.addDeltaLinear d) :=
  h.of_parts (sameStatic_addDeltaLinear s.b d) (tablesInv_addDeltaLinear s.b h.tables d)
    (gradInv_addDeltaLinear s.b h.tables h.grad d)
    (h.simplex.congr rfl (fun _ => rfl) (fun _ => rfl) rfl rfl rfl rfl)

/-- setting the flag `bUnshrinked` -/
theorem sxInv_setFlag (s : McSx Rat) (h : SxInv s) (f : Bool) : SxInv { s with b := { s.b with unshrinked := f } } :=
  h.of_parts ⟨rfl, rfl, rfl, rfl, rfl, rfl, rfl⟩ (h.tables.congr rfl rfl rfl rfl rfl rfl rfl)
    (fun v hv => h.grad v hv) (h.simplex.congr rfl (fun _ => rfl) (fun _ => rfl) rfl rfl rfl rfl)

/-! ### updateSMO -/

theorem upperBound_nonneg (s : McSx Rat) (h : SxInv s) (v : Nat) (hv : v < s.b.P * s.b.n) :
    0 ≤ s.b.C - s.vsum (s.b.vars v).i + s.b.alpha v := by
  obtain ⟨_, g2, _, _⟩ := h.simplex.good _ (h.tables.v_i_lt v hv)
  have := h.simplex.nonneg v hv
  linarith

theorem sxInv_updateSMO (s : McSx Rat) (h : SxInv s) (v w : Nat) (hv : v < s.b.activeVar)
    (hw : w < s.b.activeVar) : SxInv (s.updateSMO v w) := by
  have hvn := lt_of_lt_of_le hv h.tables.aV_le
  have hwn := lt_of_lt_of_le hw h.tables.aV_le
  have hUv := upperBound_nonneg s h v hvn
  have hUw := upperBound_nonneg s h w hwn
  by_cases hvw : v = w
  · subst hvw
    have hmem := solveEdge_mem (s.b.alpha v) (s.b.grad v) (s.b.vars v).diagonal 0
      (s.b.C - s.vsum (s.b.vars v).i + s.b.alpha v) hUv
    have hx := simplexInv_move1 s h.tables h.C_nonneg h.simplex v hvn _ hmem.1 hmem.2
    have hb : (s.updateSMO v v).b = stepVar s.b v (solveEdge (s.b.alpha v) (s.b.grad v) (s.b.vars v).diagonal 0
        (s.b.C - s.vsum (s.b.vars v).i + s.b.alpha v)) := by
      unfold McSx.updateSMO
      rw [if_pos rfl]
      dsimp only
      rw [updateVarsum_b, z0]
      rfl
    have hvs : (s.updateSMO v v).varsum = ((s.setAlpha (upd s.b.alpha v (solveEdge (s.b.alpha v) (s.b.grad v)
        (s.b.vars v).diagonal 0 (s.b.C - s.vsum (s.b.vars v).i + s.b.alpha v)))).updateVarsum (s.b.vars v).i
        (-(s.b.alpha v) + solveEdge (s.b.alpha v) (s.b.grad v) (s.b.vars v).diagonal 0
          (s.b.C - s.vsum (s.b.vars v).i + s.b.alpha v))).varsum := by
      unfold McSx.updateSMO
      rw [if_pos rfl]
      dsimp only
      rw [z0]
      rfl
    refine h.of_parts (hb ▸ sameStatic_stepVar s.b v _) (hb ▸ tablesInv_stepVar s.b h.tables v _)
      (hb ▸ gradInv_stepVar s.b h.tables h.mwf h.qsym h.labelsOK h.grad v hv _) ?_
    refine hx.congr ?_ ?_ ?_ ?_ ?_ ?_ hvs
    · rw [hb, updateVarsum_b]; rfl
    · intro e; rw [hb, updateVarsum_b]; rfl
    · intro e; rw [hb, updateVarsum_b]; rfl
    · rw [hb, updateVarsum_b]; rfl
    · rw [hb, updateVarsum_b]; rfl
    · rw [hb, updateVarsum_b]; rfl
  · -- two variables: the embedded record is two one-variable steps
    have hg2 : ∀ a1 a2 : Rat, TablesInv (stepVar (stepVar s.b v a1) w a2) ∧ GradInv (stepVar (stepVar s.b v a1) w a2)
        ∧ SameStatic s.b (stepVar (stepVar s.b v a1) w a2) := by
      intro a1 a2
      have t1 := tablesInv_stepVar s.b h.tables v a1
      have s1 := sameStatic_stepVar s.b v a1
      have g1 := gradInv_stepVar s.b h.tables h.mwf h.qsym h.labelsOK h.grad v hv a1
      exact ⟨tablesInv_stepVar _ t1 w a2,
        gradInv_stepVar _ t1 (h.mwf.transfer s1) (h.qsym.transfer s1) (h.labelsOK.transfer s1) g1 w hw a2,
        s1.trans (sameStatic_stepVar _ w a2)⟩
    by_cases hsame : (s.b.vars v).i = (s.b.vars w).i
    · have hm : 0 ≤ s.b.C - s.vsum (s.b.vars v).i + s.b.alpha v + s.b.alpha w := by
        have := h.simplex.nonneg w hwn; linarith
      have hmem := solve2DTriangle_mem (s.b.alpha v) (s.b.alpha w) (s.b.grad v) (s.b.grad w) (s.b.vars v).diagonal
        (s.b.Mget (s.b.c * (s.b.P * (s.b.ex (s.b.vars v).i).y + (s.b.vars v).p) + (s.b.ex (s.b.vars w).i).y) (s.b.vars w).p
          * s.b.kpos (s.b.vars v).i (s.b.vars w).i) (s.b.vars w).diagonal _ hm
      obtain ⟨m1, m2, m3⟩ := hmem
      have hx := simplexInv_move2same s h.tables h.C_nonneg h.simplex v w hvn hwn hvw hsame _ _ m1 m2 m3
      generalize hsol : solve2DTriangle (s.b.alpha v) (s.b.alpha w) (s.b.grad v) (s.b.grad w) (s.b.vars v).diagonal
        (s.b.Mget (s.b.c * (s.b.P * (s.b.ex (s.b.vars v).i).y + (s.b.vars v).p) + (s.b.ex (s.b.vars w).i).y) (s.b.vars w).p
          * s.b.kpos (s.b.vars v).i (s.b.vars w).i) (s.b.vars w).diagonal
          (s.b.C - s.vsum (s.b.vars v).i + s.b.alpha v + s.b.alpha w) = sol at hx m1 m2 m3
      have hb : (s.updateSMO v w).b = stepVar (stepVar s.b v sol.1) w sol.2 := by
        rw [stepVar_twice s.b v w hvw, ← hsol]
        unfold McSx.updateSMO
        rw [if_neg hvw]
        dsimp only
        rw [if_pos hsame]
        dsimp only
        rw [updateVarsum_b]
      have hvs : (s.updateSMO v w).varsum = ((s.setAlpha (upd (upd s.b.alpha v sol.1) w sol.2)).updateVarsum
          (s.b.vars v).i (-(s.b.alpha v) + sol.1 + (-(s.b.alpha w) + sol.2))).varsum := by
        rw [← hsol]
        unfold McSx.updateSMO
        rw [if_neg hvw]
        dsimp only
        rw [if_pos hsame]
        rfl
      obtain ⟨t2, g2, s2⟩ := hg2 sol.1 sol.2
      refine h.of_parts (hb ▸ s2) (hb ▸ t2) (hb ▸ g2) ?_
      refine hx.congr ?_ ?_ ?_ ?_ ?_ ?_ hvs
      · rw [hb, updateVarsum_b]; rfl
      · intro e; rw [hb, updateVarsum_b]; rfl
      · intro e; rw [hb, updateVarsum_b]; rfl
      · rw [hb, updateVarsum_b]; rfl
      · rw [hb, updateVarsum_b]; rfl
      · rw [hb, updateVarsum_b]; rfl
    · have hmem := solve2DBox_mem (s.b.alpha v) (s.b.alpha w) (s.b.grad v) (s.b.grad w) (s.b.vars v).diagonal
        (s.b.Mget (s.b.c * (s.b.P * (s.b.ex (s.b.vars v).i).y + (s.b.vars v).p) + (s.b.ex (s.b.vars w).i).y) (s.b.vars w).p
          * s.b.kpos (s.b.vars v).i (s.b.vars w).i) (s.b.vars w).diagonal 0 _ 0 _ hUv hUw
        ⟨h.simplex.nonneg v hvn, by obtain ⟨_, g2, _, _⟩ := h.simplex.good _ (h.tables.v_i_lt v hvn); linarith⟩
        ⟨h.simplex.nonneg w hwn, by obtain ⟨_, g2, _, _⟩ := h.simplex.good _ (h.tables.v_i_lt w hwn); linarith⟩
      obtain ⟨⟨m1, m2⟩, m3, m4⟩ := hmem
      have hx := simplexInv_move2diff s h.tables h.C_nonneg h.simplex v w hvn hwn hsame _ _ m1 m3 m2 m4
      generalize hsol : solve2DBox (s.b.alpha v) (s.b.alpha w) (s.b.grad v) (s.b.grad w) (s.b.vars v).diagonal
        (s.b.Mget (s.b.c * (s.b.P * (s.b.ex (s.b.vars v).i).y + (s.b.vars v).p) + (s.b.ex (s.b.vars w).i).y) (s.b.vars w).p
          * s.b.kpos (s.b.vars v).i (s.b.vars w).i) (s.b.vars w).diagonal 0
          (s.b.C - s.vsum (s.b.vars v).i + s.b.alpha v) 0 (s.b.C - s.vsum (s.b.vars w).i + s.b.alpha w) = sol
          at hx m1 m2 m3 m4
      have hb : (s.updateSMO v w).b = stepVar (stepVar s.b v sol.1) w sol.2 := by
        rw [stepVar_twice s.b v w hvw, ← hsol]
        unfold McSx.updateSMO
        rw [if_neg hvw]
        dsimp only
        rw [if_neg hsame]
        dsimp only
        rw [updateVarsum_b, updateVarsum_b, z0]
      have hvs : (s.updateSMO v w).varsum = (((s.setAlpha (upd (upd s.b.alpha v sol.1) w sol.2)).updateVarsum
          (s.b.vars v).i (-(s.b.alpha v) + sol.1)).updateVarsum (s.b.vars w).i (-(s.b.alpha w) + sol.2)).varsum := by
        rw [← hsol]
        unfold McSx.updateSMO
        rw [if_neg hvw]
        dsimp only
        rw [if_neg hsame, z0]
        rfl
      obtain ⟨t2, g2, s2⟩ := hg2 sol.1 sol.2
      refine h.of_parts (hb ▸ s2) (hb ▸ t2) (hb ▸ g2) ?_
      refine hx.congr ?_ ?_ ?_ ?_ ?_ ?_ hvs
      · rw [hb, updateVarsum_b, updateVarsum_b]; rfl
      · intro e; rw [hb, updateVarsum_b, updateVarsum_b]; rfl
      · intro e; rw [hb, updateVarsum_b, updateVarsum_b]; rfl
      · rw [hb, updateVarsum_b, updateVarsum_b]; rfl
      · rw [hb, updateVarsum_b, updateVarsum_b]; rfl
      · rw [hb, updateVarsum_b, updateVarsum_b]; rfl


/-! ### deactivateVariable (with the automatic deactivateExample) -/

/-- the dual variable `(example at position e, p)` keeps its value under `deactivateVariable` (the variables are
renumbered, the tables follow) -/
theorem deactVar_alpha_var (b : McBox Rat) (ht : TablesInv b) (v : Nat) (hv : v < b.activeVar) (e p : Nat)
    (he : e < b.n) (hp : p < b.P) :
    (b.deactivateVariable v).alpha (((b.deactivateVariable v).ex e).var p) = b.alpha ((b.ex e).var p) := by
  have ht1 := tablesInv_deactivateVariable b ht v hv
  have hvN : v < b.P * b.n := lt_of_lt_of_le hv ht.aV_le
  have hjN : b.activeVar - 1 < b.P * b.n := by have := ht.aV_le; omega
  have hx : ((b.deactivateVariable v).ex e).var p < b.P * b.n := ht1.var_lt e he p hp
  have hi := ht1.var_i e he p hp
  have hpp := ht1.var_p e he p hp
  have hs := deactVar_vars b v (((b.deactivateVariable v).ex e).var p)
  rw [swp_eq_comp b.vars] at hs
  rw [hs.1] at hi
  rw [hs.2] at hpp
  have hτ := swp_id_lt v (b.activeVar - 1) _ _ hvN hjN hx
  have hvar := ht.v_var _ hτ
  rw [hi, hpp] at hvar
  show swp b.alpha v (b.activeVar - 1) _ = _
  rw [swp_eq_comp b.alpha, hvar]

theorem simplexInv_deactVar (s : McSx Rat) (ht : TablesInv s.b) (h : SimplexInv s) (v : Nat)
    (hv : v < s.b.activeVar) : SimplexInv { s with b := s.b.deactivateVariable v } := by
  constructor
  · intro x hx
    have hle := ht.aV_le
    change x < s.b.P * s.b.n at hx
    change 0 ≤ swp s.b.alpha v (s.b.activeVar - 1) x
    unfold swp
    split_ifs
    · exact h.nonneg _ (by omega)
    · exact h.nonneg _ (by omega)
    · exact h.nonneg x hx
  · intro e he
    change e < s.b.n at he
    have hg := h.good e he
    have hidx : ((s.b.deactivateVariable v).ex e).index = (s.b.ex e).index := ((deactVar_ex s.b v) e).2
    have hasum : ({ s with b := s.b.deactivateVariable v } : McSx Rat).asum e = s.asum e := by
      unfold McSx.asum
      refine sum_congr rfl fun p hp => ?_
      exact deactVar_alpha_var s.b ht v hv e p he (mem_range.mp hp)
    unfold Good McSx.vsum at *
    rw [hasum]
    show 0 ≤ s.varsum ((s.b.deactivateVariable v).ex e).index ∧ s.varsum ((s.b.deactivateVariable v).ex e).index ≤ s.b.C ∧
      s.asum e - (1.e-14 : Rat) ≤ s.varsum ((s.b.deactivateVariable v).ex e).index ∧
      s.varsum ((s.b.deactivateVariable v).ex e).index ≤ s.asum e + (1.e-14 : Rat) * s.b.C
    rw [hidx]
    exact hg

theorem deactEx_alpha (b : McBox Rat) (e : Nat) : (b.deactivateExample e).alpha = b.alpha := by
  unfold McBox.deactivateExample; dsimp only; split_ifs <;> rfl

theorem simplexInv_deactEx (s : McSx Rat) (ht : TablesInv s.b) (h : SimplexInv s) (e : Nat)
    (he : e < s.b.activeEx) : SimplexInv { s with b := s.b.deactivateExample e } := by
  by_cases hne : e = s.b.activeEx - 1
  · have : s.b.deactivateExample e = { s.b with activeEx := s.b.activeEx - 1 } := by
      unfold McBox.deactivateExample; dsimp only; rw [if_pos hne]
    rw [this]
    exact h.congr rfl (fun _ => rfl) (fun _ => rfl) rfl rfl rfl rfl
  · obtain ⟨hP, hn, hex, _, _, _, _⟩ := deactEx_spec s.b ht e he hne
    have hC : (s.b.deactivateExample e).C = s.b.C := (sameStatic_deactivateExample s.b e).2.2.2.1
    have hen : e < s.b.n := lt_of_lt_of_le he ht.aE_le
    have hjn : s.b.activeEx - 1 < s.b.n := by have := ht.aE_le; omega
    constructor
    · show ∀ v < (s.b.deactivateExample e).P * (s.b.deactivateExample e).n, 0 ≤ (s.b.deactivateExample e).alpha v
      rw [hP, hn, deactEx_alpha]; exact h.nonneg
    · show ∀ x < (s.b.deactivateExample e).n, Good { s with b := s.b.deactivateExample e } x
      rw [hn]
      intro x hx
      have hg := h.good (tr e (s.b.activeEx - 1) x) (tr_lt hen hjn hx)
      unfold Good McSx.vsum McSx.asum at *
      show 0 ≤ s.varsum ((s.b.deactivateExample e).ex x).index ∧
        s.varsum ((s.b.deactivateExample e).ex x).index ≤ (s.b.deactivateExample e).C ∧
        ∑ p ∈ range (s.b.deactivateExample e).P, (s.b.deactivateExample e).alpha (((s.b.deactivateExample e).ex x).var p)
          - (1.e-14 : Rat) ≤ s.varsum ((s.b.deactivateExample e).ex x).index ∧
        s.varsum ((s.b.deactivateExample e).ex x).index ≤
          ∑ p ∈ range (s.b.deactivateExample e).P, (s.b.deactivateExample e).alpha (((s.b.deactivateExample e).ex x).var p)
            + (1.e-14 : Rat) * (s.b.deactivateExample e).C
      rw [hex, hP, hC, deactEx_alpha, swp_eq_tr]
      exact hg

theorem sxInv_deactivateVariable (s : McSx Rat) (h : SxInv s) (v : Nat) (hv : v < s.b.activeVar) :
    SxInv (s.deactivateVariable v) := by
  have ht1 := tablesInv_deactivateVariable s.b h.tables v hv
  have hg1 := gradInv_deactivateVariable s.b h.tables h.grad v hv
  have hx1 := simplexInv_deactVar s h.tables h.simplex v hv
  have hs1 := sameStatic_deactivateVariable s.b v
  have hev : (s.b.vars v).i < s.b.activeEx := active_var_active_ex s.b h.tables v hv
  unfold McSx.deactivateVariable
  dsimp only
  split_ifs with h0
  · have h0' : ((s.b.deactivateVariable v).ex (s.b.vars v).i).active = 0 := by simpa using h0
    have he1 : (s.b.vars v).i < (s.b.deactivateVariable v).activeEx := hev
    exact h.of_parts (hs1.trans (sameStatic_deactivateExample _ _))
      (tablesInv_deactivateExample _ ht1 _ he1 h0') (gradInv_deactivateExample _ ht1 hg1 _ he1 h0')
      (simplexInv_deactEx { s with b := s.b.deactivateVariable v } ht1 hx1 _ he1)
  · exact h.of_parts hs1 ht1 hg1 hx1


/-! ### shrink -/

theorem setEx_active_same (ex : Nat → Ex) (e : Nat) (F : Ex → Ex) (hF : ∀ r, (F r).active = r.active) (k : Nat) :
    (McBox.setEx ex e F k).active = (ex k).active := by
  unfold McBox.setEx
  split_ifs with h
  · rw [hF, h]
  · rfl

theorem deactVar_active_self (b : McBox Rat) (v : Nat) :
    ((b.deactivateVariable v).ex (b.vars v).i).active = (b.ex (b.vars v).i).active - 1 := by
  unfold McBox.deactivateVariable
  dsimp only
  rw [setEx_var_active, setEx_avar_active, setEx_var_active, setEx_avar_active]
  unfold McBox.setEx
  rw [if_pos rfl]

theorem sxInv_n (s s' : McSx Rat) (h : SameStatic s.b s'.b) : s'.b.n = s.b.n := h.2.2.1

theorem sameStatic_sx_deactivateVariable (s : McSx Rat) (v : Nat) : SameStatic s.b (s.deactivateVariable v).b := by
  unfold McSx.deactivateVariable
  dsimp only
  split_ifs
  · exact (sameStatic_deactivateVariable s.b v).trans (sameStatic_deactivateExample _ _)
  · exact sameStatic_deactivateVariable s.b v

/-- one `deactivateVariable` of the variable at position `p` of the `avar` list of slot `e` -/
theorem sx_deact_slot (X : McSx Rat → Prop)
    (hX : ∀ t v, SxInv t → v < t.b.activeVar → X t → X (t.deactivateVariable v))
    (s : McSx Rat) (h : SxInv s) (hx : X s) (e p : Nat) (he : e < s.b.n) (hp : p < (s.b.ex e).active) :
    (SxInv (s.deactivateVariable ((s.b.ex e).avar p)) ∧ X (s.deactivateVariable ((s.b.ex e).avar p))) ∧
    (1 < (s.b.ex e).active →
      (s.deactivateVariable ((s.b.ex e).avar p)).b = s.b.deactivateVariable ((s.b.ex e).avar p) ∧
      ((s.deactivateVariable ((s.b.ex e).avar p)).b.ex e).active = (s.b.ex e).active - 1) := by
  have hpP : p < s.b.P := lt_of_lt_of_le hp (h.tables.active_le e he)
  have hv : (s.b.ex e).avar p < s.b.activeVar := (h.tables.active_iff e he p hpP).mp hp
  have hi : (s.b.vars ((s.b.ex e).avar p)).i = e := h.tables.avar_i e he p hpP
  refine ⟨⟨sxInv_deactivateVariable s h _ hv, hX s _ h hv hx⟩, fun h1 => ?_⟩
  have hact := deactVar_active_self s.b ((s.b.ex e).avar p)
  rw [hi] at hact
  have hne : ¬ (((s.b.deactivateVariable ((s.b.ex e).avar p)).ex e).active == 0) = true := by
    rw [hact]; simp; omega
  have hb : (s.deactivateVariable ((s.b.ex e).avar p)).b = s.b.deactivateVariable ((s.b.ex e).avar p) := by
    unfold McSx.deactivateVariable
    dsimp only
    rw [hi, if_neg hne]
  exact ⟨hb, by rw [hb, hact]⟩

/-- case 2 of `shrink`: all active variables of the slot are deactivated, last first -/
theorem sxInv_shrinkCase2_gen (X : McSx Rat → Prop)
    (hX : ∀ t v, SxInv t → v < t.b.activeVar → X t → X (t.deactivateVariable v))
    (s : McSx Rat) (h : SxInv s) (hx : X s) (e : Nat) (he : e < s.b.n) :
    (SxInv (s.shrinkCase2 e) ∧ X (s.shrinkCase2 e)) ∧ (s.shrinkCase2 e).b.n = s.b.n := by
  unfold McSx.shrinkCase2
  dsimp only
  generalize hpc : (s.b.ex e).active = pc
  suffices H : ∀ k, k ≤ pc →
      let t := (List.range k).foldl (fun (s : McSx Rat) k => s.deactivateVariable ((s.b.ex e).avar (pc - 1 - k))) s
      (SxInv t ∧ X t) ∧ t.b.n = s.b.n ∧ (k < pc → pc ≤ (t.b.ex e).active + k) from
    ⟨(H pc (le_refl _)).1, (H pc (le_refl _)).2.1⟩
  intro k
  induction k with
  | zero => intro _; exact ⟨⟨h, hx⟩, rfl, fun _ => by simp [hpc]⟩
  | succ k ih =>
    intro hk
    obtain ⟨⟨h1, hx1⟩, hn1, h2⟩ := ih (by omega)
    have h2' := h2 (by omega)
    rw [List.range_succ, List.foldl_append]
    simp only [List.foldl_cons, List.foldl_nil]
    set t := (List.range k).foldl (fun (s : McSx Rat) k => s.deactivateVariable ((s.b.ex e).avar (pc - 1 - k))) s
    have het : e < t.b.n := by rw [hn1]; exact he
    obtain ⟨r1, r2⟩ := sx_deact_slot X hX t h1 hx1 e (pc - 1 - k) het (by omega)
    refine ⟨r1, ?_, fun hk1 => ?_⟩
    · rw [(sameStatic_sx_deactivateVariable t _).2.2.1, hn1]
    · obtain ⟨_, hact⟩ := r2 (by omega)
      rw [hact]; omega

/-- loop body of `getSimplexMVP` -/
def mvpStep (s : McSx Rat) (e : Nat) (st : Rat × Nat × Rat × Nat) (p : Nat) : Rat × Nat × Rat × Nat :=
  let v := (s.b.ex e).avar p
  let a := s.b.alpha v
  let g := s.b.grad v
  let st : Rat × Nat × Rat × Nat := if g > st.1 then (g, v, st.2.2.1, st.2.2.2) else st
  if a > (0.0 : Rat) ∧ g < st.2.2.1 then (st.1, st.2.1, g, v) else st

theorem simplexMVP_eq (s : McSx Rat) (e : Nat) :
    s.simplexMVP e = (List.range (s.b.ex e).active).foldl (mvpStep s e)
      (-(1.e100 : Rat), (s.b.ex e).avar 0, (1.e100 : Rat), (s.b.ex e).avar 0) := rfl

theorem mvpStep_up (s : McSx Rat) (e : Nat) (st : Rat × Nat × Rat × Nat) (p : Nat) :
    st.1 ≤ (mvpStep s e st p).1 ∧ s.b.grad ((s.b.ex e).avar p) ≤ (mvpStep s e st p).1 := by
  unfold mvpStep
  dsimp only
  split_ifs with h1 h2 h3 <;> (try dsimp only) <;> constructor <;> first | exact le_refl _ | exact le_of_lt h1 | exact not_lt.mp h1

/-- `up` of `getSimplexMVP` dominates the gradient of every active variable of the example -/
theorem mvp_up_ge (s : McSx Rat) (e : Nat) :
    ∀ b < (s.b.ex e).active, s.b.grad ((s.b.ex e).avar b) ≤ (s.simplexMVP e).1 := by
  rw [simplexMVP_eq]
  generalize (s.b.ex e).active = n
  generalize (-(1.e100 : Rat), (s.b.ex e).avar 0, (1.e100 : Rat), (s.b.ex e).avar 0) = init
  induction n with
  | zero => intro b hb; omega
  | succ n ih =>
    intro b hb
    rw [List.range_succ, List.foldl_append, List.foldl_cons, List.foldl_nil]
    have hs := mvpStep_up s e ((List.range n).foldl (mvpStep s e) init) n
    by_cases hbn : b = n
    · subst hbn; exact hs.2
    · exact le_trans (ih b (by omega)) hs.1

/-- the gradients of the active variables of a slot after deactivating one of its variables are among the
gradients of its active variables before -/
theorem deactVar_grad_slot (b : McBox Rat) (ht : TablesInv b) (v : Nat) (hv : v < b.activeVar) (e : Nat)
    (he : e < b.n) (b' : Nat) (hb' : b' < ((b.deactivateVariable v).ex e).active) :
    ∃ b'' < (b.ex e).active,
      (b.deactivateVariable v).grad (((b.deactivateVariable v).ex e).avar b') = b.grad ((b.ex e).avar b'') := by
  have ht1 := tablesInv_deactivateVariable b ht v hv
  have hvN : v < b.P * b.n := lt_of_lt_of_le hv ht.aV_le
  have hle := ht.aV_le
  have hjN : b.activeVar - 1 < b.P * b.n := by omega
  have hbP : b' < b.P := lt_of_lt_of_le hb' (ht1.active_le e he)
  have hxa : ((b.deactivateVariable v).ex e).avar b' < b.activeVar - 1 := (ht1.active_iff e he b' hbP).mp hb'
  have hxN : ((b.deactivateVariable v).ex e).avar b' < b.P * b.n := ht1.avar_lt e he b' hbP
  have hi := ht1.avar_i e he b' hbP
  have hs := deactVar_vars b v (((b.deactivateVariable v).ex e).avar b')
  rw [swp_eq_comp b.vars] at hs
  rw [hs.1] at hi
  have hτN := swp_id_lt v (b.activeVar - 1) _ _ hvN hjN hxN
  have hτa : swp id v (b.activeVar - 1) (((b.deactivateVariable v).ex e).avar b') < b.activeVar := by
    unfold swp; simp only [id]; split_ifs <;> omega
  have hav := ht.v_avar _ hτN
  rw [hi] at hav
  refine ⟨(b.vars (swp id v (b.activeVar - 1) (((b.deactivateVariable v).ex e).avar b'))).index, ?_, ?_⟩
  · refine (ht.active_iff e he _ (ht.v_index_lt _ hτN)).mpr ?_
    rw [hav]; exact hτa
  · show swp b.grad v (b.activeVar - 1) _ = _
    rw [swp_eq_comp b.grad, hav]

/-- case 1 of `shrink` -/
theorem sxInv_shrinkCase1_gen (X : McSx Rat → Prop)
    (hX : ∀ t v, SxInv t → v < t.b.activeVar → X t → X (t.deactivateVariable v))
    (s : McSx Rat) (h : SxInv s) (hx : X s) (e : Nat) (he : e < s.b.n) (down : Rat) :
    (SxInv (s.shrinkCase1 e (s.simplexMVP e).1 down) ∧ X (s.shrinkCase1 e (s.simplexMVP e).1 down)) ∧
      (s.shrinkCase1 e (s.simplexMVP e).1 down).b.n = s.b.n := by
  unfold McSx.shrinkCase1
  dsimp only
  generalize hup : (s.simplexMVP e).1 = up
  have hJ0 : ∀ b < (s.b.ex e).active, s.b.grad ((s.b.ex e).avar b) ≤ up := hup ▸ mvp_up_ge s e
  generalize hpc : (s.b.ex e).active = pc at *
  suffices H : ∀ k, k ≤ pc →
      let t := (List.range k).foldl (fun (st : McSx Rat × Bool) k =>
        if st.2 then st else
        let s := st.1
        let p := pc - 1 - k
        let v := (s.b.ex e).avar p
        let a := s.b.alpha v
        let g := s.b.grad v
        if a == (0.0 : Rat) ∧ g - down < (0.0 : Rat) then (s.deactivateVariable v, false)
        else if a == s.b.C ∧ up - g < (0.0 : Rat) then
          let q0 := (s.b.ex e).active
          ((List.range (q0 + 1)).foldl (fun (s : McSx Rat) j => s.deactivateVariable ((s.b.ex e).avar (q0 - j))) s, true)
        else (s, false)) (s, false)
      (SxInv t.1 ∧ X t.1) ∧ t.2 = false ∧ t.1.b.n = s.b.n ∧
        (k < pc → pc ≤ (t.1.b.ex e).active + k ∧
          ∀ b < (t.1.b.ex e).active, t.1.b.grad ((t.1.b.ex e).avar b) ≤ up) from
    ⟨(H pc (le_refl _)).1, (H pc (le_refl _)).2.2.1⟩
  intro k
  induction k with
  | zero => intro _; exact ⟨⟨h, hx⟩, rfl, rfl, fun _ => ⟨by simp [hpc], hpc ▸ hJ0⟩⟩
  | succ k ih =>
    intro hk
    obtain ⟨⟨h1, hx1⟩, hf, hn1, h2⟩ := ih (by omega)
    obtain ⟨h2a, h2b⟩ := h2 (by omega)
    rw [List.range_succ, List.foldl_append]
    simp only [List.foldl_cons, List.foldl_nil]
    generalize (List.range k).foldl _ (s, false) = t at *
    obtain ⟨t1, t2⟩ := t
    simp only at h1 hx1 hf hn1 h2a h2b
    subst hf
    simp only [Bool.false_eq_true, if_false]
    have het : e < t1.b.n := by rw [hn1]; exact he
    have hp : pc - 1 - k < (t1.b.ex e).active := by omega
    have hg := h2b _ hp
    split_ifs with c1 c2
    · -- the variable is deactivated
      obtain ⟨r1, r2⟩ := sx_deact_slot X hX t1 h1 hx1 e (pc - 1 - k) het hp
      refine ⟨r1, rfl, by rw [(sameStatic_sx_deactivateVariable t1 _).2.2.1, hn1], fun hk1 => ?_⟩
      obtain ⟨hb, hact⟩ := r2 (by omega)
      refine ⟨by rw [hact]; omega, ?_⟩
      rw [hb]
      intro b' hb'
      have hpP : pc - 1 - k < t1.b.P := lt_of_lt_of_le hp (h1.tables.active_le e het)
      have hv : (t1.b.ex e).avar (pc - 1 - k) < t1.b.activeVar := (h1.tables.active_iff e het _ hpP).mp hp
      obtain ⟨b'', hb'', heq⟩ := deactVar_grad_slot t1.b h1.tables _ hv e het b' hb'
      rw [heq]; exact h2b b'' hb''
    · -- unreachable: `up` dominates the gradient of every active variable
      exfalso
      have := c2.2
      rw [z0] at this
      linarith
    · exact ⟨⟨h1, hx1⟩, rfl, hn1, fun hk1 => ⟨by omega, h2b⟩⟩


/-- the example loop of `shrink` -/
def shrinkExStep (E0 : Nat) (s : McSx Rat) (k : Nat) : McSx Rat :=
  let e := E0 - 1 - k
  let m := s.simplexMVP e
  let up := m.1
  let down := m.2.2.1
  if down > (0.0 : Rat) ∧ s.vsum e == s.b.C ∧ up - down > (0.0 : Rat) then s.shrinkCase1 e up down
  else if s.vsum e == (0.0 : Rat) ∧ up < (0.0 : Rat) ∧ down > (0.0 : Rat) then s.shrinkCase2 e
  else s

theorem sxInv_shrinkExStep (X : McSx Rat → Prop)
    (hX : ∀ t v, SxInv t → v < t.b.activeVar → X t → X (t.deactivateVariable v))
    (E0 : Nat) (s : McSx Rat) (h : SxInv s) (hx : X s) (k : Nat) (hE : E0 ≤ s.b.n) (hk : k < E0) :
    (SxInv (shrinkExStep E0 s k) ∧ X (shrinkExStep E0 s k)) ∧ (shrinkExStep E0 s k).b.n = s.b.n := by
  unfold shrinkExStep
  dsimp only
  split_ifs
  · exact sxInv_shrinkCase1_gen X hX s h hx _ (by omega) _
  · exact sxInv_shrinkCase2_gen X hX s h hx _ (by omega)
  · exact ⟨⟨h, hx⟩, rfl⟩

theorem sxInv_shrinkCase1 (s : McSx Rat) (h : SxInv s) (e : Nat) (he : e < s.b.n) (down : Rat) :
    SxInv (s.shrinkCase1 e (s.simplexMVP e).1 down) :=
  (sxInv_shrinkCase1_gen (fun _ => True) (fun _ _ _ _ _ => trivial) s h trivial e he down).1.1

theorem sxInv_shrinkCase2 (s : McSx Rat) (h : SxInv s) (e : Nat) (he : e < s.b.n) : SxInv (s.shrinkCase2 e) :=
  (sxInv_shrinkCase2_gen (fun _ => True) (fun _ _ _ _ _ => trivial) s h trivial e he).1.1

/-- head of `shrink`: the optional `unshrink` -/
def shrinkHeadX (s : McSx Rat) (eps : Rat) : McSx Rat :=
  if (!s.b.unshrinked) = true then
    if s.checkKKT < (10.0 : Rat) * eps then { s.unshrink with b := { s.unshrink.b with unshrinked := true } } else s
  else s

theorem sxInv_shrinkHeadX (s : McSx Rat) (h : SxInv s) (eps : Rat) : SxInv (shrinkHeadX s eps) := by
  unfold shrinkHeadX
  split_ifs
  · exact sxInv_setFlag _ (sxInv_unshrink s h) true
  · exact h
  · exact h

theorem shrinkX_eq (s : McSx Rat) (eps : Rat) :
    (s.shrink eps).1 = if (!s.b.useShrinking) = true then s else
      (List.range (shrinkHeadX s eps).b.activeEx).foldl (shrinkExStep (shrinkHeadX s eps).b.activeEx) (shrinkHeadX s eps) := by
  unfold McSx.shrink shrinkHeadX
  by_cases hu : (!s.b.useShrinking) = true
  · rw [if_pos hu, if_pos hu]
  · rw [if_neg hu, if_neg hu]
    rfl

/-- `shrink` preserves the invariants, together with any property `X` of the state that `unshrink`, the flag and
every valid `deactivateVariable` preserve -/
theorem sxInv_shrink_gen (X : McSx Rat → Prop)
    (hX : ∀ t v, SxInv t → v < t.b.activeVar → X t → X (t.deactivateVariable v))
    (hXu : ∀ t, SxInv t → X t → X { t.unshrink with b := { t.unshrink.b with unshrinked := true } })
    (s : McSx Rat) (h : SxInv s) (hx : X s) (eps : Rat) : SxInv (s.shrink eps).1 ∧ X (s.shrink eps).1 := by
  rw [shrinkX_eq]
  split_ifs
  · exact ⟨h, hx⟩
  · have h0 := sxInv_shrinkHeadX s h eps
    have hx0 : X (shrinkHeadX s eps) := by
      unfold shrinkHeadX
      split_ifs
      · exact hXu s h hx
      · exact hx
      · exact hx
    generalize shrinkHeadX s eps = t at h0 hx0
    have hE : t.b.activeEx ≤ t.b.n := h0.tables.aE_le
    generalize t.b.activeEx = E0 at hE
    suffices H : ∀ k, k ≤ E0 → (SxInv ((List.range k).foldl (shrinkExStep E0) t) ∧
        X ((List.range k).foldl (shrinkExStep E0) t)) ∧
        ((List.range k).foldl (shrinkExStep E0) t).b.n = t.b.n from (H E0 (le_refl _)).1
    intro k
    induction k with
    | zero => intro _; exact ⟨⟨h0, hx0⟩, rfl⟩
    | succ k ih =>
      intro hk
      obtain ⟨⟨h1, hx1⟩, hn1⟩ := ih (by omega)
      rw [List.range_succ, List.foldl_append, List.foldl_cons, List.foldl_nil]
      obtain ⟨r1, r2⟩ := sxInv_shrinkExStep X hX E0 _ h1 hx1 k (by rw [hn1]; exact hE) (by omega)
      exact ⟨r1, by rw [r2, hn1]⟩

theorem sxInv_shrink (s : McSx Rat) (h : SxInv s) (eps : Rat) : SxInv (s.shrink eps).1 :=
  (sxInv_shrink_gen (fun _ => True) (fun _ _ _ _ _ => trivial) (fun _ _ _ => trivial) s h trivial eps).1

/-! ### `QpSolver<QpMcSimplexDecomp>::solve` -/

theorem sxInv_solveTailX (eps : Rat) (st : SolveStX Rat) (i j : Nat) (h : SxInv st.s) :
    SxInv (solveTailX eps st i j).s ∧ (solveTailX eps st i j).stop ≠ .accuracy := by
  unfold solveTailX
  dsimp only
  by_cases hv : i < st.s.b.activeVar ∧ j < st.s.b.activeVar
  · rw [if_pos hv]
    have h1 : SxInv (st.s.updateSMO i j) := sxInv_updateSMO st.s h i j hv.1 hv.2
    refine ⟨?_, by simp⟩
    by_cases h0 : st.shrinkCounter = 0
    · rw [if_pos h0]
      exact sxInv_shrink _ h1 eps
    · rw [if_neg h0]
      exact h1
  · rw [if_neg hv]
    exact ⟨h, by simp⟩

/-- what is true when the loop body ends the loop with `QpAccuracyReached` -/
def StoppedOKX (eps : Rat) (st : SolveStX Rat) : Prop :=
  st.stop = .accuracy → st.s.b.activeVar = st.s.b.P * st.s.b.n ∧ st.s.b.activeEx = st.s.b.n ∧ st.s.checkKKT < eps

theorem solveBodyX_spec (eps : Rat) (st : SolveStX Rat) (h : SxInv st.s) :
    SxInv (solveBodyX eps st).s ∧ StoppedOKX eps (solveBodyX eps st) := by
  unfold solveBodyX
  dsimp only
  have hu : SxInv st.s.unshrink := sxInv_unshrink st.s h
  split_ifs with h1 h2
  · refine ⟨hu, fun _ => ⟨?_, ?_, h2⟩⟩
    · show st.s.b.unshrink.activeVar = st.s.b.unshrink.P * st.s.b.unshrink.n
      rw [McBox.unshrink_activeVar, McBox.unshrink_P, McBox.unshrink_n]
    · show st.s.b.unshrink.activeEx = st.s.b.unshrink.n
      have := h.tables.aV_le
      unfold McBox.unshrink
      dsimp only
      split_ifs with hc
      · -- already all variables active: then all examples are active
        by_contra hne
        have hlt : st.s.b.activeEx < st.s.b.n := lt_of_le_of_ne h.tables.aE_le hne
        have h0 := h.tables.inactive_ex st.s.b.activeEx (le_refl _) hlt
        have hP : 0 < st.s.b.P := h.P_pos
        have hav := h.tables.avar_lt _ hlt 0 hP
        have hiff := (h.tables.active_iff _ hlt 0 hP).mpr (by simp only [McBox.numVars] at hc; omega)
        omega
      · rfl
  · have hs : SxInv (st.s.unshrink.shrink eps).1 := sxInv_shrink _ hu eps
    have := sxInv_solveTailX eps { st with s := (st.s.unshrink.shrink eps).1 }
      (st.s.unshrink.shrink eps).1.selectWorkingSet.1 (st.s.unshrink.shrink eps).1.selectWorkingSet.2.1 hs
    exact ⟨this.1, fun hc => absurd hc this.2⟩
  · have := sxInv_solveTailX eps st st.s.selectWorkingSet.1 st.s.selectWorkingSet.2.1 h
    exact ⟨this.1, fun hc => absurd hc this.2⟩

theorem solveLoopX_spec (eps : Rat) : ∀ (fuel : Nat) (st : SolveStX Rat), SxInv st.s →
    SxInv (solveLoopX eps fuel st).s ∧ StoppedOKX eps (solveLoopX eps fuel st) := by
  intro fuel
  induction fuel with
  | zero => intro st h; exact ⟨sxInv_unshrink st.s h, fun hc => by simp [solveLoopX] at hc⟩
  | succ fuel ih =>
    intro st h
    have hb := solveBodyX_spec eps st h
    unfold solveLoopX
    dsimp only
    split_ifs with hr
    · exact ih _ hb.1
    · exact hb

/-- the loop the driver runs is the modelled loop when the re-tabulation is the identity -/
theorem solveLoopXWith_id (eps : Rat) (fuel : Nat) (st : SolveStX Rat) :
    solveLoopXWith id eps fuel st = solveLoopX eps fuel st := by
  induction fuel generalizing st with
  | zero => rfl
  | succ fuel ih =>
    unfold solveLoopXWith solveLoopX
    dsimp only [id]
    split_ifs
    · exact ih _
    · rfl

/-- **every state reached by `QpSolver<QpMcSimplexDecomp>::solve`** satisfies the tables, gradient and simplex
invariants — for every accuracy, iteration limit, shrinking on or off, from any state that satisfies them -/
theorem sxInv_solveX (s : McSx Rat) (h : SxInv s) (eps : Rat) (maxIter : Nat) : SxInv (solveX s eps maxIter).s :=
  (solveLoopX_spec eps maxIter _ h).1


/-! ### the stopping rule of the simplex problem -/

theorem mvpStep_down (s : McSx Rat) (e : Nat) (st : Rat × Nat × Rat × Nat) (p : Nat) :
    (mvpStep s e st p).2.2.1 ≤ st.2.2.1 ∧
    (0 < s.b.alpha ((s.b.ex e).avar p) → (mvpStep s e st p).2.2.1 ≤ s.b.grad ((s.b.ex e).avar p)) := by
  unfold mvpStep
  dsimp only
  rw [z0]
  split_ifs with h1 h2 h3 <;> (try dsimp only) <;> constructor <;>
    first
      | exact le_refl _
      | exact le_of_lt h2.2
      | exact le_of_lt h3.2
      | (intro _; exact le_refl _)
      | (intro ha; exact not_lt.mp (fun hh => h2 ⟨ha, hh⟩))
      | (intro ha; exact not_lt.mp (fun hh => h3 ⟨ha, hh⟩))

/-- `down` of `getSimplexMVP` is below the gradient of every active variable with a positive value -/
theorem mvp_down_le (s : McSx Rat) (e : Nat) :
    ∀ b < (s.b.ex e).active, 0 < s.b.alpha ((s.b.ex e).avar b) →
      (s.simplexMVP e).2.2.1 ≤ s.b.grad ((s.b.ex e).avar b) := by
  rw [simplexMVP_eq]
  generalize (s.b.ex e).active = n
  generalize (-(1.e100 : Rat), (s.b.ex e).avar 0, (1.e100 : Rat), (s.b.ex e).avar 0) = init
  induction n with
  | zero => intro b hb; omega
  | succ n ih =>
    intro b hb ha
    rw [List.range_succ, List.foldl_append, List.foldl_cons, List.foldl_nil]
    have hs := mvpStep_down s e ((List.range n).foldl (mvpStep s e) init) n
    by_cases hbn : b = n
    · subst hbn; exact hs.2 ha
    · exact le_trans hs.1 (ih b (by omega) ha)

/-- loop body of `checkKKT` -/
def kktStepX (s : McSx Rat) (ret : Rat) (i : Nat) : Rat :=
  let m := s.simplexMVP i
  let up := m.1
  let down := m.2.2.1
  let ret := cmax (-down) ret
  let ret := if s.vsum i < s.b.C then cmax up ret else ret
  if s.vsum i == s.b.C then cmax (up - down) ret else ret

theorem checkKKTX_eq (s : McSx Rat) : s.checkKKT = (List.range s.b.activeEx).foldl (kktStepX s) (0.0 : Rat) := rfl

theorem kktStepX_spec (s : McSx Rat) (ret : Rat) (i : Nat) :
    ret ≤ kktStepX s ret i ∧ -(s.simplexMVP i).2.2.1 ≤ kktStepX s ret i ∧
    (s.vsum i < s.b.C → (s.simplexMVP i).1 ≤ kktStepX s ret i) ∧
    (s.vsum i = s.b.C → (s.simplexMVP i).1 - (s.simplexMVP i).2.2.1 ≤ kktStepX s ret i) := by
  unfold kktStepX
  dsimp only
  have a1 := le_cmax_left (-(s.simplexMVP i).2.2.1) ret
  have a2 := le_cmax_right (-(s.simplexMVP i).2.2.1) ret
  have b1 := le_cmax_left (s.simplexMVP i).1 (cmax (-(s.simplexMVP i).2.2.1) ret)
  have b2 := le_cmax_right (s.simplexMVP i).1 (cmax (-(s.simplexMVP i).2.2.1) ret)
  by_cases h1 : s.vsum i < s.b.C
  · rw [if_pos h1]
    have hne : ¬ ((s.vsum i == s.b.C) = true) := by simp; exact ne_of_lt h1
    rw [if_neg hne]
    exact ⟨le_trans a2 b2, le_trans a1 b2, fun _ => b1, fun h => absurd h (ne_of_lt h1)⟩
  · rw [if_neg h1]
    by_cases h2 : (s.vsum i == s.b.C) = true
    · rw [if_pos h2]
      have c1 := le_cmax_left ((s.simplexMVP i).1 - (s.simplexMVP i).2.2.1) (cmax (-(s.simplexMVP i).2.2.1) ret)
      have c2 := le_cmax_right ((s.simplexMVP i).1 - (s.simplexMVP i).2.2.1) (cmax (-(s.simplexMVP i).2.2.1) ret)
      exact ⟨le_trans a2 c2, le_trans a1 c2, fun h => absurd h h1, fun _ => c1⟩
    · rw [if_neg h2]
      exact ⟨a2, a1, fun h => absurd h h1, fun h => absurd (by simpa using h) h2⟩

theorem checkKKTX_spec (s : McSx Rat) :
    0 ≤ s.checkKKT ∧ ∀ i < s.b.activeEx, -(s.simplexMVP i).2.2.1 ≤ s.checkKKT ∧
      (s.vsum i < s.b.C → (s.simplexMVP i).1 ≤ s.checkKKT) ∧
      (s.vsum i = s.b.C → (s.simplexMVP i).1 - (s.simplexMVP i).2.2.1 ≤ s.checkKKT) := by
  rw [checkKKTX_eq]
  generalize s.b.activeEx = n
  induction n with
  | zero => exact ⟨by rw [List.range_zero, List.foldl_nil, z0], fun i hi => absurd hi (Nat.not_lt_zero i)⟩
  | succ n ih =>
    rw [List.range_succ, List.foldl_append, List.foldl_cons, List.foldl_nil]
    have hs := kktStepX_spec s ((List.range n).foldl (kktStepX s) (0.0 : Rat)) n
    refine ⟨le_trans ih.1 hs.1, fun i hi => ?_⟩
    by_cases hin : i = n
    · subst hin; exact hs.2
    · have := ih.2 i (by omega)
      exact ⟨le_trans this.1 hs.1, fun h => le_trans (this.2.1 h) hs.1, fun h => le_trans (this.2.2 h) hs.1⟩

/-- KKT up to `eps` for the problem with one sum constraint per example, in terms of the tracked `varsum`:
no variable can be decreased, none increased if the example is strictly inside, and no pair exchanged along the
constraint if the example is at the bound, with a gain rate of `eps` or more -/
def KKTsx (s : McSx Rat) (eps : Rat) : Prop :=
  ∀ e < s.b.n, ∀ b < (s.b.ex e).active,
    (0 < s.b.alpha ((s.b.ex e).avar b) → -(s.b.grad ((s.b.ex e).avar b)) < eps) ∧
    (s.vsum e < s.b.C → s.b.grad ((s.b.ex e).avar b) < eps) ∧
    (s.vsum e = s.b.C → ∀ b' < (s.b.ex e).active, 0 < s.b.alpha ((s.b.ex e).avar b') →
      s.b.grad ((s.b.ex e).avar b) - s.b.grad ((s.b.ex e).avar b') < eps)

theorem kktsx_of_checkKKT (s : McSx Rat) (hall : s.b.activeEx = s.b.n) (eps : Rat) (h : s.checkKKT < eps) :
    KKTsx s eps := by
  intro e he b hb
  obtain ⟨c1, c2, c3⟩ := (checkKKTX_spec s).2 e (by rw [hall]; exact he)
  have hup := mvp_up_ge s e b hb
  refine ⟨fun ha => ?_, fun hv => ?_, fun hv b' hb' ha' => ?_⟩
  · have := mvp_down_le s e b hb ha; linarith
  · have := c2 hv; linarith
  · have := mvp_down_le s e b' hb' ha'
    have := c3 hv
    linarith

/-- `QpAccuracyReached` ⇒ everything is active, the stored gradient is the true gradient (`SxInv.grad`) and it is
eps-KKT for the simplex-constrained dual -/
theorem solveX_stop_kkt (s : McSx Rat) (h : SxInv s) (eps : Rat) (maxIter : Nat)
    (hstop : (solveX s eps maxIter).stop = .accuracy) :
    (solveX s eps maxIter).s.b.activeVar = (solveX s eps maxIter).s.b.P * (solveX s eps maxIter).s.b.n ∧
    KKTsx (solveX s eps maxIter).s eps := by
  obtain ⟨h1, h2, h3⟩ := (solveLoopX_spec eps maxIter _ h).2 hstop
  exact ⟨h1, kktsx_of_checkKKT _ h2 eps h3⟩

end SharkVerif.Mc
