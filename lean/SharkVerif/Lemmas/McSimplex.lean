/-
Invariants of the `QpMcSimplexDecomp` model (`Model/McSimplex.lean`) at `α := Rat`.

* `solve2DTriangle_mem`: the triangle sub-solver returns a point of the triangle;
* `gradInv_stepVar`: moving ONE variable to an arbitrary value and applying `gradientUpdate` with the step keeps
  the gradient invariant (the box and the simplex `updateSMO` are compositions of such steps);
* `SxInv`: tables / gradient invariants of the embedded `McBox` record + **mc_simplex_inv**
  (`0 ≤ α`, `0 ≤ varsum ≤ C`, `varsum ≥ Σ_p α − 1e-14`, hence `Σ_p α_{i,p} ≤ C + 1e-14`: the code snaps `varsum`
  to `0`/`C` within `1e-14`, so the constraint holds up to that slack and no better);
* preserved by `updateSMO`, `deactivateVariable`, `unshrink`, `addDeltaLinear`, `shrink`, and by every pass of
  `QpSolver::solve` (`sxInv_solveX`).
-/
import SharkVerif.Lemmas.McSolve
import SharkVerif.Model.McSimplex
namespace SharkVerif.Mc
open Finset Grad

private theorem z0 : (0.0 : Rat) = 0 := by norm_num

/-! ### sub-solvers -/

/-- membership in the triangle `0 ≤ x, 0 ≤ y, x + y ≤ m` -/
def InTri (m : Rat) (x : Rat × Rat) : Prop := 0 ≤ x.1 ∧ 0 ≤ x.2 ∧ x.1 + x.2 ≤ m

theorem triSnap_mem (m : Rat) (_hm : 0 ≤ m) (r : Rat × Rat) (hr : InTri m r) : InTri m (triSnap m r) := by
  obtain ⟨h1, h2, h3⟩ := hr
  unfold triSnap InTri
  dsimp only
  rw [z0]
  split_ifs <;> refine ⟨?_, ?_, ?_⟩ <;> (try dsimp only) <;> linarith

theorem triPick_mem (P : Rat × Rat → Prop) (ai aj gi gj Qii Qij Qjj : Rat) (best : (Rat × Rat) × Rat)
    (s : Rat × Rat) (hb : P best.1) (hs : P s) : P (triPick ai aj gi gj Qii Qij Qjj best s).1 := by
  unfold triPick
  dsimp only
  split_ifs
  · exact hs
  · exact hb

theorem triEdge0_mem (ai aj gj Qij Qjj m : Rat) (hm : 0 ≤ m) : InTri m (triEdge0 ai aj gj Qij Qjj m) := by
  unfold triEdge0 InTri
  rw [z0]
  have e := solveEdge_mem aj (gj + Qij * ai) Qjj 0 m hm
  exact ⟨le_refl _, e.1, by dsimp only; linarith [e.2]⟩

theorem triEdge1_mem (ai aj gi Qii Qij m : Rat) (hm : 0 ≤ m) : InTri m (triEdge1 ai aj gi Qii Qij m) := by
  unfold triEdge1 InTri
  rw [z0]
  have e := solveEdge_mem ai (gi + Qij * aj) Qii 0 m hm
  exact ⟨e.1, le_refl _, by dsimp only; linarith [e.2]⟩

theorem triEdge2_mem (ai aj gi gj Qii Qij Qjj m : Rat) (hm : 0 ≤ m) :
    InTri m (triEdge2 ai aj gi gj Qii Qij Qjj m) := by
  unfold triEdge2 InTri
  dsimp only
  rw [z0]
  have e := solveEdge_mem 0 (gj - (m - ai) * Qij + aj * Qjj - (gi - (m - ai) * Qii + aj * Qij))
    (Qii + Qjj - 2.0 * Qij) 0 m hm
  exact ⟨by linarith [e.2], e.1, by linarith⟩

theorem solve2DTriangle_mem (ai aj gi gj Qii Qij Qjj m : Rat) (hm : 0 ≤ m) :
    InTri m (solve2DTriangle ai aj gi gj Qii Qij Qjj m) := by
  unfold solve2DTriangle
  dsimp only
  split_ifs with hc
  · obtain ⟨_, h1, h2, h3⟩ := hc
    rw [z0] at h1 h2
    exact ⟨le_of_lt h1, le_of_lt h2, le_of_lt h3⟩
  · apply triSnap_mem m hm
    have t0 := triEdge0_mem ai aj gj Qij Qjj m hm
    have t1 := triEdge1_mem ai aj gi Qii Qij m hm
    have t2 := triEdge2_mem ai aj gi gj Qii Qij Qjj m hm
    exact triPick_mem (InTri m) _ _ _ _ _ _ _ _ _
      (triPick_mem (InTri m) _ _ _ _ _ _ _ _ _ (triPick_mem (InTri m) _ _ _ _ _ _ _ _ _ t0 t0) t1) t2

/-! ### one-variable steps and the gradient invariant -/

/-- variable `v` moved to `a'`, then `gradientUpdate` with the step `a' − α_v` (the common core of `updateSMO`
of both decomposition classes) -/
def stepVar (s : McBox Rat) (v : Nat) (a' : Rat) : McBox Rat :=
  ({ s with alpha := upd s.alpha v a' }).gradientUpdate
    (s.P * (s.ex (s.vars v).i).y + (s.vars v).p) (-(s.alpha v) + a') (s.vars v).i

theorem tablesInv_stepVar (s : McBox Rat) (ht : TablesInv s) (v : Nat) (a' : Rat) :
    TablesInv (stepVar s v a') := tablesInv_congr ht rfl rfl rfl rfl rfl rfl rfl

theorem sameStatic_stepVar (s : McBox Rat) (v : Nat) (a' : Rat) : SameStatic s (stepVar s v a') :=
  ⟨rfl, rfl, rfl, rfl, rfl, rfl, rfl⟩

theorem gradInv_stepVar (s : McBox Rat) (ht : TablesInv s) (hm : MWF s) (hq : QSym s) (hl : LabelsOK s)
    (h : GradInv s) (v : Nat) (hv : v < s.activeVar) (a' : Rat) : GradInv (stepVar s v a') := by
  intro f hf
  have hf' : f < s.activeVar := hf
  have hfn := lt_of_lt_of_le hf' ht.aV_le
  have hvn := lt_of_lt_of_le hv ht.aV_le
  have hg := gradientUpdate_grad ({ s with alpha := upd s.alpha v a' })
    (tablesInv_setAlpha ht _) hm (s.P * (s.ex (s.vars v).i).y + (s.vars v).p) (-(s.alpha v) + a')
    (s.vars v).i f hf'
  show (({ s with alpha := upd s.alpha v a' }).gradientUpdate _ _ _).grad f
    = s.lin f - ∑ w ∈ range (s.P * s.n), s.Q f w * upd s.alpha v a' w
  rw [hg, sum_upd _ _ _ _ _ hvn]
  have e := Q_symm_entry s ht hq hl f v hfn hvn
  show s.grad f - (-(s.alpha v) + a') * s.Mget (s.c * (s.P * (s.ex (s.vars v).i).y + (s.vars v).p)
    + (s.ex (s.vars f).i).y) (s.vars f).p * s.kpos (s.vars v).i (s.vars f).i = _
  rw [h f hf', ← e]
  ring

theorem stepVar_alpha (s : McBox Rat) (v : Nat) (a' : Rat) : (stepVar s v a').alpha = upd s.alpha v a' := rfl

/-- the two-variable update of the decomposition classes is two one-variable steps -/
theorem stepVar_twice (s : McBox Rat) (v w : Nat) (hvw : v ≠ w) (a1 a2 : Rat) :
    stepVar (stepVar s v a1) w a2 =
      (({ s with alpha := upd (upd s.alpha v a1) w a2 }).gradientUpdate
          (s.P * (s.ex (s.vars v).i).y + (s.vars v).p) (-(s.alpha v) + a1) (s.vars v).i).gradientUpdate
        (s.P * (s.ex (s.vars w).i).y + (s.vars w).p) (-(s.alpha w) + a2) (s.vars w).i := by
  have hw : upd s.alpha v a1 w = s.alpha w := by unfold upd; rw [if_neg (Ne.symm hvw)]
  unfold stepVar
  simp only [Grad.McBox.gradientUpdate_alpha, Grad.McBox.gradientUpdate_vars, Grad.McBox.gradientUpdate_ex, Grad.McBox.gradientUpdate_P]
  rw [hw]
  rfl

/-! ### the simplex invariant -/

/-- `Σ_p α(var e p)`: the true sum of the variables of the example at position `e` -/
def McSx.asum (s : McSx Rat) (e : Nat) : Rat := ∑ p ∈ range s.b.P, s.b.alpha ((s.b.ex e).var p)

/-- per-example part of the simplex invariant: `0 ≤ varsum ≤ C` and `varsum ≥ Σα − 1e-14` -/
def Good (s : McSx Rat) (e : Nat) : Prop :=
  0 ≤ s.vsum e ∧ s.vsum e ≤ s.b.C ∧ s.asum e - (1.e-14 : Rat) ≤ s.vsum e

/-- **mc_simplex_inv** -/
structure SimplexInv (s : McSx Rat) : Prop where
  nonneg : ∀ v < s.b.P * s.b.n, 0 ≤ s.b.alpha v
  good : ∀ e < s.b.n, Good s e

/-- the constraint the formulation states, up to the snapping slack of the code -/
theorem SimplexInv.sum_le {s : McSx Rat} (h : SimplexInv s) (e : Nat) (he : e < s.b.n) :
    s.asum e ≤ s.b.C + (1.e-14 : Rat) := by
  obtain ⟨_, h2, h3⟩ := h.good e he
  linarith

theorem foldl_add_eq_sum (f : Nat → Rat) (n : Nat) (z : Rat) :
    (List.range n).foldl (fun acc p => acc + f p) z = z + ∑ p ∈ range n, f p := by
  induction n with
  | zero => simp
  | succ n ih => rw [List.range_succ, List.foldl_append, List.foldl_cons, List.foldl_nil, ih, sum_range_succ]; ring

theorem updateVarsum_b (s : McSx Rat) (e : Nat) (mu : Rat) : (s.updateVarsum e mu).b = s.b := by
  unfold McSx.updateVarsum
  dsimp only
  split_ifs <;> rfl

/-- value `updateVarsum` stores for the example -/
theorem updateVarsum_good (s : McSx Rat) (hC : 0 ≤ s.b.C) (e : Nat) (mu : Rat)
    (hnn : 0 ≤ s.asum e) (hsum : s.asum e ≤ s.b.C + (1.e-14 : Rat))
    (hd : s.asum e - (1.e-14 : Rat) ≤ s.vsum e + mu) : Good (s.updateVarsum e mu) e := by
  have hfold : (List.range s.b.P).foldl (fun acc p => acc + s.b.alpha ((s.b.ex e).var p)) (0.0 : Rat) = s.asum e := by
    rw [foldl_add_eq_sum, z0, zero_add]; rfl
  unfold Good McSx.vsum McSx.asum
  rw [updateVarsum_b]
  unfold McSx.updateVarsum
  dsimp only
  rw [hfold]
  unfold McSx.vsum at hd
  unfold McSx.asum at hnn hsum hd ⊢
  split_ifs with h1 h2 h3 h3 <;> simp only [upd, if_true] <;> rw [z0] at * <;>
    refine ⟨?_, ?_, ?_⟩ <;> norm_num at * <;> linarith

theorem updateVarsum_other (s : McSx Rat) (e : Nat) (mu : Rat) (idx : Nat) (h : idx ≠ (s.b.ex e).index) :
    (s.updateVarsum e mu).varsum idx = s.varsum idx := by
  unfold McSx.updateVarsum
  dsimp only
  split_ifs <;> simp only [upd, if_neg h]

/-- `Good` only reads `ex`, `P`, `C`, the varsum of the example and its true sum -/
theorem Good.congr {s s' : McSx Rat} {e : Nat} (h : Good s e) (hex : s'.b.ex = s.b.ex) (hC : s'.b.C = s.b.C)
    (hv : s'.varsum (s.b.ex e).index = s.varsum (s.b.ex e).index) (ha : s'.asum e = s.asum e) : Good s' e := by
  unfold Good McSx.vsum at *
  rw [hex, hC, hv, ha]
  exact h

/-! ### effect of moving one variable on the per-example sums -/

theorem var_eq_iff (b : McBox Rat) (ht : TablesInv b) (v : Nat) (hv : v < b.P * b.n) (e p : Nat) (he : e < b.n)
    (hp : p < b.P) : (b.ex e).var p = v ↔ e = (b.vars v).i ∧ p = (b.vars v).p := by
  constructor
  · intro h
    exact ⟨by rw [← h, ht.var_i e he p hp], by rw [← h, ht.var_p e he p hp]⟩
  · rintro ⟨rfl, rfl⟩
    exact ht.v_var v hv

theorem sum_upd_var_same (b : McBox Rat) (ht : TablesInv b) (v : Nat) (hv : v < b.P * b.n) (a' : Rat) :
    ∑ p ∈ range b.P, upd b.alpha v a' ((b.ex (b.vars v).i).var p)
      = ∑ p ∈ range b.P, b.alpha ((b.ex (b.vars v).i).var p) + (a' - b.alpha v) := by
  have hi := ht.v_i_lt v hv
  have hp0 := ht.v_p_lt v hv
  have : ∀ p ∈ range b.P, upd b.alpha v a' ((b.ex (b.vars v).i).var p)
      = b.alpha ((b.ex (b.vars v).i).var p) + (if p = (b.vars v).p then a' - b.alpha v else 0) := by
    intro p hp
    have hp' := mem_range.mp hp
    have hiff := var_eq_iff b ht v hv (b.vars v).i p hi hp'
    unfold upd
    by_cases h : (b.ex (b.vars v).i).var p = v
    · rw [if_pos h, if_pos (hiff.mp h).2, h]; ring
    · rw [if_neg h, if_neg (fun hh => h (hiff.mpr ⟨rfl, hh⟩))]; ring
  rw [sum_congr rfl this, sum_add_distrib, sum_ite_eq', if_pos (mem_range.mpr hp0)]

theorem sum_upd_var_other (b : McBox Rat) (ht : TablesInv b) (v : Nat) (hv : v < b.P * b.n) (a' : Rat)
    (e : Nat) (he : e < b.n) (hne : e ≠ (b.vars v).i) :
    ∑ p ∈ range b.P, upd b.alpha v a' ((b.ex e).var p) = ∑ p ∈ range b.P, b.alpha ((b.ex e).var p) := by
  refine sum_congr rfl fun p hp => ?_
  have hiff := var_eq_iff b ht v hv e p he (mem_range.mp hp)
  unfold upd
  rw [if_neg (fun h => hne (hiff.mp h).1)]

theorem asum_nonneg (s : McSx Rat) (ht : TablesInv s.b) (hnn : ∀ v < s.b.P * s.b.n, 0 ≤ s.b.alpha v)
    (e : Nat) (he : e < s.b.n) : 0 ≤ s.asum e :=
  sum_nonneg fun p hp => hnn _ (ht.var_lt e he p (mem_range.mp hp))

/-- `updateVarsum` for example `i` leaves the other examples as they are -/
theorem updateVarsum_keeps (s : McSx Rat) (ht : TablesInv s.b) (i : Nat) (hi : i < s.b.n) (mu : Rat)
    (e : Nat) (he : e < s.b.n) (hne : e ≠ i) (h : Good s e) : Good (s.updateVarsum i mu) e := by
  refine h.congr (by rw [updateVarsum_b]) (by rw [updateVarsum_b]) ?_ (by unfold McSx.asum; rw [updateVarsum_b])
  exact updateVarsum_other s i mu _ (fun hh => hne (ht.index_inj e he i hi hh))

/-- a state whose alpha was changed (anyhow) and one `updateVarsum` on example `i` -/
theorem simplexInv_updateVarsum (s1 : McSx Rat) (ht : TablesInv s1.b) (hC : 0 ≤ s1.b.C)
    (hnn : ∀ v < s1.b.P * s1.b.n, 0 ≤ s1.b.alpha v) (i : Nat) (hi : i < s1.b.n) (mu : Rat)
    (hsum : s1.asum i ≤ s1.b.C + (1.e-14 : Rat)) (hd : s1.asum i - (1.e-14 : Rat) ≤ s1.vsum i + mu)
    (hothers : ∀ e < s1.b.n, e ≠ i → Good s1 e) : SimplexInv (s1.updateVarsum i mu) := by
  constructor
  · rw [updateVarsum_b]; exact hnn
  · rw [updateVarsum_b]
    intro e he
    by_cases hei : e = i
    · subst hei
      exact updateVarsum_good s1 hC e mu (asum_nonneg s1 ht hnn e he) hsum hd
    · exact updateVarsum_keeps s1 ht i hi mu e he hei (hothers e he hei)

/-- state with a new alpha vector -/
def McSx.setAlpha (s : McSx Rat) (a : Nat → Rat) : McSx Rat := { s with b := { s.b with alpha := a } }

theorem good_setAlpha_other (s : McSx Rat) (a : Nat → Rat) (e : Nat) (h : Good s e)
    (ha : (s.setAlpha a).asum e = s.asum e) : Good (s.setAlpha a) e :=
  h.congr rfl rfl rfl ha

theorem nonneg_upd (al : Nat → Rat) (N v : Nat) (a' : Rat) (h : ∀ x < N, 0 ≤ al x) (h0 : 0 ≤ a') :
    ∀ x < N, 0 ≤ upd al v a' x := by
  intro x hx; unfold upd; split_ifs
  · exact h0
  · exact h x hx

/-- one variable moved inside `[0, C − varsum + α_v]` -/
theorem simplexInv_move1 (s : McSx Rat) (ht : TablesInv s.b) (hC : 0 ≤ s.b.C) (hs : SimplexInv s)
    (v : Nat) (hv : v < s.b.P * s.b.n) (a' : Rat) (h0 : 0 ≤ a')
    (hU : a' ≤ s.b.C - s.vsum (s.b.vars v).i + s.b.alpha v) :
    SimplexInv ((s.setAlpha (upd s.b.alpha v a')).updateVarsum (s.b.vars v).i (-(s.b.alpha v) + a')) := by
  have hi := ht.v_i_lt v hv
  have hsum1 : (s.setAlpha (upd s.b.alpha v a')).asum (s.b.vars v).i = s.asum (s.b.vars v).i + (a' - s.b.alpha v) :=
    sum_upd_var_same s.b ht v hv a'
  obtain ⟨_, _, g3⟩ := hs.good _ hi
  refine simplexInv_updateVarsum (s.setAlpha (upd s.b.alpha v a')) (tablesInv_setAlpha ht _) hC
    (nonneg_upd _ _ _ _ hs.nonneg h0) _ hi _ ?_ ?_ ?_
  · rw [hsum1]; show _ ≤ s.b.C + _; linarith
  · rw [hsum1]; show _ ≤ s.vsum _ + _; linarith
  · intro e he hne
    exact good_setAlpha_other s _ e (hs.good e he) (sum_upd_var_other s.b ht v hv a' e he hne)

/-- two variables of the SAME example moved inside the triangle `a1 + a2 ≤ C − varsum + α_v + α_w` -/
theorem simplexInv_move2same (s : McSx Rat) (ht : TablesInv s.b) (hC : 0 ≤ s.b.C) (hs : SimplexInv s)
    (v w : Nat) (hv : v < s.b.P * s.b.n) (hw : w < s.b.P * s.b.n) (hvw : v ≠ w)
    (hsame : (s.b.vars v).i = (s.b.vars w).i) (a1 a2 : Rat) (h1 : 0 ≤ a1) (h2 : 0 ≤ a2)
    (hU : a1 + a2 ≤ s.b.C - s.vsum (s.b.vars v).i + s.b.alpha v + s.b.alpha w) :
    SimplexInv ((s.setAlpha (upd (upd s.b.alpha v a1) w a2)).updateVarsum (s.b.vars v).i
      (-(s.b.alpha v) + a1 + (-(s.b.alpha w) + a2))) := by
  have hi := ht.v_i_lt v hv
  have hw' : upd s.b.alpha v a1 w = s.b.alpha w := by unfold upd; rw [if_neg (Ne.symm hvw)]
  have ht' : TablesInv (s.setAlpha (upd s.b.alpha v a1)).b := tablesInv_setAlpha ht _
  have hsum1 : (s.setAlpha (upd (upd s.b.alpha v a1) w a2)).asum (s.b.vars v).i
      = s.asum (s.b.vars v).i + (a1 - s.b.alpha v) + (a2 - s.b.alpha w) := by
    have e1 := sum_upd_var_same (s.setAlpha (upd s.b.alpha v a1)).b ht' w hw a2
    have e2 := sum_upd_var_same s.b ht v hv a1
    show ∑ p ∈ range s.b.P, upd (upd s.b.alpha v a1) w a2 ((s.b.ex (s.b.vars v).i).var p) = _
    rw [hsame]
    rw [hsame] at e2
    have e1' : ∑ p ∈ range s.b.P, upd (upd s.b.alpha v a1) w a2 ((s.b.ex (s.b.vars w).i).var p)
        = ∑ p ∈ range s.b.P, upd s.b.alpha v a1 ((s.b.ex (s.b.vars w).i).var p) + (a2 - upd s.b.alpha v a1 w) := e1
    rw [e1', e2, hw']
    rfl
  obtain ⟨_, _, g3⟩ := hs.good _ hi
  refine simplexInv_updateVarsum (s.setAlpha (upd (upd s.b.alpha v a1) w a2)) (tablesInv_setAlpha ht _) hC
    (nonneg_upd _ _ _ _ (nonneg_upd _ _ _ _ hs.nonneg h1) h2) _ hi _ ?_ ?_ ?_
  · rw [hsum1]; show _ ≤ s.b.C + _; linarith
  · rw [hsum1]; show _ ≤ s.vsum _ + _; linarith
  · intro e he hne
    refine good_setAlpha_other s _ e (hs.good e he) ?_
    have e1 := sum_upd_var_other (s.setAlpha (upd s.b.alpha v a1)).b ht' w hw a2 e he (show e ≠ (s.b.vars w).i from hsame ▸ hne)
    have e2 := sum_upd_var_other s.b ht v hv a1 e he hne
    exact e1.trans e2

/-- two variables of DIFFERENT examples moved inside their boxes -/
theorem simplexInv_move2diff (s : McSx Rat) (ht : TablesInv s.b) (hC : 0 ≤ s.b.C) (hs : SimplexInv s)
    (v w : Nat) (hv : v < s.b.P * s.b.n) (hw : w < s.b.P * s.b.n)
    (hdiff : (s.b.vars v).i ≠ (s.b.vars w).i) (a1 a2 : Rat) (h1 : 0 ≤ a1) (h2 : 0 ≤ a2)
    (hU1 : a1 ≤ s.b.C - s.vsum (s.b.vars v).i + s.b.alpha v)
    (hU2 : a2 ≤ s.b.C - s.vsum (s.b.vars w).i + s.b.alpha w) :
    SimplexInv (((s.setAlpha (upd (upd s.b.alpha v a1) w a2)).updateVarsum (s.b.vars v).i
      (-(s.b.alpha v) + a1)).updateVarsum (s.b.vars w).i (-(s.b.alpha w) + a2)) := by
  have hiv := ht.v_i_lt v hv
  have hiw := ht.v_i_lt w hw
  have hvw : v ≠ w := fun h => hdiff (by rw [h])
  have hw' : upd s.b.alpha v a1 w = s.b.alpha w := by unfold upd; rw [if_neg (Ne.symm hvw)]
  have ht' : TablesInv (s.setAlpha (upd s.b.alpha v a1)).b := tablesInv_setAlpha ht _
  set s1 := s.setAlpha (upd (upd s.b.alpha v a1) w a2) with hs1
  have ht1 : TablesInv s1.b := tablesInv_setAlpha ht _
  have hnn1 : ∀ x < s1.b.P * s1.b.n, 0 ≤ s1.b.alpha x :=
    nonneg_upd _ _ _ _ (nonneg_upd _ _ _ _ hs.nonneg h1) h2
  -- sums of the two examples after the move
  have hsumv : s1.asum (s.b.vars v).i = s.asum (s.b.vars v).i + (a1 - s.b.alpha v) := by
    have e1 := sum_upd_var_other (s.setAlpha (upd s.b.alpha v a1)).b ht' w hw a2 _ hiv hdiff
    have e2 := sum_upd_var_same s.b ht v hv a1
    exact e1.trans e2
  have hsumw : s1.asum (s.b.vars w).i = s.asum (s.b.vars w).i + (a2 - s.b.alpha w) := by
    have e1 := sum_upd_var_same (s.setAlpha (upd s.b.alpha v a1)).b ht' w hw a2
    have e2 := sum_upd_var_other s.b ht v hv a1 _ hiw (Ne.symm hdiff)
    have e1' : s1.asum (s.b.vars w).i
        = ∑ p ∈ range s.b.P, upd s.b.alpha v a1 ((s.b.ex (s.b.vars w).i).var p) + (a2 - upd s.b.alpha v a1 w) := e1
    rw [e1', e2, hw']; rfl
  have hother : ∀ e < s.b.n, e ≠ (s.b.vars v).i → e ≠ (s.b.vars w).i → Good s1 e := by
    intro e he hn1 hn2
    refine good_setAlpha_other s _ e (hs.good e he) ?_
    have e1 := sum_upd_var_other (s.setAlpha (upd s.b.alpha v a1)).b ht' w hw a2 e he hn2
    have e2 := sum_upd_var_other s.b ht v hv a1 e he hn1
    exact e1.trans e2
  obtain ⟨_, _, gv3⟩ := hs.good _ hiv
  obtain ⟨_, _, gw3⟩ := hs.good _ hiw
  -- first update
  have hgv : Good (s1.updateVarsum (s.b.vars v).i (-(s.b.alpha v) + a1)) (s.b.vars v).i := by
    refine updateVarsum_good s1 hC _ _ (asum_nonneg s1 ht1 hnn1 _ hiv) ?_ ?_
    · rw [hsumv]; show _ ≤ s.b.C + _; linarith
    · rw [hsumv]; show _ ≤ s.vsum _ + _; linarith
  set s2 := s1.updateVarsum (s.b.vars v).i (-(s.b.alpha v) + a1) with hs2
  have hb2 : s2.b = s1.b := updateVarsum_b _ _ _
  have hvs2 : s2.vsum (s.b.vars w).i = s.vsum (s.b.vars w).i := by
    unfold McSx.vsum
    rw [hb2]
    exact updateVarsum_other s1 _ _ _ (fun hh => hdiff (ht.index_inj _ hiw _ hiv hh).symm)
  have hasum2 : ∀ e, s2.asum e = s1.asum e := by intro e; unfold McSx.asum; rw [hb2]
  refine simplexInv_updateVarsum s2 (hb2 ▸ ht1) (by rw [hb2]; exact hC) (by rw [hb2]; exact hnn1) _
    (by rw [hb2]; exact hiw) _ ?_ ?_ ?_
  · rw [hasum2, hsumw, hb2]; show _ ≤ s.b.C + _; linarith
  · rw [hasum2, hsumw, hvs2]; linarith
  · rw [hb2]
    intro e he hne
    by_cases hev : e = (s.b.vars v).i
    · rw [hev]; exact hgv
    · exact updateVarsum_keeps s1 ht1 _ hiv _ e he hev (hother e he hev hne)

/-! ### all invariants of the simplex decomposition state -/

structure SxInv (s : McSx Rat) : Prop where
  tables : TablesInv s.b
  grad : GradInv s.b
  mwf : MWF s.b
  qsym : QSym s.b
  labelsOK : LabelsOK s.b
  C_nonneg : 0 ≤ s.b.C
  simplex : SimplexInv s

theorem SxInv.of_parts {s s' : McSx Rat} (h : SxInv s) (hs : SameStatic s.b s'.b) (ht : TablesInv s'.b)
    (hg : GradInv s'.b) (hx : SimplexInv s') : SxInv s' where
  tables := ht
  grad := hg
  mwf := h.mwf.transfer hs
  qsym := h.qsym.transfer hs
  labelsOK := h.labelsOK.transfer hs
  C_nonneg := by rw [hs.2.2.2.1]; exact h.C_nonneg
  simplex := hx

/-- `SimplexInv` reads `alpha`, the `var`/`index` fields of the example records, `P`, `n`, `C` and `varsum` -/
theorem SimplexInv.congr {s s' : McSx Rat} (h : SimplexInv s) (hα : s'.b.alpha = s.b.alpha)
    (hvar : ∀ e, (s'.b.ex e).var = (s.b.ex e).var) (hidx : ∀ e, (s'.b.ex e).index = (s.b.ex e).index)
    (hP : s'.b.P = s.b.P) (hn : s'.b.n = s.b.n) (hC : s'.b.C = s.b.C) (hvs : s'.varsum = s.varsum) :
    SimplexInv s' := by
  constructor
  · rw [hP, hn, hα]; exact h.nonneg
  · rw [hn]
    intro e he
    have := h.good e he
    unfold Good McSx.vsum McSx.asum at *
    rw [hidx, hvs, hC, hP, hα, hvar]
    exact this

theorem sxInv_init (c P n : Nat) (C : Rat) (hC : 0 ≤ C) (M : Nat → Row Rat) (K : Nat → Nat → Rat)
    (labels : Nat → Nat) (linMat : Nat → Nat → Rat) (hP : 0 < P)
    (hM : ∀ r, ((M r).entries.map Prod.fst).Nodup ∧ ∀ en ∈ (M r).entries, en.1 < P)
    (hMsym : ∀ y p y' p', y < c → y' < c → p < P → p' < P →
      (M (c * (P * y + p) + y')).get p' = (M (c * (P * y' + p') + y)).get p)
    (hK : ∀ i j, K i j = K j i) (hl : ∀ i < n, labels i < c) :
    SxInv (McSx.init c P n C M K labels linMat) := by
  have hf := fullInv_init c P n C hC M K labels linMat hP hM hMsym hK hl
  refine ⟨hf.tables, hf.grad, hf.mwf, hf.qsym, hf.labelsOK, hf.C_nonneg, ?_, ?_⟩
  · intro v _
    show 0 ≤ (0.0 : Rat)
    norm_num
  · intro e _
    have ha : (McSx.init c P n C M K labels linMat).asum e = 0 := by
      unfold McSx.asum
      apply sum_eq_zero
      intro p _
      show (0.0 : Rat) = 0
      norm_num
    have hv : (McSx.init c P n C M K labels linMat).vsum e = 0 := by
      show (0.0 : Rat) = 0
      norm_num
    unfold Good
    rw [ha, hv]
    refine ⟨le_refl _, hC, by norm_num⟩

theorem sxInv_unshrink (s : McSx Rat) (h : SxInv s) : SxInv s.unshrink := by
  refine h.of_parts (sameStatic_unshrink s.b) (tablesInv_unshrink s.b h.tables)
    (gradInv_unshrink s.b h.tables h.mwf h.qsym h.labelsOK h.grad) ?_
  refine h.simplex.congr (McBox.unshrink_alpha s.b) ?_ ?_ (McBox.unshrink_P s.b) (McBox.unshrink_n s.b)
    (sameStatic_unshrink s.b).2.2.2.1 rfl
  · intro e
    show (s.b.unshrink.ex e).var = _
    unfold McBox.unshrink; dsimp only; split_ifs with h1
    · rfl
    · show (if e < s.b.n then ({ s.b.ex e with active := s.b.P } : Ex) else s.b.ex e).var = _
      split_ifs <;> rfl
  · intro e
    show (s.b.unshrink.ex e).index = _
    unfold McBox.unshrink; dsimp only; split_ifs with h1
    · rfl
    · show (if e < s.b.n then ({ s.b.ex e with active := s.b.P } : Ex) else s.b.ex e).index = _
      split_ifs <;> rfl

theorem sxInv_addDeltaLinear (s : McSx Rat) (h : SxInv s) (d : Nat → Nat → Rat) : SxInv (s.addDeltaLinear d) :=
  h.of_parts (sameStatic_addDeltaLinear s.b d) (tablesInv_addDeltaLinear s.b h.tables d)
    (gradInv_addDeltaLinear s.b h.tables h.grad d)
    (h.simplex.congr rfl (fun _ => rfl) (fun _ => rfl) rfl rfl rfl rfl)

/-- setting the flag `bUnshrinked` -/
theorem sxInv_setFlag (s : McSx Rat) (h : SxInv s) (f : Bool) : SxInv { s with b := { s.b with unshrinked := f } } :=
  h.of_parts ⟨rfl, rfl, rfl, rfl, rfl, rfl, rfl⟩ (h.tables.congr rfl rfl rfl rfl rfl rfl rfl)
    (fun v hv => h.grad v hv) (h.simplex.congr rfl (fun _ => rfl) (fun _ => rfl) rfl rfl rfl rfl)

/-! ### updateSMO -/

theorem upperBound_nonneg (s : McSx Rat) (h : SxInv s) (v : Nat) (hv : v < s.b.P * s.b.n) :
    0 ≤ s.b.C - s.vsum (s.b.vars v).i + s.b.alpha v := by
  obtain ⟨_, g2, _⟩ := h.simplex.good _ (h.tables.v_i_lt v hv)
  have := h.simplex.nonneg v hv
  linarith

theorem sxInv_updateSMO (s : McSx Rat) (h : SxInv s) (v w : Nat) (hv : v < s.b.activeVar)
    (hw : w < s.b.activeVar) : SxInv (s.updateSMO v w) := by
  have hvn := lt_of_lt_of_le hv h.tables.aV_le
  have hwn := lt_of_lt_of_le hw h.tables.aV_le
  have hUv := upperBound_nonneg s h v hvn
  have hUw := upperBound_nonneg s h w hwn
  by_cases hvw : v = w
  · subst hvw
    have hmem := solveEdge_mem (s.b.alpha v) (s.b.grad v) (s.b.vars v).diagonal 0
      (s.b.C - s.vsum (s.b.vars v).i + s.b.alpha v) hUv
    have hx := simplexInv_move1 s h.tables h.C_nonneg h.simplex v hvn _ hmem.1 hmem.2
    have hb : (s.updateSMO v v).b = stepVar s.b v (solveEdge (s.b.alpha v) (s.b.grad v) (s.b.vars v).diagonal 0
        (s.b.C - s.vsum (s.b.vars v).i + s.b.alpha v)) := by
      unfold McSx.updateSMO
      rw [if_pos rfl]
      dsimp only
      rw [updateVarsum_b, z0]
      rfl
    have hvs : (s.updateSMO v v).varsum = ((s.setAlpha (upd s.b.alpha v (solveEdge (s.b.alpha v) (s.b.grad v)
        (s.b.vars v).diagonal 0 (s.b.C - s.vsum (s.b.vars v).i + s.b.alpha v)))).updateVarsum (s.b.vars v).i
        (-(s.b.alpha v) + solveEdge (s.b.alpha v) (s.b.grad v) (s.b.vars v).diagonal 0
          (s.b.C - s.vsum (s.b.vars v).i + s.b.alpha v))).varsum := by
      unfold McSx.updateSMO
      rw [if_pos rfl]
      dsimp only
      rw [z0]
      rfl
    refine h.of_parts (hb ▸ sameStatic_stepVar s.b v _) (hb ▸ tablesInv_stepVar s.b h.tables v _)
      (hb ▸ gradInv_stepVar s.b h.tables h.mwf h.qsym h.labelsOK h.grad v hv _) ?_
    refine hx.congr ?_ ?_ ?_ ?_ ?_ ?_ hvs
    · rw [hb, updateVarsum_b]; rfl
    · intro e; rw [hb, updateVarsum_b]; rfl
    · intro e; rw [hb, updateVarsum_b]; rfl
    · rw [hb, updateVarsum_b]; rfl
    · rw [hb, updateVarsum_b]; rfl
    · rw [hb, updateVarsum_b]; rfl
  · -- two variables: the embedded record is two one-variable steps
    have hg2 : ∀ a1 a2 : Rat, TablesInv (stepVar (stepVar s.b v a1) w a2) ∧ GradInv (stepVar (stepVar s.b v a1) w a2)
        ∧ SameStatic s.b (stepVar (stepVar s.b v a1) w a2) := by
      intro a1 a2
      have t1 := tablesInv_stepVar s.b h.tables v a1
      have s1 := sameStatic_stepVar s.b v a1
      have g1 := gradInv_stepVar s.b h.tables h.mwf h.qsym h.labelsOK h.grad v hv a1
      exact ⟨tablesInv_stepVar _ t1 w a2,
        gradInv_stepVar _ t1 (h.mwf.transfer s1) (h.qsym.transfer s1) (h.labelsOK.transfer s1) g1 w hw a2,
        s1.trans (sameStatic_stepVar _ w a2)⟩
    by_cases hsame : (s.b.vars v).i = (s.b.vars w).i
    · have hm : 0 ≤ s.b.C - s.vsum (s.b.vars v).i + s.b.alpha v + s.b.alpha w := by
        have := h.simplex.nonneg w hwn; linarith
      have hmem := solve2DTriangle_mem (s.b.alpha v) (s.b.alpha w) (s.b.grad v) (s.b.grad w) (s.b.vars v).diagonal
        (s.b.Mget (s.b.c * (s.b.P * (s.b.ex (s.b.vars v).i).y + (s.b.vars v).p) + (s.b.ex (s.b.vars w).i).y) (s.b.vars w).p
          * s.b.kpos (s.b.vars v).i (s.b.vars w).i) (s.b.vars w).diagonal _ hm
      obtain ⟨m1, m2, m3⟩ := hmem
      have hx := simplexInv_move2same s h.tables h.C_nonneg h.simplex v w hvn hwn hvw hsame _ _ m1 m2 m3
      generalize hsol : solve2DTriangle (s.b.alpha v) (s.b.alpha w) (s.b.grad v) (s.b.grad w) (s.b.vars v).diagonal
        (s.b.Mget (s.b.c * (s.b.P * (s.b.ex (s.b.vars v).i).y + (s.b.vars v).p) + (s.b.ex (s.b.vars w).i).y) (s.b.vars w).p
          * s.b.kpos (s.b.vars v).i (s.b.vars w).i) (s.b.vars w).diagonal
          (s.b.C - s.vsum (s.b.vars v).i + s.b.alpha v + s.b.alpha w) = sol at hx m1 m2 m3
      have hb : (s.updateSMO v w).b = stepVar (stepVar s.b v sol.1) w sol.2 := by
        rw [stepVar_twice s.b v w hvw, ← hsol]
        unfold McSx.updateSMO
        rw [if_neg hvw]
        dsimp only
        rw [if_pos hsame]
        dsimp only
        rw [updateVarsum_b]
      have hvs : (s.updateSMO v w).varsum = ((s.setAlpha (upd (upd s.b.alpha v sol.1) w sol.2)).updateVarsum
          (s.b.vars v).i (-(s.b.alpha v) + sol.1 + (-(s.b.alpha w) + sol.2))).varsum := by
        rw [← hsol]
        unfold McSx.updateSMO
        rw [if_neg hvw]
        dsimp only
        rw [if_pos hsame]
        rfl
      obtain ⟨t2, g2, s2⟩ := hg2 sol.1 sol.2
      refine h.of_parts (hb ▸ s2) (hb ▸ t2) (hb ▸ g2) ?_
      refine hx.congr ?_ ?_ ?_ ?_ ?_ ?_ hvs
      · rw [hb, updateVarsum_b]; rfl
      · intro e; rw [hb, updateVarsum_b]; rfl
      · intro e; rw [hb, updateVarsum_b]; rfl
      · rw [hb, updateVarsum_b]; rfl
      · rw [hb, updateVarsum_b]; rfl
      · rw [hb, updateVarsum_b]; rfl
    · have hmem := solve2DBox_mem (s.b.alpha v) (s.b.alpha w) (s.b.grad v) (s.b.grad w) (s.b.vars v).diagonal
        (s.b.Mget (s.b.c * (s.b.P * (s.b.ex (s.b.vars v).i).y + (s.b.vars v).p) + (s.b.ex (s.b.vars w).i).y) (s.b.vars w).p
          * s.b.kpos (s.b.vars v).i (s.b.vars w).i) (s.b.vars w).diagonal 0 _ 0 _ hUv hUw
        ⟨h.simplex.nonneg v hvn, by obtain ⟨_, g2, _⟩ := h.simplex.good _ (h.tables.v_i_lt v hvn); linarith⟩
        ⟨h.simplex.nonneg w hwn, by obtain ⟨_, g2, _⟩ := h.simplex.good _ (h.tables.v_i_lt w hwn); linarith⟩
      obtain ⟨⟨m1, m2⟩, m3, m4⟩ := hmem
      have hx := simplexInv_move2diff s h.tables h.C_nonneg h.simplex v w hvn hwn hsame _ _ m1 m3 m2 m4
      generalize hsol : solve2DBox (s.b.alpha v) (s.b.alpha w) (s.b.grad v) (s.b.grad w) (s.b.vars v).diagonal
        (s.b.Mget (s.b.c * (s.b.P * (s.b.ex (s.b.vars v).i).y + (s.b.vars v).p) + (s.b.ex (s.b.vars w).i).y) (s.b.vars w).p
          * s.b.kpos (s.b.vars v).i (s.b.vars w).i) (s.b.vars w).diagonal 0
          (s.b.C - s.vsum (s.b.vars v).i + s.b.alpha v) 0 (s.b.C - s.vsum (s.b.vars w).i + s.b.alpha w) = sol
          at hx m1 m2 m3 m4
      have hb : (s.updateSMO v w).b = stepVar (stepVar s.b v sol.1) w sol.2 := by
        rw [stepVar_twice s.b v w hvw, ← hsol]
        unfold McSx.updateSMO
        rw [if_neg hvw]
        dsimp only
        rw [if_neg hsame]
        dsimp only
        rw [updateVarsum_b, updateVarsum_b, z0]
      have hvs : (s.updateSMO v w).varsum = (((s.setAlpha (upd (upd s.b.alpha v sol.1) w sol.2)).updateVarsum
          (s.b.vars v).i (-(s.b.alpha v) + sol.1)).updateVarsum (s.b.vars w).i (-(s.b.alpha w) + sol.2)).varsum := by
        rw [← hsol]
        unfold McSx.updateSMO
        rw [if_neg hvw]
        dsimp only
        rw [if_neg hsame, z0]
        rfl
      obtain ⟨t2, g2, s2⟩ := hg2 sol.1 sol.2
      refine h.of_parts (hb ▸ s2) (hb ▸ t2) (hb ▸ g2) ?_
      refine hx.congr ?_ ?_ ?_ ?_ ?_ ?_ hvs
      · rw [hb, updateVarsum_b, updateVarsum_b]; rfl
      · intro e; rw [hb, updateVarsum_b, updateVarsum_b]; rfl
      · intro e; rw [hb, updateVarsum_b, updateVarsum_b]; rfl
      · rw [hb, updateVarsum_b, updateVarsum_b]; rfl
      · rw [hb, updateVarsum_b, updateVarsum_b]; rfl
      · rw [hb, updateVarsum_b, updateVarsum_b]; rfl

end SharkVerif.Mc
