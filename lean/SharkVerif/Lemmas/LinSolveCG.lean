/-
C02, conjugate gradients (`Model/LinSolveCG.lean`, `cg_solver::cg` of `decompositions.hpp`), in exact
arithmetic over `Rat`, for every size, matrix, right-hand side, tolerance and number of steps.

1. `cgVec_residual`, `cgCol_residual`: the residual kept by the recurrence IS `b - A x`
   (no hypothesis on `A`, none on the divisors).
2. `cgVec_done_iff`, `cgVec_done_small`, `cgVec_converged_residual` (and the `cgCol` versions):
   when the loop has left through the tolerance test, every entry of the true residual `b - A x`
   is below `eps` in absolute value.
3. for symmetric `A`: one step (`cgStep_orth`, state invariant `CGInv`), and the classical full
   statement over the whole run (`cgVec_conjugate`): all residuals are mutually orthogonal, all
   directions mutually `A`-conjugate, as long as no step divides by zero; `cgVec_conjugate_spd`:
   for a positive definite matrix and `0 < eps` no step of a run that is not yet done divides by zero.
   `cgVec_next_residual_orth`: the residual of the step that leaves the loop is orthogonal to all
   earlier residuals and directions, too.
   `cgVec_spd_done`, `cgVec_spd_converges`: finite termination -- on a symmetric positive definite
   `n × n` matrix with `0 < eps` the loop has left through the tolerance test after at most `n` passes
   (mutually orthogonal non-zero residuals are linearly independent), hence `|b - A x| < eps` entrywise.
4. a concrete 2×2 run (non-vacuity).

"On `[0,n)`": `CGState.freeze` keeps the entries with index `< n` only; `dot`, `mulVec`, `normInf`
read nothing else.
-/
import SharkVerif.Model.LinSolveCG
import SharkVerif.Lemmas.LinSolve
import SharkVerif.Lemmas.LinSolveLU
import Mathlib.Algebra.Order.BigOperators.Group.Finset
import Mathlib.Algebra.BigOperators.Fin
import Mathlib.LinearAlgebra.Dimension.Constructions
import Mathlib.LinearAlgebra.Dimension.Finite

namespace SharkVerif.LinSolve

/-! ### `dot`, `mulVec` on `[0,n)` -/

theorem dot_congr {n : Nat} {u u' v v' : Vec} (hu : ∀ i, i < n → u i = u' i)
    (hv : ∀ i, i < n → v i = v' i) : dot n u v = dot n u' v' := by
  unfold dot; apply sum_congr; intro k hk; rw [hu k hk, hv k hk]

theorem dot_comm (n : Nat) (u v : Vec) : dot n u v = dot n v u := by
  unfold dot; apply sum_congr; intro k _; ring

theorem dot_sub_smul_right (n : Nat) (u v w : Vec) (a : Rat) :
    dot n u (fun i => v i - a * w i) = dot n u v - a * dot n u w := by
  unfold dot
  rw [← sum_mul_left, ← sum_sub]
  apply sum_congr; intro k _; ring

theorem dot_smul_add_right (n : Nat) (u v w : Vec) (a : Rat) :
    dot n u (fun i => a * v i + w i) = a * dot n u v + dot n u w := by
  unfold dot
  rw [← sum_mul_left, ← sum_add]
  apply sum_congr; intro k _; ring

theorem mulVec_axpy (n : Nat) (A : Mat) (x p : Vec) (a : Rat) (i : Nat) :
    mulVec n A (fun k => x k + a * p k) i = mulVec n A x i + a * mulVec n A p i := by
  unfold mulVec
  rw [← sum_mul_left, ← sum_add]
  apply sum_congr; intro k _; ring

theorem mulVec_zero (n : Nat) (A : Mat) (i : Nat) : mulVec n A (fun _ => 0) i = 0 := by
  unfold mulVec; apply sum_zero'; intro k _; ring

/-- `uᵀ A v = vᵀ A u` for a matrix that is symmetric on `[0,n)²` -/
theorem dot_mulVec_symm {n : Nat} {A : Mat} (hA : ∀ i j, i < n → j < n → A i j = A j i) (u v : Vec) :
    dot n u (mulVec n A v) = dot n v (mulVec n A u) := by
  unfold dot mulVec
  have h1 : sum n (fun i => u i * sum n (fun k => A i k * v k))
      = sum n (fun i => sum n (fun k => u i * (A i k * v k))) := by
    apply sum_congr; intro i _; rw [← sum_mul_left]
  have h2 : sum n (fun k => v k * sum n (fun i => A k i * u i))
      = sum n (fun k => sum n (fun i => u i * (A i k * v k))) := by
    apply sum_congr; intro k hk; rw [← sum_mul_left]
    apply sum_congr; intro i hi; rw [hA k i hk hi]; ring
  rw [h1, h2, sum_comm]

/-- a sum of squares with a non-zero term is positive -/
theorem dot_self_pos {n : Nat} {v : Vec} (h : ∃ i, i < n ∧ v i ≠ 0) : 0 < dot n v v := by
  obtain ⟨i, hi, hv⟩ := h
  unfold dot
  rw [sum_eq_finset]
  have h1 : v i * v i ≤ ∑ k ∈ Finset.range n, v k * v k :=
    Finset.single_le_sum (f := fun k => v k * v k) (fun k _ => mul_self_nonneg (v k))
      (Finset.mem_range.mpr hi)
  have h2 : 0 < v i * v i := mul_self_pos.mpr hv
  linarith

theorem exists_ne_of_dot_ne {n : Nat} {u v : Vec} (h : dot n u v ≠ 0) : ∃ i, i < n ∧ v i ≠ 0 := by
  by_contra hc
  apply h
  unfold dot
  apply sum_zero'
  intro k hk
  have : v k = 0 := by
    by_contra hne
    exact hc ⟨k, hk, hne⟩
  rw [this]; ring

/-! ### `normInf` -/

theorem foldl_congr_mem {α β : Type} (f g : α → β → α) (l : List β) (a : α)
    (h : ∀ a b, b ∈ l → f a b = g a b) : l.foldl f a = l.foldl g a := by
  induction l generalizing a with
  | nil => rfl
  | cons x xs ih =>
    simp only [List.foldl_cons]
    rw [h a x (by simp)]
    exact ih _ (fun a b hb => h a b (by simp [hb]))

theorem foldl_max_ge_init (a : Nat → Rat) (l : List Nat) (m : Rat) :
    m ≤ l.foldl (fun m i => if m < a i then a i else m) m := by
  induction l generalizing m with
  | nil => exact le_refl _
  | cons x xs ih =>
    simp only [List.foldl_cons]
    refine le_trans ?_ (ih _)
    by_cases hc : m < a x
    · rw [if_pos hc]; exact le_of_lt hc
    · rw [if_neg hc]

theorem foldl_max_ge_mem (a : Nat → Rat) (l : List Nat) (m : Rat) {i : Nat} (hi : i ∈ l) :
    a i ≤ l.foldl (fun m i => if m < a i then a i else m) m := by
  induction l generalizing m with
  | nil => cases hi
  | cons x xs ih =>
    simp only [List.foldl_cons]
    rcases List.mem_cons.mp hi with rfl | h
    · refine le_trans ?_ (foldl_max_ge_init a xs _)
      by_cases hc : m < a i
      · rw [if_pos hc]
      · rw [if_neg hc]; exact not_lt.mp hc
    · exact ih _ h

theorem normInf_congr {n : Nat} {u v : Vec} (h : ∀ i, i < n → u i = v i) : normInf n u = normInf n v := by
  unfold normInf
  apply foldl_congr_mem
  intro m i hi
  simp only [h i (List.mem_range.mp hi)]

/-- the maximum norm bounds every entry on `[0,n)` -/
theorem absR_le_normInf {n : Nat} (v : Vec) {i : Nat} (hi : i < n) : absR (v i) ≤ normInf n v :=
  foldl_max_ge_mem (fun i => absR (v i)) (List.range n) 0 (List.mem_range.mpr hi)

theorem normInf_nonneg (n : Nat) (v : Vec) : 0 ≤ normInf n v :=
  foldl_max_ge_init (fun i => absR (v i)) (List.range n) 0

theorem normInf_zero {n : Nat} {v : Vec} (h : ∀ i, i < n → v i = 0) : normInf n v = 0 := by
  rw [normInf_congr (v := fun _ => 0) h]
  unfold normInf
  generalize List.range n = l
  induction l with
  | nil => rfl
  | cons x xs ih =>
    simp only [List.foldl_cons]
    have : absR (0 : Rat) = 0 := by unfold absR; simp
    rw [this, if_neg (lt_irrefl _)]
    simpa [this] using ih

/-! ### `freeze` -/

theorem freeze_x (n : Nat) (s : CGState) {i : Nat} (hi : i < n) : (s.freeze n).x i = s.x i := by
  simp [CGState.freeze, hi]
theorem freeze_r (n : Nat) (s : CGState) {i : Nat} (hi : i < n) : (s.freeze n).r i = s.r i := by
  simp [CGState.freeze, hi]
theorem freeze_p (n : Nat) (s : CGState) {i : Nat} (hi : i < n) : (s.freeze n).p i = s.p i := by
  simp [CGState.freeze, hi]
theorem freeze_done (n : Nat) (s : CGState) : (s.freeze n).done = s.done := rfl

/-! ### the step, case by case -/

def cgAlpha (n : Nat) (A : Mat) (s : CGState) : Rat := dot n s.r s.r / dot n s.p (mulVec n A s.p)
def cgNextX (n : Nat) (A : Mat) (s : CGState) : Vec := fun i => s.x i + cgAlpha n A s * s.p i
def cgNextR (n : Nat) (A : Mat) (s : CGState) : Vec := fun i => s.r i - cgAlpha n A s * mulVec n A s.p i
def cgBeta (n : Nat) (A : Mat) (s : CGState) : Rat :=
  dot n (cgNextR n A s) (cgNextR n A s) / dot n s.r s.r
def cgNextP (n : Nat) (A : Mat) (s : CGState) : Vec := fun i => cgBeta n A s * s.p i + cgNextR n A s i

theorem cgStep_cases (eps : Rat) (n : Nat) (A : Mat) (s : CGState) :
    (s.done = true ∧ cgStep eps n A s = s) ∨
    (s.done = false ∧ normInf n (cgNextR n A s) < eps ∧
      cgStep eps n A s = { x := cgNextX n A s, r := cgNextR n A s, p := s.p, done := true }) ∨
    (s.done = false ∧ ¬ normInf n (cgNextR n A s) < eps ∧
      cgStep eps n A s = { x := cgNextX n A s, r := cgNextR n A s, p := cgNextP n A s, done := false }) := by
  cases hd : s.done with
  | true => left; exact ⟨rfl, by unfold cgStep; rw [if_pos hd]⟩
  | false =>
    right
    by_cases ht : normInf n (cgNextR n A s) < eps
    · left
      refine ⟨rfl, ht, ?_⟩
      unfold cgStep
      rw [if_neg (by simp [hd])]
      exact if_pos ht
    · right
      refine ⟨rfl, ht, ?_⟩
      unfold cgStep
      rw [if_neg (by simp [hd])]
      exact if_neg ht

theorem cgColStep_cases (eps : Rat) (n : Nat) (A : Mat) (s : CGState) :
    (normInf n s.r < eps ∧ cgColStep eps n A s = { s with done := true }) ∨
    (¬ normInf n s.r < eps ∧
      cgColStep eps n A s = { x := cgNextX n A s, r := cgNextR n A s, p := cgNextP n A s, done := false }) := by
  by_cases ht : normInf n s.r < eps
  · left; exact ⟨ht, by unfold cgColStep; exact if_pos ht⟩
  · right; exact ⟨ht, by unfold cgColStep; exact if_neg ht⟩

theorem cgVec_zero (eps : Rat) (n : Nat) (A : Mat) (b : Vec) :
    cgVec eps 0 n A b = (cgInitVec eps n A b).freeze n := rfl

theorem cgVec_succ (eps : Rat) (k n : Nat) (A : Mat) (b : Vec) :
    cgVec eps (k + 1) n A b = (cgStep eps n A (cgVec eps k n A b)).freeze n := rfl

theorem cgInitVec_cases (eps : Rat) (n : Nat) (A : Mat) (b : Vec) :
    cgInitVec eps n A b = { x := fun _ => 0, r := b, p := b, done := decide (normInf n b < eps) } ∨
    cgInitVec eps n A b = ⟨b, fun i => b i - mulVec n A b i, fun i => b i - mulVec n A b i,
      decide (normInf n (fun i => b i - mulVec n A b i) < eps)⟩ := by
  by_cases hc : normInf n (fun i => b i - mulVec n A b i) > normInf n b
  · left; unfold cgInitVec; exact if_pos hc
  · right; unfold cgInitVec; exact if_neg hc

/-- the loop of one column of the matrix overload, before the final look at the tolerance -/
def cgColIter (eps : Rat) (steps : Nat) (n : Nat) (A : Mat) (b : Vec) : CGState :=
  iterN steps (fun s => CGState.freeze n (cgColStep eps n A s))
    (CGState.freeze n { x := fun _ => 0, r := b, p := b, done := false })

theorem cgColIter_succ (eps : Rat) (k n : Nat) (A : Mat) (b : Vec) :
    cgColIter eps (k + 1) n A b = (cgColStep eps n A (cgColIter eps k n A b)).freeze n := rfl

theorem cgCol_x (eps : Rat) (k n : Nat) (A : Mat) (b : Vec) :
    (cgCol eps k n A b).x = (cgColIter eps k n A b).x := rfl
theorem cgCol_r (eps : Rat) (k n : Nat) (A : Mat) (b : Vec) :
    (cgCol eps k n A b).r = (cgColIter eps k n A b).r := rfl
theorem cgCol_done (eps : Rat) (k n : Nat) (A : Mat) (b : Vec) :
    (cgCol eps k n A b).done =
      ((cgColIter eps k n A b).done || decide (normInf n (cgColIter eps k n A b).r < eps)) := rfl

/-! ### 1. the recurrence keeps `r = b - A x` -/

def ResInv (n : Nat) (A : Mat) (b : Vec) (s : CGState) : Prop :=
  ∀ i, i < n → s.r i = b i - mulVec n A s.x i

theorem ResInv.freeze {n : Nat} {A : Mat} {b : Vec} {s : CGState} (h : ResInv n A b s) :
    ResInv n A b (s.freeze n) := by
  intro i hi
  rw [freeze_r n s hi, h i hi]
  congr 1
  exact mulVec_congr (fun _ _ => rfl) (fun k hk => (freeze_x n s hk).symm)

theorem ResInv.next {n : Nat} {A : Mat} {b : Vec} {s : CGState} (h : ResInv n A b s) {i : Nat} (hi : i < n) :
    cgNextR n A s i = b i - mulVec n A (cgNextX n A s) i := by
  show s.r i - cgAlpha n A s * mulVec n A s.p i
    = b i - mulVec n A (fun k => s.x k + cgAlpha n A s * s.p k) i
  rw [mulVec_axpy, h i hi]; ring

theorem ResInv.step {eps : Rat} {n : Nat} {A : Mat} {b : Vec} {s : CGState} (h : ResInv n A b s) :
    ResInv n A b (cgStep eps n A s) := by
  rcases cgStep_cases eps n A s with ⟨_, e⟩ | ⟨_, _, e⟩ | ⟨_, _, e⟩
  · rw [e]; exact h
  · rw [e]; intro i hi; exact h.next hi
  · rw [e]; intro i hi; exact h.next hi

theorem ResInv.colStep {eps : Rat} {n : Nat} {A : Mat} {b : Vec} {s : CGState} (h : ResInv n A b s) :
    ResInv n A b (cgColStep eps n A s) := by
  rcases cgColStep_cases eps n A s with ⟨_, e⟩ | ⟨_, e⟩
  · rw [e]; exact h
  · rw [e]; intro i hi; exact h.next hi

theorem cgInitVec_res (eps : Rat) (n : Nat) (A : Mat) (b : Vec) : ResInv n A b (cgInitVec eps n A b) := by
  rcases cgInitVec_cases eps n A b with e | e
  · rw [e]; intro i _
    show b i = b i - mulVec n A (fun _ => 0) i
    rw [mulVec_zero]; ring
  · rw [e]; intro i _; rfl

theorem cgVec_resInv (eps : Rat) (steps n : Nat) (A : Mat) (b : Vec) :
    ResInv n A b (cgVec eps steps n A b) := by
  induction steps with
  | zero => exact (cgInitVec_res eps n A b).freeze
  | succ k ih => rw [cgVec_succ]; exact ih.step.freeze

/-- **the residual of the recurrence is the true residual**, vector overload: after any number of
steps, for any matrix (no symmetry, no definiteness, whatever the divisors) -/
theorem cgVec_residual (eps : Rat) (steps n : Nat) (A : Mat) (b : Vec) {i : Nat} (hi : i < n) :
    (cgVec eps steps n A b).r i = b i - mulVec n A (cgVec eps steps n A b).x i :=
  cgVec_resInv eps steps n A b i hi

theorem cgColIter_resInv (eps : Rat) (steps n : Nat) (A : Mat) (b : Vec) :
    ResInv n A b (cgColIter eps steps n A b) := by
  induction steps with
  | zero =>
    refine ResInv.freeze ?_
    intro i _
    show b i = b i - mulVec n A (fun _ => 0) i
    rw [mulVec_zero]; ring
  | succ k ih => rw [cgColIter_succ]; exact ih.colStep.freeze

/-- the same for a column of the matrix overload -/
theorem cgCol_residual (eps : Rat) (steps n : Nat) (A : Mat) (b : Vec) {i : Nat} (hi : i < n) :
    (cgCol eps steps n A b).r i = b i - mulVec n A (cgCol eps steps n A b).x i := by
  rw [cgCol_r, cgCol_x]; exact cgColIter_resInv eps steps n A b i hi

/-! ### 2. `done` is the tolerance test on the residual -/

/-- vector overload: `done` holds exactly when the stored residual is below the tolerance -/
theorem cgVec_done_iff (eps : Rat) (steps n : Nat) (A : Mat) (b : Vec) :
    (cgVec eps steps n A b).done = true ↔ normInf n (cgVec eps steps n A b).r < eps := by
  induction steps with
  | zero =>
    rw [cgVec_zero, freeze_done, normInf_congr (fun i hi => freeze_r n _ hi)]
    rcases cgInitVec_cases eps n A b with e | e <;> rw [e] <;> simp only [decide_eq_true_eq]
  | succ k ih =>
    rw [cgVec_succ, freeze_done, normInf_congr (fun i hi => freeze_r n _ hi)]
    rcases cgStep_cases eps n A (cgVec eps k n A b) with ⟨_, e⟩ | ⟨_, ht, e⟩ | ⟨_, ht, e⟩
    · rw [e]; exact ih
    · rw [e]; exact ⟨fun _ => ht, fun _ => rfl⟩
    · rw [e]; exact ⟨fun h => (by cases h), fun h => absurd h ht⟩

theorem cgVec_done_small (eps : Rat) (steps n : Nat) (A : Mat) (b : Vec)
    (h : (cgVec eps steps n A b).done = true) : normInf n (cgVec eps steps n A b).r < eps :=
  (cgVec_done_iff eps steps n A b).mp h

/-- **what "converged" means**: when the loop of the vector overload has left through the tolerance
test, every entry of the TRUE residual `b - A x` is below `eps` in absolute value -/
theorem cgVec_converged_residual (eps : Rat) (steps n : Nat) (A : Mat) (b : Vec)
    (h : (cgVec eps steps n A b).done = true) {i : Nat} (hi : i < n) :
    absR (b i - mulVec n A (cgVec eps steps n A b).x i) < eps := by
  rw [← cgVec_residual eps steps n A b hi]
  exact lt_of_le_of_lt (absR_le_normInf _ hi) (cgVec_done_small eps steps n A b h)

/-- a run that is not done has a residual that is not below the tolerance -/
theorem cgVec_not_done_large (eps : Rat) (steps n : Nat) (A : Mat) (b : Vec)
    (h : (cgVec eps steps n A b).done = false) : ¬ normInf n (cgVec eps steps n A b).r < eps := by
  intro hc
  rw [(cgVec_done_iff eps steps n A b).mpr hc] at h
  cases h

theorem cgColIter_done_small (eps : Rat) (steps n : Nat) (A : Mat) (b : Vec)
    (h : (cgColIter eps steps n A b).done = true) : normInf n (cgColIter eps steps n A b).r < eps := by
  induction steps with
  | zero => cases h
  | succ k ih =>
    rw [cgColIter_succ, freeze_done] at h
    rw [cgColIter_succ, normInf_congr (fun i hi => freeze_r n _ hi)]
    rcases cgColStep_cases eps n A (cgColIter eps k n A b) with ⟨ht, e⟩ | ⟨_, e⟩
    · rw [e]; exact ht
    · rw [e] at h; cases h

/-- matrix overload, one column: `done` holds exactly when the stored residual is below the tolerance -/
theorem cgCol_done_iff (eps : Rat) (steps n : Nat) (A : Mat) (b : Vec) :
    (cgCol eps steps n A b).done = true ↔ normInf n (cgCol eps steps n A b).r < eps := by
  rw [cgCol_done, cgCol_r, Bool.or_eq_true, decide_eq_true_iff]
  exact ⟨fun h => h.elim (cgColIter_done_small eps steps n A b) id, Or.inr⟩

theorem cgCol_done_small (eps : Rat) (steps n : Nat) (A : Mat) (b : Vec)
    (h : (cgCol eps steps n A b).done = true) : normInf n (cgCol eps steps n A b).r < eps :=
  (cgCol_done_iff eps steps n A b).mp h

theorem cgCol_converged_residual (eps : Rat) (steps n : Nat) (A : Mat) (b : Vec)
    (h : (cgCol eps steps n A b).done = true) {i : Nat} (hi : i < n) :
    absR (b i - mulVec n A (cgCol eps steps n A b).x i) < eps := by
  rw [← cgCol_residual eps steps n A b hi]
  exact lt_of_le_of_lt (absR_le_normInf _ hi) (cgCol_done_small eps steps n A b h)

/-! ### 3. orthogonality and conjugacy for symmetric `A`

First one step on an arbitrary state, with an invariant of the state alone. -/

/-- symmetric on `[0,n)²` -/
def SymOn (n : Nat) (A : Mat) : Prop := ∀ i j, i < n → j < n → A i j = A j i

/-- the field computation behind "the new direction is conjugate to the old one" -/
theorem cg_field_aux {q d q' X : Rat} (hq : q ≠ 0) (hd : d ≠ 0) (e : q' = 0 - q / d * X) :
    q' / q * d + X = 0 := by
  subst e
  field_simp
  ring

theorem cg_alpha_cancel {q d : Rat} (hd : d ≠ 0) : q - q / d * d = 0 := by
  rw [div_mul_cancel₀ _ hd]; ring

/-- invariant of a single state: `r·p = r·r` and `r·Ap = p·Ap`
(both trivial at the start, where `p = r`) -/
def CGInv (n : Nat) (A : Mat) (s : CGState) : Prop :=
  dot n s.r s.p = dot n s.r s.r ∧ dot n s.r (mulVec n A s.p) = dot n s.p (mulVec n A s.p)

theorem dot_cgNextR (n : Nat) (A : Mat) (s : CGState) (u : Vec) :
    dot n u (cgNextR n A s) = dot n u s.r - cgAlpha n A s * dot n u (mulVec n A s.p) :=
  dot_sub_smul_right n u s.r (mulVec n A s.p) (cgAlpha n A s)

theorem dot_cgNextP (n : Nat) (A : Mat) (s : CGState) (u : Vec) :
    dot n u (cgNextP n A s) = cgBeta n A s * dot n u s.p + dot n u (cgNextR n A s) :=
  dot_smul_add_right n u s.p (cgNextR n A s) (cgBeta n A s)

/-- the new residual is orthogonal to the old direction and to the old residual -/
theorem cgNextR_orth {n : Nat} {A : Mat} {s : CGState}
    (hd : dot n s.p (mulVec n A s.p) ≠ 0) (hI : CGInv n A s) :
    dot n (cgNextR n A s) s.p = 0 ∧ dot n (cgNextR n A s) s.r = 0 := by
  constructor
  · rw [dot_comm, dot_cgNextR, dot_comm n s.p s.r, hI.1]
    exact cg_alpha_cancel hd
  · rw [dot_comm, dot_cgNextR, hI.2]
    exact cg_alpha_cancel hd

/-- the new direction is `A`-conjugate to the old one, and the invariant holds again -/
theorem cgNextP_conj {n : Nat} {A : Mat} {s : CGState} (hA : SymOn n A)
    (hd : dot n s.p (mulVec n A s.p) ≠ 0) (hq : dot n s.r s.r ≠ 0) (hI : CGInv n A s) :
    dot n (cgNextP n A s) (mulVec n A s.p) = 0 ∧
    dot n (cgNextR n A s) (cgNextP n A s) = dot n (cgNextR n A s) (cgNextR n A s) ∧
    dot n (cgNextR n A s) (mulVec n A (cgNextP n A s))
      = dot n (cgNextP n A s) (mulVec n A (cgNextP n A s)) := by
  obtain ⟨h1, h2⟩ := cgNextR_orth hd hI
  have hc : dot n (cgNextP n A s) (mulVec n A s.p) = 0 := by
    rw [dot_comm, dot_cgNextP, dot_comm n (mulVec n A s.p) s.p,
      dot_comm n (mulVec n A s.p) (cgNextR n A s)]
    have e := dot_cgNextR n A s (cgNextR n A s)
    rw [h2] at e
    exact cg_field_aux hq hd e
  refine ⟨hc, ?_, ?_⟩
  · rw [dot_cgNextP, h1]; ring
  · rw [dot_comm n (cgNextP n A s) (mulVec n A (cgNextP n A s)), dot_cgNextP,
      dot_comm n (mulVec n A (cgNextP n A s)) s.p, dot_mulVec_symm hA s.p (cgNextP n A s), hc,
      dot_comm n (mulVec n A (cgNextP n A s)) (cgNextR n A s)]
    ring

/-- **one step of the vector overload on a state that satisfies the invariant**, symmetric `A`, no
division by zero: the new residual is orthogonal to the old residual and the old direction (also when
this step leaves the loop); if the loop goes on, the new direction is `A`-conjugate to the old one and
the invariant holds again -/
theorem cgStep_orth {eps : Rat} {n : Nat} {A : Mat} {s : CGState} (hA : SymOn n A)
    (hdone : s.done = false)
    (hd : dot n s.p (mulVec n A s.p) ≠ 0) (hq : dot n s.r s.r ≠ 0) (hI : CGInv n A s) :
    dot n (cgStep eps n A s).r s.p = 0 ∧ dot n (cgStep eps n A s).r s.r = 0 ∧
    ((cgStep eps n A s).done = false →
      dot n (cgStep eps n A s).p (mulVec n A s.p) = 0 ∧ CGInv n A (cgStep eps n A s)) := by
  obtain ⟨h1, h2⟩ := cgNextR_orth hd hI
  obtain ⟨h3, h4, h5⟩ := cgNextP_conj hA hd hq hI
  rcases cgStep_cases eps n A s with ⟨h, _⟩ | ⟨_, _, e⟩ | ⟨_, _, e⟩
  · rw [hdone] at h; cases h
  · rw [e]; exact ⟨h1, h2, fun h => by cases h⟩
  · rw [e]; exact ⟨h1, h2, fun _ => ⟨h3, h4, h5⟩⟩

theorem cgInitVec_inv (eps : Rat) (n : Nat) (A : Mat) (b : Vec) : CGInv n A (cgInitVec eps n A b) := by
  rcases cgInitVec_cases eps n A b with e | e <;> rw [e] <;> exact ⟨rfl, rfl⟩

theorem CGInv.freeze {n : Nat} {A : Mat} {s : CGState} (h : CGInv n A s) : CGInv n A (s.freeze n) := by
  have hr : ∀ i, i < n → (s.freeze n).r i = s.r i := fun i hi => freeze_r n s hi
  have hp : ∀ i, i < n → (s.freeze n).p i = s.p i := fun i hi => freeze_p n s hi
  have hAp : ∀ i, i < n → mulVec n A (s.freeze n).p i = mulVec n A s.p i :=
    fun i _ => mulVec_congr (fun _ _ => rfl) hp
  unfold CGInv
  rw [dot_congr hr hp, dot_congr hr hr, dot_congr hr hAp, dot_congr hp hAp]
  exact h

/-! Now the whole run: the classical induction, first for abstract sequences that satisfy the
recurrences on `[0,n)`. -/

/-- `R`, `P` satisfy the recurrences of the method for the steps `k < K` -/
structure CGRec (n : Nat) (A : Mat) (K : Nat) (R P : Nat → Vec) : Prop where
  p0 : ∀ i, i < n → P 0 i = R 0 i
  hr : ∀ k, k < K → ∀ i, i < n → R (k + 1) i
    = R k i - dot n (R k) (R k) / dot n (P k) (mulVec n A (P k)) * mulVec n A (P k) i
  hp : ∀ k, k < K → ∀ i, i < n → P (k + 1) i
    = dot n (R (k + 1)) (R (k + 1)) / dot n (R k) (R k) * P k i + R (k + 1) i

/-- everything up to index `m`: `r_i·p_i = r_i·r_i`, and for `j < i`:
`r_i·r_j = 0`, `r_i·p_j = 0`, `p_iᵀ A p_j = 0` -/
def Conj (n : Nat) (A : Mat) (R P : Nat → Vec) (m : Nat) : Prop :=
  ∀ i, i ≤ m → dot n (R i) (P i) = dot n (R i) (R i) ∧
    ∀ j, j < i → dot n (R i) (R j) = 0 ∧ dot n (R i) (P j) = 0 ∧ dot n (P i) (mulVec n A (P j)) = 0

section abstract
variable {n : Nat} {A : Mat} {K : Nat} {R P : Nat → Vec}

theorem CGRec.dot_r (h : CGRec n A K R P) {k : Nat} (hk : k < K) (u : Vec) :
    dot n u (R (k + 1)) = dot n u (R k)
      - dot n (R k) (R k) / dot n (P k) (mulVec n A (P k)) * dot n u (mulVec n A (P k)) := by
  rw [dot_congr (fun _ _ => rfl) (h.hr k hk), dot_sub_smul_right]

theorem CGRec.dot_p (h : CGRec n A K R P) {k : Nat} (hk : k < K) (u : Vec) :
    dot n u (P (k + 1))
      = dot n (R (k + 1)) (R (k + 1)) / dot n (R k) (R k) * dot n u (P k) + dot n u (R (k + 1)) := by
  rw [dot_congr (fun _ _ => rfl) (h.hp k hk), dot_smul_add_right]

theorem CGRec.mono (h : CGRec n A K R P) {K' : Nat} (hK : K' ≤ K) : CGRec n A K' R P :=
  ⟨h.p0, fun k hk => h.hr k (by omega), fun k hk => h.hp k (by omega)⟩

/-- `r_j · A p_k` for `j ≤ k`: zero below `k`, `p_k · A p_k` at `k` (`r_j = p_j - β p_{j-1}`) -/
theorem CGRec.rAp (h : CGRec n A K R P) (hA : SymOn n A) {k : Nat} (hk : k ≤ K)
    (hC : Conj n A R P k) {j : Nat} (hj : j ≤ k) :
    dot n (R j) (mulVec n A (P k)) = if j = k then dot n (P k) (mulVec n A (P k)) else 0 := by
  have hCk : ∀ j, j < k → dot n (P k) (mulVec n A (P j)) = 0 := fun j hj => ((hC k le_rfl).2 j hj).2.2
  cases j with
  | zero =>
    rw [dot_congr (u' := P 0) (v' := mulVec n A (P k)) (fun i hi => (h.p0 i hi).symm) (fun _ _ => rfl)]
    by_cases h0 : 0 = k
    · rw [if_pos h0, ← h0]
    · rw [if_neg h0, dot_mulVec_symm hA]; exact hCk 0 (by omega)
  | succ j' =>
    have hj' : j' < K := by omega
    have e := h.dot_p hj' (mulVec n A (P k))
    rw [dot_comm n (mulVec n A (P k)) (P (j' + 1)), dot_comm n (mulVec n A (P k)) (P j'),
      dot_comm n (mulVec n A (P k)) (R (j' + 1)),
      dot_mulVec_symm hA (P (j' + 1)) (P k), dot_mulVec_symm hA (P j') (P k), hCk j' (by omega)] at e
    by_cases hjk : j' + 1 = k
    · rw [if_pos hjk, hjk]
      rw [hjk] at e
      linarith
    · rw [if_neg hjk]
      rw [hCk (j' + 1) (by omega)] at e
      linarith

/-- a vector that is `r_k - α_k A p_k` on `[0,n)` is orthogonal to `r_j` and `p_j` for all `j ≤ k` -/
theorem CGRec.next_orth (h : CGRec n A K R P) (hA : SymOn n A) {k : Nat} (hk : k ≤ K)
    (hC : Conj n A R P k) (hd : dot n (P k) (mulVec n A (P k)) ≠ 0) {r' : Vec}
    (hr' : ∀ i, i < n → r' i
      = R k i - dot n (R k) (R k) / dot n (P k) (mulVec n A (P k)) * mulVec n A (P k) i)
    {j : Nat} (hj : j ≤ k) : dot n r' (R j) = 0 ∧ dot n r' (P j) = 0 := by
  have hdot : ∀ u : Vec, dot n u r' = dot n u (R k)
      - dot n (R k) (R k) / dot n (P k) (mulVec n A (P k)) * dot n u (mulVec n A (P k)) := by
    intro u
    rw [dot_congr (fun _ _ => rfl) hr', dot_sub_smul_right]
  have hSk := (hC k le_rfl).1
  constructor
  · rw [dot_comm, hdot, h.rAp hA hk hC hj]
    by_cases hjk : j = k
    · rw [if_pos hjk, hjk]; exact cg_alpha_cancel hd
    · rw [if_neg hjk, dot_comm, ((hC k le_rfl).2 j (by omega)).1]; ring
  · rw [dot_comm, hdot]
    by_cases hjk : j = k
    · rw [hjk, dot_comm n (P k) (R k), hSk]; exact cg_alpha_cancel hd
    · rw [dot_comm n (P j) (R k), ((hC k le_rfl).2 j (by omega)).2.1, dot_mulVec_symm hA (P j) (P k),
        ((hC k le_rfl).2 j (by omega)).2.2]
      ring

/-- **the classical theorem** for sequences satisfying the recurrences: as long as no step divides by
zero, all residuals are mutually orthogonal and all directions mutually conjugate -/
theorem CGRec.conj (h : CGRec n A K R P) (hA : SymOn n A)
    (hd : ∀ k, k < K → dot n (P k) (mulVec n A (P k)) ≠ 0)
    (hq : ∀ k, k < K → dot n (R k) (R k) ≠ 0) : ∀ m, m ≤ K → Conj n A R P m := by
  intro m
  induction m with
  | zero =>
    intro _ i hi
    have hi0 : i = 0 := by omega
    subst hi0
    exact ⟨dot_congr (fun _ _ => rfl) h.p0, fun j hj => absurd hj (Nat.not_lt_zero _)⟩
  | succ k ih =>
    intro hk1
    have hk : k < K := hk1
    have hC := ih (Nat.le_of_lt hk)
    have hOP : ∀ j, j ≤ k → dot n (R (k + 1)) (R j) = 0 ∧ dot n (R (k + 1)) (P j) = 0 :=
      fun j hj => h.next_orth hA (Nat.le_of_lt hk) hC (hd k hk) (h.hr k hk) hj
    have hS : dot n (R (k + 1)) (P (k + 1)) = dot n (R (k + 1)) (R (k + 1)) := by
      rw [h.dot_p hk, (hOP k le_rfl).2]; ring
    have hCj : ∀ j, j ≤ k → dot n (P (k + 1)) (mulVec n A (P j)) = 0 := by
      intro j hj
      have hjK : j < K := by omega
      rw [dot_comm, h.dot_p hk, dot_comm n (mulVec n A (P j)) (P k),
        dot_comm n (mulVec n A (P j)) (R (k + 1))]
      have e := h.dot_r hjK (R (k + 1))
      by_cases hjk : j = k
      · subst hjk
        rw [(hOP j le_rfl).1] at e
        exact cg_field_aux (hq j hjK) (hd j hjK) e
      · rw [(hOP (j + 1) (by omega)).1, (hOP j hj).1] at e
        have hα : dot n (R j) (R j) / dot n (P j) (mulVec n A (P j)) ≠ 0 :=
          div_ne_zero (hq j hjK) (hd j hjK)
        have hX : dot n (R (k + 1)) (mulVec n A (P j)) = 0 := by
          have e' : dot n (R j) (R j) / dot n (P j) (mulVec n A (P j))
              * dot n (R (k + 1)) (mulVec n A (P j)) = 0 := by linarith
          exact (mul_eq_zero.mp e').resolve_left hα
        rw [hX, ((hC k le_rfl).2 j (by omega)).2.2]; ring
    intro i hi
    rcases Nat.lt_or_ge i (k + 1) with hlt | hge
    · exact hC i (Nat.lt_succ_iff.mp hlt)
    · have hik : i = k + 1 := by omega
      subst hik
      exact ⟨hS, fun j hj => ⟨(hOP j (by omega)).1, (hOP j (by omega)).2, hCj j (by omega)⟩⟩

end abstract

/-! The run of the vector overload satisfies the recurrences. -/

theorem cgVec_done_of_done {eps : Rat} {k n : Nat} {A : Mat} {b : Vec}
    (h : (cgVec eps k n A b).done = true) : (cgVec eps (k + 1) n A b).done = true := by
  rw [cgVec_succ, freeze_done]
  rcases cgStep_cases eps n A (cgVec eps k n A b) with ⟨_, e⟩ | ⟨h', _⟩ | ⟨h', _⟩
  · rw [e]; exact h
  · rw [h] at h'; cases h'
  · rw [h] at h'; cases h'

/-- `done` is never reset: a run that is not done after `k` steps was not done before -/
theorem cgVec_not_done_mono {eps : Rat} {n : Nat} {A : Mat} {b : Vec} {j k : Nat} (hjk : j ≤ k)
    (h : (cgVec eps k n A b).done = false) : (cgVec eps j n A b).done = false := by
  induction k with
  | zero =>
    have hj0 : j = 0 := by omega
    subst hj0; exact h
  | succ k ih =>
    rcases Nat.lt_or_ge j (k + 1) with hlt | hge
    · apply ih (Nat.lt_succ_iff.mp hlt)
      cases hd : (cgVec eps k n A b).done with
      | false => rfl
      | true => rw [cgVec_done_of_done hd] at h; cases h
    · have hjk' : j = k + 1 := by omega
      subst hjk'; exact h

/-- what a step that does not leave the loop does, on `[0,n)` -/
theorem cgVec_step_rel {eps : Rat} {k n : Nat} {A : Mat} {b : Vec}
    (h : (cgVec eps (k + 1) n A b).done = false) {i : Nat} (hi : i < n) :
    (cgVec eps (k + 1) n A b).r i = cgNextR n A (cgVec eps k n A b) i ∧
    (cgVec eps (k + 1) n A b).p i = cgNextP n A (cgVec eps k n A b) i ∧
    (cgVec eps (k + 1) n A b).x i = cgNextX n A (cgVec eps k n A b) i := by
  have h0 : (cgVec eps k n A b).done = false := cgVec_not_done_mono (Nat.le_succ k) h
  rw [cgVec_succ, freeze_done] at h
  rw [cgVec_succ, freeze_r n _ hi, freeze_p n _ hi, freeze_x n _ hi]
  rcases cgStep_cases eps n A (cgVec eps k n A b) with ⟨h', _⟩ | ⟨_, _, e⟩ | ⟨_, _, e⟩
  · rw [h0] at h'; cases h'
  · rw [e] at h; cases h
  · rw [e]; exact ⟨rfl, rfl, rfl⟩

/-- the residual after one more step (whether or not that step leaves the loop), on `[0,n)` -/
theorem cgVec_next_r {eps : Rat} {k n : Nat} {A : Mat} {b : Vec}
    (h : (cgVec eps k n A b).done = false) {i : Nat} (hi : i < n) :
    (cgVec eps (k + 1) n A b).r i = cgNextR n A (cgVec eps k n A b) i := by
  rw [cgVec_succ, freeze_r n _ hi]
  rcases cgStep_cases eps n A (cgVec eps k n A b) with ⟨h', _⟩ | ⟨_, _, e⟩ | ⟨_, _, e⟩
  · rw [h] at h'; cases h'
  · rw [e]
  · rw [e]

theorem cgVec_rec {eps : Rat} {K n : Nat} {A : Mat} {b : Vec} (h : (cgVec eps K n A b).done = false) :
    CGRec n A K (fun k => (cgVec eps k n A b).r) (fun k => (cgVec eps k n A b).p) := by
  refine ⟨?_, ?_, ?_⟩
  · intro i hi
    show (cgVec eps 0 n A b).p i = (cgVec eps 0 n A b).r i
    rw [cgVec_zero, freeze_p n _ hi, freeze_r n _ hi]
    rcases cgInitVec_cases eps n A b with e | e <;> rw [e]
  · intro k hk i hi
    have hk1 : (cgVec eps (k + 1) n A b).done = false := cgVec_not_done_mono hk h
    exact (cgVec_step_rel hk1 hi).1
  · intro k hk i hi
    have hk1 : (cgVec eps (k + 1) n A b).done = false := cgVec_not_done_mono hk h
    show (cgVec eps (k + 1) n A b).p i
      = dot n (cgVec eps (k + 1) n A b).r (cgVec eps (k + 1) n A b).r
          / dot n (cgVec eps k n A b).r (cgVec eps k n A b).r * (cgVec eps k n A b).p i
        + (cgVec eps (k + 1) n A b).r i
    rw [(cgVec_step_rel hk1 hi).2.1, (cgVec_step_rel hk1 hi).1,
      dot_congr (fun i hi => (cgVec_step_rel hk1 hi).1) (fun i hi => (cgVec_step_rel hk1 hi).1)]
    rfl

/-- **conjugate gradients, the whole run** (vector overload, symmetric `A`): if the run is not done
after `K` steps and none of these steps divided by zero, then for all `j < i ≤ K` the residuals are
orthogonal (`r_i·r_j = 0`), the residual is orthogonal to the earlier directions (`r_i·p_j = 0`), the
directions are `A`-conjugate (`p_iᵀ A p_j = 0`), and `r_i·p_i = r_i·r_i` -/
theorem cgVec_conjugate {eps : Rat} {K n : Nat} {A : Mat} {b : Vec} (hA : SymOn n A)
    (hdone : (cgVec eps K n A b).done = false)
    (hd : ∀ k, k < K →
      dot n (cgVec eps k n A b).p (mulVec n A (cgVec eps k n A b).p) ≠ 0)
    (hq : ∀ k, k < K → dot n (cgVec eps k n A b).r (cgVec eps k n A b).r ≠ 0)
    {i : Nat} (hi : i ≤ K) :
    dot n (cgVec eps i n A b).r (cgVec eps i n A b).p
      = dot n (cgVec eps i n A b).r (cgVec eps i n A b).r ∧
    ∀ j, j < i →
      dot n (cgVec eps i n A b).r (cgVec eps j n A b).r = 0 ∧
      dot n (cgVec eps i n A b).r (cgVec eps j n A b).p = 0 ∧
      dot n (cgVec eps i n A b).p (mulVec n A (cgVec eps j n A b).p) = 0 :=
  (cgVec_rec hdone).conj hA hd hq K le_rfl i hi

/-- the residual of the step after a state that is not done -- including the step that leaves the
loop -- is orthogonal to all earlier residuals and directions -/
theorem cgVec_next_residual_orth {eps : Rat} {K n : Nat} {A : Mat} {b : Vec} (hA : SymOn n A)
    (hdone : (cgVec eps K n A b).done = false)
    (hd : ∀ k, k ≤ K →
      dot n (cgVec eps k n A b).p (mulVec n A (cgVec eps k n A b).p) ≠ 0)
    (hq : ∀ k, k < K → dot n (cgVec eps k n A b).r (cgVec eps k n A b).r ≠ 0)
    {j : Nat} (hj : j ≤ K) :
    dot n (cgVec eps (K + 1) n A b).r (cgVec eps j n A b).r = 0 ∧
    dot n (cgVec eps (K + 1) n A b).r (cgVec eps j n A b).p = 0 := by
  have hrec := cgVec_rec hdone
  have hC := hrec.conj hA (fun k hk => hd k (Nat.le_of_lt hk)) hq K le_rfl
  exact hrec.next_orth hA le_rfl hC (hd K le_rfl) (r' := (cgVec eps (K + 1) n A b).r)
    (fun i hi => cgVec_next_r hdone hi) hj

/-! For a positive definite matrix and a positive tolerance the hypotheses "no division by zero" hold
by themselves. -/

/-- positive definite on `[0,n)` -/
def PosDefOn (n : Nat) (A : Mat) : Prop :=
  ∀ v : Vec, (∃ i, i < n ∧ v i ≠ 0) → 0 < dot n v (mulVec n A v)

/-- a run that is not done has a non-zero residual (`0 < eps`) -/
theorem cgVec_rsqr_ne {eps : Rat} {k n : Nat} {A : Mat} {b : Vec} (heps : 0 < eps)
    (h : (cgVec eps k n A b).done = false) :
    dot n (cgVec eps k n A b).r (cgVec eps k n A b).r ≠ 0 := by
  have hr : ∃ i, i < n ∧ (cgVec eps k n A b).r i ≠ 0 := by
    by_contra hc
    have hz : ∀ i, i < n → (cgVec eps k n A b).r i = 0 := by
      intro i hi
      by_contra hne
      exact hc ⟨i, hi, hne⟩
    apply cgVec_not_done_large eps k n A b h
    rw [normInf_zero hz]; exact heps
  exact ne_of_gt (dot_self_pos hr)

theorem cgVec_nondeg {eps : Rat} {n : Nat} {A : Mat} {b : Vec} (hA : SymOn n A) (hpd : PosDefOn n A)
    (heps : 0 < eps) : ∀ K, (cgVec eps K n A b).done = false → ∀ k, k < K →
      dot n (cgVec eps k n A b).p (mulVec n A (cgVec eps k n A b).p) ≠ 0 ∧
      dot n (cgVec eps k n A b).r (cgVec eps k n A b).r ≠ 0 := by
  intro K
  induction K with
  | zero => intro _ k hk; omega
  | succ K ih =>
    intro hdone k hk
    have hK : (cgVec eps K n A b).done = false := cgVec_not_done_mono (Nat.le_succ K) hdone
    have hprev := ih hK
    rcases Nat.lt_or_ge k K with hlt | hge
    · exact hprev k hlt
    · have hkK : k = K := by omega
      subst hkK
      have hS := (cgVec_conjugate hA hK (fun k hk => (hprev k hk).1) (fun k hk => (hprev k hk).2)
        (i := k) le_rfl).1
      have hq : dot n (cgVec eps k n A b).r (cgVec eps k n A b).r ≠ 0 := cgVec_rsqr_ne heps hK
      have hp : ∃ i, i < n ∧ (cgVec eps k n A b).p i ≠ 0 := by
        apply exists_ne_of_dot_ne (u := (cgVec eps k n A b).r)
        rw [hS]; exact hq
      exact ⟨ne_of_gt (hpd _ hp), hq⟩

/-- **conjugate gradients on a symmetric positive definite matrix** with `0 < eps`: a run that is
not done after `K` steps has mutually orthogonal residuals and mutually conjugate directions -- no
further hypothesis -/
theorem cgVec_conjugate_spd {eps : Rat} {K n : Nat} {A : Mat} {b : Vec} (hA : SymOn n A)
    (hpd : PosDefOn n A) (heps : 0 < eps) (hdone : (cgVec eps K n A b).done = false)
    {i : Nat} (hi : i ≤ K) :
    dot n (cgVec eps i n A b).r (cgVec eps i n A b).p
      = dot n (cgVec eps i n A b).r (cgVec eps i n A b).r ∧
    ∀ j, j < i →
      dot n (cgVec eps i n A b).r (cgVec eps j n A b).r = 0 ∧
      dot n (cgVec eps i n A b).r (cgVec eps j n A b).p = 0 ∧
      dot n (cgVec eps i n A b).p (mulVec n A (cgVec eps j n A b).p) = 0 :=
  cgVec_conjugate hA hdone (fun k hk => (cgVec_nondeg hA hpd heps K hdone k hk).1)
    (fun k hk => (cgVec_nondeg hA hpd heps K hdone k hk).2) hi

/-- the state invariant along the run, and the statements about consecutive steps -/
theorem cgVec_inv {eps : Rat} {K n : Nat} {A : Mat} {b : Vec} (hA : SymOn n A)
    (hdone : (cgVec eps K n A b).done = false)
    (hd : ∀ k, k < K →
      dot n (cgVec eps k n A b).p (mulVec n A (cgVec eps k n A b).p) ≠ 0)
    (hq : ∀ k, k < K → dot n (cgVec eps k n A b).r (cgVec eps k n A b).r ≠ 0)
    {k : Nat} (hk : k ≤ K) : CGInv n A (cgVec eps k n A b) := by
  have hrec := cgVec_rec hdone
  have hC := hrec.conj hA hd hq K le_rfl
  have hCk : Conj n A (fun k => (cgVec eps k n A b).r) (fun k => (cgVec eps k n A b).p) k :=
    fun i hi => hC i (by omega)
  refine ⟨(hC k hk).1, ?_⟩
  have e := hrec.rAp hA hk hCk (j := k) le_rfl
  rw [if_pos rfl] at e
  exact e

/-! ### finite termination on a symmetric positive definite matrix

Mutually orthogonal non-zero vectors are linearly independent, so there are at most `n` of them: a
run that is not done after `K` steps has `K + 1` such residuals. -/

theorem orth_card_le {n m : Nat} (w : Nat → Vec) (hne : ∀ k, k < m → dot n (w k) (w k) ≠ 0)
    (horth : ∀ j k, j < m → k < m → j ≠ k → dot n (w j) (w k) = 0) : m ≤ n := by
  let W : Fin m → (Fin n → ℚ) := fun k i => w k.val i.val
  have hdot : ∀ j k : Fin m, ∑ c : Fin n, W j c * W k c = dot n (w j.val) (w k.val) := by
    intro j k
    unfold dot
    rw [sum_eq_finset, Finset.sum_range]
  have hli : LinearIndependent ℚ W := by
    rw [Fintype.linearIndependent_iff]
    intro g hg j
    have hc : ∀ c : Fin n, ∑ i, g i * W i c = 0 := by
      intro c
      have h0 := congrFun hg c
      simpa [Finset.sum_apply] using h0
    have h1 : ∑ c : Fin n, (∑ i, g i * W i c) * W j c = 0 := by
      apply Finset.sum_eq_zero; intro c _; rw [hc c]; ring
    have h2 : ∑ c : Fin n, (∑ i, g i * W i c) * W j c
        = ∑ i, g i * ∑ c : Fin n, W i c * W j c := by
      simp only [Finset.sum_mul, Finset.mul_sum]
      rw [Finset.sum_comm]
      apply Finset.sum_congr rfl; intro i _
      apply Finset.sum_congr rfl; intro c _; ring
    rw [h2] at h1
    have h3 : ∑ i, g i * ∑ c : Fin n, W i c * W j c = g j * dot n (w j.val) (w j.val) := by
      rw [Finset.sum_eq_single j]
      · rw [hdot]
      · intro i _ hij
        rw [hdot, horth i.val j.val i.isLt j.isLt (fun h => hij (Fin.ext h))]; ring
      · intro h; exact absurd (Finset.mem_univ j) h
    rw [h3] at h1
    exact (mul_eq_zero.mp h1).resolve_right (hne j.val j.isLt)
  have hcard := hli.fintype_card_le_finrank
  rw [Module.finrank_fin_fun, Fintype.card_fin] at hcard
  exact hcard

/-- **finite termination**: on a symmetric positive definite `n × n` matrix, with `0 < eps`, the loop of
the vector overload has left through the tolerance test after at most `n` passes (exact arithmetic) -/
theorem cgVec_spd_done {eps : Rat} {n : Nat} {A : Mat} {b : Vec} (hA : SymOn n A)
    (hpd : PosDefOn n A) (heps : 0 < eps) : (cgVec eps n n A b).done = true := by
  cases hdone : (cgVec eps n n A b).done with
  | true => rfl
  | false =>
    exfalso
    have hnd : ∀ k, k < n + 1 → (cgVec eps k n A b).done = false :=
      fun k hk => cgVec_not_done_mono (Nat.lt_succ_iff.mp hk) hdone
    have hle := orth_card_le (n := n) (m := n + 1) (fun k => (cgVec eps k n A b).r)
      (fun k hk => cgVec_rsqr_ne heps (hnd k hk))
      (by
        intro j k hj hk hjk
        rcases Nat.lt_or_ge j k with hlt | hge
        · rw [dot_comm]
          exact ((cgVec_conjugate_spd hA hpd heps hdone (i := k) (Nat.lt_succ_iff.mp hk)).2 j hlt).1
        · have hkj : k < j := by omega
          exact ((cgVec_conjugate_spd hA hpd heps hdone (i := j) (Nat.lt_succ_iff.mp hj)).2 k hkj).1)
    omega

theorem cgVec_done_mono {eps : Rat} {n : Nat} {A : Mat} {b : Vec} {j k : Nat} (hjk : j ≤ k)
    (h : (cgVec eps j n A b).done = true) : (cgVec eps k n A b).done = true := by
  cases hd : (cgVec eps k n A b).done with
  | true => rfl
  | false => rw [cgVec_not_done_mono hjk hd] at h; cases h

/-- **conjugate gradients solve a symmetric positive definite system**: with `0 < eps` and at least `n`
passes allowed, the returned `x` has `|b - A x| < eps` in every entry -/
theorem cgVec_spd_converges {eps : Rat} {steps n : Nat} {A : Mat} {b : Vec} (hA : SymOn n A)
    (hpd : PosDefOn n A) (heps : 0 < eps) (hsteps : n ≤ steps) {i : Nat} (hi : i < n) :
    absR (b i - mulVec n A (cgVec eps steps n A b).x i) < eps :=
  cgVec_converged_residual eps steps n A b (cgVec_done_mono hsteps (cgVec_spd_done hA hpd heps)) hi

/-! ### 4. a concrete run (non-vacuity)

`A = [[4,1],[1,3]]`, `b = (1,2)`, `eps = 1/1000`: the right-hand side is a worse starting point than
zero, one pass does not reach the tolerance, the second one ends at the exact solution `(1/11, 7/11)`. -/

def cgExA : Mat := fun i j => if i = 0 then (if j = 0 then 4 else 1) else (if j = 0 then 1 else 3)
def cgExb : Vec := fun i => if i = 0 then 1 else 2

example : (cgVec (1/1000) 0 2 cgExA cgExb).done = false := by decide +kernel
example : (cgVec (1/1000) 0 2 cgExA cgExb).x 0 = 0 ∧ (cgVec (1/1000) 0 2 cgExA cgExb).x 1 = 0 := by
  decide +kernel
example : (cgVec (1/1000) 1 2 cgExA cgExb).done = false := by decide +kernel
example : (cgVec (1/1000) 1 2 cgExA cgExb).x 0 = 1/4 ∧ (cgVec (1/1000) 1 2 cgExA cgExb).x 1 = 1/2 := by
  decide +kernel
example : (cgVec (1/1000) 2 2 cgExA cgExb).done = true := by decide +kernel
example : (cgVec (1/1000) 2 2 cgExA cgExb).x 0 = 1/11 ∧ (cgVec (1/1000) 2 2 cgExA cgExb).x 1 = 7/11 := by
  decide +kernel
/-- the exact solution it is: `A x = b` -/
example : mulVec 2 cgExA (cgVec (1/1000) 2 2 cgExA cgExb).x 0 = cgExb 0 ∧
    mulVec 2 cgExA (cgVec (1/1000) 2 2 cgExA cgExb).x 1 = cgExb 1 := by decide +kernel
/-- further passes change nothing -/
example : (cgVec (1/1000) 5 2 cgExA cgExb).x 0 = 1/11 ∧ (cgVec (1/1000) 5 2 cgExA cgExb).x 1 = 7/11 := by
  decide +kernel
/-- the matrix overload (it starts from zero as well) -/
example : (cgCol (1/1000) 2 2 cgExA cgExb).done = true ∧
    (cgCol (1/1000) 2 2 cgExA cgExb).x 0 = 1/11 ∧ (cgCol (1/1000) 2 2 cgExA cgExb).x 1 = 7/11 := by
  decide +kernel
example : (cgCol (1/1000) 1 2 cgExA cgExb).done = false := by decide +kernel

/-- the hypotheses of the theorems about symmetric positive definite matrices can be met -/
theorem cgExA_sym : SymOn 2 cgExA := by
  intro i j hi hj
  have h1 : i = 0 ∨ i = 1 := by omega
  have h2 : j = 0 ∨ j = 1 := by omega
  rcases h1 with rfl | rfl <;> rcases h2 with rfl | rfl <;> rfl

theorem cgExA_posdef : PosDefOn 2 cgExA := by
  intro v ⟨i, hi, hv⟩
  have e : dot 2 v (mulVec 2 cgExA v)
      = (v 0 + v 1) * (v 0 + v 1) + 3 * (v 0 * v 0) + 2 * (v 1 * v 1) := by
    simp [dot, mulVec, sum, cgExA]; ring
  rw [e]
  have h0 := mul_self_nonneg (v 0 + v 1)
  have h1 := mul_self_nonneg (v 0)
  have h2 := mul_self_nonneg (v 1)
  have hi' : i = 0 ∨ i = 1 := by omega
  rcases hi' with rfl | rfl
  · have := mul_self_pos.mpr hv; linarith
  · have := mul_self_pos.mpr hv; linarith

/-- `cgVec_conjugate_spd` at work: a run with `done = false` after one pass exists, and there the
second residual is orthogonal to the first, the second direction conjugate to the first -/
example : dot 2 (cgVec (1/1000) 1 2 cgExA cgExb).r (cgVec (1/1000) 0 2 cgExA cgExb).r = 0 ∧
    dot 2 (cgVec (1/1000) 1 2 cgExA cgExb).p (mulVec 2 cgExA (cgVec (1/1000) 0 2 cgExA cgExb).p) = 0 :=
  have h := (cgVec_conjugate_spd (eps := 1/1000) (K := 1) (b := cgExb) cgExA_sym cgExA_posdef (by norm_num)
    (by decide +kernel) (i := 1) le_rfl).2 0 (by omega)
  ⟨h.1, h.2.2⟩

end SharkVerif.LinSolve
