/-
Helper lemmas for C08: the working-set selection criteria (MVP, LibSVM second order, maximum gain) return working
sets that are admissible for `updateSMO` whenever they report a positive violation.
-/
import SharkVerif.Lemmas.Smo
namespace SharkVerif.Smo
open SharkVerif.Qp SharkVerif.Gen.Analytic

theorem lit1e100' : (1.0e100 : Rat) = 10 ^ 100 := by norm_num

theorem foldl_range_inv {β : Type} (f : β → Nat → β) (init : β) (P : Nat → β → Prop) (h0 : P 0 init)
    (hstep : ∀ m acc, P m acc → P (m + 1) (f acc m)) : ∀ m, P m ((List.range m).foldl f init) := by
  intro m
  induction m with
  | zero => exact h0
  | succ m ih => rw [List.range_succ, List.foldl_append]; exact hstep m _ ih

/-- MVP: a positive reported violation (with gradients inside the sentinel range `[−1e100, 1e100]`) comes with an
active pair `(i,j)`, `g_i − g_j` = the violation -/
theorem selectMVP_spec (s : RS) (i0 j0 : Nat)
    (hr : ∀ a, a < s.active → -(10 : Rat) ^ 100 ≤ s.g a ∧ s.g a ≤ 10 ^ 100)
    (hv : 0 < (s.selectMVP i0 j0).2.2) :
    (s.selectMVP i0 j0).1 < s.active ∧ (s.selectMVP i0 j0).2.1 < s.active ∧
    s.g (s.selectMVP i0 j0).1 - s.g (s.selectMVP i0 j0).2.1 = (s.selectMVP i0 j0).2.2 := by
  unfold State.selectMVP at hv ⊢
  dsimp only at hv ⊢
  have key := foldl_range_inv
    (fun (acc : Nat × Nat × Rat × Rat) a =>
      let ga := s.g a
      let acc := if !s.up a ∧ ga > acc.2.2.1 then (a, acc.2.1, ga, acc.2.2.2) else acc
      if !s.lo a ∧ ga < acc.2.2.2 then (acc.1, a, acc.2.2.1, ga) else acc)
    (i0, j0, -(1.0e100 : Rat), (1.0e100 : Rat))
    (fun m acc => (acc.2.2.1 = -(1.0e100 : Rat) ∨ (acc.1 < m ∧ s.g acc.1 = acc.2.2.1)) ∧
                  (acc.2.2.2 = (1.0e100 : Rat) ∨ (acc.2.1 < m ∧ s.g acc.2.1 = acc.2.2.2)))
    ⟨Or.inl rfl, Or.inl rfl⟩
    (by
      intro m acc ⟨hA, hB⟩
      dsimp only
      have hA' : acc.2.2.1 = -(1.0e100 : Rat) ∨ (acc.1 < m + 1 ∧ s.g acc.1 = acc.2.2.1) :=
        hA.imp id (fun h => ⟨Nat.lt_succ_of_lt h.1, h.2⟩)
      have hB' : acc.2.2.2 = (1.0e100 : Rat) ∨ (acc.2.1 < m + 1 ∧ s.g acc.2.1 = acc.2.2.2) :=
        hB.imp id (fun h => ⟨Nat.lt_succ_of_lt h.1, h.2⟩)
      split_ifs
      · exact ⟨Or.inr ⟨Nat.lt_succ_self m, rfl⟩, Or.inr ⟨Nat.lt_succ_self m, rfl⟩⟩
      · exact ⟨Or.inr ⟨Nat.lt_succ_self m, rfl⟩, hB'⟩
      · exact ⟨hA', Or.inr ⟨Nat.lt_succ_self m, rfl⟩⟩
      · exact ⟨hA', hB'⟩)
    s.active
  generalize (List.range s.active).foldl _ _ = r at key hv ⊢
  obtain ⟨hA, hB⟩ := key
  rw [lit1e100'] at hA hB
  rcases hA with hA | ⟨hi, hgi⟩
  · exfalso
    rcases hB with hB | ⟨hj, hgj⟩
    · rw [hA, hB] at hv; norm_num at hv
    · have := (hr _ hj).1; rw [hgj] at this; rw [hA] at hv; linarith
  · rcases hB with hB | ⟨hj, hgj⟩
    · exfalso; have := (hr _ hi).2; rw [hgi] at this; rw [hB] at hv; linarith
    · exact ⟨hi, hj, by rw [hgi, hgj]⟩

/-- the second-order gain is positive only for a strictly violating pair -/
theorem onLine_pos {Qii Qjj Qij gi gj mc : Rat} (h : 0 < maximumGainQuadratic2DOnLine Qii Qjj Qij gi gj mc) :
    gj < gi := by
  unfold maximumGainQuadratic2DOnLine at h
  dsimp only at h
  split at h
  · rw [lit0] at h; exact absurd h (lt_irrefl _)
  · rename_i hg; rw [lit0] at hg; linarith [not_le.mp hg]

/-- LibSVM second order: a positive reported violation comes with an active pair with `g_j < g_i` -/
theorem selectLibSVM_spec (s : RS) (hv : 0 < s.selectLibSVM.2.2) :
    s.selectLibSVM.1 < s.active ∧ s.selectLibSVM.2.1 < s.active ∧ s.g s.selectLibSVM.2.1 < s.g s.selectLibSVM.1 := by
  unfold State.selectLibSVM at hv ⊢
  dsimp only at hv ⊢
  have key1 := foldl_range_inv
    (fun (acc : Nat × Rat) a => if !s.up a ∧ s.g a > acc.2 then (a, s.g a) else acc)
    (0, -(1.0e100 : Rat))
    (fun m acc => acc.2 = -(1.0e100 : Rat) ∨ (acc.1 < m ∧ s.g acc.1 = acc.2))
    (Or.inl rfl)
    (by
      intro m acc hA
      split_ifs
      · exact Or.inr ⟨Nat.lt_succ_self m, rfl⟩
      · exact hA.imp id (fun h => ⟨Nat.lt_succ_of_lt h.1, h.2⟩))
    s.active
  generalize (List.range s.active).foldl (fun (acc : Nat × Rat) a => if !s.up a ∧ s.g a > acc.2 then (a, s.g a) else acc)
    (0, -(1.0e100 : Rat)) = u at key1 hv ⊢
  split at hv
  · rw [lit0] at hv; exact absurd hv (lt_irrefl _)
  rename_i hne
  rw [if_neg hne]
  have hu : u.1 < s.active ∧ s.g u.1 = u.2 := by
    rcases key1 with h | h
    · exact absurd (by rw [h]; exact beq_self_eq_true _) hne
    · exact h
  have key2 := foldl_range_inv
    (fun (acc : Nat × Rat × Rat) a =>
      if !s.lo a then
        let ga := s.g a
        let sd := smin acc.2.2 ga
        let gain := maximumGainQuadratic2DOnLine (s.diag u.1) (s.diag a) (s.q u.1 a) u.2 ga (1.0e-12 : Rat)
        if gain > acc.2.1 then (a, gain, sd) else (acc.1, acc.2.1, sd)
      else acc)
    (1, (0.0 : Rat), (1.0e100 : Rat))
    (fun m acc => 0 ≤ acc.2.1 ∧ (acc.2.1 = 0 ∨ (acc.1 < m ∧ s.g acc.1 < u.2)))
    ⟨by rw [lit0], Or.inl lit0⟩
    (by
      intro m acc ⟨h0, hB⟩
      dsimp only
      have hB' : acc.2.1 = 0 ∨ (acc.1 < m + 1 ∧ s.g acc.1 < u.2) := hB.imp id (fun h => ⟨Nat.lt_succ_of_lt h.1, h.2⟩)
      split_ifs with h1 h2
      · exact ⟨le_of_lt (lt_of_le_of_lt h0 h2), Or.inr ⟨Nat.lt_succ_self m, onLine_pos (lt_of_le_of_lt h0 h2)⟩⟩
      · exact ⟨h0, hB'⟩
      · exact ⟨h0, hB'⟩)
    s.active
  generalize (List.range s.active).foldl _ _ = r at key2 hv ⊢
  split at hv
  · rw [lit0] at hv; exact absurd hv (lt_irrefl _)
  rename_i hne2
  rw [if_neg hne2]
  obtain ⟨_, hB⟩ := key2
  rcases hB with h | h
  · exact absurd (by rw [h, lit0]; exact beq_self_eq_true _) hne2
  · exact ⟨hu.1, h.1, by rw [hu.2]; exact h.2⟩

/-- maximum gain (box problem): a non-zero reported violation comes with active indices -/
theorem selectMaxGain_spec (s : RS) (hv : 0 < s.selectMaxGain.2.2) :
    s.selectMaxGain.1 < s.active ∧ s.selectMaxGain.2.1 < s.active := by
  unfold State.selectMaxGain at hv ⊢
  dsimp only at hv ⊢
  have key1 : (s.selectMaxGradient.2 = 0 ∨ s.selectMaxGradient.1 < s.active) := by
    unfold State.selectMaxGradient
    dsimp only
    have := foldl_range_inv
      (fun (acc : Nat × Nat × Rat × Rat) a =>
        let g := s.g a
        let acc := if !s.up a ∧ g > acc.2.2.2 then (acc.1, a, acc.2.2.1, g) else acc
        let acc := if !s.lo a ∧ (-g) > acc.2.2.2 then (acc.1, a, acc.2.2.1, -g) else acc
        if acc.2.2.2 > acc.2.2.1 then (acc.2.1, acc.1, acc.2.2.2, acc.2.2.1) else acc)
      (0, 0, (0.0 : Rat), (0.0 : Rat))
      (fun m acc => (acc.2.2.1 = 0 ∨ acc.1 < m) ∧ (acc.2.2.2 = 0 ∨ acc.2.1 < m))
      ⟨Or.inl lit0, Or.inl lit0⟩
      (by
        intro m acc ⟨hA, hB⟩
        dsimp only
        have hA' : acc.2.2.1 = 0 ∨ acc.1 < m + 1 := hA.imp id Nat.lt_succ_of_lt
        have hB' : acc.2.2.2 = 0 ∨ acc.2.1 < m + 1 := hB.imp id Nat.lt_succ_of_lt
        have hm : m < m + 1 := Nat.lt_succ_self m
        split_ifs <;> first
          | exact ⟨hA', hB'⟩
          | exact ⟨Or.inr hm, hA'⟩
          | exact ⟨hA', Or.inr hm⟩
          | exact ⟨hB', hA'⟩)
      s.active
    exact this.1
  split at hv
  · rename_i h0
    rw [beq_iff_eq, lit0] at h0
    dsimp only at hv
    rw [h0] at hv; exact absurd hv (lt_irrefl _)
  rename_i hne
  rw [if_neg hne]
  have hi : s.selectMaxGradient.1 < s.active := by
    rcases key1 with h | h
    · exact absurd (by rw [h, lit0]; exact beq_self_eq_true _) hne
    · exact h
  refine ⟨hi, ?_⟩
  have key2 := foldl_range_inv
    (fun (acc : Nat × Rat) a =>
      if a = s.selectMaxGradient.1 then acc else
      let ga := s.g a
      if (!s.lo a ∧ ga < (0.0 : Rat)) ∨ (!s.up a ∧ ga > (0.0 : Rat)) then
        let gain := maximumGainQuadratic2D (s.diag s.selectMaxGradient.1) (s.diag a) (s.q s.selectMaxGradient.1 a)
          (s.g s.selectMaxGradient.1) ga (1.0e-12 : Rat)
        if gain > acc.2 then (a, gain) else acc
      else acc)
    (s.selectMaxGradient.1, (0.0 : Rat))
    (fun m acc => m ≤ s.active → acc.1 < s.active)
    (fun _ => hi)
    (by
      intro m acc h hm
      have h' := h (Nat.le_of_succ_le hm)
      dsimp only
      split_ifs <;> first | exact h' | exact hm)
    s.active
  exact key2 (Nat.le_refl _)

end SharkVerif.Smo
