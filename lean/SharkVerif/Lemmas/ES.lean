/-
Helper lemmas for C11 (evolution strategies): the `Scalar` operations at `Rat`, and sums of lists.
-/
import SharkVerif.Model.CMA
import Mathlib.Tactic.Linarith
import Mathlib.Tactic.Positivity
import Mathlib.Tactic.Ring
import Mathlib.Algebra.Order.Field.Basic
import Mathlib.Algebra.Order.BigOperators.Group.List
namespace SharkVerif.ES
open SharkVerif.Opt SharkVerif.Opt.CMA

@[simp] theorem ofRat_rat (q : Rat) : (Scalar.ofRat q : Rat) = q := rfl
@[simp] theorem ofNat_rat (n : Nat) : (ofNat n : Rat) = (n : Rat) := rfl
@[simp] theorem szero_rat : (Scalar.zero : Rat) = 0 := rfl
@[simp] theorem sone_rat : (Scalar.one : Rat) = 1 := rfl
@[simp] theorem stwo_rat : (Scalar.two : Rat) = 2 := rfl
theorem smax_rat (a b : Rat) : Scalar.max a b = max a b := by
  unfold Scalar.max
  split
  · next h => exact (max_eq_right h.le).symm
  · next h => exact (max_eq_left (not_lt.mp h)).symm
theorem smin_rat (a b : Rat) : Scalar.min a b = min a b := by
  unfold Scalar.min
  split
  · next h => exact (min_eq_right h.le).symm
  · next h => exact (min_eq_left (not_lt.mp h)).symm

/-- the model's left-to-right accumulation is the list sum -/
theorem sum_eq_listSum (v : List Rat) : CMA.sum v = v.sum := by
  unfold CMA.sum
  rw [List.sum_eq_foldl]; rfl

theorem sumSq_le_sq_sum (w : List Rat) (h : ∀ x ∈ w, 0 ≤ x) : (w.map fun x => x * x).sum ≤ w.sum * w.sum := by
  induction w with
  | nil => simp
  | cons a l ih =>
    have ha : 0 ≤ a := h a (by simp)
    have hl : 0 ≤ l.sum := List.sum_nonneg fun x hx => h x (by simp [hx])
    have := ih fun x hx => h x (by simp [hx])
    simp only [List.map_cons, List.sum_cons]
    nlinarith [mul_nonneg ha hl]

theorem sumSq_pos (w : List Rat) (h : ∀ x ∈ w, 0 < x) (hne : w ≠ []) : 0 < (w.map fun x => x * x).sum := by
  cases w with
  | nil => exact absurd rfl hne
  | cons a l =>
    have ha : 0 < a := h a (by simp)
    have : 0 ≤ (l.map fun x => x * x).sum := List.sum_nonneg fun x hx => by
      obtain ⟨y, _, rfl⟩ := List.mem_map.mp hx; exact mul_self_nonneg y
    simp only [List.map_cons, List.sum_cons]
    nlinarith [mul_pos ha ha]

end SharkVerif.ES
