/-
The element-dealing loop of createCVIndexed / createCVFullyIndexed / detail::createCVSameSizeBalanced
(`CV.dealLoop`, modelled statement by statement) equals its net effect: fold p receives its elements in processing
order, cut into the batch sizes computed for it.

Proof: the concrete state (all batches of `newSet` in one vector, the running batch number of every fold, the
pending elements of every fold) is the image `conc` of an abstract state with one record per fold; one iteration
of the loop acts on the record of the element's fold only (`sim`); per fold the records obey the chunking invariant `J`.
-/
import SharkVerif.Lemmas.Blocks
import SharkVerif.Lemmas.BatchPartitioning
import SharkVerif.Model.CV
namespace SharkVerif.DealLoop
open SharkVerif.CheckedNat SharkVerif.Dataset SharkVerif.CV SharkVerif.BatchArith

variable {α : Type}

/-- what the loop knows about one fold: its batch sizes, its completed batches, its pending elements -/
structure FoldSt (α : Type) where
  sz : List Nat
  done : List (List α)
  cur : List α

/-- one element arrives at its fold -/
def astep (st : FoldSt α) (x : α) : FoldSt α :=
  if st.sz[st.done.length]? = some (st.cur ++ [x]).length then ⟨st.sz, st.done ++ [st.cur ++ [x]], []⟩
  else ⟨st.sz, st.done, st.cur ++ [x]⟩

/-- the batches of `newSet` that belong to the fold: completed ones, then still empty ones -/
def row (st : FoldSt α) : List (List α) := st.done ++ List.replicate (st.sz.length - st.done.length) []

def rows (A : List (FoldSt α)) : List (List α) := A.flatMap row
def sizesOf (A : List (FoldSt α)) : List Nat := A.flatMap (·.sz)
def curs (A : List (FoldSt α)) : List (List α) := A.map (·.cur)
/-- `validationSetStart` -/
def offs : List (FoldSt α) → Nat → List Nat
  | [], _ => []
  | st :: r, acc => (acc + st.done.length) :: offs r (acc + st.sz.length)

theorem row_length (st : FoldSt α) (h : st.done.length ≤ st.sz.length) : (row st).length = st.sz.length := by
  simp [row]; omega

theorem row_set (st : FoldSt α) (v c : List α) (h : st.done.length < st.sz.length) :
    (row st).set st.done.length v = row ⟨st.sz, st.done ++ [v], c⟩ := by
  unfold row
  have e : st.sz.length - st.done.length = (st.sz.length - (st.done.length + 1)) + 1 := by omega
  rw [e, List.replicate_succ]
  simp [List.set_append_right, List.append_assoc]

/-- **one iteration of the loop touches the record of the element's fold only** -/
theorem sim : ∀ (A : List (FoldSt α)) (pre : List (List α)) (preS preV : List Nat) (preE : List (List α))
    (p : Nat) (st : FoldSt α) (x : α),
    preS.length = pre.length → preV.length = preE.length →
    A[p]? = some st → st.done.length < st.sz.length → (∀ s ∈ A, s.done.length ≤ s.sz.length) →
    dealStep (preS ++ sizesOf A) ⟨pre ++ rows A, preV ++ offs A pre.length, preE ++ curs A⟩ (x, preE.length + p) =
      some ⟨pre ++ rows (A.set p (astep st x)), preV ++ offs (A.set p (astep st x)) pre.length,
            preE ++ curs (A.set p (astep st x))⟩ := by
  intro A
  induction A with
  | nil => intro pre preS preV preE p st x _ _ h; simp at h
  | cons st0 rest ih =>
    intro pre preS preV preE p st x hS hV hget hlt hall
    cases p with
    | zero =>
      simp only [List.getElem?_cons_zero, Option.some.injEq] at hget
      subst hget
      have hsz : ∃ size, st0.sz[st0.done.length]? = some size := ⟨_, List.getElem?_eq_getElem hlt⟩
      obtain ⟨size, hsize⟩ := hsz
      have h1 : (preE ++ curs (st0 :: rest))[preE.length + 0]? = some st0.cur := by
        simp [curs]
      have h2 : cget (preV ++ offs (st0 :: rest) pre.length) (preE.length + 0) = some (pre.length + st0.done.length) := by
        simp [cget, offs, ← hV]
      have h3 : cget (preS ++ sizesOf (st0 :: rest)) (pre.length + st0.done.length) = some size := by
        simp only [cget, sizesOf, List.flatMap_cons]
        rw [List.getElem?_append_right (by omega), hS, Nat.add_sub_cancel_left,
          List.getElem?_append_left (by omega)]
        exact hsize
      have hrl := row_length st0 (Nat.le_of_lt hlt)
      simp only [dealStep, h1, h2, h3, Option.bind_eq_bind, Option.bind_some, Option.pure_def]
      by_cases hfull : (st0.cur ++ [x]).length = size
      · have hin : pre.length + st0.done.length < (pre ++ rows (st0 :: rest)).length := by
          simp only [rows, List.flatMap_cons, List.length_append, hrl]; omega
        have hst : astep st0 x = ⟨st0.sz, st0.done ++ [st0.cur ++ [x]], []⟩ := by
          simp [astep, hsize, hfull]
        simp only [hfull, if_true, hin, List.set_cons_zero, hst]
        congr 1
        refine DealState.mk.injEq .. |>.mpr ⟨?_, ?_, ?_⟩
        · simp only [rows, List.flatMap_cons]
          rw [List.set_append_right _ _ (by omega), Nat.add_sub_cancel_left,
            List.set_append_left _ _ (by omega), row_set st0 _ [] hlt]
        · simp only [offs]
          rw [List.set_append_right _ _ (by omega)]
          simp [← hV, Nat.add_assoc]
        · simp only [curs, List.map_cons]
          rw [List.set_append_right _ _ (by omega)]
          simp
      · have hst : astep st0 x = ⟨st0.sz, st0.done, st0.cur ++ [x]⟩ := by
          simp only [astep, hsize, Option.some.injEq]
          rw [if_neg (fun h => hfull h.symm)]
        simp only [hfull, if_false, List.set_cons_zero, hst]
        congr 1
        refine DealState.mk.injEq .. |>.mpr ⟨?_, ?_, ?_⟩
        · simp [rows, row]
        · simp [offs]
        · simp only [curs, List.map_cons]
          rw [List.set_append_right _ _ (by omega)]
          simp
    | succ p =>
      simp only [List.getElem?_cons_succ] at hget
      have h0 := hall st0 (List.mem_cons_self ..)
      have hrl := row_length st0 h0
      have := ih (pre ++ row st0) (preS ++ st0.sz) (preV ++ [pre.length + st0.done.length]) (preE ++ [st0.cur]) p st x
        (by simp [hS, hrl]) (by simp [hV]) hget hlt (fun s hs => hall s (List.mem_cons_of_mem _ hs))
      simp only [List.length_append, hrl, List.length_cons, List.length_nil, List.append_assoc] at this
      have e : preE.length + (0 + 1) + p = preE.length + (p + 1) := by omega
      rw [e] at this
      simpa [rows, sizesOf, curs, offs, List.set_cons_succ, List.append_assoc] using this

/-! ### the chunking invariant of one fold -/

/-- `fed` = the elements the fold has received so far -/
def J (sz : List Nat) (fed : List α) (st : FoldSt α) : Prop :=
  st.sz = sz ∧ fed = st.done.flatten ++ st.cur ∧ st.done.map List.length = sz.take st.done.length ∧
  (∀ s, sz[st.done.length]? = some s → st.cur.length < s) ∧ (sz.length ≤ st.done.length → st.cur = [])

theorem sum_take_le (l : List Nat) (j : Nat) : (l.take j).sum ≤ l.sum := by
  induction l generalizing j with
  | nil => simp
  | cons a l ih =>
    cases j with
    | zero => simp
    | succ j => simp only [List.take_succ_cons, List.sum_cons]; have := ih j; omega

theorem sum_take_succ' (l : List Nat) (j s : Nat) (h : l[j]? = some s) : (l.take (j + 1)).sum = (l.take j).sum + s := by
  induction l generalizing j with
  | nil => simp at h
  | cons a l ih =>
    cases j with
    | zero => simp at h; simp [h]
    | succ j =>
      simp only [List.getElem?_cons_succ] at h
      simp only [List.take_succ_cons, List.sum_cons, ih j h]; omega

theorem length_flatten' (l : List (List α)) : l.flatten.length = (l.map List.length).sum := by
  induction l with
  | nil => rfl
  | cons a l ih => simp [ih]

theorem J_done_le (sz : List Nat) (fed : List α) (st : FoldSt α) (h : J sz fed st) : st.done.length ≤ sz.length := by
  have := congrArg List.length h.2.2.1
  simp only [List.length_map, List.length_take] at this
  omega

/-- while the fold still expects elements, its current batch number is inside the fold's own range -/
theorem J_room (sz : List Nat) (fed : List α) (st : FoldSt α) (h : J sz fed st) (hlt : fed.length < sz.sum) :
    st.done.length < st.sz.length := by
  rw [h.1]
  rcases Nat.lt_or_ge st.done.length sz.length with hl | hl
  · exact hl
  · exfalso
    have hc := h.2.2.2.2 hl
    have hlen := congrArg List.length h.2.1
    rw [List.length_append, length_flatten', h.2.2.1, hc, List.take_of_length_le hl] at hlen
    simp at hlen; omega

theorem J_step (sz : List Nat) (hpos : ∀ s ∈ sz, 0 < s) (fed : List α) (st : FoldSt α) (x : α) (h : J sz fed st)
    (hroom : st.done.length < sz.length) : J sz (fed ++ [x]) (astep st x) := by
  obtain ⟨h1, h2, h3, h4, h5⟩ := h
  have hs : sz[st.done.length]? = some sz[st.done.length] := List.getElem?_eq_getElem hroom
  have hc := h4 _ hs
  unfold astep
  rw [h1, hs]
  by_cases hfull : (st.cur ++ [x]).length = sz[st.done.length]
  · simp only [Option.some.injEq]
    rw [if_pos hfull.symm]
    have hf : st.cur.length + 1 = sz[st.done.length] := by simpa using hfull
    refine ⟨rfl, ?_, ?_, ?_, ?_⟩
    · simp [h2]
    · simp only [List.map_append, List.map_cons, List.map_nil, List.length_append, List.length_cons, List.length_nil]
      rw [h3, List.take_succ, hs]
      simp [hf]
    · intro s hs'
      have := hpos s (List.mem_of_getElem? hs')
      simpa using this
    · intro _; rfl
  · simp only [Option.some.injEq]
    rw [if_neg (fun h => hfull h.symm)]
    refine ⟨rfl, ?_, h3, ?_, ?_⟩
    · simp [h2]
    · intro s hs'
      rw [hs] at hs'
      cases hs'
      simp only [List.length_append, List.length_cons, List.length_nil] at hfull ⊢
      omega
    · intro hge; simp only at hge; omega

theorem splitBySizes_flatten_self (l : List (List α)) : splitBySizes l.flatten (l.map List.length) = l := by
  induction l with
  | nil => rfl
  | cons a l ih => simp [splitBySizes, ih]

/-- once the fold has received all its elements, its completed batches are the cut of what it received -/
theorem J_final (sz : List Nat) (fed : List α) (st : FoldSt α) (h : J sz fed st) (hlen : fed.length = sz.sum) :
    st.done = splitBySizes fed sz ∧ st.cur = [] ∧ st.done.length = st.sz.length := by
  have hle := J_done_le sz fed st h
  obtain ⟨h1, h2, h3, h4, h5⟩ := h
  have hl := congrArg List.length h2
  rw [List.length_append, length_flatten', h3] at hl
  rcases Nat.lt_or_ge st.done.length sz.length with hlt | hge
  · exfalso
    have hs : sz[st.done.length]? = some sz[st.done.length] := List.getElem?_eq_getElem hlt
    have hc := h4 _ hs
    have h6 := sum_take_succ' sz _ _ hs
    have h7 := sum_take_le sz (st.done.length + 1)
    omega
  · have hc := h5 hge
    have hdl : st.done.length = sz.length := by omega
    refine ⟨?_, hc, by rw [h1]; exact hdl⟩
    rw [h2, hc, List.append_nil]
    have : sz = st.done.map List.length := by rw [h3, List.take_of_length_le hge]
    rw [this]
    exact (splitBySizes_flatten_self _).symm

/-! ### the whole loop -/

/-- elements (without their fold number) that go to fold p -/
def blk (items : List (α × Nat)) (p : Nat) : List α := (items.filter (·.2 = p)).map (·.1)

theorem blk_append (a b : List (α × Nat)) (p : Nat) : blk (a ++ b) p = blk a p ++ blk b p := by
  simp [blk]

/-- invariant of the loop after the items `done` -/
def Inv (k : Nat) (szf : Nat → List Nat) (done : List (α × Nat)) (A : List (FoldSt α)) : Prop :=
  A.length = k ∧ ∀ p, p < k → ∃ st, A[p]? = some st ∧ J (szf p) (blk done p) st

theorem run (k : Nat) (szf : Nat → List Nat) (hpos : ∀ p, ∀ s ∈ szf p, 0 < s) (items : List (α × Nat))
    (hk : ∀ x ∈ items, x.2 < k) (hsum : ∀ p, p < k → (szf p).sum = (blk items p).length) :
    ∀ (rest done : List (α × Nat)) (A : List (FoldSt α)), items = done ++ rest → Inv k szf done A →
    ∃ A', rest.foldlM (dealStep (sizesOf A)) ⟨rows A, offs A 0, curs A⟩ = some ⟨rows A', offs A' 0, curs A'⟩ ∧
      Inv k szf items A' ∧ sizesOf A' = sizesOf A := by
  intro rest
  induction rest with
  | nil =>
    intro done A hi hinv
    simp only [List.append_nil] at hi
    subst hi
    exact ⟨A, by simp, hinv, rfl⟩
  | cons xp rest ih =>
    intro done A hi hinv
    obtain ⟨x, p⟩ := xp
    have hp : p < k := hk (x, p) (by rw [hi]; simp)
    obtain ⟨st, hget, hJ⟩ := hinv.2 p hp
    -- the fold still expects elements
    have hfed : (blk done p).length < (szf p).sum := by
      rw [hsum p hp, hi, blk_append]
      simp [blk]
    have hroom := J_room _ _ _ hJ hfed
    have hall : ∀ s ∈ A, s.done.length ≤ s.sz.length := by
      intro s hs
      obtain ⟨q, hq, hsq⟩ := List.getElem_of_mem hs
      have hqk : q < k := by rw [← hinv.1]; exact hq
      obtain ⟨st', hget', hJ'⟩ := hinv.2 q hqk
      rw [List.getElem?_eq_getElem hq, hsq] at hget'
      cases hget'
      rw [hJ'.1]
      exact J_done_le _ _ _ hJ'
    have hsim := sim A [] [] [] [] p st x rfl rfl hget hroom hall
    simp only [List.nil_append, List.length_nil, Nat.zero_add] at hsim
    -- the invariant after this item
    have hinv' : Inv k szf (done ++ [(x, p)]) (A.set p (astep st x)) := by
      refine ⟨by simp [hinv.1], ?_⟩
      intro q hq
      by_cases hqp : q = p
      · subst hqp
        refine ⟨astep st x, by simp [List.getElem?_set, hinv.1, hq], ?_⟩
        have : blk (done ++ [(x, q)]) q = blk done q ++ [x] := by simp [blk]
        rw [this]
        exact J_step _ (hpos q) _ _ _ hJ (by rw [← hJ.1]; exact hroom)
      · obtain ⟨st', hget', hJ'⟩ := hinv.2 q hq
        refine ⟨st', by rw [List.getElem?_set_ne (Ne.symm hqp)]; exact hget', ?_⟩
        have : blk (done ++ [(x, p)]) q = blk done q := by
          simp [blk, List.filter_cons, Ne.symm hqp]
        rw [this]; exact hJ'
    have hsz' : sizesOf (A.set p (astep st x)) = sizesOf A := by
      have hst : (astep st x).sz = st.sz := by unfold astep; split <;> rfl
      have hlt : p < A.length := by rw [hinv.1]; exact hp
      have hst' : A[p] = st := by
        have := List.getElem?_eq_getElem hlt; rw [this] at hget; exact Option.some.inj hget
      unfold sizesOf
      rw [List.flatMap_def, List.flatMap_def, List.map_set, hst]
      congr 1
      apply List.ext_getElem?
      intro i
      by_cases hip : i = p
      · subst hip; simp [List.getElem?_set, hlt, hst']
      · rw [List.getElem?_set_ne (Ne.symm hip)]
    obtain ⟨A', hrun, hinvF, hszF⟩ := ih (done ++ [(x, p)]) (A.set p (astep st x)) (by simp [hi]) hinv'
    refine ⟨A', ?_, hinvF, hszF.trans hsz'⟩
    rw [List.foldlM_cons, hsim]
    simp only [Option.bind_eq_bind, Option.bind_some]
    rw [← hsz']; exact hrun

theorem starts_eq_offs (l : List Nat) (f : Nat → List Nat) : ∀ acc,
    starts (l.map fun p => (f p).length) acc = offs (l.map fun p => (⟨f p, [], []⟩ : FoldSt α)) acc := by
  induction l with
  | nil => intro acc; rfl
  | cons a l ih => intro acc; simp [starts, offs, ih]

theorem replicate_sum_nil (l : List Nat) :
    List.replicate l.sum ([] : List α) = l.flatMap fun c => List.replicate c [] := by
  induction l with
  | nil => rfl
  | cons a l ih => rw [List.sum_cons, List.flatMap_cons, ← ih, List.replicate_append_replicate]

/-- **the element-dealing loop equals its net effect**: with the batch layout computed for the folds
(`szf p` = batch sizes of fold p: positive, summing to the number of elements dealt to p) the loop terminates inside
all its vectors and leaves in `newSet`, fold after fold, the elements of the fold in processing order cut into the
fold's batch sizes -/
theorem dealLoop_eq (k : Nat) (szf : Nat → List Nat) (hpos : ∀ p, ∀ s ∈ szf p, 0 < s) (items : List (α × Nat))
    (hk : ∀ x ∈ items, x.2 < k) (hsum : ∀ p, p < k → (szf p).sum = (blk items p).length) :
    dealLoop items k ((List.range k).map fun p => (szf p).length).sum
      (starts ((List.range k).map fun p => (szf p).length) 0) ((List.range k).flatMap szf) =
    some ((List.range k).flatMap fun p => splitBySizes (blk items p) (szf p)) := by
  let A0 : List (FoldSt α) := (List.range k).map fun p => ⟨szf p, [], []⟩
  have hinv0 : Inv k szf [] A0 := by
    refine ⟨by simp [A0], ?_⟩
    intro p hp
    refine ⟨⟨szf p, [], []⟩, by simp [A0, hp], rfl, by simp [blk], by simp, ?_, fun _ => rfl⟩
    intro s hs
    simp only [List.length_nil] at hs ⊢
    exact hpos p s (List.mem_of_getElem? hs)
  obtain ⟨A', hrun, hinvF, _⟩ := run k szf hpos items hk hsum items [] A0 rfl hinv0
  have hrows0 : rows A0 = List.replicate ((List.range k).map fun p => (szf p).length).sum [] := by
    rw [replicate_sum_nil]
    simp [rows, A0, row, List.flatMap_map, List.flatMap_def, List.map_map, Function.comp_def]
  have hsz0 : sizesOf A0 = (List.range k).flatMap szf := by
    simp [sizesOf, A0, List.flatMap_map, List.flatMap_def, List.map_map, Function.comp_def]
  have hcur0 : curs A0 = List.replicate k [] := by
    simp only [curs, A0, List.map_map]
    apply List.ext_getElem?
    intro i
    by_cases hi : i < k <;> simp [hi]
  unfold dealLoop
  rw [← hrows0, ← hsz0, ← hcur0, starts_eq_offs (List.range k) szf 0]
  show (List.foldlM (dealStep (sizesOf A0)) ⟨rows A0, offs A0 0, curs A0⟩ items).bind _ = _
  rw [hrun]
  simp only [Option.bind_some, Option.pure_def, Option.some.injEq]
  -- read the final records
  have hfin : ∀ p, p < k → ∃ st, A'[p]? = some st ∧ row st = splitBySizes (blk items p) (szf p) := by
    intro p hp
    obtain ⟨st, hget, hJ⟩ := hinvF.2 p hp
    obtain ⟨hd, _, hl⟩ := J_final _ _ _ hJ (hsum p hp).symm
    refine ⟨st, hget, ?_⟩
    unfold row
    rw [hl, Nat.sub_self, hd]
    simp
  unfold rows
  rw [List.flatMap_def, List.flatMap_def]
  congr 1
  apply List.ext_getElem?
  intro p
  by_cases hp : p < k
  · obtain ⟨st, hget, hrow⟩ := hfin p hp
    simp [hget, hrow, hp]
  · have : A'.length ≤ p := by rw [hinvF.1]; omega
    simp [hp, List.getElem?_eq_none this]

end SharkVerif.DealLoop
