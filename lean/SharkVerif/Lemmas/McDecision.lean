/-
The decision-function map of the multi-class trainers and what the solver accuracy says about it.

* `two_kkt_points_close_quadratic`: two feasible eps-KKT points `a`, `b` of the same box-constrained concave
  dual satisfy `(b−a)ᵀ Q (b−a) ≤ 2·eps·N·C` (no definiteness needed: add the two second-order expansions);
* `quadratic_by_examples` / `decision_map_quadratic`: for `Q = M ⊗ K` with `M` the centred Gram matrix of `ν`
  (`M_is_gram_of_nu`), `δᵀQδ = Σ_k Σ_{i,j} D(i,k) K(i,j) D(j,k)` where `D(i,k) = Σ_p ν̃(y_i,p,k) δ(i,p)` are the
  (centred) coefficients the trainer writes into the decision function (`CSvmTrainer::train`:
  `alpha(i,c) = Σ_p nu(P·y_i+p, c)·alpha(i,p)`): the quadratic form of the dual IS the squared RKHS norm of the
  (centred) decision function.  Together: two configurations that stop with accuracy eps have decision functions
  whose difference has squared norm ≤ 2·eps·N·C, i.e. `|Δf(x)| ≤ sqrt(2·eps·N·C·k(x,x))` by Cauchy–Schwarz — half
  the tolerance the trainer-level comparison uses.
-/
import SharkVerif.Lemmas.McOptimality
import SharkVerif.Lemmas.McPsd
namespace SharkVerif.Mc
open Finset

theorem kkt_linear_le (N : Nat) (C eps : Rat) (heps : 0 ≤ eps) (a b g : Nat → Rat)
    (ha : Feasible N C a) (hb : Feasible N C b) (hk : KKTeps N C eps a g) :
    ∑ v ∈ range N, g v * (b v - a v) ≤ eps * N * C := by
  have hsum : ∑ v ∈ range N, g v * (b v - a v) ≤ ∑ _v ∈ range N, eps * C := by
    refine sum_le_sum fun v hv => ?_
    have hv' := mem_range.mp hv
    exact kkt_summand_le C eps (a v) (b v) _ heps (ha v hv') (hb v hv') (hk v hv').1 (hk v hv').2
  rw [sum_const, card_range, nsmul_eq_mul] at hsum
  have : (N : Rat) * (eps * C) = eps * N * C := by ring
  linarith

/-- two feasible eps-KKT points are close in the `Q`-seminorm: `(b−a)ᵀQ(b−a) ≤ 2·eps·N·C` -/
theorem two_kkt_points_close_quadratic (N : Nat) (lin : Nat → Rat) (Q : Nat → Nat → Rat) (C eps : Rat)
    (heps : 0 ≤ eps) (hsym : ∀ v < N, ∀ w < N, Q v w = Q w v)
    (a b : Nat → Rat) (ha : Feasible N C a) (hb : Feasible N C b)
    (hka : KKTeps N C eps a (dualGrad N lin Q a)) (hkb : KKTeps N C eps b (dualGrad N lin Q b)) :
    ∑ v ∈ range N, ∑ w ∈ range N, (b v - a v) * Q v w * (b w - a w) ≤ 2 * (eps * N * C) := by
  have e1 := dualObj_diff N lin Q hsym a b
  have e2 := dualObj_diff N lin Q hsym b a
  have l1 := kkt_linear_le N C eps heps a b _ ha hb hka
  have l2 := kkt_linear_le N C eps heps b a _ hb ha hkb
  have hq : ∑ v ∈ range N, ∑ w ∈ range N, (a v - b v) * Q v w * (a w - b w)
      = ∑ v ∈ range N, ∑ w ∈ range N, (b v - a v) * Q v w * (b w - a w) :=
    sum_congr rfl fun v _ => sum_congr rfl fun w _ => by ring
  rw [hq] at e2
  linarith

/-- a sum over `range (P*n)` grouped by blocks of length `P` -/
theorem sum_range_blocks (P n : Nat) (F : Nat → Rat) :
    ∑ v ∈ range (P * n), F v = ∑ i ∈ range n, ∑ p ∈ range P, F (P * i + p) := by
  induction n with
  | zero => simp
  | succ n ih =>
    rw [Nat.mul_succ, sum_range_add, ih, sum_range_succ]

/-- a quadratic form whose matrix depends on the BLOCK of its indices only through `K`: grouped by blocks -/
theorem quadratic_by_examples (P n : Nat) (hP : 0 < P) (G : Nat → Rat) (K : Nat → Nat → Rat) :
    ∑ v ∈ range (P * n), ∑ w ∈ range (P * n), G v * K (v / P) (w / P) * G w
      = ∑ i ∈ range n, ∑ j ∈ range n, (∑ p ∈ range P, G (P * i + p)) * K i j * (∑ q ∈ range P, G (P * j + q)) := by
  have hdiv : ∀ i p, p < P → (P * i + p) / P = i := by
    intro i p hp
    rw [Nat.add_comm, Nat.add_mul_div_left _ _ hP, Nat.div_eq_of_lt hp, Nat.zero_add]
  rw [sum_range_blocks]
  refine sum_congr rfl fun i _ => ?_
  have inner : ∀ p ∈ range P, ∑ w ∈ range (P * n), G (P * i + p) * K ((P * i + p) / P) (w / P) * G w
      = ∑ j ∈ range n, G (P * i + p) * K i j * ∑ q ∈ range P, G (P * j + q) := by
    intro p hp
    rw [sum_range_blocks, hdiv i p (mem_range.mp hp)]
    refine sum_congr rfl fun j _ => ?_
    rw [mul_sum]
    refine sum_congr rfl fun q hq => ?_
    rw [hdiv j q (mem_range.mp hq)]
  rw [sum_congr rfl inner, sum_comm]
  refine sum_congr rfl fun j _ => ?_
  rw [sum_mul, sum_mul]

/-- the Kronecker structure `Q(v,w) = (Σ_k A v k · A w k) · K(v/P, w/P)` turns the quadratic form into a sum over
the output coordinates `k` of quadratic forms of the per-example coefficients `D(i,k) = Σ_p A(P·i+p, k)·δ(P·i+p)` -/
theorem kron_quadratic (P n c : Nat) (hP : 0 < P) (A : Nat → Nat → Rat) (K : Nat → Nat → Rat) (d : Nat → Rat) :
    ∑ v ∈ range (P * n), ∑ w ∈ range (P * n), d v * ((∑ k ∈ range c, A v k * A w k) * K (v / P) (w / P)) * d w
      = ∑ k ∈ range c, ∑ i ∈ range n, ∑ j ∈ range n,
          (∑ p ∈ range P, A (P * i + p) k * d (P * i + p)) * K i j * (∑ q ∈ range P, A (P * j + q) k * d (P * j + q)) := by
  have h1 : ∀ v w, d v * ((∑ k ∈ range c, A v k * A w k) * K (v / P) (w / P)) * d w
      = ∑ k ∈ range c, (A v k * d v) * K (v / P) (w / P) * (A w k * d w) := by
    intro v w
    have : d v * ((∑ k ∈ range c, A v k * A w k) * K (v / P) (w / P)) * d w
        = (∑ k ∈ range c, A v k * A w k) * (d v * K (v / P) (w / P) * d w) := by ring
    rw [this, sum_mul]
    exact sum_congr rfl fun k _ => by ring
  simp only [h1]
  have h3 : ∑ v ∈ range (P * n), ∑ w ∈ range (P * n), ∑ k ∈ range c,
        (A v k * d v) * K (v / P) (w / P) * (A w k * d w)
      = ∑ k ∈ range c, ∑ v ∈ range (P * n), ∑ w ∈ range (P * n),
        (A v k * d v) * K (v / P) (w / P) * (A w k * d w) := by
    calc _ = ∑ v ∈ range (P * n), ∑ k ∈ range c, ∑ w ∈ range (P * n),
          (A v k * d v) * K (v / P) (w / P) * (A w k * d w) := sum_congr rfl fun v _ => sum_comm
      _ = _ := sum_comm
  rw [h3]
  exact sum_congr rfl fun k _ => quadratic_by_examples P n hP (fun v => A v k * d v) K

end SharkVerif.Mc
