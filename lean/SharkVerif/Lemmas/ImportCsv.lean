/-
C19: the hand-written record loop of `import_csv_reader_points` (LAST_COLUMN) makes progress and
terminates; the grammars as they are written in `Csv.cpp` (with `cleanNumber`) parse like the modelled ones.
Core Lean only.
-/
import SharkVerif.Lemmas.Peg
import SharkVerif.Model.ImportCsv
namespace SharkVerif.Import.Csv
open SharkVerif.Peg SharkVerif.Import

/-- **progress of one `phrase_parse` call**: a grammar that consumes leaves strictly less input -/
theorem phraseParse_shorter (g sk : G) (hg : consumes g = true) (s rest : List Char) (evs : List Ev)
    (h : phraseParse g sk s = .ok rest evs) : rest.length < s.length := by
  unfold phraseParse at h
  split at h
  · rename_i r e hr
    have h1 := parse_shorter g hg (skipper sk) (skipper_len sk) s r e hr
    simp only [Res.ok.injEq] at h
    have h2 := skipper_len sk r
    rw [h.1] at h2
    omega
  · rename_i r hne
    cases r <;> simp_all

/-- the record loop, seen through `toOption`, is the loop the importer model runs -/
theorem readPointsLastLoop_eq (g sk : G) : ∀ (f : Nat) (s : List Char) (acc : List (Int × List Val)),
    readPointsLastLoop g sk f s acc = (readPointsLastLoopR g sk f s acc).toOption := by
  intro f
  induction f with
  | zero => intro s acc; rfl
  | succ f ih =>
    intro s acc
    simp only [readPointsLastLoop, readPointsLastLoopR]
    cases hp : phraseParse g sk s with
    | ok rest evs =>
      simp only
      by_cases h1 : rest.isEmpty = true
      · simp [h1, LoopRes.toOption]
      · by_cases h2 : rest.length < s.length
        · simp only [h1, h2, if_true, Bool.false_eq_true, if_false]
          exact ih _ _
        · simp [h1, h2, LoopRes.toOption]
    | fail => rfl
    | hang => rfl

/-- **termination of the LAST_COLUMN record loop.**  For a record grammar that consumes and is loop-safe, the
loop `do { r = phrase_parse(one record) } while(r && first != last)` never repeats a call at the same position
and never needs more iterations than there are bytes: every input, every skipper. -/
theorem readPointsLastLoopR_terminates (g sk : G) (hc : consumes g = true) (hw : wfG g = true) :
    ∀ (f : Nat) (s : List Char) (acc : List (Int × List Val)), s.length < f →
      readPointsLastLoopR g sk f s acc ≠ .spin ∧ readPointsLastLoopR g sk f s acc ≠ .fuel := by
  intro f
  induction f with
  | zero => intro s acc h; omega
  | succ f ih =>
    intro s acc hf
    simp only [readPointsLastLoopR]
    split
    · rename_i rest evs hp
      have hlt := phraseParse_shorter g sk hc s rest evs hp
      split
      · simp
      · exact ih rest _ (by omega)
    · simp
    · rename_i hh
      exact absurd hh (phraseParse_no_hang g sk hw s)

/-! ### `cleanNumber`: the grammars as written in `Csv.cpp` -/

/-- `&p >> p` parses exactly like `p` (when `p` restores the position on failure, as every modelled primitive does) -/
theorem parse_clean (skip : List Char → List Char) (p : G) (s : List Char) : parse skip (clean p) s = parse skip p s := by
  simp only [clean, parse]
  cases h : parse skip p s <;> simp [h]

/-- the grammars of `Csv.cpp` with `cleanNumber<double>()` in place of `double_` parse every input like the
modelled grammars: same result, same rest, same attribute events -/
theorem parse_cleanReal (g : G) : ∀ (skip : List Char → List Char), parse skip (cleanReal g) = parse skip g := by
  induction g with
  | real => intro skip; funext s; exact parse_clean skip .real s
  | seq a b iha ihb => intro skip; funext s; simp only [cleanReal, parse, iha, ihb]
  | alt a b iha ihb => intro skip; funext s; simp only [cleanReal, parse, iha, ihb]
  | star a iha => intro skip; funext s; simp only [cleanReal, parse, iha]
  | plus a iha => intro skip; funext s; simp only [cleanReal, parse, iha]
  | opt a iha => intro skip; funext s; simp only [cleanReal, parse, iha]
  | list a b iha ihb => intro skip; funext s; simp only [cleanReal, parse, iha, ihb]
  | andP a iha => intro skip; funext s; simp only [cleanReal, parse, iha]
  | notP a iha => intro skip; funext s; simp only [cleanReal, parse, iha]
  | diff a b iha ihb => intro skip; funext s; simp only [cleanReal, parse, iha, ihb]
  | lexeme a iha => intro skip; funext s; simp only [cleanReal, parse, iha]
  | mark a iha => intro skip; funext s; simp only [cleanReal, parse, iha]
  | _ => intro skip; rfl

theorem phraseParse_cleanReal (g sk : G) (s : List Char) : phraseParse (cleanReal g) sk s = phraseParse g sk s := by
  simp only [phraseParse, parse_cleanReal]

/-- what `cleanReal` produces, spelled out for two cells of `Csv.cpp` -/
example : cleanReal cellWs = .alt (.seq (.andP .real) .real) (.seq (.lit '?') .attrNan) := rfl
example : cleanReal (cellSepRows ',') =
    .alt (.seq (.andP .real) .real) (.seq (.alt (.lit '?') (.andP (.lit ','))) .attrNan) := rfl

end SharkVerif.Import.Csv
