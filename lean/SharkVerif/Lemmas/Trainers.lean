/-
Helper lemmas for the C15 models (`Model/Trainers.lean`): algebra of the list sums
`lsum` / `rsum` / `bsum`.
-/
import SharkVerif.Model.Trainers
import Mathlib.Tactic.Ring
import Mathlib.Tactic.Linarith
import Mathlib.Tactic.FieldSimp
import Mathlib.Algebra.Order.Field.Rat
namespace SharkVerif.Trainers

variable {α : Type}

@[simp] theorem lsum_nil (f : α → Rat) : lsum [] f = 0 := rfl
@[simp] theorem lsum_cons (a : α) (t : List α) (f : α → Rat) : lsum (a :: t) f = f a + lsum t f := rfl

theorem lsum_append (l₁ l₂ : List α) (f : α → Rat) : lsum (l₁ ++ l₂) f = lsum l₁ f + lsum l₂ f := by
  induction l₁ with
  | nil => simp
  | cons a t ih => simp [ih]; ring

/-- accumulating batch by batch = summing over the flattened data -/
theorem bsum_eq_flatten (bs : List (List α)) (f : α → Rat) : bsum bs f = lsum bs.flatten f := by
  unfold bsum
  induction bs with
  | nil => rfl
  | cons b bs ih => simp [lsum_append, ih]

theorem count_eq_flatten (bs : List (List α)) : count bs = bs.flatten.length := by
  induction bs with
  | nil => rfl
  | cons b bs ih => simp [count, ih]

end SharkVerif.Trainers
