/-
Helper lemmas for the C15 models (`Model/Trainers.lean`): algebra of the list sums
`lsum` / `rsum` / `bsum`.
-/
import SharkVerif.Model.Trainers
import Mathlib.Tactic.Ring
import Mathlib.Tactic.Linarith
import Mathlib.Tactic.FieldSimp
import Mathlib.Algebra.Order.Field.Rat
import Mathlib.Algebra.Order.Field.Basic
namespace SharkVerif.Trainers

variable {α : Type}

@[simp] theorem lsum_nil (f : α → Rat) : lsum [] f = 0 := rfl
@[simp] theorem lsum_cons (a : α) (t : List α) (f : α → Rat) : lsum (a :: t) f = f a + lsum t f := rfl
@[simp] theorem rsum_zero (f : Nat → Rat) : rsum 0 f = 0 := rfl
@[simp] theorem rsum_succ (n : Nat) (f : Nat → Rat) : rsum (n + 1) f = rsum n f + f n := rfl

theorem lsum_append (l₁ l₂ : List α) (f : α → Rat) : lsum (l₁ ++ l₂) f = lsum l₁ f + lsum l₂ f := by
  induction l₁ with
  | nil => simp
  | cons a t ih => simp [ih]; ring

/-- accumulating batch by batch = summing over the flattened data -/
theorem bsum_eq_flatten (bs : List (List α)) (f : α → Rat) : bsum bs f = lsum bs.flatten f := by
  unfold bsum
  induction bs with
  | nil => rfl
  | cons b bs ih => simp [lsum_append, ih]

theorem count_eq_flatten (bs : List (List α)) : count bs = bs.flatten.length := by
  induction bs with
  | nil => rfl
  | cons b bs ih => simp [count, ih]

theorem lsum_congr {l : List α} {f g : α → Rat} (h : ∀ a ∈ l, f a = g a) : lsum l f = lsum l g := by
  induction l with
  | nil => rfl
  | cons a t ih =>
    simp only [lsum_cons]
    rw [h a (by simp), ih (fun b hb => h b (by simp [hb]))]

theorem lsum_add (l : List α) (f g : α → Rat) : lsum l (fun a => f a + g a) = lsum l f + lsum l g := by
  induction l with
  | nil => simp
  | cons a t ih => simp only [lsum_cons, ih]; ring

theorem lsum_sub (l : List α) (f g : α → Rat) : lsum l (fun a => f a - g a) = lsum l f - lsum l g := by
  induction l with
  | nil => simp
  | cons a t ih => simp only [lsum_cons, ih]; ring

theorem lsum_mul_left (l : List α) (c : Rat) (f : α → Rat) : lsum l (fun a => c * f a) = c * lsum l f := by
  induction l with
  | nil => simp
  | cons a t ih => simp only [lsum_cons, ih]; ring

theorem lsum_mul_right (l : List α) (c : Rat) (f : α → Rat) : lsum l (fun a => f a * c) = lsum l f * c := by
  induction l with
  | nil => simp
  | cons a t ih => simp only [lsum_cons, ih]; ring

theorem lsum_zero (l : List α) : lsum l (fun _ => (0 : Rat)) = 0 := by
  induction l with
  | nil => rfl
  | cons a t ih => simp [ih]

theorem lsum_const (l : List α) (c : Rat) : lsum l (fun _ => c) = (l.length : Rat) * c := by
  induction l with
  | nil => simp
  | cons a t ih => simp only [lsum_cons, ih, List.length_cons]; push_cast; ring

theorem lsum_nonneg {l : List α} {f : α → Rat} (h : ∀ a ∈ l, 0 ≤ f a) : 0 ≤ lsum l f := by
  induction l with
  | nil => simp
  | cons a t ih =>
    simp only [lsum_cons]
    have := h a (by simp)
    have := ih (fun b hb => h b (by simp [hb]))
    linarith

theorem lsum_eq_zero_of_nonneg {l : List α} {f : α → Rat} (h : ∀ a ∈ l, 0 ≤ f a) (hs : lsum l f = 0) :
    ∀ a ∈ l, f a = 0 := by
  induction l with
  | nil => intro a ha; simp at ha
  | cons b t ih =>
    simp only [lsum_cons] at hs
    have hb := h b (by simp)
    have ht : 0 ≤ lsum t f := lsum_nonneg (fun c hc => h c (by simp [hc]))
    intro a ha
    rcases List.mem_cons.mp ha with rfl | ha
    · linarith
    · exact ih (fun c hc => h c (by simp [hc])) (by linarith) a ha

theorem rsum_congr {n : Nat} {f g : Nat → Rat} (h : ∀ i, i < n → f i = g i) : rsum n f = rsum n g := by
  induction n with
  | zero => rfl
  | succ n ih =>
    simp only [rsum_succ]
    rw [h n (by omega), ih (fun i hi => h i (by omega))]

theorem rsum_add (n : Nat) (f g : Nat → Rat) : rsum n (fun i => f i + g i) = rsum n f + rsum n g := by
  induction n with
  | zero => simp
  | succ n ih => simp only [rsum_succ, ih]; ring

theorem rsum_sub (n : Nat) (f g : Nat → Rat) : rsum n (fun i => f i - g i) = rsum n f - rsum n g := by
  induction n with
  | zero => simp
  | succ n ih => simp only [rsum_succ, ih]; ring

theorem rsum_mul_left (n : Nat) (c : Rat) (f : Nat → Rat) : rsum n (fun i => c * f i) = c * rsum n f := by
  induction n with
  | zero => simp
  | succ n ih => simp only [rsum_succ, ih]; ring

theorem rsum_mul_right (n : Nat) (c : Rat) (f : Nat → Rat) : rsum n (fun i => f i * c) = rsum n f * c := by
  induction n with
  | zero => simp
  | succ n ih => simp only [rsum_succ, ih]; ring

theorem rsum_zero_fun (n : Nat) : rsum n (fun _ => (0 : Rat)) = 0 := by
  induction n with
  | zero => rfl
  | succ n ih => simp [ih]

theorem rsum_nonneg {n : Nat} {f : Nat → Rat} (h : ∀ i, i < n → 0 ≤ f i) : 0 ≤ rsum n f := by
  induction n with
  | zero => simp
  | succ n ih =>
    simp only [rsum_succ]
    have := h n (by omega)
    have := ih (fun i hi => h i (by omega))
    linarith

theorem rsum_eq_zero_of_nonneg {n : Nat} {f : Nat → Rat} (h : ∀ i, i < n → 0 ≤ f i) (hs : rsum n f = 0) :
    ∀ i, i < n → f i = 0 := by
  induction n with
  | zero => intro i hi; omega
  | succ n ih =>
    simp only [rsum_succ] at hs
    have hn := h n (by omega)
    have ht : 0 ≤ rsum n f := rsum_nonneg (fun i hi => h i (by omega))
    intro i hi
    rcases Nat.lt_succ_iff_lt_or_eq.mp hi with hi | rfl
    · exact ih (fun j hj => h j (by omega)) (by linarith) i hi
    · linarith

/-- Fubini for a list sum and a range sum -/
theorem lsum_rsum_comm (l : List α) (n : Nat) (F : α → Nat → Rat) :
    lsum l (fun a => rsum n (fun j => F a j)) = rsum n (fun j => lsum l (fun a => F a j)) := by
  induction n with
  | zero => simp [lsum_zero]
  | succ n ih => simp only [rsum_succ, lsum_add, ih]

theorem rsum_rsum_comm (m n : Nat) (F : Nat → Nat → Rat) :
    rsum m (fun i => rsum n (fun j => F i j)) = rsum n (fun j => rsum m (fun i => F i j)) := by
  induction n with
  | zero => simp [rsum_zero_fun]
  | succ n ih => simp only [rsum_succ, rsum_add, ih]

/-- a sum with a Kronecker delta picks one term -/
theorem rsum_ite_eq (n i : Nat) (f : Nat → Rat) :
    rsum n (fun j => if i = j then f j else 0) = if i < n then f i else 0 := by
  induction n with
  | zero => simp
  | succ n ih =>
    simp only [rsum_succ, ih]
    by_cases h1 : i < n
    · have : i ≠ n := by omega
      simp [h1, this, Nat.lt_succ_of_lt h1]
    · by_cases h2 : i = n
      · subst h2; simp
      · have : ¬ i < n + 1 := by omega
        simp [h1, h2, this]

end SharkVerif.Trainers
