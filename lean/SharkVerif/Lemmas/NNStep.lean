/-
C17: one call of `next()` preserves the invariant `Good` and returns a minimum
of the points not yet returned (under `LeafUniform` and admissible bounds).
-/
import SharkVerif.Lemmas.NN
namespace SharkVerif.NN

/-- points of the queue that have not been returned yet (the front leaf is
consumed up to `nextIndex`) -/
def curPts (s : QState) : List Nat :=
  match extractMin s.queue with
  | none => []
  | some (f, rest) => f.pts.drop s.nextIndex ++ qpts rest

/-- all points not yet returned -/
def remaining (s : QState) : List Nat := curPts s ++ s.tree.unq

/-- invariant of the query; `ret` = indices returned so far, `all` = the index list of the tree -/
structure Good (dist : Nat → Rat) (all : List Nat) (s : QState) (ret : List Nat) : Prop where
  inv : Inv s.tree
  lbadm : LbAdm dist s.tree
  unif : LeafUniform dist s.tree
  nonempty : LeavesNonempty s.tree
  qtrue : QTrue dist s.queue
  radius : ∀ p ∈ s.tree.unq, s.radius ≤ dist p
  perm : (ret ++ remaining s).Perm all
  sorted : ∀ x ∈ ret, ∀ y ∈ remaining s, dist x ≤ dist y
  cur : 0 < s.neighbors → ∀ f, front s.queue = some f → ∀ y ∈ s.tree.unq, f.d ≤ dist y
  head : s.head = none → s.tree.unq = []
  nb : s.neighbors ≤ ret.length
  ni : s.neighbors = 0 → s.nextIndex = 0
  size : s.tree.size = all.length

structure RefillSpec (dist : Nat → Rat) (s : QState) (q0 : List Leaf)
    (r : TTree × List Leaf × Option (List Bool) × Rat) : Prop where
  spec : EnqSpec dist s.tree q0 r.1 r.2.1 false
  front : ∀ y ∈ r.1.unq, ∀ f, front r.2.1 = some f → f.d ≤ dist y
  empty : r.2.1 = [] → r.1.unq = []
  radius : ∀ p ∈ r.1.unq, r.2.2.2 ≤ dist p
  head : r.2.2.1 = none → r.1.unq = []

theorem refill_spec {dist : Nat → Rat} {s : QState} {q0 : List Leaf}
    (hi : Inv s.tree) (ha : LbAdm dist s.tree)
    (hrad : ∀ p ∈ s.tree.unq, s.radius ≤ dist p) (hhead : s.head = none → s.tree.unq = []) :
    RefillSpec dist s q0 (refill s q0) := by
  unfold refill
  cases hf : front q0 with
  | none =>
    simp only [if_true]
    cases hh : s.head with
    | none =>
      have hu := hhead hh
      exact { spec := EnqSpec.refl .., front := by simp [hu], empty := fun _ => hu,
              radius := by simp [hu], head := fun _ => hu }
    | some p =>
      simp only
      obtain ⟨h1, h2, h3⟩ := enqLoop_spec dist p s.tree q0 (some p)
      have hpost := h2 ha hi
      refine { spec := h1, front := hpost.1, empty := hpost.2,
               radius := radius_le dist _ (h1.lbadm ha) (h1.inv hi).1, head := ?_ }
      intro hn
      rcases h3 hn with h | h
      · exact inv_done_unq _ (h1.inv hi).1 h
      · cases h
  | some f =>
    by_cases c : s.radius < f.d
    · simp only [c, decide_true, if_true]
      cases hh : s.head with
      | none =>
        have hu := hhead hh
        exact { spec := EnqSpec.refl .., front := by simp [hu], empty := fun _ => hu,
                radius := by simp [hu], head := fun _ => hu }
      | some p =>
        simp only
        obtain ⟨h1, h2, h3⟩ := enqLoop_spec dist p s.tree q0 (some p)
        have hpost := h2 ha hi
        refine { spec := h1, front := hpost.1, empty := hpost.2,
                 radius := radius_le dist _ (h1.lbadm ha) (h1.inv hi).1, head := ?_ }
        intro hn
        rcases h3 hn with h | h
        · exact inv_done_unq _ (h1.inv hi).1 h
        · cases h
    · simp only [c, decide_false, Bool.false_eq_true, if_false]
      refine { spec := EnqSpec.refl .., front := ?_, empty := ?_, radius := hrad, head := hhead }
      · intro y hy f' hf'
        rw [hf] at hf'; cases hf'
        have := hrad y hy
        grind
      · intro hq
        have hq' : q0 = [] := hq
        rw [hq'] at hf; simp [SharkVerif.NN.front, extractMin] at hf

theorem extractMin_qpts {q : List Leaf} {f : Leaf} {rest : List Leaf}
    (h : extractMin q = some (f, rest)) : (f.pts ++ qpts rest).Perm (qpts q) := by
  have := qpts_perm (extractMin_perm h)
  simpa [qpts_cons] using this

/-- the second half of `next()` -/
theorem fresh_step {dist : Nat → Rat} {all ret : List Nat} {s : QState} {q0 : List Leaf}
    (hi : Inv s.tree) (ha : LbAdm dist s.tree) (hu : LeafUniform dist s.tree)
    (hn : LeavesNonempty s.tree) (hq : QTrue dist q0)
    (hrad : ∀ p ∈ s.tree.unq, s.radius ≤ dist p) (hhead : s.head = none → s.tree.unq = [])
    (hperm : (ret ++ (qpts q0 ++ s.tree.unq)).Perm all)
    (hsorted : ∀ x ∈ ret, ∀ y ∈ qpts q0 ++ s.tree.unq, dist x ≤ dist y)
    (hnb : s.neighbors ≤ ret.length) (hsize : s.tree.size = all.length)
    (hlt : ret.length < all.length) :
    ∃ s' i, fresh s q0 = (s', some (dist i, i)) ∧ i ∈ qpts q0 ++ s.tree.unq ∧
      (∀ y ∈ qpts q0 ++ s.tree.unq, dist i ≤ dist y) ∧ Good dist all s' (ret ++ [i]) := by
  have R := refill_spec (q0 := q0) hi ha hrad hhead
  generalize hr : refill s q0 = r at R
  obtain ⟨t2, q2, head2, rad2⟩ := r
  have hq2 : QTrue dist q2 := R.spec.qtrue hu hn hq
  have hp2 : (qpts q2 ++ t2.unq).Perm (qpts q0 ++ s.tree.unq) := R.spec.perm
  -- the queue cannot be empty: something is left
  have hne : q2 ≠ [] := by
    intro hq2e
    have hunq := R.empty hq2e
    have : (qpts q2 ++ t2.unq) = [] := by simp [hq2e, hunq, qpts]
    rw [this] at hp2
    have h0 : qpts q0 ++ s.tree.unq = [] := List.Perm.eq_nil (hp2.symm)
    rw [h0, List.append_nil] at hperm
    have := hperm.length_eq
    omega
  cases hx : extractMin q2 with
  | none => exact absurd (extractMin_none.mp hx) hne
  | some pr =>
    obtain ⟨f2, rest2⟩ := pr
    have hfront : front q2 = some f2 := by simp [front, hx]
    have hf2mem : f2 ∈ q2 := front_mem hfront
    obtain ⟨hf2ne, hf2d⟩ := hq2 f2 hf2mem
    obtain ⟨i, tl, hpts⟩ := List.exists_cons_of_ne_nil hf2ne
    have hdi : dist i = f2.d := hf2d i (by simp [hpts])
    -- minimality of the front leaf's distance
    have hmin2 : ∀ y ∈ qpts q2 ++ t2.unq, f2.d ≤ dist y := by
      intro y hy
      rcases List.mem_append.mp hy with h | h
      · obtain ⟨lf, hlf, hyl⟩ := mem_qpts.mp h
        rw [(hq2 lf hlf).2 y hyl]
        exact front_min hfront lf hlf
      · exact R.front y h f2 hfront
    have hi2 : i ∈ qpts q2 ++ t2.unq := by
      apply List.mem_append_left
      exact mem_qpts.mpr ⟨f2, hf2mem, by simp [hpts]⟩
    let s' : QState := { tree := t2, queue := q2, nextIndex := 1, head := head2, radius := rad2,
                         neighbors := s.neighbors + 1 }
    have hfresh : fresh s q0 = (s', some (dist i, i)) := by
      simp only [fresh, hr, hfront, getNextPoint, hpts, s']
      simp [hdi]
    have hcur : curPts s' = tl ++ qpts rest2 := by
      simp [curPts, s', hx, hpts]
    -- i :: remaining s' is a permutation of the old remaining points
    have hrem : (i :: remaining s').Perm (qpts q0 ++ s.tree.unq) := by
      have e1 : i :: remaining s' = (f2.pts ++ qpts rest2) ++ t2.unq := by
        simp [remaining, hcur, hpts, s']
      rw [e1]
      exact (List.Perm.append_right _ (extractMin_qpts hx)).trans hp2
    refine ⟨s', i, hfresh, hp2.subset hi2, ?_, ?_⟩
    · intro y hy
      rw [hdi]
      exact hmin2 y (hp2.symm.subset hy)
    · refine { inv := (R.spec.inv hi).1, lbadm := R.spec.lbadm ha, unif := R.spec.unif hu,
               nonempty := R.spec.nonempty hn, qtrue := hq2, radius := R.radius, perm := ?_,
               sorted := ?_, cur := fun _ f hf y hy => R.front y hy f hf, head := R.head,
               nb := by simp [s']; omega, ni := by simp [s'], size := ?_ }
      · have : ((ret ++ [i]) ++ remaining s').Perm (ret ++ (i :: remaining s')) := by
          simp
        exact this.trans ((List.Perm.append_left _ hrem).trans hperm)
      · intro x hx' y hy
        have hy' : y ∈ qpts q0 ++ s.tree.unq := hrem.subset (List.mem_cons_of_mem _ hy)
        rcases List.mem_append.mp hx' with h | h
        · exact hsorted x h y hy'
        · simp at h; subst h
          rw [hdi]
          exact hmin2 y (hp2.symm.subset hy')
      · show t2.size = all.length
        simp only [TTree.size] at hsize ⊢
        rw [R.spec.pts]; exact hsize

theorem qtrue_of_perm {dist : Nat → Rat} {a b : List Leaf} (h : a.Perm b) (hq : QTrue dist b) :
    QTrue dist a := fun lf hlf => hq lf (h.subset hlf)

/-- One call of `next()`: it returns a point that was not returned before,
together with its true squared distance, which is minimal among all points not
yet returned; and the invariant is preserved. -/
theorem next_step {dist : Nat → Rat} {all ret : List Nat} {s : QState}
    (hG : Good dist all s ret) (hlt : ret.length < all.length) :
    ∃ s' i, next s = (s', some (dist i, i)) ∧ i ∈ remaining s ∧
      (∀ y ∈ remaining s, dist i ≤ dist y) ∧ Good dist all s' (ret ++ [i]) := by
  have hsz : ¬ s.tree.size ≤ s.neighbors := by
    have := hG.nb; have := hG.size; omega
  unfold next
  rw [if_neg hsz]
  by_cases hnb : 0 < s.neighbors
  · rw [if_pos hnb]
    cases hx : extractMin s.queue with
    | none =>
      -- empty queue: everything left is unqueued
      have hq0 : s.queue = [] := extractMin_none.mp hx
      have hrem : remaining s = qpts s.queue ++ s.tree.unq := by
        simp only [remaining, curPts, hx]
        simp [hq0, qpts]
      simp only
      rw [hrem]
      exact fresh_step hG.inv hG.lbadm hG.unif hG.nonempty hG.qtrue hG.radius hG.head
        (by rw [← hrem]; exact hG.perm) (by rw [← hrem]; exact hG.sorted) hG.nb hG.size hlt
    | some pr =>
      obtain ⟨f, rest⟩ := pr
      simp only
      have hfront : front s.queue = some f := by simp [front, hx]
      have hfmem : f ∈ s.queue := front_mem hfront
      by_cases hni : s.nextIndex < f.pts.length
      · -- the current leaf still has points
        rw [if_pos hni]
        have hget : f.pts[s.nextIndex]? = some f.pts[s.nextIndex] := List.getElem?_eq_getElem hni
        have hdrop : f.pts.drop s.nextIndex = f.pts[s.nextIndex] :: f.pts.drop (s.nextIndex + 1) :=
          List.drop_eq_getElem_cons hni
        have hi_mem : f.pts[s.nextIndex] ∈ f.pts := List.getElem_mem hni
        have hdi : dist f.pts[s.nextIndex] = f.d := (hG.qtrue f hfmem).2 _ hi_mem
        let s' : QState := { s with nextIndex := s.nextIndex + 1 }
        have hrem : remaining s = f.pts[s.nextIndex] :: remaining s' := by
          have c1 : curPts s = f.pts.drop s.nextIndex ++ qpts rest := by simp only [curPts, hx]
          have c2 : curPts s' = f.pts.drop (s.nextIndex + 1) ++ qpts rest := by
            simp only [curPts, s', hx]
          show curPts s ++ s.tree.unq = f.pts[s.nextIndex] :: (curPts s' ++ s'.tree.unq)
          rw [c1, c2, hdrop]
          rfl
        have hmin : ∀ y ∈ remaining s, dist f.pts[s.nextIndex] ≤ dist y := by
          intro y hy
          rw [hdi]
          simp only [remaining, curPts, hx, List.mem_append] at hy
          rcases hy with (h | h) | h
          · rw [(hG.qtrue f hfmem).2 y (List.mem_of_mem_drop h)]; exact Rat.le_refl
          · obtain ⟨lf, hlf, hyl⟩ := mem_qpts.mp h
            have hlfq : lf ∈ s.queue := (extractMin_perm hx).subset (List.mem_cons_of_mem _ hlf)
            rw [(hG.qtrue lf hlfq).2 y hyl]
            exact front_min hfront lf hlfq
          · exact hG.cur hnb f hfront y h
        refine ⟨s', f.pts[s.nextIndex], ?_, ?_, hmin, ?_⟩
        · simp [getNextPoint, hget, hdi, s']
        · rw [hrem]; exact List.mem_cons_self ..
        · refine { inv := hG.inv, lbadm := hG.lbadm, unif := hG.unif, nonempty := hG.nonempty,
                   qtrue := hG.qtrue, radius := hG.radius, perm := ?_, sorted := ?_, cur := hG.cur,
                   head := hG.head, nb := by simp [s']; have := hG.nb; omega,
                   ni := by intro h; simp [s'] at h; omega, size := hG.size }
          · have : ((ret ++ [f.pts[s.nextIndex]]) ++ remaining s').Perm (ret ++ remaining s) := by
              rw [hrem]; simp
            exact this.trans hG.perm
          · intro x hx' y hy
            have hy' : y ∈ remaining s := by rw [hrem]; exact List.mem_cons_of_mem _ hy
            rcases List.mem_append.mp hx' with h | h
            · exact hG.sorted x h y hy'
            · simp at h; subst h; exact hmin y hy'
      · -- the current leaf is exhausted: erase it and start the next one
        rw [if_neg hni]
        have hdrop : f.pts.drop s.nextIndex = [] := List.drop_eq_nil_of_le (by omega)
        have hrem : remaining s = qpts rest ++ s.tree.unq := by
          simp [remaining, curPts, hx, hdrop]
        have hqr : QTrue dist rest := fun lf hlf =>
          hG.qtrue lf ((extractMin_perm hx).subset (List.mem_cons_of_mem _ hlf))
        rw [hrem]
        exact fresh_step hG.inv hG.lbadm hG.unif hG.nonempty hqr hG.radius hG.head
          (by rw [← hrem]; exact hG.perm) (by rw [← hrem]; exact hG.sorted) hG.nb hG.size hlt
  · rw [if_neg hnb]
    have hnb0 : s.neighbors = 0 := by omega
    have hni := hG.ni hnb0
    have hrem : (remaining s).Perm (qpts s.queue ++ s.tree.unq) := by
      simp only [remaining, curPts]
      cases hx : extractMin s.queue with
      | none => simp [extractMin_none.mp hx, qpts]
      | some pr =>
        obtain ⟨f, rest⟩ := pr
        simp only [hni, List.drop_zero]
        exact List.Perm.append_right _ (extractMin_qpts hx)
    obtain ⟨s', i, h1, h2, h3, h4⟩ := fresh_step (q0 := s.queue) (ret := ret) hG.inv hG.lbadm hG.unif
      hG.nonempty hG.qtrue hG.radius hG.head
      ((List.Perm.append_left _ hrem.symm).trans hG.perm)
      (fun x hx y hy => hG.sorted x hx y (hrem.symm.subset hy)) hG.nb hG.size hlt
    exact ⟨s', i, h1, hrem.symm.subset h2, fun y hy => h3 y (hrem.subset hy), h4⟩

end SharkVerif.NN
