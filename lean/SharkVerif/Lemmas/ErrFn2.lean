/-
C06 (deep, part 2): batch-partition independence at element level, `CombinedObjectiveFunction`,
`NegativeLogLikelihood` (thread ranges: site 3) — over `ℝ`.
-/
import SharkVerif.Lemmas.ErrFn
namespace SharkVerif.ErrFn
open Finset SharkVerif.Loss SharkVerif.Models

/-! ### A. batch-partition independence at element level -/

/-- the model output of a row only depends on that row of the input batch (and not on its position):
if row `i` of `X` equals row `i'` of `Y`, output row `i` on `X` equals output row `i'` on `Y`.
(For `i' = i` this is the plain "row `i` only reads row `i`", `RowLocal.same_row`.) -/
def RowLocal (g : ModelFn ℝ) : Prop :=
  ∀ (X Y : ℕ → ℕ → ℝ) (i i' : ℕ), (∀ j, X i j = Y i' j) → ∀ k, g.evalB X i k = g.evalB Y i' k

theorem RowLocal.same_row {g : ModelFn ℝ} (h : RowLocal g) (X Y : ℕ → ℕ → ℝ) (i : ℕ)
    (hxy : ∀ j, X i j = Y i j) (k : ℕ) : g.evalB X i k = g.evalB Y i k := h X Y i i hxy k

/-- the batch value of the loss is the sum of the element values -/
def Rowwise {L : Type} (loss : LossFn ℝ L) (elem : L → List ℝ → ℝ) : Prop :=
  ∀ (labels : List L) (rows : List (List ℝ)), labels.length = rows.length →
    loss.eval labels rows = (List.zipWith elem labels rows).sum

/-- first element of batch `b` of the partition `sizes` -/
def offsetOf (sizes : List ℕ) (b : ℕ) : ℕ := (sizes.take b).sum

/-- the data set `(Xall, lab)` cut into consecutive batches of the given sizes -/
def partBatches {L : Type} (Xall : ℕ → ℕ → ℝ) (lab : List L) (sizes : List ℕ) (b : ℕ) : Batch ℝ L :=
  { n := sizes.getD b 0
    X := fun i j => Xall (offsetOf sizes b + i) j
    labels := (lab.drop (offsetOf sizes b)).take (sizes.getD b 0) }

/-- the prediction of element `e` evaluated alone (a batch of one row) -/
noncomputable def elemRow (g : ModelFn ℝ) (Xall : ℕ → ℕ → ℝ) (e : ℕ) : List ℝ :=
  rowOf g.m (g.evalB (fun _ j => Xall e j) 0)

/-- the list of the element losses of the whole data set -/
noncomputable def elemLosses {L : Type} (g : ModelFn ℝ) (elem : L → List ℝ → ℝ) (Xall : ℕ → ℕ → ℝ)
    (lab : List L) : List ℝ :=
  List.zipWith elem lab ((List.range lab.length).map (elemRow g Xall))

theorem take_sum_add_getD_le : ∀ (sizes : List ℕ) (b : ℕ),
    (sizes.take b).sum + sizes.getD b 0 ≤ sizes.sum
  | [], b => by simp
  | s :: rest, 0 => by simp
  | s :: rest, b + 1 => by
    have := take_sum_add_getD_le rest b
    simp only [List.take_succ_cons, List.sum_cons, List.getD_cons_succ]
    omega

/-- cutting a list into consecutive pieces and adding the piece sums gives the sum of the list -/
theorem pieces_sum : ∀ (sizes : List ℕ) (l : List ℝ), sizes.sum = l.length →
    ∑ b ∈ range sizes.length, ((l.drop (offsetOf sizes b)).take (sizes.getD b 0)).sum = l.sum
  | [], l, h => by
    have : l = [] := List.eq_nil_of_length_eq_zero (by simpa using h.symm)
    simp [this]
  | s :: rest, l, h => by
    have ih := pieces_sum rest (l.drop s) (by simp only [List.sum_cons] at h; simp; omega)
    rw [List.length_cons, Finset.sum_range_succ']
    have hterm : ∀ b, ((l.drop (offsetOf (s :: rest) (b + 1))).take ((s :: rest).getD (b + 1) 0)).sum
        = (((l.drop s).drop (offsetOf rest b)).take (rest.getD b 0)).sum := by
      intro b
      simp only [offsetOf, List.take_succ_cons, List.sum_cons, List.getD_cons_succ, List.drop_drop]
    simp only [hterm, ih]
    simp only [offsetOf, List.take_zero, List.sum_nil, List.drop_zero, List.getD_cons_zero]
    rw [add_comm, ← List.sum_append, List.take_append_drop]

theorem range_drop_take (n off nb : ℕ) (h : off + nb ≤ n) {β : Type} (r : ℕ → β) :
    (((List.range n).map r).drop off).take nb = (List.range nb).map fun i => r (off + i) := by
  apply List.ext_getElem
  · simp; omega
  · intro i h1 h2
    simp

section Partition
variable {L : Type} (g : ModelFn ℝ) (loss : LossFn ℝ L) (elem : L → List ℝ → ℝ)
  (Xall : ℕ → ℕ → ℝ) (lab : List L)

/-- one batch of the partition: its loss is the sum of the element losses of its rows -/
theorem partBatch_loss (hg : RowLocal g) (hl : Rowwise loss elem) (sizes : List ℕ)
    (hsum : sizes.sum = lab.length) (b : ℕ) :
    loss.eval (partBatches Xall lab sizes b).labels (predictions g (partBatches Xall lab sizes b))
      = (((elemLosses g elem Xall lab).drop (offsetOf sizes b)).take (sizes.getD b 0)).sum := by
  have hle : offsetOf sizes b + sizes.getD b 0 ≤ lab.length := by
    rw [← hsum]; exact take_sum_add_getD_le sizes b
  have hrows : predictions g (partBatches Xall lab sizes b)
      = (List.range (sizes.getD b 0)).map fun i => elemRow g Xall (offsetOf sizes b + i) := by
    unfold predictions toRows elemRow rowOf
    apply List.map_congr_left
    intro i _
    apply List.map_congr_left
    intro k _
    exact hg _ _ i 0 (fun j => rfl) k
  rw [hl _ _ (by
    rw [hrows]
    simp only [partBatches, List.length_take, List.length_drop, List.length_map, List.length_range]
    omega)]
  rw [hrows]
  unfold elemLosses
  rw [List.drop_zipWith, List.take_zipWith, range_drop_take _ _ _ hle]
  rfl

/-- **the sum of the batch losses is the sum of the element losses**, whatever the partition -/
theorem partition_sum_eq_elements (hg : RowLocal g) (hl : Rowwise loss elem) (sizes : List ℕ)
    (hsum : sizes.sum = lab.length) :
    ∑ b ∈ range sizes.length,
        loss.eval (partBatches Xall lab sizes b).labels (predictions g (partBatches Xall lab sizes b))
      = (List.zipWith elem lab ((List.range lab.length).map (elemRow g Xall))).sum := by
  simp only [partBatch_loss g loss elem Xall lab hg hl sizes hsum]
  have hlen : sizes.sum = (elemLosses g elem Xall lab).length := by
    simp [elemLosses, hsum]
  exact pieces_sum sizes _ hlen

/-- the same with a `Finset` sum over the element indices (the label of element `e` read with a default
that is never used) -/
theorem partition_sum_eq_elements' [Inhabited L] (hg : RowLocal g) (hl : Rowwise loss elem)
    (sizes : List ℕ) (hsum : sizes.sum = lab.length) :
    ∑ b ∈ range sizes.length,
        loss.eval (partBatches Xall lab sizes b).labels (predictions g (partBatches Xall lab sizes b))
      = ∑ e ∈ range lab.length, elem (lab.getD e default) (elemRow g Xall e) := by
  rw [partition_sum_eq_elements g loss elem Xall lab hg hl sizes hsum, ← list_range_map_sum]
  congr 1
  apply List.ext_getElem
  · simp
  · intro i h1 h2
    have hi : i < lab.length := by simpa using h1
    simp [List.getD_eq_getElem?_getD, hi]

theorem numElements_partBatches (sizes : List ℕ) :
    numElements (partBatches Xall lab sizes) sizes.length = sizes.sum := by
  unfold numElements
  congr 1
  apply List.ext_getElem
  · simp
  · intro i h1 h2
    have hi : i < sizes.length := by simpa using h1
    simp [partBatches, List.getD_eq_getElem?_getD, hi]

/-- **batch-partition independence of `ErrorFunction::eval`**: two partitions of the same data set,
any thread counts, any merge orders — the same value -/
theorem eval_partition_independent (hg : RowLocal g) (hl : Rowwise loss elem)
    (sizes1 sizes2 : List ℕ) (hsum1 : sizes1.sum = lab.length) (hsum2 : sizes2.sum = lab.length)
    (hB1 : 1 ≤ sizes1.length) (hB2 : 1 ≤ sizes2.length)
    (threads1 threads2 : ℕ) (ht1 : 1 ≤ threads1) (ht2 : 1 ≤ threads2) (order1 order2 : List ℕ)
    (hperm1 : order1.Perm (List.range (min threads1 sizes1.length)))
    (hperm2 : order2.Perm (List.range (min threads2 sizes2.length))) :
    ErrFn.eval g loss (partBatches Xall lab sizes1) sizes1.length threads1 order1
      = ErrFn.eval g loss (partBatches Xall lab sizes2) sizes2.length threads2 order2 := by
  rw [eval_value g loss _ _ threads1 hB1 ht1 order1 hperm1, eval_value g loss _ _ threads2 hB2 ht2 order2 hperm2,
    partition_sum_eq_elements g loss elem Xall lab hg hl sizes1 hsum1,
    partition_sum_eq_elements g loss elem Xall lab hg hl sizes2 hsum2,
    numElements_partBatches, numElements_partBatches, hsum1, hsum2]

/-- … and its value is the mean of the element losses -/
theorem eval_eq_element_mean (hg : RowLocal g) (hl : Rowwise loss elem)
    (sizes : List ℕ) (hsum : sizes.sum = lab.length) (hB : 1 ≤ sizes.length)
    (threads : ℕ) (ht : 1 ≤ threads) (order : List ℕ)
    (hperm : order.Perm (List.range (min threads sizes.length))) :
    ErrFn.eval g loss (partBatches Xall lab sizes) sizes.length threads order
      = (List.zipWith elem lab ((List.range lab.length).map (elemRow g Xall))).sum / (lab.length : ℝ) := by
  rw [eval_value g loss _ _ threads hB ht order hperm,
    partition_sum_eq_elements g loss elem Xall lab hg hl sizes hsum, numElements_partBatches, hsum]

end Partition

/-! #### every chain is row-local -/

theorem layer_rowLocal (l : Layer ℝ) (X Y : ℕ → ℕ → ℝ) (i i' : ℕ) (h : ∀ j, X i j = Y i' j) (k : ℕ) :
    l.evalB Real.tanh Real.exp X i k = l.evalB Real.tanh Real.exp Y i' k := by
  have hrow : X i = Y i' := funext h
  cases l with
  | dense m => simp only [Layer.evalB, Dense.evalB, Dense.preB, h]
  | neuron a n => simp only [Layer.evalB, h]
  | rowact r n =>
    cases r with
    | softmax => simp only [Layer.evalB, hrow]
    | normalizer => simp only [Layer.evalB, hrow]

theorem chain_rowLocal (c : Chain ℝ) : ∀ (X Y : ℕ → ℕ → ℝ) (i i' : ℕ), (∀ j, X i j = Y i' j) →
    ∀ k, Chain.evalB Real.tanh Real.exp c X i k = Chain.evalB Real.tanh Real.exp c Y i' k := by
  induction c with
  | nil => intro X Y i i' h k; exact h k
  | cons p c ih =>
    obtain ⟨l, o⟩ := p
    intro X Y i i' h k
    rw [Chain.evalB_cons, Chain.evalB_cons]
    exact ih _ _ i i' (fun j => layer_rowLocal l X Y i i' h j) k

/-- **every `ConcatenatedModel` of C04 is row-local** -/
theorem rowLocal_ofChain (c : Chain ℝ) (m : ℕ) : RowLocal (ofChain Real.tanh Real.exp c m) :=
  fun X Y i i' h k => chain_rowLocal c X Y i i' h k

/-! #### `Rowwise` instances -/

theorem zipWith_flatten_map_sum {A B : Type} (f : ℝ → ℝ) (r : A → B → List ℝ) :
    ∀ (l : List A) (p : List B), ((List.zipWith r l p).flatten.map f).sum
      = (List.zipWith (fun a b => ((r a b).map f).sum) l p).sum
  | [], _ => by simp
  | _ :: _, [] => by simp
  | a :: l, b :: p => by
    simp only [List.zipWith_cons_cons, List.flatten_cons, List.map_append, List.sum_append, List.sum_cons,
      zipWith_flatten_map_sum f r l p]

theorem mul_zipWith_sum {A B : Type} (c : ℝ) (h : A → B → ℝ) :
    ∀ (l : List A) (p : List B), c * (List.zipWith h l p).sum = (List.zipWith (fun a b => c * h a b) l p).sum
  | [], _ => by simp
  | _ :: _, [] => by simp
  | a :: l, b :: p => by
    simp only [List.zipWith_cons_cons, List.sum_cons, mul_add, mul_zipWith_sum c h l p]

theorem rowwise_squaredLoss :
    Rowwise (squaredLoss : LossFn ℝ (List ℝ)) (fun l p => squaredEval [l] [p]) := by
  intro labels rows _
  show squaredEval labels rows = _
  unfold squaredEval
  rw [sumL_eq_sum_real, zipWith_flatten_map_sum, mul_zipWith_sum]
  congr 2
  funext l p
  simp [sumL_eq_sum_real]

theorem rowwise_epsHingeLoss (eps : ℝ) :
    Rowwise (epsHingeLoss eps : LossFn ℝ (List ℝ)) (fun l p => epsHingeEval eps [l] [p]) := by
  intro labels rows _
  show epsHingeEval eps labels rows = _
  unfold epsHingeEval
  rw [sumL_eq_sum_real, zipWith_flatten_map_sum]
  congr 2
  funext l p
  simp [sumL_eq_sum_real]

theorem rowwise_huberLoss (sqrt : ℝ → ℝ) (delta : ℝ) :
    Rowwise (huberLoss sqrt delta : LossFn ℝ (List ℝ)) (huberRow sqrt delta) := by
  intro labels rows _
  show huberEval sqrt delta labels rows = _
  unfold huberEval
  rw [sumL_eq_sum_real]

theorem rowwise_crossEntropyLoss (exp log : ℝ → ℝ) :
    Rowwise (crossEntropyLoss exp log : LossFn ℝ ℕ) (ceRowEval exp log) := by
  intro labels rows _
  show ceEval exp log labels rows = _
  unfold ceEval
  rw [sumL_eq_sum_real]

/-- non-vacuity: `RowLocal` and `Rowwise` hold for the four-layer `chainDemo` and the squared loss, so
`eval_partition_independent` applies: 5 elements as batches `[2,3]` (2 threads, second thread first)
or `[1,1,3]` (3 threads) -/
example (Xall : ℕ → ℕ → ℝ) (lab : List (List ℝ)) (hlab : lab.length = 5) :
    ErrFn.eval (ofChain Real.tanh Real.exp chainDemo 2) squaredLoss (partBatches Xall lab [2, 3]) 2 2 [1, 0]
      = ErrFn.eval (ofChain Real.tanh Real.exp chainDemo 2) squaredLoss (partBatches Xall lab [1, 1, 3]) 3 7
          [2, 0, 1] :=
  eval_partition_independent _ _ _ Xall lab (rowLocal_ofChain chainDemo 2) rowwise_squaredLoss
    [2, 3] [1, 1, 3] (by simp [hlab]) (by simp [hlab]) (by simp) (by simp) 2 7 (by norm_num) (by norm_num)
    [1, 0] [2, 0, 1] (by decide) (by decide)

/-! ### B. `CombinedObjectiveFunction` -/

theorem combinedEvalDerivative_eq (w : ℝ) (v : ℝ × List ℝ) (rest : List (ℝ × (ℝ × List ℝ))) :
    combinedEvalDerivative ((w, v) :: rest)
      = rest.foldl (pairStep (fun wv => wv.1 * wv.2.1) (fun wv => wv.2.2.map (wv.1 * ·)))
          (w * v.1, v.2.map (w * ·)) := rfl

/-- **value**: `Σ wᵢ·vᵢ` -/
theorem combinedEvalDerivative_value (l : List (ℝ × (ℝ × List ℝ))) :
    (combinedEvalDerivative l).1 = (l.map fun wv => wv.1 * wv.2.1).sum := by
  cases l with
  | nil => simp [combinedEvalDerivative]
  | cons x rest =>
    obtain ⟨w, v⟩ := x
    rw [combinedEvalDerivative_eq, foldl_pair_fst]
    simp

/-- **gradient entries**: `Σ wᵢ·gᵢ[idx]` when all gradients have the same length -/
theorem combinedEvalDerivative_gradient_entry (l : List (ℝ × (ℝ × List ℝ))) (n : ℕ)
    (hlen : ∀ x ∈ l, x.2.2.length = n) (idx : ℕ) :
    (combinedEvalDerivative l).2.getD idx 0 = (l.map fun wv => wv.1 * wv.2.2.getD idx 0).sum := by
  cases l with
  | nil => simp [combinedEvalDerivative]
  | cons x rest =>
    obtain ⟨w, v⟩ := x
    rw [combinedEvalDerivative_eq, foldl_pair_snd_getD]
    · simp only [getD_map_mul, List.map_cons, List.sum_cons]
    · intro y hy
      simp only [List.length_map]
      rw [hlen y (by simp [hy]), hlen (w, v) (by simp)]

theorem combinedEval_value (l : List (ℝ × ℝ)) : combinedEval l = (l.map fun wv => wv.1 * wv.2).sum := by
  cases l with
  | nil => simp [combinedEval]
  | cons x rest =>
    obtain ⟨w, v⟩ := x
    simp only [combinedEval]
    rw [foldl_add_eq_sum (fun wv : ℝ × ℝ => wv.1 * wv.2)]
    simp

theorem hasDerivAt_list_sum {β : Type} (F : β → ℝ → ℝ) (F' : β → ℝ) (t0 : ℝ) :
    ∀ (l : List β), (∀ x ∈ l, HasDerivAt (F x) (F' x) t0) →
      HasDerivAt (fun t => (l.map fun x => F x t).sum) (l.map F').sum t0
  | [], _ => by simpa using hasDerivAt_const t0 (0 : ℝ)
  | x :: l, h => by
    have h1 := h x (by simp)
    have h2 := hasDerivAt_list_sum F F' t0 l (fun y hy => h y (by simp [hy]))
    simp only [List.map_cons, List.sum_cons]
    exact h1.fun_add h2

/-- **`CombinedObjectiveFunction::evalDerivative`**: for parts `(wᵢ, Eᵢ, gᵢ)` where `gᵢ[idx]` is the
derivative of `Eᵢ` at `t0`, the combined value is `Σ wᵢ·Eᵢ t0` and the combined gradient entry is the
derivative of `t ↦ Σ wᵢ·Eᵢ t` -/
theorem combinedEvalDerivative_correct (parts : List (ℝ × ((ℝ → ℝ) × List ℝ))) (t0 : ℝ) (idx n : ℕ)
    (hlen : ∀ p ∈ parts, p.2.2.length = n)
    (hd : ∀ p ∈ parts, HasDerivAt p.2.1 (p.2.2.getD idx 0) t0) :
    (combinedEvalDerivative (parts.map fun p => (p.1, (p.2.1 t0, p.2.2)))).1
      = (parts.map fun p => p.1 * p.2.1 t0).sum ∧
    HasDerivAt (fun t => (parts.map fun p => p.1 * p.2.1 t).sum)
      ((combinedEvalDerivative (parts.map fun p => (p.1, (p.2.1 t0, p.2.2)))).2.getD idx 0) t0 := by
  constructor
  · rw [combinedEvalDerivative_value, List.map_map]; rfl
  · rw [combinedEvalDerivative_gradient_entry _ n (by
      intro x hx
      obtain ⟨p, hp, rfl⟩ := List.mem_map.1 hx
      exact hlen p hp), List.map_map]
    exact hasDerivAt_list_sum (fun p t => p.1 * p.2.1 t) (fun p => p.1 * p.2.2.getD idx 0) t0 parts
      (fun p hp => (hd p hp).const_mul p.1)

/-- non-vacuity: `2·t² + 3·t` at `t0 = 1` -/
example :
    HasDerivAt (fun t : ℝ => ([((2 : ℝ), ((fun t : ℝ => t ^ 2), [(2 : ℝ)])), (3, ((fun t => t), [1]))].map
        fun p => p.1 * p.2.1 t).sum)
      ((combinedEvalDerivative ([((2 : ℝ), ((fun t : ℝ => t ^ 2), [(2 : ℝ)])), (3, ((fun t => t), [1]))].map
        fun p => (p.1, (p.2.1 1, p.2.2)))).2.getD 0 0) 1 :=
  (combinedEvalDerivative_correct _ 1 0 1 (by simp) (by
    intro p hp
    simp only [List.mem_cons, List.not_mem_nil, or_false] at hp
    rcases hp with rfl | rfl
    · exact (hasDerivAt_pow 2 (1 : ℝ)).congr_deriv (by norm_num)
    · exact hasDerivAt_id' (1 : ℝ))).2

/-! ### C. `NegativeLogLikelihood` -/

section NLL
variable {L : Type} (log : ℝ → ℝ) (minProb : ℝ) (g : ModelFn ℝ) (batches : ℕ → Batch ℝ L)

/-- `eval`: `−(Σ_b nllBatch b)/n`, for every order of the parallel loop over the batches -/
theorem nllEval_value (B : ℕ) (order : List ℕ) (hperm : order.Perm (List.range B)) :
    nllEval log minProb g batches B order
      = -((∑ b ∈ range B, nllBatch log minProb g (batches b)) / (numElements batches B : ℝ)) := by
  unfold nllEval
  rw [foldl_add_eq_sum (fun i => nllBatch log minProb g (batches i)), zero_add, order_sum order B hperm,
    ofNat_real]

theorem nllRange_eq_fold (s e : ℕ) :
    nllRange log minProb g batches s e
      = (List.range (e - s)).foldl
          (pairStep (fun d => nllBatch log minProb g (batches (s + d)))
            (fun d => g.wpd (batches (s + d)).n (batches (s + d)).X
              (fun j k => if minProb ≤ g.evalB (batches (s + d)).X j k
                then 1 / g.evalB (batches (s + d)).X j k else 0)))
          (0, zeros g.np) := rfl

theorem nllRange_fst (s e : ℕ) :
    (nllRange log minProb g batches s e).1 = ∑ b ∈ Ico s e, nllBatch log minProb g (batches b) := by
  rw [nllRange_eq_fold, foldl_pair_fst, zero_add,
    sum_range_sub (fun b => nllBatch log minProb g (batches b))]

theorem nllEvalDerivative_fst_eq (B threads : ℕ) (order : List ℕ) :
    (nllEvalDerivative log minProb g batches B threads order).1
      = -((order.foldl (pairStep
            (fun t => (nllRange log minProb g batches (Gen.ParRegions.Site3.start B (min threads B) t)
              (Gen.ParRegions.Site3.stop B (min threads B) t)).1)
            (fun t => (nllRange log minProb g batches (Gen.ParRegions.Site3.start B (min threads B) t)
              (Gen.ParRegions.Site3.stop B (min threads B) t)).2)) (0, zeros g.np)).1
          / (numElements batches B : ℝ)) := rfl

/-- **value of `NegativeLogLikelihood::evalDerivative`**: `−(Σ_b nllBatch b)/n`, for every thread count
and every merge order (thread ranges: site 3) -/
theorem nllEvalDerivative_value (B threads : ℕ) (hB : 1 ≤ B) (hthreads : 1 ≤ threads) (order : List ℕ)
    (hperm : order.Perm (List.range (min threads B))) :
    (nllEvalDerivative log minProb g batches B threads order).1
      = -((∑ b ∈ range B, nllBatch log minProb g (batches b)) / (numElements batches B : ℝ)) := by
  have hT : 1 ≤ min threads B := le_min hthreads hB
  obtain ⟨h0, hlast, hnext, hle⟩ := Gen.ParRegions.tile_Site3 B (min threads B) hT
  rw [nllEvalDerivative_fst_eq, foldl_pair_fst, zero_add, order_sum order _ hperm]
  simp only [nllRange_fst]
  rw [tile_sum _ _ B _ hT h0 hlast hnext hle _]

/-- the derivative call and `eval` return the same value -/
theorem nllEvalDerivative_value_eq_eval (B threads : ℕ) (hB : 1 ≤ B) (hthreads : 1 ≤ threads)
    (order : List ℕ) (hperm : order.Perm (List.range (min threads B)))
    (order' : List ℕ) (hperm' : order'.Perm (List.range B)) :
    (nllEvalDerivative log minProb g batches B threads order).1
      = nllEval log minProb g batches B order' := by
  rw [nllEvalDerivative_value log minProb g batches B threads hB hthreads order hperm,
    nllEval_value log minProb g batches B order' hperm']

end NLL

/-- non-vacuity: 3 batches, 2 threads merging in the order `[1, 0]`, `eval` looping in the order `[2, 0, 1]` -/
example (t0 : ℝ) :
    (nllEvalDerivative Real.log (1 / 1000) (demoModel t0) demoBatches 3 2 [1, 0]).1
      = nllEval Real.log (1 / 1000) (demoModel t0) demoBatches 3 [2, 0, 1] :=
  nllEvalDerivative_value_eq_eval _ _ _ _ 3 2 (by norm_num) (by norm_num) [1, 0] (by decide) [2, 0, 1]
    (by decide)

end SharkVerif.ErrFn
