/-
Termination ("never hangs") of the PEG interpreter `Model/Peg.lean` on the grammars of
the importers: every loop iteration consumes input, so `Res.hang` is never produced.
-/
import SharkVerif.Model.Peg
namespace SharkVerif.Peg
open SharkVerif.Import

/-! ### the numeric lexers return proper suffixes -/

theorem digits_len : ∀ (s : List Char) (acc n : Nat),
    (digits s acc n).2.2.length + ((digits s acc n).2.1 - n) = s.length ∧ n ≤ (digits s acc n).2.1 := by
  intro s
  induction s with
  | nil => intro acc n; simp [digits]
  | cons c t ih =>
    intro acc n
    unfold digits
    split
    · have := ih (acc * 10 + (c.toNat - 48)) (n + 1)
      simp only [List.length_cons]
      omega
    · simp

theorem uint_len {s : List Char} {v : Nat} {r : List Char} (h : uint s = some (v, r)) : r.length < s.length := by
  unfold uint at h
  have hl := digits_len s 0 0
  generalize digits s 0 0 = d at h hl
  obtain ⟨v', n, rest⟩ := d
  simp only at h hl
  split at h
  · simp at h
  · rename_i hc
    simp only [Option.some.injEq, Prod.mk.injEq] at h
    obtain ⟨_, rfl⟩ := h
    have : n ≠ 0 := fun h0 => hc (Or.inl h0)
    omega

theorem splitSign_len (s : List Char) : (splitSign s).2.length ≤ s.length := by
  unfold splitSign
  split <;> simp

theorem int_len {s : List Char} {v : Int} {r : List Char} (h : Import.int s = some (v, r)) : r.length < s.length := by
  unfold Import.int at h
  have hs := splitSign_len s
  have hl := digits_len (splitSign s).2 0 0
  simp only at h
  split at h
  · simp at h
  · split at h
    · split at h
      · simp at h
      · simp only [Option.some.injEq, Prod.mk.injEq] at h
        obtain ⟨_, rfl⟩ := h; omega
    · split at h
      · simp at h
      · simp only [Option.some.injEq, Prod.mk.injEq] at h
        obtain ⟨_, rfl⟩ := h; omega

theorem litCI_len : ∀ (p s r : List Char), litCI p s = some r → r.length + p.length = s.length := by
  intro p
  induction p with
  | nil => intro s r h; simp [litCI] at h; subst h; simp
  | cons c ps ih =>
    intro s r h
    cases s with
    | nil => simp [litCI] at h
    | cons x t =>
      simp only [litCI] at h
      split at h
      · have := ih t r h; simp only [List.length_cons]; omega
      · simp at h

theorem closeParen_len : ∀ (s r : List Char), closeParen s = some r → r.length < s.length := by
  intro s
  induction s with
  | nil => intro r h; simp [closeParen] at h
  | cons c t ih =>
    intro r h
    simp only [closeParen] at h
    split at h
    · simp only [Option.some.injEq] at h; subst h; simp
    · have := ih r h; simp only [List.length_cons]; omega

theorem exponent_len (s : List Char) : (exponent s).2.length ≤ s.length := by
  unfold exponent
  split
  · split
    · split
      · rename_i k rest hk
        have := int_len hk
        simp only [List.length_cons]; omega
      · exact Nat.le_refl _
    · exact Nat.le_refl _
  · exact Nat.le_refl _

theorem scaled_rest {neg : Bool} {d : Nat} {k : Int} {rest : List Char} {v : Val} {r : List Char}
    (h : scaled neg d k rest = some (v, r)) : r = rest := by
  unfold scaled at h
  split at h
  · simp at h
  · split at h
    · simp only [Option.some.injEq, Prod.mk.injEq] at h; exact h.2.symm
    · split at h
      · simp only [Option.some.injEq, Prod.mk.injEq] at h; exact h.2.symm
      · simp only [Option.some.injEq, Prod.mk.injEq] at h; exact h.2.symm

/-- `double_` consumes at least one character -/
theorem real_len {s : List Char} {v : Val} {r : List Char} (h : real s = some (v, r)) : r.length < s.length := by
  unfold real at h
  have hs := splitSign_len s
  have hl := digits_len (splitSign s).2 0 0
  simp only at h
  generalize hd : digits (splitSign s).2 0 0 = d at h hl
  obtain ⟨ip, nI, s2⟩ := d
  simp only at h hl
  split at h
  · -- no integer digits: s2 = (splitSign s).2
    rename_i h0
    have hs2 : s2.length = (splitSign s).2.length := by omega
    split at h
    · rename_i r1 hnan
      have l1 := litCI_len _ _ _ hnan
      simp only [List.length_cons, List.length_nil] at l1
      split at h
      · split at h
        · rename_i t r' hc
          simp only [Option.some.injEq, Prod.mk.injEq] at h
          obtain ⟨_, rfl⟩ := h
          have := closeParen_len _ _ hc
          simp only [List.length_cons] at l1; omega
        · simp at h
      · simp only [Option.some.injEq, Prod.mk.injEq] at h
        obtain ⟨_, rfl⟩ := h; omega
    · split at h
      · rename_i r1 hinf
        have l1 := litCI_len _ _ _ hinf
        simp only [List.length_cons, List.length_nil] at l1
        split at h
        · rename_i r' hin
          have l2 := litCI_len _ _ _ hin
          simp only [Option.some.injEq, Prod.mk.injEq] at h
          obtain ⟨_, rfl⟩ := h; omega
        · simp only [Option.some.injEq, Prod.mk.injEq] at h
          obtain ⟨_, rfl⟩ := h; omega
      · split at h
        · rename_i t _ _
          have hl2 := digits_len t 0 0
          generalize digits t 0 0 = d2 at h hl2
          obtain ⟨fp, nF, s3⟩ := d2
          simp only at h hl2
          split at h
          · simp at h
          · have he := exponent_len s3
            generalize exponent s3 = ex at h he
            obtain ⟨k, s4⟩ := ex
            simp only at h he
            have := scaled_rest h
            subst this
            simp only [List.length_cons] at hs2; omega
        · simp at h
  · rename_i hn
    split at h
    · rename_i t
      have hl2 := digits_len t ip 0
      generalize digits t ip 0 = d2 at h hl2
      obtain ⟨fp, nF, s3⟩ := d2
      simp only at h hl2
      have he := exponent_len s3
      generalize exponent s3 = ex at h he
      obtain ⟨k, s4⟩ := ex
      simp only at h he
      have := scaled_rest h
      subst this
      simp only [List.length_cons] at hl; omega
    · have he := exponent_len s2
      generalize exponent s2 = ex at h he
      obtain ⟨k, s4⟩ := ex
      simp only at h he
      have := scaled_rest h
      subst this
      omega

/-! ### loops -/

theorem starLoop_len (p : List Char → Res) : ∀ (f : Nat) (s : List Char) (acc : List Ev) (rest : List Char) (evs : List Ev),
    starLoop p f s acc = .ok rest evs → rest.length ≤ s.length := by
  intro f
  induction f with
  | zero => intro s acc rest evs h; simp [starLoop] at h
  | succ f ih =>
    intro s acc rest evs h
    simp only [starLoop] at h
    split at h
    · split at h
      · have := ih _ _ _ _ h; omega
      · simp at h
    · simp only [Res.ok.injEq] at h; obtain ⟨rfl, _⟩ := h; exact Nat.le_refl _
    · simp at h

theorem listLoop_len (a sep : List Char → Res) : ∀ (f : Nat) (s : List Char) (acc : List Ev) (rest : List Char) (evs : List Ev),
    listLoop a sep f s acc = .ok rest evs → rest.length ≤ s.length := by
  intro f
  induction f with
  | zero => intro s acc rest evs h; simp [listLoop] at h
  | succ f ih =>
    intro s acc rest evs h
    simp only [listLoop] at h
    split at h
    · split at h
      · split at h
        · have := ih _ _ _ _ h; omega
        · simp at h
      · simp only [Res.ok.injEq] at h; obtain ⟨rfl, _⟩ := h; exact Nat.le_refl _
      · simp at h
    · simp only [Res.ok.injEq] at h; obtain ⟨rfl, _⟩ := h; exact Nat.le_refl _
    · simp at h

theorem starLoop_nohang (p : List Char → Res) (hp : ∀ s, p s ≠ .hang)
    (hs : ∀ s rest evs, p s = .ok rest evs → rest.length < s.length) :
    ∀ (f : Nat) (s : List Char) (acc : List Ev), s.length < f → starLoop p f s acc ≠ .hang := by
  intro f
  induction f with
  | zero => intro s acc h; omega
  | succ f ih =>
    intro s acc hf
    simp only [starLoop]
    split
    · rename_i rest evs hps
      have hlt := hs _ _ _ hps
      rw [if_pos hlt]
      exact ih _ _ (by omega)
    · simp
    · rename_i hh; exact absurd hh (hp s)

theorem listLoop_nohang (a sep : List Char → Res) (ha : ∀ s, a s ≠ .hang) (hsep : ∀ s, sep s ≠ .hang)
    (hprog : ∀ s r1 e1 r2 e2, sep s = .ok r1 e1 → a r1 = .ok r2 e2 → r2.length < s.length) :
    ∀ (f : Nat) (s : List Char) (acc : List Ev), s.length < f → listLoop a sep f s acc ≠ .hang := by
  intro f
  induction f with
  | zero => intro s acc h; omega
  | succ f ih =>
    intro s acc hf
    simp only [listLoop]
    split
    · rename_i r1 e1 hs1
      split
      · rename_i r2 e2 hs2
        have hlt := hprog _ _ _ _ _ hs1 hs2
        rw [if_pos hlt]
        exact ih _ _ (by omega)
      · simp
      · rename_i hh; exact absurd hh (ha r1)
    · simp
    · rename_i hh; exact absurd hh (hsep s)

theorem matchEol_len {s r : List Char} (h : matchEol s = some r) : r.length < s.length := by
  unfold matchEol at h
  split at h <;> simp at h <;> subst h <;> simp <;> omega

/-! ### successful parses never lengthen the input -/

theorem parse_len (g : G) : ∀ (skip : List Char → List Char) (_ : ∀ s, (skip s).length ≤ s.length)
    (s rest : List Char) (evs : List Ev), parse skip g s = .ok rest evs → rest.length ≤ s.length := by
  induction g with
  | real =>
    intro skip hsk s rest evs h
    simp only [parse] at h
    split at h
    · rename_i v r hr
      simp only [Res.ok.injEq] at h; obtain ⟨rfl, _⟩ := h
      have := real_len hr; have := hsk s; omega
    · simp at h
  | int =>
    intro skip hsk s rest evs h
    simp only [parse] at h
    split at h
    · rename_i v r hr
      simp only [Res.ok.injEq] at h; obtain ⟨rfl, _⟩ := h
      have := int_len hr; have := hsk s; omega
    · simp at h
  | uint =>
    intro skip hsk s rest evs h
    simp only [parse] at h
    split at h
    · rename_i v r hr
      simp only [Res.ok.injEq] at h; obtain ⟨rfl, _⟩ := h
      have := uint_len hr; have := hsk s; omega
    · simp at h
  | lit c =>
    intro skip hsk s rest evs h
    simp only [parse] at h
    split at h
    · rename_i x r hx
      split at h
      · simp only [Res.ok.injEq] at h; obtain ⟨rfl, _⟩ := h
        have := hsk s; rw [hx] at this; simp only [List.length_cons] at this; omega
      · simp at h
    · simp at h
  | anyChar =>
    intro skip hsk s rest evs h
    simp only [parse] at h
    split at h
    · rename_i x r hx
      simp only [Res.ok.injEq] at h; obtain ⟨rfl, _⟩ := h
      have := hsk s; rw [hx] at this; simp only [List.length_cons] at this; omega
    · simp at h
  | space =>
    intro skip hsk s rest evs h
    simp only [parse] at h
    split at h
    · rename_i x r hx
      split at h
      · simp only [Res.ok.injEq] at h; obtain ⟨rfl, _⟩ := h
        have := hsk s; rw [hx] at this; simp only [List.length_cons] at this; omega
      · simp at h
    · simp at h
  | digit =>
    intro skip hsk s rest evs h
    simp only [parse] at h
    split at h
    · rename_i x r hx
      split at h
      · simp only [Res.ok.injEq] at h; obtain ⟨rfl, _⟩ := h
        have := hsk s; rw [hx] at this; simp only [List.length_cons] at this; omega
      · simp at h
    · simp at h
  | eol =>
    intro skip hsk s rest evs h
    simp only [parse] at h
    split at h
    · rename_i r hr
      simp only [Res.ok.injEq] at h; obtain ⟨rfl, _⟩ := h
      have := matchEol_len hr; have := hsk s; omega
    · simp at h
  | eoi =>
    intro skip hsk s rest evs h
    simp only [parse] at h
    split at h
    · simp only [Res.ok.injEq] at h; obtain ⟨rfl, _⟩ := h; simp
    · simp at h
  | attrNan =>
    intro skip hsk s rest evs h
    simp only [parse, Res.ok.injEq] at h; obtain ⟨rfl, _⟩ := h; exact Nat.le_refl _
  | seq a b iha ihb =>
    intro skip hsk s rest evs h
    simp only [parse] at h
    split at h
    · rename_i r1 e1 h1
      split at h
      · rename_i r2 e2 h2
        simp only [Res.ok.injEq] at h; obtain ⟨rfl, _⟩ := h
        have := iha skip hsk _ _ _ h1; have := ihb skip hsk _ _ _ h2; omega
      · simp at h
      · simp at h
    · simp at h
    · simp at h
  | alt a b iha ihb =>
    intro skip hsk s rest evs h
    simp only [parse] at h
    split at h
    · exact ihb skip hsk _ _ _ h
    · exact iha skip hsk _ _ _ h
  | star a _ =>
    intro skip hsk s rest evs h
    simp only [parse] at h
    exact starLoop_len _ _ _ _ _ _ h
  | plus a iha =>
    intro skip hsk s rest evs h
    simp only [parse] at h
    split at h
    · rename_i r e h1
      have := iha skip hsk _ _ _ h1; have := starLoop_len _ _ _ _ _ _ h; omega
    · simp at h
    · simp at h
  | opt a iha =>
    intro skip hsk s rest evs h
    simp only [parse] at h
    split at h
    · simp only [Res.ok.injEq] at h; obtain ⟨rfl, _⟩ := h; exact Nat.le_refl _
    · exact iha skip hsk _ _ _ h
  | list a sep iha _ =>
    intro skip hsk s rest evs h
    simp only [parse] at h
    split at h
    · rename_i r e h1
      have := iha skip hsk _ _ _ h1; have := listLoop_len _ _ _ _ _ _ _ h; omega
    · simp at h
    · simp at h
  | andP a _ =>
    intro skip hsk s rest evs h
    simp only [parse] at h
    split at h
    · simp only [Res.ok.injEq] at h; obtain ⟨rfl, _⟩ := h; exact Nat.le_refl _
    · simp at h
    · simp at h
  | notP a _ =>
    intro skip hsk s rest evs h
    simp only [parse] at h
    split at h
    · simp at h
    · simp only [Res.ok.injEq] at h; obtain ⟨rfl, _⟩ := h; exact Nat.le_refl _
    · simp at h
  | diff a b iha _ =>
    intro skip hsk s rest evs h
    simp only [parse] at h
    split at h
    · simp at h
    · exact iha skip hsk _ _ _ h
    · simp at h
  | lexeme a iha =>
    intro skip hsk s rest evs h
    simp only [parse] at h
    have := iha id (fun s => Nat.le_refl _) _ _ _ h
    have := hsk s; omega
  | mark a iha =>
    intro skip hsk s rest evs h
    simp only [parse] at h
    split at h
    · rename_i r e h1
      simp only [Res.ok.injEq] at h; obtain ⟨rfl, _⟩ := h
      exact iha skip hsk _ _ _ h1
    · rename_i r hne
      exact iha skip hsk _ _ _ h

/-! ### static analysis: which grammars consume on success, which are loop-safe -/

/-- sufficient condition for "every successful parse consumes at least one character" -/
def consumes : G → Bool
  | .real | .int | .uint | .lit _ | .anyChar | .space | .digit | .eol => true
  | .eoi | .attrNan => false
  | .seq a b => consumes a || consumes b
  | .alt a b => consumes a && consumes b
  | .star _ | .opt _ | .andP _ | .notP _ => false
  | .plus a => consumes a
  | .list a _ => consumes a
  | .diff a _ => consumes a
  | .lexeme a => consumes a
  | .mark a => consumes a

/-- every loop body consumes -/
def wfG : G → Bool
  | .star a => consumes a && wfG a
  | .plus a => consumes a && wfG a
  | .list a sep => (consumes a || consumes sep) && wfG a && wfG sep
  | .seq a b => wfG a && wfG b
  | .alt a b => wfG a && wfG b
  | .diff a b => wfG a && wfG b
  | .opt a => wfG a
  | .andP a => wfG a
  | .notP a => wfG a
  | .lexeme a => wfG a
  | .mark a => wfG a
  | _ => true

theorem parse_shorter (g : G) : consumes g = true → ∀ (skip : List Char → List Char) (_ : ∀ s, (skip s).length ≤ s.length)
    (s rest : List Char) (evs : List Ev), parse skip g s = .ok rest evs → rest.length < s.length := by
  induction g with
  | real =>
    intro _ skip hsk s rest evs h
    simp only [parse] at h
    split at h
    · rename_i v r hr
      simp only [Res.ok.injEq] at h; obtain ⟨rfl, _⟩ := h
      have := real_len hr; have := hsk s; omega
    · simp at h
  | int =>
    intro _ skip hsk s rest evs h
    simp only [parse] at h
    split at h
    · rename_i v r hr
      simp only [Res.ok.injEq] at h; obtain ⟨rfl, _⟩ := h
      have := int_len hr; have := hsk s; omega
    · simp at h
  | uint =>
    intro _ skip hsk s rest evs h
    simp only [parse] at h
    split at h
    · rename_i v r hr
      simp only [Res.ok.injEq] at h; obtain ⟨rfl, _⟩ := h
      have := uint_len hr; have := hsk s; omega
    · simp at h
  | lit c =>
    intro _ skip hsk s rest evs h
    simp only [parse] at h
    split at h
    · rename_i x r hx
      split at h
      · simp only [Res.ok.injEq] at h; obtain ⟨rfl, _⟩ := h
        have := hsk s; rw [hx] at this; simp only [List.length_cons] at this; omega
      · simp at h
    · simp at h
  | anyChar =>
    intro _ skip hsk s rest evs h
    simp only [parse] at h
    split at h
    · rename_i x r hx
      simp only [Res.ok.injEq] at h; obtain ⟨rfl, _⟩ := h
      have := hsk s; rw [hx] at this; simp only [List.length_cons] at this; omega
    · simp at h
  | space =>
    intro _ skip hsk s rest evs h
    simp only [parse] at h
    split at h
    · rename_i x r hx
      split at h
      · simp only [Res.ok.injEq] at h; obtain ⟨rfl, _⟩ := h
        have := hsk s; rw [hx] at this; simp only [List.length_cons] at this; omega
      · simp at h
    · simp at h
  | digit =>
    intro _ skip hsk s rest evs h
    simp only [parse] at h
    split at h
    · rename_i x r hx
      split at h
      · simp only [Res.ok.injEq] at h; obtain ⟨rfl, _⟩ := h
        have := hsk s; rw [hx] at this; simp only [List.length_cons] at this; omega
      · simp at h
    · simp at h
  | eol =>
    intro _ skip hsk s rest evs h
    simp only [parse] at h
    split at h
    · rename_i r hr
      simp only [Res.ok.injEq] at h; obtain ⟨rfl, _⟩ := h
      have := matchEol_len hr; have := hsk s; omega
    · simp at h
  | eoi => intro hc; simp [consumes] at hc
  | attrNan => intro hc; simp [consumes] at hc
  | seq a b iha ihb =>
    intro hc skip hsk s rest evs h
    simp only [parse] at h
    split at h
    · rename_i r1 e1 h1
      split at h
      · rename_i r2 e2 h2
        simp only [Res.ok.injEq] at h; obtain ⟨rfl, _⟩ := h
        have l1 := parse_len a skip hsk _ _ _ h1
        have l2 := parse_len b skip hsk _ _ _ h2
        simp only [consumes, Bool.or_eq_true] at hc
        rcases hc with hc | hc
        · have := iha hc skip hsk _ _ _ h1; omega
        · have := ihb hc skip hsk _ _ _ h2; omega
      · simp at h
      · simp at h
    · simp at h
    · simp at h
  | alt a b iha ihb =>
    intro hc skip hsk s rest evs h
    simp only [consumes, Bool.and_eq_true] at hc
    simp only [parse] at h
    split at h
    · exact ihb hc.2 skip hsk _ _ _ h
    · exact iha hc.1 skip hsk _ _ _ h
  | star a _ => intro hc; simp [consumes] at hc
  | plus a iha =>
    intro hc skip hsk s rest evs h
    simp only [consumes] at hc
    simp only [parse] at h
    split at h
    · rename_i r e h1
      have := iha hc skip hsk _ _ _ h1; have := starLoop_len _ _ _ _ _ _ h; omega
    · simp at h
    · simp at h
  | opt a _ => intro hc; simp [consumes] at hc
  | list a sep iha _ =>
    intro hc skip hsk s rest evs h
    simp only [consumes] at hc
    simp only [parse] at h
    split at h
    · rename_i r e h1
      have := iha hc skip hsk _ _ _ h1; have := listLoop_len _ _ _ _ _ _ _ h; omega
    · simp at h
    · simp at h
  | andP a _ => intro hc; simp [consumes] at hc
  | notP a _ => intro hc; simp [consumes] at hc
  | diff a b iha _ =>
    intro hc skip hsk s rest evs h
    simp only [consumes] at hc
    simp only [parse] at h
    split at h
    · simp at h
    · exact iha hc skip hsk _ _ _ h
    · simp at h
  | lexeme a iha =>
    intro hc skip hsk s rest evs h
    simp only [consumes] at hc
    simp only [parse] at h
    have := iha hc id (fun s => Nat.le_refl _) _ _ _ h
    have := hsk s; omega
  | mark a iha =>
    intro hc skip hsk s rest evs h
    simp only [consumes] at hc
    simp only [parse] at h
    split at h
    · rename_i r e h1
      simp only [Res.ok.injEq] at h; obtain ⟨rfl, _⟩ := h
      exact iha hc skip hsk _ _ _ h1
    · exact iha hc skip hsk _ _ _ h

/-- **no infinite loop**: a loop-safe grammar never makes the interpreter report `hang` -/
theorem parse_no_hang (g : G) : wfG g = true → ∀ (skip : List Char → List Char) (_ : ∀ s, (skip s).length ≤ s.length)
    (s : List Char), parse skip g s ≠ .hang := by
  induction g with
  | real => intro _ skip _ s; simp only [parse]; split <;> simp
  | int => intro _ skip _ s; simp only [parse]; split <;> simp
  | uint => intro _ skip _ s; simp only [parse]; split <;> simp
  | lit c => intro _ skip _ s; simp only [parse]; split <;> (try split) <;> simp
  | anyChar => intro _ skip _ s; simp only [parse]; split <;> simp
  | space => intro _ skip _ s; simp only [parse]; split <;> (try split) <;> simp
  | digit => intro _ skip _ s; simp only [parse]; split <;> (try split) <;> simp
  | eol => intro _ skip _ s; simp only [parse]; split <;> simp
  | eoi => intro _ skip _ s; simp only [parse]; split <;> simp
  | attrNan => intro _ skip _ s; simp [parse]
  | seq a b iha ihb =>
    intro hw skip hsk s
    simp only [wfG, Bool.and_eq_true] at hw
    simp only [parse]
    split
    · rename_i r1 e1 h1
      split
      · simp
      · simp
      · rename_i hh; exact absurd hh (ihb hw.2 skip hsk r1)
    · simp
    · rename_i hh; exact absurd hh (iha hw.1 skip hsk s)
  | alt a b iha ihb =>
    intro hw skip hsk s
    simp only [wfG, Bool.and_eq_true] at hw
    simp only [parse]
    split
    · exact ihb hw.2 skip hsk s
    · exact iha hw.1 skip hsk s
  | star a iha =>
    intro hw skip hsk s
    simp only [wfG, Bool.and_eq_true] at hw
    simp only [parse]
    exact starLoop_nohang _ (iha hw.2 skip hsk) (parse_shorter a hw.1 skip hsk) _ _ _ (Nat.lt_succ_self _)
  | plus a iha =>
    intro hw skip hsk s
    simp only [wfG, Bool.and_eq_true] at hw
    simp only [parse]
    split
    · exact starLoop_nohang _ (iha hw.2 skip hsk) (parse_shorter a hw.1 skip hsk) _ _ _ (Nat.lt_succ_self _)
    · simp
    · rename_i hh; exact absurd hh (iha hw.2 skip hsk s)
  | opt a iha =>
    intro hw skip hsk s
    simp only [wfG] at hw
    simp only [parse]
    split
    · simp
    · exact iha hw skip hsk s
  | list a sep iha ihs =>
    intro hw skip hsk s
    simp only [wfG, Bool.and_eq_true, Bool.or_eq_true] at hw
    simp only [parse]
    split
    · refine listLoop_nohang _ _ (iha hw.1.2 skip hsk) (ihs hw.2 skip hsk) ?_ _ _ _ (Nat.lt_succ_self _)
      intro s' r1 e1 r2 e2 h1 h2
      have l1 := parse_len sep skip hsk _ _ _ h1
      have l2 := parse_len a skip hsk _ _ _ h2
      rcases hw.1.1 with hc | hc
      · have := parse_shorter a hc skip hsk _ _ _ h2; omega
      · have := parse_shorter sep hc skip hsk _ _ _ h1; omega
    · simp
    · rename_i hh; exact absurd hh (iha hw.1.2 skip hsk s)
  | andP a iha =>
    intro hw skip hsk s
    simp only [wfG] at hw
    simp only [parse]
    split
    · simp
    · simp
    · rename_i hh; exact absurd hh (iha hw skip hsk s)
  | notP a iha =>
    intro hw skip hsk s
    simp only [wfG] at hw
    simp only [parse]
    split
    · simp
    · simp
    · rename_i hh; exact absurd hh (iha hw skip hsk s)
  | diff a b iha ihb =>
    intro hw skip hsk s
    simp only [wfG, Bool.and_eq_true] at hw
    simp only [parse]
    split
    · simp
    · exact iha hw.1 skip hsk s
    · rename_i hh; exact absurd hh (ihb hw.2 skip hsk s)
  | lexeme a iha =>
    intro hw skip hsk s
    simp only [wfG] at hw
    simp only [parse]
    exact iha hw id (fun s => Nat.le_refl _) _
  | mark a iha =>
    intro hw skip hsk s
    simp only [wfG] at hw
    simp only [parse]
    split
    · simp
    · rename_i r hne
      exact iha hw skip hsk s

/-- the skipper never lengthens the input -/
theorem skipLoop_len (p : List Char → Res) : ∀ (f : Nat) (s : List Char), (skipLoop p f s).length ≤ s.length := by
  intro f
  induction f with
  | zero => intro s; exact Nat.le_refl _
  | succ f ih =>
    intro s
    simp only [skipLoop]
    split
    · split
      · rename_i hlt; have := ih ‹List Char›; omega
      · exact Nat.le_refl _
    · exact Nat.le_refl _

theorem skipper_len (sk : G) (s : List Char) : (skipper sk s).length ≤ s.length := skipLoop_len _ _ _

/-- `phrase_parse` with a loop-safe grammar never hangs, whatever the skipper grammar is -/
theorem phraseParse_no_hang (g sk : G) (hg : wfG g = true) (s : List Char) : phraseParse g sk s ≠ .hang := by
  unfold phraseParse
  have := parse_no_hang g hg (skipper sk) (skipper_len sk) s
  split
  · simp
  · rename_i r hr; intro h; exact this h

end SharkVerif.Peg
