/-
`HypervolumeContribution3D`, stage B and preparation of stage C:

* `contribs3d_needs_nondominated`: the non-domination hypothesis cannot be dropped;
* the corollaries `smallest3d_least_contributor_of_sweep` / `largest3d_greatest_contributor_of_sweep`
  (conditional on `SweepCorrect`);
* `contribSpec_eq_excl`: the contribution is the number of cells covered by the point and by no other;
* the potential lemmas of the box lists: `cutBoxesOnTheLeft`, `cutBoxesOnTheRight` and the closing loops
  move volume from the open boxes to `contrib` without changing the total at the current height.

Core Lean only.
-/
import SharkVerif.Lemmas.Contrib3D
namespace SharkVerif.HV
open SharkVerif.Pareto

/-! ### the non-domination hypothesis is needed -/

theorem sorted3_wit : sorted3 [[0, 0, 0], [1, 1, 1]] [2, 2, 2] =
    [(⟨-2, -2, -2, 0⟩, 0), (⟨-1, -1, -1, 0⟩, 1)] := by
  simp [sorted3, ins3, shiftP3, inside3, px, py, pz, List.zipIdx, List.mergeSort,
    List.MergeSort.Internal.splitInTwo]

/-- with the dominated point `[1, 1, 1]` the routine reports `8` for the point `[0, 0, 0]` (true
contribution: `7`): a point that is dominated on arrival (`left.f2 < point.f2`) is skipped, so the cell it
shares with its dominator is never deducted from the dominator's boxes -/
theorem contribs3d_needs_nondominated :
    ∃ (S : List Pt) (r : Pt), (∀ p ∈ S, p.length = 3) ∧ r.length = 3 ∧ (∀ p ∈ S, leAll p r = true) ∧
      ¬ ∀ c ∈ contribs3d S r, c.1 = contribSpec S r c.2 := by
  refine ⟨[[0, 0, 0], [1, 1, 1]], [2, 2, 2], by decide, by decide, by decide, ?_⟩
  intro h
  have hmem : ((8 : Int), 0) ∈ contribs3d [[0, 0, 0], [1, 1, 1]] [2, 2, 2] := by
    rw [contribs3d_def, sorted3_wit]
    refine List.mem_append_right _ ((sortKV_perm _).mem_iff.mpr ?_)
    rw [allContributions_eq]
    refine List.mem_map.mpr ⟨0, by decide, ?_⟩
    decide
  have := h _ hmem
  rw [show contribSpec [[0, 0, 0], [1, 1, 1]] [2, 2, 2] 0 = 7 by decide] at this
  exact absurd this (by decide)

/-! ### least / greatest contributor (conditional on the sweep) -/

theorem smallest3d_least_contributor_of_sweep (hsw : SweepCorrect) {S : List Pt} {r : Pt} (hne : S ≠ [])
    (hS : ∀ p ∈ S, p.length = 3) (hr : r.length = 3) (hle : ∀ p ∈ S, leAll p r = true)
    (hnd : ∀ p ∈ S, ∀ q ∈ S, dominates p q = false) :
    ∃ i, i < S.length ∧ smallest3d S 1 r = [(contribSpec S r i, i)] ∧
      ∀ j, j < S.length → contribSpec S r i ≤ contribSpec S r j := by
  obtain ⟨h1, h2⟩ := contribs3d_eq_spec_of_sweep hsw hS hr hle hnd
  exact indexed_smallestOf h1 h2 (List.length_pos_iff.mpr hne)

theorem largest3d_greatest_contributor_of_sweep (hsw : SweepCorrect) {S : List Pt} {r : Pt} (hne : S ≠ [])
    (hS : ∀ p ∈ S, p.length = 3) (hr : r.length = 3) (hle : ∀ p ∈ S, leAll p r = true)
    (hnd : ∀ p ∈ S, ∀ q ∈ S, dominates p q = false) :
    ∃ i, i < S.length ∧ largest3d S 1 r = [(contribSpec S r i, i)] ∧
      ∀ j, j < S.length → contribSpec S r j ≤ contribSpec S r i := by
  obtain ⟨h1, h2⟩ := contribs3d_eq_spec_of_sweep hsw hS hr hle hnd
  exact indexed_largestOf h1 h2 (List.length_pos_iff.mpr hne)

/-! ### B1: the contribution counts the exclusively covered cells -/

theorem countP_or_not {α} (l : List α) (a b : α → Bool) :
    l.countP (fun z => a z || b z) = l.countP b + l.countP (fun z => a z && !b z) := by
  induction l with
  | nil => simp
  | cons x l ih =>
    simp only [List.countP_cons, ih]
    cases a x <;> cases b x <;> simp <;> omega

/-- number of cells of `[lo, r)` covered by `S[i]` and by no other point of `S` -/
def exclCount (lo : Pt) (S : List Pt) (r : Pt) (i : Nat) : Nat :=
  (cells lo r).countP fun c => leAll (S.getD i []) c && !covered (S.eraseIdx i) c

theorem contribSpec_eq_excl {m : Nat} {lo : Pt} {S : List Pt} {r : Pt} (hS : ∀ p ∈ S, p.length = m)
    (hr : r.length = m) (hlo : leAll lo r = true) (hloS : ∀ p ∈ S, leAll lo p = true)
    {i : Nat} (hi : i < S.length) : contribSpec S r i = (exclCount lo S r i : Int) := by
  have _ := hS; have _ := hr
  unfold contribSpec exclCount
  rw [hvSpec_eq_hvCount hlo hloS,
    hvSpec_eq_hvCount hlo (fun p hp => hloS p (List.mem_of_mem_eraseIdx hp))]
  unfold hvCount
  have hget : S.getD i [] = S[i] := by simp [List.getD_eq_getElem?_getD, hi]
  rw [hget]
  have hcov : (cells lo r).countP (covered S) =
      (cells lo r).countP (fun c => leAll S[i] c || covered (S.eraseIdx i) c) := by
    apply List.countP_congr
    intro c _
    rw [covered_perm (perm_cons_eraseIdx S i hi), covered_cons]
  rw [hcov, countP_or_not]
  omega

/-! ### preparation of stage C: the potential of the box lists -/

/-- area of the x-y face of a box -/
def Box.area (b : Box) : Int := (b.u1 - b.l1) * (b.u2 - b.l2)

/-- total volume of the open boxes `bs` if they were closed at height `h` -/
def potential (h : Int) : List Box → Int
  | [] => 0
  | b :: bs => b.area * (h - b.l3) + potential h bs

/-- total area of the x-y faces -/
def areaSum : List Box → Int
  | [] => 0
  | b :: bs => b.area + areaSum bs

theorem volume_close (b : Box) (h : Int) : ({ b with u3 := h } : Box).volume = b.area * (h - b.l3) := rfl

theorem potential_append (h : Int) : ∀ (A B : List Box), potential h (A ++ B) = potential h A + potential h B
  | [], B => by simp [potential]
  | a :: A, B => by simp only [List.cons_append, potential, potential_append h A B]; omega

theorem potential_reverse (h : Int) : ∀ (A : List Box), potential h A.reverse = potential h A
  | [] => rfl
  | a :: A => by
    rw [List.reverse_cons, potential_append, potential_reverse h A]; simp only [potential]; omega

/-- the potential is affine in the height: raising the lid by `d` adds `d` times the area -/
theorem potential_add (h d : Int) : ∀ (A : List Box), potential (h + d) A = potential h A + d * areaSum A
  | [] => by simp [potential, areaSum]
  | a :: A => by
    simp only [potential, areaSum, potential_add h d A]
    rw [show h + d - a.l3 = (h - a.l3) + d by omega, Int.mul_add, Int.mul_add, Int.mul_comm a.area d]
    omega

/-- `cutBoxesOnTheLeft` moves volume from the boxes to the contribution: the total at height `p.f3`
is unchanged -/
theorem cutLeftGo_potential (p : P3) : ∀ (bs : List Box) (acc : Int),
    (cutLeftGo p bs acc).2 + potential p.f3 (cutLeftGo p bs acc).1 = acc + potential p.f3 bs
  | [], acc => by simp [cutLeftGo]
  | b :: rest, acc => by
    unfold cutLeftGo
    split
    · rw [cutLeftGo_potential p rest, volume_close]; simp only [potential]; omega
    · split
      · simp only [potential, volume_close, Box.area, Int.sub_self, Int.mul_zero]; omega
      · rfl

theorem cutBoxesOnTheLeft_potential (l : List Box) (p : P3) :
    (cutBoxesOnTheLeft l p).2 + potential p.f3 (cutBoxesOnTheLeft l p).1 = potential p.f3 l := by
  unfold cutBoxesOnTheLeft
  have := cutLeftGo_potential p l.reverse 0
  simp only [potential_reverse] at this ⊢
  omega

theorem cutRightGo_potential (p : P3) : ∀ (bs : List Box) (acc xr : Int),
    (cutRightGo p bs acc xr).2.1 + potential p.f3 (cutRightGo p bs acc xr).1 = acc + potential p.f3 bs
  | [], acc, xr => by simp [cutRightGo]
  | b :: rest, acc, xr => by
    unfold cutRightGo
    split
    · rfl
    · rw [cutRightGo_potential p rest, volume_close]; simp only [potential]; omega

theorem cutBoxesOnTheRight_potential (l : List Box) (p right : P3) :
    (cutBoxesOnTheRight l p right).2 + potential p.f3 (cutBoxesOnTheRight l p right).1 = potential p.f3 l := by
  unfold cutBoxesOnTheRight
  split
  · simp
  · have := cutRightGo_potential p l 0 right.f1
    generalize cutRightGo p l 0 right.f1 = res at *
    obtain ⟨l', acc, xr⟩ := res
    simp only at this ⊢
    split
    · simp only [potential, Int.sub_self, Int.mul_zero]; omega
    · simp only; omega

/-! ### B2: the contribution sliced by the third coordinate -/

/-- projection to the first two objectives -/
def proj2 (p : Pt) : Pt := [px p, py p]

/-- projections of the points that are present at height `h` (third objective `≤ h`) -/
def below (Q : List Pt) (h : Int) : List Pt := (Q.filter fun p => decide (pz p ≤ h)).map proj2

/-- `Σ_{j < n} f (l + j)` -/
def sumFrom (l : Int) : Nat → (Int → Int) → Int
  | 0, _ => 0
  | n + 1, f => sumFrom l n f + f (l + n)

theorem sumFrom_sub (l : Int) (f g : Int → Int) : ∀ n : Nat,
    sumFrom l n (fun h => f h - g h) = sumFrom l n f - sumFrom l n g
  | 0 => by simp [sumFrom]
  | n + 1 => by simp only [sumFrom, sumFrom_sub l f g n]; omega

theorem covered_slice {Q : List Pt} (hQ : ∀ p ∈ Q, p.length = 3) {c : Pt} (hc : c.length = 3) {k : Int}
    (hk : pz c = k) : covered Q c = covered (below Q k) [px c, py c] := by
  rw [Bool.eq_iff_iff, covered_iff, covered_iff]
  constructor
  · rintro ⟨p, hp, hle⟩
    obtain ⟨h0, h1, h2⟩ := (leAll_3d (hQ p hp) hc).mp hle
    refine ⟨proj2 p, List.mem_map.mpr ⟨p, List.mem_filter.mpr ⟨hp, by simp; omega⟩, rfl⟩, ?_⟩
    simp [proj2, leAll, h0, h1]
  · rintro ⟨q, hq, hle⟩
    obtain ⟨p, hp, rfl⟩ := List.mem_map.mp hq
    obtain ⟨hpQ, hpz⟩ := List.mem_filter.mp hp
    simp only [decide_eq_true_eq] at hpz
    simp only [proj2, leAll, Bool.and_true, Bool.and_eq_true, decide_eq_true_eq] at hle
    exact ⟨p, hpQ, (leAll_3d (hQ p hpQ) hc).mpr ⟨hle.1, hle.2, by omega⟩⟩

/-- the dominated cells below height `l2 + n`, slice by slice -/
theorem hvCount_slices {l0 l1 l2 r0 r1 r2 : Int} {Q : List Pt} (hQ : ∀ p ∈ Q, p.length = 3) :
    ∀ n : Nat, l2 + n ≤ r2 →
      (((cells [l0, l1, l2] [r0, r1, r2]).countP (fun c => covered Q c && decide (pz c < l2 + n)) : Nat) : Int) =
        sumFrom l2 n (fun h => (hvCount [l0, l1] (below Q h) [r0, r1] : Int))
  | 0, _ => by
    simp only [sumFrom, Int.natCast_eq_zero, List.countP_eq_zero]
    intro c hc
    have := (mem_cells_3d.mp hc).2.2.2.2.2.1
    simp; omega
  | n + 1, hn => by
    have e : l2 + ((n + 1 : Nat) : Int) = (l2 + n) + 1 := by omega
    have hs := slice_count (l0 := l0) (l1 := l1) (l2 := l2) (r0 := r0) (r1 := r1) (r2 := r2) (k := l2 + n)
      Q (below Q (l2 + n)) (by omega) (by omega) (fun c hc hpz => covered_slice hQ hc hpz)
    have ih := hvCount_slices (l0 := l0) (l1 := l1) (l2 := l2) (r0 := r0) (r1 := r1) (r2 := r2) hQ n (by omega)
    rw [e, countP_lt_succ, hs]
    simp only [sumFrom, Int.natCast_add, ih]

theorem hvCount_eq_slices {l0 l1 l2 r0 r1 r2 : Int} {Q : List Pt} (hQ : ∀ p ∈ Q, p.length = 3)
    (h2 : l2 ≤ r2) :
    ((hvCount [l0, l1, l2] Q [r0, r1, r2] : Nat) : Int) =
      sumFrom l2 (r2 - l2).toNat (fun h => (hvCount [l0, l1] (below Q h) [r0, r1] : Int)) := by
  rw [← hvCount_slices (l0 := l0) (l1 := l1) (l2 := l2) (r0 := r0) (r1 := r1) (r2 := r2) hQ
    (r2 - l2).toNat (by omega)]
  unfold hvCount
  congr 1
  apply List.countP_congr
  intro c hc
  have := (mem_cells_3d.mp hc).2.2.2.2.2.2
  simp only [Bool.and_eq_true, decide_eq_true_eq]
  constructor
  · intro h; exact ⟨h, by omega⟩
  · intro h; exact h.1

/-- **the contribution of point `i`, sliced by height**: at every height `h` the 2-D hypervolume (area) of the
projections of the points present at that height, minus the same without point `i` — the exclusive area
of the projection of point `i` among the points with third objective `≤ h` -/
theorem contribSpec_slices {l0 l1 l2 r0 r1 r2 : Int} {Q : List Pt} (hQ : ∀ p ∈ Q, p.length = 3)
    (hlo : ∀ p ∈ Q, leAll [l0, l1, l2] p = true) (hlor : leAll [l0, l1, l2] [r0, r1, r2] = true) (i : Nat) :
    contribSpec Q [r0, r1, r2] i =
      sumFrom l2 (r2 - l2).toNat (fun h =>
        (hvCount [l0, l1] (below Q h) [r0, r1] : Int) - (hvCount [l0, l1] (below (Q.eraseIdx i) h) [r0, r1] : Int)) := by
  have h2 : l2 ≤ r2 := ((leAll_3d rfl rfl).mp hlor).2.2
  unfold contribSpec
  rw [hvSpec_eq_hvCount hlor hlo,
    hvSpec_eq_hvCount hlor (fun p hp => hlo p (List.mem_of_mem_eraseIdx hp)),
    hvCount_eq_slices hQ h2, hvCount_eq_slices (fun p hp => hQ p (List.mem_of_mem_eraseIdx hp)) h2,
    sumFrom_sub]

/-- below the height of point `i` its slice term vanishes -/
theorem below_eraseIdx_of_lt {Q : List Pt} {i : Nat} (hi : i < Q.length) {h : Int} (hlt : h < pz Q[i]) :
    below (Q.eraseIdx i) h = below Q h := by
  unfold below
  rw [filter_eraseIdx_of_not _ _ _ hi (by simp; omega)]

end SharkVerif.HV
