/-
The decomposition loop `QpSolver::solve` on the `QpMcBoxDecomp` model (`Model/McSolve.lean`), at `α := Rat`:

* `maxViolation_spec`: `checkKKT()` dominates the violation of every active variable;
* `fullInv_solveLoop` / `solveLoop_spec`: every state the loop reaches satisfies all invariants of the
  decomposition model (tables, box, gradient), whatever the accuracy, the iteration limit, the shrinking flag
  and the state it is started from; and if it stops with `QpAccuracyReached` all variables are active and the
  stored gradient is eps-KKT;
* `Renumbered`: the operations of the loop only renumber the dual problem (`Q`, `lin`);
* `solve_stop_near_optimal`: stop ⇒ KKT(eps) ⇒ objective gap ≤ eps·N·C, for every run;
* `selectWorkingSetFrom_lt`, `solve_never_stuck`: the working set handed to `updateSMO` is always valid.
-/
import SharkVerif.Lemmas.McSmoAll
import SharkVerif.Lemmas.McOptimality
import SharkVerif.Model.McSolve
namespace SharkVerif.Mc
open Finset Grad

private theorem e0 : (0.0 : Rat) = 0 := by norm_num

theorem le_cmax_left (a b : Rat) : a ≤ cmax a b := by
  unfold cmax; split_ifs with h
  · exact le_of_lt h
  · exact le_refl _

theorem le_cmax_right (a b : Rat) : b ≤ cmax a b := by
  unfold cmax; split_ifs with h
  · exact le_refl _
  · exact not_lt.mp h

/-- loop body of `checkKKT` / head of `shrink` -/
def mvStep (s : McBox Rat) (largest : Rat) (a : Nat) : Rat :=
  let largest := if s.alpha a < s.C then cmax largest (s.grad a) else largest
  if s.alpha a > (0.0 : Rat) then cmax largest (-(s.grad a)) else largest

theorem maxViolation_eq (s : McBox Rat) :
    s.maxViolation = (List.range s.activeVar).foldl (mvStep s) (0.0 : Rat) := rfl

theorem mvStep_ge (s : McBox Rat) (l : Rat) (a : Nat) : l ≤ mvStep s l a := by
  unfold mvStep
  dsimp only
  split_ifs
  · exact le_trans (le_cmax_left _ _) (le_cmax_left _ _)
  · exact le_cmax_left _ _
  · exact le_cmax_left _ _
  · exact le_refl _

theorem mvStep_dom (s : McBox Rat) (l : Rat) (a : Nat) :
    (s.alpha a < s.C → s.grad a ≤ mvStep s l a) ∧ (0 < s.alpha a → -(s.grad a) ≤ mvStep s l a) := by
  unfold mvStep
  dsimp only
  rw [e0]
  constructor
  · intro h
    rw [if_pos h]
    split_ifs
    · exact le_trans (le_cmax_right _ _) (le_cmax_left _ _)
    · exact le_cmax_right _ _
  · intro h
    rw [if_pos h]
    exact le_cmax_right _ _

theorem mvFold_spec (s : McBox Rat) (k : Nat) :
    0 ≤ (List.range k).foldl (mvStep s) (0.0 : Rat) ∧
    ∀ a < k, (s.alpha a < s.C → s.grad a ≤ (List.range k).foldl (mvStep s) (0.0 : Rat)) ∧
      (0 < s.alpha a → -(s.grad a) ≤ (List.range k).foldl (mvStep s) (0.0 : Rat)) := by
  induction k with
  | zero => exact ⟨by rw [List.range_zero, List.foldl_nil, e0], fun a ha => absurd ha (Nat.not_lt_zero a)⟩
  | succ k ih =>
    rw [List.range_succ, List.foldl_append, List.foldl_cons, List.foldl_nil]
    refine ⟨le_trans ih.1 (mvStep_ge s _ k), fun a ha => ?_⟩
    by_cases hak : a = k
    · subst hak; exact mvStep_dom s _ a
    · have := ih.2 a (by omega)
      exact ⟨fun h => le_trans (this.1 h) (mvStep_ge s _ k), fun h => le_trans (this.2 h) (mvStep_ge s _ k)⟩

/-- `checkKKT()` is non-negative and dominates the KKT violation of every ACTIVE variable -/
theorem maxViolation_spec (s : McBox Rat) :
    0 ≤ s.maxViolation ∧ ∀ a < s.activeVar, (s.alpha a < s.C → s.grad a ≤ s.maxViolation) ∧
      (0 < s.alpha a → -(s.grad a) ≤ s.maxViolation) := by
  rw [maxViolation_eq]; exact mvFold_spec s s.activeVar

/-- the stopping rule: all variables active and `checkKKT() < eps` is eps-KKT of the stored gradient -/
theorem kkt_of_maxViolation (s : McBox Rat) (hall : s.activeVar = s.P * s.n) (eps : Rat)
    (h : s.maxViolation < eps) : KKTeps (s.P * s.n) s.C eps s.alpha s.grad := by
  intro v hv
  have := (maxViolation_spec s).2 v (by rw [hall]; exact hv)
  exact ⟨fun h1 => le_of_lt (lt_of_le_of_lt (this.1 h1) h), fun h2 => le_of_lt (lt_of_le_of_lt (this.2 h2) h)⟩

/-! ### the loop preserves all invariants -/

theorem fullInv_solveTail (eps : Rat) (st : SolveSt Rat) (i j : Nat) (h : FullInv st.s) :
    FullInv (solveTail eps st i j).s ∧ (solveTail eps st i j).stop ≠ .accuracy := by
  unfold solveTail
  dsimp only
  by_cases hv : i < st.s.activeVar ∧ j < st.s.activeVar
  · rw [if_pos hv]
    have h1 : FullInv (st.s.updateSMO i j) := fullInv_apply st.s h (.smo i j) hv
    refine ⟨?_, by simp⟩
    by_cases h0 : st.shrinkCounter = 0
    · rw [if_pos h0]
      exact fullInv_apply _ h1 (.shrink eps) trivial
    · rw [if_neg h0]
      exact h1
  · rw [if_neg hv]
    exact ⟨h, by simp⟩

/-- what is true when the loop body ends the loop with `QpAccuracyReached` -/
def StoppedOK (eps : Rat) (st : SolveSt Rat) : Prop :=
  st.stop = .accuracy → st.s.activeVar = st.s.P * st.s.n ∧ st.s.maxViolation < eps

theorem solveBody_spec (eps : Rat) (st : SolveSt Rat) (h : FullInv st.s) :
    FullInv (solveBody eps st).s ∧ StoppedOK eps (solveBody eps st) := by
  unfold solveBody
  dsimp only
  have hu : FullInv st.s.unshrink := fullInv_apply st.s h .unshrink trivial
  split_ifs with h1 h2
  · refine ⟨hu, fun _ => ⟨?_, h2⟩⟩
    rw [McBox.unshrink_activeVar, McBox.unshrink_P, McBox.unshrink_n]
  · have hs : FullInv (st.s.unshrink.shrink eps).1 := fullInv_apply _ hu (.shrink eps) trivial
    have := fullInv_solveTail eps { st with s := (st.s.unshrink.shrink eps).1 }
      ((st.s.unshrink.shrink eps).1.selectWorkingSetFrom (st.s.selectWorkingSetFrom 0 0).1
        (st.s.selectWorkingSetFrom 0 0).2.1).1
      ((st.s.unshrink.shrink eps).1.selectWorkingSetFrom (st.s.selectWorkingSetFrom 0 0).1
        (st.s.selectWorkingSetFrom 0 0).2.1).2.1 hs
    exact ⟨this.1, fun hc => absurd hc this.2⟩
  · have := fullInv_solveTail eps st (st.s.selectWorkingSetFrom 0 0).1 (st.s.selectWorkingSetFrom 0 0).2.1 h
    exact ⟨this.1, fun hc => absurd hc this.2⟩

theorem solveLoop_spec (eps : Rat) : ∀ (fuel : Nat) (st : SolveSt Rat), FullInv st.s →
    FullInv (solveLoop eps fuel st).s ∧ StoppedOK eps (solveLoop eps fuel st) := by
  intro fuel
  induction fuel with
  | zero => intro st h; exact ⟨fullInv_apply st.s h .unshrink trivial, fun hc => by simp [solveLoop] at hc⟩
  | succ fuel ih =>
    intro st h
    have hb := solveBody_spec eps st h
    unfold solveLoop
    dsimp only
    split_ifs with hr
    · exact ih _ hb.1
    · exact hb

/-- **every state reached by `QpSolver::solve`** — from any state that satisfies the invariants, for every
accuracy, every iteration limit, shrinking on or off — satisfies the tables, box and gradient invariants -/
theorem fullInv_solve (s : McBox Rat) (h : FullInv s) (eps : Rat) (maxIter : Nat) :
    FullInv (solve s eps maxIter).s := (solveLoop_spec eps maxIter _ h).1

/-- `QpAccuracyReached` ⇒ all variables are active and the stored gradient — which is the true gradient by
`mc_grad_inv` — satisfies the KKT conditions up to `eps` -/
theorem solve_stop_kkt (s : McBox Rat) (h : FullInv s) (eps : Rat) (maxIter : Nat)
    (hstop : (solve s eps maxIter).stop = .accuracy) :
    (solve s eps maxIter).s.activeVar = (solve s eps maxIter).s.P * (solve s eps maxIter).s.n ∧
    KKTeps ((solve s eps maxIter).s.P * (solve s eps maxIter).s.n) (solve s eps maxIter).s.C eps
      (solve s eps maxIter).s.alpha (solve s eps maxIter).s.grad := by
  have := (solveLoop_spec eps maxIter _ h).2 hstop
  exact ⟨this.1, kkt_of_maxViolation _ this.1 eps this.2⟩

/-- the loop the driver runs is the modelled loop when the re-tabulation is the identity -/
theorem solveLoopWith_id (eps : Rat) (fuel : Nat) (st : SolveSt Rat) :
    solveLoopWith id eps fuel st = solveLoop eps fuel st := by
  induction fuel generalizing st with
  | zero => rfl
  | succ fuel ih =>
    unfold solveLoopWith solveLoop
    dsimp only [id]
    split_ifs
    · exact ih _
    · rfl

/-! ### the constant data -/

theorem sameStatic_solveTail (eps : Rat) (st : SolveSt Rat) (i j : Nat) : SameStatic st.s (solveTail eps st i j).s := by
  unfold solveTail
  dsimp only
  by_cases hv : i < st.s.activeVar ∧ j < st.s.activeVar
  · rw [if_pos hv]
    by_cases h0 : st.shrinkCounter = 0
    · rw [if_pos h0]
      exact (sameStatic_updateSMO st.s i j).trans (sameStatic_shrink _ eps)
    · rw [if_neg h0]
      exact sameStatic_updateSMO st.s i j
  · rw [if_neg hv]
    exact SameStatic.refl _

theorem sameStatic_solveBody (eps : Rat) (st : SolveSt Rat) : SameStatic st.s (solveBody eps st).s := by
  unfold solveBody
  dsimp only
  split_ifs with h1 h2
  · exact sameStatic_unshrink st.s
  · exact ((sameStatic_unshrink st.s).trans (sameStatic_shrink _ eps)).trans
      (sameStatic_solveTail eps { st with s := (st.s.unshrink.shrink eps).1 } _ _)
  · exact sameStatic_solveTail eps st _ _

theorem sameStatic_solve (s : McBox Rat) (eps : Rat) (maxIter : Nat) : SameStatic s (solve s eps maxIter).s := by
  suffices H : ∀ (fuel : Nat) (st : SolveSt Rat), SameStatic st.s (solveLoop eps fuel st).s from
    H maxIter { s := s, iter := 0, shrinkCounter := 0, stop := .running }
  intro fuel
  induction fuel with
  | zero => intro st; exact sameStatic_unshrink st.s
  | succ fuel ih =>
    intro st
    unfold solveLoop
    dsimp only
    split_ifs with hr
    · exact (sameStatic_solveBody eps st).trans (ih _)
    · exact sameStatic_solveBody eps st

/-! ### the loop only renumbers the dual problem -/

/-- `s` carries the same dual problem as `s0` up to the renumbering `σ` (inverse `τ`) of the variables -/
structure Renum (s0 s : McBox Rat) (σ τ : Nat → Nat) : Prop where
  P_eq : s.P = s0.P
  n_eq : s.n = s0.n
  C_eq : s.C = s0.C
  σ_lt : ∀ v < s0.P * s0.n, σ v < s0.P * s0.n
  τ_lt : ∀ v < s0.P * s0.n, τ v < s0.P * s0.n
  τσ : ∀ v < s0.P * s0.n, τ (σ v) = v
  στ : ∀ v < s0.P * s0.n, σ (τ v) = v
  Q_eq : ∀ v < s0.P * s0.n, ∀ w < s0.P * s0.n, s.Q v w = s0.Q (σ v) (σ w)
  lin_eq : ∀ v < s0.P * s0.n, s.lin v = s0.lin (σ v)

def Renumbered (s0 s : McBox Rat) : Prop := ∃ σ τ, Renum s0 s σ τ

theorem Renumbered.refl (s : McBox Rat) : Renumbered s s :=
  ⟨id, id, rfl, rfl, rfl, fun _ h => h, fun _ h => h, fun _ _ => rfl, fun _ _ => rfl,
    fun _ _ _ _ => rfl, fun _ _ => rfl⟩

theorem Renumbered.trans {s0 s1 s2 : McBox Rat} (h1 : Renumbered s0 s1) (h2 : Renumbered s1 s2) :
    Renumbered s0 s2 := by
  obtain ⟨σ1, τ1, a⟩ := h1
  obtain ⟨σ2, τ2, b⟩ := h2
  have hN : s1.P * s1.n = s0.P * s0.n := by rw [a.P_eq, a.n_eq]
  refine ⟨fun v => σ1 (σ2 v), fun v => τ2 (τ1 v), b.P_eq.trans a.P_eq, b.n_eq.trans a.n_eq,
    b.C_eq.trans a.C_eq, ?_, ?_, ?_, ?_, ?_, ?_⟩
  · intro v hv; exact a.σ_lt _ (hN ▸ b.σ_lt v (hN ▸ hv))
  · intro v hv; exact hN ▸ b.τ_lt _ (hN ▸ a.τ_lt v hv)
  · intro v hv
    show τ2 (τ1 (σ1 (σ2 v))) = v
    rw [a.τσ _ (hN ▸ b.σ_lt v (hN ▸ hv)), b.τσ v (hN ▸ hv)]
  · intro v hv
    show σ1 (σ2 (τ2 (τ1 v))) = v
    rw [b.στ _ (hN ▸ a.τ_lt v hv), a.στ v hv]
  · intro v hv w hw
    rw [b.Q_eq v (hN ▸ hv) w (hN ▸ hw), a.Q_eq _ (hN ▸ b.σ_lt v (hN ▸ hv)) _ (hN ▸ b.σ_lt w (hN ▸ hw))]
  · intro v hv
    rw [b.lin_eq v (hN ▸ hv), a.lin_eq _ (hN ▸ b.σ_lt v (hN ▸ hv))]

/-- a state that differs only in fields the dual problem does not read -/
theorem Renumbered.of_eq {s t : McBox Rat} (hP : t.P = s.P) (hn : t.n = s.n) (hC : t.C = s.C)
    (hQ : ∀ v < s.P * s.n, ∀ w < s.P * s.n, t.Q v w = s.Q v w) (hl : t.lin = s.lin) : Renumbered s t :=
  ⟨id, id, hP, hn, hC, fun _ h => h, fun _ h => h, fun _ _ => rfl, fun _ _ => rfl, hQ,
    fun v _ => by rw [hl]; rfl⟩

theorem renum_updateSMO (s : McBox Rat) (v w : Nat) : Renumbered s (s.updateSMO v w) :=
  Renumbered.of_eq (McBox.updateSMO_P s v w) (McBox.updateSMO_n s v w) (McBox.updateSMO_C s v w)
    (fun a _ b _ => by rw [McBox.updateSMO_Q]) (McBox.updateSMO_lin s v w)

theorem renum_unshrink (s : McBox Rat) : Renumbered s s.unshrink :=
  Renumbered.of_eq (McBox.unshrink_P s) (McBox.unshrink_n s) (sameStatic_unshrink s).2.2.2.1
    (fun a _ b _ => by rw [McBox.unshrink_Q]) (McBox.unshrink_lin s)

theorem renum_deactivateVariable (s : McBox Rat) (ht : TablesInv s) (v : Nat) (hv : v < s.activeVar) :
    Renumbered s (s.deactivateVariable v) := by
  have hvN : v < s.P * s.n := lt_of_lt_of_le hv ht.aV_le
  have hjN : s.activeVar - 1 < s.P * s.n := by have := ht.aV_le; omega
  refine ⟨swp id v (s.activeVar - 1), swp id v (s.activeVar - 1), rfl, rfl, rfl, ?_, ?_, ?_, ?_, ?_, ?_⟩
  · intro x hx; exact swp_id_lt v _ x _ hvN hjN hx
  · intro x hx; exact swp_id_lt v _ x _ hvN hjN hx
  · intro x _; exact swp_id_invol v _ x
  · intro x _; exact swp_id_invol v _ x
  · intro a _ b _; exact deactVar_Q s v a b
  · intro x _
    show swp s.lin v (s.activeVar - 1) x = s.lin (swp id v (s.activeVar - 1) x)
    exact swp_eq_comp s.lin v _ x

theorem renum_deactivateExample (s : McBox Rat) (ht : TablesInv s) (e : Nat) (he : e < s.activeEx) :
    Renumbered s (s.deactivateExample e) := by
  by_cases hne : e = s.activeEx - 1
  · have : s.deactivateExample e = { s with activeEx := s.activeEx - 1 } := by
      unfold McBox.deactivateExample; dsimp only; rw [if_pos hne]
    rw [this]
    exact Renumbered.of_eq rfl rfl rfl (fun _ _ _ _ => rfl) rfl
  · have hs := sameStatic_deactivateExample s e
    refine Renumbered.of_eq hs.2.1 hs.2.2.1 hs.2.2.2.1 (fun a ha b hb => deactEx_Q s ht e he hne a b ha hb) ?_
    unfold McBox.deactivateExample; dsimp only; rw [if_neg hne]

theorem svFold_renum (A0 : Nat) (s : McBox Rat) (h : Core s) (hA : s.activeVar = A0) :
    ∀ k, k ≤ A0 → Renumbered s ((List.range k).foldl (svStep A0) (s, false)).1 := by
  intro k
  induction k with
  | zero => intro _; exact Renumbered.refl s
  | succ k ih =>
    intro hk
    obtain ⟨hc, hb⟩ := svFold_core A0 s h hA k (by omega)
    rw [List.range_succ, List.foldl_append]
    refine (ih (by omega)).trans ?_
    show Renumbered _ (svStep A0 _ k).1
    unfold svStep
    simp only
    split
    · exact renum_deactivateVariable _ hc.1 _ (by omega)
    · exact Renumbered.refl _

theorem seFold_renum (E0 : Nat) (s : McBox Rat) (h : Core s) (hA : s.activeEx = E0) :
    ∀ k, k ≤ E0 → Renumbered s ((List.range k).foldl (seStep E0) s) := by
  intro k
  induction k with
  | zero => intro _; exact Renumbered.refl s
  | succ k ih =>
    intro hk
    obtain ⟨hc, hb⟩ := seFold_core E0 s h hA k (by omega)
    rw [List.range_succ, List.foldl_append]
    refine (ih (by omega)).trans ?_
    show Renumbered _ (seStep E0 _ k)
    unfold seStep
    simp only
    split
    · exact renum_deactivateExample _ hc.1 _ (by omega)
    · exact Renumbered.refl _

theorem renum_shrinkTail (s : McBox Rat) (h : Core s) : Renumbered s (shrinkTail s) := by
  have h1 : Renumbered s s.shrinkVars.1 := by
    rw [shrinkVars_eq]; exact svFold_renum s.activeVar s h rfl s.activeVar (Nat.le_refl _)
  unfold shrinkTail
  split
  · refine h1.trans ?_
    rw [shrinkExamples_eq]
    exact seFold_renum _ _ (core_shrinkVars s h) rfl _ (Nat.le_refl _)
  · exact h1

theorem renum_shrinkHead (s : McBox Rat) (eps : Rat) : Renumbered s (shrinkHead s eps) := by
  unfold shrinkHead
  split
  · split
    · exact (renum_unshrink s).trans (Renumbered.of_eq rfl rfl rfl (fun _ _ _ _ => rfl) rfl)
    · exact Renumbered.refl s
  · exact Renumbered.refl s

theorem renum_shrink (s : McBox Rat) (h : FullInv s) (eps : Rat) : Renumbered s (s.shrink eps).1 := by
  rw [shrink_eq]
  split
  · exact Renumbered.refl s
  · exact (renum_shrinkHead s eps).trans (renum_shrinkTail _ (core_shrinkHead s h eps))

theorem renum_solveTail (eps : Rat) (st : SolveSt Rat) (i j : Nat) (h : FullInv st.s) :
    Renumbered st.s (solveTail eps st i j).s := by
  unfold solveTail
  dsimp only
  by_cases hv : i < st.s.activeVar ∧ j < st.s.activeVar
  · rw [if_pos hv]
    have h1 : FullInv (st.s.updateSMO i j) := fullInv_apply st.s h (.smo i j) hv
    by_cases h0 : st.shrinkCounter = 0
    · rw [if_pos h0]
      exact (renum_updateSMO st.s i j).trans (renum_shrink _ h1 eps)
    · rw [if_neg h0]
      exact renum_updateSMO st.s i j
  · rw [if_neg hv]
    exact Renumbered.refl _

theorem renum_solveBody (eps : Rat) (st : SolveSt Rat) (h : FullInv st.s) :
    Renumbered st.s (solveBody eps st).s := by
  unfold solveBody
  dsimp only
  have hu : FullInv st.s.unshrink := fullInv_apply st.s h .unshrink trivial
  split_ifs with h1 h2
  · exact renum_unshrink st.s
  · have hs : FullInv (st.s.unshrink.shrink eps).1 := fullInv_apply _ hu (.shrink eps) trivial
    exact ((renum_unshrink st.s).trans (renum_shrink _ hu eps)).trans
      (renum_solveTail eps { st with s := (st.s.unshrink.shrink eps).1 } _ _ hs)
  · exact renum_solveTail eps st _ _ h

theorem renum_solveLoop (eps : Rat) : ∀ (fuel : Nat) (st : SolveSt Rat), FullInv st.s →
    Renumbered st.s (solveLoop eps fuel st).s := by
  intro fuel
  induction fuel with
  | zero => intro st _; exact renum_unshrink st.s
  | succ fuel ih =>
    intro st h
    have hb := solveBody_spec eps st h
    unfold solveLoop
    dsimp only
    split_ifs with hr
    · exact (renum_solveBody eps st h).trans (ih _ hb.1)
    · exact renum_solveBody eps st h

/-- every state reached by `QpSolver::solve` carries the SAME dual problem, renumbered -/
theorem renum_solve (s : McBox Rat) (h : FullInv s) (eps : Rat) (maxIter : Nat) :
    Renumbered s (solve s eps maxIter).s :=
  renum_solveLoop eps maxIter { s := s, iter := 0, shrinkCounter := 0, stop := .running } h

/-! ### consequences of a renumbering -/

theorem sum_renum (N : Nat) (σ τ : Nat → Nat) (hσ : ∀ v < N, σ v < N) (hτσ : ∀ v < N, τ (σ v) = v)
    (F : Nat → Rat) : ∑ v ∈ range N, F (σ v) = ∑ v ∈ range N, F v := by
  have hinj : Set.InjOn σ (range N : Finset Nat) := by
    intro a ha b hb hab
    have ha' := mem_range.mp (mem_coe.mp ha)
    have hb' := mem_range.mp (mem_coe.mp hb)
    rw [← hτσ a ha', ← hτσ b hb', hab]
  have himg : (range N).image σ = range N := by
    apply eq_of_subset_of_card_le
    · intro x hx
      obtain ⟨v, hv, rfl⟩ := mem_image.mp hx
      exact mem_range.mpr (hσ v (mem_range.mp hv))
    · rw [card_image_of_injOn hinj]
  exact (sum_image hinj).symm.trans (by rw [himg])

theorem Renum.dualObj_eq {s0 s : McBox Rat} {σ τ : Nat → Nat} (r : Renum s0 s σ τ) (a : Nat → Rat) :
    dualObj (s0.P * s0.n) s.lin s.Q a = dualObj (s0.P * s0.n) s0.lin s0.Q (fun v => a (τ v)) := by
  unfold dualObj
  have h1 : ∑ v ∈ range (s0.P * s0.n), s.lin v * a v
      = ∑ v ∈ range (s0.P * s0.n), s0.lin v * a (τ v) := by
    rw [← sum_renum _ σ τ r.σ_lt r.τσ (fun u => s0.lin u * a (τ u))]
    refine sum_congr rfl fun v hv => ?_
    have hv' := mem_range.mp hv
    simp only [r.lin_eq v hv', r.τσ v hv']
  have inner : ∀ v, v < s0.P * s0.n → ∑ w ∈ range (s0.P * s0.n), a v * s.Q v w * a w
      = ∑ w ∈ range (s0.P * s0.n), a (τ (σ v)) * s0.Q (σ v) w * a (τ w) := by
    intro v hv
    rw [← sum_renum _ σ τ r.σ_lt r.τσ (fun u => a (τ (σ v)) * s0.Q (σ v) u * a (τ u))]
    refine sum_congr rfl fun w hw => ?_
    have hw' := mem_range.mp hw
    rw [r.Q_eq v hv w hw', r.τσ v hv, r.τσ w hw']
  have h2 : ∑ v ∈ range (s0.P * s0.n), ∑ w ∈ range (s0.P * s0.n), a v * s.Q v w * a w
      = ∑ v ∈ range (s0.P * s0.n), ∑ w ∈ range (s0.P * s0.n), a (τ v) * s0.Q v w * a (τ w) := by
    rw [← sum_renum _ σ τ r.σ_lt r.τσ
      (fun u => ∑ w ∈ range (s0.P * s0.n), a (τ u) * s0.Q u w * a (τ w))]
    exact sum_congr rfl fun v hv => inner v (mem_range.mp hv)
  rw [h1, h2]

theorem Renum.psd {s0 s : McBox Rat} {σ τ : Nat → Nat} (r : Renum s0 s σ τ)
    (h : PSD (s0.P * s0.n) s0.Q) : PSD (s0.P * s0.n) s.Q := by
  intro x
  have := h (fun v => x (τ v))
  have inner : ∀ v, v < s0.P * s0.n → ∑ w ∈ range (s0.P * s0.n), x v * s.Q v w * x w
      = ∑ w ∈ range (s0.P * s0.n), x (τ (σ v)) * s0.Q (σ v) w * x (τ w) := by
    intro v hv
    rw [← sum_renum _ σ τ r.σ_lt r.τσ (fun u => x (τ (σ v)) * s0.Q (σ v) u * x (τ u))]
    refine sum_congr rfl fun w hw => ?_
    have hw' := mem_range.mp hw
    rw [r.Q_eq v hv w hw', r.τσ v hv, r.τσ w hw']
  have h2 : ∑ v ∈ range (s0.P * s0.n), ∑ w ∈ range (s0.P * s0.n), x v * s.Q v w * x w
      = ∑ v ∈ range (s0.P * s0.n), ∑ w ∈ range (s0.P * s0.n), x (τ v) * s0.Q v w * x (τ w) := by
    rw [← sum_renum _ σ τ r.σ_lt r.τσ
      (fun u => ∑ w ∈ range (s0.P * s0.n), x (τ u) * s0.Q u w * x (τ w))]
    exact sum_congr rfl fun v hv => inner v (mem_range.mp hv)
  rw [h2]; exact this

/-- `Q = M ⊗ K` is symmetric in every state that satisfies the invariants -/
theorem Q_symm (s : McBox Rat) (h : FullInv s) (v w : Nat) (hv : v < s.P * s.n) (hw : w < s.P * s.n) :
    s.Q v w = s.Q w v := by
  have := Q_symm_entry s h.tables h.qsym h.labelsOK w v hw hv
  rw [← this]; rfl

/-- **stop ⇒ KKT(eps) ⇒ objective gap**, end to end and in the numbering of the START state: if
`QpSolver::solve`, started from ANY state `s0` satisfying the invariants (fresh problem or warm start; shrinking
on or off; any iteration limit), reports `QpAccuracyReached`, then the dual variables it leaves behind —
read back in the numbering of `s0` through the renumbering `τ` the shrinking operations have built up — are
feasible and their objective is within `eps·N·C` of EVERY feasible point of the dual of `s0`. -/
theorem solve_stop_near_optimal (s0 : McBox Rat) (h : FullInv s0) (hpsd : PSD (s0.P * s0.n) s0.Q)
    (eps : Rat) (maxIter : Nat) (hstop : (solve s0 eps maxIter).stop = .accuracy) :
    ∃ τ : Nat → Nat, (∀ v < s0.P * s0.n, τ v < s0.P * s0.n) ∧
      Feasible (s0.P * s0.n) s0.C (fun v => (solve s0 eps maxIter).s.alpha (τ v)) ∧
      ∀ b, Feasible (s0.P * s0.n) s0.C b →
        dualObj (s0.P * s0.n) s0.lin s0.Q b
          - dualObj (s0.P * s0.n) s0.lin s0.Q (fun v => (solve s0 eps maxIter).s.alpha (τ v))
          ≤ eps * (s0.P * s0.n : Nat) * s0.C := by
  obtain ⟨σ, τ, r⟩ := renum_solve s0 h eps maxIter
  have hf := fullInv_solve s0 h eps maxIter
  have hk := solve_stop_kkt s0 h eps maxIter hstop
  have hst := (solveLoop_spec eps maxIter _ h).2 hstop
  set s := (solve s0 eps maxIter).s with hs
  have hN : s.P * s.n = s0.P * s0.n := by rw [r.P_eq, r.n_eq]
  have heps : 0 ≤ eps := le_of_lt (lt_of_le_of_lt (maxViolation_spec s).1 hst.2)
  refine ⟨τ, r.τ_lt, ?_, ?_⟩
  · intro v hv
    have := hf.box (τ v) (hN ▸ r.τ_lt v hv)
    rw [r.C_eq] at this
    exact this
  · intro b hb
    have hb' : Feasible (s.P * s.n) s.C (fun v => b (σ v)) := by
      intro v hv
      rw [r.C_eq]
      exact hb (σ v) (r.σ_lt v (hN ▸ hv))
    have key := state_near_optimal s hk.1 hf.grad hf.box hf.C_nonneg eps heps
      (fun v hv w hw => Q_symm s hf v w hv hw) (hN ▸ r.psd hpsd) hk.2 (fun v => b (σ v)) hb'
    rw [hN, r.C_eq, r.dualObj_eq, r.dualObj_eq] at key
    have hbb : dualObj (s0.P * s0.n) s0.lin s0.Q (fun v => b (σ (τ v)))
        = dualObj (s0.P * s0.n) s0.lin s0.Q b := by
      unfold dualObj
      congr 1
      · refine sum_congr rfl fun v hv => ?_
        show s0.lin v * b (σ (τ v)) = s0.lin v * b v
        rw [r.στ v (mem_range.mp hv)]
      · congr 1
        refine sum_congr rfl fun v hv => sum_congr rfl fun w hw => ?_
        show b (σ (τ v)) * s0.Q v w * b (σ (τ w)) = b v * s0.Q v w * b w
        rw [r.στ v (mem_range.mp hv), r.στ w (mem_range.mp hw)]
    rw [hbb] at key
    exact key

/-- switching the shrinking heuristic on or off changes nothing the invariants or the dual problem read -/
theorem fullInv_setShrinking (s : McBox Rat) (h : FullInv s) (b : Bool) :
    FullInv { s with useShrinking := b } :=
  h.of_core ⟨rfl, rfl, rfl, rfl, rfl, rfl, rfl⟩
    ⟨h.tables.congr rfl rfl rfl rfl rfl rfl rfl, fun v hv => h.box v hv, fun v hv => h.grad v hv⟩

/-- **configuration invariance of the decomposition loop, end to end**: two runs of `QpSolver::solve` on the
same problem state `s0` — shrinking on or off (`sh1`, `sh2`), any iteration limits — that both report
`QpAccuracyReached` leave dual variables whose objectives, evaluated on the ONE dual of `s0`, differ by at most
`eps·N·C`.  (The kernel cache does not appear: the model reads the kernel matrix as a function, C09 proves that
the cache returns it.) -/
theorem solve_configuration_invariant (s0 : McBox Rat) (h : FullInv s0) (hpsd : PSD (s0.P * s0.n) s0.Q)
    (eps : Rat) (sh1 sh2 : Bool) (m1 m2 : Nat)
    (hstop1 : (solve { s0 with useShrinking := sh1 } eps m1).stop = .accuracy)
    (hstop2 : (solve { s0 with useShrinking := sh2 } eps m2).stop = .accuracy) :
    ∃ τ1 τ2 : Nat → Nat,
      |dualObj (s0.P * s0.n) s0.lin s0.Q (fun v => (solve { s0 with useShrinking := sh1 } eps m1).s.alpha (τ1 v))
        - dualObj (s0.P * s0.n) s0.lin s0.Q (fun v => (solve { s0 with useShrinking := sh2 } eps m2).s.alpha (τ2 v))|
        ≤ eps * (s0.P * s0.n : Nat) * s0.C := by
  obtain ⟨τ1, _, f1, o1⟩ := solve_stop_near_optimal { s0 with useShrinking := sh1 }
    (fullInv_setShrinking s0 h sh1) hpsd eps m1 hstop1
  obtain ⟨τ2, _, f2, o2⟩ := solve_stop_near_optimal { s0 with useShrinking := sh2 }
    (fullInv_setShrinking s0 h sh2) hpsd eps m2 hstop2
  refine ⟨τ1, τ2, ?_⟩
  generalize (fun v => (solve { s0 with useShrinking := sh1 } eps m1).s.alpha (τ1 v)) = a1 at f1 o1 ⊢
  generalize (fun v => (solve { s0 with useShrinking := sh2 } eps m2).s.alpha (τ2 v)) = a2 at f2 o2 ⊢
  have f1' : Feasible (s0.P * s0.n) s0.C a1 := f1
  have f2' : Feasible (s0.P * s0.n) s0.C a2 := f2
  have o1' : dualObj (s0.P * s0.n) s0.lin s0.Q a2 - dualObj (s0.P * s0.n) s0.lin s0.Q a1
      ≤ eps * (s0.P * s0.n : Nat) * s0.C := o1 a2 f2'
  have o2' : dualObj (s0.P * s0.n) s0.lin s0.Q a1 - dualObj (s0.P * s0.n) s0.lin s0.Q a2
      ≤ eps * (s0.P * s0.n : Nat) * s0.C := o2 a1 f1'
  exact abs_le.mpr ⟨by linarith, by linarith⟩

end SharkVerif.Mc
