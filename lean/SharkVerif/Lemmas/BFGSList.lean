/-
Part 2 of the BFGS positive-definiteness argument (C10): transport of
`bfgs_update_symPD` (Mathlib matrices) to the list-based executable model
`LSOpt.bfgsUpdate` / `Mat.mulVec` / `Vec.dot` of `Model/GradOpt.lean`.
-/
import SharkVerif.Lemmas.BFGSMatrix
import SharkVerif.Model.GradOpt
import Mathlib.Algebra.BigOperators.Fin
namespace SharkVerif.BFGS
open SharkVerif.Opt Matrix

/-- a list vector as a function on `Fin n` -/
def vecFn (n : ℕ) (v : Vec Rat) : Fin n → ℚ := fun i => v.getD i 0
/-- a list-of-rows matrix as a Mathlib matrix -/
def matFn (n : ℕ) (M : Mat Rat) : Matrix (Fin n) (Fin n) ℚ := fun i j => (M.getD i []).getD j 0

/-- `n × n` -/
def Dim (n : ℕ) (M : Mat Rat) : Prop := M.length = n ∧ ∀ r ∈ M, r.length = n

theorem foldl_add (l : List ℚ) (a : ℚ) : l.foldl (· + ·) a = a + l.sum := by
  induction l generalizing a with
  | nil => simp
  | cons x xs ih => simp [ih, add_assoc]

theorem zero_eq : (Scalar.zero : Rat) = 0 := rfl
theorem one_eq : (Scalar.one : Rat) = 1 := rfl

theorem dot_cons (x y : ℚ) (xs ys : Vec Rat) : Vec.dot (x :: xs) (y :: ys) = x * y + Vec.dot xs ys := by
  unfold Vec.dot
  simp only [List.zipWith_cons_cons, List.foldl_cons, foldl_add, zero_eq]
  ring

theorem dot_eq : ∀ (n : ℕ) (a b : Vec Rat), a.length = n → b.length = n →
    Vec.dot a b = vecFn n a ⬝ᵥ vecFn n b := by
  intro n
  induction n with
  | zero =>
    intro a b ha hb
    have ha' : a = [] := List.length_eq_zero_iff.mp ha
    have hb' : b = [] := List.length_eq_zero_iff.mp hb
    subst ha' hb'
    simp [Vec.dot, dotProduct, zero_eq]
  | succ n ih =>
    intro a b ha hb
    match a, b, ha, hb with
    | x :: xs, y :: ys, ha, hb =>
      have hxs : xs.length = n := by simpa using ha
      have hys : ys.length = n := by simpa using hb
      rw [dot_cons, ih xs ys hxs hys]
      simp only [dotProduct, Fin.sum_univ_succ, vecFn]
      simp

theorem getD_map_of_lt {β γ : Type} (f : β → γ) (l : List β) (i : ℕ) (h : i < l.length) (z : γ) :
    (l.map f).getD i z = f l[i] := by
  simp [List.getD_eq_getElem?_getD, h]

theorem getD_of_lt {β : Type} (l : List β) (i : ℕ) (h : i < l.length) (z : β) : l.getD i z = l[i] := by
  simp [List.getD_eq_getElem?_getD, h]

theorem mulVec_eq (n : ℕ) (M : Mat Rat) (v : Vec Rat) (hM : Dim n M) (hv : v.length = n) :
    vecFn n (Mat.mulVec M v) = matFn n M *ᵥ vecFn n v := by
  funext i
  have hi : (i : ℕ) < M.length := by rw [hM.1]; exact i.2
  unfold vecFn Mat.mulVec
  rw [getD_map_of_lt _ _ _ hi]
  have hrow : (M[(i : ℕ)]).length = n := hM.2 _ (List.getElem_mem hi)
  rw [dot_eq n _ _ hrow hv]
  unfold Matrix.mulVec dotProduct matFn vecFn
  simp only [getD_of_lt M i hi]

theorem mulVec_length (M : Mat Rat) (v : Vec Rat) : (Mat.mulVec M v).length = M.length := by
  simp [Mat.mulVec]

/-! ### the model's update, entry by entry -/

theorem getD_zipWith_of_lt {β γ δ : Type} (f : β → γ → δ) (a : List β) (b : List γ) (i : ℕ)
    (ha : i < a.length) (hb : i < b.length) (z : δ) : (List.zipWith f a b).getD i z = f a[i] b[i] := by
  simp [List.getD_eq_getElem?_getD, List.getElem?_zipWith, ha, hb]

/-- matrix form of what `LSOpt.bfgsUpdate` computes in its update branch -/
noncomputable def updM {n : ℕ} (H : Matrix (Fin n) (Fin n) ℚ) (γ δ : Fin n → ℚ) : Matrix (Fin n) (Fin n) ℚ :=
  H + ((((γ ⬝ᵥ (H *ᵥ γ)) / (γ ⬝ᵥ δ) + 1) / (γ ⬝ᵥ δ)) • vecMulVec δ δ
      - (1 / (γ ⬝ᵥ δ)) • (vecMulVec (H *ᵥ γ) δ + vecMulVec δ (H *ᵥ γ)))

theorem identity_dim (n : ℕ) : Dim n (Mat.identity (α := Rat) n) := by
  constructor
  · simp [Mat.identity]
  · intro r hr
    simp only [Mat.identity, List.mem_map, List.mem_range] at hr
    obtain ⟨i, _, rfl⟩ := hr
    simp

theorem identity_matFn (n : ℕ) : matFn n (Mat.identity (α := Rat) n) = (1 : Matrix (Fin n) (Fin n) ℚ) := by
  funext i j
  have hi : (i : ℕ) < (Mat.identity (α := Rat) n).length := by simp [Mat.identity]
  unfold matFn
  rw [getD_of_lt _ _ hi]
  simp only [Mat.identity, List.getElem_map, List.getElem_range]
  rw [getD_map_of_lt _ _ _ (by simp)]
  simp only [List.getElem_range, Matrix.one_apply, zero_eq, one_eq]
  by_cases h : i = j
  · simp [h]
  · have : (i : ℕ) ≠ (j : ℕ) := fun hh => h (Fin.ext hh)
    simp [h, this]

theorem bfgsUpdate_spec (n : ℕ) (H : Mat Rat) (γ δ : Vec Rat) (hH : Dim n H) (hγ : γ.length = n) (hδ : δ.length = n) :
    Dim n (LSOpt.bfgsUpdate H γ δ) ∧
    (matFn n (LSOpt.bfgsUpdate H γ δ) = 1 ∨
      (0 < vecFn n γ ⬝ᵥ vecFn n δ ∧
       matFn n (LSOpt.bfgsUpdate H γ δ) = updM (matFn n H) (vecFn n γ) (vecFn n δ))) := by
  unfold LSOpt.bfgsUpdate
  simp only
  split
  · rw [hγ]; exact ⟨identity_dim n, Or.inl (identity_matFn n)⟩
  · next hd =>
    have hdpos : 0 < Vec.dot γ δ := by
      have : ¬ Vec.dot γ δ < (1/100000000000000000000 : ℚ) := by simpa [Scalar.ofRat] using hd
      have h2 : (0 : ℚ) < 1/100000000000000000000 := by norm_num
      exact lt_of_lt_of_le h2 (not_lt.mp this)
    have hHg : (Mat.mulVec H γ).length = n := by rw [mulVec_length, hH.1]
    have hz : (List.zip δ (Mat.mulVec H γ)).length = n := by simp [hδ, hHg]
    refine ⟨⟨by simp [hH.1, hz], ?_⟩, Or.inr ⟨by rw [← dot_eq n γ δ hγ hδ]; exact hdpos, ?_⟩⟩
    · intro r hr
      obtain ⟨i, hi, rfl⟩ := List.getElem_of_mem hr
      have hi' : i < H.length := by simp [List.length_zipWith] at hi; exact hi.1
      rw [List.getElem_zipWith]
      simp [hH.2 _ (List.getElem_mem hi'), hz]
    · funext i j
      have hi : (i : ℕ) < H.length := by rw [hH.1]; exact i.2
      have hiz : (i : ℕ) < (List.zip δ (Mat.mulVec H γ)).length := by rw [hz]; exact i.2
      have hjz : (j : ℕ) < (List.zip δ (Mat.mulVec H γ)).length := by rw [hz]; exact j.2
      have hrow : (H[(i : ℕ)]).length = n := hH.2 _ (List.getElem_mem hi)
      have hj : (j : ℕ) < (H[(i : ℕ)]).length := by rw [hrow]; exact j.2
      have hiδ : (i : ℕ) < δ.length := by rw [hδ]; exact i.2
      have hjδ : (j : ℕ) < δ.length := by rw [hδ]; exact j.2
      have hiH : (i : ℕ) < (Mat.mulVec H γ).length := by rw [hHg]; exact i.2
      have hjH : (j : ℕ) < (Mat.mulVec H γ).length := by rw [hHg]; exact j.2
      show ((List.zipWith _ H _).getD (i : ℕ) []).getD (j : ℕ) 0 = _
      rw [getD_zipWith_of_lt _ _ _ _ hi hiz, getD_zipWith_of_lt _ _ _ _ hj hjz]
      simp only [List.getElem_zip]
      -- rewrite the list-level scalars as matrix-level ones
      have e1 : Vec.dot γ δ = vecFn n γ ⬝ᵥ vecFn n δ := dot_eq n γ δ hγ hδ
      have e2 : vecFn n (Mat.mulVec H γ) = matFn n H *ᵥ vecFn n γ := mulVec_eq n H γ hH hγ
      have e3 : Vec.dot γ (Mat.mulVec H γ) = vecFn n γ ⬝ᵥ (matFn n H *ᵥ vecFn n γ) := by
        rw [dot_eq n _ _ hγ hHg, e2]
      have g1 : ∀ (k : Fin n) (hk : (k : ℕ) < (Mat.mulVec H γ).length), (Mat.mulVec H γ)[(k : ℕ)] = (matFn n H *ᵥ vecFn n γ) k := by
        intro k hk
        rw [← e2]; unfold vecFn; rw [getD_of_lt _ _ hk]
      have g2 : ∀ (k : Fin n) (hk : (k : ℕ) < δ.length), δ[(k : ℕ)] = vecFn n δ k := by
        intro k hk; unfold vecFn; rw [getD_of_lt _ _ hk]
      rw [g1 i hiH, g1 j hjH, g2 i hiδ, g2 j hjδ, e1, e3]
      have g3 : (H[(i : ℕ)])[(j : ℕ)] = matFn n H i j := by
        unfold matFn; rw [getD_of_lt _ _ hi, getD_of_lt _ _ hj]
      rw [g3]
      simp only [updM, Matrix.add_apply, Matrix.sub_apply, Matrix.smul_apply, vecMulVec_apply, smul_eq_mul, one_eq]
      ring

/-! ### positive definiteness of the model's matrix and descent of the BFGS direction -/

/-- the list matrix is `n × n`, symmetric and positive definite -/
def ListPD (n : ℕ) (H : Mat Rat) : Prop := Dim n H ∧ SymPD (matFn n H)

theorem one_symPD (n : ℕ) : SymPD (1 : Matrix (Fin n) (Fin n) ℚ) := by
  refine ⟨Matrix.transpose_one, fun x hx => ?_⟩
  rw [Matrix.one_mulVec]
  have hne : ∃ i, x i ≠ 0 := by
    by_contra h; push_neg at h; exact hx (funext h)
  obtain ⟨i, hi⟩ := hne
  unfold dotProduct
  have hnn : ∀ j ∈ Finset.univ, 0 ≤ x j * x j := fun j _ => mul_self_nonneg _
  have : 0 < x i * x i := mul_self_pos.mpr hi
  exact lt_of_lt_of_le this (Finset.single_le_sum hnn (Finset.mem_univ i))

/-- **bfgs_update_pd (list model).**  `LSOpt.bfgsUpdate` maps an `n × n` symmetric positive definite
matrix to one, for every `γ`, `δ` of length `n` (both branches: reset to the identity when
`γᵀδ < 1e-20`, rank-two update otherwise). -/
theorem bfgsUpdate_listPD (n : ℕ) (H : Mat Rat) (γ δ : Vec Rat) (hH : ListPD n H)
    (hγ : γ.length = n) (hδ : δ.length = n) : ListPD n (LSOpt.bfgsUpdate H γ δ) := by
  obtain ⟨hdim, hspec⟩ := bfgsUpdate_spec n H γ δ hH.1 hγ hδ
  refine ⟨hdim, ?_⟩
  rcases hspec with h1 | ⟨hd, hu⟩
  · rw [h1]; exact one_symPD n
  · rw [hu]; exact bfgs_update_symPD _ _ _ hH.2 hd

theorem neg_vecFn (n : ℕ) (v : Vec Rat) (hv : v.length = n) : vecFn n (Vec.neg v) = - vecFn n v := by
  funext i
  have hi : (i : ℕ) < v.length := by rw [hv]; exact i.2
  show (v.map (- ·)).getD (i : ℕ) 0 = -(v.getD (i : ℕ) 0)
  rw [getD_map_of_lt _ _ _ hi, getD_of_lt _ _ hi]

/-- **direction_descent (BFGS).**  For a positive definite `H` and a non-zero gradient `g`, the direction
`d = −H g` of `BFGS::computeSearchDirection` is a strict descent direction: `gᵀd < 0`. -/
theorem bfgs_direction_descent (n : ℕ) (H : Mat Rat) (g : Vec Rat) (hH : ListPD n H) (hg : g.length = n)
    (hne : vecFn n g ≠ 0) : Vec.dot g (Vec.neg (Mat.mulVec H g)) < 0 := by
  have hl : (Mat.mulVec H g).length = n := by rw [mulVec_length, hH.1.1]
  rw [dot_eq n _ _ hg (by simpa [Vec.neg] using hl), neg_vecFn n _ hl, mulVec_eq n H g hH.1 hg, dotProduct_neg]
  have := hH.2.2 _ hne
  linarith

/-- non-strict version without the hypothesis `g ≠ 0` -/
theorem bfgs_direction_nonascent (n : ℕ) (H : Mat Rat) (g : Vec Rat) (hH : ListPD n H) (hg : g.length = n) :
    Vec.dot g (Vec.neg (Mat.mulVec H g)) ≤ 0 := by
  by_cases hne : vecFn n g = 0
  · have hl : (Mat.mulVec H g).length = n := by rw [mulVec_length, hH.1.1]
    rw [dot_eq n _ _ hg (by simpa [Vec.neg] using hl), hne]; simp
  · exact (bfgs_direction_descent n H g hH hg hne).le

end SharkVerif.BFGS
