/-
Helper lemmas for C02: pivoted LU (`getrf`), right-looking invariant.
-/
import SharkVerif.Lemmas.LinSolve
namespace SharkVerif.LinSolve

/-- unit lower factor stored below the diagonal of `M` -/
def Lf (M : Arr2) : Mat := fun i c => if c < i then mget M i c else if c = i then 1 else 0
/-- upper factor stored on and above the diagonal of `M` -/
def Uf (M : Arr2) : Mat := fun c k => if c ≤ k then mget M c k else 0

theorem foldl_inv {α β : Type} (f : α → β → α) (Q : α → Prop) (l : List β) (p : α) (hp : Q p)
    (hstep : ∀ p d, Q p → d ∈ l → Q (f p d)) : Q (l.foldl f p) := by
  induction l generalizing p with
  | nil => exact hp
  | cons x xs ih =>
    simp only [List.foldl_cons]
    apply ih
    · exact hstep p x hp (by simp)
    · intro p d hq hd; exact hstep p d hq (by simp [hd])

theorem pivotRow_bounds (n : Nat) (M : Arr2) {j : Nat} (hj : j < n) :
    j ≤ pivotRow n M j ∧ pivotRow n M j < n := by
  unfold pivotRow
  apply foldl_inv (Q := fun p => j ≤ p ∧ p < n)
  · exact ⟨Nat.le_refl j, hj⟩
  · intro p d hq hd
    have hd' : d < n - j - 1 := List.mem_range.mp hd
    split
    · constructor <;> omega
    · exact hq

theorem sw_lt {n a b i : Nat} (ha : a < n) (hb : b < n) (hi : i < n) : sw a b i < n := by
  unfold sw; split
  · exact hb
  · split
    · exact ha
    · exact hi

theorem permOf_upd (P : Nat → Nat) (t p : Nat) : ∀ t', t' ≤ t → ∀ i, permOf (upd P t p) t' i = permOf P t' i := by
  intro t'
  induction t' with
  | zero => intro _ i; rfl
  | succ m ih =>
    intro hm i
    have hne : m ≠ t := by omega
    simp only [permOf, upd, hne, if_false]
    exact ih (by omega) _

theorem permOf_upd_succ (P : Nat → Nat) (t p i : Nat) :
    permOf (upd P t p) (t + 1) i = permOf P t (sw t p i) := by
  simp only [permOf, upd, if_true]
  exact permOf_upd P t p t (Nat.le_refl t) _

/-- the invariant of the elimination after `t` columns -/
def LUInv (n : Nat) (A : Mat) (t : Nat) (s : LUState) : Prop :=
  ∀ i k, i < n → k < n →
    A (permOf s.P t i) k
      = sum t (fun c => Lf s.M i c * Uf s.M c k) + (if t ≤ i ∧ t ≤ k then mget s.M i k else 0)

theorem getrfStep_fail (n j : Nat) (s : LUState) (h : s.fail = true) : (getrfStep n j s).fail = true := by
  unfold getrfStep; simp [h]

theorem getrfStep_ok {n j : Nat} {s : LUState} (h : (getrfStep n j s).fail = false) :
    s.fail = false ∧ mget s.M (pivotRow n s.M j) j ≠ 0 := by
  constructor
  · cases hf : s.fail
    · rfl
    · rw [getrfStep_fail n j s hf] at h; exact absurd h (by simp)
  · intro hz
    unfold getrfStep at h
    cases hf : s.fail
    · simp [hf, hz] at h
    · simp [hf] at h

theorem LUInv_init (n : Nat) (A : Mat) : LUInv n A 0 ⟨matOf n n A, fun t => t, false⟩ := by
  intro i k hi hk
  simp [permOf, sum, mget_matOf, hi, hk]

theorem LUInv_step (n : Nat) (A : Mat) (t : Nat) (ht : t < n) (s : LUState)
    (hinv : LUInv n A t s) (hok : (getrfStep n t s).fail = false) :
    LUInv n A (t + 1) (getrfStep n t s) := by
  obtain ⟨hf, hpiv⟩ := getrfStep_ok hok
  obtain ⟨hpt, hpn⟩ := pivotRow_bounds n s.M ht
  set p := pivotRow n s.M t with hp
  set piv := mget s.M p t with hpivdef
  have hstep : getrfStep n t s =
      { M := matOf n n fun i k =>
          if i ≤ t ∨ k < t then mget (swapRows n s.M t p) i k
          else if k = t then mget (swapRows n s.M t p) i t / piv
          else mget (swapRows n s.M t p) i k - mget (swapRows n s.M t p) i t / piv * mget (swapRows n s.M t p) t k,
        P := upd s.P t p, fail := false } := by
    unfold getrfStep
    simp only [hf, Bool.false_eq_true, if_false]
    rw [if_neg hpiv]
  rw [hstep]
  intro i k hi hk
  -- entries of the row-swapped matrix
  have hM1 : ∀ a c, a < n → c < n → mget (swapRows n s.M t p) a c = mget s.M (sw t p a) c := by
    intro a c ha hc; unfold swapRows; rw [mget_matOf]; simp [ha, hc]
  set M1 := swapRows n s.M t p with hM1def
  set M2 : Arr2 := matOf n n fun i k =>
          if i ≤ t ∨ k < t then mget M1 i k
          else if k = t then mget M1 i t / piv
          else mget M1 i k - mget M1 i t / piv * mget M1 t k with hM2def
  have hM2 : ∀ a c, a < n → c < n → mget M2 a c =
      if a ≤ t ∨ c < t then mget M1 a c
      else if c = t then mget M1 a t / piv
      else mget M1 a c - mget M1 a t / piv * mget M1 t c := by
    intro a c ha hc; rw [hM2def, mget_matOf]; simp [ha, hc]
  show A (permOf (upd s.P t p) (t + 1) i) k
      = sum (t + 1) (fun c => Lf M2 i c * Uf M2 c k) + (if t + 1 ≤ i ∧ t + 1 ≤ k then mget M2 i k else 0)
  rw [permOf_upd_succ]
  have hi' : sw t p i < n := sw_lt ht hpn hi
  rw [hinv (sw t p i) k hi' hk]
  -- the finished part of the sum is unchanged
  have hsum : sum t (fun c => Lf s.M (sw t p i) c * Uf s.M c k) = sum t (fun c => Lf M2 i c * Uf M2 c k) := by
    apply sum_congr; intro c hc
    have hcn : c < n := by omega
    have hU : Uf M2 c k = Uf s.M c k := by
      unfold Uf
      rw [hM2 c k hcn hk, if_pos (Or.inl (by omega)), hM1 c k hcn hk]
      have : sw t p c = c := by unfold sw; rw [if_neg (by omega), if_neg (by omega)]
      rw [this]
    have hL : Lf M2 i c = Lf s.M (sw t p i) c := by
      unfold Lf
      by_cases hit : i < t
      · have : sw t p i = i := by unfold sw; rw [if_neg (by omega), if_neg (by omega)]
        rw [this]
        by_cases hci : c < i
        · rw [if_pos hci, if_pos hci, hM2 i c hi hcn, if_pos (Or.inr hc), hM1 i c hi hcn, this]
        · rw [if_neg hci, if_neg hci]
      · have h1 : c < i := by omega
        have h2 : c < sw t p i := by
          unfold sw; split
          · omega
          · split <;> omega
        rw [if_pos h1, if_pos h2, hM2 i c hi hcn, if_pos (Or.inr hc), hM1 i c hi hcn]
    rw [hU, hL]
  rw [hsum, sum]
  have hM1tk : mget M1 t k = mget s.M p k := by
    rw [hM1 t k ht hk]; unfold sw; simp
  -- the new term and the remaining block
  by_cases hit : i < t
  · have hswi : sw t p i = i := by unfold sw; rw [if_neg (by omega), if_neg (by omega)]
    have hL : Lf M2 i t = 0 := by unfold Lf; rw [if_neg (by omega), if_neg (by omega)]
    rw [hswi, hL, if_neg (by omega), if_neg (by omega)]; ring
  · by_cases hieq : i = t
    · subst hieq
      have hswi : sw i p i = p := by unfold sw; simp
      have hL : Lf M2 i i = 1 := by unfold Lf; simp
      have hU : Uf M2 i k = if i ≤ k then mget s.M p k else 0 := by
        unfold Uf
        rw [hM2 i k hi hk, if_pos (Or.inl (Nat.le_refl i)), hM1tk]
      rw [hswi, hL, hU, if_neg (show ¬ (i + 1 ≤ i ∧ i + 1 ≤ k) by omega)]
      by_cases hk' : i ≤ k
      · rw [if_pos ⟨hpt, hk'⟩, if_pos hk']; ring
      · rw [if_neg (show ¬ (i ≤ p ∧ i ≤ k) by omega), if_neg hk']; ring
    · have hgt : t < i := by omega
      have hswi : t ≤ sw t p i := by
        unfold sw; split
        · omega
        · split <;> omega
      have hrow : ∀ c, c < n → mget M1 i c = mget s.M (sw t p i) c := fun c hc => hM1 i c hi hc
      have hL : Lf M2 i t = mget M1 i t / piv := by
        unfold Lf
        rw [if_pos hgt, hM2 i t hi ht, if_neg (by omega), if_pos rfl]
      have hU : Uf M2 t k = if t ≤ k then mget M1 t k else 0 := by
        unfold Uf
        rw [hM2 t k ht hk, if_pos (Or.inl (Nat.le_refl t))]
      rw [hL, hU]
      by_cases hkt : k < t
      · rw [if_neg (by omega), if_neg (by omega), if_neg (by omega)]; ring
      · by_cases hkeq : k = t
        · subst hkeq
          have hpp : mget M1 k k = piv := by rw [hM1tk]
          rw [if_pos ⟨hswi, Nat.le_refl k⟩, if_pos (Nat.le_refl k),
            if_neg (show ¬ (k + 1 ≤ i ∧ k + 1 ≤ k) by omega), hpp, ← hrow k hk,
            div_mul_cancel₀ _ hpiv]
          ring
        · have hkgt : t < k := by omega
          rw [if_pos ⟨hswi, by omega⟩, if_pos (by omega), if_pos ⟨by omega, by omega⟩,
            hM2 i k hi hk, if_neg (by omega), if_neg hkeq, ← hrow k hk]
          ring

theorem getrf_inv (n : Nat) (A : Mat) : ∀ t, t ≤ n →
    (iter t (getrfStep n) ⟨matOf n n A, fun t => t, false⟩).fail = false →
    LUInv n A t (iter t (getrfStep n) ⟨matOf n n A, fun t => t, false⟩) := by
  intro t
  induction t with
  | zero => intro _ _; exact LUInv_init n A
  | succ m ih =>
    intro hm hok
    have hok' : (getrfStep n m (iter m (getrfStep n) ⟨matOf n n A, fun t => t, false⟩)).fail = false := hok
    have hprev := (getrfStep_ok hok').1
    exact LUInv_step n A m (by omega) _ (ih (by omega) hprev) hok'

theorem Lf_eq_triPart (M : Arr2) : Lf M = triPart ⟨false, true⟩ (fun i j => mget M i j) := by
  funext i c
  unfold Lf triPart
  by_cases h : i = c
  · subst h; simp
  · have h' : ¬ c = i := fun e => h e.symm
    simp [h, h']

theorem Uf_eq_triPart (M : Arr2) : Uf M = triPart ⟨true, false⟩ (fun i j => mget M i j) := by
  funext c k
  unfold Uf triPart
  by_cases h : c = k
  · subst h; simp
  · by_cases h2 : c < k
    · have : c ≤ k := by omega
      simp [h, h2, this]
    · have : ¬ c ≤ k := by omega
      simp [h, h2, this]

/-- matrix–vector associativity on index functions -/
theorem mulVec_mul (n : Nat) (B C : Mat) (x : Vec) (i : Nat) :
    mulVec n (mul n B C) x i = mulVec n B (mulVec n C x) i := by
  unfold mulVec mul
  have h1 : sum n (fun k => sum n (fun c => B i c * C c k) * x k)
      = sum n (fun k => sum n (fun c => B i c * C c k * x k)) := by
    apply sum_congr; intro k _; rw [← sum_mul_right]
  have h2 : sum n (fun c => B i c * sum n (fun k => C c k * x k))
      = sum n (fun c => sum n (fun k => B i c * C c k * x k)) := by
    apply sum_congr; intro c _; rw [← sum_mul_left]; apply sum_congr; intro k _; ring
  rw [h1, h2, sum_comm]

theorem mulVec_congr {n : Nat} {A B : Mat} {x y : Vec} {i : Nat}
    (hA : ∀ k, k < n → A i k = B i k) (hx : ∀ k, k < n → x k = y k) :
    mulVec n A x i = mulVec n B y i := by
  unfold mulVec; apply sum_congr; intro k hk; rw [hA k hk, hx k hk]

end SharkVerif.LinSolve
