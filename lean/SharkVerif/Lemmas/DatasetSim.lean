/-
Simulation: every structural operation of the sharing model (Model/DatasetShared.lean) acts on the *values* of the
slots exactly like the value-level operation of Model/Dataset.lean acts on a list of independent datasets.
-/
import SharkVerif.Lemmas.DatasetWorld
namespace SharkVerif.Dataset.Shared
open SharkVerif.Dataset

variable {ι κ : Type}

namespace World

theorem mkChecked_ok (hi : Heap ι) (hl : Heap κ) (p r : PLabeled) (h : mkChecked hi hl p = .ok r) :
    r = p ∧ LabeledData.mk' (p.inputs.resolve hi) (p.labels.resolve hl) = .ok (p.resolve hi hl) := by
  unfold mkChecked at h
  split at h
  · rename_i hn
    simp only [Except.ok.injEq] at h
    exact ⟨h.symm, by simp [LabeledData.mk', hn, PLabeled.resolve]⟩
  · simp at h

theorem absD_length (w : World ι κ) : w.absD.length = w.d.length := by simp [absD]

theorem set_self {α : Type} (l : List α) (a : Nat) (x : α) (h : l[a]? = some x) : l.set a x = l := by
  apply List.ext_getElem?
  intro i
  by_cases hi : i = a
  · subst hi
    have : i < l.length := by
      rcases Nat.lt_or_ge i l.length with hlt | hge
      · exact hlt
      · rw [List.getElem?_eq_none hge] at h; simp at h
    rw [List.getElem?_eq_getElem this] at h
    simp [this, Option.some.inj h]
  · simp [Ne.symm hi]

theorem sim_copy (w w' : World ι κ) (hv : w.Valid) (a b : Nat) (h : w.copy a b = .ok w') :
    w'.Valid ∧ (SOp.copy a b : SOp ι κ).runV w.absD = .ok w'.absD := by
  simp only [copy, bind_ok, require_ok, pure_ok, decide_eq_true_eq] at h
  obtain ⟨p, hp, _, hb, rfl⟩ := h
  obtain ⟨v1, v2, _⟩ := setSlot_spec w hv b p (slot_valid w hv a p hp)
  refine ⟨v1, ?_⟩
  simp only [SOp.runV, bind_ok, ofOpt_ok, require_ok, pure_ok, decide_eq_true_eq]
  exact ⟨_, absD_get w a p hp, (), by rw [absD_length]; exact hb, v2.symm⟩

theorem sim_swap (w w' : World ι κ) (hv : w.Valid) (a b : Nat) (h : w.swap a b = .ok w') :
    w'.Valid ∧ (SOp.swap a b : SOp ι κ).runV w.absD = .ok w'.absD := by
  simp only [swap, bind_ok, pure_ok] at h
  obtain ⟨p, hp, q, hq, rfl⟩ := h
  obtain ⟨v1, v2, _⟩ := setSlot_spec w hv a q (slot_valid w hv b q hq)
  obtain ⟨u1, u2, _⟩ := setSlot_spec _ v1 b p (slot_valid w hv a p hp)
  refine ⟨u1, ?_⟩
  simp only [SOp.runV, bind_ok, ofOpt_ok, pure_ok]
  refine ⟨_, absD_get w a p hp, _, absD_get w b q hq, ?_⟩
  rw [u2, v2]; rfl

theorem sim_indep (w w' : World ι κ) (hv : w.Valid) (a : Nat) (h : w.makeIndependent a = .ok w') :
    w'.Valid ∧ (SOp.indep a : SOp ι κ).runV w.absD = .ok w'.absD := by
  simp only [makeIndependent, bind_ok, pure_ok] at h
  obtain ⟨p, hp, rfl⟩ := h
  have pv := slot_valid w hv a p hp
  obtain ⟨v1, v2, _⟩ := update_spec w hv a _ _ _ _ _ _ (makeIndependent_ext w.hi w.ucI p.inputs pv.1)
    (makeIndependent_ext w.hl w.ucL p.labels pv.2)
  refine ⟨v1, ?_⟩
  simp only [SOp.runV, bind_ok, ofOpt_ok, pure_ok]
  refine ⟨_, absD_get w a p hp, ?_⟩
  rw [v2]
  exact (set_self _ _ _ (absD_get w a p hp)).symm

theorem sim_splitBatch (w w' : World ι κ) (hv : w.Valid) (a b k : Nat) (h : w.splitBatch a b k = .ok w') :
    w'.Valid ∧ (SOp.splitBatch a b k : SOp ι κ).runV w.absD = .ok w'.absD ∧ w'.absV = w.absV ∧
      ∃ x', w'.absD = w.absD.set a x' ∧ w'.d.length = w.d.length := by
  simp only [splitBatch, bind_ok, pure_ok] at h
  obtain ⟨p, hp, ⟨hi, i⟩, h1, ⟨hl, l⟩, h2, rfl⟩ := h
  have pv := slot_valid w hv a p hp
  obtain ⟨di, hdi, ei, _⟩ := splitBatch_ext _ _ _ _ _ _ _ pv.1 h1
  obtain ⟨dl, hdl, el, _⟩ := splitBatch_ext _ _ _ _ _ _ _ pv.2 h2
  obtain ⟨v1, v2, v3⟩ := update_spec w hv a _ _ _ _ _ _ ei el
  refine ⟨v1, ?_, v3, ⟨_, v2, by simp⟩⟩
  simp only [SOp.runV, bind_ok, ofOpt_ok, pure_ok]
  refine ⟨_, absD_get w a p hp, ⟨di, dl⟩, ?_, v2.symm⟩
  simp only [LabeledData.splitBatch, PLabeled.resolve, bind_ok, pure_ok]
  exact ⟨di, hdi, dl, hdl, rfl⟩

theorem sim_repartition (w w' : World ι κ) (hv : w.Valid) (a : Nat) (sizes : List Nat)
    (h : w.repartition a sizes = .ok w') :
    w'.Valid ∧ (SOp.repartition a sizes : SOp ι κ).runV w.absD = .ok w'.absD := by
  simp only [repartition, bind_ok, pure_ok] at h
  obtain ⟨p, hp, ⟨hi, i⟩, h1, ⟨hl, l⟩, h2, rfl⟩ := h
  obtain ⟨di, hdi, ei, _⟩ := repartition_ext _ _ _ _ _ _ h1
  obtain ⟨dl, hdl, el, _⟩ := repartition_ext _ _ _ _ _ _ h2
  obtain ⟨v1, v2, _⟩ := update_spec w hv a _ _ _ _ _ _ ei el
  refine ⟨v1, ?_⟩
  simp only [SOp.runV, bind_ok, ofOpt_ok, pure_ok]
  refine ⟨_, absD_get w a p hp, ⟨di, dl⟩, ?_, v2.symm⟩
  simp only [LabeledData.repartitionByLoop, PLabeled.resolve, bind_ok, pure_ok]
  exact ⟨di, hdi, dl, hdl, rfl⟩

theorem sim_reorder (w w' : World ι κ) (hv : w.Valid) (a : Nat) (idx : List Nat)
    (h : w.reorderElements a idx = .ok w') :
    w'.Valid ∧ (SOp.reorder a idx : SOp ι κ).runV w.absD = .ok w'.absD := by
  simp only [reorderElements, bind_ok, pure_ok] at h
  obtain ⟨p, hp, ⟨hi, i⟩, h1, ⟨hl, l⟩, h2, rfl⟩ := h
  obtain ⟨di, hdi, ei⟩ := reorderElements_ext _ _ _ _ _ h1
  obtain ⟨dl, hdl, el⟩ := reorderElements_ext _ _ _ _ _ h2
  obtain ⟨v1, v2, _⟩ := update_spec w hv a _ _ _ _ _ _ ei el
  refine ⟨v1, ?_⟩
  simp only [SOp.runV, bind_ok, ofOpt_ok, pure_ok]
  refine ⟨_, absD_get w a p hp, ⟨di, dl⟩, ?_, v2.symm⟩
  simp only [LabeledData.reorderElements, PLabeled.resolve, bind_ok, pure_ok]
  exact ⟨di, hdi, dl, hdl, rfl⟩

theorem sim_splice (w w' : World ι κ) (hv : w.Valid) (a b k : Nat) (h : w.splice a b k = .ok w') :
    w'.Valid ∧ (SOp.splice a b k : SOp ι κ).runV w.absD = .ok w'.absD := by
  simp only [splice, bind_ok, require_ok, pure_ok] at h
  obtain ⟨p, hp, _, hab, ⟨il, ir⟩, h1, ⟨ll, lr⟩, h2, r, hr, rfl⟩ := h
  have pv := slot_valid w hv a p hp
  obtain ⟨a1, a2, a3, _⟩ := splice_spec _ _ _ _ _ w.hi pv.1 h1
  obtain ⟨b1, b2, b3, _⟩ := splice_spec _ _ _ _ _ w.hl pv.2 h2
  obtain ⟨rfl, hmk⟩ := mkChecked_ok _ _ _ _ hr
  obtain ⟨v1, v2, _⟩ := setSlot_spec w hv a ⟨il, ll⟩ ⟨a1, b1⟩
  obtain ⟨u1, u2, _⟩ := setSlot_spec _ v1 b ⟨ir, lr⟩ ⟨a2, b2⟩
  refine ⟨u1, ?_⟩
  simp only [SOp.runV, bind_ok, ofOpt_ok, require_ok, pure_ok]
  refine ⟨_, absD_get w a p hp, (), by rw [absD_length]; exact hab, ((⟨il, ll⟩ : PLabeled).resolve w.hi w.hl, (⟨ir, lr⟩ : PLabeled).resolve w.hi w.hl), ?_, ?_⟩
  · simp only [LabeledData.splice, PLabeled.resolve, bind_ok, pure_ok]
    exact ⟨_, a3, _, b3, _, hmk, rfl⟩
  · rw [u2, v2]; rfl

theorem sim_append (w w' : World ι κ) (hv : w.Valid) (a b : Nat) (h : w.append a b = .ok w') :
    w'.Valid ∧ (SOp.append a b : SOp ι κ).runV w.absD = .ok w'.absD := by
  simp only [append, bind_ok, pure_ok] at h
  obtain ⟨p, hp, q, hq, rfl⟩ := h
  have pv := slot_valid w hv a p hp
  have qv := slot_valid w hv b q hq
  obtain ⟨i1, i2⟩ := append_spec w.hi p.inputs q.inputs pv.1 qv.1
  obtain ⟨l1, l2⟩ := append_spec w.hl p.labels q.labels pv.2 qv.2
  obtain ⟨v1, v2, _⟩ := setSlot_spec w hv a ⟨Shared.append p.inputs q.inputs, Shared.append p.labels q.labels⟩ ⟨i1, l1⟩
  refine ⟨v1, ?_⟩
  simp only [SOp.runV, bind_ok, ofOpt_ok, pure_ok]
  refine ⟨_, absD_get w a p hp, _, absD_get w b q hq, ?_⟩
  rw [v2]
  simp only [PLabeled.resolve, LabeledData.append, i2, l2]

theorem sim_store (w w' : World ι κ) (hv : w.Valid) (a : Nat) (x : LabeledData ι κ) (h : w.store a x = .ok w') :
    w'.Valid ∧ (SOp.store a x : SOp ι κ).runV w.absD = .ok w'.absD := by
  simp only [store, bind_ok, require_ok, pure_ok, decide_eq_true_eq] at h
  obtain ⟨_, ha, rfl⟩ := h
  obtain ⟨v1, v2, _⟩ := update_spec w hv a _ _ _ _ _ _ (Ext.of_alloc w.hi x.inputs) (Ext.of_alloc w.hl x.labels)
  refine ⟨v1, ?_⟩
  simp only [SOp.runV, bind_ok, require_ok, pure_ok, decide_eq_true_eq]
  exact ⟨(), by rw [absD_length]; exact ha, v2.symm⟩

theorem sim_pushBack (w w' : World ι κ) (hv : w.Valid) (a b i : Nat) (h : w.pushBack a b i = .ok w') :
    w'.Valid ∧ (SOp.pushBack a b i : SOp ι κ).runV w.absD = .ok w'.absD := by
  simp only [pushBack, bind_ok, ofOpt_ok, pure_ok] at h
  obtain ⟨p, hp, q, hq, ai, hai, al, hal, rfl⟩ := h
  have pv := slot_valid w hv a p hp
  obtain ⟨v1, v2, _⟩ := update_spec w hv a _ _ _ _ _ _ (pushBack_ext w.hi p.inputs (cell w.hi ai) pv.1)
    (pushBack_ext w.hl p.labels (cell w.hl al) pv.2)
  refine ⟨v1, ?_⟩
  simp only [SOp.runV, bind_ok, ofOpt_ok, pure_ok]
  refine ⟨_, absD_get w a p hp, _, absD_get w b q hq, cell w.hi ai, ?_, cell w.hl al, ?_, ?_⟩
  · simp [PLabeled.resolve, PData.resolve, hai]
  · simp [PLabeled.resolve, PData.resolve, hal]
  · rw [v2]; rfl

theorem sim_subset (w w' : World ι κ) (hv : w.Valid) (a b : Nat) (idx : List Nat) (h : w.indexedSubset a b idx = .ok w') :
    w'.Valid ∧ (SOp.subset a b idx : SOp ι κ).runV w.absD = .ok w'.absD := by
  simp only [World.indexedSubset, bind_ok, require_ok, pure_ok, decide_eq_true_eq] at h
  obtain ⟨p, hp, _, hb, si, hsi, sl, hsl, r, hr, rfl⟩ := h
  have pv := slot_valid w hv a p hp
  obtain ⟨i1, i2⟩ := indexedSubset_spec w.hi _ _ _ pv.1 hsi
  obtain ⟨l1, l2⟩ := indexedSubset_spec w.hl _ _ _ pv.2 hsl
  obtain ⟨rfl, hmk⟩ := mkChecked_ok _ _ _ _ hr
  obtain ⟨v1, v2, _⟩ := setSlot_spec w hv b ⟨si, sl⟩ ⟨i1, l1⟩
  refine ⟨v1, ?_⟩
  simp only [SOp.runV, bind_ok, ofOpt_ok, require_ok, pure_ok, decide_eq_true_eq]
  refine ⟨_, absD_get w a p hp, (), by rw [absD_length]; exact hb, _, ?_, v2.symm⟩
  simp only [LabeledData.indexedSubset, PLabeled.resolve, bind_ok]
  exact ⟨_, i2, _, l2, hmk⟩

theorem sim_mapInputs (w w' : World ι κ) (hv : w.Valid) (a b : Nat) (f : ι → ι) (sh : Shape)
    (h : w.transformInputs a b f sh = .ok w') :
    w'.Valid ∧ (SOp.mapInputs a b f sh : SOp ι κ).runV w.absD = .ok w'.absD := by
  simp only [transformInputs, bind_ok, require_ok, pure_ok, decide_eq_true_eq] at h
  obtain ⟨p, hp, _, hb, r, hr, rfl⟩ := h
  have pv := slot_valid w hv a p hp
  obtain ⟨rfl, hmk⟩ := mkChecked_ok _ _ _ _ hr
  have ei := transform_ext w.hi w.hi p.inputs f sh
  have el : Ext w.hl w.hl p.labels (p.labels.resolve w.hl) := ⟨⟨[], by simp⟩, pv.2, rfl⟩
  obtain ⟨v1, v2, _⟩ := update_spec w hv b _ _ _ _ _ _ ei el
  refine ⟨v1, ?_⟩
  simp only [SOp.runV, bind_ok, ofOpt_ok, require_ok, pure_ok, decide_eq_true_eq]
  refine ⟨_, absD_get w a p hp, (), by rw [absD_length]; exact hb, _, ?_, v2.symm⟩
  simp only [LabeledData.transformInputs, PLabeled.resolve] at hmk ⊢
  rw [ei.res] at hmk
  exact hmk

theorem sim_mapLabels (w w' : World ι κ) (hv : w.Valid) (a b : Nat) (f : κ → κ) (sh : Shape)
    (h : w.transformLabels a b f sh = .ok w') :
    w'.Valid ∧ (SOp.mapLabels a b f sh : SOp ι κ).runV w.absD = .ok w'.absD := by
  simp only [transformLabels, bind_ok, require_ok, pure_ok, decide_eq_true_eq] at h
  obtain ⟨p, hp, _, hb, r, hr, rfl⟩ := h
  have pv := slot_valid w hv a p hp
  obtain ⟨rfl, hmk⟩ := mkChecked_ok _ _ _ _ hr
  have el := transform_ext w.hl w.hl p.labels f sh
  have ei : Ext w.hi w.hi p.inputs (p.inputs.resolve w.hi) := ⟨⟨[], by simp⟩, pv.1, rfl⟩
  obtain ⟨v1, v2, _⟩ := update_spec w hv b _ _ _ _ _ _ ei el
  refine ⟨v1, ?_⟩
  simp only [SOp.runV, bind_ok, ofOpt_ok, require_ok, pure_ok, decide_eq_true_eq]
  refine ⟨_, absD_get w a p hp, (), by rw [absD_length]; exact hb, _, ?_, v2.symm⟩
  simp only [LabeledData.transformLabels, PLabeled.resolve] at hmk ⊢
  rw [el.res] at hmk
  exact hmk

theorem sim_view (w w' : World ι κ) (hv : w.Valid) (k a : Nat) (h : w.mkView k a = .ok w') :
    w'.Valid ∧ w'.absD = w.absD := by
  simp only [mkView, bind_ok, require_ok, pure_ok] at h
  obtain ⟨p, hp, _, _, rfl⟩ := h
  refine ⟨⟨hv.1, ?_⟩, rfl⟩
  intro pv hpv
  rcases List.mem_or_eq_of_mem_set hpv with hpv | hpv
  · exact hv.2 pv hpv
  · simp only [Option.some.injEq] at hpv; subst hpv; exact slot_valid w hv a p hp

theorem view_valid (w : World ι κ) (hv : w.Valid) (k : Nat) (pv : PView) (h : w.view k = .ok pv) : pv.ds.valid w.hi w.hl := by
  unfold view at h
  split at h
  · rename_i pv' hk
    simp only [Except.ok.injEq] at h; subst h
    exact hv.2 _ (List.mem_of_getElem? hk)
  · simp at h

theorem sim_viewSubset (w w' : World ι κ) (hv : w.Valid) (k k2 : Nat) (idx : List Nat) (h : w.viewSubset k k2 idx = .ok w') :
    w'.Valid ∧ w'.absD = w.absD := by
  simp only [viewSubset, bind_ok, require_ok, pure_ok] at h
  obtain ⟨pv, hpv, _, _, s, _, rfl⟩ := h
  refine ⟨⟨hv.1, ?_⟩, rfl⟩
  intro q hq
  rcases List.mem_or_eq_of_mem_set hq with hq | hq
  · exact hv.2 q hq
  · simp only [Option.some.injEq] at hq; subst hq; exact view_valid w hv k pv hpv

theorem sim_splitAt (w w' : World ι κ) (hv : w.Valid) (a b k : Nat) (h : w.splitAtElement a b k = .ok w') :
    w'.Valid ∧ (SOp.splitAt a b k : SOp ι κ).runV w.absD = .ok w'.absD := by
  simp only [splitAtElement, bind_ok, require_ok, ofOpt_ok, decide_eq_true_eq] at h
  obtain ⟨p, hp, _, hab, _, hk, ⟨bp, bs⟩, hscan, sp, hsp, h⟩ := h
  have hx := absD_get w a p hp
  have hab' : (decide (b < w.absD.length) && a != b) = true := by rw [absD_length]; exact hab
  by_cases h0 : sp = 0
  · simp only [h0, ne_eq, not_true_eq_false, if_false] at h
    obtain ⟨v1, v2⟩ := sim_splice w w' hv a b bp h
    refine ⟨v1, ?_⟩
    simp only [SOp.runV, bind_ok, ofOpt_ok, require_ok, pure_ok] at v2 ⊢
    obtain ⟨x, hx', _, _, ⟨l, r⟩, hspl, hres⟩ := v2
    rw [hx] at hx'
    cases hx'
    refine ⟨_, hx, (), hab', (l, r), ?_, hres⟩
    simp only [LabeledData.splitAtElement, bind_ok, require_ok, ofOpt_ok, decide_eq_true_eq]
    refine ⟨(), hk, (bp, bs), hscan, sp, hsp, ?_⟩
    simp only [h0, ne_eq, not_true_eq_false, if_false]
    exact hspl
  · simp only [h0, ne_eq, not_false_eq_true, if_true, bind_ok] at h
    obtain ⟨w1, hsb, hspl⟩ := h
    obtain ⟨u1, u2, _, x1, u3, u4⟩ := sim_splitBatch w w1 hv a bp sp hsb
    obtain ⟨v1, v2⟩ := sim_splice w1 w' u1 a b (bp + 1) hspl
    refine ⟨v1, ?_⟩
    simp only [SOp.runV, bind_ok, ofOpt_ok, require_ok, pure_ok] at u2 v2 ⊢
    obtain ⟨x, hx', x1', hx1, hres1⟩ := u2
    rw [hx] at hx'
    cases hx'
    obtain ⟨y, hy, _, _, ⟨l, r⟩, hspl', hres⟩ := v2
    have halt : a < w.absD.length := by
      rcases Nat.lt_or_ge a w.absD.length with hlt | hge
      · exact hlt
      · rw [List.getElem?_eq_none hge] at hx; simp at hx
    have hy' : y = x1' := by
      rw [← hres1] at hy
      simp [List.getElem?_set, halt] at hy
      exact hy.symm
    subst hy'
    refine ⟨_, hx, (), hab', (l, r), ?_, ?_⟩
    · simp only [LabeledData.splitAtElement, bind_ok, require_ok, ofOpt_ok, decide_eq_true_eq]
      refine ⟨(), hk, (bp, bs), hscan, sp, hsp, ?_⟩
      simp only [h0, ne_eq, not_false_eq_true, if_true, bind_ok]
      exact ⟨y, hx1, hspl'⟩
    · rw [← hres, ← hres1, List.set_set]

/-- **simulation**: on a valid world every structural operation keeps the world valid and acts on the values of the slots
exactly like the value-level operation -/
theorem SOp.simulates (w w' : World ι κ) (hv : w.Valid) (op : SOp ι κ) (h : op.run w = .ok w') :
    w'.Valid ∧ op.runV w.absD = .ok w'.absD := by
  cases op with
  | copy a b => exact sim_copy w w' hv a b h
  | swap a b => exact sim_swap w w' hv a b h
  | indep a => exact sim_indep w w' hv a h
  | splitBatch a b k => exact ⟨(sim_splitBatch w w' hv a b k h).1, (sim_splitBatch w w' hv a b k h).2.1⟩
  | splice a b k => exact sim_splice w w' hv a b k h
  | repartition a sizes => exact sim_repartition w w' hv a sizes h
  | splitAt a b k => exact sim_splitAt w w' hv a b k h
  | append a b => exact sim_append w w' hv a b h
  | pushBack a b i => exact sim_pushBack w w' hv a b i h
  | subset a b idx => exact sim_subset w w' hv a b idx h
  | reorder a idx => exact sim_reorder w w' hv a idx h
  | store a x => exact sim_store w w' hv a x h
  | mapInputs a b f sh => exact sim_mapInputs w w' hv a b f sh h
  | mapLabels a b f sh => exact sim_mapLabels w w' hv a b f sh h
  | view k a =>
    obtain ⟨v1, v2⟩ := sim_view w w' hv k a h
    exact ⟨v1, by simp [SOp.runV, v2, pure, Except.pure]⟩
  | viewSubset k k2 idx =>
    obtain ⟨v1, v2⟩ := sim_viewSubset w w' hv k k2 idx h
    exact ⟨v1, by simp [SOp.runV, v2, pure, Except.pure]⟩

end World

/-- run a history on the sharing model -/
def runAll (w : World ι κ) : List (SOp ι κ) → R (World ι κ)
  | [] => pure w
  | op :: ops => do runAll (← op.run w) ops

/-- run a history on values -/
def runAllV (s : List (LabeledData ι κ)) : List (SOp ι κ) → R (List (LabeledData ι κ))
  | [] => pure s
  | op :: ops => do runAllV (← op.runV s) ops

/-- **every finite history**: whatever sequence of structural operations succeeds on the shared batches, the values of the
slots are those the same sequence computes on independent value-level datasets -- sharing is not observable through
structural operations (copying a dataset, taking subsets, appending, views … never let one dataset change another) -/
theorem runAll_simulates (ops : List (SOp ι κ)) : ∀ (w w' : World ι κ), w.Valid → runAll w ops = .ok w' →
    w'.Valid ∧ runAllV w.absD ops = .ok w'.absD := by
  induction ops with
  | nil =>
    intro w w' hv h
    simp only [runAll, pure_ok] at h
    subst h
    exact ⟨hv, rfl⟩
  | cons op ops ih =>
    intro w w' hv h
    simp only [runAll, bind_ok] at h
    obtain ⟨w1, h1, h2⟩ := h
    obtain ⟨v1, v2⟩ := World.SOp.simulates w w1 hv op h1
    obtain ⟨u1, u2⟩ := ih w1 w' v1 h2
    refine ⟨u1, ?_⟩
    simp only [runAllV, bind_ok]
    exact ⟨_, v2, u2⟩

end SharkVerif.Dataset.Shared
