/-
`HypervolumeCalculatorMDHOY` (model: Model/HOY.lean) against the cell-counting specification `hvSpec`.

`streamSpec low up pts cover` is the number of unit cells of the box `[low, up')`, `up'` = `up` with the
last coordinate replaced by `cover`, that are dominated by a point of `pts`.  `Reg m low up pts cover` is the
invariant of `stream` (dimensions, `low ≤ up` in the first `m-1` coordinates, every point `partCovers` the
region, `low_last ≤ p_last < cover`, points sorted by the last coordinate).

Proved here (no `sorry`, core Lean only; index tools in Lemmas/HOYBasic.lean):
* S1 the cover scan: `scan_found`, `slab_full`, `scan_none_take`;
* S2 the pile / trellis case: `signedAll_closed_form`, `computeTrellis_eq` (HOYBasic), `chunk_count`,
  `trellisGo_eq`, `trellis_eq_spec`;
* S3 the split case for a bound inside the region: `streamSpec_split`, `hvCount_filter_partCovers`,
  `Reg.childUp`, `Reg.childLow`;
* `stream_eq_spec_partial`: `stream = streamSpec` (for every dimension `m ≥ 1`, every `sqrtN`, `split`, fuel)
  on every run accepted by the Boolean run checker `streamOk`: the fuel is not exhausted and every
  `(split, bound)` returned by `findBound` has `split < m-1` and `low_split ≤ bound ≤ up_split`;
* S4 the entry: `hvSpec_filter_inside` (entry filter in dimension `m`), `foldl_pmin_le`, `top_reg`
  (sort = permutation, doubling via `hvSpec_scale`, `regLow` = component-wise minimum), and
  `hvHoy_eq_spec_partial`: `hvHoy S r = hvSpec S r` whenever `hoyOk S r = true` (`hoyOk` = `streamOk` on
  the arguments of the top-level call; executable, accepts 94-100 % of random 3..5-dimensional inputs).

NOT proved (exactly what separates `hvHoy_eq_spec_partial` from the full theorem): `hoyOk S r = true` for all
inputs.  It is FALSE in general: `findBound` does not clear `noBoundaries` when `split` advances, so the
median taken for coordinate `split` may be a value collected for an earlier coordinate and lie outside
`[low_split, up_split]` (e.g. S = [[10,0,0,0,1],[10,0,1,1,0],[0,2,1,0,2],[0,0,3,3,1],[0,1,0,2,3]],
r = [20,4,4,4,4]).  On runs from `hvHoy` such bounds are harmless (no mismatch with `hvSpec` found in 12000
random runs): for a coordinate `d` above the entry `split` the region still has `low_d` = global minimum and
`up_d = r_d`; a bound `≤ low_d` adds an uncovered slab and an empty child, a bound `≥ up_d` adds a uniformly
covered slab that the child of negative extent subtracts again (its result is linear in the extent of `d`).
Proving this needs a signed-extent generalisation of `streamSpec` plus the depth bound
`fuel ≥ n + Σ_p #{j | low_j < p_j} + (m - split)`.  Full statement:

  theorem hvHoy_eq_spec (S : List Pt) (r : Pt) (hS : ∀ p ∈ S, p.length = r.length) (hr : 1 ≤ r.length) :
      hvHoy S r = (hvSpec S r : Int)
-/
import SharkVerif.Lemmas.HOYBasic
import SharkVerif.Lemmas.Scale
namespace SharkVerif.HOY
open SharkVerif.Pareto SharkVerif.HV

/-! ### specification of `stream` -/

/-- dominated cells of the region below `cover` -/
def streamSpec (low up : Pt) (pts : List Pt) (cover : Int) : Nat :=
  hvCount low pts (up.set (up.length - 1) cover)

/-- the invariant of `stream` -/
structure Reg (m : Nat) (low up : Pt) (pts : List Pt) (cover : Int) : Prop where
  hm : 1 ≤ m
  hlow : low.length = m
  hup : up.length = m
  hlen : ∀ p ∈ pts, p.length = m
  hbox : ∀ i, i < m - 1 → at' low i ≤ at' up i
  hpc : ∀ p ∈ pts, ∀ i, i < m - 1 → at' p i < at' up i
  hlast : ∀ p ∈ pts, at' low (m - 1) ≤ lastC p ∧ lastC p < cover
  hsort : pts.Pairwise (fun a b => lastC a ≤ lastC b)

theorem lastC_of_len {p : Pt} {m : Nat} (h : p.length = m) : lastC p = at' p (m - 1) := by
  rw [lastC_eq_at', h]

/-! ### the body of `stream` after the cover scan -/

def body (rec : Pt → Pt → List Pt → Nat → Int → Int) (sqrtN : Nat) (low up : Pt) (pts : List Pt)
    (coverIndex : Nat) (split : Nat) (cover' result : Int) : Int :=
  if coverIndex == 0 then result
  else
    let pre := pts.take coverIndex
    let piles := pre.map fun p => isPile p low
    if piles.all Option.isSome then
      result + trellisGo low up cover' (pre.zip (piles.map fun o => o.getD 0)) up
    else
      let (split, bound) := findBound sqrtN low pre (low.length + 1) split [] []
      let upC := up.set split bound
      let lowC := low.set split bound
      let childUp := pre.filter fun p => partCovers p upC
      let childLow := pre.filter fun p => partCovers p up
      let r1 := if childUp.isEmpty then 0 else rec low upC childUp split cover'
      let r2 := if childLow.isEmpty then 0 else rec lowC up childLow split cover'
      result + r1 + r2

/-- run checker for the body: in the split case the bound lies inside the region and both children are fine -/
def bodyOk (rec : Pt → Pt → List Pt → Nat → Int → Bool) (sqrtN : Nat) (low up : Pt) (pts : List Pt)
    (coverIndex : Nat) (split : Nat) (cover' : Int) : Bool :=
  if coverIndex == 0 then true
  else
    let pre := pts.take coverIndex
    let piles := pre.map fun p => isPile p low
    if piles.all Option.isSome then true
    else
      let (split, bound) := findBound sqrtN low pre (low.length + 1) split [] []
      let upC := up.set split bound
      let lowC := low.set split bound
      let childUp := pre.filter fun p => partCovers p upC
      let childLow := pre.filter fun p => partCovers p up
      decide (split < low.length - 1) && decide (at' low split ≤ bound) && decide (bound ≤ at' up split) &&
        (childUp.isEmpty || rec low upC childUp split cover') &&
        (childLow.isEmpty || rec lowC up childLow split cover')

/-- **run checker**: `true` iff the run of `stream` does not exhaust its fuel and every bound returned by
`findBound` lies within the current region, in a coordinate `< m-1` -/
def streamOk (sqrtN : Nat) : Nat → Pt → Pt → List Pt → Nat → Int → Bool
  | 0, _, _, _, _, _ => false
  | fuel + 1, low, up, pts, split, cover =>
    let idx := pts.findIdx fun p => covers p low
    let (cover', coverIndex) :=
      if idx < pts.length then (lastC (pts.getD idx []), idx) else (cover, pts.length)
    let coverIndex := coverIndex - ((pts.take coverIndex).filter fun p => lastC p == cover').length
    bodyOk (streamOk sqrtN fuel) sqrtN low up pts coverIndex split cover'

section unfold
variable (sqrtN fuel : Nat) (low up : Pt) (pts : List Pt) (split : Nat) (cover : Int)

theorem stream_found (h : pts.findIdx (fun p => covers p low) < pts.length) :
    stream sqrtN (fuel + 1) low up pts split cover =
      body (stream sqrtN fuel) sqrtN low up pts
        (pts.findIdx (fun p => covers p low) -
          ((pts.take (pts.findIdx (fun p => covers p low))).filter fun p =>
            lastC p == lastC (pts.getD (pts.findIdx (fun p => covers p low)) [])).length)
        split (lastC (pts.getD (pts.findIdx (fun p => covers p low)) []))
        (getMeasure low up * (cover - lastC (pts.getD (pts.findIdx (fun p => covers p low)) []))) := by
  rw [stream]
  simp only [h, if_true]
  rfl

theorem stream_none (h : ¬ pts.findIdx (fun p => covers p low) < pts.length) :
    stream sqrtN (fuel + 1) low up pts split cover =
      body (stream sqrtN fuel) sqrtN low up pts
        (pts.length - ((pts.take pts.length).filter fun p => lastC p == cover).length)
        split cover 0 := by
  rw [stream]
  simp only [h, if_false]
  rfl

theorem streamOk_found (h : pts.findIdx (fun p => covers p low) < pts.length) :
    streamOk sqrtN (fuel + 1) low up pts split cover =
      bodyOk (streamOk sqrtN fuel) sqrtN low up pts
        (pts.findIdx (fun p => covers p low) -
          ((pts.take (pts.findIdx (fun p => covers p low))).filter fun p =>
            lastC p == lastC (pts.getD (pts.findIdx (fun p => covers p low)) [])).length)
        split (lastC (pts.getD (pts.findIdx (fun p => covers p low)) [])) := by
  rw [streamOk]
  simp only [h, if_true]

theorem streamOk_none (h : ¬ pts.findIdx (fun p => covers p low) < pts.length) :
    streamOk sqrtN (fuel + 1) low up pts split cover =
      bodyOk (streamOk sqrtN fuel) sqrtN low up pts
        (pts.length - ((pts.take pts.length).filter fun p => lastC p == cover).length)
        split cover := by
  rw [streamOk]
  simp only [h, if_false]

end unfold

/-! ### S3: cutting the region -/

/-- points that do not `partCovers` the upper corner cover no cell of the region -/
theorem hvCount_filter_partCovers {m : Nat} {lo up : Pt} {S : List Pt} (c : Int) (hm : 1 ≤ m)
    (hup : up.length = m) (hS : ∀ p ∈ S, p.length = m) :
    hvCount lo (S.filter fun p => partCovers p up) (up.set (up.length - 1) c) =
      hvCount lo S (up.set (up.length - 1) c) := by
  unfold hvCount
  apply List.countP_congr
  intro z hz
  have hz' := mem_cells_idx.mp hz
  simp only [List.length_set] at hz'
  simp only [covered_iff]
  constructor
  · rintro ⟨p, hp, h⟩
    exact ⟨p, (List.mem_filter.mp hp).1, h⟩
  · rintro ⟨p, hp, h⟩
    refine ⟨p, List.mem_filter.mpr ⟨hp, ?_⟩, h⟩
    rw [partCovers_iff]
    intro i hi
    rw [hS p hp] at hi
    have h1 := (leAll_iff_idx.mp h).2 i (by omega)
    have h2 := (hz'.2.2 i (by omega)).2
    rw [at'_set_ne _ _ (by omega)] at h2
    omega

theorem streamSpec_split {m : Nat} {low up : Pt} {pts : List Pt} {c : Int} (s : Nat) (b : Int)
    (hm : 1 ≤ m) (hlow : low.length = m) (hup : up.length = m) (hS : ∀ p ∈ pts, p.length = m)
    (hs : s < m - 1) (h1 : at' low s ≤ b) (h2 : b ≤ at' up s) :
    streamSpec low up pts c =
      streamSpec low (up.set s b) (pts.filter fun p => partCovers p (up.set s b)) c +
      streamSpec (low.set s b) up (pts.filter fun p => partCovers p up) c := by
  unfold streamSpec
  have e1 := hvCount_filter_partCovers (lo := low) (up := up.set s b) (S := pts) c hm (by simpa using hup) hS
  have e2 := hvCount_filter_partCovers (lo := low.set s b) (up := up) (S := pts) c hm hup hS
  rw [e1, e2]
  unfold hvCount
  rw [countP_cells_cut (covered pts) s b (by simp [hlow, hup]) (by omega) h1
    (by rw [at'_set_ne _ _ (by omega)]; exact h2)]
  simp only [List.length_set]
  rw [List.set_comm _ _ (by omega : up.length - 1 ≠ s)]


/-! ### S1: the cover scan -/

theorem findIdx_split {α} (f : α → Bool) (d : α) : ∀ l : List α, l.findIdx f < l.length →
    ∃ q rest, l = l.take (l.findIdx f) ++ q :: rest ∧ f q = true ∧ l.getD (l.findIdx f) d = q ∧
      ∀ p ∈ l.take (l.findIdx f), f p = false
  | [], h => by simp at h
  | a :: l, h => by
    by_cases ha : f a = true
    · have e : (a :: l).findIdx f = 0 := by simp [List.findIdx_cons, ha]
      rw [e]
      exact ⟨a, l, by simp, ha, by simp, by simp⟩
    · have e : (a :: l).findIdx f = l.findIdx f + 1 := by simp [List.findIdx_cons, ha]
      rw [e] at h ⊢
      obtain ⟨q, rest, h1, h2, h3, h4⟩ := findIdx_split f d l (by simpa using h)
      refine ⟨q, rest, ?_, h2, ?_, ?_⟩
      · simp only [List.take_succ_cons, List.cons_append]
        exact congrArg (List.cons a) h1
      · simpa using h3
      · intro p hp
        simp only [List.take_succ_cons, List.mem_cons] at hp
        rcases hp with rfl | hp
        · simpa using ha
        · exact h4 p hp

theorem findIdx_none {α} (f : α → Bool) (l : List α) (h : ¬ l.findIdx f < l.length) :
    ∀ p ∈ l, f p = false := by
  intro p hp
  cases hf : f p with
  | false => rfl
  | true => exact absurd (List.findIdx_lt_length.mpr ⟨p, hp, hf⟩) h

theorem take_sub_filter (g : Pt → Int) (c : Int) : ∀ T : List Pt, T.Pairwise (fun a b => g a ≤ g b) →
    (∀ p ∈ T, g p ≤ c) →
    T.take (T.length - (T.filter fun p => g p == c).length) = T.filter fun p => decide (g p < c)
  | [], _, _ => by simp
  | a :: T, hs, hc => by
    have hs' := List.pairwise_cons.mp hs
    have ih := take_sub_filter g c T hs'.2 (fun p hp => hc p (List.mem_cons_of_mem _ hp))
    have hk : (T.filter fun p => g p == c).length ≤ T.length := List.length_filter_le _ _
    by_cases ha : g a < c
    · have hne : (g a == c) = false := by simp; omega
      simp only [List.filter_cons, hne, ha, decide_true, if_true, Bool.false_eq_true, if_false,
        List.length_cons]
      rw [show T.length + 1 - (T.filter fun p => g p == c).length =
        (T.length - (T.filter fun p => g p == c).length) + 1 by omega]
      rw [List.take_succ_cons, ih]
    · have hac : g a = c := by have := hc a List.mem_cons_self; omega
      have hall : ∀ p ∈ T, g p = c := fun p hp => by
        have := hs'.1 p hp
        have := hc p (List.mem_cons_of_mem _ hp)
        omega
      have f1 : (a :: T).filter (fun p => g p == c) = a :: T := by
        rw [List.filter_eq_self]
        intro p hp
        rcases List.mem_cons.mp hp with rfl | hp
        · simp [hac]
        · simp [hall p hp]
      have f2 : (a :: T).filter (fun p => decide (g p < c)) = [] := by
        rw [List.filter_eq_nil_iff]
        intro p hp
        rcases List.mem_cons.mp hp with rfl | hp
        · simp; omega
        · simp [hall p hp]
      rw [f1, f2]
      simp

theorem Reg.sub {m : Nat} {low up : Pt} {pts pre : List Pt} {cover c : Int} (h : Reg m low up pts cover)
    (hsub : pre.Sublist pts) (hc : ∀ p ∈ pre, lastC p < c) : Reg m low up pre c where
  hm := h.hm
  hlow := h.hlow
  hup := h.hup
  hlen p hp := h.hlen p (hsub.subset hp)
  hbox := h.hbox
  hpc p hp := h.hpc p (hsub.subset hp)
  hlast p hp := ⟨(h.hlast p (hsub.subset hp)).1, hc p hp⟩
  hsort := h.hsort.sublist hsub

theorem getMeasure_set_last {m : Nat} {low up : Pt} (hlow : low.length = m) (a b : Int) :
    getMeasure (low.set (m - 1) a) (up.set (m - 1) b) = getMeasure low up := by
  rw [getMeasure_eq, getMeasure_eq]
  simp only [List.length_set, hlow]
  apply prodR_congr
  intro i hi
  rw [at'_set_ne _ _ (by omega), at'_set_ne _ _ (by omega)]

/-- the whole slab above the last coordinate `c` of a covering point `q` is dominated -/
theorem slab_full {m : Nat} {low up : Pt} {pts : List Pt} {cover : Int} (h : Reg m low up pts cover)
    {q : Pt} (hq : q ∈ pts) (hcov : covers q low = true) :
    (((cells (low.set (m - 1) (lastC q)) (up.set (m - 1) cover)).countP (covered pts) : Nat) : Int) =
      getMeasure low up * (cover - lastC q) := by
  have hqm := h.hlen q hq
  have hm := h.hm
  have hlow := h.hlow
  have hup := h.hup
  have hall : ∀ z ∈ cells (low.set (m - 1) (lastC q)) (up.set (m - 1) cover), covered pts z = true := by
    intro z hz
    have hz' := mem_cells_idx.mp hz
    simp only [List.length_set] at hz'
    refine covered_iff.mpr ⟨q, hq, leAll_iff_idx.mpr ⟨by omega, ?_⟩⟩
    intro i hi
    have hzi := (hz'.2.2 i hi).1
    by_cases him : i = m - 1
    · subst him
      rw [at'_set_eq _ _ (by omega)] at hzi
      rw [← lastC_of_len hqm]
      exact hzi
    · rw [at'_set_ne _ _ (fun e => him e.symm)] at hzi
      have := covers_iff.mp hcov i (by omega)
      omega
  rw [List.countP_eq_length.mpr hall]
  have hle : leAll (low.set (m - 1) (lastC q)) (up.set (m - 1) cover) = true := by
    refine leAll_iff_idx.mpr ⟨by simp [hlow, hup], ?_⟩
    intro i hi
    simp only [List.length_set] at hi
    by_cases him : i = m - 1
    · subst him
      rw [at'_set_eq _ _ (by omega), at'_set_eq _ _ (by omega)]
      exact Int.le_of_lt (h.hlast q hq).2
    · rw [at'_set_ne _ _ (fun e => him e.symm), at'_set_ne _ _ (fun e => him e.symm)]
      exact h.hbox i (by omega)
  rw [length_cells_self hle, boxVol_eq_measure (by simp [hlow, hup]) (by simp; omega)]
  simp only [List.length_set, hlow]
  rw [getMeasure_set_last hlow, at'_set_eq _ _ (by omega), at'_set_eq _ _ (by omega)]

theorem scan_found {m : Nat} {low up : Pt} {pts : List Pt} {cover : Int} (h : Reg m low up pts cover)
    (hidx : pts.findIdx (fun p => covers p low) < pts.length) :
    let idx := pts.findIdx (fun p => covers p low)
    let c := lastC (pts.getD idx [])
    let pre := pts.take (idx - ((pts.take idx).filter fun p => lastC p == c).length)
    Reg m low up pre c ∧ (∀ p ∈ pre, covers p low = false) ∧
      ((streamSpec low up pts cover : Nat) : Int) = getMeasure low up * (cover - c) + streamSpec low up pre c := by
  intro idx c pre
  obtain ⟨q, rest, hsplit, hq, hget, hno⟩ := findIdx_split (fun p => covers p low) [] pts hidx
  have hc : c = lastC q := by show lastC (pts.getD idx []) = lastC q; rw [hget]
  have hqmem : q ∈ pts := by rw [hsplit]; simp
  have hsort := h.hsort
  rw [hsplit, List.pairwise_append] at hsort
  have hTle : ∀ p ∈ pts.take idx, lastC p ≤ c := fun p hp => by
    rw [hc]; exact hsort.2.2 p hp q List.mem_cons_self
  have hTlen : (pts.take idx).length = idx := by
    rw [List.length_take]; omega
  have hpre : pre = (pts.take idx).filter fun p => decide (lastC p < c) := by
    rw [← take_sub_filter lastC c (pts.take idx) hsort.1 hTle, hTlen, List.take_take]
    show pts.take _ = pts.take _
    congr 1
    omega
  have hsub : pre.Sublist pts := List.take_sublist _ _
  have hprelt : ∀ p ∈ pre, lastC p < c := fun p hp => by
    rw [hpre] at hp
    simpa using (List.mem_filter.mp hp).2
  have hmem : ∀ p ∈ pts, lastC p < c → p ∈ pre := by
    intro p hp hlt
    rw [hpre]
    rw [hsplit] at hp
    rcases List.mem_append.mp hp with hp | hp
    · exact List.mem_filter.mpr ⟨hp, by simpa using hlt⟩
    · rcases List.mem_cons.mp hp with rfl | hp
      · omega
      · have := (List.pairwise_cons.mp hsort.2.1).1 p hp
        omega
  refine ⟨h.sub hsub hprelt, ?_, ?_⟩
  · intro p hp
    rw [hpre] at hp
    exact hno p (List.mem_filter.mp hp).1
  · have hm := h.hm
    have hlow := h.hlow
    have hup := h.hup
    unfold streamSpec hvCount
    rw [hup]
    have hcl := h.hlast q hqmem
    rw [countP_cells_cut (covered pts) (m - 1) c (by simp [hlow, hup]) (by omega) (by rw [hc]; exact hcl.1)
      (by rw [at'_set_eq _ _ (by omega), hc]; exact Int.le_of_lt hcl.2)]
    rw [List.set_set, Int.natCast_add, hc, slab_full h hqmem hq, Int.add_comm]
    congr 2
    apply List.countP_congr
    intro z hz
    have hz' := mem_cells_idx.mp hz
    simp only [List.length_set] at hz'
    have hzl := (hz'.2.2 (m - 1) (by omega)).2
    rw [at'_set_eq _ _ (by omega)] at hzl
    simp only [covered_iff]
    constructor
    · rintro ⟨p, hp, hpz⟩
      refine ⟨p, hmem p hp ?_, hpz⟩
      have := (leAll_iff_idx.mp hpz).2 (m - 1) (by omega)
      rw [lastC_of_len (h.hlen p hp), hc]
      omega
    · rintro ⟨p, hp, hpz⟩
      exact ⟨p, hsub.subset hp, hpz⟩

theorem scan_none_take {m : Nat} {low up : Pt} {pts : List Pt} {cover : Int} (h : Reg m low up pts cover) :
    pts.take (pts.length - ((pts.take pts.length).filter fun p => lastC p == cover).length) = pts := by
  have : ((pts.take pts.length).filter fun p => lastC p == cover) = [] := by
    rw [List.filter_eq_nil_iff]
    intro p hp
    rw [List.take_length] at hp
    have := (h.hlast p hp).2
    simp; omega
  rw [this]
  simp


/-! ### S2: the pile / trellis case -/

/-- the cell sticks out of the trellis box `[low, tr)` in some coordinate `< m-1` -/
def trHit (m : Nat) (tr z : Pt) : Bool := (List.range (m - 1)).any fun j => decide (at' tr j ≤ at' z j)

/-- the pile `e.1` with pile dimension `e.2` dominates the cell -/
def ptHit (m : Nat) (e : Pt × Nat) (z : Pt) : Bool :=
  decide (at' e.1 (m - 1) ≤ at' z (m - 1)) && decide (at' e.1 e.2 ≤ at' z e.2)

def hit (m : Nat) (tr : Pt) (L : List (Pt × Nat)) (z : Pt) : Bool :=
  trHit m tr z || L.any fun e => ptHit m e z

theorem trHit_iff {m : Nat} {tr z : Pt} : trHit m tr z = true ↔ ∃ j, j < m - 1 ∧ at' tr j ≤ at' z j := by
  simp [trHit, List.any_eq_true]

theorem countP_add_not {α} (p : α → Bool) : ∀ l : List α, l.countP p + l.countP (fun z => !p z) = l.length
  | [] => rfl
  | a :: l => by
    simp only [List.countP_cons, List.length_cons]
    have := countP_add_not p l
    cases p a <;> simp <;> omega

/-- closed form of one summand of the trellis loop: the cells of the slab `[a, b)` outside the trellis box -/
theorem chunk_count {m : Nat} {low up tr : Pt} (hm : 1 ≤ m) (hlow : low.length = m) (hup : up.length = m)
    (htr : tr.length = m) (h1 : ∀ i, i < m - 1 → at' low i ≤ at' tr i)
    (h2 : ∀ i, i < m - 1 → at' tr i ≤ at' up i) (a b : Int) (hab : a ≤ b) :
    (((cells (low.set (m - 1) a) (up.set (m - 1) b)).countP (trHit m tr) : Nat) : Int) =
      computeTrellis low up tr * (b - a) := by
  have hAB : leAll (low.set (m - 1) a) (up.set (m - 1) b) = true := by
    refine leAll_iff_idx.mpr ⟨by simp [hlow, hup], ?_⟩
    intro i hi
    simp only [List.length_set] at hi
    by_cases him : i = m - 1
    · subst him
      rw [at'_set_eq _ _ (by omega), at'_set_eq _ _ (by omega)]
      exact hab
    · rw [at'_set_ne _ _ (fun e => him e.symm), at'_set_ne _ _ (fun e => him e.symm)]
      exact Int.le_trans (h1 i (by omega)) (h2 i (by omega))
  have hAT : leAll (low.set (m - 1) a) (tr.set (m - 1) b) = true := by
    refine leAll_iff_idx.mpr ⟨by simp [hlow, htr], ?_⟩
    intro i hi
    simp only [List.length_set] at hi
    by_cases him : i = m - 1
    · subst him
      rw [at'_set_eq _ _ (by omega), at'_set_eq _ _ (by omega)]
      exact hab
    · rw [at'_set_ne _ _ (fun e => him e.symm), at'_set_ne _ _ (fun e => him e.symm)]
      exact h1 i (by omega)
  have hneg : (cells (low.set (m - 1) a) (up.set (m - 1) b)).countP (fun z => !trHit m tr z) =
      (cells (low.set (m - 1) a) (tr.set (m - 1) b)).countP (fun _ => true) := by
    apply countP_eq_of_nodup (nodup_cells _ _) (nodup_cells _ _)
    intro z
    simp only [mem_cells_idx, List.length_set, and_true, Bool.not_eq_true', ← Bool.not_eq_true, trHit_iff]
    constructor
    · rintro ⟨⟨hl, hh, hb⟩, hn⟩
      refine ⟨hl, by omega, ?_⟩
      intro i hi
      refine ⟨(hb i hi).1, ?_⟩
      by_cases him : i = m - 1
      · subst him
        have := (hb (m - 1) hi).2
        rw [at'_set_eq _ _ (by omega)] at this
        rw [at'_set_eq _ _ (by omega)]
        exact this
      · rw [at'_set_ne _ _ (fun e => him e.symm)]
        have : ¬ at' tr i ≤ at' z i := fun hle => hn ⟨i, by omega, hle⟩
        omega
    · rintro ⟨hl, hh, hb⟩
      refine ⟨⟨hl, by omega, ?_⟩, ?_⟩
      · intro i hi
        refine ⟨(hb i hi).1, ?_⟩
        have := (hb i hi).2
        by_cases him : i = m - 1
        · subst him
          rw [at'_set_eq _ _ (by omega)] at this
          rw [at'_set_eq _ _ (by omega)]
          exact this
        · rw [at'_set_ne _ _ (fun e => him e.symm)] at this
          rw [at'_set_ne _ _ (fun e => him e.symm)]
          have := h2 i (by omega)
          omega
      · rintro ⟨j, hj, hle⟩
        have := (hb j (by omega)).2
        rw [at'_set_ne _ _ (by omega)] at this
        omega
  have hsum := countP_add_not (trHit m tr) (cells (low.set (m - 1) a) (up.set (m - 1) b))
  rw [hneg, List.countP_true] at hsum
  have e1 := length_cells_self hAB
  have e2 := length_cells_self hAT
  rw [boxVol_eq_measure (by simp [hlow, hup]) (by simp; omega)] at e1
  rw [boxVol_eq_measure (by simp [hlow, htr]) (by simp; omega)] at e2
  simp only [List.length_set, hlow] at e1 e2
  rw [getMeasure_set_last hlow, at'_set_eq _ _ (by omega), at'_set_eq _ _ (by omega)] at e1
  rw [getMeasure_set_last hlow, at'_set_eq _ _ (by omega), at'_set_eq _ _ (by omega)] at e2
  rw [computeTrellis_eq, Int.sub_mul, ← getMeasure_eq, ← getMeasure_eq]
  omega

/-- lowering one coordinate of the trellis = one more pile -/
theorem trHit_update {m : Nat} {tr z : Pt} {pl : Nat} (v : Int) (hpl : pl < m - 1) (htr : tr.length = m) :
    trHit m (if v < at' tr pl then tr.set pl v else tr) z = (trHit m tr z || decide (v ≤ at' z pl)) := by
  rw [Bool.eq_iff_iff]
  simp only [Bool.or_eq_true, decide_eq_true_eq, trHit_iff]
  by_cases hv : v < at' tr pl
  · simp only [hv, if_true]
    constructor
    · rintro ⟨j, hj, hle⟩
      rw [at'_set] at hle
      by_cases hjp : pl = j
      · subst hjp
        simp only [true_and, show pl < tr.length by omega, if_pos] at hle
        exact Or.inr hle
      · simp only [hjp, false_and, if_false] at hle
        exact Or.inl ⟨j, hj, hle⟩
    · rintro (⟨j, hj, hle⟩ | hle)
      · refine ⟨j, hj, ?_⟩
        rw [at'_set]
        by_cases hjp : pl = j
        · subst hjp
          simp only [true_and, show pl < tr.length by omega, if_pos]
          omega
        · simp only [hjp, false_and, if_false]
          exact hle
      · refine ⟨pl, hpl, ?_⟩
        rw [at'_set_eq _ _ (by omega)]
        exact hle
  · simp only [hv, if_false]
    constructor
    · intro h; exact Or.inl h
    · rintro (h | hle)
      · exact h
      · exact ⟨pl, hpl, by omega⟩


theorem trellisGo_single (low up : Pt) (cover : Int) (p : Pt) (pl : Nat) (tr : Pt) (h : lastC p < cover) :
    trellisGo low up cover [(p, pl)] tr =
      computeTrellis low up (if at' p pl < at' tr pl then tr.set pl (at' p pl) else tr) * (cover - lastC p) := by
  have h1 : (cover == lastC p) = false := by simp; omega
  simp [trellisGo, h1]

theorem trellisGo_cons_eq (low up : Pt) (cover : Int) (p q : Pt) (pl ql : Nat) (rest : List (Pt × Nat)) (tr : Pt)
    (h : lastC q = lastC p) :
    trellisGo low up cover ((p, pl) :: (q, ql) :: rest) tr =
      trellisGo low up cover ((q, ql) :: rest) (if at' p pl < at' tr pl then tr.set pl (at' p pl) else tr) := by
  rw [trellisGo]
  simp [h]

theorem trellisGo_cons_ne (low up : Pt) (cover : Int) (p q : Pt) (pl ql : Nat) (rest : List (Pt × Nat)) (tr : Pt)
    (h : lastC q ≠ lastC p) (hc : lastC q < cover) :
    trellisGo low up cover ((p, pl) :: (q, ql) :: rest) tr =
      computeTrellis low up (if at' p pl < at' tr pl then tr.set pl (at' p pl) else tr) * (lastC q - lastC p) +
      trellisGo low up cover ((q, ql) :: rest) (if at' p pl < at' tr pl then tr.set pl (at' p pl) else tr) := by
  rw [trellisGo]
  have h2 : (lastC q == cover) = false := by simp; omega
  simp [h, h2]


/-- what the trellis loop needs to know about a pile and its pile dimension -/
def PileOK (m : Nat) (low up : Pt) (cover : Int) (e : Pt × Nat) : Prop :=
  e.1.length = m ∧ e.2 < m - 1 ∧ at' low e.2 ≤ at' e.1 e.2 ∧ at' e.1 e.2 ≤ at' up e.2 ∧ lastC e.1 < cover

theorem hit_cons_eq {m : Nat} {tr p : Pt} {pl : Nat} {rest : List (Pt × Nat)} {z : Pt} (hpl : pl < m - 1)
    (htr : tr.length = m) (hz : at' p (m - 1) ≤ at' z (m - 1)) :
    hit m tr ((p, pl) :: rest) z =
      hit m (if at' p pl < at' tr pl then tr.set pl (at' p pl) else tr) rest z := by
  unfold hit
  rw [trHit_update _ hpl htr]
  simp only [List.any_cons, ptHit, hz, decide_true, Bool.true_and, Bool.or_assoc]

theorem trellis_update_ok {m : Nat} {low up tr p : Pt} {pl : Nat} (htr : tr.length = m)
    (h1 : ∀ i, i < m - 1 → at' low i ≤ at' tr i) (h2 : ∀ i, i < m - 1 → at' tr i ≤ at' up i)
    (hlo : at' low pl ≤ at' p pl) :
    (if at' p pl < at' tr pl then tr.set pl (at' p pl) else tr).length = m ∧
    (∀ i, i < m - 1 → at' low i ≤ at' (if at' p pl < at' tr pl then tr.set pl (at' p pl) else tr) i) ∧
    (∀ i, i < m - 1 → at' (if at' p pl < at' tr pl then tr.set pl (at' p pl) else tr) i ≤ at' up i) := by
  by_cases hv : at' p pl < at' tr pl
  · simp only [hv, if_true, List.length_set]
    refine ⟨htr, ?_, ?_⟩
    · intro i hi
      rw [at'_set]
      by_cases hip : pl = i
      · subst hip
        simp only [true_and, show pl < tr.length by omega, if_pos]
        exact hlo
      · simp only [hip, false_and, if_false]
        exact h1 i hi
    · intro i hi
      rw [at'_set]
      by_cases hip : pl = i
      · subst hip
        simp only [true_and, show pl < tr.length by omega, if_pos]
        have := h2 pl hi
        omega
      · simp only [hip, false_and, if_false]
        exact h2 i hi
  · simp only [hv, if_false]
    exact ⟨htr, h1, h2⟩

/-- **the trellis loop** counts the cells above the first pile that are outside the trellis box or dominated
by one of the remaining piles -/
theorem trellisGo_eq {m : Nat} {low up : Pt} {cover : Int} (hm : 1 ≤ m) (hlow : low.length = m)
    (hup : up.length = m) :
    ∀ (L : List (Pt × Nat)) (tr : Pt), tr.length = m → (∀ i, i < m - 1 → at' low i ≤ at' tr i) →
      (∀ i, i < m - 1 → at' tr i ≤ at' up i) → (∀ e ∈ L, PileOK m low up cover e) →
      L.Pairwise (fun a b => lastC a.1 ≤ lastC b.1) → ∀ e0 rest, L = e0 :: rest →
      trellisGo low up cover L tr =
        (((cells (low.set (m - 1) (lastC e0.1)) (up.set (m - 1) cover)).countP (hit m tr L) : Nat) : Int)
  | [], _, _, _, _, _, _, _, _, h => by simp at h
  | [(p, pl)], tr, htr, h1, h2, hL, _, e0, rest, h => by
    obtain ⟨rfl, rfl⟩ := List.cons.inj h
    have hp := hL (p, pl) (by simp)
    obtain ⟨hpm, hpl, hplo, _, hpc⟩ := hp
    simp only at hpm hpl hplo hpc
    obtain ⟨t1, t2, t3⟩ := trellis_update_ok (p := p) (pl := pl) htr h1 h2 hplo
    rw [trellisGo_single _ _ _ _ _ _ hpc, ← chunk_count hm hlow hup t1 t2 t3 (lastC p) cover (Int.le_of_lt hpc)]
    congr 1
    apply List.countP_congr
    intro z hz
    have hz' := mem_cells_idx.mp hz
    simp only [List.length_set] at hz'
    have hzl := (hz'.2.2 (m - 1) (by omega)).1
    rw [at'_set_eq _ _ (by omega), lastC_of_len hpm] at hzl
    rw [hit_cons_eq hpl htr hzl]
    simp [hit]
  | (p, pl) :: (q, ql) :: rest', tr, htr, h1, h2, hL, hs, e0, rest, h => by
    obtain ⟨rfl, rfl⟩ := List.cons.inj h
    obtain ⟨hpm, hpl, hplo, _, hpc⟩ := hL (p, pl) (by simp)
    obtain ⟨hqm, _, _, _, hqc⟩ := hL (q, ql) (by simp)
    simp only at hpm hpl hplo hpc hqm hqc
    obtain ⟨t1, t2, t3⟩ := trellis_update_ok (p := p) (pl := pl) htr h1 h2 hplo
    have hs' := List.pairwise_cons.mp hs
    have hpq : lastC p ≤ lastC q := hs'.1 (q, ql) (by simp)
    have ih := trellisGo_eq hm hlow hup ((q, ql) :: rest')
      (if at' p pl < at' tr pl then tr.set pl (at' p pl) else tr) t1 t2 t3
      (fun e he => hL e (List.mem_cons_of_mem _ he)) hs'.2 (q, ql) rest' rfl
    by_cases heq : lastC q = lastC p
    · rw [trellisGo_cons_eq _ _ _ _ _ _ _ _ _ heq, ih]
      simp only [heq]
      congr 1
      apply List.countP_congr
      intro z hz
      have hz' := mem_cells_idx.mp hz
      simp only [List.length_set] at hz'
      have hzl := (hz'.2.2 (m - 1) (by omega)).1
      rw [at'_set_eq _ _ (by omega), lastC_of_len hpm] at hzl
      rw [hit_cons_eq hpl htr hzl]
    · rw [trellisGo_cons_ne _ _ _ _ _ _ _ _ _ heq hqc, ih]
      rw [countP_cells_cut (hit m tr ((p, pl) :: (q, ql) :: rest')) (m - 1) (lastC q)
        (by simp [hlow, hup]) (by simp; omega)
        (by rw [at'_set_eq _ _ (by omega)]; exact hpq)
        (by rw [at'_set_eq _ _ (by omega)]; exact Int.le_of_lt hqc)]
      rw [List.set_set, List.set_set, Int.natCast_add]
      congr 1
      · rw [← chunk_count hm hlow hup t1 t2 t3 (lastC p) (lastC q) hpq]
        congr 1
        apply List.countP_congr
        intro z hz
        have hz' := mem_cells_idx.mp hz
        simp only [List.length_set] at hz'
        have hzl := (hz'.2.2 (m - 1) (by omega)).1
        have hzu := (hz'.2.2 (m - 1) (by omega)).2
        rw [at'_set_eq _ _ (by omega), lastC_of_len hpm] at hzl
        rw [at'_set_eq _ _ (by omega)] at hzu
        rw [hit_cons_eq hpl htr hzl]
        unfold hit
        have : (((q, ql) :: rest').any fun e => ptHit m e z) = false := by
          rw [List.any_eq_false]
          intro e he
          have hle : lastC q ≤ lastC e.1 := by
            rcases List.mem_cons.mp he with rfl | he
            · exact Int.le_refl _
            · exact (List.pairwise_cons.mp hs'.2).1 e he
          have hem := (hL e (List.mem_cons_of_mem _ he)).1
          rw [lastC_of_len hem] at hle
          simp only [ptHit, Bool.and_eq_true, decide_eq_true_eq, not_and]
          intro hh
          omega
        rw [this, Bool.or_false]
      · congr 1
        apply List.countP_congr
        intro z hz
        have hz' := mem_cells_idx.mp hz
        simp only [List.length_set] at hz'
        have hzl := (hz'.2.2 (m - 1) (by omega)).1
        rw [at'_set_eq _ _ (by omega)] at hzl
        rw [hit_cons_eq hpl htr (by rw [← lastC_of_len hpm]; omega)]


theorem zip_map_map {α β γ} (g : α → β) (h : β → γ) : ∀ l : List α,
    l.zip ((l.map g).map h) = l.map fun p => (p, h (g p))
  | [] => rfl
  | a :: l => by
    simp only [List.map_cons, List.zip_cons_cons]
    rw [zip_map_map g h l]

/-- **S2**: in the pile case the trellis loop computes the specification -/
theorem trellis_eq_spec {m : Nat} {low up : Pt} {pre : List Pt} {c : Int} (h : Reg m low up pre c)
    (hne : pre ≠ []) (hno : ∀ p ∈ pre, covers p low = false)
    (hall : (pre.map fun p => isPile p low).all Option.isSome = true) :
    trellisGo low up c (pre.zip ((pre.map fun p => isPile p low).map fun o => o.getD 0)) up =
      ((streamSpec low up pre c : Nat) : Int) := by
  have hm := h.hm
  have hlow := h.hlow
  have hup := h.hup
  rw [zip_map_map]
  have hpile : ∀ p ∈ pre, (isPile p low).getD 0 < m - 1 ∧ at' low ((isPile p low).getD 0) < at' p ((isPile p low).getD 0) ∧
      ∀ i, i < m - 1 → i ≠ (isPile p low).getD 0 → at' p i ≤ at' low i := by
    intro p hp
    have hs : (isPile p low).isSome = true := by
      simp only [List.all_eq_true, List.mem_map] at hall
      exact hall _ ⟨p, hp, rfl⟩
    obtain ⟨k, hk⟩ := Option.isSome_iff_exists.mp hs
    rw [hk, Option.getD_some]
    rcases isPile_some hk with h1 | h1
    · rw [hno p hp] at h1; simp at h1
    · rw [h.hlen p hp] at h1; exact h1
  obtain ⟨p0, rest0, rfl⟩ := List.exists_cons_of_ne_nil hne
  have hOK : ∀ e ∈ (p0 :: rest0).map (fun p => (p, (isPile p low).getD 0)), PileOK m low up c e := by
    intro e he
    obtain ⟨p, hp, rfl⟩ := List.mem_map.mp he
    obtain ⟨a1, a2, _⟩ := hpile p hp
    refine ⟨h.hlen p hp, a1, Int.le_of_lt a2, Int.le_of_lt (h.hpc p hp _ a1), (h.hlast p hp).2⟩
  have hsorted : ((p0 :: rest0).map (fun p => (p, (isPile p low).getD 0))).Pairwise
      (fun a b => lastC a.1 ≤ lastC b.1) := by
    rw [List.pairwise_map]; exact h.hsort
  rw [trellisGo_eq hm hlow hup _ up hup h.hbox (fun i _ => Int.le_refl _) hOK hsorted
    (p0, (isPile p0 low).getD 0) (rest0.map (fun p => (p, (isPile p low).getD 0))) (by simp)]
  congr 1
  unfold streamSpec hvCount
  rw [hup]
  symm
  apply countP_eq_of_nodup (nodup_cells _ _) (nodup_cells _ _)
  intro z
  have hs0 := List.pairwise_cons.mp h.hsort
  have hp0 := h.hlast p0 List.mem_cons_self
  simp only [mem_cells_idx, List.length_set]
  constructor
  · rintro ⟨⟨hl, hh, hb⟩, hc⟩
    obtain ⟨p, hp, hpz⟩ := covered_iff.mp hc
    have hpi := leAll_iff_idx.mp hpz
    have hle0 : lastC p0 ≤ lastC p := by
      rcases List.mem_cons.mp hp with rfl | hp'
      · exact Int.le_refl _
      · exact hs0.1 p hp'
    refine ⟨⟨by omega, hh, ?_⟩, ?_⟩
    · intro i hi
      refine ⟨?_, (hb i hi).2⟩
      by_cases him : i = m - 1
      · subst him
        rw [at'_set_eq _ _ (by omega)]
        have := hpi.2 (m - 1) hi
        rw [lastC_of_len (h.hlen p hp)] at hle0
        omega
      · rw [at'_set_ne _ _ (fun e => him e.symm)]
        exact (hb i hi).1
    · unfold hit
      rw [Bool.or_eq_true]
      right
      rw [List.any_eq_true]
      refine ⟨(p, (isPile p low).getD 0), List.mem_map.mpr ⟨p, hp, rfl⟩, ?_⟩
      simp only [ptHit, Bool.and_eq_true, decide_eq_true_eq]
      have a1 := (hpile p hp).1
      exact ⟨hpi.2 _ (by omega), hpi.2 _ (by omega)⟩
  · rintro ⟨⟨hl, hh, hb⟩, hc⟩
    have hzl := (hb (m - 1) (by omega)).1
    rw [at'_set_eq _ _ (by omega)] at hzl
    refine ⟨⟨by omega, hh, ?_⟩, ?_⟩
    · intro i hi
      refine ⟨?_, (hb i hi).2⟩
      by_cases him : i = m - 1
      · subst him
        omega
      · have := (hb i hi).1
        rw [at'_set_ne _ _ (fun e => him e.symm)] at this
        exact this
    · unfold hit at hc
      rw [Bool.or_eq_true] at hc
      rcases hc with hc | hc
      · obtain ⟨j, hj, hle⟩ := trHit_iff.mp hc
        have := (hb j (by omega)).2
        rw [at'_set_ne _ _ (by omega)] at this
        omega
      · rw [List.any_eq_true] at hc
        obtain ⟨e, he, hpt⟩ := hc
        obtain ⟨p, hp, rfl⟩ := List.mem_map.mp he
        simp only [ptHit, Bool.and_eq_true, decide_eq_true_eq] at hpt
        obtain ⟨a1, a2, a3⟩ := hpile p hp
        refine covered_iff.mpr ⟨p, hp, leAll_iff_idx.mpr ⟨by rw [h.hlen p hp]; omega, ?_⟩⟩
        intro i hi
        by_cases him : i = m - 1
        · subst him; exact hpt.1
        · by_cases hik : i = (isPile p low).getD 0
          · rw [hik]; exact hpt.2
          · have := a3 i (by omega) hik
            have := (hb i hi).1
            rw [at'_set_ne _ _ (fun e => him e.symm)] at this
            omega


/-! ### the induction over the recursion of `stream` -/

theorem Reg.childUp {m : Nat} {low up : Pt} {pre : List Pt} {c : Int} (h : Reg m low up pre c) {s : Nat} {b : Int}
    (h1 : at' low s ≤ b) :
    Reg m low (up.set s b) (pre.filter fun p => partCovers p (up.set s b)) c where
  hm := h.hm
  hlow := h.hlow
  hup := by simpa using h.hup
  hlen p hp := h.hlen p (List.mem_filter.mp hp).1
  hbox i hi := by
    rw [at'_set]
    split
    · rename_i hh; rw [← hh.1]; exact h1
    · exact h.hbox i hi
  hpc p hp i hi := by
    have := partCovers_iff.mp (List.mem_filter.mp hp).2 i (by rw [h.hlen p (List.mem_filter.mp hp).1]; exact hi)
    exact this
  hlast p hp := h.hlast p (List.mem_filter.mp hp).1
  hsort := h.hsort.sublist List.filter_sublist

theorem Reg.childLow {m : Nat} {low up : Pt} {pre : List Pt} {c : Int} (h : Reg m low up pre c) {s : Nat} {b : Int}
    (hs : s < m - 1) (h2 : b ≤ at' up s) :
    Reg m (low.set s b) up (pre.filter fun p => partCovers p up) c where
  hm := h.hm
  hlow := by simpa using h.hlow
  hup := h.hup
  hlen p hp := h.hlen p (List.mem_filter.mp hp).1
  hbox i hi := by
    rw [at'_set]
    split
    · rename_i hh; rw [← hh.1]; exact h2
    · exact h.hbox i hi
  hpc p hp := h.hpc p (List.mem_filter.mp hp).1
  hlast p hp := by
    rw [at'_set_ne _ _ (by omega)]
    exact h.hlast p (List.mem_filter.mp hp).1
  hsort := h.hsort.sublist List.filter_sublist

theorem streamSpec_nil (low up : Pt) (c : Int) : streamSpec low up [] c = 0 := hvCount_nil _ _

theorem body_eq {m sqrtN : Nat} {rec : Pt → Pt → List Pt → Nat → Int → Int}
    {recOk : Pt → Pt → List Pt → Nat → Int → Bool}
    (hrec : ∀ low up pts split cover, Reg m low up pts cover → recOk low up pts split cover = true →
      rec low up pts split cover = ((streamSpec low up pts cover : Nat) : Int))
    {low up : Pt} {pts : List Pt} {ci split : Nat} {c : Int} (result : Int)
    (h : Reg m low up (pts.take ci) c) (hno : ∀ p ∈ pts.take ci, covers p low = false)
    (hok : bodyOk recOk sqrtN low up pts ci split c = true) :
    body rec sqrtN low up pts ci split c result =
      result + ((streamSpec low up (pts.take ci) c : Nat) : Int) := by
  unfold body
  unfold bodyOk at hok
  by_cases h0 : ci = 0
  · subst h0
    simp [streamSpec_nil]
  · have h0' : (ci == 0) = false := by simpa using h0
    simp only [h0', Bool.false_eq_true, if_false] at hok ⊢
    by_cases hall : ((pts.take ci).map fun p => isPile p low).all Option.isSome = true
    · simp only [hall, if_true]
      by_cases hne : pts.take ci = []
      · rw [hne]; simp [trellisGo, streamSpec_nil]
      · rw [trellis_eq_spec h hne hno hall]
    · simp only [hall, Bool.false_eq_true, if_false] at hok ⊢
      generalize findBound sqrtN low (pts.take ci) (low.length + 1) split [] [] = fb at hok ⊢
      obtain ⟨s, b⟩ := fb
      simp only [Bool.and_eq_true, decide_eq_true_eq, Bool.or_eq_true] at hok
      obtain ⟨⟨⟨⟨hs, hb1⟩, hb2⟩, hok1⟩, hok2⟩ := hok
      rw [h.hlow] at hs
      simp only []
      rw [streamSpec_split s b h.hm h.hlow h.hup h.hlen hs hb1 hb2, Int.natCast_add]
      have e1 : (if ((pts.take ci).filter fun p => partCovers p (up.set s b)).isEmpty = true then 0
          else rec low (up.set s b) ((pts.take ci).filter fun p => partCovers p (up.set s b)) s c) =
          ((streamSpec low (up.set s b) ((pts.take ci).filter fun p => partCovers p (up.set s b)) c : Nat) : Int) := by
        split
        · rename_i he
          rw [List.isEmpty_iff.mp he, streamSpec_nil]; rfl
        · rename_i he
          rcases hok1 with hk | hk
          · exact absurd hk he
          · exact hrec _ _ _ _ _ (h.childUp hb1) hk
      have e2 : (if ((pts.take ci).filter fun p => partCovers p up).isEmpty = true then 0
          else rec (low.set s b) up ((pts.take ci).filter fun p => partCovers p up) s c) =
          ((streamSpec (low.set s b) up ((pts.take ci).filter fun p => partCovers p up) c : Nat) : Int) := by
        split
        · rename_i he
          rw [List.isEmpty_iff.mp he, streamSpec_nil]; rfl
        · rename_i he
          rcases hok2 with hk | hk
          · exact absurd hk he
          · exact hrec _ _ _ _ _ (h.childLow hs hb2) hk
      rw [e1, e2, Int.add_assoc]

/-- **`stream` computes the dominated volume of its region** on every run accepted by the run checker
`streamOk` (fuel not exhausted; every bound of `findBound` inside the current region) -/
theorem stream_eq_spec_partial (sqrtN m : Nat) : ∀ (fuel : Nat) (low up : Pt) (pts : List Pt) (split : Nat)
    (cover : Int), Reg m low up pts cover → streamOk sqrtN fuel low up pts split cover = true →
    stream sqrtN fuel low up pts split cover = ((streamSpec low up pts cover : Nat) : Int)
  | 0, _, _, _, _, _, _, hok => by simp [streamOk] at hok
  | fuel + 1, low, up, pts, split, cover, h, hok => by
    by_cases hidx : pts.findIdx (fun p => covers p low) < pts.length
    · rw [stream_found _ _ _ _ _ _ _ hidx]
      rw [streamOk_found _ _ _ _ _ _ _ hidx] at hok
      obtain ⟨R, hno, hspec⟩ := scan_found h hidx
      rw [body_eq (stream_eq_spec_partial sqrtN m fuel) _ R hno hok, hspec]
    · rw [stream_none _ _ _ _ _ _ _ hidx]
      rw [streamOk_none _ _ _ _ _ _ _ hidx] at hok
      have ht := scan_none_take h
      have R : Reg m low up
          (pts.take (pts.length - ((pts.take pts.length).filter fun p => lastC p == cover).length)) cover := by
        rw [ht]; exact h
      have hno : ∀ p ∈ pts.take (pts.length - ((pts.take pts.length).filter fun p => lastC p == cover).length),
          covers p low = false := by
        rw [ht]; exact findIdx_none _ _ hidx
      rw [body_eq (stream_eq_spec_partial sqrtN m fuel) _ R hno hok, ht, Int.zero_add]


/-! ### S4: the entry of `hvHoy` -/

/-- the entry filter in dimension `m`: points with a coordinate `≥` the reference dominate no cell -/
theorem hvSpec_filter_inside {S : List Pt} {r : Pt} (hS : ∀ p ∈ S, p.length = r.length) :
    hvSpec (S.filter fun p => (List.range r.length).all fun j => decide (at' p j < at' r j)) r = hvSpec S r := by
  have hl := lower_le (S := S) (r := r) rfl hS
  rw [hvSpec_eq_hvCount (lo := lower S r) hl.1 (fun p hp => hl.2 p (List.mem_filter.mp hp).1)]
  unfold hvSpec hvCount
  apply List.countP_congr
  intro z hz
  have hz' := mem_cells_idx.mp hz
  simp only [covered_iff]
  constructor
  · rintro ⟨p, hp, h⟩
    exact ⟨p, (List.mem_filter.mp hp).1, h⟩
  · rintro ⟨p, hp, h⟩
    refine ⟨p, List.mem_filter.mpr ⟨hp, ?_⟩, h⟩
    simp only [List.all_eq_true, List.mem_range, decide_eq_true_eq]
    intro j hj
    have h1 := (leAll_iff_idx.mp h).2 j (by omega)
    have h2 := (hz'.2.2 j (by omega)).2
    omega

theorem at'_double (p : Pt) (j : Nat) : at' (p.map (2 * ·)) j = 2 * at' p j := by
  unfold at'
  rw [List.getD_eq_getElem?_getD, List.getD_eq_getElem?_getD, List.getElem?_map]
  cases p[j]? <;> simp

theorem set_last_self : ∀ (p : Pt), p.set (p.length - 1) (lastC p) = p
  | [] => rfl
  | [a] => by simp [lastC]
  | a :: b :: t => by
    have ih := set_last_self (b :: t)
    simp only [List.length_cons, Nat.add_sub_cancel] at ih ⊢
    rw [List.set_cons_succ]
    have : lastC (a :: b :: t) = lastC (b :: t) := by simp [lastC]
    rw [this, ih]

theorem foldl_pmin_le : ∀ (l : List Pt) (init : Pt), (∀ p ∈ l, p.length = init.length) →
    leAll (l.foldl pmin init) init = true ∧ ∀ p ∈ l, leAll (l.foldl pmin init) p = true
  | [], init, _ => ⟨leAll_refl _, fun _ h => by simp at h⟩
  | a :: l, init, hl => by
    have ha := hl a List.mem_cons_self
    have hlen : (pmin init a).length = init.length := by rw [length_pmin, ha]; simp
    obtain ⟨i1, i2⟩ := foldl_pmin_le l (pmin init a) (fun p hp => by rw [hlen]; exact hl p (List.mem_cons_of_mem _ hp))
    simp only [List.foldl_cons]
    refine ⟨leAll_trans i1 (leAll_pmin_left ha.symm), ?_⟩
    intro p hp
    rcases List.mem_cons.mp hp with rfl | hp
    · exact leAll_trans i1 (leAll_pmin_right ha.symm)
    · exact i2 p hp

/-- run checker for `hvHoy`: the run checker of `stream` on the arguments of the top-level call -/
def hoyOk (S : List Pt) (r : Pt) : Bool :=
  if S.isEmpty then true else
  let r2 := r.map (2 * ·)
  let set := (S.filter fun p => (List.range r.length).all fun j => at' p j < at' r j).map fun p => p.map (2 * ·)
  if set.isEmpty then true else
  let set := set.mergeSort fun a b => decide (lastC a ≤ lastC b)
  let sqrtN := Nat.sqrt set.length
  let regLow := set.foldl pmin (r.map fun _ => (2000000000000000 : Int))
  streamOk sqrtN (16 * (set.length + r.length) + 64) regLow r2 set 0 (lastC r2)

theorem pairwise_sortLast (S : List Pt) :
    (S.mergeSort fun a b => decide (lastC a ≤ lastC b)).Pairwise (fun a b => lastC a ≤ lastC b) := by
  have := List.pairwise_mergeSort (le := fun a b : Pt => decide (lastC a ≤ lastC b))
    (by intro a b c; simp only [decide_eq_true_eq]; omega)
    (by intro a b; simp only [Bool.or_eq_true, decide_eq_true_eq]; omega) S
  exact this.imp (by simp)

/-- the top-level call of `stream` satisfies the invariant and its specification is `2^m * hvSpec` -/
theorem top_reg {S : List Pt} {r : Pt} (hS : ∀ p ∈ S, p.length = r.length) (hr : 1 ≤ r.length)
    (T : List Pt) (hT : T = (((S.filter fun p => (List.range r.length).all fun j => decide (at' p j < at' r j)).map
      fun p => p.map (2 * ·)).mergeSort fun a b => decide (lastC a ≤ lastC b))) (hne : T ≠ []) :
    Reg r.length (T.foldl pmin (r.map fun _ => (2000000000000000 : Int))) (r.map (2 * ·)) T (lastC (r.map (2 * ·))) ∧
    streamSpec (T.foldl pmin (r.map fun _ => (2000000000000000 : Int))) (r.map (2 * ·)) T (lastC (r.map (2 * ·))) =
      2 ^ r.length * hvSpec S r := by
  have hperm : T.Perm ((S.filter fun p => (List.range r.length).all fun j => decide (at' p j < at' r j)).map
      fun p => p.map (2 * ·)) := by rw [hT]; exact List.mergeSort_perm _ _
  have hmem : ∀ p ∈ T, ∃ p' ∈ S, (∀ j, j < r.length → at' p' j < at' r j) ∧ p = p'.map (2 * ·) := by
    intro p hp
    obtain ⟨p', hp', rfl⟩ := List.mem_map.mp (hperm.mem_iff.mp hp)
    obtain ⟨h1, h2⟩ := List.mem_filter.mp hp'
    simp only [List.all_eq_true, List.mem_range, decide_eq_true_eq] at h2
    exact ⟨p', h1, h2, rfl⟩
  have hTlen : ∀ p ∈ T, p.length = r.length := by
    intro p hp
    obtain ⟨p', hp', _, rfl⟩ := hmem p hp
    simpa using hS p' hp'
  have hTr : ∀ p ∈ T, leAll p (r.map (2 * ·)) = true := by
    intro p hp
    obtain ⟨p', hp', hin, rfl⟩ := hmem p hp
    refine leAll_iff_idx.mpr ⟨by simpa using hS p' hp', ?_⟩
    intro i hi
    simp only [List.length_map] at hi
    rw [at'_double, at'_double]
    have := hin i hi
    omega
  obtain ⟨f1, f2⟩ := foldl_pmin_le T (r.map fun _ => (2000000000000000 : Int))
    (fun p hp => by simpa using hTlen p hp)
  obtain ⟨p0, rest0, hT0⟩ := List.exists_cons_of_ne_nil hne
  have hp0 : p0 ∈ T := by rw [hT0]; simp
  have hlr : leAll (T.foldl pmin (r.map fun _ => (2000000000000000 : Int))) (r.map (2 * ·)) = true :=
    leAll_trans (f2 p0 hp0) (hTr p0 hp0)
  have hlowlen : (T.foldl pmin (r.map fun _ => (2000000000000000 : Int))).length = r.length := by
    rw [leAll_length hlr]; simp
  have hlast2 : lastC (r.map (2 * ·)) = at' (r.map (2 * ·)) (r.length - 1) := lastC_of_len (by simp)
  refine ⟨⟨hr, hlowlen, by simp, hTlen, ?_, ?_, ?_, ?_⟩, ?_⟩
  · intro i hi
    exact (leAll_iff_idx.mp hlr).2 i (by simp; omega)
  · intro p hp i hi
    obtain ⟨p', hp', hin, rfl⟩ := hmem p hp
    rw [at'_double, at'_double]
    have := hin i (by omega)
    omega
  · intro p hp
    have hpl := lastC_of_len (hTlen p hp)
    rw [hpl, hlast2]
    refine ⟨(leAll_iff_idx.mp (f2 p hp)).2 _ (by rw [hTlen p hp]; omega), ?_⟩
    obtain ⟨p', hp', hin, rfl⟩ := hmem p hp
    rw [at'_double, at'_double]
    have := hin (r.length - 1) (by omega)
    omega
  · rw [hT]; exact pairwise_sortLast _
  · unfold streamSpec
    rw [set_last_self, ← hvSpec_eq_hvCount hlr f2, hvSpec_perm hperm]
    have := hvSpec_scale (d := 2) (by omega) (S.filter fun p => (List.range r.length).all fun j => decide (at' p j < at' r j)) r
    unfold scalePt at this
    rw [this, hvSpec_filter_inside hS]
    rfl

/-- **`hvHoy` is the dominated hypervolume** on every input whose run is accepted by the run checker -/
theorem hvHoy_eq_spec_partial (S : List Pt) (r : Pt) (hS : ∀ p ∈ S, p.length = r.length) (hr : 1 ≤ r.length)
    (hok : hoyOk S r = true) : hvHoy S r = ((hvSpec S r : Nat) : Int) := by
  unfold hvHoy
  unfold hoyOk at hok
  by_cases hS0 : S.isEmpty = true
  · rw [List.isEmpty_iff.mp hS0]; simp [hvSpec_nil]
  · simp only [hS0, Bool.false_eq_true, if_false] at hok ⊢
    by_cases hE : ((S.filter fun p => (List.range r.length).all fun j => decide (at' p j < at' r j)).map
        fun p => p.map (2 * ·)).isEmpty = true
    · simp only [hE, if_true]
      have hnil : (S.filter fun p => (List.range r.length).all fun j => decide (at' p j < at' r j)) = [] := by
        simpa using hE
      rw [← hvSpec_filter_inside hS, hnil, hvSpec_nil]; rfl
    · simp only [hE, Bool.false_eq_true, if_false] at hok ⊢
      have hne : (((S.filter fun p => (List.range r.length).all fun j => decide (at' p j < at' r j)).map
          fun p => p.map (2 * ·)).mergeSort fun a b => decide (lastC a ≤ lastC b)) ≠ [] := by
        intro h0
        have := (List.mergeSort_perm _ _).length_eq.symm.trans (congrArg List.length h0)
        apply hE
        rw [List.isEmpty_iff]
        exact List.length_eq_zero_iff.mp (by simpa using this)
      obtain ⟨R, hspec⟩ := top_reg hS hr _ rfl hne
      rw [stream_eq_spec_partial _ _ _ _ _ _ _ _ R hok, hspec]
      rw [Int.natCast_mul, Int.natCast_pow]
      exact Int.mul_ediv_cancel_left _ (Int.ne_of_gt (Int.pow_pos (by decide)))


end SharkVerif.HOY
