/-
Helper lemmas for C13/C14: dominance, rank specification, fast non-dominated sort.
-/
import SharkVerif.Model.Pareto
namespace SharkVerif.Pareto

theorem leAll_length : ∀ {p q : Pt}, leAll p q = true → p.length = q.length
  | [], [], _ => rfl
  | a :: as, b :: bs, h => by
    simp only [leAll, Bool.and_eq_true] at h
    simp [leAll_length h.2]
  | [], _ :: _, h => by simp [leAll] at h
  | _ :: _, [], h => by simp [leAll] at h

/-- no coordinate of `q` is smaller than the one of `p` iff `p ≤ q` everywhere -/
theorem countLt_eq_zero : ∀ {p q : Pt}, p.length = q.length → (countLt q p = 0 ↔ leAll p q = true)
  | [], [], _ => by simp [countLt, leAll]
  | a :: as, b :: bs, h => by
    have ih := countLt_eq_zero (p := as) (q := bs) (by simpa using h)
    simp only [countLt, leAll, Bool.and_eq_true, decide_eq_true_eq]
    by_cases hab : b < a
    · simp [hab]; omega
    · simp [hab, ih]; omega
  | [], _ :: _, h => by simp at h
  | _ :: _, [], h => by simp at h

theorem leAll_antisymm : ∀ {p q : Pt}, leAll p q = true → leAll q p = true → p = q
  | [], [], _, _ => rfl
  | a :: as, b :: bs, h1, h2 => by
    simp only [leAll, Bool.and_eq_true, decide_eq_true_eq] at h1 h2
    rw [leAll_antisymm h1.2 h2.2, Int.le_antisymm h1.1 h2.1]
  | [], _ :: _, h, _ => by simp [leAll] at h
  | _ :: _, [], h, _ => by simp [leAll] at h

end SharkVerif.Pareto
