/-
Lemmas for C14: the flags written by `applySelect` are the flags of `select`; composition of the
count theorem with the truncation.
-/
import SharkVerif.Lemmas.MOOStep
namespace SharkVerif.MOO
open SharkVerif.Pareto SharkVerif.HV

theorem select_length (ind : Indicator) (ranks : List Nat) (mu : Nat) :
    (select ind ranks mu).length = ranks.length := by
  unfold select
  by_cases h : ranks.length = 0
  · simp [h]
  · simp only [h, if_false]
    generalize dropFronts ranks mu (List.foldl max 0 ranks) ranks.length = rp
    obtain ⟨r, p⟩ := rp
    simp

theorem fastSort_length {pts : List Pt} {m : Nat} (hd : ∀ p ∈ pts, p.length = m) :
    (fastSort pts).length = pts.length := by
  rw [fastSort_eq hd]; simp

theorem range_map_getD (l : List Bool) : (List.range l.length).map (fun i => l.getD i false) = l := by
  apply List.ext_getElem
  · simp
  · intro i h1 h2
    simp [List.getD_eq_getElem?_getD, List.getElem?_eq_getElem h2]

theorem countP_range_getD (l : List Bool) :
    (List.range l.length).countP (fun i => l.getD i false) = l.count true := by
  conv => rhs; rw [← range_map_getD l]
  rw [List.count_eq_countP, List.countP_map]
  apply List.countP_congr
  intro i _; simp

/-- the `selected()` flags after `m_selection(population, mu)` -/
theorem applySelect_sel (ind : List Pt → Indicator) (pop : List Indiv) (mu : Nat) (i : Nat) (hi : i < pop.length) :
    ((applySelect ind pop mu).getD i default).sel =
      (select (ind (pop.map (·.pen))) (fastSort (pop.map (·.pen))) mu).getD i false := by
  simp [applySelect, List.getD_eq_getElem?_getD, List.getElem?_map, List.getElem?_range hi]

theorem applySelect_rank (ind : List Pt → Indicator) (pop : List Indiv) (mu : Nat) (i : Nat) (hi : i < pop.length) :
    ((applySelect ind pop mu).getD i default).rank = rankAt (fastSort (pop.map (·.pen))) i := by
  simp [applySelect, List.getD_eq_getElem?_getD, List.getElem?_map, List.getElem?_range hi, rankAt]

theorem applySelect_countP (ind : List Pt → Indicator) (pop : List Indiv) (mu m : Nat)
    (hd : ∀ p ∈ pop, p.pen.length = m) :
    (applySelect ind pop mu).countP (·.sel) =
      (select (ind (pop.map (·.pen))) (fastSort (pop.map (·.pen))) mu).count true := by
  have hlen : (select (ind (pop.map (·.pen))) (fastSort (pop.map (·.pen))) mu).length = pop.length := by
    rw [select_length, fastSort_length (m := m)]
    · simp
    · intro p hp
      obtain ⟨q, hq, rfl⟩ := List.mem_map.mp hp
      exact hd q hq
  rw [← countP_range_getD, hlen]
  unfold applySelect
  simp only
  rw [List.countP_map]
  apply List.countP_congr
  intro i _
  simp

end SharkVerif.MOO
