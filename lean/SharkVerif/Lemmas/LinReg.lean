/-
Lemmas for `LinearRegression::train` (model in `Model/Trainers.lean`): the normal
equations are the stationarity condition of the regularised squared error, and the
error is a convex quadratic, so stationary points are global minimisers.
-/
import SharkVerif.Lemmas.Trainers
namespace SharkVerif.Trainers

abbrev LData := List (List (Vec × Vec))

/-- `(A·β)_i` for the accumulated matrix `A` and one parameter column -/
def applyA (bs : LData) (d : Nat) (lam : Rat) (β : Nat → Rat) (i : Nat) : Rat :=
  rsum (d + 1) fun j => linregA bs d lam i j * β j

theorem predict_add (d : Nat) (β δ : Nat → Rat) (x : Vec) :
    predict d (fun j => β j + δ j) x = predict d β x + predict d δ x := by
  unfold predict
  rw [← rsum_add]
  exact rsum_congr (fun i _ => by ring)

theorem predict_smul (d : Nat) (t : Rat) (δ : Nat → Rat) (x : Vec) :
    predict d (fun j => t * δ j) x = t * predict d δ x := by
  unfold predict
  rw [← rsum_mul_left]
  exact rsum_congr (fun i _ => by ring)

/-- the regularisation part of `A·β`: `Σ_j [i = j ∧ i < d] λ β_j` -/
theorem reg_term (d i : Nat) (lam : Rat) (β : Nat → Rat) (hi : i ≤ d) :
    rsum (d + 1) (fun j => (if i = j ∧ i < d then lam else 0) * β j) = if i < d then lam * β i else 0 := by
  have : ∀ j, (if i = j ∧ i < d then lam else 0) * β j = if i = j then (if i < d then lam * β j else 0) else 0 := by
    intro j
    by_cases h1 : i = j <;> by_cases h2 : i < d <;> simp [h1, h2]
  rw [rsum_congr (fun j _ => this j), rsum_ite_eq]
  simp [Nat.lt_succ_of_le hi]

/-- **gradient = A·β − XᵀL**, entry by entry -/
theorem gradient_eq (bs : LData) (d : Nat) (lam : Rat) (c : Nat) (β : Nat → Rat) (i : Nat) (hi : i ≤ d) :
    linregGradient bs d lam c β i = applyA bs d lam β i - linregRhs bs d i c := by
  unfold linregGradient applyA linregA linregRhs
  simp only [bsum_eq_flatten]
  generalize bs.flatten = l
  have h1 : ∀ j, (lsum l (fun p => ext1 d p.1 i * ext1 d p.1 j) + (if i = j ∧ i < d then lam else 0)) * β j
      = lsum l (fun p => ext1 d p.1 i * ext1 d p.1 j * β j) + (if i = j ∧ i < d then lam else 0) * β j := by
    intro j; rw [add_mul, ← lsum_mul_right]
  rw [rsum_congr (fun j _ => h1 j), rsum_add, reg_term d i lam β hi, ← lsum_rsum_comm]
  have h2 : ∀ p : Vec × Vec, ext1 d p.1 i * (predict d β p.1 - p.2.at c)
      = rsum (d + 1) (fun j => ext1 d p.1 i * ext1 d p.1 j * β j) - ext1 d p.1 i * p.2.at c := by
    intro p
    unfold predict
    rw [mul_sub, ← rsum_mul_left]
    congr 1
    exact rsum_congr (fun j _ => by ring)
  rw [lsum_congr (fun p _ => h2 p), lsum_sub]
  ring

/-- the quadratic part of the objective -/
def linregQuad (bs : LData) (d : Nat) (lam : Rat) (δ : Nat → Rat) : Rat :=
  1 / 2 * bsum bs (fun p => predict d δ p.1 * predict d δ p.1) + 1 / 2 * lam * rsum d (fun j => δ j * δ j)

theorem linregQuad_nonneg (bs : LData) (d : Nat) (lam : Rat) (hlam : 0 ≤ lam) (δ : Nat → Rat) :
    0 ≤ linregQuad bs d lam δ := by
  unfold linregQuad
  rw [bsum_eq_flatten]
  have h1 : 0 ≤ lsum bs.flatten (fun p => predict d δ p.1 * predict d δ p.1) :=
    lsum_nonneg (fun p _ => mul_self_nonneg _)
  have h2 : 0 ≤ rsum d (fun j => δ j * δ j) := rsum_nonneg (fun j _ => mul_self_nonneg _)
  have h3 : 0 ≤ lam * rsum d (fun j => δ j * δ j) := mul_nonneg hlam h2
  linarith

/-- `Σ_{i<d} δ_i·[i<d]·λβ_i` is the regularisation part of `⟨grad, δ⟩` -/
theorem rsum_reg_inner (d : Nat) (lam : Rat) (β δ : Nat → Rat) :
    rsum (d + 1) (fun i => (if i < d then lam * β i else 0) * δ i) = lam * rsum d (fun i => β i * δ i) := by
  simp only [rsum_succ, Nat.lt_irrefl, if_false, zero_mul, add_zero]
  rw [← rsum_mul_left]
  exact rsum_congr (fun i hi => by simp [hi]; ring)

/-- **exact second-order expansion**: `E(β+δ) = E(β) + ⟨∇E(β), δ⟩ + Q(δ)` -/
theorem objective_expansion (bs : LData) (d : Nat) (lam : Rat) (c : Nat) (β δ : Nat → Rat) :
    linregObjective bs d lam c (fun j => β j + δ j)
      = linregObjective bs d lam c β
        + rsum (d + 1) (fun i => linregGradient bs d lam c β i * δ i)
        + linregQuad bs d lam δ := by
  unfold linregObjective linregGradient linregQuad
  simp only [bsum_eq_flatten]
  generalize bs.flatten = l
  -- inner product with the gradient
  have hg : rsum (d + 1) (fun i => (lsum l (fun p => ext1 d p.1 i * (predict d β p.1 - p.2.at c))
        + (if i < d then lam * β i else 0)) * δ i)
      = lsum l (fun p => (predict d β p.1 - p.2.at c) * predict d δ p.1) + lam * rsum d (fun i => β i * δ i) := by
    have : ∀ i, (lsum l (fun p => ext1 d p.1 i * (predict d β p.1 - p.2.at c))
        + (if i < d then lam * β i else 0)) * δ i
        = lsum l (fun p => (predict d β p.1 - p.2.at c) * (ext1 d p.1 i * δ i)) + (if i < d then lam * β i else 0) * δ i := by
      intro i
      rw [add_mul, ← lsum_mul_right]
      congr 1
      exact lsum_congr (fun p _ => by ring)
    rw [rsum_congr (fun i _ => this i), rsum_add, rsum_reg_inner, ← lsum_rsum_comm]
    congr 1
    apply lsum_congr
    intro p _
    rw [rsum_mul_left]
    rfl
  rw [hg]
  -- the data part
  have hd : lsum l (fun p => (predict d (fun j => β j + δ j) p.1 - p.2.at c) * (predict d (fun j => β j + δ j) p.1 - p.2.at c))
      = lsum l (fun p => (predict d β p.1 - p.2.at c) * (predict d β p.1 - p.2.at c))
        + 2 * lsum l (fun p => (predict d β p.1 - p.2.at c) * predict d δ p.1)
        + lsum l (fun p => predict d δ p.1 * predict d δ p.1) := by
    rw [← lsum_mul_left, ← lsum_add, ← lsum_add]
    apply lsum_congr
    intro p _
    rw [predict_add]
    ring
  have hr : rsum d (fun j => (β j + δ j) * (β j + δ j))
      = rsum d (fun j => β j * β j) + 2 * rsum d (fun j => β j * δ j) + rsum d (fun j => δ j * δ j) := by
    rw [← rsum_mul_left, ← rsum_add, ← rsum_add]
    exact rsum_congr (fun j _ => by ring)
  rw [hd, hr]
  ring

end SharkVerif.Trainers

namespace SharkVerif.Trainers

theorem linregQuad_smul (bs : LData) (d : Nat) (lam t : Rat) (δ : Nat → Rat) :
    linregQuad bs d lam (fun j => t * δ j) = t * t * linregQuad bs d lam δ := by
  unfold linregQuad
  simp only [bsum_eq_flatten]
  have h1 : lsum bs.flatten (fun p => predict d (fun j => t * δ j) p.1 * predict d (fun j => t * δ j) p.1)
      = t * t * lsum bs.flatten (fun p => predict d δ p.1 * predict d δ p.1) := by
    rw [← lsum_mul_left]
    exact lsum_congr (fun p _ => by rw [predict_smul]; ring)
  have h2 : rsum d (fun j => t * δ j * (t * δ j)) = t * t * rsum d (fun j => δ j * δ j) := by
    rw [← rsum_mul_left]
    exact rsum_congr (fun j _ => by ring)
  rw [h1, h2]; ring

/-- the normal equations of output column `c`: `(A·β)_i = (XᵀL)_{ic}` for all `i ≤ d` -/
def NormalEq (bs : LData) (d : Nat) (lam : Rat) (c : Nat) (β : Nat → Rat) : Prop :=
  ∀ i, i ≤ d → applyA bs d lam β i = linregRhs bs d i c

theorem normalEq_iff_gradient (bs : LData) (d : Nat) (lam : Rat) (c : Nat) (β : Nat → Rat) :
    NormalEq bs d lam c β ↔ ∀ i, i ≤ d → linregGradient bs d lam c β i = 0 := by
  constructor
  · intro h i hi; rw [gradient_eq bs d lam c β i hi, h i hi]; ring
  · intro h i hi
    have := h i hi
    rw [gradient_eq bs d lam c β i hi] at this
    linarith

theorem minimiser_of_normalEq (bs : LData) (d : Nat) (lam : Rat) (hlam : 0 ≤ lam) (c : Nat) (β : Nat → Rat)
    (h : NormalEq bs d lam c β) (β' : Nat → Rat) :
    linregObjective bs d lam c β ≤ linregObjective bs d lam c β' := by
  have hg := (normalEq_iff_gradient bs d lam c β).mp h
  have he := objective_expansion bs d lam c β (fun j => β' j - β j)
  have hf : (fun j => β j + (β' j - β j)) = β' := by funext j; ring
  rw [hf] at he
  have h0 : rsum (d + 1) (fun i => linregGradient bs d lam c β i * (β' i - β i)) = 0 := by
    rw [rsum_congr (g := fun _ => 0) (fun i hi => by rw [hg i (by omega)]; ring)]
    exact rsum_zero_fun _
  have hq := linregQuad_nonneg bs d lam hlam (fun j => β' j - β j)
  linarith

theorem normalEq_of_minimiser (bs : LData) (d : Nat) (lam : Rat) (hlam : 0 ≤ lam) (c : Nat) (β : Nat → Rat)
    (hmin : ∀ β', linregObjective bs d lam c β ≤ linregObjective bs d lam c β') :
    NormalEq bs d lam c β := by
  rw [normalEq_iff_gradient]
  -- move along the negative gradient
  let g : Nat → Rat := fun i => linregGradient bs d lam c β i
  let G : Rat := rsum (d + 1) (fun i => g i * g i)
  let q : Rat := linregQuad bs d lam g
  have hq : 0 ≤ q := linregQuad_nonneg bs d lam hlam g
  have hG : 0 ≤ G := rsum_nonneg (fun i _ => mul_self_nonneg _)
  let t : Rat := -(G / (q + 1))
  have he := objective_expansion bs d lam c β (fun j => t * g j)
  rw [linregQuad_smul] at he
  have hin : rsum (d + 1) (fun i => linregGradient bs d lam c β i * (t * g i)) = t * G := by
    show _ = t * rsum (d + 1) (fun i => g i * g i)
    rw [← rsum_mul_left]
    exact rsum_congr (fun i _ => by show g i * (t * g i) = _; ring)
  rw [hin] at he
  have hm := hmin (fun j => β j + t * g j)
  have hpos : 0 < q + 1 := by linarith
  have key : t * G + t * t * q = -(G * G) / ((q + 1) * (q + 1)) := by
    show -(G / (q + 1)) * G + -(G / (q + 1)) * -(G / (q + 1)) * q = _
    field_simp
    ring
  have hGG : G * G ≤ 0 := by
    have h1 : 0 ≤ t * G + t * t * q := by
      show 0 ≤ t * G + t * t * linregQuad bs d lam g
      linarith
    rw [key] at h1
    have hden : 0 < (q + 1) * (q + 1) := mul_pos hpos hpos
    have h5 : 0 ≤ -(G * G) / ((q + 1) * (q + 1)) * ((q + 1) * (q + 1)) := mul_nonneg h1 hden.le
    rw [div_mul_cancel₀ _ hden.ne'] at h5
    linarith
  have hG0 : G = 0 := by
    have := mul_self_nonneg G
    have h2 : G * G = 0 := le_antisymm hGG this
    exact mul_self_eq_zero.mp h2
  intro i hi
  have := rsum_eq_zero_of_nonneg (f := fun i => g i * g i) (fun i _ => mul_self_nonneg _) hG0 i (by omega)
  exact mul_self_eq_zero.mp this

end SharkVerif.Trainers

namespace SharkVerif.Trainers

/-- with `λ > 0` and at least one data point the normal equations have at most one solution
(the accumulated matrix is positive definite) -/
theorem normalEq_unique (bs : LData) (d : Nat) (lam : Rat) (hlam : 0 < lam) (hne : bs.flatten ≠ []) (c : Nat)
    (β β' : Nat → Rat) (h : NormalEq bs d lam c β) (h' : NormalEq bs d lam c β') :
    ∀ i, i ≤ d → β i = β' i := by
  let δ : Nat → Rat := fun j => β' j - β j
  have hg := (normalEq_iff_gradient bs d lam c β).mp h
  have he := objective_expansion bs d lam c β δ
  have hf : (fun j => β j + δ j) = β' := by funext j; show β j + (β' j - β j) = β' j; ring
  rw [hf] at he
  have h0 : rsum (d + 1) (fun i => linregGradient bs d lam c β i * δ i) = 0 := by
    rw [rsum_congr (g := fun _ => 0) (fun i hi => by rw [hg i (by omega)]; ring)]
    exact rsum_zero_fun _
  have hmin := minimiser_of_normalEq bs d lam hlam.le c β' h' β
  have hq0 : linregQuad bs d lam δ = 0 :=
    le_antisymm (by linarith) (linregQuad_nonneg bs d lam hlam.le δ)
  unfold linregQuad at hq0
  rw [bsum_eq_flatten] at hq0
  have h1 : 0 ≤ lsum bs.flatten (fun p => predict d δ p.1 * predict d δ p.1) :=
    lsum_nonneg (fun p _ => mul_self_nonneg _)
  have h2 : 0 ≤ rsum d (fun j => δ j * δ j) := rsum_nonneg (fun j _ => mul_self_nonneg _)
  have h3 : 0 ≤ lam * rsum d (fun j => δ j * δ j) := mul_nonneg hlam.le h2
  have hS2 : rsum d (fun j => δ j * δ j) = 0 := by
    have : lam * rsum d (fun j => δ j * δ j) = 0 := by linarith
    rcases mul_eq_zero.mp this with h | h
    · exact absurd h hlam.ne'
    · exact h
  have hS1 : lsum bs.flatten (fun p => predict d δ p.1 * predict d δ p.1) = 0 := by
    rw [hS2] at hq0; linarith
  have hδ : ∀ j, j < d → δ j = 0 := fun j hj =>
    mul_self_eq_zero.mp (rsum_eq_zero_of_nonneg (f := fun j => δ j * δ j) (fun j _ => mul_self_nonneg _) hS2 j hj)
  -- the bias: predict δ x = δ_d on any data point
  obtain ⟨p, hp⟩ := List.exists_mem_of_ne_nil _ hne
  have hpred : predict d δ p.1 = 0 :=
    mul_self_eq_zero.mp (lsum_eq_zero_of_nonneg (f := fun p => predict d δ p.1 * predict d δ p.1)
      (fun p _ => mul_self_nonneg _) hS1 p hp)
  have hδd : δ d = 0 := by
    unfold predict at hpred
    rw [rsum_succ, rsum_congr (g := fun _ => 0) (fun j hj => by rw [hδ j hj]; ring), rsum_zero_fun] at hpred
    simp [ext1] at hpred
    exact hpred
  intro i hi
  have : δ i = 0 := by
    rcases Nat.lt_or_eq_of_le hi with h | h
    · exact hδ i h
    · rw [h]; exact hδd
  show β i = β' i
  have : β' i - β i = 0 := this
  linarith

end SharkVerif.Trainers
