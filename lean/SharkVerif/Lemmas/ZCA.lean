/-
`NormalizeComponentsZCA`: the matrix `Q·diag(s)·Qᵀ` built from an eigen-decomposition
`Cov = Q·diag(D)·Qᵀ` (orthogonal `Q`) with `s_k²·D_k = 1` satisfies the factor specification
`C·Cov·Cᵀ = I` used by `whitening_output`.  Proved with Mathlib matrices and translated to the
function / `rsum` form of the model.
-/
import SharkVerif.Lemmas.LinRegExists
open Matrix
namespace SharkVerif.Trainers

theorem zca_matrix_identity {n : Type} [Fintype n] [DecidableEq n] (Q : Matrix n n ℚ) (D s : n → ℚ)
    (hQ : Qᵀ * Q = 1) (hs : ∀ k, s k * s k * D k = 1) :
    (Q * diagonal s * Qᵀ) * (Q * diagonal D * Qᵀ) * (Q * diagonal s * Qᵀ)ᵀ = 1 := by
  have hQ' : Q * Qᵀ = 1 := mul_eq_one_comm.mp hQ
  have ht : (Q * diagonal s * Qᵀ)ᵀ = Q * diagonal s * Qᵀ := by
    rw [transpose_mul, transpose_mul, transpose_transpose, diagonal_transpose, Matrix.mul_assoc]
  rw [ht]
  calc Q * diagonal s * Qᵀ * (Q * diagonal D * Qᵀ) * (Q * diagonal s * Qᵀ)
      = Q * diagonal s * (Qᵀ * Q) * diagonal D * (Qᵀ * Q) * diagonal s * Qᵀ := by
        simp only [Matrix.mul_assoc]
    _ = Q * (diagonal s * diagonal D * diagonal s) * Qᵀ := by
        rw [hQ]; simp only [Matrix.mul_one, Matrix.mul_assoc]
    _ = Q * 1 * Qᵀ := by
        congr 2
        rw [diagonal_mul_diagonal, diagonal_mul_diagonal, ← diagonal_one]
        congr 1
        funext k
        have := hs k
        rw [← this]; ring
    _ = 1 := by rw [Matrix.mul_one, hQ']

/-- the ZCA factor in the function form of the model: `C_{ai} = Σ_k Q_{ak} s_k Q_{ik}` -/
def zcaFactor (Q : Nat → Nat → Rat) (s : Nat → Rat) (d : Nat) (a i : Nat) : Rat :=
  rsum d fun k => Q a k * s k * Q i k

def toMat (d : Nat) (Q : Nat → Nat → Rat) : Matrix (Fin d) (Fin d) ℚ := Matrix.of fun i k => Q i k
def toVec (d : Nat) (v : Nat → Rat) : Fin d → ℚ := fun k => v k

@[simp] theorem toMat_apply (d : Nat) (Q : Nat → Nat → Rat) (i k : Fin d) : toMat d Q i k = Q i k := rfl
@[simp] theorem toVec_apply (d : Nat) (v : Nat → Rat) (k : Fin d) : toVec d v k = v k := rfl

theorem zca_factor_spec (d : Nat) (Q : Nat → Nat → Rat) (D s : Nat → Rat) (cov : Nat → Nat → Rat)
    (hQ : ∀ k, k < d → ∀ l, l < d → rsum d (fun i => Q i k * Q i l) = if k = l then 1 else 0)
    (hcov : ∀ i, i < d → ∀ j, j < d → cov i j = rsum d (fun k => Q i k * D k * Q j k))
    (hs : ∀ k, k < d → s k * s k * D k = 1)
    (a b : Nat) (ha : a < d) (hb : b < d) :
    rsum d (fun i => rsum d (fun j => zcaFactor Q s d a i * cov i j * zcaFactor Q s d b j))
      = if a = b then 1 else 0 := by
  have hQm : (toMat d Q)ᵀ * toMat d Q = 1 := by
    ext k l
    rw [Matrix.mul_apply, Matrix.one_apply]
    have := hQ k k.isLt l l.isLt
    rw [rsum_eq_sum_fin] at this
    simp only [Matrix.transpose_apply, toMat_apply]
    rw [this]
    by_cases h : k = l
    · simp [h]
    · have : (k : Nat) ≠ (l : Nat) := fun e => h (Fin.ext e)
      simp [h, this]
  have hid := zca_matrix_identity (toMat d Q) (toVec d D) (toVec d s) hQm (fun k => hs k k.isLt)
  have hC : ∀ a i : Fin d, (toMat d Q * diagonal (toVec d s) * (toMat d Q)ᵀ) a i = zcaFactor Q s d a i := by
    intro a i
    rw [Matrix.mul_apply]
    unfold zcaFactor
    rw [rsum_eq_sum_fin]
    exact Finset.sum_congr rfl (fun k _ => by
      rw [Matrix.mul_diagonal, Matrix.transpose_apply, toMat_apply, toMat_apply, toVec_apply])
  have hCov : ∀ i j : Fin d, (toMat d Q * diagonal (toVec d D) * (toMat d Q)ᵀ) i j = cov i j := by
    intro i j
    rw [Matrix.mul_apply, hcov i i.isLt j j.isLt, rsum_eq_sum_fin]
    exact Finset.sum_congr rfl (fun k _ => by
      rw [Matrix.mul_diagonal, Matrix.transpose_apply, toMat_apply, toMat_apply, toVec_apply])
  have hentry := congrFun (congrFun hid ⟨a, ha⟩) ⟨b, hb⟩
  rw [Matrix.mul_apply, Matrix.one_apply] at hentry
  have hab : ((⟨a, ha⟩ : Fin d) = ⟨b, hb⟩) ↔ a = b := by simp
  simp only [hab] at hentry
  rw [← hentry]
  have hin : ∀ j : Fin d, (toMat d Q * diagonal (toVec d s) * (toMat d Q)ᵀ * (toMat d Q * diagonal (toVec d D) * (toMat d Q)ᵀ)) ⟨a, ha⟩ j
      * (toMat d Q * diagonal (toVec d s) * (toMat d Q)ᵀ)ᵀ j ⟨b, hb⟩
      = ∑ i : Fin d, zcaFactor Q s d a i * cov i j * zcaFactor Q s d b j := by
    intro j
    rw [Matrix.mul_apply, Matrix.transpose_apply, hC, Finset.sum_mul]
    exact Finset.sum_congr rfl (fun i _ => by rw [hC, hCov])
  rw [Finset.sum_congr rfl (fun j _ => hin j), Finset.sum_comm, rsum_eq_sum_fin]
  exact Finset.sum_congr rfl (fun i _ => by rw [rsum_eq_sum_fin])

/-! ### singular covariance: directions whose eigenvalue is cleared get the scale 0 -/

theorem zca_matrix_identity_general {n : Type} [Fintype n] [DecidableEq n] (Q : Matrix n n ℚ) (D s e : n → ℚ)
    (hQ : Qᵀ * Q = 1) (hs : ∀ k, s k * s k * D k = e k) :
    (Q * diagonal s * Qᵀ) * (Q * diagonal D * Qᵀ) * (Q * diagonal s * Qᵀ)ᵀ = Q * diagonal e * Qᵀ := by
  have ht : (Q * diagonal s * Qᵀ)ᵀ = Q * diagonal s * Qᵀ := by
    rw [transpose_mul, transpose_mul, transpose_transpose, diagonal_transpose, Matrix.mul_assoc]
  rw [ht]
  calc Q * diagonal s * Qᵀ * (Q * diagonal D * Qᵀ) * (Q * diagonal s * Qᵀ)
      = Q * diagonal s * (Qᵀ * Q) * diagonal D * (Qᵀ * Q) * diagonal s * Qᵀ := by
        simp only [Matrix.mul_assoc]
    _ = Q * (diagonal s * diagonal D * diagonal s) * Qᵀ := by
        rw [hQ]; simp only [Matrix.mul_one, Matrix.mul_assoc]
    _ = Q * diagonal e * Qᵀ := by
        congr 2
        rw [diagonal_mul_diagonal, diagonal_mul_diagonal]
        congr 1
        funext k
        have := hs k
        rw [← this]; ring

/-- `Q·diag(e)·Qᵀ` with `e_k ∈ {0,1}` is idempotent: the orthogonal projector onto the kept eigen-directions -/
theorem zca_projector_idem {n : Type} [Fintype n] [DecidableEq n] (Q : Matrix n n ℚ) (e : n → ℚ)
    (hQ : Qᵀ * Q = 1) (he : ∀ k, e k * e k = e k) :
    (Q * diagonal e * Qᵀ) * (Q * diagonal e * Qᵀ) = Q * diagonal e * Qᵀ := by
  calc Q * diagonal e * Qᵀ * (Q * diagonal e * Qᵀ)
      = Q * diagonal e * (Qᵀ * Q) * diagonal e * Qᵀ := by simp only [Matrix.mul_assoc]
    _ = Q * (diagonal e * diagonal e) * Qᵀ := by rw [hQ]; simp only [Matrix.mul_one, Matrix.mul_assoc]
    _ = Q * diagonal e * Qᵀ := by
        congr 2
        rw [diagonal_mul_diagonal]
        congr 1
        funext k
        exact he k

theorem toMat_orthogonal (d : Nat) (Q : Nat → Nat → Rat)
    (hQ : ∀ k, k < d → ∀ l, l < d → rsum d (fun i => Q i k * Q i l) = if k = l then 1 else 0) :
    (toMat d Q)ᵀ * toMat d Q = 1 := by
  ext k l
  rw [Matrix.mul_apply, Matrix.one_apply]
  have := hQ k k.isLt l l.isLt
  rw [rsum_eq_sum_fin] at this
  simp only [Matrix.transpose_apply, toMat_apply]
  rw [this]
  by_cases h : k = l
  · simp [h]
  · have : (k : Nat) ≠ (l : Nat) := fun e => h (Fin.ext e)
    simp [h, this]

theorem toMat_diag_entry (d : Nat) (Q : Nat → Nat → Rat) (v : Nat → Rat) (a i : Fin d) :
    (toMat d Q * diagonal (toVec d v) * (toMat d Q)ᵀ) a i = rsum d (fun k => Q a k * v k * Q i k) := by
  rw [Matrix.mul_apply, rsum_eq_sum_fin]
  exact Finset.sum_congr rfl (fun k _ => by
    rw [Matrix.mul_diagonal, Matrix.transpose_apply, toMat_apply, toMat_apply, toVec_apply])

/-- the factor `Q·diag(s)·Qᵀ` with `s_k²·D_k = e_k`: `C·Cov·Cᵀ = Q·diag(e)·Qᵀ` -/
theorem zca_factor_spec_general (d : Nat) (Q : Nat → Nat → Rat) (D s e : Nat → Rat) (cov : Nat → Nat → Rat)
    (hQ : ∀ k, k < d → ∀ l, l < d → rsum d (fun i => Q i k * Q i l) = if k = l then 1 else 0)
    (hcov : ∀ i, i < d → ∀ j, j < d → cov i j = rsum d (fun k => Q i k * D k * Q j k))
    (hs : ∀ k, k < d → s k * s k * D k = e k)
    (a b : Nat) (ha : a < d) (hb : b < d) :
    rsum d (fun i => rsum d (fun j => zcaFactor Q s d a i * cov i j * zcaFactor Q s d b j))
      = rsum d (fun k => Q a k * e k * Q b k) := by
  have hQm := toMat_orthogonal d Q hQ
  have hid := zca_matrix_identity_general (toMat d Q) (toVec d D) (toVec d s) (toVec d e) hQm (fun k => hs k k.isLt)
  have hC : ∀ a i : Fin d, (toMat d Q * diagonal (toVec d s) * (toMat d Q)ᵀ) a i = zcaFactor Q s d a i :=
    fun a i => toMat_diag_entry d Q s a i
  have hCov : ∀ i j : Fin d, (toMat d Q * diagonal (toVec d D) * (toMat d Q)ᵀ) i j = cov i j := by
    intro i j
    rw [toMat_diag_entry, hcov i i.isLt j j.isLt]
  have hentry := congrFun (congrFun hid ⟨a, ha⟩) ⟨b, hb⟩
  rw [Matrix.mul_apply, toMat_diag_entry] at hentry
  rw [← hentry]
  have hin : ∀ j : Fin d, (toMat d Q * diagonal (toVec d s) * (toMat d Q)ᵀ * (toMat d Q * diagonal (toVec d D) * (toMat d Q)ᵀ)) ⟨a, ha⟩ j
      * (toMat d Q * diagonal (toVec d s) * (toMat d Q)ᵀ)ᵀ j ⟨b, hb⟩
      = ∑ i : Fin d, zcaFactor Q s d a i * cov i j * zcaFactor Q s d b j := by
    intro j
    rw [Matrix.mul_apply, Matrix.transpose_apply, hC, Finset.sum_mul]
    exact Finset.sum_congr rfl (fun i _ => by rw [hC, hCov])
  rw [Finset.sum_congr rfl (fun j _ => hin j), Finset.sum_comm, rsum_eq_sum_fin]
  exact Finset.sum_congr rfl (fun i _ => by rw [rsum_eq_sum_fin])

/-- the projector in function form is idempotent -/
theorem zca_projector_spec (d : Nat) (Q : Nat → Nat → Rat) (e : Nat → Rat)
    (hQ : ∀ k, k < d → ∀ l, l < d → rsum d (fun i => Q i k * Q i l) = if k = l then 1 else 0)
    (he : ∀ k, k < d → e k * e k = e k) (a b : Nat) (ha : a < d) (hb : b < d) :
    rsum d (fun j => rsum d (fun k => Q a k * e k * Q j k) * rsum d (fun k => Q j k * e k * Q b k))
      = rsum d (fun k => Q a k * e k * Q b k) := by
  have hQm := toMat_orthogonal d Q hQ
  have hid := zca_projector_idem (toMat d Q) (toVec d e) hQm (fun k => he k k.isLt)
  have hentry := congrFun (congrFun hid ⟨a, ha⟩) ⟨b, hb⟩
  rw [Matrix.mul_apply, toMat_diag_entry] at hentry
  rw [← hentry, rsum_eq_sum_fin]
  exact Finset.sum_congr rfl (fun j _ => by rw [toMat_diag_entry, toMat_diag_entry])

end SharkVerif.Trainers
