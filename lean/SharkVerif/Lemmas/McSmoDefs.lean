/-
Invariants of the `QpMcBoxDecomp` model (`Model/McSmo.lean`) at `α := Rat`:
definitions shared by `Lemmas/McSmoTables.lean`, `Lemmas/McSmoGrad.lean` and `Props/C16.lean`.
-/
import SharkVerif.Model.McSmo
import Mathlib.Tactic.Ring
import Mathlib.Tactic.Linarith
import Mathlib.Tactic.NormNum
import Mathlib.Algebra.BigOperators.Ring.Finset
import Mathlib.Algebra.BigOperators.Intervals
import Mathlib.Algebra.Order.Field.Rat
import Mathlib.Tactic.NormNum.OfScientific

namespace SharkVerif.Mc
open Finset

/-- number of variables `m_numVariables = cardP * numExamples` -/
abbrev McBox.nv (s : McBox Rat) : Nat := s.P * s.n

/-- **mc_tables_inv**: the per-example tables `var`/`avar`, the per-variable records
`(i, p, index)` and the example permutation stay mutually inverse, and the active/inactive
split of variables and examples is consistent. -/
structure TablesInv (s : McBox Rat) : Prop where
  aV_le : s.activeVar ≤ s.P * s.n
  aE_le : s.activeEx ≤ s.n
  /- `var` and `(i,p)` are mutually inverse -/
  var_lt : ∀ e < s.n, ∀ p < s.P, (s.ex e).var p < s.P * s.n
  var_i : ∀ e < s.n, ∀ p < s.P, (s.vars ((s.ex e).var p)).i = e
  var_p : ∀ e < s.n, ∀ p < s.P, (s.vars ((s.ex e).var p)).p = p
  v_i_lt : ∀ v < s.P * s.n, (s.vars v).i < s.n
  v_p_lt : ∀ v < s.P * s.n, (s.vars v).p < s.P
  v_var : ∀ v < s.P * s.n, (s.ex (s.vars v).i).var (s.vars v).p = v
  /- `avar` and `(i,index)` are mutually inverse -/
  avar_lt : ∀ e < s.n, ∀ b < s.P, (s.ex e).avar b < s.P * s.n
  avar_i : ∀ e < s.n, ∀ b < s.P, (s.vars ((s.ex e).avar b)).i = e
  avar_index : ∀ e < s.n, ∀ b < s.P, (s.vars ((s.ex e).avar b)).index = b
  v_index_lt : ∀ v < s.P * s.n, (s.vars v).index < s.P
  v_avar : ∀ v < s.P * s.n, (s.ex (s.vars v).i).avar (s.vars v).index = v
  /- the first `active` entries of `avar` are exactly the active variables of the example -/
  active_le : ∀ e < s.n, (s.ex e).active ≤ s.P
  active_iff : ∀ e < s.n, ∀ b < s.P, b < (s.ex e).active ↔ (s.ex e).avar b < s.activeVar
  /- examples beyond `activeEx` have no active variable -/
  inactive_ex : ∀ e, s.activeEx ≤ e → e < s.n → (s.ex e).active = 0
  /- `index` is a permutation of the original example indices and the labels travel with it -/
  index_lt : ∀ e < s.n, (s.ex e).index < s.n
  index_inj : ∀ e < s.n, ∀ e' < s.n, (s.ex e).index = (s.ex e').index → e = e'
  label_eq : ∀ e < s.n, (s.ex e).y = s.labels (s.ex e).index

/-- **mc_box_inv**: `0 ≤ α ≤ C` -/
def BoxInv (s : McBox Rat) : Prop := ∀ v < s.P * s.n, 0 ≤ s.alpha v ∧ s.alpha v ≤ s.C

/-- entry `(v, w)` of the big matrix `Q = M ⊗ K` in the CURRENT numbering of variables,
read from the original data: label and original index of the examples of `v` and `w` -/
def McBox.Q (s : McBox Rat) (v w : Nat) : Rat :=
  s.Mget (s.c * (s.P * (s.ex (s.vars v).i).y + (s.vars v).p) + (s.ex (s.vars w).i).y) (s.vars w).p
    * s.K (s.ex (s.vars v).i).index (s.ex (s.vars w).i).index

/-- **mc_grad_inv**: the stored gradient of every ACTIVE variable is `lin − Q·α`
(the sum runs over all variables, active or not) -/
def GradInv (s : McBox Rat) : Prop :=
  ∀ v < s.activeVar, s.grad v = s.lin v - ∑ w ∈ range (s.P * s.n), s.Q v w * s.alpha w

/-- well-formedness of the kernel-modifier table: explicit entries of every row have distinct
column indices below `P` (true for all generated tables: `C16.M_rows_wellformed`) -/
def MWF (s : McBox Rat) : Prop :=
  ∀ r, ((s.M r).entries.map Prod.fst).Nodup ∧ ∀ en ∈ (s.M r).entries, en.1 < s.P

/-- symmetry of `Q`: `M((y,p),(y',p')) = M((y',p'),(y,p))` (true for all generated tables, being
Gram matrices) and `K` symmetric -/
def QSym (s : McBox Rat) : Prop :=
  (∀ y p y' p', y < s.c → y' < s.c → p < s.P → p' < s.P →
    s.Mget (s.c * (s.P * y + p) + y') p' = s.Mget (s.c * (s.P * y' + p') + y) p) ∧
  (∀ i j, s.K i j = s.K j i)

/-- labels are below the class count -/
def LabelsOK (s : McBox Rat) : Prop := ∀ i < s.n, s.labels i < s.c

/-- the operations a client (QpSolver, BiasSolver, or an adversary) can perform -/
inductive Op where
  | smo (v w : Nat)
  | deactVar (v : Nat)
  | deactEx (e : Nat)
  | shrink (eps : Rat)
  | unshrink
  | addDelta (d : Nat → Nat → Rat)

/-- preconditions stated by the C++ (`SIZE_CHECK` / `SHARK_ASSERT`) -/
def Op.valid (s : McBox Rat) : Op → Prop
  | .smo v w => v < s.activeVar ∧ w < s.activeVar
  | .deactVar v => v < s.activeVar
  | .deactEx e => e < s.activeEx ∧ (s.ex e).active = 0
  | .shrink _ => True
  | .unshrink => True
  | .addDelta _ => True

def McBox.apply (s : McBox Rat) : Op → McBox Rat
  | .smo v w => s.updateSMO v w
  | .deactVar v => s.deactivateVariable v
  | .deactEx e => s.deactivateExample e
  | .shrink eps => (s.shrink eps).1
  | .unshrink => s.unshrink
  | .addDelta d => s.addDeltaLinear d

/-- a history is valid if every op satisfies its precondition in the state it is applied to -/
def ValidRun : McBox Rat → List Op → Prop
  | _, [] => True
  | s, op :: ops => op.valid s ∧ ValidRun (s.apply op) ops

def McBox.run (s : McBox Rat) (ops : List Op) : McBox Rat := ops.foldl McBox.apply s

end SharkVerif.Mc
