/-
`TablesInv` (mc_tables_inv) is established by the constructor of the `QpMcBoxDecomp` model and
preserved by every operation (`updateSMO`, `deactivateVariable`, `deactivateExample`, `shrink`,
`unshrink`, `addDeltaLinear`), hence holds after every valid history.
-/
import SharkVerif.Lemmas.McSmoDefs
namespace SharkVerif.Mc
open Finset

/-! ### the constructor -/

/-- the constructor establishes the invariant -/
theorem tablesInv_init (c P n : Nat) (C : Rat) (M : Nat → Row Rat) (K : Nat → Nat → Rat)
    (labels : Nat → Nat) (linMat : Nat → Nat → Rat) (hP : 0 < P) :
    TablesInv (McBox.init c P n C M K labels linMat) := by
  have hdiv : ∀ e p, p < P → (P * e + p) / P = e := by
    intro e p hp
    rw [Nat.mul_add_div hP, Nat.div_eq_of_lt hp, Nat.add_zero]
  have hmod : ∀ e p, p < P → (P * e + p) % P = p := by
    intro e p hp
    rw [Nat.mul_add_mod, Nat.mod_eq_of_lt hp]
  have hlt : ∀ e p, e < n → p < P → P * e + p < P * n := by
    intro e p he hp
    calc P * e + p < P * e + P := by omega
      _ = P * (e + 1) := by rw [Nat.mul_succ]
      _ ≤ P * n := Nat.mul_le_mul_left _ he
  have hdlt : ∀ v, v < P * n → v / P < n := by
    intro v hv
    exact Nat.div_lt_of_lt_mul hv
  constructor <;> simp only [McBox.init]
  · exact Nat.le_refl _
  · exact Nat.le_refl _
  · intro e he p hp; exact hlt e p he hp
  · intro e _ p hp; exact hdiv e p hp
  · intro e _ p hp; exact hmod e p hp
  · intro v hv; exact hdlt v hv
  · intro v _; exact Nat.mod_lt _ hP
  · intro v _; exact Nat.div_add_mod v P
  · intro e he p hp; exact hlt e p he hp
  · intro e _ p hp; exact hdiv e p hp
  · intro e _ p hp; exact hmod e p hp
  · intro v _; exact Nat.mod_lt _ hP
  · intro v _; exact Nat.div_add_mod v P
  · intro e _; exact Nat.le_refl _
  · intro e he b hb
    constructor
    · intro _; exact hlt e b he hb
    · intro _; exact hb
  · intro e h1 h2; omega
  · intro e he; exact he
  · intro e _ e' _ h; exact h
  · intro e _; trivial

/-! ### operations that do not touch the tables -/

/-- `TablesInv` only reads `P`, `n`, `ex`, `vars`, `activeEx`, `activeVar`, `labels` -/
theorem TablesInv.congr {s t : McBox Rat} (h : TablesInv s) (hP : t.P = s.P) (hn : t.n = s.n)
    (hex : t.ex = s.ex) (hvars : t.vars = s.vars) (hAE : t.activeEx = s.activeEx)
    (hAV : t.activeVar = s.activeVar) (hl : t.labels = s.labels) : TablesInv t := by
  constructor <;> simp only [hP, hn, hex, hvars, hAE, hAV, hl]
  exacts [h.aV_le, h.aE_le, h.var_lt, h.var_i, h.var_p, h.v_i_lt, h.v_p_lt, h.v_var, h.avar_lt,
    h.avar_i, h.avar_index, h.v_index_lt, h.v_avar, h.active_le, h.active_iff, h.inactive_ex,
    h.index_lt, h.index_inj, h.label_eq]

theorem tablesInv_gradientUpdate (s : McBox Rat) (h : TablesInv s) (r : Nat) (mu : Rat) (i : Nat) :
    TablesInv (s.gradientUpdate r mu i) :=
  h.congr rfl rfl rfl rfl rfl rfl rfl

theorem tablesInv_updateSMO (s : McBox Rat) (h : TablesInv s) (v w : Nat) :
    TablesInv (s.updateSMO v w) := by
  unfold McBox.updateSMO
  split
  · apply tablesInv_gradientUpdate
    exact h.congr rfl rfl rfl rfl rfl rfl rfl
  · apply tablesInv_gradientUpdate
    apply tablesInv_gradientUpdate
    exact h.congr rfl rfl rfl rfl rfl rfl rfl

theorem tablesInv_addDeltaLinear (s : McBox Rat) (h : TablesInv s) (d : Nat → Nat → Rat) :
    TablesInv (s.addDeltaLinear d) :=
  h.congr rfl rfl rfl rfl rfl rfl rfl

/-! ### unshrink -/

theorem tablesInv_unshrink (s : McBox Rat) (h : TablesInv s) : TablesInv s.unshrink := by
  unfold McBox.unshrink
  split
  · exact h
  · constructor <;> simp only [McBox.numVars]
    · exact Nat.le_refl _
    · exact Nat.le_refl _
    · intro e he p hp; simp only [he, if_true]; exact h.var_lt e he p hp
    · intro e he p hp; simp only [he, if_true]; exact h.var_i e he p hp
    · intro e he p hp; simp only [he, if_true]; exact h.var_p e he p hp
    · exact h.v_i_lt
    · exact h.v_p_lt
    · intro v hv; simp only [h.v_i_lt v hv, if_true]; exact h.v_var v hv
    · intro e he p hp; simp only [he, if_true]; exact h.avar_lt e he p hp
    · intro e he p hp; simp only [he, if_true]; exact h.avar_i e he p hp
    · intro e he p hp; simp only [he, if_true]; exact h.avar_index e he p hp
    · exact h.v_index_lt
    · intro v hv; simp only [h.v_i_lt v hv, if_true]; exact h.v_avar v hv
    · intro e he; simp only [he, if_true]; exact Nat.le_refl _
    · intro e he b hb; simp only [he, if_true]
      exact ⟨fun _ => h.avar_lt e he b hb, fun _ => hb⟩
    · intro e h1 h2; omega
    · intro e he; simp only [he, if_true]; exact h.index_lt e he
    · intro e he e' he' hh; simp only [he, he', if_true] at hh; exact h.index_inj e he e' he' hh
    · intro e he; simp only [he, if_true]; exact h.label_eq e he

/-- consequence used elsewhere: an active variable belongs to an active example -/
theorem active_var_active_ex (s : McBox Rat) (h : TablesInv s) (v : Nat) (hv : v < s.activeVar) :
    (s.vars v).i < s.activeEx := by
  have hv' : v < s.P * s.n := Nat.lt_of_lt_of_le hv h.aV_le
  have hi := h.v_i_lt v hv'
  by_contra hc
  have h0 := h.inactive_ex _ (Nat.le_of_not_lt hc) hi
  have h1 := (h.active_iff _ hi _ (h.v_index_lt v hv')).2 (by rw [h.v_avar v hv']; exact hv)
  omega

/-! ### deactivateExample -/

/-- transposition of two example positions -/
def tr (e j x : Nat) : Nat := if x = e then j else if x = j then e else x

theorem swp_eq_tr {β : Type} (f : Nat → β) (e j k : Nat) : swp f e j k = f (tr e j k) := by
  unfold swp tr; split_ifs <;> rfl

theorem tr_tr (e j x : Nat) : tr e j (tr e j x) = x := by
  unfold tr; split_ifs <;> omega

theorem tr_left (e j : Nat) : tr e j e = j := by unfold tr; simp

theorem tr_right (e j : Nat) : tr e j j = e := by unfold tr; split_ifs <;> simp_all

theorem tr_other {e j x : Nat} (h1 : x ≠ e) (h2 : x ≠ j) : tr e j x = x := by
  unfold tr; simp [h1, h2]

theorem tr_lt {e j x n : Nat} (he : e < n) (hj : j < n) (hx : x < n) : tr e j x < n := by
  unfold tr; split_ifs <;> assumption

theorem deactEx_spec (s : McBox Rat) (h : TablesInv s) (e : Nat) (he : e < s.activeEx)
    (hne : e ≠ s.activeEx - 1) :
    (s.deactivateExample e).P = s.P ∧ (s.deactivateExample e).n = s.n ∧
    (s.deactivateExample e).ex = swp s.ex e (s.activeEx - 1) ∧
    (s.deactivateExample e).activeEx = s.activeEx - 1 ∧
    (s.deactivateExample e).activeVar = s.activeVar ∧
    (s.deactivateExample e).labels = s.labels ∧
    ∀ x, ((s.deactivateExample e).vars x).p = (s.vars x).p ∧
      ((s.deactivateExample e).vars x).index = (s.vars x).index ∧
      (x < s.P * s.n → ((s.deactivateExample e).vars x).i = tr e (s.activeEx - 1) (s.vars x).i) := by
  unfold McBox.deactivateExample
  simp only [hne, if_false]
  refine ⟨trivial, trivial, trivial, trivial, trivial, trivial, ?_⟩
  intro x
  refine ⟨by split <;> rfl, by split <;> rfl, ?_⟩
  intro hx
  have hAE := h.aE_le
  have hen : e < s.n := by omega
  have hjn : s.activeEx - 1 < s.n := by omega
  split
  · rename_i w hw
    have hmem := List.mem_of_find?_eq_some hw
    have hp := List.find?_some hw
    simp only [beq_iff_eq] at hp
    simp only [List.mem_reverse, List.mem_flatMap, List.mem_range, List.mem_cons,
      List.not_mem_nil, or_false] at hmem
    obtain ⟨p, hpP, hw' | hw'⟩ := hmem
    · subst hw'
      simp only [swp, if_true] at hp ⊢
      rw [← hp, h.var_i _ hjn p hpP]
      unfold tr; split_ifs <;> omega
    · subst hw'
      simp only [swp] at hp ⊢
      rw [← hp]
      split_ifs at hp ⊢
      · omega
      · rw [h.var_i _ hen p hpP]; unfold tr; simp
  · rename_i hnone
    simp only [List.find?_eq_none, List.mem_reverse, List.mem_flatMap, List.mem_range,
      List.mem_cons, List.not_mem_nil, or_false, beq_iff_eq] at hnone
    have hpx := h.v_p_lt x hx
    have hvx := h.v_var x hx
    have h1 : (s.vars x).i ≠ e := by
      intro hc
      apply hnone _ ⟨(s.vars x).p, hpx, Or.inr rfl⟩
      simp only [swp]
      rw [← hc]; split_ifs <;> first | exact hvx | (exfalso; omega)
    have h2 : (s.vars x).i ≠ s.activeEx - 1 := by
      intro hc
      apply hnone _ ⟨(s.vars x).p, hpx, Or.inl rfl⟩
      simp only [swp, if_true]
      rw [← hc]; exact hvx
    unfold tr; simp [h1, h2]

theorem tablesInv_deactivateExample (s : McBox Rat) (h : TablesInv s) (e : Nat)
    (he : e < s.activeEx) (h0 : (s.ex e).active = 0) : TablesInv (s.deactivateExample e) := by
  by_cases hne : e = s.activeEx - 1
  · have hE : s.deactivateExample e = { s with activeEx := s.activeEx - 1 } := by
      unfold McBox.deactivateExample; simp only [hne, if_true]
    rw [hE]
    constructor <;> simp only
    · exact h.aV_le
    · have := h.aE_le; omega
    · exact h.var_lt
    · exact h.var_i
    · exact h.var_p
    · exact h.v_i_lt
    · exact h.v_p_lt
    · exact h.v_var
    · exact h.avar_lt
    · exact h.avar_i
    · exact h.avar_index
    · exact h.v_index_lt
    · exact h.v_avar
    · exact h.active_le
    · exact h.active_iff
    · intro e' h1 h2
      by_cases hc : e' = e
      · rw [hc]; exact h0
      · exact h.inactive_ex e' (by omega) h2
    · exact h.index_lt
    · exact h.index_inj
    · exact h.label_eq
  · obtain ⟨hP, hn, hex, hAE, hAV, hl, hv⟩ := deactEx_spec s h e he hne
    have hAEle := h.aE_le
    have hen : e < s.n := by omega
    have hjn : s.activeEx - 1 < s.n := by omega
    have hex' : ∀ k, (s.deactivateExample e).ex k = s.ex (tr e (s.activeEx - 1) k) := by
      intro k; rw [hex, swp_eq_tr]
    have htl : ∀ k, k < s.n → tr e (s.activeEx - 1) k < s.n := fun k hk => tr_lt hen hjn hk
    constructor <;> simp only [hP, hn, hex', hAE, hAV, hl]
    · exact h.aV_le
    · omega
    · intro k hk p hp; exact h.var_lt _ (htl k hk) p hp
    · intro k hk p hp
      rw [(hv _).2.2 (h.var_lt _ (htl k hk) p hp), h.var_i _ (htl k hk) p hp, tr_tr]
    · intro k hk p hp
      rw [(hv _).1, h.var_p _ (htl k hk) p hp]
    · intro v hvv; rw [(hv v).2.2 hvv]; exact htl _ (h.v_i_lt v hvv)
    · intro v hvv; rw [(hv v).1]; exact h.v_p_lt v hvv
    · intro v hvv; rw [(hv v).2.2 hvv, (hv v).1, tr_tr]; exact h.v_var v hvv
    · intro k hk p hp; exact h.avar_lt _ (htl k hk) p hp
    · intro k hk p hp
      rw [(hv _).2.2 (h.avar_lt _ (htl k hk) p hp), h.avar_i _ (htl k hk) p hp, tr_tr]
    · intro k hk p hp
      rw [(hv _).2.1, h.avar_index _ (htl k hk) p hp]
    · intro v hvv; rw [(hv v).2.1]; exact h.v_index_lt v hvv
    · intro v hvv; rw [(hv v).2.2 hvv, (hv v).2.1, tr_tr]; exact h.v_avar v hvv
    · intro k hk; exact h.active_le _ (htl k hk)
    · intro k hk b hb; exact h.active_iff _ (htl k hk) b hb
    · intro k h1 h2
      by_cases hc : k = s.activeEx - 1
      · rw [hc]; unfold tr; simp only [if_true]
        split_ifs with h4
        · exact absurd h4.symm hne
        · exact h0
      · have h3 : tr e (s.activeEx - 1) k = k := by
          unfold tr; rw [if_neg (by omega), if_neg hc]
        rw [h3]; exact h.inactive_ex k (by omega) h2
    · intro k hk; exact h.index_lt _ (htl k hk)
    · intro k hk k' hk' hh
      have := h.index_inj _ (htl k hk) _ (htl k' hk') hh
      rw [← tr_tr e (s.activeEx - 1) k, this, tr_tr]
    · intro k hk; exact h.label_eq _ (htl k hk)

/-! ### deactivateVariable -/

/-- first half of `deactivateVariable`: move `v` to the end of the active part of its example -/
def stepA (s : McBox Rat) (v : Nat) : McBox Rat :=
  let ev := (s.vars v).i
  let iv := (s.vars v).index
  let ih := (s.ex ev).active - 1
  let h := (s.ex ev).avar ih
  let vars := upd s.vars v { s.vars v with index := ih }
  let vars := upd vars h { vars h with index := iv }
  let ex := McBox.setEx s.ex ev fun e => { e with avar := swp e.avar iv ih, active := e.active - 1 }
  { s with vars := vars, ex := ex }

/-- second half: exchange the variables `v` and `activeVar - 1` -/
def stepB (s : McBox Rat) (v ev iv pv : Nat) : McBox Rat :=
  let j := s.activeVar - 1
  let ej := (s.vars j).i
  let ij := (s.vars j).index
  let pj := (s.vars j).p
  let alpha := swp s.alpha v j
  let grad := swp s.grad v j
  let lin := swp s.lin v j
  let vars := swp s.vars v j
  let a1 := (s.ex ev).avar iv
  let vars := upd vars a1 { vars a1 with index := ij }
  let a2 := (s.ex ej).avar ij
  let vars := upd vars a2 { vars a2 with index := iv }
  let ex := McBox.setEx s.ex ev fun e => { e with avar := upd e.avar iv j }
  let ex := McBox.setEx ex ev fun e => { e with var := upd e.var pv j }
  let ex := McBox.setEx ex ej fun e => { e with avar := upd e.avar ij v }
  let ex := McBox.setEx ex ej fun e => { e with var := upd e.var pj v }
  { s with vars := vars, ex := ex, alpha := alpha, grad := grad, lin := lin, activeVar := s.activeVar - 1 }

theorem deactVar_eq (s : McBox Rat) (v : Nat) :
    s.deactivateVariable v =
      stepB (stepA s v) v (s.vars v).i ((s.ex (s.vars v).i).active - 1) (s.vars v).p := rfl

/-- the invariant between the two halves: `v` (still below `activeVar`) already sits at the first
inactive position of its example -/
structure MidInv (s : McBox Rat) (v : Nat) : Prop where
  hv : v < s.activeVar
  aV_le : s.activeVar ≤ s.P * s.n
  aE_le : s.activeEx ≤ s.n
  var_lt : ∀ e < s.n, ∀ p < s.P, (s.ex e).var p < s.P * s.n
  var_i : ∀ e < s.n, ∀ p < s.P, (s.vars ((s.ex e).var p)).i = e
  var_p : ∀ e < s.n, ∀ p < s.P, (s.vars ((s.ex e).var p)).p = p
  v_i_lt : ∀ v < s.P * s.n, (s.vars v).i < s.n
  v_p_lt : ∀ v < s.P * s.n, (s.vars v).p < s.P
  v_var : ∀ v < s.P * s.n, (s.ex (s.vars v).i).var (s.vars v).p = v
  avar_lt : ∀ e < s.n, ∀ b < s.P, (s.ex e).avar b < s.P * s.n
  avar_i : ∀ e < s.n, ∀ b < s.P, (s.vars ((s.ex e).avar b)).i = e
  avar_index : ∀ e < s.n, ∀ b < s.P, (s.vars ((s.ex e).avar b)).index = b
  v_index_lt : ∀ v < s.P * s.n, (s.vars v).index < s.P
  v_avar : ∀ v < s.P * s.n, (s.ex (s.vars v).i).avar (s.vars v).index = v
  active_le : ∀ e < s.n, (s.ex e).active ≤ s.P
  active_iff : ∀ e < s.n, ∀ b < s.P,
    b < (s.ex e).active ↔ ((s.ex e).avar b < s.activeVar ∧ (s.ex e).avar b ≠ v)
  inactive_ex : ∀ e, s.activeEx ≤ e → e < s.n → (s.ex e).active = 0
  index_lt : ∀ e < s.n, (s.ex e).index < s.n
  index_inj : ∀ e < s.n, ∀ e' < s.n, (s.ex e).index = (s.ex e').index → e = e'
  label_eq : ∀ e < s.n, (s.ex e).y = s.labels (s.ex e).index

/-- position permutation inside example `ev` performed by `stepA` -/
def tau (ev iv ih e b : Nat) : Nat := if e = ev then tr iv ih b else b

theorem tau_tau (ev iv ih e b : Nat) : tau ev iv ih e (tau ev iv ih e b) = b := by
  unfold tau; split_ifs
  · exact tr_tr _ _ _
  · rfl

theorem tau_lt {ev iv ih e b P : Nat} (h1 : iv < P) (h2 : ih < P) (hb : b < P) :
    tau ev iv ih e b < P := by
  unfold tau; split_ifs
  · exact tr_lt h1 h2 hb
  · exact hb

theorem stepA_spec (s : McBox Rat) (h : TablesInv s) (v : Nat) (hv : v < s.activeVar) :
    (∀ e, ((stepA s v).ex e).index = (s.ex e).index ∧ ((stepA s v).ex e).y = (s.ex e).y ∧
      ((stepA s v).ex e).var = (s.ex e).var ∧
      ((stepA s v).ex e).active =
        (if e = (s.vars v).i then (s.ex e).active - 1 else (s.ex e).active) ∧
      ∀ b, ((stepA s v).ex e).avar b = (s.ex e).avar
        (tau (s.vars v).i (s.vars v).index ((s.ex (s.vars v).i).active - 1) e b)) ∧
    (∀ x, ((stepA s v).vars x).i = (s.vars x).i ∧ ((stepA s v).vars x).p = (s.vars x).p ∧
      (x < s.P * s.n → ((stepA s v).vars x).index =
        tau (s.vars v).i (s.vars v).index ((s.ex (s.vars v).i).active - 1) (s.vars x).i
          (s.vars x).index)) := by
  have hvn : v < s.P * s.n := Nat.lt_of_lt_of_le hv h.aV_le
  have hev := h.v_i_lt v hvn
  have hiv := h.v_index_lt v hvn
  have hact : (s.vars v).index < (s.ex (s.vars v).i).active :=
    (h.active_iff _ hev _ hiv).2 (by rw [h.v_avar v hvn]; exact hv)
  have hale := h.active_le _ hev
  have hih : (s.ex (s.vars v).i).active - 1 < s.P := by omega
  have hva := h.v_avar v hvn
  generalize hev' : (s.vars v).i = ev at *
  generalize hiv' : (s.vars v).index = iv at *
  generalize hih' : (s.ex ev).active - 1 = ih at *
  constructor
  · intro e
    unfold stepA
    simp only [McBox.setEx, hev', hiv', hih']
    refine ⟨by split <;> simp_all, by split <;> simp_all, by split <;> simp_all, ?_, ?_⟩
    · split_ifs with hc
      · subst hc; exact hih'.symm
      · rfl
    · intro b
      unfold tau
      split_ifs with hc
      · subst hc; simp only [swp_eq_tr]
      · rfl
  · intro x
    unfold stepA
    simp only [upd, hev', hiv', hih']
    refine ⟨?_, ?_, ?_⟩
    · split_ifs <;> simp_all
    · split_ifs <;> simp_all
    · intro hx
      have hxa := h.v_avar x hx
      have hhi := h.avar_i _ hev _ hih
      have hhx := h.avar_index _ hev _ hih
      generalize hh' : (s.ex ev).avar ih = hh at *
      by_cases hxh : x = hh
      · subst hxh
        rw [if_pos rfl, hhi, hhx]
        unfold tau; rw [if_pos rfl, tr_right]
      · rw [if_neg hxh]
        by_cases hxv : x = v
        · subst hxv
          rw [if_pos rfl, hev', hiv']
          unfold tau; rw [if_pos rfl, tr_left]
        · rw [if_neg hxv]
          unfold tau
          split_ifs with hc
          · rw [tr_other]
            · intro hc2; rw [hc, hc2, hva] at hxa; exact hxv hxa.symm
            · intro hc2; rw [hc, hc2, hh'] at hxa; exact hxh hxa.symm
          · rfl

theorem midInv_stepA (s : McBox Rat) (h : TablesInv s) (v : Nat) (hv : v < s.activeVar) :
    MidInv (stepA s v) v ∧ ((stepA s v).vars v).i = (s.vars v).i ∧
      ((stepA s v).vars v).p = (s.vars v).p ∧
      ((stepA s v).vars v).index = (s.ex (s.vars v).i).active - 1 := by
  obtain ⟨hex, hvars⟩ := stepA_spec s h v hv
  have hvn : v < s.P * s.n := Nat.lt_of_lt_of_le hv h.aV_le
  have hev := h.v_i_lt v hvn
  have hiv := h.v_index_lt v hvn
  have hact : (s.vars v).index < (s.ex (s.vars v).i).active :=
    (h.active_iff _ hev _ hiv).2 (by rw [h.v_avar v hvn]; exact hv)
  have hale := h.active_le _ hev
  have hih : (s.ex (s.vars v).i).active - 1 < s.P := by omega
  have hva := h.v_avar v hvn
  have hP : (stepA s v).P = s.P := rfl
  have hn : (stepA s v).n = s.n := rfl
  have hAE : (stepA s v).activeEx = s.activeEx := rfl
  have hAV : (stepA s v).activeVar = s.activeVar := rfl
  have hl : (stepA s v).labels = s.labels := rfl
  generalize hev' : (s.vars v).i = ev at *
  generalize hiv' : (s.vars v).index = iv at *
  generalize hih' : (s.ex ev).active - 1 = ih at *
  have htl : ∀ e b, b < s.P → tau ev iv ih e b < s.P := fun e b hb => tau_lt hiv hih hb
  refine ⟨?_, (hvars v).1.trans hev', (hvars v).2.1, ?_⟩
  · constructor <;> simp only [hP, hn, hAE, hAV, hl]
    · exact hv
    · exact h.aV_le
    · exact h.aE_le
    · intro e he p hp; rw [(hex e).2.2.1]; exact h.var_lt e he p hp
    · intro e he p hp; rw [(hex e).2.2.1, (hvars _).1]; exact h.var_i e he p hp
    · intro e he p hp; rw [(hex e).2.2.1, (hvars _).2.1]; exact h.var_p e he p hp
    · intro x hx; rw [(hvars _).1]; exact h.v_i_lt x hx
    · intro x hx; rw [(hvars _).2.1]; exact h.v_p_lt x hx
    · intro x hx; rw [(hvars _).1, (hvars _).2.1, (hex _).2.2.1]; exact h.v_var x hx
    · intro e he b hb; rw [(hex e).2.2.2.2]; exact h.avar_lt e he _ (htl e b hb)
    · intro e he b hb; rw [(hex e).2.2.2.2, (hvars _).1]; exact h.avar_i e he _ (htl e b hb)
    · intro e he b hb
      rw [(hex e).2.2.2.2, (hvars _).2.2 (h.avar_lt e he _ (htl e b hb)),
        h.avar_i e he _ (htl e b hb), h.avar_index e he _ (htl e b hb), tau_tau]
    · intro x hx; rw [(hvars _).2.2 hx]; exact htl _ _ (h.v_index_lt x hx)
    · intro x hx
      rw [(hvars _).1, (hvars _).2.2 hx, (hex _).2.2.2.2, tau_tau]; exact h.v_avar x hx
    · intro e he; rw [(hex e).2.2.2.1]
      have := h.active_le e he
      split_ifs <;> omega
    · intro e he b hb
      rw [(hex e).2.2.2.1, (hex e).2.2.2.2]
      unfold tau
      by_cases hc : e = ev
      · subst hc
        rw [if_pos rfl, if_pos rfl]
        by_cases hb1 : b = ih
        · subst hb1
          rw [tr_right, hva]
          constructor
          · intro hh; omega
          · intro hh; exact absurd rfl hh.2
        · by_cases hb2 : b = iv
          · subst hb2
            rw [tr_left]
            have h1 := (h.active_iff e he ih hih).1 (by omega)
            have h2 := h.avar_index e he ih hih
            constructor
            · intro _
              refine ⟨h1, ?_⟩
              intro hcc; rw [hcc, hiv'] at h2; exact hb1 h2
            · intro _; omega
          · rw [tr_other hb2 hb1]
            have h1 := h.active_iff e he b hb
            have h2 := h.avar_index e he b hb
            constructor
            · intro hlt
              refine ⟨h1.1 (by omega), ?_⟩
              intro hcc; rw [hcc, hiv'] at h2; exact hb2 h2.symm
            · intro hh
              have := h1.2 hh.1
              omega
      · rw [if_neg hc, if_neg hc]
        have h1 := h.active_iff e he b hb
        have h2 := h.avar_i e he b hb
        constructor
        · intro hlt
          refine ⟨h1.1 hlt, ?_⟩
          intro hcc; rw [hcc, hev'] at h2; exact hc h2.symm
        · intro hh; exact h1.2 hh.1
    · intro e h1 h2
      rw [(hex e).2.2.2.1, h.inactive_ex e h1 h2]
      split_ifs <;> rfl
    · intro e he; rw [(hex e).1]; exact h.index_lt e he
    · intro e he e' he' hh; rw [(hex e).1, (hex e').1] at hh; exact h.index_inj e he e' he' hh
    · intro e he; rw [(hex e).1, (hex e).2.1]; exact h.label_eq e he
  · rw [(hvars v).2.2 hvn, hev', hiv']
    unfold tau; rw [if_pos rfl, tr_left]

section setEx
variable (ex : Nat → Ex) (e i x k : Nat)

theorem setEx_avar_index :
    (McBox.setEx ex e (fun r => { r with avar := upd r.avar i x }) k).index = (ex k).index := by
  unfold McBox.setEx; split_ifs with hc
  · subst hc; rfl
  · rfl
theorem setEx_avar_y :
    (McBox.setEx ex e (fun r => { r with avar := upd r.avar i x }) k).y = (ex k).y := by
  unfold McBox.setEx; split_ifs with hc
  · subst hc; rfl
  · rfl
theorem setEx_avar_active :
    (McBox.setEx ex e (fun r => { r with avar := upd r.avar i x }) k).active = (ex k).active := by
  unfold McBox.setEx; split_ifs with hc
  · subst hc; rfl
  · rfl
theorem setEx_avar_var :
    (McBox.setEx ex e (fun r => { r with avar := upd r.avar i x }) k).var = (ex k).var := by
  unfold McBox.setEx; split_ifs with hc
  · subst hc; rfl
  · rfl
theorem setEx_avar_avar (b : Nat) :
    (McBox.setEx ex e (fun r => { r with avar := upd r.avar i x }) k).avar b =
      if k = e ∧ b = i then x else (ex k).avar b := by
  unfold McBox.setEx upd; split_ifs with h1 h2 h3 <;> simp_all
theorem setEx_var_index :
    (McBox.setEx ex e (fun r => { r with var := upd r.var i x }) k).index = (ex k).index := by
  unfold McBox.setEx; split_ifs with hc
  · subst hc; rfl
  · rfl
theorem setEx_var_y :
    (McBox.setEx ex e (fun r => { r with var := upd r.var i x }) k).y = (ex k).y := by
  unfold McBox.setEx; split_ifs with hc
  · subst hc; rfl
  · rfl
theorem setEx_var_active :
    (McBox.setEx ex e (fun r => { r with var := upd r.var i x }) k).active = (ex k).active := by
  unfold McBox.setEx; split_ifs with hc
  · subst hc; rfl
  · rfl
theorem setEx_var_avar :
    (McBox.setEx ex e (fun r => { r with var := upd r.var i x }) k).avar = (ex k).avar := by
  unfold McBox.setEx; split_ifs with hc
  · subst hc; rfl
  · rfl
theorem setEx_var_var (b : Nat) :
    (McBox.setEx ex e (fun r => { r with var := upd r.var i x }) k).var b =
      if k = e ∧ b = i then x else (ex k).var b := by
  unfold McBox.setEx upd; split_ifs with h1 h2 h3 <;> simp_all

end setEx

theorem stepB_spec (s : McBox Rat) (v : Nat) (m : MidInv s v) :
    (∀ x, (stepB s v (s.vars v).i (s.vars v).index (s.vars v).p).vars x =
      s.vars (tr v (s.activeVar - 1) x)) ∧
    (∀ e, ((stepB s v (s.vars v).i (s.vars v).index (s.vars v).p).ex e).index = (s.ex e).index ∧
      ((stepB s v (s.vars v).i (s.vars v).index (s.vars v).p).ex e).y = (s.ex e).y ∧
      ((stepB s v (s.vars v).i (s.vars v).index (s.vars v).p).ex e).active = (s.ex e).active) ∧
    (∀ e < s.n, ∀ b < s.P,
      ((stepB s v (s.vars v).i (s.vars v).index (s.vars v).p).ex e).avar b =
        tr v (s.activeVar - 1) ((s.ex e).avar b)) ∧
    (∀ e < s.n, ∀ p < s.P,
      ((stepB s v (s.vars v).i (s.vars v).index (s.vars v).p).ex e).var p =
        tr v (s.activeVar - 1) ((s.ex e).var p)) := by
  have hv := m.hv
  have hvn : v < s.P * s.n := Nat.lt_of_lt_of_le hv m.aV_le
  have hjn : s.activeVar - 1 < s.P * s.n := by have := m.aV_le; omega
  have hva := m.v_avar v hvn
  have hja := m.v_avar _ hjn
  have hvv := m.v_var v hvn
  have hjv := m.v_var _ hjn
  refine ⟨?_, ?_, ?_, ?_⟩
  · intro x
    unfold stepB
    simp only [hva, hja]
    generalize s.activeVar - 1 = j
    simp only [upd, swp]
    by_cases hxj : x = j
    · subst hxj
      rw [if_pos rfl, tr_right]
      by_cases hxv : x = v
      · subst hxv; simp
      · simp [hxv]
    · rw [if_neg hxj]
      by_cases hxv : x = v
      · subst hxv; rw [tr_left]; simp
      · rw [tr_other hxv hxj]; simp [hxv, hxj]
  · intro e
    unfold stepB
    simp only [setEx_avar_index, setEx_var_index, setEx_avar_y, setEx_var_y, setEx_avar_active,
      setEx_var_active, and_self]
  · intro e he b hb
    have hA : (s.ex e).avar b = v ↔ (e = (s.vars v).i ∧ b = (s.vars v).index) := by
      constructor
      · intro hc; rw [← hc, m.avar_i e he b hb, m.avar_index e he b hb]; exact ⟨rfl, rfl⟩
      · intro hc; rw [hc.1, hc.2]; exact hva
    have hB : (s.ex e).avar b = s.activeVar - 1 ↔
        (e = (s.vars (s.activeVar - 1)).i ∧ b = (s.vars (s.activeVar - 1)).index) := by
      constructor
      · intro hc; rw [← hc, m.avar_i e he b hb, m.avar_index e he b hb]; exact ⟨rfl, rfl⟩
      · intro hc; rw [hc.1, hc.2]; exact hja
    unfold stepB
    simp only [setEx_var_avar, setEx_avar_avar]
    generalize s.activeVar - 1 = j at *
    generalize (s.vars v).i = ev at *
    generalize (s.vars v).index = iv at *
    generalize (s.vars j).i = ej at *
    generalize (s.vars j).index = ij at *
    generalize (s.ex e).avar b = x at *
    unfold tr
    split_ifs <;> simp_all
  · intro e he p hp
    have hA : (s.ex e).var p = v ↔ (e = (s.vars v).i ∧ p = (s.vars v).p) := by
      constructor
      · intro hc; rw [← hc, m.var_i e he p hp, m.var_p e he p hp]; exact ⟨rfl, rfl⟩
      · intro hc; rw [hc.1, hc.2]; exact hvv
    have hB : (s.ex e).var p = s.activeVar - 1 ↔
        (e = (s.vars (s.activeVar - 1)).i ∧ p = (s.vars (s.activeVar - 1)).p) := by
      constructor
      · intro hc; rw [← hc, m.var_i e he p hp, m.var_p e he p hp]; exact ⟨rfl, rfl⟩
      · intro hc; rw [hc.1, hc.2]; exact hjv
    unfold stepB
    simp only [setEx_var_var, setEx_avar_var]
    generalize s.activeVar - 1 = j at *
    generalize (s.vars v).i = ev at *
    generalize (s.vars v).p = pv at *
    generalize (s.vars j).i = ej at *
    generalize (s.vars j).p = pj at *
    generalize (s.ex e).var p = x at *
    unfold tr
    split_ifs <;> simp_all

theorem tablesInv_stepB (s : McBox Rat) (v : Nat) (m : MidInv s v) :
    TablesInv (stepB s v (s.vars v).i (s.vars v).index (s.vars v).p) := by
  obtain ⟨hvars, hex, havar, hvar⟩ := stepB_spec s v m
  have hv := m.hv
  have hvn : v < s.P * s.n := Nat.lt_of_lt_of_le hv m.aV_le
  have hjn : s.activeVar - 1 < s.P * s.n := by have := m.aV_le; omega
  have hP : (stepB s v (s.vars v).i (s.vars v).index (s.vars v).p).P = s.P := rfl
  have hn : (stepB s v (s.vars v).i (s.vars v).index (s.vars v).p).n = s.n := rfl
  have hAE : (stepB s v (s.vars v).i (s.vars v).index (s.vars v).p).activeEx = s.activeEx := rfl
  have hAV : (stepB s v (s.vars v).i (s.vars v).index (s.vars v).p).activeVar =
    s.activeVar - 1 := rfl
  have hl : (stepB s v (s.vars v).i (s.vars v).index (s.vars v).p).labels = s.labels := rfl
  have htl : ∀ x, x < s.P * s.n → tr v (s.activeVar - 1) x < s.P * s.n :=
    fun x hx => tr_lt hvn hjn hx
  generalize stepB s v (s.vars v).i (s.vars v).index (s.vars v).p = t at *
  constructor <;> simp only [hP, hn, hAE, hAV, hl]
  · have := m.aV_le; omega
  · exact m.aE_le
  · intro e he p hp; rw [hvar e he p hp]; exact htl _ (m.var_lt e he p hp)
  · intro e he p hp; rw [hvar e he p hp, hvars, tr_tr]; exact m.var_i e he p hp
  · intro e he p hp; rw [hvar e he p hp, hvars, tr_tr]; exact m.var_p e he p hp
  · intro x hx; rw [hvars]; exact m.v_i_lt _ (htl x hx)
  · intro x hx; rw [hvars]; exact m.v_p_lt _ (htl x hx)
  · intro x hx
    rw [hvars, hvar _ (m.v_i_lt _ (htl x hx)) _ (m.v_p_lt _ (htl x hx)), m.v_var _ (htl x hx),
      tr_tr]
  · intro e he p hp; rw [havar e he p hp]; exact htl _ (m.avar_lt e he p hp)
  · intro e he p hp; rw [havar e he p hp, hvars, tr_tr]; exact m.avar_i e he p hp
  · intro e he p hp; rw [havar e he p hp, hvars, tr_tr]; exact m.avar_index e he p hp
  · intro x hx; rw [hvars]; exact m.v_index_lt _ (htl x hx)
  · intro x hx
    rw [hvars, havar _ (m.v_i_lt _ (htl x hx)) _ (m.v_index_lt _ (htl x hx)),
      m.v_avar _ (htl x hx), tr_tr]
  · intro e he; rw [(hex e).2.2]; exact m.active_le e he
  · intro e he b hb
    rw [(hex e).2.2, havar e he b hb, m.active_iff e he b hb]
    generalize (s.ex e).avar b = y
    unfold tr
    split_ifs <;> omega
  · intro e h1 h2; rw [(hex e).2.2]; exact m.inactive_ex e h1 h2
  · intro e he; rw [(hex e).1]; exact m.index_lt e he
  · intro e he e' he' hh; rw [(hex e).1, (hex e').1] at hh; exact m.index_inj e he e' he' hh
  · intro e he; rw [(hex e).1, (hex e).2.1]; exact m.label_eq e he

theorem tablesInv_deactivateVariable (s : McBox Rat) (h : TablesInv s) (v : Nat)
    (hv : v < s.activeVar) : TablesInv (s.deactivateVariable v) := by
  obtain ⟨m, h1, h2, h3⟩ := midInv_stepA s h v hv
  have := tablesInv_stepB (stepA s v) v m
  rw [h1, h2, h3] at this
  rw [deactVar_eq]; exact this

theorem deactivateVariable_activeVar (s : McBox Rat) (v : Nat) :
    (s.deactivateVariable v).activeVar = s.activeVar - 1 := rfl

theorem deactivateExample_activeEx (s : McBox Rat) (e : Nat) :
    (s.deactivateExample e).activeEx = s.activeEx - 1 := by
  unfold McBox.deactivateExample
  simp only
  split_ifs <;> rfl

/-! ### shrink -/

/-- loop body of `shrinkVars` -/
def svStep (A0 : Nat) (st : McBox Rat × Bool) (k : Nat) : McBox Rat × Bool :=
  let a := A0 - 1 - k
  let s := st.1
  let v := s.alpha a
  let g := s.grad a
  if (v == (0.0 : Rat) && decide (g ≤ (0.0 : Rat))) || (v == s.C && decide (g ≥ (0.0 : Rat))) then
    let e := (s.vars a).i
    let s' := s.deactivateVariable a
    (s', st.2 || (s'.ex e).active == 0)
  else st

theorem shrinkVars_eq (s : McBox Rat) :
    s.shrinkVars = (List.range s.activeVar).foldl (svStep s.activeVar) (s, false) := rfl

theorem svStep_inv (A0 : Nat) (st : McBox Rat × Bool) (k : Nat) (h : TablesInv st.1)
    (hA : A0 ≤ st.1.activeVar + k) (hk : k < A0) :
    TablesInv (svStep A0 st k).1 ∧ A0 ≤ (svStep A0 st k).1.activeVar + (k + 1) := by
  unfold svStep
  simp only
  split
  · refine ⟨tablesInv_deactivateVariable _ h _ (by omega), ?_⟩
    simp only [deactivateVariable_activeVar]; omega
  · exact ⟨h, by omega⟩

theorem svFold_inv (A0 : Nat) (s : McBox Rat) (h : TablesInv s) (hA : s.activeVar = A0) :
    ∀ k, k ≤ A0 → TablesInv ((List.range k).foldl (svStep A0) (s, false)).1 ∧
      A0 ≤ ((List.range k).foldl (svStep A0) (s, false)).1.activeVar + k := by
  intro k
  induction k with
  | zero => intro _; exact ⟨h, by simp [hA]⟩
  | succ k ih =>
    intro hk
    obtain ⟨h1, h2⟩ := ih (by omega)
    rw [List.range_succ, List.foldl_append]
    exact svStep_inv A0 _ k h1 h2 (by omega)

theorem tablesInv_shrinkVars (s : McBox Rat) (h : TablesInv s) : TablesInv s.shrinkVars.1 := by
  rw [shrinkVars_eq]
  exact (svFold_inv s.activeVar s h rfl s.activeVar (Nat.le_refl _)).1

/-- loop body of `shrinkExamples` -/
def seStep (E0 : Nat) (s : McBox Rat) (k : Nat) : McBox Rat :=
  let a := E0 - 1 - k
  if (s.ex a).active == 0 then s.deactivateExample a else s

theorem shrinkExamples_eq (s : McBox Rat) :
    s.shrinkExamples = (List.range s.activeEx).foldl (seStep s.activeEx) s := rfl

theorem seStep_inv (E0 : Nat) (s : McBox Rat) (k : Nat) (h : TablesInv s)
    (hA : E0 ≤ s.activeEx + k) (hk : k < E0) :
    TablesInv (seStep E0 s k) ∧ E0 ≤ (seStep E0 s k).activeEx + (k + 1) := by
  unfold seStep
  simp only
  split
  · rename_i h0
    refine ⟨tablesInv_deactivateExample _ h _ (by omega) (by simpa using h0), ?_⟩
    rw [deactivateExample_activeEx]; omega
  · exact ⟨h, by omega⟩

theorem seFold_inv (E0 : Nat) (s : McBox Rat) (h : TablesInv s) (hA : s.activeEx = E0) :
    ∀ k, k ≤ E0 → TablesInv ((List.range k).foldl (seStep E0) s) ∧
      E0 ≤ ((List.range k).foldl (seStep E0) s).activeEx + k := by
  intro k
  induction k with
  | zero => intro _; exact ⟨h, by simp [hA]⟩
  | succ k ih =>
    intro hk
    obtain ⟨h1, h2⟩ := ih (by omega)
    rw [List.range_succ, List.foldl_append]
    exact seStep_inv E0 _ k h1 h2 (by omega)

theorem tablesInv_shrinkExamples (s : McBox Rat) (h : TablesInv s) :
    TablesInv s.shrinkExamples := by
  rw [shrinkExamples_eq]
  exact (seFold_inv s.activeEx s h rfl s.activeEx (Nat.le_refl _)).1

theorem tablesInv_shrinkTail (s : McBox Rat) (h : TablesInv s) :
    TablesInv (if s.shrinkVars.2 then s.shrinkVars.1.shrinkExamples else s.shrinkVars.1) := by
  split
  · exact tablesInv_shrinkExamples _ (tablesInv_shrinkVars _ h)
  · exact tablesInv_shrinkVars _ h

theorem tablesInv_shrink (s : McBox Rat) (h : TablesInv s) (eps : Rat) :
    TablesInv (s.shrink eps).1 := by
  have h1 : TablesInv (if (!s.unshrinked) = true then
      if s.maxViolation < (10.0 : Rat) * eps then { s.unshrink with unshrinked := true } else s
      else s) := by
    split
    · split
      · exact (tablesInv_unshrink s h).congr rfl rfl rfl rfl rfl rfl rfl
      · exact h
    · exact h
  unfold McBox.shrink
  by_cases hu : (!s.useShrinking) = true
  · rw [if_pos hu]; exact h
  · rw [if_neg hu]
    exact tablesInv_shrinkTail _ h1

/-! ### all operations, all histories -/

/-- every op preserves the invariant … -/
theorem tablesInv_apply (s : McBox Rat) (h : TablesInv s) (op : Op) (hv : op.valid s) :
    TablesInv (s.apply op) := by
  cases op with
  | smo v w => exact tablesInv_updateSMO s h v w
  | deactVar v => exact tablesInv_deactivateVariable s h v hv
  | deactEx e => exact tablesInv_deactivateExample s h e hv.1 hv.2
  | shrink eps => exact tablesInv_shrink s h eps
  | unshrink => exact tablesInv_unshrink s h
  | addDelta d => exact tablesInv_addDeltaLinear s h d

/-- … hence it holds after every valid history (induction over the op list) -/
theorem tablesInv_run (ops : List Op) :
    ∀ (s : McBox Rat), TablesInv s → ValidRun s ops → TablesInv (s.run ops) := by
  induction ops with
  | nil => intro s h _; exact h
  | cons op ops ih =>
    intro s h hr
    exact ih (s.apply op) (tablesInv_apply s h op hr.1) hr.2

end SharkVerif.Mc
