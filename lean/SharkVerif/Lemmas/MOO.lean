/-
Lemmas for C14: counting argument for `IndicatorBasedSelection`.
-/
import SharkVerif.Model.MOO
import SharkVerif.Lemmas.FastSort
namespace SharkVerif.MOO
open SharkVerif.Pareto

/-- contract of `Indicator::leastContributors(front, archive, K)` for `K ≤ |front|`:
`K` distinct positions inside the front -/
def IndOK (ind : Indicator) : Prop :=
  ∀ front archive K, K ≤ front.length →
    (ind front archive K).length = K ∧ (ind front archive K).Nodup ∧
    ∀ x ∈ ind front archive K, x < front.length

/-- number of individuals of rank `≤ r` (the C++ `popSize` when the loop looks at rank `r`) -/
def countLe (ranks : List Nat) (r : Nat) : Nat :=
  (List.range ranks.length).countP fun i => decide (rankAt ranks i ≤ r)

def countLt (ranks : List Nat) (r : Nat) : Nat :=
  (List.range ranks.length).countP fun i => decide (rankAt ranks i < r)

theorem frontOf_length (ranks : List Nat) (r : Nat) :
    (frontOf ranks r).length = (List.range ranks.length).countP fun i => rankAt ranks i == r := by
  unfold frontOf; rw [List.countP_eq_length_filter]

theorem countP_le_split {α} (l : List α) (f : α → Nat) (r : Nat) :
    (l.countP fun i => decide (f i ≤ r)) = (l.countP fun i => decide (f i < r)) + l.countP fun i => f i == r := by
  induction l with
  | nil => rfl
  | cons x l ih =>
    simp only [List.countP_cons, ih]
    rcases Nat.lt_trichotomy (f x) r with h | h | h
    · have h1 : f x ≤ r := by omega
      have h2 : ¬ f x = r := by omega
      simp [h, h1, h2]; omega
    · subst h; simp; omega
    · have h1 : ¬ f x ≤ r := by omega
      have h2 : ¬ f x = r := by omega
      have h3 : ¬ f x < r := by omega
      simp [h1, h2, h3]

theorem countLe_eq (ranks : List Nat) (r : Nat) :
    countLe ranks r = countLt ranks r + (frontOf ranks r).length := by
  rw [frontOf_length]; exact countP_le_split _ _ _

theorem countLe_succ (ranks : List Nat) (r : Nat) :
    countLe ranks (r + 1) = countLe ranks r + (frontOf ranks (r + 1)).length := by
  rw [countLe_eq ranks (r + 1)]
  congr 1
  unfold countLt countLe
  apply List.countP_congr
  intro i _; simp; omega

theorem countLe_zero (ranks : List Nat) (hpos : ∀ i, i < ranks.length → 1 ≤ rankAt ranks i) :
    countLe ranks 0 = 0 := by
  unfold countLe
  rw [List.countP_eq_zero]
  intro i hi
  have := hpos i (List.mem_range.mp hi)
  simp; omega

theorem countLe_max (ranks : List Nat) : countLe ranks (ranks.foldl max 0) = ranks.length := by
  unfold countLe
  have : ∀ i ∈ List.range ranks.length, (decide (rankAt ranks i ≤ ranks.foldl max 0)) = true := by
    intro i hi
    have hi' := List.mem_range.mp hi
    have := (foldl_max_ge ranks 0).2 (rankAt ranks i) (by
      unfold rankAt
      rw [List.getD_eq_getElem?_getD, List.getElem?_eq_getElem hi']
      exact List.getElem_mem hi')
    simpa using this
  rw [List.countP_eq_length.mpr (by simpa using this)]
  simp

/-- result of the front-dropping loop -/
theorem dropFronts_spec (ranks : List Nat) (mu : Nat) (hmu : 1 ≤ mu)
    (hpos : ∀ i, i < ranks.length → 1 ≤ rankAt ranks i) :
    ∀ (rank popSize : Nat), popSize = countLe ranks rank → mu ≤ popSize →
      (dropFronts ranks mu rank popSize).2 = countLe ranks (dropFronts ranks mu rank popSize).1 ∧
      mu ≤ (dropFronts ranks mu rank popSize).2 ∧
      (dropFronts ranks mu rank popSize).2 - (frontOf ranks (dropFronts ranks mu rank popSize).1).length < mu ∧
      1 ≤ (dropFronts ranks mu rank popSize).1 := by
  intro rank
  induction rank with
  | zero =>
    intro p hp hm
    rw [countLe_zero ranks hpos] at hp
    omega
  | succ rank ih =>
    intro p hp hm
    unfold dropFronts
    by_cases hc : p - (frontOf ranks (rank + 1)).length ≥ mu
    · simp only [hc, if_true]
      apply ih
      · rw [hp, countLe_succ]; omega
      · exact hc
    · simp only [hc, if_false]
      exact ⟨hp, hm, by omega, by omega⟩

theorem countP_or_disjoint {α} (l : List α) (p q : α → Bool) (h : ∀ x, p x = true → q x = false) :
    (l.countP fun x => p x || q x) = l.countP p + l.countP q := by
  induction l with
  | nil => rfl
  | cons x l ih =>
    simp only [List.countP_cons, ih]
    cases hp : p x
    · cases hq : q x <;> simp <;> omega
    · simp [h x hp]; omega

/-- a duplicate-free sub-list `D` of a duplicate-free list `F` is hit exactly `|D|` times -/
theorem countP_contains (F D : List Nat) (hF : F.Nodup) (hD : D.Nodup) (hsub : ∀ x ∈ D, x ∈ F) :
    (F.countP fun i => D.contains i) = D.length := by
  rw [List.countP_eq_length_filter]
  apply List.Perm.length_eq
  rw [List.perm_ext_iff_of_nodup (List.Nodup.sublist List.filter_sublist hF) hD]
  intro a
  simp only [List.mem_filter, List.contains_iff_mem]
  constructor
  · intro h; exact h.2
  · intro h; exact ⟨hsub a h, h⟩

theorem countP_not (l : List Nat) (p : Nat → Bool) :
    (l.countP fun i => !p i) = l.length - l.countP p := by
  induction l with
  | nil => rfl
  | cons x l ih =>
    simp only [List.countP_cons, ih, List.length_cons]
    have := List.countP_le_length (p := p) (l := l)
    cases p x <;> simp <;> omega

theorem nodup_map_of_inj_on (l : List Nat) (f : Nat → Nat) (hnd : l.Nodup)
    (hinj : ∀ a ∈ l, ∀ b ∈ l, f a = f b → a = b) : (l.map f).Nodup := by
  induction l with
  | nil => simp
  | cons a l ih =>
    rw [List.map_cons, List.nodup_cons]
    rw [List.nodup_cons] at hnd
    refine ⟨?_, ih hnd.2 (fun x hx y hy => hinj x (by simp [hx]) y (by simp [hy]))⟩
    intro hm
    obtain ⟨b, hb, e⟩ := List.mem_map.mp hm
    have := hinj a (by simp) b (by simp [hb]) e.symm
    subst this; exact hnd.1 hb

theorem frontOf_nodup (ranks : List Nat) (r : Nat) : (frontOf ranks r).Nodup :=
  List.Nodup.sublist List.filter_sublist List.nodup_range

/-- **exactly `mu` individuals stay selected** -/
theorem select_count (ind : Indicator) (hind : IndOK ind) (ranks : List Nat) (mu : Nat)
    (hmu : 1 ≤ mu) (hn : mu ≤ ranks.length)
    (hpos : ∀ i, i < ranks.length → 1 ≤ rankAt ranks i) :
    (select ind ranks mu).count true = mu := by
  unfold select
  have hn0 : ¬ ranks.length = 0 := by omega
  simp only [hn0, if_false]
  have spec := dropFronts_spec ranks mu hmu hpos (ranks.foldl max 0) ranks.length
    (countLe_max ranks).symm hn
  generalize dropFronts ranks mu (List.foldl max 0 ranks) ranks.length = rp at spec
  obtain ⟨r, p⟩ := rp
  simp only at spec ⊢
  obtain ⟨hp, hm, hlt, _⟩ := spec
  have hK : p - mu ≤ (frontOf ranks r).length := by omega
  obtain ⟨hlen, hnd, hrange⟩ := hind (frontOf ranks r)
    ((List.range ranks.length).filter fun i => decide (1 ≤ rankAt ranks i) && decide (rankAt ranks i < r)) (p - mu) hK
  generalize ind (frontOf ranks r) _ (p - mu) = pos at hlen hnd hrange
  -- the deselected individuals
  have hFnd := frontOf_nodup ranks r
  have hDsub : ∀ x ∈ pos.map (fun lc => (frontOf ranks r).getD lc ranks.length), x ∈ frontOf ranks r := by
    intro x hx
    obtain ⟨lc, hlc, e⟩ := List.mem_map.mp hx
    have := hrange lc hlc
    rw [← e, List.getD_eq_getElem?_getD, List.getElem?_eq_getElem this]
    exact List.getElem_mem this
  have hDnd : (pos.map fun lc => (frontOf ranks r).getD lc ranks.length).Nodup := by
    apply nodup_map_of_inj_on _ _ hnd
    intro a ha b hb e
    have h1 := hrange a ha; have h2 := hrange b hb
    rw [List.getD_eq_getElem?_getD, List.getD_eq_getElem?_getD, List.getElem?_eq_getElem h1,
      List.getElem?_eq_getElem h2] at e
    simp only [Option.getD_some] at e
    exact (List.getElem_inj hFnd).mp e
  have hDlen : (pos.map fun lc => (frontOf ranks r).getD lc ranks.length).length = p - mu := by
    rw [List.length_map, hlen]
  generalize (pos.map fun lc => (frontOf ranks r).getD lc ranks.length) = D at hDsub hDnd hDlen ⊢
  rw [List.count_eq_countP, List.countP_map]
  have hfun : ((fun x => x == true) ∘ fun i =>
      decide (rankAt ranks i < r) || (rankAt ranks i == r && !D.contains i)) =
      fun i => decide (rankAt ranks i < r) || (rankAt ranks i == r && !D.contains i) := by
    funext i; simp
  rw [hfun, countP_or_disjoint _ _ _ (by
    intro x hx
    have : rankAt ranks x < r := by simpa using hx
    have h2 : ¬ rankAt ranks x = r := by omega
    simp [h2])]
  have hsecond : ((List.range ranks.length).countP fun i => rankAt ranks i == r && !D.contains i) =
      (frontOf ranks r).length - (p - mu) := by
    have e : ((List.range ranks.length).countP fun i => rankAt ranks i == r && !D.contains i) =
        (frontOf ranks r).countP fun i => !D.contains i := by
      rw [show frontOf ranks r = List.filter (fun i => rankAt ranks i == r) (List.range ranks.length) from rfl,
        List.countP_filter]
      apply List.countP_congr; intro i _; simp [Bool.and_comm]
    rw [e, countP_not, countP_contains _ _ hFnd hDnd hDsub, hDlen]
  rw [hsecond]
  have := countLe_eq ranks r
  unfold countLt at this
  omega

end SharkVerif.MOO
