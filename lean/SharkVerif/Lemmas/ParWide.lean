/-
C20 (widened): order independence up to an equivalence (collecting critical sections),
reductions over a commutative monoid for every work split, reference counts as atomic
fetch-add, per-thread k-heaps merged = global k smallest.
-/
import SharkVerif.Lemmas.ParCrit
import Mathlib.Data.List.Sort
import Mathlib.Order.Basic
namespace SharkVerif.Par
variable {V : Type}

/-! ### commuting up to an equivalence -/

theorem applyAll_congr_rel (R : V → V → Prop) (us : List (V → V))
    (hcong : ∀ f ∈ us, ∀ v w, R v w → R (f v) (f w)) : ∀ v w, R v w → R (applyAll v us) (applyAll w us) := by
  induction us with
  | nil => intro v w h; exact h
  | cons f us ih =>
    intro v w h
    simp only [applyAll, List.foldl_cons]
    exact ih (fun g hg => hcong g (List.mem_cons_of_mem _ hg)) _ _ (hcong f (by simp) v w h)

/-- updates that commute *up to* an equivalence `R` which they respect may be applied in any order, up to `R` -/
theorem applyAll_perm_rel (R : V → V → Prop) (hrefl : ∀ v, R v v) (htrans : ∀ a b c, R a b → R b c → R a c)
    {us vs : List (V → V)} (hp : us.Perm vs)
    (hcong : ∀ f ∈ us, ∀ v w, R v w → R (f v) (f w))
    (hc : ∀ f ∈ us, ∀ g ∈ us, ∀ v, R (f (g v)) (g (f v))) :
    ∀ v w, R v w → R (applyAll v us) (applyAll w vs) := by
  induction hp with
  | nil => intro v w h; exact h
  | cons x _ ih =>
    intro v w h
    simp only [applyAll, List.foldl_cons]
    exact ih (fun f hf => hcong f (List.mem_cons_of_mem _ hf))
      (fun f hf g hg => hc f (List.mem_cons_of_mem _ hf) g (List.mem_cons_of_mem _ hg)) _ _ (hcong x (by simp) v w h)
  | swap x y l =>
    intro v w h
    simp only [applyAll, List.foldl_cons]
    have h1 : R (x (y v)) (y (x v)) := hc x (by simp) y (by simp) v
    have h2 : R (y (x v)) (y (x w)) := hcong y (by simp) _ _ (hcong x (by simp) v w h)
    exact applyAll_congr_rel R l (fun f hf => hcong f (by simp [hf])) _ _ (htrans _ _ _ h1 h2)
  | trans h1 h2 ih1 ih2 =>
    intro v w h
    have a := ih1 hcong hc v w h
    have b := ih2 (fun f hf => hcong f (h1.mem_iff.2 hf))
      (fun f hf g hg => hc f (h1.mem_iff.2 hf) g (h1.mem_iff.2 hg)) w w (hrefl w)
    exact htrans _ _ _ a b

/-! ### folds over work splits -/

theorem foldl_op_shift (op : V → V → V) (hassoc : ∀ a b c, op (op a b) c = op a (op b c))
    (val : Nat → V) (is : List Nat) : ∀ a b, is.foldl (fun x i => op x (val i)) (op a b) = op a (is.foldl (fun x i => op x (val i)) b) := by
  induction is with
  | nil => intro a b; rfl
  | cons i is ih => intro a b; simp only [List.foldl_cons]; rw [hassoc]; exact ih a _

/-- merging the threads' partial results (each folded from the identity) = folding over the concatenation -/
theorem foldl_partials (op : V → V → V) (e : V) (hassoc : ∀ a b c, op (op a b) c = op a (op b c))
    (hid : ∀ a, op a e = a) (val : Nat → V) (parts : List (List Nat)) : ∀ init,
    (parts.map fun is => is.foldl (fun x i => op x (val i)) e).foldl op init =
      parts.flatten.foldl (fun x i => op x (val i)) init := by
  induction parts with
  | nil => intro init; rfl
  | cons p ps ih =>
    intro init
    simp only [List.map_cons, List.foldl_cons, List.flatten_cons, List.foldl_append]
    rw [ih]
    congr 1
    rw [← foldl_op_shift op hassoc val p init e, hid]

theorem foldl_perm_comm (op : V → V → V) (hcomm : ∀ a b, op a b = op b a) (hassoc : ∀ a b c, op (op a b) c = op a (op b c))
    (val : Nat → V) {l1 l2 : List Nat} (hp : l1.Perm l2) (init : V) :
    l1.foldl (fun x i => op x (val i)) init = l2.foldl (fun x i => op x (val i)) init := by
  have h : ∀ l : List Nat, l.foldl (fun x i => op x (val i)) init = applyAll init (l.map fun i => fun x => op x (val i)) := by
    intro l; simp [applyAll, List.foldl_map]
  rw [h, h]
  apply applyAll_perm (hp.map _)
  intro f hf g hg v
  obtain ⟨i, _, rfl⟩ := List.mem_map.1 hf
  obtain ⟨j, _, rfl⟩ := List.mem_map.1 hg
  show op (op v (val j)) (val i) = op (op v (val i)) (val j)
  rw [hassoc, hassoc, hcomm (val j)]

/-- consecutive ranges with boundaries `s 0 ≤ s 1 ≤ …` concatenate to one range -/
theorem flatMap_ranges (s : Nat → Nat) (hmono : ∀ t, s t ≤ s (t+1)) : ∀ T,
    (List.range T).flatMap (fun t => List.range' (s t) (s (t+1) - s t)) = List.range' (s 0) (s T - s 0) := by
  have hle : ∀ T, s 0 ≤ s T := by
    intro T; induction T with
    | zero => exact Nat.le_refl _
    | succ T ih => exact Nat.le_trans ih (hmono T)
  intro T
  induction T with
  | zero => simp
  | succ T ih =>
    rw [List.range_succ, List.flatMap_append, ih]
    simp only [List.flatMap_cons, List.flatMap_nil, List.append_nil]
    have h1 := hle T
    have h2 := hmono T
    have e : s 0 + (s T - s 0) = s T := by omega
    have := List.range'_append (s := s 0) (m := s T - s 0) (n := s (T+1) - s T) (step := 1)
    simp only [Nat.one_mul, e] at this
    rw [this]
    congr 1
    omega

/-! ### reference counts: translations of `Int` -/

/-- total increment of a list of updates (meaningful when all are translations) -/
def deltaSum (us : List (Int → Int)) : Int := (us.map fun u => u 0).sum

theorem applyAll_translations (us : List (Int → Int)) (htr : ∀ u ∈ us, ∀ v, u v = v + u 0) (v : Int) :
    applyAll v us = v + deltaSum us := by
  induction us generalizing v with
  | nil => simp [applyAll, deltaSum]
  | cons u us ih =>
    simp only [applyAll, List.foldl_cons] at *
    rw [ih (fun w hw => htr w (List.mem_cons_of_mem _ hw)), htr u (by simp) v]
    simp [deltaSum]; omega

theorem deltaSum_perm {us vs : List (Int → Int)} (hp : us.Perm vs) : deltaSum us = deltaSum vs := by
  induction hp with
  | nil => rfl
  | cons x _ ih => simp only [deltaSum, List.map_cons, List.sum_cons] at *; omega
  | swap x y l => simp only [deltaSum, List.map_cons, List.sum_cons]; omega
  | trans _ _ ih1 ih2 => exact ih1.trans ih2

theorem deltaSum_append (us vs : List (Int → Int)) : deltaSum (us ++ vs) = deltaSum us + deltaSum vs := by
  simp [deltaSum]

theorem deltaSum_flatMap_nonneg {α : Type} (ts : List α) (g : α → List (Int → Int)) (h : ∀ t ∈ ts, 0 ≤ deltaSum (g t)) :
    0 ≤ deltaSum (ts.flatMap g) := by
  induction ts with
  | nil => simp [deltaSum]
  | cons t ts ih =>
    simp only [List.flatMap_cons, deltaSum_append]
    have := h t (by simp)
    have := ih (fun u hu => h u (List.mem_cons_of_mem _ hu))
    omega

theorem deltaSum_flatMap_zero {α : Type} (ts : List α) (g : α → List (Int → Int)) (h : ∀ t ∈ ts, deltaSum (g t) = 0) :
    deltaSum (ts.flatMap g) = 0 := by
  induction ts with
  | nil => simp [deltaSum]
  | cons t ts ih =>
    simp only [List.flatMap_cons, deltaSum_append]
    rw [h t (by simp), ih (fun u hu => h u (List.mem_cons_of_mem _ hu))]; rfl

/-! ### bounded heaps -/
section Heaps
variable {α : Type} [LinearOrder α]

/-- the bounded max-heap of `SimpleNearestNeighbors` seen through its sorted content: offer `x`, keep the `k` smallest -/
def hpush (k : Nat) (h : List α) (x : α) : List α := (h.orderedInsert (· ≤ ·) x).take k

/-- a thread's heap after it has seen the distances `l` (in that order) -/
def heapOf (k : Nat) (l : List α) : List α := l.foldl (hpush k) []

def insAll (s : List α) (b : List α) : List α := b.foldl (fun s x => s.orderedInsert (· ≤ ·) x) s

omit [LinearOrder α] in
theorem take_cons_take (a : α) (s : List α) (k : Nat) : (a :: s.take k).take k = (a :: s).take k := by
  cases k with
  | zero => rfl
  | succ j => simp [List.take_take]

/-- truncating before or after an insertion gives the same `k` smallest -/
theorem take_orderedInsert_take (x : α) : ∀ (s : List α) (k : Nat),
    ((s.take k).orderedInsert (· ≤ ·) x).take k = (s.orderedInsert (· ≤ ·) x).take k := by
  intro s
  induction s with
  | nil => intro k; simp
  | cons a s ih =>
    intro k
    cases k with
    | zero => simp
    | succ k =>
      simp only [List.take_succ_cons, List.orderedInsert]
      by_cases h : x ≤ a
      · simp only [h, ↓reduceIte, List.take_succ_cons]
        rw [take_cons_take]
      · simp only [h, ↓reduceIte, List.take_succ_cons]
        rw [ih k]

theorem take_insAll_take (k : Nat) (b : List α) : ∀ s : List α, (insAll (s.take k) b).take k = (insAll s b).take k := by
  induction b with
  | nil => intro s; simp [insAll, List.take_take]
  | cons x b ih =>
    intro s
    simp only [insAll, List.foldl_cons] at *
    rw [← ih ((s.take k).orderedInsert (· ≤ ·) x), take_orderedInsert_take, ih]

theorem insAll_sorted (b : List α) : ∀ s : List α, s.Pairwise (· ≤ ·) → (insAll s b).Pairwise (· ≤ ·) := by
  induction b with
  | nil => intro s h; exact h
  | cons x b ih => intro s h; exact ih _ (h.orderedInsert x s)

theorem insAll_perm (b : List α) : ∀ s : List α, (insAll s b).Perm (s ++ b) := by
  induction b with
  | nil => intro s; simp [insAll]
  | cons x b ih =>
    intro s
    simp only [insAll, List.foldl_cons]
    refine (ih _).trans ?_
    refine ((List.perm_orderedInsert (· ≤ ·) x s).append_right b).trans ?_
    simp only [List.cons_append]
    exact List.perm_middle.symm

theorem insAll_eq_sort (s b : List α) (hs : s.Pairwise (· ≤ ·)) : insAll s b = (s ++ b).insertionSort (· ≤ ·) :=
  List.Perm.eq_of_pairwise' (insAll_sorted b s hs) (List.pairwise_insertionSort _ _)
    ((insAll_perm b s).trans (List.perm_insertionSort _ _).symm)

theorem sort_perm_eq {a b : List α} (h : a.Perm b) : a.insertionSort (· ≤ ·) = b.insertionSort (· ≤ ·) :=
  List.Perm.eq_of_pairwise' (List.pairwise_insertionSort _ _) (List.pairwise_insertionSort _ _)
    (((List.perm_insertionSort _ a).trans h).trans (List.perm_insertionSort _ b).symm)

/-- a thread's bounded heap holds exactly the `k` smallest of what it has seen, sorted -/
theorem heapOf_eq (k : Nat) (l : List α) : heapOf k l = (l.insertionSort (· ≤ ·)).take k := by
  have h : ∀ (l s : List α), l.foldl (hpush k) (s.take k) = (insAll s l).take k := by
    intro l
    induction l with
    | nil => intro s; simp [insAll]
    | cons x l ih =>
      intro s
      simp only [List.foldl_cons, hpush, insAll]
      rw [take_orderedInsert_take, ih]
      rfl
  have := h l []
  simp only [List.take_nil] at this
  unfold heapOf
  rw [this, insAll_eq_sort [] l List.Pairwise.nil]
  simp

/-- replacing a part by its `k` smallest does not change the `k` smallest of the whole -/
theorem take_sort_take_append (k : Nat) (a b : List α) :
    (((a.insertionSort (· ≤ ·)).take k ++ b).insertionSort (· ≤ ·)).take k = ((a ++ b).insertionSort (· ≤ ·)).take k := by
  have hs : (a.insertionSort (· ≤ ·)).Pairwise (· ≤ ·) := List.pairwise_insertionSort _ _
  have hs' : ((a.insertionSort (· ≤ ·)).take k).Pairwise (· ≤ ·) := hs.sublist (List.take_sublist _ _)
  rw [← insAll_eq_sort _ b hs', take_insAll_take, insAll_eq_sort _ b hs]
  congr 1
  exact sort_perm_eq ((List.perm_insertionSort _ a).append_right b)

theorem take_sort_congr_left (k : Nat) (a a' c : List α)
    (h : (a.insertionSort (· ≤ ·)).take k = (a'.insertionSort (· ≤ ·)).take k) :
    ((a ++ c).insertionSort (· ≤ ·)).take k = ((a' ++ c).insertionSort (· ≤ ·)).take k := by
  rw [← take_sort_take_append, h, take_sort_take_append]

/-- **merging the per-thread heaps** (each the `k` smallest of that thread's share) and taking the `k` smallest
gives the `k` smallest of everything — for every number of threads, every share, every `k` -/
theorem merge_heaps (k : Nat) (parts : List (List α)) :
    (((parts.map (heapOf k)).flatten).insertionSort (· ≤ ·)).take k = (parts.flatten.insertionSort (· ≤ ·)).take k := by
  induction parts with
  | nil => rfl
  | cons p ps ih =>
    simp only [List.map_cons, List.flatten_cons]
    rw [heapOf_eq, take_sort_take_append]
    have e1 : (p ++ (ps.map (heapOf k)).flatten).insertionSort (· ≤ ·) = ((ps.map (heapOf k)).flatten ++ p).insertionSort (· ≤ ·) :=
      sort_perm_eq List.perm_append_comm
    have e2 : (p ++ ps.flatten).insertionSort (· ≤ ·) = (ps.flatten ++ p).insertionSort (· ≤ ·) :=
      sort_perm_eq List.perm_append_comm
    rw [e1, e2]
    exact take_sort_congr_left k _ _ p ih

end Heaps
end SharkVerif.Par
