/-
Lemmas about the models of `wolfecubic` and `dlinmin` (`Model/LineSearches.lean`), property C10.
-/
import SharkVerif.Model.LineSearches
import Mathlib.Tactic.Linarith
import Mathlib.Tactic.SplitIfs
namespace SharkVerif.Opt
variable {α : Type} [Scalar α]

/-! ## dlinmin: the Brent stage keeps `fx = f(p + x·dir)` -/

theorem dBrentUpd_fx (o : Objective α) (p dir : Vec α) (s : DBrent α) (d e u du : α)
    (h : s.fx = o.f (Vec.axpy p s.x dir)) :
    (dBrentUpd s d e u (o.f (Vec.axpy p u dir)) du).fx
      = o.f (Vec.axpy p (dBrentUpd s d e u (o.f (Vec.axpy p u dir)) du).x dir) := by
  unfold dBrentUpd
  dsimp only
  split_ifs <;> first | rfl | exact h

theorem dBrent_fx (o : Objective α) (p dir : Vec α) : ∀ (k : Nat) (s : DBrent α),
    s.fx = o.f (Vec.axpy p s.x dir) →
    (dBrent o p dir k s).fx = o.f (Vec.axpy p (dBrent o p dir k s).x dir) := by
  intro k
  induction k with
  | zero => intro s h; exact h
  | succ k ih =>
    intro s h
    unfold dBrent
    dsimp only
    split_ifs <;> first | exact h | exact ih _ (dBrentUpd_fx o p dir s _ _ _ _ h)

/-- **dlinmin_sound.**  For every scalar type (in particular `Float`), every objective, point, direction, initial
bracket and whatever the caller passes as value and gradient: the value returned by `dlinmin` is the objective
at the returned point and the returned gradient is the gradient there. -/
theorem dlinmin_sound (ax bx : α) (o : Objective α) (p : Vec α) (v : α) (d g : Vec α) (t : α) :
    (dlinmin ax bx o p v d g t).value = o.f (dlinmin ax bx o p v d g t).point ∧
    (dlinmin ax bx o p v d g t).gradient = o.grad (dlinmin ax bx o p v d g t).point := by
  unfold dlinmin
  dsimp only
  split
  · exact ⟨rfl, rfl⟩
  · next s _ =>
    split_ifs
    · exact ⟨dBrent_fx o p d 100 _ rfl, rfl⟩
    · exact ⟨rfl, rfl⟩

/-- **dlinmin_no_increase.**  Over `Rat`: the returned value is at most `f(p)` — along *any* direction (also an
ascent direction), for any initial bracket: the minimiser found by the Brent stage is adopted only if it is
strictly better than the start. -/
theorem dlinmin_no_increase (ax bx : Rat) (o : Objective Rat) (p : Vec Rat) (v : Rat) (d g : Vec Rat) (t : Rat) :
    (dlinmin ax bx o p v d g t).value ≤ o.f p ∧
    ((dlinmin ax bx o p v d g t).point = p ∨ (dlinmin ax bx o p v d g t).value < o.f p) := by
  unfold dlinmin
  dsimp only
  split
  · exact ⟨le_refl _, Or.inl rfl⟩
  · split_ifs with h
    · exact ⟨le_of_lt h, Or.inr h⟩
    · exact ⟨le_refl _, Or.inl rfl⟩

/-! ## wolfecubic -/

/-- entry `(t, f, g)` of the bracket is a real evaluation: `f = f(point + t·dir)`, `g = ∇f(point + t·dir)` -/
def WEntry (o : Objective α) (point dir : Vec α) (t f : α) (g : Vec α) : Prop :=
  f = o.f (Vec.axpy point t dir) ∧ g = o.grad (Vec.axpy point t dir)

def WBrOK (o : Objective α) (point dir : Vec α) (br : WBr α) : Prop :=
  WEntry o point dir br.t0 br.f0 br.g0 ∧ WEntry o point dir br.t1 br.f1 br.g1

theorem wolfeZoomUpd_ok (o : Objective α) (point dir : Vec α) (value gtd : α) (br : WBr α) (t : α) (gtdNew : α)
    (h : WBrOK o point dir br) :
    WBrOK o point dir (wolfeZoomUpd value gtd br t (o.f (Vec.axpy point t dir)) (o.grad (Vec.axpy point t dir)) gtdNew).1 := by
  obtain ⟨h0, h1⟩ := h
  have hn : WEntry o point dir t (o.f (Vec.axpy point t dir)) (o.grad (Vec.axpy point t dir)) := ⟨rfl, rfl⟩
  unfold wolfeZoomUpd
  dsimp only
  split_ifs <;> first | exact ⟨hn, h1⟩ | exact ⟨h0, hn⟩ | exact ⟨hn, h0⟩ | exact ⟨h1, hn⟩ | exact ⟨hn, hn⟩

theorem wolfeZoom_ok (sqrt : α → α) (o : Objective α) (point dir : Vec α) (value gtd maxD : α) :
    ∀ (k iter : Nat) (br : WBr α) (insuf : Bool), WBrOK o point dir br →
      WBrOK o point dir (wolfeZoom sqrt o point dir value gtd maxD k iter br insuf).1 := by
  intro k
  induction k with
  | zero => intro iter br insuf h; exact h
  | succ k ih =>
    intro iter br insuf h
    unfold wolfeZoom
    dsimp only
    have hu := wolfeZoomUpd_ok o point dir value gtd br (wolfeZoomT sqrt dir br insuf).1
      (Vec.dot (o.grad (Vec.axpy point (wolfeZoomT sqrt dir br insuf).1 dir)) dir) h
    split_ifs
    · exact h
    · exact hu
    · exact hu
    · exact ih _ _ _ hu

/-- what the bracketing phase establishes when it leaves its loop through a `break` (`iter ≤ maxIter`):
a `single` accepted point, or a bracket of two real evaluations -/
def WPhaseOK (o : Objective α) (point dir : Vec α) (ph : WPhase α) : Prop :=
  if ph.single then WEntry o point dir ph.br.t0 ph.br.f0 ph.br.g0 else WBrOK o point dir ph.br

theorem wolfeBracket_ok (o : Objective α) (point dir : Vec α) (value gtd : α) (junk : WBr α) :
    ∀ (k iter : Nat) (t tPrev fPrev : α) (gPrev : Vec α) (fNew : α) (gNew : Vec α) (gtdNew : α),
      WEntry o point dir tPrev fPrev gPrev → WEntry o point dir t fNew gNew →
      (WBrOK o point dir junk ∨
        (wolfeBracket o point dir value gtd junk k iter t tPrev fPrev gPrev fNew gNew gtdNew).iter ≤ k + iter) →
      WPhaseOK o point dir (wolfeBracket o point dir value gtd junk k iter t tPrev fPrev gPrev fNew gNew gtdNew) := by
  intro k
  induction k with
  | zero =>
    intro iter t tPrev fPrev gPrev fNew gNew gtdNew _ _ hj
    unfold wolfeBracket at hj ⊢
    rcases hj with hj | hle
    · simpa [WPhaseOK] using hj
    · simp at hle
  | succ k ih =>
    intro iter t tPrev fPrev gPrev fNew gNew gtdNew hp hn hj
    unfold wolfeBracket at hj ⊢
    dsimp only at hj ⊢
    split_ifs at hj ⊢
    · exact ⟨hp, hn⟩
    · exact hn
    · exact ⟨hp, hn⟩
    · exact ih _ _ _ _ _ _ _ _ hn ⟨rfl, rfl⟩ (hj.imp id (fun h => by omega))

/-- the bracketing loop does not run out of iterations -/
def WolfeBracketed (o : Objective α) (point dir : Vec α) (value : α) (gradient : Vec α) (t : α) (junk : WBr α) : Prop :=
  (wolfeBracket o point dir value (Vec.dot gradient dir) junk wolfeMaxIter 0 t Scalar.zero value gradient
    (o.f (Vec.axpy point t dir)) (o.grad (Vec.axpy point t dir))
    (Vec.dot (o.grad (Vec.axpy point t dir)) dir)).iter ≤ wolfeMaxIter

theorem wolfeSelect_sound (o : Objective α) (point dir : Vec α) (value : α) (gradient : Vec α) (br : WBr α)
    (single : Bool) (iter : Nat) (hv : value = o.f point) (hg : gradient = o.grad point)
    (h0 : WEntry o point dir br.t0 br.f0 br.g0) (h1 : single = false → WEntry o point dir br.t1 br.f1 br.g1) :
    (wolfeSelect point dir value gradient br single iter).value = o.f (wolfeSelect point dir value gradient br single iter).point ∧
    (wolfeSelect point dir value gradient br single iter).gradient = o.grad (wolfeSelect point dir value gradient br single iter).point := by
  unfold wolfeSelect
  split_ifs with hc hs
  · exact h0
  · have : single = false := by
      cases single <;> simp_all
    exact h1 this
  · exact ⟨hv, hg⟩

/-- **wolfecubic_sound_of_bracketed** (every scalar type).  If the entry for step length 0 is a real evaluation
(`value = f(point + 0·dir)`, `gradient = ∇f(point + 0·dir)`; over `Rat` this is `value = f(point)` and
`gradient = ∇f(point)`), and the bracketing loop leaves through a `break`, then — whatever the uninitialised bracket
arrays contained — the returned value is the objective at the returned point and the returned gradient is the
gradient there. -/
theorem wolfecubic_sound_of_bracketed (sqrt : α → α) (junk : WBr α) (o : Objective α) (point : Vec α) (value : α)
    (dir gradient : Vec α) (t : α) (hv : value = o.f point) (hg : gradient = o.grad point)
    (h0 : WEntry o point dir Scalar.zero value gradient)
    (hb : WBrOK o point dir junk ∨ WolfeBracketed o point dir value gradient t junk) :
    (wolfecubicJ sqrt junk o point value dir gradient t).value = o.f (wolfecubicJ sqrt junk o point value dir gradient t).point ∧
    (wolfecubicJ sqrt junk o point value dir gradient t).gradient = o.grad (wolfecubicJ sqrt junk o point value dir gradient t).point := by
  unfold wolfecubicJ
  dsimp only
  have hph := wolfeBracket_ok o point dir value (Vec.dot gradient dir) junk wolfeMaxIter 0 t Scalar.zero value gradient
    (o.f (Vec.axpy point t dir)) (o.grad (Vec.axpy point t dir)) (Vec.dot (o.grad (Vec.axpy point t dir)) dir)
    h0 ⟨rfl, rfl⟩ (hb.imp id (fun hb => by unfold WolfeBracketed at hb; exact hb))
  unfold WPhaseOK at hph
  split_ifs with hs
  · rw [if_pos hs] at hph
    exact wolfeSelect_sound o point dir value gradient _ _ _ hv hg hph (fun h => by simp [hs] at h)
  · rw [if_neg hs] at hph
    have hz := fun it => wolfeZoom_ok sqrt o point dir value (Vec.dot gradient dir) (Vec.norm1 dir) (wolfeMaxIter + 1) it _ false hph
    exact wolfeSelect_sound o point dir value gradient _ _ _ hv hg (hz _).1 (fun _ => (hz _).2)

/-! ### no increase (over `Rat`) -/

/-- one of the two bracket values is at most the starting value -/
def WLow (value : Rat) (br : WBr Rat) : Prop := br.f0 ≤ value ∨ br.f1 ≤ value

theorem wolfeZoomUpd_low (value gtd : Rat) (br : WBr Rat) (t fNew : Rat) (gNew : Vec Rat) (gtdNew : Rat)
    (h : WLow value br) : WLow value (wolfeZoomUpd value gtd br t fNew gNew gtdNew).1 := by
  unfold wolfeZoomUpd WLow at *
  dsimp only
  by_cases hlo : br.f1 < br.f0
  · -- lo = 1
    have h1 : br.f1 ≤ value := by rcases h with h | h <;> linarith
    simp only [hlo, decide_true, ↓reduceIte]
    split_ifs <;> simp only [Bool.or_eq_true, decide_eq_true_eq, not_or, not_lt] at * <;>
      first | (left; linarith) | (right; linarith)
  · have h0 : br.f0 ≤ value := by rcases h with h | h <;> linarith [not_lt.mp hlo]
    simp only [hlo, decide_false, Bool.false_eq_true, ↓reduceIte]
    split_ifs <;> simp only [Bool.or_eq_true, decide_eq_true_eq, not_or, not_lt] at * <;>
      first | (left; linarith) | (right; linarith)

theorem wolfeZoom_low (sqrt : Rat → Rat) (o : Objective Rat) (point dir : Vec Rat) (value gtd maxD : Rat) :
    ∀ (k iter : Nat) (br : WBr Rat) (insuf : Bool), WLow value br →
      WLow value (wolfeZoom sqrt o point dir value gtd maxD k iter br insuf).1 := by
  intro k
  induction k with
  | zero => intro iter br insuf h; exact h
  | succ k ih =>
    intro iter br insuf h
    unfold wolfeZoom
    dsimp only
    have hu := wolfeZoomUpd_low value gtd br (wolfeZoomT sqrt dir br insuf).1
      (o.f (Vec.axpy point (wolfeZoomT sqrt dir br insuf).1 dir)) (o.grad (Vec.axpy point (wolfeZoomT sqrt dir br insuf).1 dir))
      (Vec.dot (o.grad (Vec.axpy point (wolfeZoomT sqrt dir br insuf).1 dir)) dir) h
    split_ifs
    · exact h
    · exact hu
    · exact hu
    · exact ih _ _ _ hu

theorem wolfeBracket_low (o : Objective Rat) (point dir : Vec Rat) (value gtd : Rat) (junk : WBr Rat) (hgtd : gtd ≤ 0) :
    ∀ (k iter : Nat) (t tPrev fPrev : Rat) (gPrev : Vec Rat) (fNew : Rat) (gNew : Vec Rat) (gtdNew : Rat),
      0 ≤ t → fPrev ≤ value →
      (junk.f0 ≤ value ∨
        (wolfeBracket o point dir value gtd junk k iter t tPrev fPrev gPrev fNew gNew gtdNew).iter ≤ k + iter) →
      (wolfeBracket o point dir value gtd junk k iter t tPrev fPrev gPrev fNew gNew gtdNew).br.f0 ≤ value := by
  intro k
  induction k with
  | zero =>
    intro iter t tPrev fPrev gPrev fNew gNew gtdNew _ _ hj
    unfold wolfeBracket at hj ⊢
    rcases hj with hj | hle
    · exact hj
    · simp at hle
  | succ k ih =>
    intro iter t tPrev fPrev gPrev fNew gNew gtdNew ht hp hj
    unfold wolfeBracket at hj ⊢
    dsimp only at hj ⊢
    have harm : ¬ (value + wolfeC1 * t * gtd < fNew) → fNew ≤ value := by
      intro h
      have h1 : (0 : Rat) ≤ wolfeC1 * t := by
        have : (0 : Rat) ≤ (wolfeC1 : Rat) := by show (0 : Rat) ≤ 1/10000; norm_num
        exact mul_nonneg this ht
      have := mul_nonpos_of_nonneg_of_nonpos h1 hgtd
      linarith [not_lt.mp h]
    split_ifs at hj ⊢ with h1 h2 h3
    · exact hp
    · simp only [Bool.or_eq_true, decide_eq_true_eq, not_or] at h1
      exact harm h1.1
    · exact hp
    · simp only [Bool.or_eq_true, decide_eq_true_eq, not_or] at h1
      refine ih _ _ _ _ _ _ _ _ ?_ (harm h1.1) (hj.imp id (fun h => by omega))
      have : (0 : Rat) ≤ (Scalar.ofRat 10 : Rat) := by show (0 : Rat) ≤ 10; norm_num
      exact mul_nonneg ht this

theorem wolfeSelect_le (point dir : Vec Rat) (value : Rat) (gradient : Vec Rat) (br : WBr Rat) (single : Bool) (iter : Nat)
    (h0 : single = true → br.f0 ≤ value) (h : single = false → WLow value br) :
    (wolfeSelect point dir value gradient br single iter).value ≤ value := by
  unfold wolfeSelect
  split_ifs with hc hs
  · show br.f0 ≤ value
    cases single with
    | true => exact h0 rfl
    | false =>
      simp only [Bool.or_false, decide_eq_true_eq] at hs
      rcases h rfl with h | h <;> linarith
  · show br.f1 ≤ value
    have hsf : single = false := by cases single <;> simp_all
    simp only [hsf, Bool.or_false, decide_eq_true_eq, not_lt] at hs
    rcases h hsf with h | h <;> linarith
  · exact le_refl _

/-- **wolfecubic_no_increase_partial.**  Over `Rat`, along a non-ascent direction with a non-negative initial step:
if the bracketing loop leaves through a `break`, the value returned by `wolfecubic` is at most the starting value —
whatever the uninitialised bracket arrays contained.  (Without `WolfeBracketed` the C++ reads indeterminate memory:
finding F-C10-16.) -/
theorem wolfecubic_no_increase_partial (sqrt : Rat → Rat) (junk : WBr Rat) (o : Objective Rat) (point : Vec Rat) (value : Rat)
    (dir gradient : Vec Rat) (t : Rat) (hgd : Vec.dot gradient dir ≤ 0) (ht : 0 ≤ t)
    (hb : junk.f0 ≤ value ∨ WolfeBracketed o point dir value gradient t junk) :
    (wolfecubicJ sqrt junk o point value dir gradient t).value ≤ value := by
  unfold wolfecubicJ
  dsimp only
  have hlow := wolfeBracket_low o point dir value (Vec.dot gradient dir) junk hgd wolfeMaxIter 0 t Scalar.zero value gradient
    (o.f (Vec.axpy point t dir)) (o.grad (Vec.axpy point t dir)) (Vec.dot (o.grad (Vec.axpy point t dir)) dir)
    ht (le_refl _) (hb.imp id (fun hb => by unfold WolfeBracketed at hb; exact hb))
  split_ifs with hs
  · exact wolfeSelect_le _ _ _ _ _ _ _ (fun _ => hlow) (fun h => by simp [hs] at h)
  · have hz := fun it => wolfeZoom_low sqrt o point dir value (Vec.dot gradient dir) (Vec.norm1 dir) (wolfeMaxIter + 1) it _ false (Or.inl hlow)
    have hsf : (wolfeBracket o point dir value (Vec.dot gradient dir) junk wolfeMaxIter 0 t Scalar.zero value gradient
      (o.f (Vec.axpy point t dir)) (o.grad (Vec.axpy point t dir)) (Vec.dot (o.grad (Vec.axpy point t dir)) dir)).single = false := by
      simpa using hs
    exact wolfeSelect_le _ _ _ _ _ _ _ (fun h => by rw [hsf] at h; simp at h) (fun _ => hz _)

/-! ### every step length `wolfecubic` tries is non-negative (over `Rat`) -/

theorem smin_nonneg' (a b : Rat) (ha : 0 ≤ a) (hb : 0 ≤ b) : 0 ≤ Scalar.min a b := by
  unfold Scalar.min; split_ifs <;> assumption
theorem smax_nonneg' (a b : Rat) (ha : 0 ≤ a) (hb : 0 ≤ b) : 0 ≤ Scalar.max a b := by
  unfold Scalar.max; split_ifs <;> assumption
theorem smax_ge_right (a b : Rat) : b ≤ Scalar.max a b := by
  unfold Scalar.max; split_ifs with h
  · exact le_refl _
  · exact not_lt.mp h

theorem wlsCubicInterp_nonneg (sqrt : Rat → Rat) (t1 t2 f1 f2 g1 g2 : Rat) (h1 : 0 ≤ t1) (h2 : 0 ≤ t2) :
    0 ≤ wlsCubicInterp sqrt t1 t2 f1 f2 g1 g2 := by
  unfold wlsCubicInterp
  dsimp only
  have h2' : (0 : Rat) < Scalar.two := by show (0 : Rat) < 2; norm_num
  by_cases hs : t2 < t1
  · simp only [hs, decide_true, ↓reduceIte]
    split_ifs
    · exact h1
    · exact div_nonneg (by linarith) h2'.le
    · exact smin_nonneg' _ _ (le_trans h2 (smax_ge_right _ _)) h1
  · simp only [hs, decide_false, Bool.false_eq_true, ↓reduceIte]
    split_ifs
    · exact h1
    · exact div_nonneg (by linarith) h2'.le
    · exact smin_nonneg' _ _ (le_trans h1 (smax_ge_right _ _)) h2

theorem wolfeZoomT_nonneg (sqrt : Rat → Rat) (dir : Vec Rat) (br : WBr Rat) (insuf : Bool) (h0 : 0 ≤ br.t0) (h1 : 0 ≤ br.t1) :
    0 ≤ (wolfeZoomT sqrt dir br insuf).1 := by
  have hi := wlsCubicInterp_nonneg sqrt br.t0 br.t1 br.f0 br.f1 (Vec.dot br.g0 dir) (Vec.dot br.g1 dir) h0 h1
  have hmin := smin_nonneg' br.t0 br.t1 h0 h1
  have hmax := smax_nonneg' br.t0 br.t1 h0 h1
  unfold wolfeZoomT
  dsimp only
  have ht : (Scalar.ofRat (1/10) : Rat) = 1/10 := rfl
  split_ifs
  · rw [ht]; nlinarith
  · rw [ht]; nlinarith
  · exact hi

def WTNonneg (br : WBr Rat) : Prop := 0 ≤ br.t0 ∧ 0 ≤ br.t1

theorem wolfeZoomUpd_tnonneg (value gtd : Rat) (br : WBr Rat) (t fNew : Rat) (gNew : Vec Rat) (gtdNew : Rat)
    (h : WTNonneg br) (ht : 0 ≤ t) : WTNonneg (wolfeZoomUpd value gtd br t fNew gNew gtdNew).1 := by
  obtain ⟨h0, h1⟩ := h
  unfold wolfeZoomUpd WTNonneg
  dsimp only
  split_ifs <;> exact ⟨by first | exact ht | exact h0 | exact h1, by first | exact ht | exact h1 | exact h0⟩

theorem wolfeZoom_tnonneg (sqrt : Rat → Rat) (o : Objective Rat) (point dir : Vec Rat) (value gtd maxD : Rat) :
    ∀ (k iter : Nat) (br : WBr Rat) (insuf : Bool), WTNonneg br →
      WTNonneg (wolfeZoom sqrt o point dir value gtd maxD k iter br insuf).1 := by
  intro k
  induction k with
  | zero => intro iter br insuf h; exact h
  | succ k ih =>
    intro iter br insuf h
    unfold wolfeZoom
    dsimp only
    have hu := wolfeZoomUpd_tnonneg value gtd br (wolfeZoomT sqrt dir br insuf).1
      (o.f (Vec.axpy point (wolfeZoomT sqrt dir br insuf).1 dir)) (o.grad (Vec.axpy point (wolfeZoomT sqrt dir br insuf).1 dir))
      (Vec.dot (o.grad (Vec.axpy point (wolfeZoomT sqrt dir br insuf).1 dir)) dir) h (wolfeZoomT_nonneg sqrt dir br insuf h.1 h.2)
    split_ifs
    · exact h
    · exact hu
    · exact hu
    · exact ih _ _ _ hu

theorem wolfeBracket_tnonneg (o : Objective Rat) (point dir : Vec Rat) (value gtd : Rat) (junk : WBr Rat) (hj : WTNonneg junk) :
    ∀ (k iter : Nat) (t tPrev fPrev : Rat) (gPrev : Vec Rat) (fNew : Rat) (gNew : Vec Rat) (gtdNew : Rat),
      0 ≤ t → 0 ≤ tPrev →
      WTNonneg (wolfeBracket o point dir value gtd junk k iter t tPrev fPrev gPrev fNew gNew gtdNew).br := by
  intro k
  induction k with
  | zero => intro iter t tPrev fPrev gPrev fNew gNew gtdNew _ _; exact hj
  | succ k ih =>
    intro iter t tPrev fPrev gPrev fNew gNew gtdNew ht hp
    unfold wolfeBracket
    dsimp only
    split_ifs
    · exact ⟨hp, ht⟩
    · exact ⟨ht, hj.2⟩
    · exact ⟨hp, ht⟩
    · refine ih _ _ _ _ _ _ _ _ ?_ ht
      have : (0 : Rat) ≤ (Scalar.ofRat 10 : Rat) := by show (0 : Rat) ≤ 10; norm_num
      exact mul_nonneg ht this

/-- the point returned by `wolfecubicJ` is `point + t'·dir` for one of the bracket ends `t' ≥ 0`, or `point` itself -/
theorem wolfecubicJ_ray (sqrt : Rat → Rat) (junk : WBr Rat) (hj : WTNonneg junk) (o : Objective Rat) (point : Vec Rat) (value : Rat)
    (dir gradient : Vec Rat) (t : Rat) (ht : 0 ≤ t) :
    (wolfecubicJ sqrt junk o point value dir gradient t).point = point ∨
    ∃ t', 0 ≤ t' ∧ (wolfecubicJ sqrt junk o point value dir gradient t).point = Vec.axpy point t' dir := by
  unfold wolfecubicJ
  dsimp only
  have hb := wolfeBracket_tnonneg o point dir value (Vec.dot gradient dir) junk hj wolfeMaxIter 0 t Scalar.zero value gradient
    (o.f (Vec.axpy point t dir)) (o.grad (Vec.axpy point t dir)) (Vec.dot (o.grad (Vec.axpy point t dir)) dir) ht (le_refl _)
  have key : ∀ (br : WBr Rat) (single : Bool) (iter : Nat), WTNonneg br →
      (wolfeSelect point dir value gradient br single iter).point = point ∨
      ∃ t', 0 ≤ t' ∧ (wolfeSelect point dir value gradient br single iter).point = Vec.axpy point t' dir := by
    intro br single iter h
    unfold wolfeSelect
    split_ifs
    · exact Or.inr ⟨br.t0, h.1, rfl⟩
    · exact Or.inr ⟨br.t1, h.2, rfl⟩
    · exact Or.inl rfl
  split_ifs
  · exact key _ _ _ hb
  · exact key _ _ _ (wolfeZoom_tnonneg sqrt o point dir value _ _ _ _ _ false hb)

/-! ### strong Wolfe conditions when the bracketing phase accepts a trial point outright (`single`) -/

/-- the trial `(t, f, g)` satisfies both strong Wolfe conditions relative to the start `(value, gtd)` -/
def StrongWolfe (dir : Vec Rat) (value gtd t f : Rat) (g : Vec Rat) : Prop :=
  f ≤ value + wolfeC1 * t * gtd ∧ Scalar.abs (Vec.dot g dir) ≤ (-wolfeC2) * gtd

theorem wolfeBracket_single_wolfe (o : Objective Rat) (point dir : Vec Rat) (value gtd : Rat) (junk : WBr Rat) :
    ∀ (k iter : Nat) (t tPrev fPrev : Rat) (gPrev : Vec Rat) (fNew : Rat) (gNew : Vec Rat) (gtdNew : Rat),
      gtdNew = Vec.dot gNew dir →
      (wolfeBracket o point dir value gtd junk k iter t tPrev fPrev gPrev fNew gNew gtdNew).single = true →
      StrongWolfe dir value gtd
        (wolfeBracket o point dir value gtd junk k iter t tPrev fPrev gPrev fNew gNew gtdNew).br.t0
        (wolfeBracket o point dir value gtd junk k iter t tPrev fPrev gPrev fNew gNew gtdNew).br.f0
        (wolfeBracket o point dir value gtd junk k iter t tPrev fPrev gPrev fNew gNew gtdNew).br.g0 := by
  intro k
  induction k with
  | zero =>
    intro iter t tPrev fPrev gPrev fNew gNew gtdNew _ hs
    unfold wolfeBracket at hs; simp at hs
  | succ k ih =>
    intro iter t tPrev fPrev gPrev fNew gNew gtdNew hg hs
    unfold wolfeBracket at hs ⊢
    dsimp only at hs ⊢
    split_ifs at hs ⊢ with h1 h2 h3
    · simp only [Bool.or_eq_true, decide_eq_true_eq, not_or, not_lt] at h1
      exact ⟨h1.1, by show Scalar.abs (Vec.dot gNew dir) ≤ _; rw [← hg]; exact h2⟩
    · exact ih _ _ _ _ _ _ _ _ rfl hs

/-- **wolfecubic_single_strong_wolfe.**  When the bracketing phase of `wolfecubic` accepts a trial step outright
(`single`), the function either keeps the start (only possible when 25 expansions were used and the accepted value is
not strictly smaller) or returns that trial point `point + t'·dir`, `t' ≥ 0`, which satisfies **both strong Wolfe
conditions**: `f' ≤ value + c1·t'·gᵀd` and `|g'ᵀd| ≤ -c2·gᵀd` (`c1 = 1e-4`, `c2 = 0.9`). -/
theorem wolfecubic_single_strong_wolfe (sqrt : Rat → Rat) (junk : WBr Rat) (o : Objective Rat) (point : Vec Rat) (value : Rat)
    (dir gradient : Vec Rat) (t : Rat)
    (hs : (wolfeBracket o point dir value (Vec.dot gradient dir) junk wolfeMaxIter 0 t Scalar.zero value gradient
      (o.f (Vec.axpy point t dir)) (o.grad (Vec.axpy point t dir)) (Vec.dot (o.grad (Vec.axpy point t dir)) dir)).single = true) :
    wolfecubicJ sqrt junk o point value dir gradient t = ⟨point, value, gradient⟩ ∨
    ∃ t', (wolfecubicJ sqrt junk o point value dir gradient t).point = Vec.axpy point t' dir ∧
      StrongWolfe dir value (Vec.dot gradient dir) t' (wolfecubicJ sqrt junk o point value dir gradient t).value
        (wolfecubicJ sqrt junk o point value dir gradient t).gradient := by
  have hw := wolfeBracket_single_wolfe o point dir value (Vec.dot gradient dir) junk wolfeMaxIter 0 t Scalar.zero value gradient
    (o.f (Vec.axpy point t dir)) (o.grad (Vec.axpy point t dir)) (Vec.dot (o.grad (Vec.axpy point t dir)) dir) rfl hs
  unfold wolfecubicJ
  dsimp only
  rw [if_pos hs]
  unfold wolfeSelect
  rw [hs]
  split_ifs with hc h2
  · exact Or.inr ⟨_, rfl, hw⟩
  · simp at h2
  · exact Or.inl rfl

end SharkVerif.Opt
