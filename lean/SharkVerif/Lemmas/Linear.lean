/-
Lemmas about linear images of a dataset (mean / covariance transform), the PCA
encoder / decoder pair, the small-sample branch of `PCA::setData`, and weight scaling.
-/
import SharkVerif.Lemmas.Stats
namespace SharkVerif.Trainers

theorem rsum_mul_rsum (n m : Nat) (f g : Nat → Rat) :
    rsum n f * rsum m g = rsum n (fun i => rsum m (fun j => f i * g j)) := by
  rw [← rsum_mul_right]
  exact rsum_congr (fun i _ => by rw [rsum_mul_left])

theorem rsum_div (n : Nat) (f : Nat → Rat) (c : Rat) : rsum n (fun i => f i / c) = rsum n f / c := by
  simp only [div_eq_mul_inv]; exact rsum_mul_right n c⁻¹ f

/-- mean of a linear image `y_a = Σ_j W_{aj} x_j + b_a` -/
theorem mean_linear (bs : List (List Vec)) (T : Vec → Vec) (d a : Nat) (W : Nat → Rat) (b : Rat)
    (hne : bs.flatten ≠ [])
    (hT : ∀ x ∈ bs.flatten, (T x).at a = rsum d (fun j => W j * x.at j) + b) :
    mean (bs.map fun B => B.map T) a = rsum d (fun j => W j * mean bs j) + b := by
  have hN : (bs.flatten.length : Rat) ≠ 0 := by
    have : bs.flatten.length ≠ 0 := fun h => hne (List.eq_nil_of_length_eq_zero h)
    exact_mod_cast this
  rw [mean_flat, flatten_map_map, lsum_map, List.length_map, lsum_congr (fun x hx => hT x hx), lsum_add,
    lsum_const, lsum_rsum_comm]
  have : ∀ j, W j * mean bs j = lsum bs.flatten (fun x => W j * x.at j) / (bs.flatten.length : Rat) := by
    intro j; rw [mean_flat, lsum_mul_left]; ring
  rw [rsum_congr (fun j _ => this j), rsum_div]
  field_simp

/-- covariance of a linear image: `Cov(y)_{ab} = Σ_i Σ_j W_{ai} Cov(x)_{ij} W'_{bj}` -/
theorem covariance_linear (bs : List (List Vec)) (T : Vec → Vec) (d a a' : Nat) (W W' : Nat → Rat) (b b' : Rat)
    (hne : bs.flatten ≠ [])
    (hT : ∀ x ∈ bs.flatten, (T x).at a = rsum d (fun j => W j * x.at j) + b)
    (hT' : ∀ x ∈ bs.flatten, (T x).at a' = rsum d (fun j => W' j * x.at j) + b') :
    covariance (bs.map fun B => B.map T) a a'
      = rsum d (fun i => rsum d (fun j => W i * covariance bs i j * W' j)) := by
  rw [covariance_flat, mean_linear bs T d a W b hne hT, mean_linear bs T d a' W' b' hne hT',
    flatten_map_map, lsum_map, List.length_map]
  have hc : ∀ x ∈ bs.flatten,
      ((T x).at a - (rsum d (fun j => W j * mean bs j) + b)) * ((T x).at a' - (rsum d (fun j => W' j * mean bs j) + b'))
      = rsum d (fun i => rsum d (fun j => W i * ((x.at i - mean bs i) * (x.at j - mean bs j)) * W' j)) := by
    intro x hx
    rw [hT x hx, hT' x hx]
    have e1 : rsum d (fun j => W j * x.at j) + b - (rsum d (fun j => W j * mean bs j) + b)
        = rsum d (fun j => W j * (x.at j - mean bs j)) := by
      rw [rsum_congr (f := fun j => W j * (x.at j - mean bs j)) (g := fun j => W j * x.at j - W j * mean bs j)
        (fun j _ => by ring), rsum_sub]; ring
    have e2 : rsum d (fun j => W' j * x.at j) + b' - (rsum d (fun j => W' j * mean bs j) + b')
        = rsum d (fun j => W' j * (x.at j - mean bs j)) := by
      rw [rsum_congr (f := fun j => W' j * (x.at j - mean bs j)) (g := fun j => W' j * x.at j - W' j * mean bs j)
        (fun j _ => by ring), rsum_sub]; ring
    rw [e1, e2, rsum_mul_rsum]
    exact rsum_congr (fun i _ => rsum_congr (fun j _ => by ring))
  rw [lsum_congr hc, lsum_rsum_comm]
  rw [rsum_congr (fun i _ => lsum_rsum_comm bs.flatten d _), ← rsum_div]
  apply rsum_congr; intro i _
  rw [← rsum_div]
  apply rsum_congr; intro j _
  rw [covariance_flat]
  rw [lsum_congr (g := fun x => W i * W' j * ((x.at i - mean bs i) * (x.at j - mean bs j))) (fun x _ => by ring),
    lsum_mul_left]
  ring

theorem linearModel_apply_at (m : LinearModel) (d a : Nat) (x : Vec) (ha : a < m.rows) :
    (m.apply d x).at a = rsum d (fun j => m.W a j * x.at j) + m.b a := by
  unfold LinearModel.apply
  rw [at_map_range m.rows a _ ha]; rfl

/-! ### PCA encoder / decoder -/

/-- the first `m` columns of `V` (`n × ·`) are orthonormal -/
def Orthonormal (V : Nat → Nat → Rat) (n m : Nat) : Prop :=
  ∀ a, a < m → ∀ b, b < m → rsum n (fun j => V j a * V j b) = if a = b then 1 else 0

theorem pcaEnc_eq (V : Nat → Nat → Rat) (mu : Nat → Rat) (n : Nat) (x : Nat → Rat) (i : Nat) :
    pcaEnc V mu n x i = rsum n (fun j => V j i * (x j - mu j)) := by
  unfold pcaEnc
  rw [rsum_congr (f := fun j => V j i * (x j - mu j)) (g := fun j => V j i * x j - V j i * mu j)
    (fun j _ => by ring), rsum_sub]; ring

/-- encoder ∘ decoder = identity on the code space -/
theorem enc_dec (V : Nat → Nat → Rat) (mu : Nat → Rat) (n m : Nat) (h : Orthonormal V n m) (z : Nat → Rat)
    (i : Nat) (hi : i < m) : pcaEnc V mu n (pcaDec V mu m z) i = z i := by
  rw [pcaEnc_eq]
  unfold pcaDec
  have : ∀ j, V j i * (rsum m (fun k => V j k * z k) + mu j - mu j) = rsum m (fun k => V j i * V j k * z k) := by
    intro j; rw [add_sub_cancel_right, ← rsum_mul_left]; exact rsum_congr (fun k _ => by ring)
  rw [rsum_congr (fun j _ => this j), rsum_rsum_comm]
  have h2 : ∀ k, k < m → rsum n (fun j => V j i * V j k * z k) = (if i = k then z k else 0) := by
    intro k hk
    rw [rsum_mul_right, h i hi k hk]
    by_cases e : i = k <;> simp [e]
  rw [rsum_congr h2, rsum_ite_eq]
  simp [hi]

/-- the reconstruction error is orthogonal to every direction -/
theorem residual_orthogonal (V : Nat → Nat → Rat) (mu : Nat → Rat) (n m : Nat) (h : Orthonormal V n m)
    (x : Nat → Rat) (i : Nat) (hi : i < m) :
    rsum n (fun j => V j i * (x j - pcaDec V mu m (pcaEnc V mu n x) j)) = 0 := by
  have e : ∀ j, V j i * (x j - pcaDec V mu m (pcaEnc V mu n x) j)
      = V j i * (x j - mu j) - V j i * (pcaDec V mu m (pcaEnc V mu n x) j - mu j) := by intro j; ring
  rw [rsum_congr (fun j _ => e j), rsum_sub, ← pcaEnc_eq, ← pcaEnc_eq, enc_dec V mu n m h _ i hi]
  ring

/-- Pythagoras: the decoded code of `x` is the closest point of the affine subspace `mean + span(V)` -/
theorem best_approximation (V : Nat → Nat → Rat) (mu : Nat → Rat) (n m : Nat) (h : Orthonormal V n m)
    (x z : Nat → Rat) :
    rsum n (fun j => (x j - pcaDec V mu m (pcaEnc V mu n x) j) * (x j - pcaDec V mu m (pcaEnc V mu n x) j))
      ≤ rsum n (fun j => (x j - pcaDec V mu m z j) * (x j - pcaDec V mu m z j)) := by
  let p := pcaDec V mu m (pcaEnc V mu n x)
  let e := pcaEnc V mu n x
  -- p - dec z = Σ_i V_ji (e_i - z_i)
  have hdiff : ∀ j, p j - pcaDec V mu m z j = rsum m (fun i => V j i * (e i - z i)) := by
    intro j
    show rsum m (fun i => V j i * e i) + mu j - (rsum m (fun i => V j i * z i) + mu j) = _
    rw [rsum_congr (f := fun i => V j i * (e i - z i)) (g := fun i => V j i * e i - V j i * z i)
      (fun i _ => by ring), rsum_sub]; ring
  have hcross : rsum n (fun j => (x j - p j) * (p j - pcaDec V mu m z j)) = 0 := by
    have : ∀ j, (x j - p j) * (p j - pcaDec V mu m z j) = rsum m (fun i => (e i - z i) * (V j i * (x j - p j))) := by
      intro j; rw [hdiff j, ← rsum_mul_left]; exact rsum_congr (fun i _ => by ring)
    rw [rsum_congr (fun j _ => this j), rsum_rsum_comm]
    rw [rsum_congr (g := fun _ => 0) (fun i hi => by
      rw [rsum_mul_left, residual_orthogonal V mu n m h x i hi]; ring)]
    exact rsum_zero_fun _
  have hsplit : rsum n (fun j => (x j - pcaDec V mu m z j) * (x j - pcaDec V mu m z j))
      = rsum n (fun j => (x j - p j) * (x j - p j))
        + 2 * rsum n (fun j => (x j - p j) * (p j - pcaDec V mu m z j))
        + rsum n (fun j => (p j - pcaDec V mu m z j) * (p j - pcaDec V mu m z j)) := by
    rw [← rsum_mul_left, ← rsum_add, ← rsum_add]
    exact rsum_congr (fun j _ => by ring)
  rw [hsplit, hcross]
  have : 0 ≤ rsum n (fun j => (p j - pcaDec V mu m z j) * (p j - pcaDec V mu m z j)) :=
    rsum_nonneg (fun j _ => mul_self_nonneg _)
  show rsum n (fun j => (x j - p j) * (x j - p j)) ≤ _
  linarith

/-! ### small-sample branch: eigenvectors of `X0 X0ᵀ/l` give eigenvectors of `X0ᵀX0/l` -/

/-- for a centred design matrix `X` (`l × n`), `C = XᵀX/l`, `S = XXᵀ/l`:
`S u = λ u  ⟹  C (Xᵀu) = λ (Xᵀu)` -/
theorem lift_eigen (X : Nat → Nat → Rat) (l n : Nat) (u : Nat → Rat) (lam : Rat)
    (hu : ∀ a, a < l → rsum l (fun b => (rsum n (fun j => X a j * X b j) / (l : Rat)) * u b) = lam * u a)
    (i : Nat) :
    rsum n (fun j => (rsum l (fun a => X a i * X a j) / (l : Rat)) * rsum l (fun b => X b j * u b))
      = lam * rsum l (fun a => X a i * u a) := by
  -- both sides are Σ_a X_ai Σ_b S_ab u_b
  have h1 : ∀ j, (rsum l (fun a => X a i * X a j) / (l : Rat)) * rsum l (fun b => X b j * u b)
      = rsum l (fun a => rsum l (fun b => X a i * (X a j * X b j / (l : Rat)) * u b)) := by
    intro j
    rw [div_mul_eq_mul_div, rsum_mul_rsum, ← rsum_div]
    apply rsum_congr; intro a _
    rw [← rsum_div]
    exact rsum_congr (fun b _ => by ring)
  rw [rsum_congr (fun j _ => h1 j), rsum_rsum_comm]
  rw [← rsum_mul_left]
  apply rsum_congr; intro a ha
  rw [rsum_rsum_comm]
  have hr : lam * (X a i * u a) = X a i * (lam * u a) := by ring
  rw [hr, ← hu a ha, ← rsum_mul_left]
  apply rsum_congr; intro b _
  rw [← rsum_div, ← rsum_mul_right, ← rsum_mul_left]
  exact rsum_congr (fun j _ => by ring)

/-- inner products of lifted directions: `(Xᵀu)·(Xᵀu') = l·λ'·(u·u')` when `S u' = λ' u'` -/
theorem lift_inner (X : Nat → Nat → Rat) (l n : Nat) (hl : l ≠ 0) (u u' : Nat → Rat) (lam' : Rat)
    (hu : ∀ a, a < l → rsum l (fun b => (rsum n (fun j => X a j * X b j) / (l : Rat)) * u' b) = lam' * u' a) :
    rsum n (fun j => rsum l (fun a => X a j * u a) * rsum l (fun b => X b j * u' b))
      = (l : Rat) * lam' * rsum l (fun a => u a * u' a) := by
  have hl' : (l : Rat) ≠ 0 := by exact_mod_cast hl
  have h1 : ∀ j, rsum l (fun a => X a j * u a) * rsum l (fun b => X b j * u' b)
      = rsum l (fun a => rsum l (fun b => u a * (X a j * X b j) * u' b)) := by
    intro j; rw [rsum_mul_rsum]
    exact rsum_congr (fun a _ => rsum_congr (fun b _ => by ring))
  rw [rsum_congr (fun j _ => h1 j), rsum_rsum_comm, ← rsum_mul_left]
  apply rsum_congr; intro a ha
  rw [rsum_rsum_comm]
  have : (l : Rat) * lam' * (u a * u' a) = u a * (l : Rat) * (lam' * u' a) := by ring
  rw [this, ← hu a ha, ← rsum_mul_left]
  apply rsum_congr; intro b _
  rw [← rsum_div]
  have : u a * (l : Rat) * (rsum n (fun j => X a j * X b j / (l : Rat)) * u' b)
      = rsum n (fun j => u a * (l : Rat) * (X a j * X b j / (l : Rat)) * u' b) := by
    rw [← rsum_mul_right, ← rsum_mul_left]
    exact rsum_congr (fun j _ => by ring)
  rw [this]
  exact rsum_congr (fun j _ => by field_simp)

end SharkVerif.Trainers

namespace SharkVerif.Trainers

theorem rsum_succ_front (n : Nat) (f : Nat → Rat) : rsum (n + 1) f = f 0 + rsum n (fun i => f (i + 1)) := by
  induction n with
  | zero => simp
  | succ n ih => rw [rsum_succ, ih, rsum_succ]; ring

/-- a list sum as a sum over positions -/
theorem lsum_eq_rsum_index (l : List Vec) (f : Vec → Rat) :
    lsum l f = rsum l.length (fun a => f (l[a]?.getD [])) := by
  induction l with
  | nil => rfl
  | cons x t ih =>
    rw [List.length_cons, rsum_succ_front, lsum_cons, ih]
    simp

/-- the covariance in terms of the centred design matrix: `Cov = X0ᵀX0 / l` -/
theorem covariance_eq_centred (bs : List (List Vec)) (i j : Nat) :
    covariance bs i j = rsum (count bs) (fun a => centred bs a i * centred bs a j) / ((count bs : Nat) : Rat) := by
  rw [covariance_flat, lsum_eq_rsum_index, count_eq_flatten]
  rfl

end SharkVerif.Trainers

namespace SharkVerif.Trainers

/-! ### directions that are orthonormal or zero (what the repaired small-sample branch returns) -/

/-- the first `m` columns of `V` are pairwise orthogonal and each is a unit vector (`e a = 1`)
or the zero vector (`e a = 0`) -/
def OrthoOrZero (V : Nat → Nat → Rat) (n m : Nat) (e : Nat → Rat) : Prop :=
  (∀ a, a < m → e a = 0 ∨ e a = 1) ∧
  ∀ a, a < m → ∀ b, b < m → rsum n (fun j => V j a * V j b) = if a = b then e a else 0

theorem zero_column (V : Nat → Nat → Rat) (n m : Nat) (e : Nat → Rat) (h : OrthoOrZero V n m e)
    (a : Nat) (ha : a < m) (h0 : e a = 0) : ∀ j, j < n → V j a = 0 := by
  have := h.2 a ha a ha
  simp only [if_true, h0] at this
  intro j hj
  exact mul_self_eq_zero.mp (rsum_eq_zero_of_nonneg (f := fun j => V j a * V j a) (fun j _ => mul_self_nonneg _) this j hj)

theorem enc_dec_general (V : Nat → Nat → Rat) (mu : Nat → Rat) (n m : Nat) (e : Nat → Rat)
    (h : OrthoOrZero V n m e) (z : Nat → Rat) (i : Nat) (hi : i < m) :
    pcaEnc V mu n (pcaDec V mu m z) i = e i * z i := by
  rw [pcaEnc_eq]
  unfold pcaDec
  have : ∀ j, V j i * (rsum m (fun k => V j k * z k) + mu j - mu j) = rsum m (fun k => V j i * V j k * z k) := by
    intro j; rw [add_sub_cancel_right, ← rsum_mul_left]; exact rsum_congr (fun k _ => by ring)
  rw [rsum_congr (fun j _ => this j), rsum_rsum_comm]
  have h2 : ∀ k, k < m → rsum n (fun j => V j i * V j k * z k) = (if i = k then e k * z k else 0) := by
    intro k hk
    rw [rsum_mul_right, h.2 i hi k hk]
    by_cases c : i = k
    · subst c; simp
    · simp [c]
  rw [rsum_congr h2, rsum_ite_eq]
  simp [hi]

theorem residual_orthogonal_general (V : Nat → Nat → Rat) (mu : Nat → Rat) (n m : Nat) (e : Nat → Rat)
    (h : OrthoOrZero V n m e) (x : Nat → Rat) (i : Nat) (hi : i < m) :
    rsum n (fun j => V j i * (x j - pcaDec V mu m (pcaEnc V mu n x) j)) = 0 := by
  have e1 : ∀ j, V j i * (x j - pcaDec V mu m (pcaEnc V mu n x) j)
      = V j i * (x j - mu j) - V j i * (pcaDec V mu m (pcaEnc V mu n x) j - mu j) := by intro j; ring
  rw [rsum_congr (fun j _ => e1 j), rsum_sub, ← pcaEnc_eq, ← pcaEnc_eq, enc_dec_general V mu n m e h _ i hi]
  rcases h.1 i hi with h0 | h1
  · -- zero direction: the code itself is 0
    have hz := zero_column V n m e h i hi h0
    have : pcaEnc V mu n x i = 0 := by
      rw [pcaEnc_eq, rsum_congr (g := fun _ => 0) (fun j hj => by rw [hz j hj]; ring)]
      exact rsum_zero_fun _
    rw [this]; ring
  · rw [h1]; ring

theorem best_approximation_general (V : Nat → Nat → Rat) (mu : Nat → Rat) (n m : Nat) (e : Nat → Rat)
    (h : OrthoOrZero V n m e) (x z : Nat → Rat) :
    rsum n (fun j => (x j - pcaDec V mu m (pcaEnc V mu n x) j) * (x j - pcaDec V mu m (pcaEnc V mu n x) j))
      ≤ rsum n (fun j => (x j - pcaDec V mu m z j) * (x j - pcaDec V mu m z j)) := by
  let p := pcaDec V mu m (pcaEnc V mu n x)
  let c := pcaEnc V mu n x
  have hdiff : ∀ j, p j - pcaDec V mu m z j = rsum m (fun i => V j i * (c i - z i)) := by
    intro j
    show rsum m (fun i => V j i * c i) + mu j - (rsum m (fun i => V j i * z i) + mu j) = _
    rw [rsum_congr (f := fun i => V j i * (c i - z i)) (g := fun i => V j i * c i - V j i * z i)
      (fun i _ => by ring), rsum_sub]; ring
  have hcross : rsum n (fun j => (x j - p j) * (p j - pcaDec V mu m z j)) = 0 := by
    have : ∀ j, (x j - p j) * (p j - pcaDec V mu m z j) = rsum m (fun i => (c i - z i) * (V j i * (x j - p j))) := by
      intro j; rw [hdiff j, ← rsum_mul_left]; exact rsum_congr (fun i _ => by ring)
    rw [rsum_congr (fun j _ => this j), rsum_rsum_comm]
    rw [rsum_congr (g := fun _ => 0) (fun i hi => by
      rw [rsum_mul_left, residual_orthogonal_general V mu n m e h x i hi]; ring)]
    exact rsum_zero_fun _
  have hsplit : rsum n (fun j => (x j - pcaDec V mu m z j) * (x j - pcaDec V mu m z j))
      = rsum n (fun j => (x j - p j) * (x j - p j))
        + 2 * rsum n (fun j => (x j - p j) * (p j - pcaDec V mu m z j))
        + rsum n (fun j => (p j - pcaDec V mu m z j) * (p j - pcaDec V mu m z j)) := by
    rw [← rsum_mul_left, ← rsum_add, ← rsum_add]
    exact rsum_congr (fun j _ => by ring)
  rw [hsplit, hcross]
  have : 0 ≤ rsum n (fun j => (p j - pcaDec V mu m z j) * (p j - pcaDec V mu m z j)) :=
    rsum_nonneg (fun j _ => mul_self_nonneg _)
  show rsum n (fun j => (x j - p j) * (x j - p j)) ≤ _
  linarith

end SharkVerif.Trainers
