/-
C20: the full machine — data-race-free ordinary accesses plus critical sections
updating lock-protected locations with pairwise commuting updates — is schedule
independent.  Invariant proof over all interleavings.
-/
import SharkVerif.Lemmas.Par
namespace SharkVerif.Par
variable {V : Type}

/-- the critical updates on location `l` among a program (prefix), as closures over the
registers the thread has at that point when running alone from store `m0` -/
def critUpd : Store V → Regs V → List (Instr V) → Loc → List (V → V)
  | _, _, [], _ => []
  | m, rs, Instr.load r l' :: rest, l => critUpd m (setReg rs r (m l')) rest l
  | m, rs, Instr.store l' f :: rest, l => critUpd (setLoc m l' (f rs)) rs rest l
  | m, rs, Instr.crit l' f :: rest, l =>
      (if l' = l then [f rs] else []) ++ critUpd (setLoc m l' (f rs (m l'))) rs rest l

theorem critUpd_append (a b : List (Instr V)) (l : Loc) : ∀ (m0 : Store V) (rs : Regs V),
    critUpd m0 rs (a ++ b) l = critUpd m0 rs a l ++ critUpd (solo m0 rs a).1 (solo m0 rs a).2 b l := by
  induction a with
  | nil => intro m0 rs; simp [critUpd, solo]
  | cons i a ih =>
    intro m0 rs
    cases i with
    | load r l' => simp only [List.cons_append, critUpd, solo, exec]; exact ih _ _
    | store l' f => simp only [List.cons_append, critUpd, solo, exec]; exact ih _ _
    | crit l' f => simp only [List.cons_append, critUpd, solo, exec, List.append_assoc]; rw [ih]

/-- ordinary accesses race free; critical sections only touch protected locations that no
ordinary access touches; threads `≥ T` are idle; all critical updates commute -/
structure CritOK (T : Nat) (progs : Nat → List (Instr V)) : Prop where
  disj : ∀ t u, t ≠ u → ∀ l, l ∈ writes (progs t) → ¬ accessed (progs u) l
  prot : ∀ t u l, l ∈ crits (progs t) → ¬ accessed (progs u) l
  fin  : ∀ t, T ≤ t → progs t = []

theorem flatMap_ite_not_mem {α : Type} (g h : Nat → List α) (t : Nat) :
    ∀ (ts : List Nat), t ∉ ts → (ts.flatMap fun s => if s = t then h s else g s) = ts.flatMap g
  | [], _ => rfl
  | a :: ts, hn => by
    have ha : a ≠ t := fun e => hn (by simp [e])
    have ht : t ∉ ts := fun hm => hn (List.mem_cons_of_mem _ hm)
    simp only [List.flatMap_cons, ha, ↓reduceIte]
    rw [flatMap_ite_not_mem g h t ts ht]

/-- appending one element to the `t`-th block of a `flatMap` is a permutation of appending it at the end -/
theorem perm_flatMap_update {α : Type} (ts : List Nat) (hnd : ts.Nodup) (g : Nat → List α) (t : Nat) (ht : t ∈ ts) (u : α) :
    (ts.flatMap fun s => if s = t then g s ++ [u] else g s).Perm (ts.flatMap g ++ [u]) := by
  induction ts with
  | nil => simp at ht
  | cons s ts ih =>
    rw [List.nodup_cons] at hnd
    simp only [List.flatMap_cons]
    by_cases hst : s = t
    · subst hst
      simp only [↓reduceIte]
      rw [flatMap_ite_not_mem g (fun s' => g s' ++ [u]) s ts hnd.1, List.append_assoc, List.append_assoc]
      apply List.Perm.append_left
      exact List.perm_append_comm
    · simp only [hst, ↓reduceIte]
      have ht' : t ∈ ts := by
        rcases List.mem_cons.1 ht with e | e
        · exact absurd e.symm hst
        · exact e
      rw [List.append_assoc]
      exact List.Perm.append_left _ (ih hnd.2 ht')

/-- the critical updates of all threads at positions `k`, thread by thread -/
def allUpd (T : Nat) (m0 : Store V) (r0 : Nat → Regs V) (progs : Nat → List (Instr V)) (k : Nat → Nat) (l : Loc) :
    List (V → V) :=
  (List.range T).flatMap fun t => critUpd m0 (r0 t) ((progs t).take (k t)) l

/-- invariant of the full machine -/
structure Sim2 (T : Nat) (m0 : Store V) (r0 : Nat → Regs V) (progs : Nat → List (Instr V)) (c : Cfg V) : Prop where
  ex : ∃ k : Nat → Nat,
    (∀ t, (c.ths t).prog = (progs t).drop (k t) ∧
          (c.ths t).regs = (solo m0 (r0 t) ((progs t).take (k t))).2 ∧
          ∀ l, accessed (progs t) l → c.mem l = (solo m0 (r0 t) ((progs t).take (k t))).1 l) ∧
    (∀ l, (∀ t, l ∉ writes (progs t)) → (∀ t, l ∉ crits (progs t)) → c.mem l = m0 l) ∧
    (∀ l, (∃ t, l ∈ crits (progs t)) →
      ∃ log, c.mem l = applyAll (m0 l) log ∧ log.Perm (allUpd T m0 r0 progs k l))

theorem critUpd_nil_of_all (m0 : Store V) (rs : Regs V) (l : Loc) : critUpd m0 rs [] l = [] := rfl

theorem sim2_init (T : Nat) (m0 : Store V) (r0 : Nat → Regs V) (progs : Nat → List (Instr V)) :
    Sim2 T m0 r0 progs (initCfg m0 r0 progs) := by
  refine ⟨fun _ => 0, ?_, ?_, ?_⟩
  · intro t; exact ⟨by simp [initCfg], by simp [initCfg, solo], by intro l _; simp [initCfg, solo]⟩
  · intro l _ _; rfl
  · intro l _
    refine ⟨[], rfl, ?_⟩
    have : allUpd T m0 r0 progs (fun _ => 0) l = [] := by
      unfold allUpd
      induction List.range T with
      | nil => rfl
      | cons a as ih => simp [List.flatMap_cons, critUpd, ih]
    rw [this]

/-- advancing thread `t` by one non-critical instruction does not change the collected updates -/
theorem allUpd_step_noncrit (T : Nat) (m0 : Store V) (r0 : Nat → Regs V) (progs : Nat → List (Instr V))
    (k : Nat → Nat) (t : Nat) (l : Loc) (i : Instr V)
    (htake : (progs t).take (k t + 1) = (progs t).take (k t) ++ [i])
    (hnc : ∀ l' f, i ≠ Instr.crit l' f) :
    allUpd T m0 r0 progs (fun s => if s = t then k t + 1 else k s) l = allUpd T m0 r0 progs k l := by
  unfold allUpd
  congr 1
  funext s
  by_cases hs : s = t
  · subst hs
    simp only [↓reduceIte]
    rw [htake, critUpd_append]
    cases i with
    | load r l' => simp [critUpd]
    | store l' f => simp [critUpd]
    | crit l' f => exact absurd rfl (hnc l' f)
  · simp [hs]

theorem allUpd_step_crit (T : Nat) (m0 : Store V) (r0 : Nat → Regs V) (progs : Nat → List (Instr V))
    (k : Nat → Nat) (t : Nat) (ht : t < T) (l l' : Loc) (f : Regs V → V → V)
    (htake : (progs t).take (k t + 1) = (progs t).take (k t) ++ [Instr.crit l' f]) :
    (allUpd T m0 r0 progs (fun s => if s = t then k t + 1 else k s) l).Perm
      (allUpd T m0 r0 progs k l ++
        (if l' = l then [f (solo m0 (r0 t) ((progs t).take (k t))).2] else [])) := by
  unfold allUpd
  by_cases hl : l' = l
  · subst hl
    simp only [↓reduceIte]
    have hfun : (fun s => critUpd m0 (r0 s) ((progs s).take (if s = t then k t + 1 else k s)) l')
        = fun s => if s = t then critUpd m0 (r0 s) ((progs s).take (k s)) l' ++
            [f (solo m0 (r0 t) ((progs t).take (k t))).2]
          else critUpd m0 (r0 s) ((progs s).take (k s)) l' := by
      funext s
      by_cases hs : s = t
      · subst hs
        simp only [↓reduceIte]
        rw [htake, critUpd_append]
        simp [critUpd]
      · simp [hs]
    rw [hfun]
    exact perm_flatMap_update (List.range T) List.nodup_range _ t (List.mem_range.2 ht) _
  · simp only [hl, ↓reduceIte, List.append_nil]
    have hfun : (fun s => critUpd m0 (r0 s) ((progs s).take (if s = t then k t + 1 else k s)) l)
        = fun s => critUpd m0 (r0 s) ((progs s).take (k s)) l := by
      funext s
      by_cases hs : s = t
      · subst hs
        simp only [↓reduceIte]
        rw [htake, critUpd_append]
        simp [critUpd, hl]
      · simp [hs]
    rw [hfun]

theorem applyAll_append (v : V) (us : List (V → V)) (u : V → V) : applyAll v (us ++ [u]) = u (applyAll v us) := by
  simp [applyAll, List.foldl_append]

theorem sim2_step {T : Nat} {m0 : Store V} {r0 : Nat → Regs V} {progs : Nat → List (Instr V)}
    (hok : CritOK T progs) {c : Cfg V} (h : Sim2 T m0 r0 progs c) (t : Nat) :
    Sim2 T m0 r0 progs (step c t) := by
  unfold step
  split
  · exact h
  · rename_i i rest hprog
    obtain ⟨k, hpos, hunt, hcrit⟩ := h.ex
    obtain ⟨hk1, hk2, hk3⟩ := hpos t
    rw [hk1] at hprog
    obtain ⟨htake, hdrop, hget⟩ := take_succ_of_drop hprog
    have hsolo : solo m0 (r0 t) ((progs t).take (k t + 1)) =
        exec (solo m0 (r0 t) ((progs t).take (k t))).1 (solo m0 (r0 t) ((progs t).take (k t))).2 i := by
      rw [htake, solo_append]; simp [solo]
    have htT : t < T := by
      rcases Nat.lt_or_ge t T with h1 | h1
      · exact h1
      · have := hok.fin t h1; rw [this] at hget; simp at hget
    cases i with
    | load r l =>
      have hl : l ∈ reads (progs t) := mem_reads_of_getElem hget
      have hval := hk3 l (Or.inl hl)
      refine ⟨fun s => if s = t then k t + 1 else k s, ?_, ?_, ?_⟩
      · intro u
        by_cases e : u = t
        · subst e
          simp only [↓reduceIte]
          refine ⟨by simp [hdrop], by simp [hsolo, exec, hk2, hval], ?_⟩
          intro l' hl'; simp [hsolo, exec]; exact hk3 l' hl'
        · obtain ⟨h1, h2, h3⟩ := hpos u
          simp only [e, ↓reduceIte]
          exact ⟨h1, h2, by intro l' hl'; simp [exec]; exact h3 l' hl'⟩
      · intro l' h1 h2; simp [exec]; exact hunt l' h1 h2
      · intro l' hl'
        obtain ⟨log, hlog, hperm⟩ := hcrit l' hl'
        refine ⟨log, by simp [exec]; exact hlog, ?_⟩
        rw [allUpd_step_noncrit T m0 r0 progs k t l' _ htake (by intro _ _ e; cases e)]
        exact hperm
    | store l f =>
      have hl : l ∈ writes (progs t) := mem_writes_of_getElem hget
      refine ⟨fun s => if s = t then k t + 1 else k s, ?_, ?_, ?_⟩
      · intro u
        by_cases e : u = t
        · subst e
          simp only [↓reduceIte]
          refine ⟨by simp [hdrop], by simp [hsolo, exec, hk2], ?_⟩
          intro l' hl'
          simp only [hsolo, exec, setLoc]
          by_cases e2 : l' = l
          · simp [e2, hk2]
          · simp [e2]; exact hk3 l' hl'
        · obtain ⟨h1, h2, h3⟩ := hpos u
          simp only [e, ↓reduceIte]
          refine ⟨h1, h2, ?_⟩
          intro l' hl'
          have : l' ≠ l := by
            intro e2; subst e2
            exact hok.disj t u (Ne.symm e) l' hl hl'
          simp [exec, setLoc, this]; exact h3 l' hl'
      · intro l' h1 h2
        have : l' ≠ l := by intro e2; subst e2; exact h1 t hl
        simp [exec, setLoc, this]; exact hunt l' h1 h2
      · intro l' hl'
        obtain ⟨u, hu⟩ := hl'
        have hne : l' ≠ l := by
          intro e2; subst e2
          exact hok.prot u t l' hu (Or.inr hl)
        obtain ⟨log, hlog, hperm⟩ := hcrit l' ⟨u, hu⟩
        refine ⟨log, by simp [exec, setLoc, hne]; exact hlog, ?_⟩
        rw [allUpd_step_noncrit T m0 r0 progs k t l' _ htake (by intro _ _ e; cases e)]
        exact hperm
    | crit l f =>
      have hl : l ∈ crits (progs t) := mem_crits_of_getElem hget
      refine ⟨fun s => if s = t then k t + 1 else k s, ?_, ?_, ?_⟩
      · intro u
        have hnacc : ¬ accessed (progs u) l := hok.prot t u l hl
        by_cases e : u = t
        · subst e
          simp only [↓reduceIte]
          refine ⟨by simp [hdrop], by simp [hsolo, exec, hk2], ?_⟩
          intro l' hl'
          have : l' ≠ l := fun e2 => hnacc (e2 ▸ hl')
          simp only [hsolo, exec, setLoc, this, ↓reduceIte]
          exact hk3 l' hl'
        · obtain ⟨h1, h2, h3⟩ := hpos u
          simp only [e, ↓reduceIte]
          refine ⟨h1, h2, ?_⟩
          intro l' hl'
          have : l' ≠ l := fun e2 => hnacc (e2 ▸ hl')
          simp [exec, setLoc, this]; exact h3 l' hl'
      · intro l' h1 h2
        have : l' ≠ l := by intro e2; subst e2; exact h2 t hl
        simp [exec, setLoc, this]; exact hunt l' h1 h2
      · intro l' hl'
        obtain ⟨log, hlog, hperm⟩ := hcrit l' hl'
        have hp := allUpd_step_crit T m0 r0 progs k t htT l' l f htake
        by_cases e : l = l'
        · subst e
          simp only [↓reduceIte] at hp
          refine ⟨log ++ [f (c.ths t).regs], ?_, ?_⟩
          · simp only [exec, setLoc, ↓reduceIte]
            rw [applyAll_append, ← hlog]
          · rw [hk2]
            exact (List.Perm.append_right _ hperm).trans hp.symm
        · simp only [e, ↓reduceIte, List.append_nil] at hp
          have hne : l' ≠ l := fun e2 => e e2.symm
          refine ⟨log, by simp [exec, setLoc, hne]; exact hlog, hperm.trans hp.symm⟩

theorem sim2_run {T : Nat} {m0 : Store V} {r0 : Nat → Regs V} {progs : Nat → List (Instr V)} (hok : CritOK T progs)
    (sched : List Nat) : ∀ {c : Cfg V}, Sim2 T m0 r0 progs c → Sim2 T m0 r0 progs (run c sched) := by
  induction sched with
  | nil => intro c h; exact h
  | cons t s ih => intro c h; exact ih (sim2_step hok h t)

end SharkVerif.Par
