/-
Index-based tools for the proof of `HypervolumeCalculatorMDHOY` (Lemmas/HOY.lean):
coordinate access `at'`, boxes and `leAll` by index, cutting a box at a coordinate,
products over `List.range`, `getMeasure`, `signedAll`, `computeTrellis`, `covers`, `partCovers`,
`isPile`.  Core Lean only.
-/
import SharkVerif.Lemmas.Hypervolume
import SharkVerif.Model.HOY
namespace SharkVerif.HOY
open SharkVerif.Pareto SharkVerif.HV

/-! ### coordinate access -/

@[simp] theorem at'_cons_zero (a : Int) (l : Pt) : at' (a :: l) 0 = a := rfl
@[simp] theorem at'_cons_succ (a : Int) (l : Pt) (i : Nat) : at' (a :: l) (i + 1) = at' l i := by
  simp [at']
@[simp] theorem at'_nil (i : Nat) : at' [] i = 0 := by simp [at']

theorem at'_set (l : Pt) (j i : Nat) (v : Int) :
    at' (l.set j v) i = if j = i ∧ j < l.length then v else at' l i := by
  unfold at'
  rw [List.getD_eq_getElem?_getD, List.getD_eq_getElem?_getD, List.getElem?_set]
  by_cases h : j = i
  · subst h
    by_cases h2 : j < l.length
    · simp [h2]
    · simp [h2]
  · simp [h]

theorem at'_set_ne (l : Pt) {j i : Nat} (v : Int) (h : j ≠ i) : at' (l.set j v) i = at' l i := by
  rw [at'_set]; simp [h]

theorem at'_set_eq (l : Pt) {j : Nat} (v : Int) (h : j < l.length) : at' (l.set j v) j = v := by
  rw [at'_set]; simp [h]

theorem lastC_eq_at' (p : Pt) : lastC p = at' p (p.length - 1) := by
  unfold lastC at'
  induction p with
  | nil => simp
  | cons a p ih =>
    cases p with
    | nil => simp
    | cons b p =>
      simp only [List.getLastD_cons] at ih ⊢
      simp only [List.length_cons, Nat.add_sub_cancel] at ih ⊢
      rw [List.getD_cons_succ]
      rw [← ih]

/-! ### `leAll` and boxes by index -/

theorem leAll_iff_idx : ∀ {p z : Pt},
    leAll p z = true ↔ p.length = z.length ∧ ∀ i, i < z.length → at' p i ≤ at' z i
  | [], [] => by simp [leAll]
  | [], _ :: _ => by simp [leAll]
  | _ :: _, [] => by simp [leAll]
  | a :: p, b :: z => by
    simp only [leAll, Bool.and_eq_true, decide_eq_true_eq, List.length_cons, Nat.add_right_cancel_iff]
    rw [leAll_iff_idx (p := p) (z := z)]
    constructor
    · rintro ⟨h1, h2, h3⟩
      refine ⟨h2, ?_⟩
      intro i hi
      cases i with
      | zero => simpa using h1
      | succ i => simpa using h3 i (by omega)
    · rintro ⟨h1, h2⟩
      refine ⟨by simpa using h2 0 (by omega), h1, ?_⟩
      intro i hi
      simpa using h2 (i + 1) (by omega)

theorem inBox_iff_idx : ∀ {lo z hi : Pt},
    inBox lo z hi ↔ lo.length = z.length ∧ hi.length = z.length ∧
      ∀ i, i < z.length → at' lo i ≤ at' z i ∧ at' z i < at' hi i
  | [], [], [] => by simp [inBox]
  | [], [], _ :: _ => by simp [inBox]
  | [], _ :: _, _ => by simp [inBox]
  | _ :: _, [], _ => by simp [inBox]
  | _ :: _, _ :: _, [] => by simp [inBox]
  | l :: lo, z :: zs, h :: hi => by
    simp only [inBox, List.length_cons, Nat.add_right_cancel_iff]
    rw [inBox_iff_idx (lo := lo) (z := zs) (hi := hi)]
    constructor
    · rintro ⟨h1, h2, h3, h4, h5⟩
      refine ⟨h3, h4, ?_⟩
      intro i hi
      cases i with
      | zero => simpa using ⟨h1, h2⟩
      | succ i => simpa using h5 i (by omega)
    · rintro ⟨h1, h2, h3⟩
      have h0 := h3 0 (by omega)
      simp only [at'_cons_zero] at h0
      refine ⟨h0.1, h0.2, h1, h2, ?_⟩
      intro i hi
      simpa using h3 (i + 1) (by omega)

theorem mem_cells_idx {lo hi z : Pt} :
    z ∈ cells lo hi ↔ lo.length = z.length ∧ hi.length = z.length ∧
      ∀ i, i < z.length → at' lo i ≤ at' z i ∧ at' z i < at' hi i :=
  mem_cells.trans inBox_iff_idx

/-- **cutting a box** at the value `b` of coordinate `j` -/
theorem countP_cells_cut {lo hi : Pt} (f : Pt → Bool) (j : Nat) (b : Int)
    (hlen : lo.length = hi.length) (hj : j < lo.length)
    (h1 : at' lo j ≤ b) (h2 : b ≤ at' hi j) :
    (cells lo hi).countP f = (cells lo (hi.set j b)).countP f + (cells (lo.set j b) hi).countP f := by
  apply countP_eq_add_of_nodup (nodup_cells _ _) (nodup_cells _ _) (nodup_cells _ _)
  · intro z
    simp only [mem_cells_idx, List.length_set]
    constructor
    · rintro ⟨⟨hl, hh, hb⟩, hf⟩
      by_cases hz : at' z j < b
      · left
        refine ⟨⟨hl, hh, ?_⟩, hf⟩
        intro i hlt
        rw [at'_set]
        by_cases hji : j = i
        · subst hji
          simp only [true_and, show j < hi.length by omega, if_pos]
          exact ⟨(hb j hlt).1, hz⟩
        · simp only [hji, false_and, if_false]
          exact hb i hlt
      · right
        refine ⟨⟨hl, hh, ?_⟩, hf⟩
        intro i hlt
        rw [at'_set]
        by_cases hji : j = i
        · subst hji
          simp only [true_and, hj, if_pos]
          exact ⟨by omega, (hb j hlt).2⟩
        · simp only [hji, false_and, if_false]
          exact hb i hlt
    · rintro (⟨⟨hl, hh, hb⟩, hf⟩ | ⟨⟨hl, hh, hb⟩, hf⟩)
      · refine ⟨⟨hl, hh, ?_⟩, hf⟩
        intro i hlt
        have := hb i hlt
        rw [at'_set] at this
        by_cases hji : j = i
        · subst hji
          simp only [true_and, show j < hi.length by omega, if_pos] at this
          exact ⟨this.1, by omega⟩
        · simpa only [hji, false_and, if_false] using this
      · refine ⟨⟨hl, hh, ?_⟩, hf⟩
        intro i hlt
        have := hb i hlt
        rw [at'_set] at this
        by_cases hji : j = i
        · subst hji
          simp only [true_and, hj, if_pos] at this
          exact ⟨by omega, this.2⟩
        · simpa only [hji, false_and, if_false] using this
  · rintro z ⟨hz1, _⟩ ⟨hz2, _⟩
    simp only [mem_cells_idx, List.length_set] at hz1 hz2
    have a1 := hz1.2.2 j (by omega)
    have a2 := hz2.2.2 j (by omega)
    rw [at'_set_eq _ _ (by omega)] at a1
    rw [at'_set_eq _ _ (by omega)] at a2
    omega

/-! ### products over `List.range` -/

/-- `Π_{i<n} g i` -/
def prodR (n : Nat) (g : Nat → Int) : Int := (List.range n).foldl (fun v i => v * g i) 1

theorem foldl_mul_start {α} (g : α → Int) : ∀ (l : List α) (a : Int),
    l.foldl (fun v i => v * g i) a = a * l.foldl (fun v i => v * g i) 1
  | [], a => by simp
  | x :: l, a => by
    simp only [List.foldl_cons]
    rw [foldl_mul_start g l (a * g x), foldl_mul_start g l (1 * g x), Int.one_mul, Int.mul_assoc]

@[simp] theorem prodR_zero (g : Nat → Int) : prodR 0 g = 1 := rfl

theorem prodR_succ (n : Nat) (g : Nat → Int) : prodR (n + 1) g = prodR n g * g n := by
  unfold prodR
  rw [List.range_succ, List.foldl_append]
  simp

theorem prodR_succ' (n : Nat) (g : Nat → Int) : prodR (n + 1) g = g 0 * prodR n (fun i => g (i + 1)) := by
  induction n with
  | zero => simp [prodR_succ]
  | succ n ih =>
    rw [prodR_succ, ih, prodR_succ, Int.mul_assoc]

theorem prodR_congr {n : Nat} {g h : Nat → Int} (H : ∀ i, i < n → g i = h i) : prodR n g = prodR n h := by
  induction n with
  | zero => rfl
  | succ n ih =>
    rw [prodR_succ, prodR_succ, ih (fun i hi => H i (by omega)), H n (by omega)]

theorem prodR_nonneg {n : Nat} {g : Nat → Int} (H : ∀ i, i < n → 0 ≤ g i) : 0 ≤ prodR n g := by
  induction n with
  | zero => simp
  | succ n ih =>
    rw [prodR_succ]
    exact Int.mul_nonneg (ih (fun i hi => H i (by omega))) (H n (by omega))

theorem boxVol_eq_prodR : ∀ {lo hi : Pt}, lo.length = hi.length →
    boxVol lo hi = prodR lo.length (fun i => at' hi i - at' lo i)
  | [], [], _ => by simp [boxVol]
  | [], _ :: _, h => by simp at h
  | _ :: _, [], h => by simp at h
  | a :: lo, b :: hi, h => by
    simp only [List.length_cons, Nat.add_right_cancel_iff] at h
    simp only [boxVol, List.length_cons]
    rw [prodR_succ', boxVol_eq_prodR h]
    simp

theorem getMeasure_eq (low up : Pt) :
    getMeasure low up = prodR (low.length - 1) (fun i => at' up i - at' low i) := rfl

/-- the volume of an `m`-dimensional box is the measure of its base times its height -/
theorem boxVol_eq_measure {lo hi : Pt} (h : lo.length = hi.length) (hpos : 0 < lo.length) :
    boxVol lo hi = getMeasure lo hi * (at' hi (lo.length - 1) - at' lo (lo.length - 1)) := by
  rw [boxVol_eq_prodR h, getMeasure_eq]
  obtain ⟨n, hn⟩ : ∃ n, lo.length = n + 1 := ⟨lo.length - 1, by omega⟩
  rw [hn, prodR_succ]
  simp

/-! ### `signedAll` and `computeTrellis` -/

theorem signedAll_closed_form : ∀ (dims : List (Int × Int × Int)),
    signedAll dims = dims.foldl (fun v d => v * (d.2.2 - d.1)) 1
  | [] => rfl
  | (l, u, t) :: rest => by
    simp only [signedAll, List.foldl_cons]
    rw [foldl_mul_start, signedAll_closed_form rest, ← Int.sub_mul]
    congr 1
    omega

theorem foldl_map_range {α} (n : Nat) (F : Nat → α) (h : α → Int) :
    ((List.range n).map F).foldl (fun v d => v * h d) 1 = prodR n (fun i => h (F i)) := by
  unfold prodR
  rw [List.foldl_map]

theorem computeTrellis_eq (low up tr : Pt) :
    computeTrellis low up tr =
      prodR (low.length - 1) (fun i => at' up i - at' low i) -
      prodR (low.length - 1) (fun i => at' tr i - at' low i) := by
  unfold computeTrellis
  simp only []
  rw [signedAll_closed_form, foldl_map_range, foldl_map_range]

/-! ### `covers`, `partCovers`, `isPile`, `containsBoundary` -/

theorem covers_iff {c low : Pt} : covers c low = true ↔ ∀ i, i < c.length - 1 → at' c i ≤ at' low i := by
  simp only [covers, List.all_eq_true, List.mem_range, Bool.not_eq_true', decide_eq_false_iff_not,
    Int.not_lt]

theorem partCovers_iff {c up : Pt} : partCovers c up = true ↔ ∀ i, i < c.length - 1 → at' c i < at' up i := by
  simp only [partCovers, List.all_eq_true, List.mem_range, Bool.not_eq_true', decide_eq_false_iff_not,
    Int.not_le, ge_iff_le]

theorem containsBoundary_neg {c low : Pt} {s : Nat} :
    containsBoundary c low s = -1 ↔ at' c s ≤ at' low s := by
  unfold containsBoundary
  by_cases h : at' low s < at' c s
  · simp only [h, decide_true, Bool.not_true, Bool.false_eq_true, if_false]
    split <;> simp <;> omega
  · simp only [h, decide_false, Bool.not_false, if_true, true_iff]; omega

theorem containsBoundary_pos {c low : Pt} {s : Nat} (h : containsBoundary c low s ≠ -1) :
    at' low s < at' c s := by
  have := mt containsBoundary_neg.mpr h
  omega

/-- the state of the `isPile` loop after `n` coordinates -/
def pileStep (c low : Pt) (st : Option Nat) (i : Nat) : Option Nat :=
  match st with
  | none => none
  | some pile => if at' c i > at' low i then (if pile != c.length then none else some i) else some pile

theorem isPile_eq (c low : Pt) : isPile c low = (List.range (c.length - 1)).foldl (pileStep c low) (some c.length) := rfl

theorem pile_inv (c low : Pt) : ∀ (n : Nat), n ≤ c.length - 1 → ∀ k,
    (List.range n).foldl (pileStep c low) (some c.length) = some k →
      (k = c.length ∧ ∀ i, i < n → at' c i ≤ at' low i) ∨
      (k < n ∧ at' low k < at' c k ∧ ∀ i, i < n → i ≠ k → at' c i ≤ at' low i)
  | 0, _, k, h => by
    simp only [List.range_zero, List.foldl_nil, Option.some.injEq] at h
    left; exact ⟨h.symm, fun i hi => by omega⟩
  | n + 1, hn, k, h => by
    rw [List.range_succ, List.foldl_append] at h
    simp only [List.foldl_cons, List.foldl_nil] at h
    cases hst : (List.range n).foldl (pileStep c low) (some c.length) with
    | none => rw [hst] at h; simp [pileStep] at h
    | some k0 =>
      rw [hst] at h
      have ih := pile_inv c low n (by omega) k0 hst
      simp only [pileStep] at h
      by_cases hc : at' c n > at' low n
      · simp only [hc, if_true] at h
        by_cases hk : k0 = c.length
        · simp only [hk, bne_self_eq_false, Bool.false_eq_true, if_false, Option.some.injEq] at h
          subst h
          right
          rcases ih with ⟨_, ih⟩ | ⟨ih, _⟩
          · refine ⟨by omega, hc, ?_⟩
            intro i hi hne
            exact ih i (by omega)
          · omega
        · have : (k0 != c.length) = true := by simpa using hk
          simp [this] at h
      · simp only [hc, if_false, Option.some.injEq] at h
        subst h
        rcases ih with ⟨h1, ih⟩ | ⟨h1, h2, ih⟩
        · left
          refine ⟨h1, ?_⟩
          intro i hi
          by_cases hin : i = n
          · subst hin; omega
          · exact ih i (by omega)
        · right
          refine ⟨by omega, h2, ?_⟩
          intro i hi hne
          by_cases hin : i = n
          · subst hin; omega
          · exact ih i (by omega) hne

/-- `isPile` characterised: the point sticks out of `low` in no coordinate (`k = length`) or
exactly in coordinate `k` -/
theorem isPile_some {c low : Pt} {k : Nat} (h : isPile c low = some k) :
    (k = c.length ∧ covers c low = true) ∨
    (k < c.length - 1 ∧ at' low k < at' c k ∧ ∀ i, i < c.length - 1 → i ≠ k → at' c i ≤ at' low i) := by
  rcases pile_inv c low (c.length - 1) (Nat.le_refl _) k (by rw [← isPile_eq]; exact h) with h1 | h1
  · exact Or.inl ⟨h1.1, covers_iff.mpr h1.2⟩
  · exact Or.inr h1

end SharkVerif.HOY
