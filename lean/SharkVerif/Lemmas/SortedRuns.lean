import SharkVerif.Lemmas.Dataset
namespace SharkVerif.Dataset

/-- positions (shifted by `off`) at which `v` occurs -/
def idxs (v : Nat) : List Nat → Nat → List Nat
  | [], _ => []
  | x :: l, off => (if x = v then [off] else []) ++ idxs v l (off + 1)

theorem idxs_append (v : Nat) (X Y : List Nat) : ∀ off, idxs v (X ++ Y) off = idxs v X off ++ idxs v Y (off + X.length) := by
  induction X with
  | nil => intro off; simp [idxs]
  | cons x X ih => intro off; simp [idxs, ih, Nat.add_assoc, Nat.add_comm 1]

theorem idxs_none (v : Nat) (X : List Nat) (h : ∀ x ∈ X, x ≠ v) : ∀ off, idxs v X off = [] := by
  induction X with
  | nil => intro off; rfl
  | cons x X ih =>
    intro off
    have hx : x ≠ v := h x (by simp)
    simp [idxs, hx, ih (fun y hy => h y (by simp [hy]))]

theorem idxs_all (v : Nat) (X : List Nat) (h : ∀ x ∈ X, x = v) : ∀ off, idxs v X off = (List.range X.length).map (· + off) := by
  induction X with
  | nil => intro off; rfl
  | cons x X ih =>
    intro off
    have hx : x = v := h x (by simp)
    simp only [idxs, hx, if_true, ih (fun y hy => h y (by simp [hy])), List.length_cons, List.range_succ_eq_map,
      List.map_cons, List.map_map, List.singleton_append, Nat.zero_add]
    congr 1
    apply List.map_congr_left; intro j _; simp only [Function.comp, Nat.succ_eq_add_one]; omega

theorem dropWhile_head_not {α : Type} (p : α → Bool) : ∀ (l : List α) (y : α) (r : List α),
    l.dropWhile p = y :: r → p y = false := by
  intro l
  induction l with
  | nil => intro y r h; simp at h
  | cons x l ih =>
    intro y r h
    by_cases hp : p x = true
    · simp only [List.dropWhile_cons, hp, if_true] at h; exact ih y r h
    · simp only [List.dropWhile_cons, hp] at h
      simp only [Bool.false_eq_true, if_false, List.cons.injEq] at h
      rw [← h.1]; simpa using hp

theorem mem_takeWhile_imp' {α : Type} (p : α → Bool) : ∀ (l : List α) (x : α), x ∈ l.takeWhile p → p x = true := by
  intro l
  induction l with
  | nil => intro x h; simp at h
  | cons a l ih =>
    intro x h
    by_cases hp : p a = true
    · simp only [List.takeWhile_cons, hp, if_true, List.mem_cons] at h
      rcases h with rfl | h
      · exact hp
      · exact ih x h
    · simp [List.takeWhile_cons, hp] at h

theorem sorted_head_le (l : List Nat) (hs : l.Pairwise (· ≤ ·)) (a : Nat) (t : List Nat) (hl : l = a :: t) :
    ∀ x ∈ l, a ≤ x := by
  subst hl
  intro x hx
  simp only [List.mem_cons] at hx
  rcases hx with rfl | hx
  · exact Nat.le_refl _
  · exact (List.pairwise_cons.mp hs).1 x hx

/-- in a sorted list that starts with `v`, everything after the leading run of `v`s is larger than `v` -/
theorem sorted_after_run (v : Nat) (l : List Nat) (hs : l.Pairwise (· ≤ ·)) (t : List Nat) (hl : l = v :: t) :
    ∀ x ∈ l.dropWhile (· == v), v < x := by
  intro x hx
  cases hd : l.dropWhile (· == v) with
  | nil => rw [hd] at hx; simp at hx
  | cons y r =>
    have hy : y ∈ l.dropWhile (· == v) := by rw [hd]; simp
    have hyl : y ∈ l := (List.dropWhile_sublist _).subset hy
    have h1 : v ≤ y := sorted_head_le l hs v t hl y hyl
    have h2 := dropWhile_head_not (· == v) l y r hd
    have h3 : y ≠ v := by simpa using h2
    have hs' : (l.dropWhile (· == v)).Pairwise (· ≤ ·) := hs.sublist (List.dropWhile_sublist _)
    have := sorted_head_le _ hs' y r hd x hx
    omega

/-- on a list of batch classes sorted ascending, the two runs `binarySubProblem` scans for are exactly the
positions of the two classes -/
theorem runs_eq_idxs (cls : List Nat) (hs : cls.Pairwise (· ≤ ·)) (sm bg : Nat) (hlt : sm < bg)
    (A L1 R1 L2 M L3 R2 : List Nat)
    (hA : A = cls.takeWhile (· != sm)) (hL1 : L1 = cls.dropWhile (· != sm))
    (hR1 : R1 = L1.takeWhile (· == sm)) (hL2 : L2 = L1.dropWhile (· == sm))
    (hM : M = L2.takeWhile (· != bg)) (hL3 : L3 = L2.dropWhile (· != bg))
    (hR2 : R2 = L3.takeWhile (· == bg))
    (h1 : L1 ≠ []) (h3 : L3 ≠ []) :
    (List.range R1.length).map (· + A.length) = idxs sm cls 0 ∧
    (List.range R2.length).map (· + (A.length + R1.length + M.length)) = idxs bg cls 0 := by
  have e1 : cls = A ++ L1 := by rw [hA, hL1, List.takeWhile_append_dropWhile]
  have e2 : L1 = R1 ++ L2 := by rw [hR1, hL2, List.takeWhile_append_dropWhile]
  have e3 : L2 = M ++ L3 := by rw [hM, hL3, List.takeWhile_append_dropWhile]
  have e4 : L3 = R2 ++ L3.dropWhile (· == bg) := by rw [hR2, List.takeWhile_append_dropWhile]
  -- heads of the runs
  obtain ⟨y1, r1, hy1⟩ : ∃ y r, L1 = y :: r := by cases L1 with | nil => exact absurd rfl h1 | cons y r => exact ⟨y, r, rfl⟩
  have hy1v : y1 = sm := by
    have := dropWhile_head_not (· != sm) cls y1 r1 (by rw [← hL1, hy1])
    simpa using this
  subst hy1v
  obtain ⟨y3, r3, hy3⟩ : ∃ y r, L3 = y :: r := by cases L3 with | nil => exact absurd rfl h3 | cons y r => exact ⟨y, r, rfl⟩
  have hy3v : y3 = bg := by
    have := dropWhile_head_not (· != bg) L2 y3 r3 (by rw [← hL3, hy3])
    simpa using this
  subst hy3v
  -- sortedness of the pieces
  have hsL1 : L1.Pairwise (· ≤ ·) := by rw [hL1]; exact hs.sublist (List.dropWhile_sublist _)
  have hsL2 : L2.Pairwise (· ≤ ·) := by rw [hL2]; exact hsL1.sublist (List.dropWhile_sublist _)
  have hsL3 : L3.Pairwise (· ≤ ·) := by rw [hL3]; exact hsL2.sublist (List.dropWhile_sublist _)
  -- facts about the pieces
  have fA : ∀ x ∈ A, x ≠ y1 := by
    intro x hx; rw [hA] at hx; have := mem_takeWhile_imp' _ _ _ hx; simpa using this
  have fR1 : ∀ x ∈ R1, x = y1 := by
    intro x hx; rw [hR1] at hx; have := mem_takeWhile_imp' _ _ _ hx; simpa using this
  have fL2 : ∀ x ∈ L2, y1 < x := by
    intro x hx; rw [hL2] at hx; exact sorted_after_run y1 L1 hsL1 r1 hy1 x hx
  have fM : ∀ x ∈ M, x ≠ y3 := by
    intro x hx; rw [hM] at hx; have := mem_takeWhile_imp' _ _ _ hx; simpa using this
  have fR2 : ∀ x ∈ R2, x = y3 := by
    intro x hx; rw [hR2] at hx; have := mem_takeWhile_imp' _ _ _ hx; simpa using this
  have fB : ∀ x ∈ L3.dropWhile (· == y3), y3 < x := sorted_after_run y3 L3 hsL3 r3 hy3
  have fAbg : ∀ x ∈ A, x ≠ y3 := by
    intro x hx
    have hsplit := hs
    rw [e1, List.pairwise_append] at hsplit
    have := hsplit.2.2 x hx y1 (by rw [hy1]; simp)
    omega
  refine ⟨?_, ?_⟩
  · rw [e1, e2, idxs_append, idxs_append, idxs_none y1 A fA, idxs_all y1 R1 fR1,
      idxs_none y1 L2 (fun x hx => by have := fL2 x hx; omega)]
    simp
  · have fR1bg : ∀ x ∈ R1, x ≠ y3 := fun x hx => by have := fR1 x hx; omega
    have fBbg : ∀ x ∈ L3.dropWhile (· == y3), x ≠ y3 := fun x hx => by have := fB x hx; omega
    conv => rhs; rw [e1, e2, e3, e4]
    rw [idxs_append, idxs_append, idxs_append, idxs_append, idxs_none y3 A fAbg, idxs_none y3 R1 fR1bg,
      idxs_none y3 M fM, idxs_all y3 R2 fR2, idxs_none y3 _ fBbg]
    simp [Nat.add_assoc]

end SharkVerif.Dataset
