/-
C06 §5/§6 — object re-use.

§5  Output-object contract of the derivative calls (`Model/LossOut.lean`): for every loss, for every previous
    content and shape of the `gradient` object, the object holds after the call what it holds after the same
    call on a freshly constructed object; hence for every *history* of derivative calls (any losses, any
    shapes, any order) on one object.  The proof goes through the write lists: an entry whose writes contain
    an assignment forgets what it held, and so does every entry of a loss that clears its output first.
    The `clear()` flags of HingeLoss / SquaredHingeLoss are regenerated from the C++ (`Gen/LossOutputs.lean`):
    `hinge_overwrites` / `sqHinge_overwrites` stop checking when the call is removed or moved into a branch.
    `guarded_write_without_clear_depends_on_old` is the witness that the hypothesis is needed.
§6  `ErrorFunction` = function of (point, data set); the model object is scratch (`Model/ErrFnHist.lean`):
    for every history of evaluations of several error-function objects sharing one model, interleaved with
    foreign writes to the model, copies, assignments, `init()` and changes of the thread count, every
    evaluation returns what the model-object-free semantics `runPure` returns.  Rests on the regenerated
    facts `*SetsModelFirst` (the first statement of each entry point writes the point into the model).

Core Lean only (no Mathlib).
-/
import SharkVerif.Model.LossOut
import SharkVerif.Model.ErrFnHist
namespace SharkVerif.LossOut
open Scalar SharkVerif.Loss
variable {α : Type} [Scalar α]

/-! ## 5. output objects -/

/-- an entry that is assigned at least once does not depend on what it held before -/
theorem applyAll_indep (ws : List (Write α)) (h : ws.any Write.isAssign = true) (b b' : α) :
    applyAll ws b = applyAll ws b' := by
  induction ws generalizing b b' with
  | nil => simp at h
  | cons w rest ih =>
    simp only [applyAll, List.foldl_cons]
    cases w with
    | assign v => rfl
    | sub v =>
      simp only [List.any_cons, Write.isAssign, Bool.false_or] at h
      exact ih h _ _

/-- the loss overwrites its whole output: it clears it, or every entry is assigned -/
def OutLoss.Overwrites (l : OutLoss α) : Prop :=
  l.clears = true ∨ ∀ i j, i < l.n → j < l.m → (l.writes i j).any Write.isAssign = true

theorem intoRows_indep (clears : Bool) (writes : Nat → Nat → List (Write α)) (n m : Nat)
    (h : clears = true ∨ ∀ i j, i < n → j < m → (writes i j).any Write.isAssign = true) (old old' : OutMat α) :
    intoRows clears writes old n m = intoRows clears writes old' n m := by
  unfold intoRows
  apply List.map_congr_left; intro i hi
  apply List.map_congr_left; intro j hj
  rcases h with h | h
  · simp [h]
  · exact applyAll_indep _ (h i j (List.mem_range.1 hi) (List.mem_range.1 hj)) _ _

/-- **output-object contract**: value and contents of the object after the call do not depend on the object -/
theorem outLoss_contract (l : OutLoss α) (h : l.Overwrites) (old old' : OutMat α) : l.into old = l.into old' := by
  unfold OutLoss.into
  rw [intoRows_indep l.clears l.writes l.n l.m h old old']

theorem outLoss_rows_fresh (l : OutLoss α) (h : l.Overwrites) (old : OutMat α) :
    l.rowsInto old = l.rowsInto OutMat.empty := intoRows_indep l.clears l.writes l.n l.m h old _

/-- every call of a history on one object returns what it returns on a fresh object -/
theorem runHistory_eq_fresh (ls : List (OutLoss α)) (h : ∀ l ∈ ls, l.Overwrites) (old : OutMat α) :
    runHistory old ls = ls.map fun l => (l.value, l.rowsInto OutMat.empty) := by
  induction ls generalizing old with
  | nil => rfl
  | cons l rest ih =>
    simp only [runHistory, List.map_cons]
    rw [ih (fun x hx => h x (List.mem_cons_of_mem _ hx)),
        outLoss_rows_fresh l (h l (List.mem_cons_self))]

theorem runHistory_indep (ls : List (OutLoss α)) (h : ∀ l ∈ ls, l.Overwrites) (old old' : OutMat α) :
    runHistory old ls = runHistory old' ls := by
  rw [runHistory_eq_fresh ls h old, runHistory_eq_fresh ls h old']

/-! every loss overwrites its output -/
theorem assignAll_overwrites (preds : List (List α)) (r : α × List (List α)) : (assignAll preds r).Overwrites :=
  Or.inr fun _ _ _ _ => by simp [assignAll, Write.isAssign]
theorem squared_overwrites (labels preds : List (List α)) : (squaredOut labels preds).Overwrites :=
  assignAll_overwrites _ _
theorem squaredClass_overwrites (labels : List Nat) (preds : List (List α)) : (squaredClassOut labels preds).Overwrites :=
  Or.inr fun _ _ _ _ => by simp [squaredClassOut, Write.isAssign]
/-- needs the regenerated fact that `HingeLoss::evalDerivative` clears its output before its branches -/
theorem hinge_overwrites (labels : List Nat) (preds : List (List α)) : (hingeOut labels preds).Overwrites :=
  Or.inl (by simp [hingeOut, Gen.LossOutputs.hingeClears])
theorem sqHinge_overwrites (labels : List Nat) (preds : List (List α)) : (sqHingeOut labels preds).Overwrites :=
  Or.inl (by simp [sqHingeOut, Gen.LossOutputs.sqHingeClears])
theorem epsHinge_overwrites (eps : α) (labels preds : List (List α)) : (epsHingeOut eps labels preds).Overwrites :=
  Or.inr fun _ _ _ _ => by simp [epsHingeOut, Write.isAssign]
theorem sqEpsHinge_overwrites (e2 : α) (labels preds : List (List α)) : (sqEpsHingeOut e2 labels preds).Overwrites :=
  assignAll_overwrites _ _
theorem huber_overwrites (sqrt : α → α) (d : α) (labels preds : List (List α)) : (huberOut sqrt d labels preds).Overwrites :=
  assignAll_overwrites _ _
theorem crossEntropy_overwrites (exp log : α → α) (labels : List Nat) (preds : List (List α)) :
    (crossEntropyOut exp log labels preds).Overwrites := assignAll_overwrites _ _
theorem crossEntropySoft_overwrites (exp log : α → α) (labels preds : List (List α)) :
    (crossEntropySoftOut exp log labels preds).Overwrites := assignAll_overwrites _ _

/-! entries of the object after the call = entries of the functional models of `Model/Loss.lean` -/
theorem getD_map_range {β : Type} (f : Nat → β) (n i : Nat) (d : β) (h : i < n) :
    ((List.range n).map f).getD i d = f i := by
  simp [List.getD_eq_getElem?_getD, h]

theorem intoRows_entry (clears : Bool) (writes : Nat → Nat → List (Write α)) (old : OutMat α) (n m i j : Nat)
    (hi : i < n) (hj : j < m) :
    ((intoRows clears writes old n m).getD i []).getD j 0
      = applyAll (writes i j) (if clears then 0 else (old.resize n m).entry i j) := by
  unfold intoRows
  rw [getD_map_range _ n i [] hi, getD_map_range _ m j 0 hj]

/-- the losses that assign every entry: the object holds the gradient of the functional model -/
theorem assignAll_entry (preds : List (List α)) (r : α × List (List α)) (old : OutMat α) (i j : Nat)
    (hi : i < preds.length) (hj : j < ncols preds) :
    (((assignAll preds r).rowsInto old).getD i []).getD j 0 = (r.2.getD i []).getD j 0 := by
  unfold OutLoss.rowsInto
  refine (intoRows_entry _ _ _ _ _ _ _ (by exact hi) (by exact hj)).trans ?_
  simp [assignAll, applyAll, Write.apply]

/-- `HingeLoss`, one output column, on any object: the entry is the entry of `hingeGradRowBinary`
(whose derivative property is `hinge_binary_gradient_correct`) -/
theorem hinge_binary_entry (labels : List Nat) (preds : List (List α)) (old : OutMat α) (i : Nat)
    (hm : ncols preds = 1) (hi : i < labels.length) :
    (((hingeOut labels preds).rowsInto old).getD i []).getD 0 0
      = (hingeGradRowBinary (labels.getD i 0) (preds.getD i [])).getD 0 0 := by
  unfold OutLoss.rowsInto
  have hj : 0 < (hingeOut labels preds).m := by simp [hingeOut, hm]
  refine (intoRows_entry _ _ _ _ _ _ _ (by exact hi) hj).trans ?_
  simp only [hingeOut, Gen.LossOutputs.hingeClears, hingeWrites, hm, if_true, hingeGradRowBinary]
  split <;> simp [applyAll, Write.apply]

/-- witness that `Overwrites` is needed: a guarded write without `clear()` (HingeLoss with its `clear()` moved
into the other branch) reports what the object held before -/
theorem guarded_write_without_clear_depends_on_old :
    intoRows false (fun _ _ => ([] : List (Write Rat))) ⟨1, 1, [1]⟩ 1 1
      ≠ intoRows false (fun _ _ => []) OutMat.empty 1 1 := by decide

/-- `SquaredLoss<Sequence,Sequence>`: the modelled (intended) call ignores the object … -/
theorem seqInto_indep (ignore : Nat) (old old' : List (List (List α))) (labels preds : List (List (List α))) :
    seqInto ignore old labels preds = seqInto ignore old' labels preds := rfl
/-- … appending to the sequences the object holds (the checked tree, finding F-C06-5) does not -/
theorem seqIntoAppending_depends_on_old :
    (seqIntoAppending 0 [[[7]]] [[[(1 : Rat)]]] [[[2]]]).2.map List.length
      ≠ (seqIntoAppending 0 [] [[[(1 : Rat)]]] [[[2]]]).2.map List.length := by decide

end SharkVerif.LossOut

namespace SharkVerif.ErrFnHist
open Scalar SharkVerif.ErrFn
variable {α : Type} [Scalar α] {L : Type}

/-! ## 6. the model object is scratch -/

/-- regenerated: all four entry points write the point into the model object first -/
theorem setsModelFirst_all (fl : Flavour) (d : Bool) : setsModelFirst fl d = true := by
  cases fl <;> cases d <;> rfl

theorem step_eq_stepPure (mk : List α → ModelFn α) (w : World α L) (s : Step α) :
    (step mk w s).2 = (stepPure mk w.objs w.threads s).2 ∧
    (step mk w s).1.objs = (stepPure mk w.objs w.threads s).1.1 ∧
    (step mk w s).1.threads = (stepPure mk w.objs w.threads s).1.2 := by
  cases s with
  | eval o p =>
    simp only [step, stepPure]
    cases h : w.objs[o]? with
    | none => simp
    | some ob => simp [setsModelFirst_all]
  | deriv o p =>
    simp only [step, stepPure]
    cases h : w.objs[o]? with
    | none => simp
    | some ob => simp [setsModelFirst_all]
  | setModel q => simp [step, stepPure]
  | copy o =>
    simp only [step, stepPure]
    cases h : w.objs[o]? <;> simp
  | assign dst src =>
    simp only [step, stepPure]
    cases h : w.objs[src]? <;> simp
  | init o => simp [step, stepPure]
  | threads t => simp [step, stepPure]

/-- **every evaluation of every history is a function of (point, object)**: the results are those of the
semantics without a model object -/
theorem run_eq_runPure (mk : List α → ModelFn α) (w : World α L) (steps : List (Step α)) :
    run mk w steps = runPure mk w.objs w.threads steps := by
  induction steps generalizing w with
  | nil => rfl
  | cons s rest ih =>
    obtain ⟨h1, h2, h3⟩ := step_eq_stepPure mk w s
    simp only [run, runPure]
    rw [ih, h1, h2, h3]

/-- what the model object holds when a history starts is irrelevant -/
theorem run_model_object_is_scratch (mk : List α → ModelFn α) (objs : List (Obj α L)) (T : Nat)
    (cur cur' : List α) (steps : List (Step α)) :
    run mk ⟨cur, objs, T⟩ steps = run mk ⟨cur', objs, T⟩ steps := by
  rw [run_eq_runPure, run_eq_runPure]

/-- a foreign write to the model between two evaluations at the same point changes nothing -/
theorem eval_again_after_foreign_write (mk : List α → ModelFn α) (w : World α L) (o : Nat) (p q : List α) :
    run mk w [.eval o p, .setModel q, .eval o p] =
      [(w.objs[o]?).map fun ob => objResults (mk p) ob w.threads false p, none,
       (w.objs[o]?).map fun ob => objResults (mk p) ob w.threads false p] := by
  rw [run_eq_runPure]; rfl

end SharkVerif.ErrFnHist
