/-
Helper lemmas for C07: the tie between the solver state (permuted variables) and the ORIGINAL problem data through
the accumulated permutation, kept by every operation of the solver and by whole runs; the permutation is a bijection
of `[0,n)`, so sums over the permuted variables are sums over the original ones; the un-permuted coefficient vector
(`getUnpermutedAlpha`) has the same coefficient sum, kernel expansion, dual objective and box membership -- stated on
the original data; the coefficient sum is kept by every run of the solver on the equality-constrained problem.
Over `Rat`, all sizes.
-/
import SharkVerif.Props.C08
import SharkVerif.Model.SvmTrainer
import Mathlib.Data.Fintype.Card
import Mathlib.Algebra.BigOperators.Fin
namespace SharkVerif.SvmUnpermute
open SharkVerif.Qp SharkVerif.Smo SharkVerif.SvmTrainer

/-! ## 1. The per-variable data are the original data under the permutation -/

/-- variable `k` of the state carries the linear term and the box of original variable `perm k` -/
def Tied (lin0 L0 U0 : Nat → Rat) (s : RS) : Prop :=
  s.active ≤ s.n ∧ ∀ k, k < s.n → s.perm k < s.n ∧ s.lin k = lin0 (s.perm k) ∧ s.L k = L0 (s.perm k) ∧
    s.U k = U0 (s.perm k)

variable {lin0 L0 U0 : Nat → Rat}

/-- a state with the same size, permutation, linear term and box (and `active ≤ n`) is tied to the same data -/
theorem Tied.of_frame {s t : RS} (h : Tied lin0 L0 U0 s) (hn : t.n = s.n) (hp : t.perm = s.perm) (hl : t.lin = s.lin)
    (hL : t.L = s.L) (hU : t.U = s.U) (ha : t.active ≤ t.n) : Tied lin0 L0 U0 t := by
  refine ⟨ha, ?_⟩
  intro k hk
  rw [hn] at hk ⊢
  rw [hp, hl, hL, hU]
  exact h.2 k hk

theorem tied_init (n : Nat) (K : Nat → Nat → Rat) (eqc sh : Bool) (lin L U : Nat → Rat) :
    Tied lin L U (State.init n K eqc sh lin L U) :=
  ⟨Nat.le_refl _, fun _ hk => ⟨hk, rfl, rfl, rfl⟩⟩

theorem tied_initWith (n : Nat) (K : Nat → Nat → Rat) (eqc sh : Bool) (lin L U a0 : Nat → Rat) :
    Tied lin L U (State.initWith n K eqc sh lin L U a0) :=
  ⟨Nat.le_refl _, fun _ hk => ⟨hk, rfl, rfl, rfl⟩⟩

theorem tied_setInitialSolution {s : RS} (h : Tied lin0 L0 U0 s) (a0 : Nat → Rat) :
    Tied lin0 L0 U0 (s.setInitialSolution a0) :=
  h.of_frame rfl rfl rfl rfl rfl h.1

/-- a coordinate flip of two variables `< n` keeps the tie (`active` and `n` are untouched) -/
theorem tied_flip {s : RS} (h : Tied lin0 L0 U0 s) {i j : Nat} (hi : i < s.n) (hj : j < s.n) :
    Tied lin0 L0 U0 (s.flip i j) := by
  refine ⟨h.1, ?_⟩
  intro k hk
  exact h.2 (swapIdx i j k) (swapIdx_lt hi hj hk)

theorem tied_unshrink {s : RS} (h : Tied lin0 L0 U0 s) : Tied lin0 L0 U0 s.unshrink := by
  unfold State.unshrink
  split
  · exact h
  · exact h.of_frame rfl rfl rfl rfl rfl (Nat.le_refl _)

theorem tied_shrinkGo (lu sd : Rat) : ∀ (a : Nat) (s : RS), a ≤ s.active → Tied lin0 L0 U0 s →
    Tied lin0 L0 U0 (State.shrinkGo lu sd a s) := by
  intro a
  induction a with
  | zero => intro s _ h; exact h
  | succ a ih =>
    intro s ha h
    rw [shrinkGo_succ]
    have hn := h.1
    by_cases ht : s.testShrink a lu sd = true
    · rw [if_pos ht]
      have hf : Tied lin0 L0 U0 (s.flip a (s.active - 1)) :=
        tied_flip h (i := a) (j := s.active - 1) (by omega) (by omega)
      have hd : Tied lin0 L0 U0 ({ s.flip a (s.active - 1) with active := s.active - 1 } : RS) :=
        hf.of_frame rfl rfl rfl rfl rfl (by show s.active - 1 ≤ s.n; omega)
      exact ih _ (by show a ≤ s.active - 1; omega) hd
    · rw [if_neg ht]; exact ih s (by omega) h

theorem tied_shrink {s : RS} (h : Tied lin0 L0 U0 s) (eps : Rat) : Tied lin0 L0 U0 (s.shrink eps).1 := by
  unfold State.shrink
  split
  · exact h
  · dsimp only
    split
    · exact tied_shrinkGo _ _ _ _ (Nat.le_refl _) (tied_unshrink h)
    · exact tied_shrinkGo _ _ _ _ (Nat.le_refl _) h

/-- `updateSMO` does not touch the box -/
theorem updateSMO_L (s : RS) (i j : Nat) : (s.updateSMO i j).L = s.L := by
  have hb : (if s.eqc then s.smoSvmBase i j else s.smoBoxBase i j).L = s.L := by
    split
    · rw [smoSvmBase_eq]; split <;> rfl
    · by_cases hij : i = j
      · subst hij; rw [smoBoxBase_one]; rfl
      · rw [smoBoxBase_two s hij]; rfl
  unfold State.updateSMO
  dsimp only at hb ⊢
  split
  · rw [uge_fields]; exact hb
  · rw [uge_fields]; show (State.updateGradientEdge _ _ _ _).L = _; rw [uge_fields]; exact hb

theorem updateSMO_U (s : RS) (i j : Nat) : (s.updateSMO i j).U = s.U := by
  have hb : (if s.eqc then s.smoSvmBase i j else s.smoBoxBase i j).U = s.U := by
    split
    · rw [smoSvmBase_eq]; split <;> rfl
    · by_cases hij : i = j
      · subst hij; rw [smoBoxBase_one]; rfl
      · rw [smoBoxBase_two s hij]; rfl
  unfold State.updateSMO
  dsimp only at hb ⊢
  split
  · rw [uge_fields]; exact hb
  · rw [uge_fields]; show (State.updateGradientEdge _ _ _ _).U = _; rw [uge_fields]; exact hb

theorem tied_updateSMO {s : RS} (h : Tied lin0 L0 U0 s) (i j : Nat) : Tied lin0 L0 U0 (s.updateSMO i j) := by
  obtain ⟨h1, _, _, h4, h5⟩ := updateSMO_frame s i j
  exact h.of_frame h1 h4 h5 (updateSMO_L s i j) (updateSMO_U s i j)
    (by rw [updateSMO_active, h1]; exact h.1)

/-! ### generic preservation along `solveIter` / `solve` -/

/-- a property kept by `unshrink`, by `shrink(eps)` and by every `updateSMO(i,j)` holds for every state one pass of
`QpSolver::solve` produces and for the state handed to the next pass -/
theorem solveIter_preserves (P : RS → Prop) (strategy : Nat) (eps : Rat)
    (hun : ∀ t : RS, P t → P t.unshrink) (hsh : ∀ t : RS, P t → P (t.shrink eps).1)
    (hsmo : ∀ (t : RS) (i j : Nat), P t → P (t.updateSMO i j)) (s : RS) (counter : Nat) (h : P s) :
    (∀ e, e ∈ (solveIter strategy eps s counter).1 → P e.2) ∧
    (∀ s' c', (solveIter strategy eps s counter).2 = some (s', c') → P s') := by
  have h1 : P s.unshrink := hun s h
  unfold solveIter
  by_cases hacc : (s.select strategy 0 0).2.2 < eps
  · simp only [hacc, if_true]
    by_cases hkkt : s.unshrink.checkKKT < eps
    · simp only [hkkt, if_true]
      refine ⟨?_, fun s' c' hn => by simp at hn⟩
      intro e he
      simp only [List.mem_cons, List.not_mem_nil, or_false] at he; rw [he]; exact h1
    · simp only [hkkt, if_false]
      have h2 := hsh _ h1
      have h3 := hsmo _ ((s.unshrink.shrink eps).1.select strategy (s.select strategy 0 0).1
        (s.select strategy 0 0).2.1).1 ((s.unshrink.shrink eps).1.select strategy (s.select strategy 0 0).1
        (s.select strategy 0 0).2.1).2.1 h2
      have h4 := hsh _ h3
      split
      · refine ⟨?_, fun s' c' hn => by
          simp only [Option.some.injEq, Prod.mk.injEq] at hn; rw [← hn.1]; exact h4⟩
        intro e he
        simp only [List.cons_append, List.nil_append, List.mem_cons, List.not_mem_nil, or_false] at he
        rcases he with he | he | he | he <;> rw [he]
        · exact h1
        · exact h2
        · exact h3
        · exact h4
      · refine ⟨?_, fun s' c' hn => by
          simp only [Option.some.injEq, Prod.mk.injEq] at hn; rw [← hn.1]; exact h3⟩
        intro e he
        simp only [List.cons_append, List.nil_append, List.mem_cons, List.not_mem_nil, or_false] at he
        rcases he with he | he | he <;> rw [he]
        · exact h1
        · exact h2
        · exact h3
  · simp only [hacc, if_false]
    have h3 := hsmo s (s.select strategy 0 0).1 (s.select strategy 0 0).2.1 h
    have h4 := hsh _ h3
    split
    · refine ⟨?_, fun s' c' hn => by
        simp only [Option.some.injEq, Prod.mk.injEq] at hn; rw [← hn.1]; exact h4⟩
      intro e he
      simp only [List.nil_append, List.cons_append, List.mem_cons, List.not_mem_nil, or_false] at he
      rcases he with he | he <;> rw [he]
      · exact h3
      · exact h4
    · refine ⟨?_, fun s' c' hn => by
        simp only [Option.some.injEq, Prod.mk.injEq] at hn; rw [← hn.1]; exact h3⟩
      intro e he
      simp only [List.nil_append, List.mem_cons, List.not_mem_nil, or_false] at he
      rw [he]; exact h3

theorem solve_preserves (P : RS → Prop) (strategy : Nat) (eps : Rat)
    (hun : ∀ t : RS, P t → P t.unshrink) (hsh : ∀ t : RS, P t → P (t.shrink eps).1)
    (hsmo : ∀ (t : RS) (i j : Nat), P t → P (t.updateSMO i j)) :
    ∀ (fuel : Nat) (s : RS) (counter it : Nat), P s → P (solve strategy eps fuel s counter it).1 := by
  intro fuel
  induction fuel with
  | zero => intro s _ _ h; exact hun s h
  | succ fuel ih =>
    intro s counter it h
    obtain ⟨hev, hnext⟩ := solveIter_preserves P strategy eps hun hsh hsmo s counter h
    unfold solve
    cases hn : (solveIter strategy eps s counter).2 with
    | none =>
      simp only []
      cases hl : (solveIter strategy eps s counter).1.getLast? with
      | none => simpa using h
      | some e => simpa using hev e (List.mem_of_getLast? hl)
    | some p =>
      obtain ⟨s', c'⟩ := p
      simp only []
      exact ih s' c' (it + 1) (hnext s' c' hn)

/-- **the tie to the original data is kept by every solver run** (any strategy, accuracy, iteration limit) -/
theorem solve_tied (strategy : Nat) (eps : Rat) : ∀ (fuel : Nat) (s : RS) (counter it : Nat),
    Tied lin0 L0 U0 s → Tied lin0 L0 U0 (solve strategy eps fuel s counter it).1 :=
  solve_preserves (Tied lin0 L0 U0) strategy eps (fun _ h => tied_unshrink h) (fun _ h => tied_shrink h eps)
    (fun _ i j h => tied_updateSMO h i j)

theorem shrink_n (s : RS) (eps : Rat) : (s.shrink eps).1.n = s.n := by
  have hgo : ∀ (lu sd : Rat) (a : Nat) (u : RS), (State.shrinkGo lu sd a u).n = u.n := by
    intro lu sd a
    induction a with
    | zero => intro u; rfl
    | succ a ih => intro u; rw [shrinkGo_succ]; split
                   · rw [ih]; rfl
                   · exact ih u
  unfold State.shrink
  split
  · rfl
  · dsimp only
    split
    · rw [hgo]; exact orderFree_n.unshrink s
    · rw [hgo]

/-- the size never changes during a solver run -/
theorem solve_n (strategy : Nat) (eps : Rat) (fuel : Nat) (s : RS) (counter it : Nat) :
    (solve strategy eps fuel s counter it).1.n = s.n :=
  solve_preserves (fun t => t.n = s.n) strategy eps (fun t h => (orderFree_n.unshrink t).trans h)
    (fun t h => (shrink_n t eps).trans h) (fun t i j h => ((updateSMO_frame t i j).1).trans h) fuel s counter it rfl

/-! ## 2. The permutation is a bijection of `[0,n)` -/

theorem rsum_eq_sum_fin (f : Nat → Rat) (n : Nat) : rsum f n = ∑ i : Fin n, f i := by
  induction n with
  | zero => simp
  | succ n ih => rw [rsum_succ, ih, Fin.sum_univ_castSucc]; rfl

theorem permFin_injective {s : RS} (hlt : ∀ k, k < s.n → s.perm k < s.n)
    (hinj : ∀ a b, a < s.n → b < s.n → s.perm a = s.perm b → a = b) :
    Function.Injective (fun i : Fin s.n => (⟨s.perm i, hlt i i.2⟩ : Fin s.n)) := by
  intro a b e
  have hv : s.perm a = s.perm b := congrArg Fin.val e
  exact Fin.ext (hinj a b a.2 b.2 hv)

/-- an injective map of `[0,n)` into itself hits every element (pigeonhole) -/
theorem perm_surj {s : RS} (hlt : ∀ k, k < s.n → s.perm k < s.n)
    (hinj : ∀ a b, a < s.n → b < s.n → s.perm a = s.perm b → a = b) :
    ∀ x, x < s.n → ∃ i, i < s.n ∧ s.perm i = x := by
  intro x hx
  obtain ⟨i, hi⟩ := (Finite.injective_iff_surjective.mp (permFin_injective hlt hinj)) ⟨x, hx⟩
  exact ⟨i, i.2, congrArg Fin.val hi⟩

/-- sums over `[0,n)` can be re-indexed through the permutation -/
theorem rsum_perm {s : RS} (hlt : ∀ k, k < s.n → s.perm k < s.n)
    (hinj : ∀ a b, a < s.n → b < s.n → s.perm a = s.perm b → a = b) (F : Nat → Rat) :
    rsum (fun i => F (s.perm i)) s.n = rsum F s.n := by
  rw [rsum_eq_sum_fin, rsum_eq_sum_fin]
  have hφ := permFin_injective hlt hinj
  exact Function.Bijective.sum_comp ⟨hφ, Finite.injective_iff_surjective.mp hφ⟩ (fun x : Fin s.n => F x)

/-! ## 3. The un-permuted coefficient vector, on the original data -/

/-- `getUnpermutedAlpha` undoes the accumulated coordinate flips (statement and proof of `C07.unpermute_correct`) -/
theorem unpermute_spec (s : RS) (z : Rat)
    (hinj : ∀ a b, a < s.n → b < s.n → s.perm a = s.perm b → a = b) :
    (∀ i, i < s.n → unpermutedAlpha s z (s.perm i) = s.alpha i) ∧
    (∀ x, (∀ i, i < s.n → s.perm i ≠ x) → unpermutedAlpha s z x = z) := by
  have key : ∀ m, m ≤ s.n →
      let f := (List.range m).foldl (fun (f : Nat → Rat) i => upd f (s.perm i) (s.alpha i)) (fun _ => z)
      (∀ i, i < m → f (s.perm i) = s.alpha i) ∧ (∀ x, (∀ i, i < m → s.perm i ≠ x) → f x = z) := by
    intro m
    induction m with
    | zero => intro _ f; exact ⟨fun i hi => by omega, fun x _ => rfl⟩
    | succ m ih =>
      intro hm f
      have hf : f = upd ((List.range m).foldl (fun (f : Nat → Rat) i => upd f (s.perm i) (s.alpha i)) (fun _ => z))
          (s.perm m) (s.alpha m) := by
        show (List.range (m + 1)).foldl _ _ = _
        rw [List.range_succ, List.foldl_append]; rfl
      obtain ⟨ih1, ih2⟩ := ih (by omega)
      rw [hf]
      constructor
      · intro i hi
        by_cases him : i = m
        · subst him; exact upd_same _ _ _
        · have hne : s.perm i ≠ s.perm m := fun e => him (hinj i m (by omega) (by omega) e)
          rw [upd_ne _ _ hne]; exact ih1 i (by omega)
      · intro x hx
        have hne : x ≠ s.perm m := fun e => hx m (Nat.lt_succ_self m) e.symm
        rw [upd_ne _ _ hne]; exact ih2 x (fun i hi => hx i (by omega))
  exact key s.n (Nat.le_refl _)

/-- the dual objective depends on the coefficients `< n` only -/
theorem dual_congr {n : Nat} {Q : Nat → Nat → Rat} {lin α β : Nat → Rat} (hab : ∀ k, k < n → α k = β k) :
    dual n Q lin α = dual n Q lin β := by
  unfold dual bil
  have e1 : rsum (fun k => lin k * α k) n = rsum (fun k => lin k * β k) n :=
    rsum_congr (fun k hk => by rw [hab k hk])
  have e2 : rsum (fun a => α a * rsum (fun b => Q a b * α b) n) n
      = rsum (fun a => β a * rsum (fun b => Q a b * β b) n) n := by
    apply rsum_congr; intro a ha
    have : rsum (fun b => Q a b * α b) n = rsum (fun b => Q a b * β b) n :=
      rsum_congr (fun b hb => by rw [hab b hb])
    rw [hab a ha, this]
  rw [e1, e2]

section
variable {s : RS} (h : Inv s)
include h

theorem unperm_at : ∀ i, i < s.n → unpermutedAlpha s 0 (s.perm i) = s.alpha i :=
  (unpermute_spec s 0 h.perm_inj).1

/-- the un-permuted vector has the coefficient sum of the state -/
theorem unperm_sum : rsum (unpermutedAlpha s 0) s.n = alphaSum s :=
  (rsum_perm h.perm_lt h.perm_inj (unpermutedAlpha s 0)).symm.trans (rsum_congr (fun i hi => unperm_at h i hi))

/-- the kernel expansion of the un-permuted vector at original point `perm i` is the solver's `Kalpha` of variable `i` -/
theorem unperm_Kalpha : ∀ i, i < s.n →
    rsum (fun y => s.K (s.perm i) y * unpermutedAlpha s 0 y) s.n = Kalpha s i := by
  intro i _
  refine (rsum_perm h.perm_lt h.perm_inj (fun y => s.K (s.perm i) y * unpermutedAlpha s 0 y)).symm.trans ?_
  unfold Kalpha
  apply rsum_congr; intro b hb
  show s.K (s.perm i) (s.perm b) * unpermutedAlpha s 0 (s.perm b) = _
  rw [unperm_at h b hb]

/-- the dual objective of ANY coefficient vector on the original data is the dual objective of the re-indexed vector on
the solver's (permuted) data -/
theorem dual_perm (ht : Tied lin0 L0 U0 s) (β : Nat → Rat) :
    dual s.n s.K lin0 β = dual s.n (Qmat s) s.lin (fun i => β (s.perm i)) := by
  unfold dual bil
  have e1 : rsum (fun k => lin0 k * β k) s.n = rsum (fun k => s.lin k * β (s.perm k)) s.n :=
    (rsum_perm h.perm_lt h.perm_inj (fun k => lin0 k * β k)).symm.trans
      (rsum_congr (fun k hk => by
        show lin0 (s.perm k) * β (s.perm k) = _
        rw [(ht.2 k hk).2.1]))
  have e2 : rsum (fun a => β a * rsum (fun b => s.K a b * β b) s.n) s.n
      = rsum (fun a => β (s.perm a) * rsum (fun b => Qmat s a b * β (s.perm b)) s.n) s.n :=
    (rsum_perm h.perm_lt h.perm_inj (fun a => β a * rsum (fun b => s.K a b * β b) s.n)).symm.trans
      (rsum_congr (fun a _ => by
        show β (s.perm a) * rsum (fun b => s.K (s.perm a) b * β b) s.n = _
        have : rsum (fun b => s.K (s.perm a) b * β b) s.n = rsum (fun b => Qmat s a b * β (s.perm b)) s.n :=
          (rsum_perm h.perm_lt h.perm_inj (fun b => s.K (s.perm a) b * β b)).symm
        rw [this]))
  rw [e1, e2]

/-- **the dual objective of the un-permuted vector on the ORIGINAL data is the solver's dual objective** -/
theorem unperm_dual (ht : Tied lin0 L0 U0 s) : dual s.n s.K lin0 (unpermutedAlpha s 0) = dualObjective s := by
  rw [dual_perm h ht, dualObjective_eq]
  exact dual_congr (fun k hk => unperm_at h k hk)

/-- the total box width is that of the original boxes -/
theorem box_widths (ht : Tied lin0 L0 U0 s) :
    rsum (fun k => s.U k - s.L k) s.n = rsum (fun x => U0 x - L0 x) s.n := by
  refine Eq.trans ?_ (rsum_perm h.perm_lt h.perm_inj (fun x => U0 x - L0 x))
  apply rsum_congr; intro k hk
  show s.U k - s.L k = U0 (s.perm k) - L0 (s.perm k)
  rw [(ht.2 k hk).2.2.1, (ht.2 k hk).2.2.2]

/-- the un-permuted vector lies in the ORIGINAL boxes -/
theorem unperm_box (ht : Tied lin0 L0 U0 s) :
    ∀ x, x < s.n → L0 x ≤ unpermutedAlpha s 0 x ∧ unpermutedAlpha s 0 x ≤ U0 x := by
  intro x hx
  obtain ⟨i, hi, hix⟩ := perm_surj h.perm_lt h.perm_inj x hx
  subst hix
  rw [unperm_at h i hi, ← (ht.2 i hi).2.2.1, ← (ht.2 i hi).2.2.2]
  exact h.box i hi

end

/-! ## 4. The coefficient sum along every run on the equality-constrained problem -/

/-- one pass of `QpSolver::solve` (LibSVM second-order selection) keeps invariant, problem kind and coefficient sum -/
theorem solveIter_sum_svm (eps : Rat) (heps : 0 < eps) (s : RS) (counter : Nat) (c : Rat)
    (h : Inv s) (he : s.eqc = true) (hc : alphaSum s = c) (hr : SentinelOK s) :
    (∀ e, e ∈ (solveIter 1 eps s counter).1 → Inv e.2 ∧ e.2.eqc = true ∧ alphaSum e.2 = c) ∧
    (∀ s' c', (solveIter 1 eps s counter).2 = some (s', c') → Inv s' ∧ s'.eqc = true ∧ alphaSum s' = c) := by
  have hsel : ∀ (t : RS) (i0 j0 : Nat), t.select 1 i0 j0 = t.selectLibSVM := fun _ _ _ => rfl
  have hstep : ∀ (t : RS), Inv t → t.eqc = true → alphaSum t = c → 0 < t.selectLibSVM.2.2 →
      Inv (t.updateSMO t.selectLibSVM.1 t.selectLibSVM.2.1) ∧
      (t.updateSMO t.selectLibSVM.1 t.selectLibSVM.2.1).eqc = true ∧
      alphaSum (t.updateSMO t.selectLibSVM.1 t.selectLibSVM.2.1) = c := by
    intro t ht hte htc hpos
    obtain ⟨hi, hj, hg⟩ := selectLibSVM_spec t hpos
    exact ⟨C08.updateSMO_inv_svm ht hte hi hj (le_of_lt hg), ((updateSMO_frame t _ _).2.1).trans hte,
      (alphaSum_updateSMO_svm ht hte hi hj (le_of_lt hg)).trans htc⟩
  have hshr : ∀ (t : RS), (Inv t ∧ t.eqc = true ∧ alphaSum t = c) →
      Inv (t.shrink eps).1 ∧ (t.shrink eps).1.eqc = true ∧ alphaSum (t.shrink eps).1 = c := by
    intro t ht
    exact ⟨inv_shrink ht.1 eps, (shrink_eqc t ht.1 eps).trans ht.2.1, (orderFree_alphaSum.shrink ht.1 eps).trans ht.2.2⟩
  have htail : ∀ (t : RS) (pre : List (Ev × RS)), Inv t → t.eqc = true → alphaSum t = c → 0 < t.selectLibSVM.2.2 →
      (∀ e, e ∈ pre → Inv e.2 ∧ e.2.eqc = true ∧ alphaSum e.2 = c) →
      let s3 := t.updateSMO t.selectLibSVM.1 t.selectLibSVM.2.1
      let evs := pre ++ [(Ev.smo t.selectLibSVM.1 t.selectLibSVM.2.1, s3)]
      (∀ e, e ∈ evs → Inv e.2 ∧ e.2.eqc = true ∧ alphaSum e.2 = c) ∧
      (∀ e, e ∈ evs ++ [(Ev.shrink (s3.shrink eps).2, (s3.shrink eps).1)] →
        Inv e.2 ∧ e.2.eqc = true ∧ alphaSum e.2 = c) ∧
      (Inv (s3.shrink eps).1 ∧ (s3.shrink eps).1.eqc = true ∧ alphaSum (s3.shrink eps).1 = c) ∧
      (Inv s3 ∧ s3.eqc = true ∧ alphaSum s3 = c) := by
    intro t pre ht hte htc hpos hpre s3 evs
    have h3 := hstep t ht hte htc hpos
    have h4 := hshr s3 h3
    refine ⟨?_, ?_, h4, h3⟩
    · intro e he'
      rcases List.mem_append.mp he' with h' | h'
      · exact hpre e h'
      · simp only [List.mem_cons, List.not_mem_nil, or_false] at h'; rw [h']; exact h3
    · intro e he'
      rcases List.mem_append.mp he' with h' | h'
      · rcases List.mem_append.mp h' with h'' | h''
        · exact hpre e h''
        · simp only [List.mem_cons, List.not_mem_nil, or_false] at h''; rw [h'']; exact h3
      · simp only [List.mem_cons, List.not_mem_nil, or_false] at h'; rw [h']; exact h4
  unfold solveIter
  simp only [hsel]
  by_cases hacc : s.selectLibSVM.2.2 < eps
  · simp only [hacc, if_true]
    have hu : Inv s.unshrink := inv_unshrink h
    have hue : s.unshrink.eqc = true := (unshrink_eqc s).trans he
    have huc : alphaSum s.unshrink = c := (orderFree_alphaSum.unshrink s).trans hc
    by_cases hkkt : s.unshrink.checkKKT < eps
    · simp only [hkkt, if_true]
      refine ⟨?_, fun s' c' hn => by simp at hn⟩
      intro e he'
      simp only [List.mem_cons, List.not_mem_nil, or_false] at he'
      rw [he']; exact ⟨hu, hue, huc⟩
    · simp only [hkkt, if_false]
      have hkpos : 0 < s.unshrink.checkKKT := lt_of_lt_of_le heps (not_lt.mp hkkt)
      have ht := hshr s.unshrink ⟨hu, hue, huc⟩
      have hn : s.unshrink.n = s.n := orderFree_n.unshrink s
      have hpos : 0 < (s.unshrink.shrink eps).1.selectLibSVM.2.2 :=
        shrink_svm_select_pos hu hue (unshrink_active s) eps hkpos (fun a ha => hr a (by rw [← hn]; exact ha))
      have hpre : ∀ e, e ∈ [(Ev.unshrink, s.unshrink), (Ev.shrink (s.unshrink.shrink eps).2, (s.unshrink.shrink eps).1)] →
          Inv e.2 ∧ e.2.eqc = true ∧ alphaSum e.2 = c := by
        intro e he'
        simp only [List.mem_cons, List.not_mem_nil, or_false] at he'
        rcases he' with h' | h' <;> rw [h']
        · exact ⟨hu, hue, huc⟩
        · exact ht
      obtain ⟨t1, t2, t3, t4⟩ := htail _ _ ht.1 ht.2.1 ht.2.2 hpos hpre
      try dsimp only at t1 t2 t3 t4 ⊢
      split
      · exact ⟨t2, fun s' c' hn => by simp only [Option.some.injEq, Prod.mk.injEq] at hn; rw [← hn.1]; exact t3⟩
      · exact ⟨t1, fun s' c' hn => by simp only [Option.some.injEq, Prod.mk.injEq] at hn; rw [← hn.1]; exact t4⟩
  · simp only [hacc, if_false]
    have hv : 0 < s.selectLibSVM.2.2 := lt_of_lt_of_le heps (not_lt.mp hacc)
    obtain ⟨t1, t2, t3, t4⟩ := htail s [] h he hc hv (fun e he' => by simp at he')
    try dsimp only at t1 t2 t3 t4 ⊢
    simp only [List.nil_append] at t1 t2 ⊢
    split
    · exact ⟨t2, fun s' c' hn => by simp only [Option.some.injEq, Prod.mk.injEq] at hn; rw [← hn.1]; exact t3⟩
    · exact ⟨t1, fun s' c' hn => by simp only [Option.some.injEq, Prod.mk.injEq] at hn; rw [← hn.1]; exact t4⟩

/-- **the coefficient sum is kept by every solver run on the equality-constrained problem** (same hypotheses as
`C08.solve_inv_svm_partial`: gradients strictly inside the sentinel range at the start of every pass) -/
theorem solve_sum_svm_partial (eps : Rat) (heps : 0 < eps) :
    ∀ (fuel : Nat) (s : RS) (counter it : Nat), Inv s → s.eqc = true →
      (∀ t, t ∈ C08.passStates 1 eps fuel s counter → SentinelOK t) →
      alphaSum (solve 1 eps fuel s counter it).1 = alphaSum s := by
  have key : ∀ (c : Rat) (fuel : Nat) (s : RS) (counter it : Nat), Inv s → s.eqc = true → alphaSum s = c →
      (∀ t, t ∈ C08.passStates 1 eps fuel s counter → SentinelOK t) →
      Inv (solve 1 eps fuel s counter it).1 ∧ (solve 1 eps fuel s counter it).1.eqc = true ∧
      alphaSum (solve 1 eps fuel s counter it).1 = c := by
    intro c fuel
    induction fuel with
    | zero => intro s _ _ h he hc _; exact ⟨inv_unshrink h, (unshrink_eqc s).trans he, (orderFree_alphaSum.unshrink s).trans hc⟩
    | succ fuel ih =>
      intro s counter it h he hc hr
      have hrs : SentinelOK s := hr s (by unfold C08.passStates; exact List.mem_cons_self ..)
      obtain ⟨hev, hnext⟩ := solveIter_sum_svm eps heps s counter c h he hc hrs
      unfold solve
      cases hn : (solveIter 1 eps s counter).2 with
      | none =>
        simp only []
        cases hl : (solveIter 1 eps s counter).1.getLast? with
        | none => simpa using ⟨h, he, hc⟩
        | some e => simpa using hev e (List.mem_of_getLast? hl)
      | some p =>
        obtain ⟨s', c'⟩ := p
        simp only []
        refine ih s' c' (it + 1) (hnext s' c' hn).1 (hnext s' c' hn).2.1 (hnext s' c' hn).2.2 ?_
        intro t ht
        apply hr t
        unfold C08.passStates
        rw [hn]
        exact List.mem_cons_of_mem _ ht
  intro fuel s counter it h he hr
  exact (key (alphaSum s) fuel s counter it h he rfl hr).2.2

end SharkVerif.SvmUnpermute
