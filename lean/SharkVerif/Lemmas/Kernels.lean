/-
Helper lemmas for C05 about the kernel model (`Model/Kernels.lean`) over an
arbitrary field `K`: symmetry of the primitive forms, the "tabulated matrix"
calculus used for block evaluation, and the block-write calculus used for the
Gram assembly.
-/
import Mathlib.Tactic.Ring
import Mathlib.Tactic.FieldSimp
import Mathlib.Tactic.Linarith
import Mathlib.Algebra.Order.Field.Basic
import Mathlib.Algebra.BigOperators.Group.List.Basic
import SharkVerif.Model.Kernels

set_option linter.unusedSectionVars false

namespace SharkVerif.Kernels

section field
variable {K : Type} [Field K]

/-! ### primitive forms -/

theorem dot_nil_left (z : Point K) : dot ([] : Point K) z = 0 := by cases z <;> rfl
theorem dot_nil_right (x : Point K) : dot x ([] : Point K) = 0 := by cases x <;> rfl
@[simp] theorem dot_cons (a b : K) (x z : Point K) : dot (a :: x) (b :: z) = a * b + dot x z := rfl

theorem dot_comm : ∀ (x z : Point K), dot x z = dot z x
  | [], z => by rw [dot_nil_left, dot_nil_right]
  | _ :: _, [] => rfl
  | a :: x, b :: z => by rw [dot_cons, dot_cons, dot_comm x z, mul_comm]

theorem distSqr_nil_left (z : Point K) : distSqr ([] : Point K) z = 0 := by cases z <;> rfl
theorem distSqr_nil_right (x : Point K) : distSqr x ([] : Point K) = 0 := by cases x <;> rfl
@[simp] theorem distSqr_cons (a b : K) (x z : Point K) :
    distSqr (a :: x) (b :: z) = (a - b) * (a - b) + distSqr x z := rfl

theorem distSqr_comm : ∀ (x z : Point K), distSqr x z = distSqr z x
  | [], z => by rw [distSqr_nil_left, distSqr_nil_right]
  | _ :: _, [] => rfl
  | a :: x, b :: z => by rw [distSqr_cons, distSqr_cons, distSqr_comm x z]; ring

theorem distSqr_self : ∀ (x : Point K), distSqr x x = 0
  | [] => rfl
  | a :: x => by rw [distSqr_cons, distSqr_self x]; ring

theorem mahal_comm : ∀ (gs : List K) (x z : Point K), mahal gs x z = mahal gs z x
  | [], _, _ => by simp [mahal]
  | _ :: _, [], z => by cases z <;> simp [mahal]
  | _ :: _, _ :: _, [] => by simp [mahal]
  | g :: gs, a :: x, b :: z => by
      simp only [mahal]; rw [mahal_comm gs x z]; ring

theorem mahal_self : ∀ (gs : List K) (x : Point K), mahal gs x x = 0
  | [], _ => by simp [mahal]
  | _ :: _, [] => by simp [mahal]
  | g :: gs, a :: x => by simp only [mahal]; rw [mahal_self gs x]; ring

theorem powNat_eq_pow (x : K) : ∀ n : Nat, powNat x n = x ^ n
  | 0 => by simp [powNat]
  | n + 1 => by simp only [powNat]; rw [powNat_eq_pow x n, pow_succ]

theorem powNat_one (x : K) : powNat x 1 = x := by simp [powNat]

/-- length-respecting expansion `‖x−z‖² = ⟨x,x⟩ − 2⟨x,z⟩ + ⟨z,z⟩` (needs equal sizes: the C++ `SIZE_CHECK`) -/
theorem distSqr_expand : ∀ (x z : Point K), x.length = z.length →
    distSqr x z = dot x x - two * dot x z + dot z z
  | [], [], _ => by simp [distSqr, dot, two]
  | [], _ :: _, h => by simp at h
  | _ :: _, [], h => by simp at h
  | a :: x, b :: z, h => by
      have h' : x.length = z.length := by simpa using h
      rw [distSqr_cons, dot_cons, dot_cons, dot_cons, distSqr_expand x z h']
      simp only [two]; ring

/-! ### tabulated matrices: `tab X1 X2 f` has entry `f x z` at `(x, z)` -/

/-- the matrix of `f` over the rows `X1` and columns `X2` -/
def tab {P : Type} (X1 X2 : List P) (f : P → P → K) : Mat K := X1.map fun x => X2.map fun z => f x z

theorem zipWith_map_same {A B C D : Type} (f : B → C → D) (g : A → B) (h : A → C) :
    ∀ l : List A, List.zipWith f (l.map g) (l.map h) = l.map fun a => f (g a) (h a)
  | [] => rfl
  | a :: l => by simp [zipWith_map_same f g h l]

theorem zipWith_left_map {A C D : Type} (f : A → C → D) (h : A → C) :
    ∀ l : List A, List.zipWith f l (l.map h) = l.map fun a => f a (h a)
  | [] => rfl
  | a :: l => by simp [zipWith_left_map f h l]

theorem mapMat_tab {P : Type} (X1 X2 : List P) (f : P → P → K) (g : K → K) :
    mapMat g (tab X1 X2 f) = tab X1 X2 fun x z => g (f x z) := by
  simp [mapMat, tab, List.map_map, Function.comp_def]

theorem zipMat_tab {P : Type} (X1 X2 : List P) (f g : P → P → K) (h : K → K → K) :
    zipMat h (tab X1 X2 f) (tab X1 X2 g) = tab X1 X2 fun x z => h (f x z) (g x z) := by
  unfold zipMat tab
  rw [zipWith_map_same]
  apply List.map_congr_left
  intro x _
  rw [zipWith_map_same]

theorem constMat_eq_tab (X1 X2 : Mat K) (c : K) : constMat X1 X2 c = tab X1 X2 fun _ _ => c := rfl
theorem gemmT_eq_tab (X1 X2 : Mat K) : gemmT X1 X2 = tab X1 X2 dot := rfl

/-- the weighted accumulation of tabulated blocks is the tabulated weighted accumulation -/
theorem wfoldMat_tab {P : Type} (X1 X2 : List P) :
    ∀ (ws : List K) (fs : List (P → P → K)) (g : P → P → K),
      wfoldMat ws (fs.map (tab X1 X2)) (tab X1 X2 g) =
        tab X1 X2 fun x z => wfold ws (fs.map fun f => f x z) (g x z)
  | [], fs, g => by cases fs <;> simp [wfoldMat, wfold]
  | _ :: _, [], g => by simp [wfoldMat, wfold]
  | w :: ws, f :: fs, g => by
      simp only [List.map_cons, wfoldMat, wfold]
      rw [mapMat_tab, zipMat_tab, wfoldMat_tab X1 X2 ws fs]

theorem pfoldMat_tab {P : Type} (X1 X2 : List P) :
    ∀ (fs : List (P → P → K)) (g : P → P → K),
      pfoldMat (fs.map (tab X1 X2)) (tab X1 X2 g) =
        tab X1 X2 fun x z => pfold (fs.map fun f => f x z) (g x z)
  | [], g => by simp [pfoldMat, pfold]
  | f :: fs, g => by
      simp only [List.map_cons, pfoldMat, pfold]
      rw [zipMat_tab, pfoldMat_tab X1 X2 fs]

theorem tab_map {P Q : Type} (X1 X2 : List P) (s : P → Q) (f : Q → Q → K) :
    tab (X1.map s) (X2.map s) f = tab X1 X2 fun x z => f (s x) (s z) := by
  simp [tab, List.map_map, Function.comp_def]

theorem tab_congr {P : Type} (X1 X2 : List P) (f g : P → P → K) (h : ∀ x z, f x z = g x z) :
    tab X1 X2 f = tab X1 X2 g := by
  have : f = g := by funext x z; exact h x z
  rw [this]

end field

/-! ### block writes and the Gram assembly -/
section gram
variable {α β : Type} [Add α] [OfNat α 0]

/-- entry `(r, c)` of a tabulated block, out-of-range safe -/
theorem getD_tab_entry (κ : β → β → α) (bi bj : List β) (r c : Nat) (hr : r < bi.length) (hc : c < bj.length) :
    ((bi.map fun x => bj.map fun z => κ x z).getD r []).getD c 0 = κ (bi[r]) (bj[c]) := by
  simp [List.getD_eq_getElem?_getD, hr, hc]

/-- what one block write does, for a block evaluation that is the matrix of single evaluations -/
theorem writeBlock_tab (κ : β → β → α) (M : MatF α) (sx sy : Nat) (bi bj : List β) (r c : Nat) :
    writeBlock M sx sy (bi.map fun x => bj.map fun z => κ x z) r c =
      if h : (sx ≤ r ∧ r < sx + bi.length) ∧ (sy ≤ c ∧ c < sy + bj.length) then
        κ (bi[r - sx]'(by omega)) (bj[c - sy]'(by omega))
      else M r c := by
  unfold writeBlock
  by_cases hr : sx ≤ r ∧ r < sx + bi.length
  · have hr' : r - sx < bi.length := by omega
    have hrow : (List.map (fun x => List.map (fun z => κ x z) bj) bi).getD (r - sx) [] =
        bj.map fun z => κ (bi[r - sx]) z := by
      simp [List.getD_eq_getElem?_getD, hr']
    simp only [List.length_map, hr, and_self, if_true, hrow, true_and]
    by_cases hc : sy ≤ c ∧ c < sy + bj.length
    · have hc' : c - sy < bj.length := by omega
      simp [hc, List.getD_eq_getElem?_getD, hc']
    · simp [hc]
  · simp [hr]

end gram

end SharkVerif.Kernels

namespace SharkVerif.Kernels
section gram2
variable {α β : Type} [Add α] [OfNat α 0]

theorem writeBlock_in (κ : β → β → α) (M : MatF α) (sx sy : Nat) (bi bj : List β)
    (i j : Nat) (hi : i < bi.length) (hj : j < bj.length) :
    writeBlock M sx sy (bi.map fun x => bj.map fun z => κ x z) (sx + i) (sy + j) = κ (bi[i]) (bj[j]) := by
  rw [writeBlock_tab, dif_pos ⟨⟨by omega, by omega⟩, ⟨by omega, by omega⟩⟩]
  simp only [Nat.add_sub_cancel_left]

theorem writeBlock_out (κ : β → β → α) (M : MatF α) (sx sy : Nat) (bi bj : List β) (r c : Nat)
    (h : ¬((sx ≤ r ∧ r < sx + bi.length) ∧ (sy ≤ c ∧ c < sy + bj.length))) :
    writeBlock M sx sy (bi.map fun x => bj.map fun z => κ x z) r c = M r c := by
  rw [writeBlock_tab, dif_neg h]

theorem addDiag_apply (M : MatF α) (sx ex : Nat) (reg : α) (r c : Nat) :
    addDiag M sx ex reg r c = if r = c ∧ sx ≤ r ∧ r < ex then M r c + reg else M r c := rfl

variable (κ : β → β → α) (kb : List β → List β → List (List α))
  (hkb : ∀ b1 b2, kb b1 b2 = b1.map fun x => b2.map fun z => κ x z)
include hkb

/-- cells outside the row band / column span of an inner loop are untouched -/
theorem fillRow_out (bi : List β) (sx : Nat) : ∀ (rest : List (List β)) (sy : Nat) (M : MatF α) (r c : Nat),
    ¬((sx ≤ r ∧ r < sx + bi.length) ∧ (sy ≤ c ∧ c < sy + rest.flatten.length)) →
    fillRow kb bi sx rest sy M r c = M r c
  | [], _, _, _, _, _ => rfl
  | bj :: rest, sy, M, r, c, h => by
      simp only [fillRow]
      simp only [List.flatten_cons, List.length_append] at h
      rw [fillRow_out bi sx rest (sy + bj.length) _ r c (by omega), hkb, writeBlock_out _ _ _ _ _ _ _ _ (by omega)]

/-- after the inner loop, cell `(sx+i, sy+j)` holds `κ(bi[i], (concatenated column batches)[j])` -/
theorem fillRow_in (bi : List β) (sx : Nat) : ∀ (rest : List (List β)) (sy : Nat) (M : MatF α)
    (i j : Nat) (hi : i < bi.length) (hj : j < rest.flatten.length),
    fillRow kb bi sx rest sy M (sx + i) (sy + j) = κ (bi[i]) (rest.flatten[j])
  | [], _, _, _, j, _, hj => by simp at hj
  | bj :: rest, sy, M, i, j, hi, hj => by
      simp only [fillRow]
      by_cases hjl : j < bj.length
      · rw [fillRow_out κ kb hkb bi sx rest (sy + bj.length) _ _ _ (by omega), hkb, writeBlock_in κ M sx sy bi bj i j hi hjl]
        simp only [List.flatten_cons]
        rw [List.getElem_append_left hjl]
      · have hj' : j - bj.length < rest.flatten.length := by
          simp only [List.flatten_cons, List.length_append] at hj; omega
        have e : sy + j = (sy + bj.length) + (j - bj.length) := by omega
        rw [e, fillRow_in bi sx rest (sy + bj.length) _ i (j - bj.length) hi hj']
        simp only [List.flatten_cons]
        rw [List.getElem_append_right (by omega)]

/-- rows outside the band processed by the outer loop are untouched -/
theorem fillGram_out (reg : α) (all : List (List β)) : ∀ (rest : List (List β)) (sx : Nat) (M : MatF α) (r c : Nat),
    ¬(sx ≤ r ∧ r < sx + rest.flatten.length) → fillGram kb reg all rest sx M r c = M r c
  | [], _, _, _, _, _ => rfl
  | bi :: rest, sx, M, r, c, h => by
      simp only [fillGram]
      simp only [List.flatten_cons, List.length_append] at h
      rw [fillGram_out reg all rest (sx + bi.length) _ r c (by omega), addDiag_apply, if_neg (by omega),
        fillRow_out κ kb hkb bi sx all 0 M r c (by omega)]

/-- after the outer loop, row `sx+i` holds `κ(rest[i], all[c])`, plus the regulariser on the diagonal -/
theorem fillGram_in (reg : α) (all : List (List β)) : ∀ (rest : List (List β)) (sx : Nat) (M : MatF α)
    (i c : Nat) (hi : i < rest.flatten.length) (hc : c < all.flatten.length),
    fillGram kb reg all rest sx M (sx + i) c =
      if sx + i = c then κ (rest.flatten[i]) (all.flatten[c]) + reg else κ (rest.flatten[i]) (all.flatten[c])
  | [], _, _, i, _, hi, _ => by simp at hi
  | bi :: rest, sx, M, i, c, hi, hc => by
      simp only [fillGram]
      by_cases hil : i < bi.length
      · rw [fillGram_out κ kb hkb reg all rest (sx + bi.length) _ _ _ (by omega), addDiag_apply]
        have hcell : fillRow kb bi sx all 0 M (sx + i) c = κ (bi[i]) (all.flatten[c]) := by
          have := fillRow_in κ kb hkb bi sx all 0 M i c hil hc
          simpa using this
        have hget : (bi :: rest).flatten[i] = bi[i] := by
          simp only [List.flatten_cons]; rw [List.getElem_append_left hil]
        rw [hcell, hget]
        by_cases hd : sx + i = c
        · rw [if_pos ⟨hd, by omega, by omega⟩, if_pos hd]
        · rw [if_neg (fun h => hd h.1), if_neg hd]
      · have hi' : i - bi.length < rest.flatten.length := by
          simp only [List.flatten_cons, List.length_append] at hi; omega
        have e : sx + i = (sx + bi.length) + (i - bi.length) := by omega
        have hget : (bi :: rest).flatten[i] = rest.flatten[i - bi.length] := by
          simp only [List.flatten_cons]; rw [List.getElem_append_right (by omega)]
        rw [hget]
        rw [show fillGram kb reg all rest (sx + bi.length) _ (sx + i) c =
              fillGram kb reg all rest (sx + bi.length) _ ((sx + bi.length) + (i - bi.length)) c from by rw [← e]]
        rw [fillGram_in reg all rest (sx + bi.length) _ (i - bi.length) c hi' hc, ← e]

theorem fillMixed_out (cols : List (List β)) : ∀ (rest : List (List β)) (sx : Nat) (M : MatF α) (r c : Nat),
    ¬(sx ≤ r ∧ r < sx + rest.flatten.length) → fillMixed kb cols rest sx M r c = M r c
  | [], _, _, _, _, _ => rfl
  | bi :: rest, sx, M, r, c, h => by
      simp only [fillMixed]
      simp only [List.flatten_cons, List.length_append] at h
      rw [fillMixed_out cols rest (sx + bi.length) _ r c (by omega),
        fillRow_out κ kb hkb bi sx cols 0 M r c (by omega)]

theorem fillMixed_in (cols : List (List β)) : ∀ (rest : List (List β)) (sx : Nat) (M : MatF α)
    (i c : Nat) (hi : i < rest.flatten.length) (hc : c < cols.flatten.length),
    fillMixed kb cols rest sx M (sx + i) c = κ (rest.flatten[i]) (cols.flatten[c])
  | [], _, _, i, _, hi, _ => by simp at hi
  | bi :: rest, sx, M, i, c, hi, hc => by
      simp only [fillMixed]
      by_cases hil : i < bi.length
      · rw [fillMixed_out κ kb hkb cols rest (sx + bi.length) _ _ _ (by omega)]
        have hcell : fillRow kb bi sx cols 0 M (sx + i) c = κ (bi[i]) (cols.flatten[c]) := by
          have := fillRow_in κ kb hkb bi sx cols 0 M i c hil hc
          simpa using this
        have hget : (bi :: rest).flatten[i] = bi[i] := by
          simp only [List.flatten_cons]; rw [List.getElem_append_left hil]
        rw [hcell, hget]
      · have hi' : i - bi.length < rest.flatten.length := by
          simp only [List.flatten_cons, List.length_append] at hi; omega
        have e : sx + i = (sx + bi.length) + (i - bi.length) := by omega
        have hget : (bi :: rest).flatten[i] = rest.flatten[i - bi.length] := by
          simp only [List.flatten_cons]; rw [List.getElem_append_right (by omega)]
        rw [hget]
        rw [show fillMixed kb cols rest (sx + bi.length) _ (sx + i) c =
              fillMixed kb cols rest (sx + bi.length) _ ((sx + bi.length) + (i - bi.length)) c from by rw [← e]]
        rw [fillMixed_in cols rest (sx + bi.length) _ (i - bi.length) c hi' hc]

end gram2
end SharkVerif.Kernels

namespace SharkVerif.Kernels
section pointset
variable {K : Type} [Field K]

theorem foldl_add_eq_sum (l : List K) : l.foldl (· + ·) 0 = l.sum := by
  rw [List.sum_eq_foldl]

theorem matSum_tab {P : Type} (X Z : List P) (f : P → P → K) :
    matSum (tab X Z f) = (X.map fun x => (Z.map fun z => f x z).sum).sum := by
  unfold matSum tab
  rw [foldl_add_eq_sum, List.map_map]
  apply congrArg
  apply List.map_congr_left
  intro x _
  simp only [Function.comp_def]
  rw [foldl_add_eq_sum]

/-- exchanging the two sums of a double list sum -/
theorem sum_sum_comm {P Q : Type} (f : P → Q → K) : ∀ (X : List P) (Z : List Q),
    (X.map fun x => (Z.map fun z => f x z).sum).sum = (Z.map fun z => (X.map fun x => f x z).sum).sum
  | [], Z => by simp
  | a :: X, Z => by
      simp only [List.map_cons, List.sum_cons]
      rw [sum_sum_comm f X Z, ← List.sum_map_add]

end pointset
end SharkVerif.Kernels
