import SharkVerif.Model.Subset2D
import SharkVerif.Lemmas.Hypervolume
import Mathlib.Tactic.Linarith
import Mathlib.Tactic.Ring
import Mathlib.Algebra.Order.Field.Basic
import Mathlib.Algebra.Order.Field.Rat
namespace SharkVerif.SSP
open SharkVerif.Pareto SharkVerif.HV

/-- `b` is strictly necessary between `a` and `c` (slopes `a.a < b.a < c.a`): the intersection of `a`, `b`
lies strictly left of the intersection of `b`, `c`; cross-multiplied integer form -/
def Tri (a b c : LF) : Prop := (a.b - b.b) * (c.a - b.a) < (b.b - c.b) * (b.a - a.a)

theorem isect_le_iff (f s1 s2 : LF) (h1 : s2.a < s1.a) (h2 : s1.a < f.a) :
    isect f s1 ≤ isect s2 s1 ↔ ¬ Tri s2 s1 f := by
  unfold isect Tri
  have hd1 : (0 : Rat) < ((f.a - s1.a : Int) : Rat) := by exact_mod_cast (by omega : 0 < f.a - s1.a)
  have hd2 : (0 : Rat) < ((s1.a - s2.a : Int) : Rat) := by exact_mod_cast (by omega : 0 < s1.a - s2.a)
  have e : ((s1.b - s2.b : Int) : Rat) / ((s2.a - s1.a : Int) : Rat)
      = ((s2.b - s1.b : Int) : Rat) / ((s1.a - s2.a : Int) : Rat) := by
    rw [← neg_div_neg_eq]; push_cast; ring_nf
  rw [e, div_le_div_iff₀ hd1 hd2, not_lt]
  exact_mod_cast Iff.rfl

theorem pop_dom {f s1 s2 : LF} (h1 : s2.a < s1.a) (h2 : s1.a < f.a) (h : ¬ Tri s2 s1 f) (x : Int) :
    s1.eval x ≤ s2.eval x ∨ s1.eval x ≤ f.eval x := by
  unfold Tri at h
  simp only [LF.eval]
  by_contra hc
  push Not at hc
  obtain ⟨c1, c2⟩ := hc
  have hα : 0 < s1.a - s2.a := by omega
  have hβ : 0 < f.a - s1.a := by omega
  have e1 : (s2.b - s1.b) * (f.a - s1.a) < ((s1.a - s2.a) * x) * (f.a - s1.a) :=
    mul_lt_mul_of_pos_right (by linarith) hβ
  have e2 : ((f.a - s1.a) * x) * (s1.a - s2.a) < (s1.b - f.b) * (s1.a - s2.a) :=
    mul_lt_mul_of_pos_right (by linarith) hα
  linarith

theorem tri_desc {a b c : LF} (h1 : a.a < b.a) (h2 : b.a < c.a) (h : Tri a b c) {x : Int}
    (hx : b.eval x < a.eval x) : c.eval x < b.eval x := by
  unfold Tri at h
  simp only [LF.eval] at *
  have hα : 0 < b.a - a.a := by omega
  have hβ : 0 < c.a - b.a := by omega
  have e1 : ((b.a - a.a) * x) * (c.a - b.a) < (a.b - b.b) * (c.a - b.a) :=
    mul_lt_mul_of_pos_right (by linarith) hβ
  by_contra hc
  push Not at hc
  have e2 : (b.b - c.b) * (b.a - a.a) ≤ ((c.a - b.a) * x) * (b.a - a.a) :=
    mul_le_mul_of_nonneg_right (by linarith) (le_of_lt hα)
  linarith

theorem front_dom {s0 s1 : LF} (h : s0.a < s1.a) {x x' : Int} (hx : x ≤ x')
    (hv : s0.eval x ≤ s1.eval x) : s0.eval x' ≤ s1.eval x' := by
  simp only [LF.eval] at *
  have := mul_nonneg (by omega : 0 ≤ s1.a - s0.a) (by omega : 0 ≤ x' - x)
  linarith
/-! ### structure of the deque -/

/-- consecutive triples of the deque (front to back) are strictly convex -/
def Conv (s : List LF) : Prop := ∀ l1 a b c l2, s = l1 ++ a :: b :: c :: l2 → Tri a b c

/-- the same for the deque given back to front -/
def ConvR (r : List LF) : Prop := ∀ l1 a b c l2, r = l1 ++ c :: b :: a :: l2 → Tri a b c

theorem ConvR.reverse {r : List LF} (h : ConvR r) : Conv r.reverse := by
  intro l1 a b c l2 e
  apply h l2.reverse a b c l1.reverse
  have := congrArg List.reverse e
  simpa using this

theorem Conv.reverse {s : List LF} (h : Conv s) : ConvR s.reverse := by
  intro l1 a b c l2 e
  apply h l2.reverse a b c l1.reverse
  have := congrArg List.reverse e
  simpa using this

theorem ConvR.tail {x : LF} {r : List LF} (h : ConvR (x :: r)) : ConvR r := by
  intro l1 a b c l2 e
  exact h (x :: l1) a b c l2 (by simp [e])

theorem Conv.suffix {l s : List LF} (h : Conv (l ++ s)) : Conv s := by
  intro l1 a b c l2 e
  exact h (l ++ l1) a b c l2 (by simp [e])

theorem ConvR.cons {f s1 s2 : LF} {rest : List LF} (h : ConvR (s1 :: s2 :: rest)) (t : Tri s2 s1 f) :
    ConvR (f :: s1 :: s2 :: rest) := by
  intro l1 a b c l2 e
  cases l1 with
  | nil =>
    simp only [List.nil_append, List.cons.injEq] at e
    obtain ⟨rfl, rfl, rfl, _⟩ := e
    exact t
  | cons y l1 =>
    simp only [List.cons_append, List.cons.injEq] at e
    exact h l1 a b c l2 e.2

theorem convR_short {r : List LF} (h : r.length ≤ 2) : ConvR r := by
  intro l1 a b c l2 e
  have := congrArg List.length e
  simp at this
  omega

/-! ### popBack -/

/-- slopes strictly decreasing (deque back to front) -/
abbrev SlopesR (r : List LF) : Prop := r.Pairwise fun a b => b.a < a.a
abbrev Slopes (s : List LF) : Prop := s.Pairwise fun a b => a.a < b.a

theorem popBack_spec (f : LF) : ∀ (r0 : List LF), SlopesR r0 → (∀ g ∈ r0, g.a < f.a) → ConvR r0 →
    (∃ l, r0 = l ++ popBack f r0) ∧ ConvR (f :: popBack f r0) ∧
    ∀ g ∈ r0, ∀ x : Int, ∃ t ∈ f :: popBack f r0, g.eval x ≤ t.eval x
  | [], _, _, _ => by
    refine ⟨⟨[], by simp [popBack]⟩, convR_short (by simp [popBack]), by simp⟩
  | [s1], _, _, _ => by
    refine ⟨⟨[], by simp [popBack]⟩, convR_short (by simp [popBack]), ?_⟩
    intro g hg x
    exact ⟨g, by simp [popBack] at hg ⊢; simp [hg], Int.le_refl _⟩
  | s1 :: s2 :: rest, hs, hf, hc => by
    have hs' := List.pairwise_cons.mp hs
    have h21 : s2.a < s1.a := hs'.1 s2 (by simp)
    have h1f : s1.a < f.a := hf s1 (by simp)
    rw [popBack]
    split
    · rename_i hcond
      have hnt := (isect_le_iff f s1 s2 h21 h1f).mp hcond
      obtain ⟨⟨l, hl⟩, hcv, hdom⟩ := popBack_spec f (s2 :: rest) hs'.2
        (fun g hg => hf g (List.mem_cons_of_mem _ hg)) hc.tail
      refine ⟨⟨s1 :: l, by simp [← hl]⟩, hcv, ?_⟩
      intro g hg x
      rcases List.mem_cons.mp hg with rfl | hg
      · rcases pop_dom h21 h1f hnt x with h | h
        · obtain ⟨t, ht, hle⟩ := hdom s2 (by simp) x
          exact ⟨t, ht, Int.le_trans h hle⟩
        · exact ⟨f, by simp, h⟩
      · exact hdom g hg x
    · rename_i hcond
      have ht : Tri s2 s1 f := by
        by_contra hn
        exact hcond ((isect_le_iff f s1 s2 h21 h1f).mpr hn)
      refine ⟨⟨[], by simp⟩, hc.cons ht, ?_⟩
      intro g hg x
      exact ⟨g, List.mem_cons_of_mem _ hg, Int.le_refl _⟩

/-! ### popFront -/

theorem popFront_spec (x : Int) : ∀ (s : List LF), Slopes s →
    (∃ l, s = l ++ popFront x s) ∧ (s ≠ [] → popFront x s ≠ []) ∧
    (∀ g ∈ s, ∀ x', x ≤ x' → ∃ t ∈ popFront x s, g.eval x' ≤ t.eval x') ∧
    (∀ a b rest, popFront x s = a :: b :: rest → b.eval x < a.eval x)
  | [], _ => by simp [popFront]
  | [s0], _ => by
    refine ⟨⟨[], by simp [popFront]⟩, by simp [popFront], ?_, by simp [popFront]⟩
    intro g hg x' _
    exact ⟨g, by simpa [popFront] using hg, Int.le_refl _⟩
  | s0 :: s1 :: rest, hs => by
    have hs' := List.pairwise_cons.mp hs
    have h01 : s0.a < s1.a := hs'.1 s1 (by simp)
    rw [popFront]
    split
    · rename_i hcond
      obtain ⟨⟨l, hl⟩, hne, hdom, hhd⟩ := popFront_spec x (s1 :: rest) hs'.2
      refine ⟨⟨s0 :: l, by simp [← hl]⟩, fun _ => hne (by simp), ?_, hhd⟩
      intro g hg x' hx'
      rcases List.mem_cons.mp hg with rfl | hg
      · obtain ⟨t, ht, hle⟩ := hdom s1 (by simp) x' hx'
        exact ⟨t, ht, Int.le_trans (front_dom h01 hx' hcond) hle⟩
      · exact hdom g hg x' hx'
    · rename_i hcond
      refine ⟨⟨[], by simp⟩, by simp, ?_, ?_⟩
      · intro g hg x' _
        exact ⟨g, hg, Int.le_refl _⟩
      · intro a b rest' e
        simp only [List.cons.injEq] at e
        obtain ⟨rfl, rfl, _⟩ := e
        omega

/-- in a strictly convex deque whose first element beats the second at `x`, the first element is the maximum -/
theorem head_max {x : Int} : ∀ (rest : List LF) (a b : LF), Slopes (a :: b :: rest) → Conv (a :: b :: rest) →
    b.eval x < a.eval x → ∀ t ∈ b :: rest, t.eval x < a.eval x
  | [], a, b, _, _, h => by simpa using h
  | c :: rest, a, b, hs, hc, h => by
    have hs' := List.pairwise_cons.mp hs
    have hs'' := List.pairwise_cons.mp hs'.2
    have hcb := tri_desc (hs'.1 b (by simp)) (hs''.1 c (by simp)) (hc [] a b c rest rfl) h
    have ih := head_max rest b c hs'.2 (Conv.suffix (l := [a]) hc) hcb
    intro t ht
    rcases List.mem_cons.mp ht with rfl | ht
    · exact h
    · exact Int.lt_trans (ih t ht) h
/-! ### the loop invariant of `upperEnvelope` -/

/-- invariant: `s` is the deque (front to back), `prev` the functions inserted so far, `x` the last query -/
structure DeqOK (s prev : List LF) (x : Int) : Prop where
  sub : ∀ g ∈ s, g ∈ prev
  slopes : Slopes s
  conv : Conv s
  dom : ∀ g ∈ prev, ∀ x', x ≤ x' → ∃ t ∈ s, g.eval x' ≤ t.eval x'

theorem deqOK_nil (x : Int) : DeqOK [] [] x := ⟨by simp, by simp, by intro l1 a b c l2 e; simp at e, by simp⟩

theorem envStep_spec {s prev : List LF} {x0 x : Int} {f : LF} (inv : DeqOK s prev x0) (hx : x0 ≤ x)
    (hf : ∀ g ∈ prev, g.a < f.a) :
    DeqOK (envStep s f x).1 (f :: prev) x ∧
    (∀ g ∈ f :: prev, g.eval x ≤ (envStep s f x).2.1) ∧
    ∃ g ∈ f :: prev, g.idx = (envStep s f x).2.2 ∧ g.eval x = (envStep s f x).2.1 := by
  have hsR : SlopesR s.reverse := List.pairwise_reverse.mpr inv.slopes
  have hfR : ∀ g ∈ s.reverse, g.a < f.a := fun g hg => hf g (inv.sub g (List.mem_reverse.mp hg))
  obtain ⟨⟨l, hl⟩, hcv, hdomB⟩ := popBack_spec f s.reverse hsR hfR inv.conv.reverse
  have hrsub : ∀ g ∈ popBack f s.reverse, g ∈ s := by
    intro g hg
    have : g ∈ s.reverse := by rw [hl]; exact List.mem_append_right _ hg
    exact List.mem_reverse.mp this
  have hrS : SlopesR (f :: popBack f s.reverse) := by
    refine List.pairwise_cons.mpr ⟨fun g hg => hf g (inv.sub g (hrsub g hg)), ?_⟩
    rw [hl] at hsR
    exact (List.pairwise_append.mp hsR).2.1
  have hS1 : Slopes (f :: popBack f s.reverse).reverse := List.pairwise_reverse.mpr hrS
  obtain ⟨⟨l', hl'⟩, hne, hdomF, hhd⟩ := popFront_spec x _ hS1
  have hS2 : Slopes (popFront x (f :: popBack f s.reverse).reverse) := by
    rw [hl'] at hS1
    exact (List.pairwise_append.mp hS1).2.1
  have hC2 : Conv (popFront x (f :: popBack f s.reverse).reverse) := by
    have := hcv.reverse
    rw [hl'] at this
    exact this.suffix
  have hsub2 : ∀ g ∈ popFront x (f :: popBack f s.reverse).reverse, g ∈ f :: prev := by
    intro g hg
    have : g ∈ (f :: popBack f s.reverse).reverse := by rw [hl']; exact List.mem_append_right _ hg
    rcases List.mem_cons.mp (List.mem_reverse.mp this) with rfl | h
    · simp
    · exact List.mem_cons_of_mem _ (inv.sub g (hrsub g h))
  have hdom2 : ∀ g ∈ f :: prev, ∀ x', x ≤ x' →
      ∃ t ∈ popFront x (f :: popBack f s.reverse).reverse, g.eval x' ≤ t.eval x' := by
    intro g hg x' hx'
    rcases List.mem_cons.mp hg with rfl | hg
    · exact hdomF g (by simp) x' hx'
    · obtain ⟨t, ht, h1⟩ := inv.dom g hg x' (by omega)
      obtain ⟨t', ht', h2⟩ := hdomB t (List.mem_reverse.mpr ht) x'
      obtain ⟨t'', ht'', h3⟩ := hdomF t' (List.mem_reverse.mpr ht') x' hx'
      exact ⟨t'', ht'', by omega⟩
  have hne' := hne (by simp)
  unfold envStep
  simp only
  match hm : popFront x (f :: popBack f s.reverse).reverse, hne' with
  | s0 :: tl, _ =>
    rw [hm] at hS2 hC2 hsub2 hdom2
    simp only
    have hmax : ∀ t ∈ s0 :: tl, t.eval x ≤ s0.eval x := by
      intro t ht
      rcases List.mem_cons.mp ht with rfl | ht
      · exact Int.le_refl _
      · match tl, hS2, hC2, hm, ht with
        | b :: rest, hS2, hC2, hm, ht =>
          exact Int.le_of_lt (head_max rest s0 b hS2 hC2 (hhd s0 b rest hm) t ht)
    refine ⟨⟨hsub2, hS2, hC2, hdom2⟩, ?_, ⟨s0, hsub2 s0 (by simp), rfl, rfl⟩⟩
    intro g hg
    obtain ⟨t, ht, h⟩ := hdom2 g hg x (Int.le_refl _)
    exact Int.le_trans h (hmax t ht)

/-- the output of `envGo` is correct position by position -/
def EnvOK : List LF → List (LF × Int) → List (Int × Nat) → Prop
  | _, [], [] => True
  | prev, (f, x) :: rest, (h, c) :: out =>
    (∀ g ∈ f :: prev, g.eval x ≤ h) ∧ (∃ g ∈ f :: prev, g.idx = c ∧ g.eval x = h) ∧ EnvOK (f :: prev) rest out
  | _, _, _ => False

theorem envGo_ok : ∀ (rest : List (LF × Int)) (s prev : List LF) (x0 : Int), DeqOK s prev x0 →
    (∀ e ∈ rest, x0 ≤ e.2) → (∀ g ∈ prev, ∀ e ∈ rest, g.a < e.1.a) →
    rest.Pairwise (fun u v => u.2 ≤ v.2 ∧ u.1.a < v.1.a) →
    EnvOK prev rest (envGo s rest)
  | [], _, _, _, _, _, _, _ => by simp [envGo, EnvOK]
  | (f, x) :: rest, s, prev, x0, inv, hx0, hprev, hsorted => by
    have hs := List.pairwise_cons.mp hsorted
    obtain ⟨inv', hub, hach⟩ := envStep_spec (x := x) (f := f) inv (hx0 (f, x) (by simp))
      (fun g hg => hprev g hg (f, x) (by simp))
    rw [envGo]
    simp only [EnvOK]
    refine ⟨hub, hach, envGo_ok rest _ (f :: prev) x inv' (fun e he => (hs.1 e he).1) ?_ hs.2⟩
    intro g hg e he
    rcases List.mem_cons.mp hg with rfl | hg
    · exact (hs.1 e he).2
    · exact hprev g hg e (List.mem_cons_of_mem _ he)

/-- correctness of `upperEnvelope`'s loop from the empty deque: slopes strictly increasing, queries non-decreasing -/
theorem envGo_ok_nil (fs : List (LF × Int)) (h : fs.Pairwise (fun u v => u.2 ≤ v.2 ∧ u.1.a < v.1.a)) :
    EnvOK [] fs (envGo [] fs) := by
  match fs, h with
  | [], _ => simp [envGo, EnvOK]
  | (f, x) :: rest, h =>
    have hs := List.pairwise_cons.mp h
    apply envGo_ok ((f, x) :: rest) [] [] x (deqOK_nil x) ?_ (by simp) h
    intro e he
    rcases List.mem_cons.mp he with rfl | he
    · exact Int.le_refl _
    · exact (hs.1 e he).1
/-- position-wise reading of `EnvOK` -/
theorem EnvOK.index : ∀ (rest : List (LF × Int)) (prev : List LF) (out : List (Int × Nat)), EnvOK prev rest out →
    out.length = rest.length ∧ ∀ (i : Nat) (ei : LF × Int) (o : Int × Nat), rest[i]? = some ei → out[i]? = some o →
      (∀ g, (g ∈ prev ∨ ∃ (m : Nat) (e : LF × Int), m ≤ i ∧ rest[m]? = some e ∧ e.1 = g) → g.eval ei.2 ≤ o.1) ∧
      ∃ g, (g ∈ prev ∨ ∃ (m : Nat) (e : LF × Int), m ≤ i ∧ rest[m]? = some e ∧ e.1 = g) ∧
        g.idx = o.2 ∧ g.eval ei.2 = o.1
  | [], _, [], _ => by simp
  | [], _, _ :: _, h => by simp [EnvOK] at h
  | _ :: _, _, [], h => by simp [EnvOK] at h
  | (f, x) :: rest, prev, (h, c) :: out, hok => by
    simp only [EnvOK] at hok
    obtain ⟨hub, ⟨g0, hg0, hg0i, hg0v⟩, hrest⟩ := hok
    obtain ⟨hlen, ih⟩ := EnvOK.index rest (f :: prev) out hrest
    refine ⟨by simp [hlen], ?_⟩
    intro i ei o hei ho
    cases i with
    | zero =>
      simp only [List.getElem?_cons_zero, Option.some.injEq] at hei ho
      subst hei; subst ho
      refine ⟨?_, g0, ?_, hg0i, hg0v⟩
      · rintro g (hg | ⟨m, e, hm, he, rfl⟩)
        · exact hub g (List.mem_cons_of_mem _ hg)
        · have : m = 0 := by omega
          subst this
          simp only [List.getElem?_cons_zero, Option.some.injEq] at he
          subst he
          exact hub _ (by simp)
      · rcases List.mem_cons.mp hg0 with rfl | hg0
        · exact Or.inr ⟨0, (g0, x), by omega, by simp, rfl⟩
        · exact Or.inl hg0
    | succ i =>
      simp only [List.getElem?_cons_succ] at hei ho
      obtain ⟨hub', g1, hg1, hg1i, hg1v⟩ := ih i ei o hei ho
      refine ⟨?_, g1, ?_, hg1i, hg1v⟩
      · rintro g (hg | ⟨m, e, hm, he, rfl⟩)
        · exact hub' g (Or.inl (List.mem_cons_of_mem _ hg))
        · cases m with
          | zero =>
            simp only [List.getElem?_cons_zero, Option.some.injEq] at he
            subst he
            exact hub' _ (Or.inl (by simp))
          | succ m =>
            simp only [List.getElem?_cons_succ] at he
            exact hub' _ (Or.inr ⟨m, e, by omega, he, rfl⟩)
      · rcases hg1 with hg1 | ⟨m, e, hm, he, rfl⟩
        · rcases List.mem_cons.mp hg1 with rfl | hg1
          · exact Or.inr ⟨0, (g1, x), by omega, by simp, rfl⟩
          · exact Or.inl hg1
        · exact Or.inr ⟨m + 1, e, by omega, by simpa using he, rfl⟩

/-! ### L1: the envelope is the running maximum -/

/-- `h_i = max_{j ≤ i} f_j(x_i)`; `prev` holds the functions of the earlier positions -/
def envNaiveGo (prev : List LF) : List (LF × Int) → List Int
  | [] => []
  | (f, x) :: rest => prev.foldl (fun m g => max m (g.eval x)) (f.eval x) :: envNaiveGo (f :: prev) rest

def envNaive (fs : List (LF × Int)) : List Int := envNaiveGo [] fs

theorem foldl_max_eq (x : Int) : ∀ (l : List LF) (v h : Int), v ≤ h → (∀ g ∈ l, g.eval x ≤ h) →
    (h = v ∨ ∃ g ∈ l, g.eval x = h) → l.foldl (fun m g => max m (g.eval x)) v = h
  | [], v, h, _, _, hach => by
    rcases hach with rfl | ⟨g, hg, _⟩
    · rfl
    · simp at hg
  | g :: l, v, h, hv, hub, hach => by
    rw [List.foldl_cons]
    apply foldl_max_eq x l _ h
    · exact Int.max_le.mpr ⟨hv, hub g (by simp)⟩
    · exact fun g' hg' => hub g' (List.mem_cons_of_mem _ hg')
    · have hg := hub g (by simp)
      rcases hach with rfl | ⟨g', hg', e⟩
      · left; omega
      · rcases List.mem_cons.mp hg' with rfl | hg'
        · left; omega
        · exact Or.inr ⟨g', hg', e⟩

theorem EnvOK.naive : ∀ (rest : List (LF × Int)) (prev : List LF) (out : List (Int × Nat)), EnvOK prev rest out →
    out.map (·.1) = envNaiveGo prev rest
  | [], _, [], _ => by simp [envNaiveGo]
  | [], _, _ :: _, h => by simp [EnvOK] at h
  | _ :: _, _, [], h => by simp [EnvOK] at h
  | (f, x) :: rest, prev, (h, c) :: out, hok => by
    simp only [EnvOK] at hok
    obtain ⟨hub, ⟨g0, hg0, _, hg0v⟩, hrest⟩ := hok
    simp only [List.map_cons, envNaiveGo, List.cons.injEq]
    refine ⟨(foldl_max_eq x prev _ h (hub f (by simp)) (fun g hg => hub g (List.mem_cons_of_mem _ hg)) ?_).symm,
      EnvOK.naive rest (f :: prev) out hrest⟩
    rcases List.mem_cons.mp hg0 with rfl | hg0
    · exact Or.inl hg0v.symm
    · exact Or.inr ⟨g0, hg0, hg0v⟩

/-- **L1** `upperEnvelope`'s loop computes the running maximum `h_i = max_{j ≤ i} f_j(x_i)` when the slopes are
strictly increasing and the query points non-decreasing; if the stored index of each function is its position,
the reported `chosen` index is at most `i` and names a function attaining the maximum. -/
theorem upperEnvelope_eq_max (fs : List (LF × Int))
    (hsorted : fs.Pairwise (fun u v => u.2 ≤ v.2 ∧ u.1.a < v.1.a)) :
    (envGo [] fs).map (·.1) = envNaive fs ∧
    ((∀ (m : Nat) (e : LF × Int), fs[m]? = some e → e.1.idx = m) →
      ∀ (i : Nat) (ei : LF × Int), fs[i]? = some ei → ∃ (o : Int × Nat) (ec : LF × Int), (envGo [] fs)[i]? = some o ∧ o.2 ≤ i ∧ fs[o.2]? = some ec ∧
        ec.1.eval ei.2 = o.1 ∧ (envNaive fs)[i]? = some o.1) := by
  have hok := envGo_ok_nil fs hsorted
  have hn := EnvOK.naive fs [] _ hok
  refine ⟨hn, ?_⟩
  intro hidx i ei hei
  obtain ⟨hlen, hi⟩ := EnvOK.index fs [] _ hok
  have hil : i < fs.length := (List.getElem?_eq_some_iff.mp hei).1
  have ho : (envGo [] fs)[i]? = some ((envGo [] fs)[i]'(by omega)) := List.getElem?_eq_getElem (by omega)
  obtain ⟨_, g, hg, hgi, hgv⟩ := hi i ei _ hei ho
  rcases hg with hg | ⟨m, e, hm, he, rfl⟩
  · simp at hg
  · refine ⟨_, e, ho, ?_, ?_, hgv, ?_⟩
    · rw [← hgi, hidx m e he]; exact hm
    · rw [← hgi, hidx m e he]; exact he
    · rw [envNaive, ← hn, List.getElem?_map, ho]; rfl

/-- non-vacuity: a concrete input satisfying the hypotheses (ties among the query points included) -/
example : ([(⟨1, 0, 0⟩, -3), (⟨2, 5, 1⟩, -2), (⟨4, 2, 2⟩, -2), (⟨5, 9, 3⟩, 0)] : List (LF × Int)).Pairwise
    (fun u v => u.2 ≤ v.2 ∧ u.1.a < v.1.a) ∧
    envNaive [(⟨1, 0, 0⟩, -3), (⟨2, 5, 1⟩, -2), (⟨4, 2, 2⟩, -2), (⟨5, 9, 3⟩, 0)] = [-3, 1, 1, 9] := by
  decide

end SharkVerif.SSP
