/-
Derivative identities for ARDKernelUnconstrained (parameters log γ) and ScaledKernel (C05).
-/
import SharkVerif.Lemmas.KernelDerivs
import Mathlib.Analysis.Calculus.Deriv.Inv

set_option linter.unusedSectionVars false
set_option linter.unusedVariables false

namespace SharkVerif.Kernels

theorem getD_map_range (n t : ℕ) (f : ℕ → ℝ) (ht : t < n) : ((List.range n).map f).getD t 0 = f t := by
  simp [List.getD_eq_getElem?_getD, ht]

theorem ardParamStep_length (gs : List ℝ) (c : ℝ) (x z : Point ℝ) (g : List ℝ) :
    (ardParamStep gs c x z g).length = g.length := by simp [ardParamStep]

theorem ardParamStep_getD (gs : List ℝ) (c : ℝ) (x z : Point ℝ) (g : List ℝ) (t : ℕ) (ht : t < g.length) :
    (ardParamStep gs c x z g).getD t 0 =
      g.getD t 0 - c * gs.getD t 0 * ((x.getD t 0 - z.getD t 0) * (x.getD t 0 - z.getD t 0)) := by
  unfold ardParamStep; rw [getD_map_range _ _ _ ht]

/-- the inner loop subtracts the row sum of the per-pair terms -/
theorem ardParamRow_getD (exp : ℝ → ℝ) (gs : List ℝ) (x : Point ℝ) (t : ℕ) :
    ∀ (cs : List ℝ) (zs : Mat ℝ) (g : List ℝ), t < g.length →
      (ardParamRow exp gs x cs zs g).length = g.length ∧
      (ardParamRow exp gs x cs zs g).getD t 0 = g.getD t 0 -
        sumRow (fun c z => c * exp (-(mahal gs x z)) * gs.getD t 0 *
          ((x.getD t 0 - z.getD t 0) * (x.getD t 0 - z.getD t 0))) cs zs
  | [], _, g, _ => by simp [ardParamRow, sumRow]
  | _ :: _, [], g, _ => by simp [ardParamRow, sumRow]
  | c :: cs, z :: zs, g, ht => by
      simp only [ardParamRow, sumRow]
      have hl := ardParamStep_length gs (c * exp (-(mahal gs x z))) x z g
      obtain ⟨h1, h2⟩ := ardParamRow_getD exp gs x t cs zs _ (hl ▸ ht)
      refine ⟨h1.trans hl, ?_⟩
      rw [h2, ardParamStep_getD _ _ _ _ _ _ ht]; ring

theorem ardParamDeriv_getD (exp : ℝ → ℝ) (gs : List ℝ) (t : ℕ) :
    ∀ (C X1 X2 : Mat ℝ) (g : List ℝ), t < g.length →
      (ardParamDeriv exp gs C X1 X2 g).getD t 0 = g.getD t 0 -
        sumBlock (fun c x z => c * exp (-(mahal gs x z)) * gs.getD t 0 *
          ((x.getD t 0 - z.getD t 0) * (x.getD t 0 - z.getD t 0))) C X1 X2
  | [], _, _, g, _ => by simp [ardParamDeriv, sumBlock]
  | _ :: _, [], _, g, _ => by simp [ardParamDeriv, sumBlock]
  | crow :: C, x :: X1, X2, g, ht => by
      simp only [ardParamDeriv, sumBlock]
      obtain ⟨h1, h2⟩ := ardParamRow_getD exp gs x t crow X2 g ht
      rw [ardParamDeriv_getD exp gs t C X1 X2 _ (h1 ▸ ht), h2]; ring

theorem mahal_set : ∀ (gs : List ℝ) (x z : Point ℝ) (t : ℕ) (γ : ℝ), t < gs.length → t < x.length → t < z.length →
    mahal (gs.set t γ) x z =
      mahal gs x z + (γ - gs.getD t 0) * ((x.getD t 0 - z.getD t 0) * (x.getD t 0 - z.getD t 0))
  | [], _, _, _, _, h, _, _ => by simp at h
  | _ :: _, [], _, _, _, _, h, _ => by simp at h
  | _ :: _, _ :: _, [], _, _, _, _, h => by simp at h
  | g :: gs, a :: x, b :: z, 0, γ, _, _, _ => by simp [mahal]; ring
  | g :: gs, a :: x, b :: z, t + 1, γ, h1, h2, h3 => by
      simp only [List.set_cons_succ, mahal, List.getD_cons_succ]
      rw [mahal_set gs x z t γ (by simpa using h1) (by simpa using h2) (by simpa using h3)]; ring

theorem hasDerivAt_sumBlock_mem (f : ℝ → ℝ → Point ℝ → Point ℝ → ℝ) (f' : ℝ → Point ℝ → Point ℝ → ℝ) (p : ℝ) :
    ∀ (C X1 X2 : Mat ℝ), (∀ c x z, x ∈ X1 → z ∈ X2 → HasDerivAt (fun q => f q c x z) (f' c x z) p) →
    HasDerivAt (fun q => sumBlock (f q) C X1 X2) (sumBlock f' C X1 X2) p
  | [], _, _, _ => by simp only [sumBlock]; exact hasDerivAt_const p 0
  | _ :: _, [], _, _ => by simp only [sumBlock]; exact hasDerivAt_const p 0
  | crow :: C, x :: X1, X2, h => by
      simp only [sumBlock]
      exact (hasDerivAt_sumRow (fun q c z => f q c x z) (fun c z => f' c x z) p crow X2
        fun c z hz => h c x z (List.mem_cons_self) hz).add
        (hasDerivAt_sumBlock_mem f f' p C X1 X2 fun c x' z hx hz => h c x' z (List.mem_cons_of_mem _ hx) hz)

theorem scal_ard_param (c M D η₀ γt : ℝ) (hγ : γt = Real.exp η₀) :
    HasDerivAt (fun η : ℝ => c * Real.exp (-(M + (Real.exp η - γt) * D))) (-(c * Real.exp (-M) * γt * D)) η₀ := by
  have h1 : HasDerivAt (fun η : ℝ => -(M + (Real.exp η - γt) * D)) (-(Real.exp η₀ * D)) η₀ := by
    have := ((((Real.hasDerivAt_exp η₀).sub_const γt).mul_const D).const_add M).neg
    exact this.congr_deriv (by ring)
  have h := (h1.exp).const_mul c
  refine h.congr_deriv ?_
  rw [hγ]; simp only [sub_self, zero_mul, add_zero]; ring

/-- **ARD, parameter derivative**: entry `t` of `weightedParameterDerivative` is the derivative of the weighted
sum of kernel values with respect to the parameter `η_t = log γ_t` (all points at least `t+1` long). -/
theorem ard_param_hasDerivAt (sqrt : ℝ → ℝ) (gs : List ℝ) (t : ℕ) (η₀ : ℝ) (ht : t < gs.length)
    (hγ : gs.getD t 0 = Real.exp η₀) (C X1 X2 : Mat ℝ)
    (hx : ∀ x ∈ X1, t < x.length) (hz : ∀ z ∈ X2, t < z.length) :
    HasDerivAt (fun η => weightedSum ((Kern.ard (gs.set t (Real.exp η))).eval Real.exp sqrt) C X1 X2)
      ((ardParamDeriv Real.exp gs C X1 X2 (gs.map fun _ => 0)).getD t 0) η₀ := by
  rw [ardParamDeriv_getD Real.exp gs t C X1 X2 _ (by simpa using ht)]
  have h0 : (gs.map fun _ => (0 : ℝ)).getD t 0 = 0 := by
    simp [List.getD_eq_getElem?_getD, ht]
  rw [h0, zero_sub, ← sumBlock_neg]
  unfold weightedSum
  exact hasDerivAt_sumBlock_mem (fun η c x z => c * (Kern.ard (gs.set t (Real.exp η))).eval Real.exp sqrt x z) _ η₀
    C X1 X2 (fun c x z hxm hzm => by
      simp only [Kern.eval, mahal_set gs x z t _ ht (hx x hxm) (hz z hzm)]
      exact scal_ard_param c (mahal gs x z) _ η₀ _ hγ)

/-- ScaledKernel: scaling the kernel scales the derivative of the weighted sum (`gradient *= m_factor`) -/
theorem scaled_hasDerivAt (F : ℝ → ℝ) (F' p factor : ℝ) (h : HasDerivAt F F' p) :
    HasDerivAt (fun q => factor * F q) (F' * factor) p :=
  (h.const_mul factor).congr_deriv (by ring)

theorem weightedSum_scaled (exp sqrt : ℝ → ℝ) (factor : ℝ) (k : Kern ℝ) : ∀ (C X1 X2 : Mat ℝ),
    weightedSum ((Kern.scaled factor k).eval exp sqrt) C X1 X2 = factor * weightedSum (k.eval exp sqrt) C X1 X2 := by
  intro C X1 X2
  unfold weightedSum
  rw [← sumBlock_mul_left]
  exact sumBlock_congr _ _ (fun c x z => by simp only [Kern.eval]; ring) C X1 X2

end SharkVerif.Kernels

namespace SharkVerif.Kernels

theorem ardInputStep_length (gs : List ℝ) (c : ℝ) (x z : Point ℝ) (g : List ℝ) :
    (ardInputStep gs c x z g).length = g.length := by simp [ardInputStep]

theorem ardInputStep_getD (gs : List ℝ) (c : ℝ) (x z : Point ℝ) (g : List ℝ) (t : ℕ) (ht : t < g.length) :
    (ardInputStep gs c x z g).getD t 0 = g.getD t 0 + c * gs.getD t 0 * (x.getD t 0 - z.getD t 0) := by
  unfold ardInputStep; rw [getD_map_range _ _ _ ht]

theorem ardInputAcc_getD (exp : ℝ → ℝ) (gs : List ℝ) (x : Point ℝ) (t : ℕ) :
    ∀ (cs : List ℝ) (zs : Mat ℝ) (g : List ℝ), t < g.length →
      (ardInputAcc exp gs x cs zs g).length = g.length ∧
      (ardInputAcc exp gs x cs zs g).getD t 0 = g.getD t 0 +
        sumRow (fun c z => c * exp (-(mahal gs x z)) * gs.getD t 0 * (x.getD t 0 - z.getD t 0)) cs zs
  | [], _, g, _ => by simp [ardInputAcc, sumRow]
  | _ :: _, [], g, _ => by simp [ardInputAcc, sumRow]
  | c :: cs, z :: zs, g, ht => by
      simp only [ardInputAcc, sumRow]
      have hl := ardInputStep_length gs (c * exp (-(mahal gs x z))) x z g
      obtain ⟨h1, h2⟩ := ardInputAcc_getD exp gs x t cs zs _ (hl ▸ ht)
      refine ⟨h1.trans hl, ?_⟩
      rw [h2, ardInputStep_getD _ _ _ _ _ _ ht]; ring

theorem mahal_set_x : ∀ (gs : List ℝ) (x z : Point ℝ) (t : ℕ) (s : ℝ), t < gs.length → t < x.length → t < z.length →
    mahal gs (x.set t s) z =
      mahal gs x z + gs.getD t 0 * ((s - z.getD t 0) * (s - z.getD t 0) -
        (x.getD t 0 - z.getD t 0) * (x.getD t 0 - z.getD t 0))
  | [], _, _, _, _, h, _, _ => by simp at h
  | _ :: _, [], _, _, _, _, h, _ => by simp at h
  | _ :: _, _ :: _, [], _, _, _, _, h => by simp at h
  | g :: gs, a :: x, b :: z, 0, s, _, _, _ => by simp [mahal]; ring
  | g :: gs, a :: x, b :: z, t + 1, s, h1, h2, h3 => by
      simp only [List.set_cons_succ, mahal, List.getD_cons_succ]
      rw [mahal_set_x gs x z t s (by simpa using h1) (by simpa using h2) (by simpa using h3)]; ring

theorem scal_ard_input (c M γt a zt : ℝ) :
    HasDerivAt (fun s : ℝ => c * Real.exp (-(M + γt * ((s - zt) * (s - zt) - (a - zt) * (a - zt)))))
      (c * Real.exp (-M) * γt * (a - zt) * (-(1 + 1))) a := by
  have h0 : HasDerivAt (fun s : ℝ => s - zt) 1 a := (hasDerivAt_id' a).sub_const zt
  have h1 : HasDerivAt (fun s : ℝ => -(M + γt * ((s - zt) * (s - zt) - (a - zt) * (a - zt)))) (-(γt * (2 * (a - zt)))) a := by
    have := ((((h0.mul h0).sub_const ((a - zt) * (a - zt))).const_mul γt).const_add M).neg
    exact this.congr_deriv (by ring)
  have h := (h1.exp).const_mul c
  refine h.congr_deriv ?_
  simp only [sub_self, mul_zero, add_zero]; ring

/-- **ARD, input derivative**: entry `t` of row `i` of `weightedInputDerivative` is the derivative of
`Σⱼ cⱼ exp(-Σ γ(x−zⱼ)²)` with respect to coordinate `t` of `x = x1ᵢ`. -/
theorem ard_input_hasDerivAt (sqrt : ℝ → ℝ) (gs : List ℝ) (crow : List ℝ) (x : Point ℝ) (X2 : Mat ℝ) (t : ℕ)
    (ht : t < gs.length) (hx : t < x.length) (hz : ∀ z ∈ X2, t < z.length) :
    HasDerivAt (fun s => sumRow (fun c z => c * (Kern.ard gs).eval Real.exp sqrt (x.set t s) z) crow X2)
      ((ardInputRow Real.exp gs crow x X2).getD t 0) (x.getD t 0) := by
  have hrow : (ardInputRow Real.exp gs crow x X2).getD t 0 =
      sumRow (fun c z => c * Real.exp (-(mahal gs x z)) * gs.getD t 0 * (x.getD t 0 - z.getD t 0) * (-(1 + 1))) crow X2 := by
    unfold ardInputRow
    have hlen : t < (gs.map fun _ => (0 : ℝ)).length := by simpa using ht
    obtain ⟨h1, h2⟩ := ardInputAcc_getD Real.exp gs x t crow X2 _ hlen
    rw [List.getD_eq_getElem?_getD, List.getElem?_map]
    have hget : (ardInputAcc Real.exp gs x crow X2 (gs.map fun _ => 0))[t]? =
        some ((ardInputAcc Real.exp gs x crow X2 (gs.map fun _ => 0)).getD t 0) := by
      rw [List.getD_eq_getElem?_getD, List.getElem?_eq_getElem (h1 ▸ hlen)]; simp
    rw [hget]
    simp only [Option.map_some, Option.getD_some]
    rw [h2]
    have h0 : (gs.map fun _ => (0 : ℝ)).getD t 0 = 0 := by simp [List.getD_eq_getElem?_getD, ht]
    rw [h0, zero_add]
    have e : (fun (c : ℝ) (z : Point ℝ) => c * Real.exp (-(mahal gs x z)) * gs.getD t 0 * (x.getD t 0 - z.getD t 0) * (-(1 + 1))) =
        fun c z => (-(1 + 1)) * (c * Real.exp (-(mahal gs x z)) * gs.getD t 0 * (x.getD t 0 - z.getD t 0)) := by
      funext c z; ring
    rw [e, sumRow_mul_left]; simp only [two]; ring
  rw [hrow]
  exact hasDerivAt_sumRow (fun s c z => c * (Kern.ard gs).eval Real.exp sqrt (x.set t s) z) _ (x.getD t 0) crow X2
    (fun c z hzm => by
      simp only [Kern.eval, mahal_set_x gs x z t _ ht hx (hz z hzm)]
      exact scal_ard_input c (mahal gs x z) (gs.getD t 0) (x.getD t 0) (z.getD t 0))

end SharkVerif.Kernels

/-! ### WeightedSumKernel weight derivative: helper lemmas -/
namespace SharkVerif.Kernels

/-- the scalar heart of the weight derivative: `d/dq (A + e^q S)/(B + e^q)` -/
theorem scal_wsum_weight (A B S q₀ : ℝ) (hW : B + Real.exp q₀ ≠ 0) :
    HasDerivAt (fun q : ℝ => (A + Real.exp q * S) / (B + Real.exp q))
      (Real.exp q₀ * (S * (B + Real.exp q₀) - (A + Real.exp q₀ * S)) / ((B + Real.exp q₀) * (B + Real.exp q₀))) q₀ := by
  have hn : HasDerivAt (fun q : ℝ => A + Real.exp q * S) (Real.exp q₀ * S) q₀ :=
    ((Real.hasDerivAt_exp q₀).mul_const S).const_add A
  have hd : HasDerivAt (fun q : ℝ => B + Real.exp q) (Real.exp q₀) q₀ :=
    (Real.hasDerivAt_exp q₀).const_add B
  have h := HasDerivAt.fun_div hn hd hW
  refine h.congr_deriv ?_
  field_simp

theorem sumRow_zero : ∀ (cs : List ℝ) (zs : Mat ℝ), sumRow (fun _ _ => (0 : ℝ)) cs zs = 0
  | [], _ => by simp [sumRow]
  | _ :: _, [] => by simp [sumRow]
  | c :: cs, z :: zs => by simp only [sumRow]; rw [sumRow_zero cs zs]; ring

theorem sumBlock_zero : ∀ (C X1 X2 : Mat ℝ), sumBlock (fun _ _ _ => (0 : ℝ)) C X1 X2 = 0
  | [], _, _ => by simp [sumBlock]
  | _ :: _, [], _ => by simp [sumBlock]
  | crow :: C, x :: X1, X2 => by simp only [sumBlock]; rw [sumBlock_zero C X1 X2, sumRow_zero]; ring

theorem sumRow_add (f g : ℝ → Point ℝ → ℝ) : ∀ (cs : List ℝ) (zs : Mat ℝ),
    sumRow (fun c z => f c z + g c z) cs zs = sumRow f cs zs + sumRow g cs zs
  | [], _ => by simp [sumRow]
  | _ :: _, [] => by simp [sumRow]
  | c :: cs, z :: zs => by simp only [sumRow]; rw [sumRow_add f g cs zs]; ring

theorem sumBlock_add (f g : ℝ → Point ℝ → Point ℝ → ℝ) : ∀ (C X1 X2 : Mat ℝ),
    sumBlock (fun c x z => f c x z + g c x z) C X1 X2 = sumBlock f C X1 X2 + sumBlock g C X1 X2
  | [], _, _ => by simp [sumBlock]
  | _ :: _, [], _ => by simp [sumBlock]
  | crow :: C, x :: X1, X2 => by
      simp only [sumBlock]; rw [sumBlock_add f g C X1 X2, sumRow_add]; ring

/-- linearity: the weighted sum of a weighted fold of kernels is the weighted fold of their weighted sums -/
theorem weightedSum_wfold (C X1 X2 : Mat ℝ) : ∀ (ws : List ℝ) (fs : List (Point ℝ → Point ℝ → ℝ)) (g : Point ℝ → Point ℝ → ℝ),
    weightedSum (fun x z => wfold ws (fs.map fun f => f x z) (g x z)) C X1 X2 =
      wfold ws (fs.map fun f => weightedSum f C X1 X2) (weightedSum g C X1 X2)
  | [], fs, g => by cases fs <;> simp [wfold]
  | _ :: _, [], g => by simp [wfold]
  | w :: ws, f :: fs, g => by
      simp only [List.map_cons, wfold]
      rw [weightedSum_wfold C X1 X2 ws fs (fun x z => g x z + w * f x z)]
      congr 1
      unfold weightedSum
      rw [← sumBlock_mul_left, ← sumBlock_add]
      exact sumBlock_congr _ _ (fun c x z => by ring) C X1 X2

/-- `wfold` as accumulator plus the fold from zero -/
theorem wfold_acc : ∀ (ws vs : List ℝ) (a : ℝ), wfold ws vs a = a + wfold ws vs 0
  | [], vs, a => by cases vs <;> simp [wfold]
  | _ :: _, [], a => by simp [wfold]
  | w :: ws, v :: vs, a => by
      simp only [wfold]; rw [wfold_acc ws vs (a + w * v), wfold_acc ws vs (0 + w * v)]; ring

/-- replacing weight `i` changes the fold by `(w' − wᵢ)·vᵢ` -/
theorem wfold_set : ∀ (ws vs : List ℝ) (i : ℕ) (w' : ℝ), i < ws.length → i < vs.length →
    wfold (ws.set i w') vs 0 = wfold ws vs 0 + (w' - ws.getD i 0) * vs.getD i 0
  | [], _, _, _, h, _ => by simp at h
  | _ :: _, [], _, _, _, h => by simp at h
  | w :: ws, v :: vs, 0, w', _, _ => by
      simp only [List.set_cons_zero, wfold, List.getD_cons_zero]
      rw [wfold_acc ws vs (0 + w' * v), wfold_acc ws vs (0 + w * v)]; ring
  | w :: ws, v :: vs, i + 1, w', h1, h2 => by
      simp only [List.set_cons_succ, wfold, List.getD_cons_succ]
      rw [wfold_acc (ws.set i w') vs (0 + w * v), wfold_acc ws vs (0 + w * v),
        wfold_set ws vs i w' (by simpa using h1) (by simpa using h2)]; ring

theorem getD_zipWith_drop (f : ℝ → ℝ → ℝ) (ws Ss : List ℝ) (i : ℕ) (h1 : i + 1 < ws.length) (h2 : i + 1 < Ss.length) :
    (List.zipWith f (ws.drop 1) (Ss.drop 1)).getD i 0 = f (ws.getD (i + 1) 0) (Ss.getD (i + 1) 0) := by
  have a : i < (ws.drop 1).length := by simp; omega
  have b : i < (Ss.drop 1).length := by simp; omega
  simp [List.getD_eq_getElem?_getD, List.getElem?_zipWith, h1, h2]


end SharkVerif.Kernels
