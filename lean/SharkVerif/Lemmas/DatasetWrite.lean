/-
In-place writes through element proxies (`data.element(i) = x`) on shared batches: who sees the write, and the
copy-on-write discipline -- after `makeIndependent()` nobody else does.
-/
import SharkVerif.Lemmas.DatasetSim
namespace SharkVerif.Dataset.Shared
open SharkVerif.Dataset

variable {β ι κ : Type}

theorem cell_set_ne (h : Heap β) (a x : Nat) (c : List β) (hx : x ≠ a) : cell (h.set a c) x = cell h x := by
  simp [cell, List.getD_eq_getElem?_getD, List.getElem?_set, Ne.symm hx]

/-- a write into cell `a` is invisible to every container that does not hold `a` -/
theorem resolve_set_of_not_mem (h : Heap β) (a : Nat) (c : List β) (q : PData) (hq : a ∉ q.ptrs) :
    q.resolve (h.set a c) = q.resolve h := by
  simp only [PData.resolve]
  congr 1
  apply List.map_congr_left
  intro x hx
  exact cell_set_ne h a x c (fun e => hq (e ▸ hx))

/-- **who sees an in-place write**: only containers holding one of the writer's batches can change -/
theorem setElement_frame (h h' : Heap β) (p q : PData) (i : Nat) (x : β) (hs : setElement h p i x = .ok h')
    (hdisj : ∀ a ∈ p.ptrs, a ∉ q.ptrs) : q.resolve h' = q.resolve h ∧ h'.length = h.length := by
  simp only [setElement, bind_ok, require_ok, ofOpt_ok, pure_ok] at hs
  obtain ⟨_, _, it, _, a, ha, _, _, rfl⟩ := hs
  exact ⟨resolve_set_of_not_mem h a _ q (hdisj a (List.mem_of_getElem? ha)), by simp⟩

theorem getElem_le_sum : ∀ (l : List Nat) (i : Nat) (h : i < l.length), l[i] ≤ l.sum
  | x :: t, 0, _ => by simp
  | x :: t, i + 1, h => by
    have := getElem_le_sum t i (by simpa using h)
    simp only [List.getElem_cons_succ, List.sum_cons]
    omega

theorem two_le_sum : ∀ (l : List Nat) (a k : Nat) (hak : a < k) (hk : k < l.length), l[a]'(by omega) + l[k] ≤ l.sum
  | x :: t, 0, k + 1, _, hk => by
    have := getElem_le_sum t k (by simpa using hk)
    simp only [List.getElem_cons_zero, List.getElem_cons_succ, List.sum_cons]
    omega
  | x :: t, a + 1, k + 1, hak, hk => by
    have := two_le_sum t a k (by omega) (by simpa using hk)
    simp only [List.getElem_cons_succ, List.sum_cons]
    omega

/-- two different holders that both contain `x` give it a use-count of at least 2 -/
theorem useCount_two (hs : List (List Nat)) (x a k : Nat) (hak : a ≠ k) (l1 l2 : List Nat)
    (h1 : hs[a]? = some l1) (h2 : hs[k]? = some l2) : l1.count x + l2.count x ≤ useCount hs x := by
  have ha : a < hs.length := by
    rcases Nat.lt_or_ge a hs.length with h | h
    · exact h
    · rw [List.getElem?_eq_none h] at h1; simp at h1
  have hk : k < hs.length := by
    rcases Nat.lt_or_ge k hs.length with h | h
    · exact h
    · rw [List.getElem?_eq_none h] at h2; simp at h2
  have e1 : hs[a] = l1 := by rw [List.getElem?_eq_getElem ha] at h1; exact Option.some.inj h1
  have e2 : hs[k] = l2 := by rw [List.getElem?_eq_getElem hk] at h2; exact Option.some.inj h2
  have hl : (hs.map (·.count x)).length = hs.length := by simp
  simp only [useCount]
  rcases Nat.lt_or_gt_of_ne hak with h | h
  · have := two_le_sum (hs.map (·.count x)) a k h (by rw [hl]; exact hk)
    simp only [List.getElem_map, e1, e2] at this
    exact this
  · have := two_le_sum (hs.map (·.count x)) k a h (by rw [hl]; exact ha)
    simp only [List.getElem_map, e1, e2] at this
    omega

/-- after `makeIndependent` a container shares no batch with any *other* holder -/
theorem makeIndependent_disjoint (h : Heap β) (hs : List (List Nat)) (a k : Nat) (hak : a ≠ k) (p : PData) (l2 : List Nat)
    (h1 : hs[a]? = some p.ptrs) (h2 : hs[k]? = some l2) (hv2 : ∀ x ∈ l2, x < h.length) :
    ∀ x ∈ (makeIndependent h (useCount hs) p).2.ptrs, x ∉ l2 := by
  unfold makeIndependent
  split
  · rename_i hind
    intro x hx hx2
    simp only [independent, List.all_eq_true, beq_iff_eq] at hind
    have := useCount_two hs x a k hak _ _ h1 h2
    have c1 : 0 < p.ptrs.count x := List.count_pos_iff.mpr hx
    have c2 : 0 < l2.count x := List.count_pos_iff.mpr hx2
    have := hind x hx
    omega
  · intro x hx hx2
    simp only [alloc, List.mem_range'_1] at hx
    have := hv2 x hx2
    omega

namespace World

theorem holdersI_get (w : World ι κ) (k : Nat) (q : PLabeled) (hq : w.d[k]? = some q) :
    w.holdersI[k]? = some q.inputs.ptrs := by
  have hk : k < w.d.length := by
    rcases Nat.lt_or_ge k w.d.length with h | h
    · exact h
    · rw [List.getElem?_eq_none h] at hq; simp at hq
  have e : w.d[k] = q := by rw [List.getElem?_eq_getElem hk] at hq; exact Option.some.inj hq
  simp [holdersI, List.getElem?_append_left, hk, e]

theorem holdersL_get (w : World ι κ) (k : Nat) (q : PLabeled) (hq : w.d[k]? = some q) :
    w.holdersL[k]? = some q.labels.ptrs := by
  have hk : k < w.d.length := by
    rcases Nat.lt_or_ge k w.d.length with h | h
    · exact h
    · rw [List.getElem?_eq_none h] at hq; simp at hq
  have e : w.d[k] = q := by rw [List.getElem?_eq_getElem hk] at hq; exact Option.some.inj hq
  simp [holdersL, List.getElem?_append_left, hk, e]

/-- **copy-on-write discipline**: after `D[a].makeIndependent()` a write through an element proxy of `D[a]`
(`D[a].element(i) = (x, y)`) changes no other dataset, whatever was shared before -/
theorem write_after_makeIndependent_isolated (w w1 w2 : World ι κ) (hv : w.Valid) (a i : Nat) (x : ι) (y : κ)
    (h1 : w.makeIndependent a = .ok w1) (h2 : w1.setElement a i x y = .ok w2) (k : Nat) (hk : k ≠ a) :
    w2.value k = w.value k := by
  simp only [World.makeIndependent, bind_ok, pure_ok] at h1
  obtain ⟨p, hp, rfl⟩ := h1
  have hpa := (slot_ok w a p).mp hp
  have halt : a < w.d.length := by
    rcases Nat.lt_or_ge a w.d.length with h | h
    · exact h
    · rw [List.getElem?_eq_none h] at hpa; simp at hpa
  simp only [World.setElement, bind_ok, pure_ok, slot_ok] at h2
  obtain ⟨p1, hp1, hi2, hsi, hl2, hsl, rfl⟩ := h2
  simp only [List.getElem?_set, halt, if_true] at hp1
  simp only [Option.some.injEq] at hp1
  subst hp1
  have pv := slot_valid w hv a p hp
  have ei := makeIndependent_ext w.hi w.ucI p.inputs pv.1
  have el := makeIndependent_ext w.hl w.ucL p.labels pv.2
  simp only [value, List.getD_eq_getElem?_getD, List.getElem?_set, Ne.symm hk, if_false]
  cases hq : w.d[k]? with
  | none =>
    simp [PLabeled.resolve, PLabeled.empty, PData.resolve, PData.empty]
  | some q =>
    simp only [Option.getD_some, PLabeled.resolve]
    have qv := hv.1 q (List.mem_of_getElem? hq)
    have di := makeIndependent_disjoint w.hi w.holdersI a k (Ne.symm hk) p.inputs q.inputs.ptrs
      (holdersI_get w a p hpa) (holdersI_get w k q hq) qv.1
    have dl := makeIndependent_disjoint w.hl w.holdersL a k (Ne.symm hk) p.labels q.labels.ptrs
      (holdersL_get w a p hpa) (holdersL_get w k q hq) qv.2
    obtain ⟨⟨e1, he1⟩, _, _⟩ := ei
    obtain ⟨⟨e2, he2⟩, _, _⟩ := el
    have f1 := (setElement_frame _ _ _ q.inputs i x hsi di).1
    have f2 := (setElement_frame _ _ _ q.labels i y hsl dl).1
    simp only [ucI, ucL] at f1 f2
    rw [f1, f2]
    simp only [ucI, ucL] at he1 he2
    rw [he1, he2, resolve_append _ _ _ qv.1, resolve_append _ _ _ qv.2]

end World
end SharkVerif.Dataset.Shared
