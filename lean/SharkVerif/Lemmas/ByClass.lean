/-
repartitionByClass: the labelled element iterator, the class-order index vector.
-/
import SharkVerif.Lemmas.Regroup
namespace SharkVerif.Dataset
open SharkVerif.CheckedNat

variable {α ι κ : Type}

/-- forward iteration over any container whose canonical positions dereference to `xs` yields `xs` -/
theorem walkFwd_gen (c : Container α) (xs : List α) (hsum : c.sizes.sum = xs.length) (hne : allPos c.sizes)
    (hderef : ∀ p, p < xs.length → c.deref (canon c.sizes p) = xs[p]?) : ∀ k p, p + k = xs.length →
    c.walkFwd k (canon c.sizes p) = (xs.drop p).map some := by
  intro k
  induction k with
  | zero =>
    intro p hp
    have : xs.length ≤ p := by omega
    simp [Container.walkFwd, List.drop_eq_nil_of_le this]
  | succ k ih =>
    intro p hp
    have hlt : p < xs.length := by omega
    have hinc := increment_canon c.sizes hne p (by rw [hsum]; exact hlt)
    rw [Container.walkFwd, hinc, hderef p hlt]
    show xs[p]? :: c.walkFwd k (canon c.sizes (p + 1)) = _
    rw [ih (p + 1) (by omega)]
    rw [List.drop_eq_getElem_cons hlt]
    simp [List.getElem?_eq_getElem hlt]
    have hl : p < (List.map some xs).length := by simpa using hlt
    rw [List.drop_eq_getElem_cons hl]
    simp

/-- `for (auto e : data.elements())` over a well-formed labelled dataset with non-empty batches reads the
(input, label) pairs in order -/
theorem labeled_elementsFwd (d : LabeledData ι κ) (hw : d.inputs.partitioning = d.labels.partitioning)
    (hne : allPos d.inputs.partitioning) :
    d.container.elementsFwd = (List.zip d.inputs.flat d.labels.flat).map some := by
  have hli : d.inputs.partitioning.sum = d.inputs.flat.length := d.inputs.sum_partitioning
  have hll : d.labels.partitioning.sum = d.labels.flat.length := d.labels.sum_partitioning
  have hlen : (List.zip d.inputs.flat d.labels.flat).length = d.inputs.flat.length := by
    simp [List.length_zip]; rw [← hli, ← hll, hw]; omega
  have hder : ∀ p, p < (List.zip d.inputs.flat d.labels.flat).length →
      d.container.deref (canon d.container.sizes p) = (List.zip d.inputs.flat d.labels.flat)[p]? := by
    intro p hp
    rw [hlen] at hp
    have h1 := deref_canon d.inputs p hp
    have hp2 : p < d.labels.flat.length := by rw [← hll, ← hw, hli]; exact hp
    have h2 := deref_canon d.labels p hp2
    simp only [Container.deref, Data.container, canon] at h1 h2
    rw [← hw] at h2
    simp only [Container.deref, LabeledData.container, LabeledData.get, canon, h1, h2, getElem?_zip_bind]
    cases d.inputs.flat[p]? <;> cases d.labels.flat[p]? <;> rfl
  have := walkFwd_gen d.container _ (by simp [LabeledData.container, hli, hlen]) hne hder
    (List.zip d.inputs.flat d.labels.flat).length 0 (by omega)
  have hz : canon d.container.sizes 0 = Iter.begin := canon_zero _ hne
  rw [hz] at this
  simpa [Container.elementsFwd, LabeledData.container, hli, hlen] using this

/-- the index vector `repartitionByClass` builds is a permutation of all positions when every label is
below the class count -/
theorem classOrder_perm (labels : List Nat) (c : Nat) (h : ∀ l ∈ labels, l < c) :
    (classOrder labels c).Perm (List.range labels.length) := by
  have := perm_flatMap_filter (fun i => labels[i]?.getD 0) c (List.range labels.length) (by
    intro i hi
    simp only [List.mem_range] at hi
    simp only [List.getElem?_eq_getElem hi, Option.getD_some]
    exact h _ (List.getElem_mem hi))
  refine (List.Perm.of_eq ?_).trans this
  unfold classOrder
  apply flatMap_congr'
  intro p _
  apply List.filter_congr
  intro i hi
  simp only [List.mem_range] at hi
  simp [List.getElem?_eq_getElem hi]
  by_cases hq : labels[i] = p <;> simp [hq]

/-- … and it lists the positions class by class in ascending class order -/
theorem classOrder_sorted (labels : List Nat) (c : Nat) :
    ((classOrder labels c).map (fun i => labels[i]?.getD 0)).Pairwise (· ≤ ·) := by
  unfold classOrder
  rw [List.map_flatMap, List.pairwise_flatMap]
  refine ⟨?_, ?_⟩
  · intro p _
    rw [List.pairwise_map]
    apply List.Pairwise.imp_of_mem (R := fun _ _ => True)
    · intro i j hi hj _
      simp only [List.mem_filter, List.mem_range, beq_iff_eq] at hi hj
      simp [hi.2, hj.2]
    · exact List.pairwise_of_forall (fun _ _ => trivial)
  · apply List.Pairwise.imp _ List.pairwise_lt_range
    intro a b hab x hx y hy
    simp only [List.mem_map, List.mem_filter, List.mem_range, beq_iff_eq] at hx hy
    obtain ⟨i, ⟨_, hi⟩, rfl⟩ := hx
    obtain ⟨j, ⟨_, hj⟩, rfl⟩ := hy
    simp [hi, hj]; omega

theorem foldl_max_ge (l : List Nat) : ∀ (a : Nat), (∀ x ∈ l, x ≤ l.foldl max a) ∧ a ≤ l.foldl max a := by
  induction l with
  | nil => intro a; simp
  | cons x l ih =>
    intro a
    obtain ⟨h1, h2⟩ := ih (max a x)
    refine ⟨?_, by simp only [List.foldl_cons]; omega⟩
    intro y hy
    simp only [List.mem_cons] at hy
    simp only [List.foldl_cons]
    rcases hy with rfl | hy
    · omega
    · exact h1 y hy

end SharkVerif.Dataset

namespace SharkVerif.Dataset
open SharkVerif.CheckedNat
variable {α ι κ : Type}

/-- backward iteration over any container whose canonical positions dereference to `xs` -/
theorem walkRev_gen (c : Container α) (xs : List α) (hsum : c.sizes.sum = xs.length) (hne : allPos c.sizes)
    (hderef : ∀ p, p < xs.length → c.deref (canon c.sizes p) = xs[p]?) : ∀ k, k ≤ xs.length →
    c.walkRev k (canon c.sizes k) = ((xs.take k).reverse).map some := by
  intro k
  induction k with
  | zero => intro _; simp [Container.walkRev]
  | succ k ih =>
    intro hk
    have hlt : k < xs.length := by omega
    have hdec := decrement_canon c.sizes hne k (by rw [hsum]; exact hlt)
    rw [Container.walkRev, hdec]
    show c.deref (canon c.sizes k) :: c.walkRev k (canon c.sizes k) = _
    rw [hderef k hlt, ih (by omega)]
    simp [List.getElem?_eq_getElem hlt]
    have hl : k < (List.map some xs).length := by simpa using hlt
    rw [List.take_succ_eq_append_getElem hl]
    simp

/-- `element(i)` over any container whose canonical positions dereference to `xs` -/
theorem elementAt_gen (c : Container α) (xs : List α) (hsum : c.sizes.sum = xs.length) (hne : allPos c.sizes)
    (hderef : ∀ p, p < xs.length → c.deref (canon c.sizes p) = xs[p]?) (i : Nat) (hi : i < xs.length) :
    c.elementAt i = xs[i]? := by
  have hadv := advance_canon_zero c.sizes hne i (by omega)
  unfold Container.elementAt
  rw [hadv]
  exact hderef i hi
where
  advance_canon_zero (sizes : List Nat) (h : allPos sizes) (i : Nat) (hi : i ≤ sizes.sum) :
      Iter.begin.advance sizes i = some (canon sizes i) := by
    unfold Iter.advance
    simp only [Iter.begin]
    have hi0 : ¬ ((i : Int) < 0) := by omega
    by_cases h0 : i = 0
    · subst h0
      have hb := canon_zero sizes h
      simp [hb, Iter.begin]
    · have hne0 : ¬ ((i : Int) = 0) := by omega
      have hf := fwd_locate sizes h 0 i hi
      simp only [Nat.zero_add] at hf
      simp [hi0, hne0, h0, hf, canon]

/-- **labelled datasets**: for every well-formed labelled dataset with non-empty batches, `elements()`,
`element(i)`, reverse iteration and batch-wise reading all yield the sequence of (input, label) pairs -/
theorem labeled_access_paths (d : LabeledData ι κ) (hw : d.inputs.partitioning = d.labels.partitioning)
    (hne : allPos d.inputs.partitioning) :
    d.container.elementsFwd = (List.zip d.inputs.flat d.labels.flat).map some ∧
    d.container.elementsIdx = (List.zip d.inputs.flat d.labels.flat).map some ∧
    d.container.elementsRev.reverse = (List.zip d.inputs.flat d.labels.flat).map some := by
  have hli : d.inputs.partitioning.sum = d.inputs.flat.length := d.inputs.sum_partitioning
  have hll : d.labels.partitioning.sum = d.labels.flat.length := d.labels.sum_partitioning
  have hlen : (List.zip d.inputs.flat d.labels.flat).length = d.inputs.flat.length := by
    simp [List.length_zip]; rw [← hli, ← hll, hw]; omega
  have hsum : d.container.sizes.sum = (List.zip d.inputs.flat d.labels.flat).length := by
    simp [LabeledData.container, hli, hlen]
  have hne' : allPos d.container.sizes := hne
  have hder : ∀ p, p < (List.zip d.inputs.flat d.labels.flat).length →
      d.container.deref (canon d.container.sizes p) = (List.zip d.inputs.flat d.labels.flat)[p]? := by
    intro p hp
    rw [hlen] at hp
    have h1 := deref_canon d.inputs p hp
    have hp2 : p < d.labels.flat.length := by rw [← hll, ← hw, hli]; exact hp
    have h2 := deref_canon d.labels p hp2
    simp only [Container.deref, Data.container, canon] at h1 h2
    rw [← hw] at h2
    simp only [Container.deref, LabeledData.container, LabeledData.get, canon, h1, h2, getElem?_zip_bind]
    cases d.inputs.flat[p]? <;> cases d.labels.flat[p]? <;> rfl
  refine ⟨labeled_elementsFwd d hw hne, ?_, ?_⟩
  · generalize List.zip d.inputs.flat d.labels.flat = xs at hsum hder
    simp only [Container.elementsIdx, hsum]
    apply List.ext_getElem?
    intro i
    by_cases hi : i < xs.length
    · simp only [List.getElem?_map, List.getElem?_range hi, Option.map_some]
      rw [elementAt_gen d.container _ hsum hne' hder i hi, List.getElem?_eq_getElem hi]; rfl
    · simp [hi]
  · generalize List.zip d.inputs.flat d.labels.flat = xs at hsum hder
    have := walkRev_gen d.container _ hsum hne' hder _ (Nat.le_refl _)
    rw [← hsum, canon_end] at this
    simp only [Container.elementsRev]
    rw [this, hsum]; simp

end SharkVerif.Dataset
