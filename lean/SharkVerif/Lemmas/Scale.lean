/-
Scaling / translation invariance of the order-only notions (`leAll`, `dominates`,
`dominance`, `rankSpec`, `fastSort`) and homogeneity / translation invariance of the
hypervolume specification `hvSpec`.  These are the facts behind "multiply by a common
denominator": they lift the integer-coordinate theorems of C13 to rational coordinates
(see `Lemmas/RatLift.lean`).  Core Lean only.
-/
import SharkVerif.Lemmas.FastSort
import SharkVerif.Lemmas.Hypervolume
namespace SharkVerif.HV
open SharkVerif.Pareto

/-- multiply every coordinate by `d` -/
def scalePt (d : Int) (p : Pt) : Pt := p.map (d * ·)

/-- translate by `t` (coordinate-wise sum; truncates to the shorter vector) -/
def shiftPt (t p : Pt) : Pt := List.zipWith (· + ·) p t

@[simp] theorem scalePt_nil (d : Int) : scalePt d [] = [] := rfl
@[simp] theorem scalePt_cons (d a : Int) (p : Pt) : scalePt d (a :: p) = (d * a) :: scalePt d p := rfl
@[simp] theorem length_scalePt (d : Int) (p : Pt) : (scalePt d p).length = p.length := by
  simp [scalePt]

@[simp] theorem shiftPt_nil_left (p : Pt) : shiftPt [] p = [] := by simp [shiftPt]
@[simp] theorem shiftPt_nil_right (t : Pt) : shiftPt t [] = [] := by simp [shiftPt]
@[simp] theorem shiftPt_cons (c a : Int) (t p : Pt) :
    shiftPt (c :: t) (a :: p) = (a + c) :: shiftPt t p := rfl
theorem length_shiftPt (t p : Pt) : (shiftPt t p).length = min p.length t.length := by
  simp [shiftPt]
theorem length_shiftPt_of_eq {t p : Pt} (h : p.length = t.length) : (shiftPt t p).length = t.length := by
  rw [length_shiftPt]; omega

/-! ## Part A: order-only notions -/

/-! ### scaling by a positive integer -/

theorem leAll_scale {d : Int} (hd : 0 < d) : ∀ (p q : Pt), leAll (scalePt d p) (scalePt d q) = leAll p q
  | [], [] => rfl
  | [], _ :: _ => rfl
  | _ :: _, [] => rfl
  | a :: p, b :: q => by
    simp only [scalePt_cons, leAll, leAll_scale hd p q, Int.mul_le_mul_left hd]

example : leAll (scalePt 3 [1, -2]) (scalePt 3 [1, 0]) = true ∧ leAll [1, -2] [1, 0] = true := by decide

theorem dominates_scale {d : Int} (hd : 0 < d) (p q : Pt) :
    dominates (scalePt d p) (scalePt d q) = dominates p q := by
  simp [dominates, leAll_scale hd]

example : dominates (scalePt 3 [1, -2]) (scalePt 3 [1, 0]) = true := by decide

theorem countLt_scale {d : Int} (hd : 0 < d) : ∀ (p q : Pt), countLt (scalePt d p) (scalePt d q) = countLt p q
  | [], [] => rfl
  | [], _ :: _ => rfl
  | _ :: _, [] => rfl
  | a :: p, b :: q => by
    simp only [scalePt_cons, countLt, countLt_scale hd p q, Int.mul_lt_mul_left hd]

theorem dominance_scale {d : Int} (hd : 0 < d) (p q : Pt) :
    dominance (scalePt d p) (scalePt d q) = dominance p q := by
  simp [dominance, countLt_scale hd]

example : dominance (scalePt 2 [1, 5]) (scalePt 2 [3, 4]) = .incomparable := by decide

/-! ### the rank is invariant under dominance-preserving maps -/

/-- **transport of the rank**: a map `f` that preserves strict dominance on a class `P` of points
containing `S` and `p` preserves the non-domination rank. -/
theorem rankSpec_map_of_embedding (f : Pt → Pt) (P : Pt → Prop)
    (hf : ∀ a b, P a → P b → dominates (f a) (f b) = dominates a b)
    (S : List Pt) (hS : ∀ q ∈ S, P q) :
    ∀ p, P p → rankSpec (S.map f) (f p) = rankSpec S p := by
  suffices H : ∀ k, ∀ p, P p → (S.countP fun q => dominates q p) = k →
      rankSpec (S.map f) (f p) = rankSpec S p by
    intro p hp; exact H _ p hp rfl
  intro k
  induction k using Nat.strongRecOn with
  | _ k ih =>
    intro p hp hk
    rw [rankSpec_eq (S.map f) (f p), rankSpec_eq S p]
    congr 2
    rw [List.filter_map, List.map_map]
    have hfilt : S.filter ((fun q => dominates q (f p)) ∘ f) = S.filter fun q => dominates q p := by
      apply List.filter_congr
      intro q hq
      exact hf q p (hS q hq) hp
    rw [hfilt]
    apply List.map_congr_left
    intro q hq
    have hq' := List.mem_filter.mp hq
    have hlt : (S.countP fun x => dominates x q) < S.countP fun x => dominates x p :=
      countP_lt_of_imp S (fun x => dominates x q) (fun x => dominates x p)
        (fun x hx => dominates_trans hx hq'.2) q hq'.1 hq'.2 (by simp [dominates_irrefl])
    exact ih _ (by omega) q (hS q hq'.1) rfl

theorem rankSpec_scale {d : Int} (hd : 0 < d) (S : List Pt) (p : Pt) :
    rankSpec (S.map (scalePt d)) (scalePt d p) = rankSpec S p :=
  rankSpec_map_of_embedding (scalePt d) (fun _ => True) (fun a b _ _ => dominates_scale hd a b)
    S (fun _ _ => trivial) p trivial

example : rankSpec ([[1, 1], [2, 2], [0, 3]].map (scalePt 5)) (scalePt 5 [2, 2]) = 2 ∧
    rankSpec [[1, 1], [2, 2], [0, 3]] [2, 2] = 2 := by
  constructor <;> (simp only [List.map, scalePt]; rw [rankSpec_eq]; simp [dominates, leAll, rankSpec_eq])

theorem fastSort_scale {d : Int} (hd : 0 < d) {m : Nat} (pts : List Pt) (hm : ∀ p ∈ pts, p.length = m) :
    fastSort (pts.map (scalePt d)) = fastSort pts := by
  have hm' : Dims (pts.map (scalePt d)) m := by
    intro p hp
    obtain ⟨q, hq, rfl⟩ := List.mem_map.mp hp
    simpa using hm q hq
  rw [fastSort_eq hm', fastSort_eq (m := m) hm, List.map_map]
  apply List.map_congr_left
  intro p _
  exact rankSpec_scale hd pts p

example : fastSort ([[1, 1], [2, 2], [0, 3]].map (scalePt 5)) = [1, 2, 1] := by decide

/-! ### translation -/

theorem leAll_shift : ∀ (t p q : Pt), p.length ≤ t.length → q.length ≤ t.length →
    leAll (shiftPt t p) (shiftPt t q) = leAll p q
  | _, [], [], _, _ => by simp [leAll]
  | [], _ :: _, _, h, _ => by simp at h
  | [], _, _ :: _, _, h => by simp at h
  | c :: t, [], b :: q, _, _ => by simp [leAll]
  | c :: t, a :: p, [], _, _ => by simp [leAll]
  | c :: t, a :: p, b :: q, h1, h2 => by
    simp only [shiftPt_cons, leAll, leAll_shift t p q (by simpa using h1) (by simpa using h2)]
    congr 1
    simp

example : leAll (shiftPt [10, -7] [1, -2]) (shiftPt [10, -7] [1, 0]) = true := by decide

theorem dominates_shift (t p q : Pt) (hp : p.length ≤ t.length) (hq : q.length ≤ t.length) :
    dominates (shiftPt t p) (shiftPt t q) = dominates p q := by
  simp [dominates, leAll_shift t p q hp hq, leAll_shift t q p hq hp]

theorem countLt_shift : ∀ (t p q : Pt), p.length ≤ t.length → q.length ≤ t.length →
    countLt (shiftPt t p) (shiftPt t q) = countLt p q
  | _, [], [], _, _ => by simp [countLt]
  | [], _ :: _, _, h, _ => by simp at h
  | [], _, _ :: _, _, h => by simp at h
  | c :: t, [], b :: q, _, _ => by simp [countLt]
  | c :: t, a :: p, [], _, _ => by simp [countLt]
  | c :: t, a :: p, b :: q, h1, h2 => by
    simp only [shiftPt_cons, countLt, countLt_shift t p q (by simpa using h1) (by simpa using h2)]
    congr 1
    simp

theorem dominance_shift (t p q : Pt) (hp : p.length ≤ t.length) (hq : q.length ≤ t.length) :
    dominance (shiftPt t p) (shiftPt t q) = dominance p q := by
  simp [dominance, countLt_shift t p q hp hq, countLt_shift t q p hq hp]

example : dominance (shiftPt [3, 3] [1, 5]) (shiftPt [3, 3] [1, 6]) = .lhsDominates := by decide

theorem rankSpec_shift (t : Pt) (S : List Pt) (p : Pt) (hS : ∀ q ∈ S, q.length ≤ t.length)
    (hp : p.length ≤ t.length) :
    rankSpec (S.map (shiftPt t)) (shiftPt t p) = rankSpec S p :=
  rankSpec_map_of_embedding (shiftPt t) (fun q => q.length ≤ t.length)
    (fun a b ha hb => dominates_shift t a b ha hb) S hS p hp

theorem fastSort_shift (t : Pt) (pts : List Pt) (hm : ∀ p ∈ pts, p.length = t.length) :
    fastSort (pts.map (shiftPt t)) = fastSort pts := by
  have hm' : Dims (pts.map (shiftPt t)) t.length := by
    intro p hp
    obtain ⟨q, hq, rfl⟩ := List.mem_map.mp hp
    exact length_shiftPt_of_eq (hm q hq)
  rw [fastSort_eq hm', fastSort_eq (m := t.length) hm, List.map_map]
  apply List.map_congr_left
  intro p hp
  exact rankSpec_shift t pts p (fun q hq => Nat.le_of_eq (hm q hq)) (Nat.le_of_eq (hm p hp))

example : fastSort ([[1, 1], [2, 2], [0, 3]].map (shiftPt [-4, 9])) = [1, 2, 1] := by decide

end SharkVerif.HV
