/-
Scaling / translation invariance of the order-only notions (`leAll`, `dominates`,
`dominance`, `rankSpec`, `fastSort`) and homogeneity / translation invariance of the
hypervolume specification `hvSpec`.  These are the facts behind "multiply by a common
denominator": they lift the integer-coordinate theorems of C13 to rational coordinates
(see `Lemmas/RatLift.lean`).  Core Lean only.
-/
import SharkVerif.Lemmas.FastSort
import SharkVerif.Lemmas.Hypervolume
namespace SharkVerif.HV
open SharkVerif.Pareto

/-- multiply every coordinate by `d` -/
def scalePt (d : Int) (p : Pt) : Pt := p.map (d * ·)

/-- translate by `t` (coordinate-wise sum; truncates to the shorter vector) -/
def shiftPt (t p : Pt) : Pt := List.zipWith (· + ·) p t

@[simp] theorem scalePt_nil (d : Int) : scalePt d [] = [] := rfl
@[simp] theorem scalePt_cons (d a : Int) (p : Pt) : scalePt d (a :: p) = (d * a) :: scalePt d p := rfl
@[simp] theorem length_scalePt (d : Int) (p : Pt) : (scalePt d p).length = p.length := by
  simp [scalePt]

@[simp] theorem shiftPt_nil_left (p : Pt) : shiftPt [] p = [] := by simp [shiftPt]
@[simp] theorem shiftPt_nil_right (t : Pt) : shiftPt t [] = [] := by simp [shiftPt]
@[simp] theorem shiftPt_cons (c a : Int) (t p : Pt) :
    shiftPt (c :: t) (a :: p) = (a + c) :: shiftPt t p := rfl
theorem length_shiftPt (t p : Pt) : (shiftPt t p).length = min p.length t.length := by
  simp [shiftPt]
theorem length_shiftPt_of_eq {t p : Pt} (h : p.length = t.length) : (shiftPt t p).length = t.length := by
  rw [length_shiftPt]; omega

/-! ### small list tools -/

theorem flatMap_congr_mem {α β} {l : List α} {f g : α → List β} (h : ∀ x ∈ l, f x = g x) :
    l.flatMap f = l.flatMap g := by
  induction l with
  | nil => rfl
  | cons a l ih =>
    rw [List.flatMap_cons, List.flatMap_cons, h a List.mem_cons_self,
      ih fun x hx => h x (List.mem_cons_of_mem _ hx)]

theorem any_congr_mem {α} {l : List α} {f g : α → Bool} (h : ∀ x ∈ l, f x = g x) :
    l.any f = l.any g := by
  induction l with
  | nil => rfl
  | cons a l ih =>
    rw [List.any_cons, List.any_cons, h a List.mem_cons_self,
      ih fun x hx => h x (List.mem_cons_of_mem _ hx)]

theorem eraseIdx_map' {α β} (f : α → β) : ∀ (l : List α) (i : Nat),
    (l.map f).eraseIdx i = (l.eraseIdx i).map f
  | [], _ => rfl
  | _ :: _, 0 => rfl
  | a :: l, i + 1 => by simp [List.eraseIdx_cons_succ, eraseIdx_map' f l i]

/-! ## Part A: order-only notions -/

/-! ### scaling by a positive integer -/

theorem leAll_scale {d : Int} (hd : 0 < d) : ∀ (p q : Pt), leAll (scalePt d p) (scalePt d q) = leAll p q
  | [], [] => rfl
  | [], _ :: _ => rfl
  | _ :: _, [] => rfl
  | a :: p, b :: q => by
    simp only [scalePt_cons, leAll, leAll_scale hd p q, Int.mul_le_mul_left hd]

example : leAll (scalePt 3 [1, -2]) (scalePt 3 [1, 0]) = true ∧ leAll [1, -2] [1, 0] = true := by decide

theorem dominates_scale {d : Int} (hd : 0 < d) (p q : Pt) :
    dominates (scalePt d p) (scalePt d q) = dominates p q := by
  simp [dominates, leAll_scale hd]

example : dominates (scalePt 3 [1, -2]) (scalePt 3 [1, 0]) = true := by decide

theorem countLt_scale {d : Int} (hd : 0 < d) : ∀ (p q : Pt), countLt (scalePt d p) (scalePt d q) = countLt p q
  | [], [] => rfl
  | [], _ :: _ => rfl
  | _ :: _, [] => rfl
  | a :: p, b :: q => by
    simp only [scalePt_cons, countLt, countLt_scale hd p q, Int.mul_lt_mul_left hd]

theorem dominance_scale {d : Int} (hd : 0 < d) (p q : Pt) :
    dominance (scalePt d p) (scalePt d q) = dominance p q := by
  simp [dominance, countLt_scale hd]

example : dominance (scalePt 2 [1, 5]) (scalePt 2 [3, 4]) = .incomparable := by decide

/-! ### the rank is invariant under dominance-preserving maps -/

/-- **transport of the rank**: a map `f` that preserves strict dominance on a class `P` of points
containing `S` and `p` preserves the non-domination rank. -/
theorem rankSpec_map_of_embedding (f : Pt → Pt) (P : Pt → Prop)
    (hf : ∀ a b, P a → P b → dominates (f a) (f b) = dominates a b)
    (S : List Pt) (hS : ∀ q ∈ S, P q) :
    ∀ p, P p → rankSpec (S.map f) (f p) = rankSpec S p := by
  suffices H : ∀ k, ∀ p, P p → (S.countP fun q => dominates q p) = k →
      rankSpec (S.map f) (f p) = rankSpec S p by
    intro p hp; exact H _ p hp rfl
  intro k
  induction k using Nat.strongRecOn with
  | _ k ih =>
    intro p hp hk
    rw [rankSpec_eq (S.map f) (f p), rankSpec_eq S p]
    congr 2
    rw [List.filter_map, List.map_map]
    have hfilt : S.filter ((fun q => dominates q (f p)) ∘ f) = S.filter fun q => dominates q p := by
      apply List.filter_congr
      intro q hq
      exact hf q p (hS q hq) hp
    rw [hfilt]
    apply List.map_congr_left
    intro q hq
    have hq' := List.mem_filter.mp hq
    have hlt : (S.countP fun x => dominates x q) < S.countP fun x => dominates x p :=
      countP_lt_of_imp S (fun x => dominates x q) (fun x => dominates x p)
        (fun x hx => dominates_trans hx hq'.2) q hq'.1 hq'.2 (by simp [dominates_irrefl])
    exact ih _ (by omega) q (hS q hq'.1) rfl

theorem rankSpec_scale {d : Int} (hd : 0 < d) (S : List Pt) (p : Pt) :
    rankSpec (S.map (scalePt d)) (scalePt d p) = rankSpec S p :=
  rankSpec_map_of_embedding (scalePt d) (fun _ => True) (fun a b _ _ => dominates_scale hd a b)
    S (fun _ _ => trivial) p trivial

example : rankSpec ([[1, 1], [2, 2], [0, 3]].map (scalePt 5)) (scalePt 5 [2, 2]) = 2 ∧
    rankSpec [[1, 1], [2, 2], [0, 3]] [2, 2] = 2 := by
  constructor <;> simp [scalePt, rankSpec_eq, dominates, leAll]

theorem fastSort_scale {d : Int} (hd : 0 < d) {m : Nat} (pts : List Pt) (hm : ∀ p ∈ pts, p.length = m) :
    fastSort (pts.map (scalePt d)) = fastSort pts := by
  have hm' : Dims (pts.map (scalePt d)) m := by
    intro p hp
    obtain ⟨q, hq, rfl⟩ := List.mem_map.mp hp
    simpa using hm q hq
  rw [fastSort_eq hm', fastSort_eq (m := m) hm, List.map_map]
  apply List.map_congr_left
  intro p _
  exact rankSpec_scale hd pts p

example : fastSort ([[1, 1], [2, 2], [0, 3]].map (scalePt 5)) = [1, 2, 1] := by decide

/-! ### translation -/

theorem leAll_shift : ∀ (t p q : Pt), p.length ≤ t.length → q.length ≤ t.length →
    leAll (shiftPt t p) (shiftPt t q) = leAll p q
  | _, [], [], _, _ => by simp [leAll]
  | [], _ :: _, _, h, _ => by simp at h
  | [], _, _ :: _, _, h => by simp at h
  | c :: t, [], b :: q, _, _ => by simp [leAll]
  | c :: t, a :: p, [], _, _ => by simp [leAll]
  | c :: t, a :: p, b :: q, h1, h2 => by
    simp only [shiftPt_cons, leAll, leAll_shift t p q (by simpa using h1) (by simpa using h2)]
    congr 1
    simp

example : leAll (shiftPt [10, -7] [1, -2]) (shiftPt [10, -7] [1, 0]) = true := by decide

theorem dominates_shift (t p q : Pt) (hp : p.length ≤ t.length) (hq : q.length ≤ t.length) :
    dominates (shiftPt t p) (shiftPt t q) = dominates p q := by
  simp [dominates, leAll_shift t p q hp hq, leAll_shift t q p hq hp]

theorem countLt_shift : ∀ (t p q : Pt), p.length ≤ t.length → q.length ≤ t.length →
    countLt (shiftPt t p) (shiftPt t q) = countLt p q
  | _, [], [], _, _ => by simp [countLt]
  | [], _ :: _, _, h, _ => by simp at h
  | [], _, _ :: _, _, h => by simp at h
  | c :: t, [], b :: q, _, _ => by simp [countLt]
  | c :: t, a :: p, [], _, _ => by simp [countLt]
  | c :: t, a :: p, b :: q, h1, h2 => by
    simp only [shiftPt_cons, countLt, countLt_shift t p q (by simpa using h1) (by simpa using h2)]
    congr 1
    simp

theorem dominance_shift (t p q : Pt) (hp : p.length ≤ t.length) (hq : q.length ≤ t.length) :
    dominance (shiftPt t p) (shiftPt t q) = dominance p q := by
  simp [dominance, countLt_shift t p q hp hq, countLt_shift t q p hq hp]

example : dominance (shiftPt [3, 3] [1, 5]) (shiftPt [3, 3] [1, 6]) = .lhsDominates := by decide

theorem rankSpec_shift (t : Pt) (S : List Pt) (p : Pt) (hS : ∀ q ∈ S, q.length ≤ t.length)
    (hp : p.length ≤ t.length) :
    rankSpec (S.map (shiftPt t)) (shiftPt t p) = rankSpec S p :=
  rankSpec_map_of_embedding (shiftPt t) (fun q => q.length ≤ t.length)
    (fun a b ha hb => dominates_shift t a b ha hb) S hS p hp

example : rankSpec ([[1, 1], [2, 2], [0, 3]].map (shiftPt [-4, 9])) (shiftPt [-4, 9] [2, 2]) = 2 := by
  simp [shiftPt, rankSpec_eq, dominates, leAll]

theorem fastSort_shift (t : Pt) (pts : List Pt) (hm : ∀ p ∈ pts, p.length = t.length) :
    fastSort (pts.map (shiftPt t)) = fastSort pts := by
  have hm' : Dims (pts.map (shiftPt t)) t.length := by
    intro p hp
    obtain ⟨q, hq, rfl⟩ := List.mem_map.mp hp
    exact length_shiftPt_of_eq (hm q hq)
  rw [fastSort_eq hm', fastSort_eq (m := t.length) hm, List.map_map]
  apply List.map_congr_left
  intro p hp
  exact rankSpec_shift t pts p (fun q hq => Nat.le_of_eq (hm q hq)) (Nat.le_of_eq (hm p hp))

example : fastSort ([[1, 1], [2, 2], [0, 3]].map (shiftPt [-4, 9])) = [1, 2, 1] := by decide

/-! ## Part B: hypervolume -/

/-! ### translation invariance -/

theorem pmin_shift : ∀ (t a b : Pt), pmin (shiftPt t a) (shiftPt t b) = shiftPt t (pmin a b)
  | [], a, b => by simp [pmin]
  | _ :: _, [], b => by simp [pmin]
  | _ :: _, _ :: _, [] => by simp [pmin]
  | c :: t, x :: a, y :: b => by
    simp only [shiftPt_cons, pmin, pmin_shift t a b, List.cons.injEq, and_true]
    omega

theorem lower_shift (t : Pt) (S : List Pt) (r : Pt) :
    lower (S.map (shiftPt t)) (shiftPt t r) = shiftPt t (lower S r) := by
  induction S with
  | nil => rfl
  | cons s S ih => rw [List.map_cons, lower_cons, lower_cons, ih, pmin_shift]

/-- the cells of the translated box are the translated cells -/
theorem cells_shift : ∀ (t lo hi : Pt), lo.length ≤ t.length → hi.length ≤ t.length →
    cells (shiftPt t lo) (shiftPt t hi) = (cells lo hi).map (shiftPt t)
  | _, [], [], _, _ => by simp [cells]
  | [], _ :: _, _, h, _ => by simp at h
  | [], _, _ :: _, _, h => by simp at h
  | c :: t, [], b :: q, _, _ => by simp [cells]
  | c :: t, a :: p, [], _, _ => by simp [cells]
  | c :: t, l :: lo, h :: hi, h1, h2 => by
    simp only [shiftPt_cons, cells, cells_shift t lo hi (by simpa using h1) (by simpa using h2),
      List.map_flatMap, List.map_map]
    have e : (h + c - (l + c)).toNat = (h - l).toNat := by congr 1; omega
    rw [e]
    apply flatMap_congr_mem
    intro k _
    apply List.map_congr_left
    intro z _
    simp only [Function.comp, shiftPt_cons, List.cons.injEq, and_true]
    omega

theorem covered_shift (t : Pt) (S : List Pt) (z : Pt) (hS : ∀ p ∈ S, p.length ≤ t.length)
    (hz : z.length ≤ t.length) : covered (S.map (shiftPt t)) (shiftPt t z) = covered S z := by
  unfold covered
  rw [List.any_map]
  apply any_congr_mem
  intro p hp
  exact leAll_shift t p z (hS p hp) hz

theorem hvCount_shift (t lo : Pt) (S : List Pt) (r : Pt) (hlo : lo.length ≤ t.length)
    (hS : ∀ p ∈ S, p.length ≤ t.length) (hr : r.length ≤ t.length) :
    hvCount (shiftPt t lo) (S.map (shiftPt t)) (shiftPt t r) = hvCount lo S r := by
  unfold hvCount
  rw [cells_shift t lo r hlo hr, List.countP_map]
  apply List.countP_congr
  intro z hz
  have hzl := inBox_length (mem_cells.mp hz)
  simp only [Function.comp]
  rw [covered_shift t S z hS (by omega)]

/-- **translation invariance of the hypervolume** -/
theorem hvSpec_shift (t : Pt) (S : List Pt) (r : Pt) (hS : ∀ p ∈ S, p.length = t.length)
    (hr : r.length = t.length) :
    hvSpec (S.map (shiftPt t)) (shiftPt t r) = hvSpec S r := by
  unfold hvSpec
  rw [lower_shift]
  have hl : (lower S r).length = r.length := length_lower fun p hp => by rw [hS p hp, hr]; exact Nat.le_refl _
  exact hvCount_shift t _ S r (by omega) (fun p hp => Nat.le_of_eq (hS p hp)) (by omega)

example : hvSpec ([[1, 3], [2, 1]].map (shiftPt [-5, 7])) (shiftPt [-5, 7] [4, 4]) = 7 ∧
    hvSpec [[1, 3], [2, 1]] [4, 4] = 7 := by decide

theorem contribSpec_shift (t : Pt) (S : List Pt) (r : Pt) (i : Nat) (hS : ∀ p ∈ S, p.length = t.length)
    (hr : r.length = t.length) :
    contribSpec (S.map (shiftPt t)) (shiftPt t r) i = contribSpec S r i := by
  unfold contribSpec
  rw [hvSpec_shift t S r hS hr, eraseIdx_map',
    hvSpec_shift t (S.eraseIdx i) r (fun p hp => hS p (List.mem_of_mem_eraseIdx hp)) hr]

example : contribSpec ([[1, 3], [2, 1]].map (shiftPt [-5, 7])) (shiftPt [-5, 7] [4, 4]) 1 = 4 ∧
    contribSpec [[1, 3], [2, 1]] [4, 4] 1 = 4 := by decide

theorem boxVol_shift : ∀ (t p r : Pt), p.length ≤ t.length → r.length ≤ t.length →
    boxVol (shiftPt t p) (shiftPt t r) = boxVol p r
  | _, [], [], _, _ => by simp [boxVol]
  | [], _ :: _, _, h, _ => by simp at h
  | [], _, _ :: _, _, h => by simp at h
  | c :: t, [], b :: q, _, _ => by simp [boxVol]
  | c :: t, a :: p, [], _, _ => by simp [boxVol]
  | c :: t, a :: p, b :: q, h1, h2 => by
    simp only [shiftPt_cons, boxVol, boxVol_shift t p q (by simpa using h1) (by simpa using h2)]
    congr 1
    omega

/-! ### homogeneity: scaling by a positive integer multiplies the hypervolume by `d ^ m` -/

/-- coordinate-wise floor division -/
def divPt (d : Int) (z : Pt) : Pt := z.map (· / d)

@[simp] theorem divPt_nil (d : Int) : divPt d [] = [] := rfl
@[simp] theorem divPt_cons (d a : Int) (z : Pt) : divPt d (a :: z) = (a / d) :: divPt d z := rfl

/-- for integers: `d * p ≤ z ↔ p ≤ ⌊z / d⌋` -/
theorem leAll_scale_div {d : Int} (hd : 0 < d) : ∀ (p z : Pt), leAll (scalePt d p) z = leAll p (divPt d z)
  | [], [] => rfl
  | [], _ :: _ => rfl
  | _ :: _, [] => rfl
  | a :: p, b :: z => by
    simp only [scalePt_cons, divPt_cons, leAll, leAll_scale_div hd p z, Int.le_ediv_iff_mul_le hd,
      Int.mul_comm d a]

theorem covered_scale_div {d : Int} (hd : 0 < d) (S : List Pt) (z : Pt) :
    covered (S.map (scalePt d)) z = covered S (divPt d z) := by
  unfold covered
  rw [List.any_map]
  apply any_congr_mem
  intro p _
  exact leAll_scale_div hd p z

theorem pmin_scale {d : Int} (hd : 0 < d) : ∀ (a b : Pt), pmin (scalePt d a) (scalePt d b) = scalePt d (pmin a b)
  | [], b => by simp [pmin]
  | _ :: _, [] => by simp [pmin]
  | x :: a, y :: b => by
    simp only [scalePt_cons, pmin, pmin_scale hd a b, List.cons.injEq, and_true]
    rcases Int.le_total x y with h | h
    · rw [Int.min_eq_left h, Int.min_eq_left (Int.mul_le_mul_of_nonneg_left h (Int.le_of_lt hd))]
    · rw [Int.min_eq_right h, Int.min_eq_right (Int.mul_le_mul_of_nonneg_left h (Int.le_of_lt hd))]

theorem lower_scale {d : Int} (hd : 0 < d) (S : List Pt) (r : Pt) :
    lower (S.map (scalePt d)) (scalePt d r) = scalePt d (lower S r) := by
  induction S with
  | nil => rfl
  | cons s S ih => rw [List.map_cons, lower_cons, lower_cons, ih, pmin_scale hd]

/-- `g 0 + … + g (n-1)` -/
def sumTo : Nat → (Nat → Nat) → Nat
  | 0, _ => 0
  | n + 1, g => sumTo n g + g n

theorem sumTo_congr {g g' : Nat → Nat} : ∀ (n : Nat), (∀ k, k < n → g k = g' k) → sumTo n g = sumTo n g'
  | 0, _ => rfl
  | n + 1, h => by
    rw [sumTo, sumTo, sumTo_congr n (fun k hk => h k (by omega)), h n (by omega)]

theorem sumTo_mul_left (a : Nat) (g : Nat → Nat) : ∀ (n : Nat), sumTo n (fun k => a * g k) = a * sumTo n g
  | 0 => rfl
  | n + 1 => by rw [sumTo, sumTo, sumTo_mul_left a g n, Nat.mul_add]

theorem sumTo_add (g : Nat → Nat) (a : Nat) : ∀ (b : Nat), sumTo (a + b) g = sumTo a g + sumTo b (fun i => g (a + i))
  | 0 => rfl
  | b + 1 => by rw [← Nat.add_assoc, sumTo, sumTo, sumTo_add g a b, Nat.add_assoc]

theorem sumTo_const (c : Nat) : ∀ (n : Nat), sumTo n (fun _ => c) = n * c
  | 0 => by simp [sumTo]
  | n + 1 => by rw [sumTo, sumTo_const c n, Nat.succ_mul]

/-- every value of `g` is hit `D` times by `k ↦ g (k / D)` -/
theorem sumTo_div (D : Nat) (hD : 0 < D) (g : Nat → Nat) :
    ∀ (n : Nat), sumTo (D * n) (fun k => g (k / D)) = D * sumTo n g
  | 0 => rfl
  | n + 1 => by
    rw [Nat.mul_succ, sumTo_add, sumTo_div D hD g n, sumTo, Nat.mul_add]
    congr 1
    rw [sumTo_congr (g' := fun _ => g n) D, sumTo_const]
    intro k hk
    show g ((D * n + k) / D) = g n
    rw [Nat.mul_add_div hD, Nat.div_eq_of_lt hk, Nat.add_zero]

theorem countP_flatMap_range {α} (F : Nat → List α) (p : α → Bool) :
    ∀ (n : Nat), ((List.range n).flatMap F).countP p = sumTo n fun k => (F k).countP p
  | 0 => rfl
  | n + 1 => by
    rw [List.range_succ, List.flatMap_append, List.countP_append, countP_flatMap_range F p n, sumTo]
    simp

theorem toNat_scale_sub (D : Nat) (l h : Int) :
    ((D : Int) * h - (D : Int) * l).toNat = D * (h - l).toNat := by
  rw [← Int.mul_sub]
  rcases Int.le_total 0 (h - l) with hn | hn
  · obtain ⟨n, hn'⟩ := Int.eq_ofNat_of_zero_le hn
    rw [hn', ← Int.natCast_mul, Int.toNat_natCast, Int.toNat_natCast]
  · have h1 : (D : Int) * (h - l) ≤ 0 := Int.mul_nonpos_of_nonneg_of_nonpos (Int.natCast_nonneg D) hn
    rw [Int.toNat_of_nonpos h1, Int.toNat_of_nonpos hn, Nat.mul_zero]

/-- **the fibre-counting step**: every cell `z` of the box `[lo, hi)` is the image under floor
division of exactly `D ^ m` cells of the scaled box `[D·lo, D·hi)`.  (Both sides are `0` if the
dimensions of `lo` and `hi` differ.) -/
theorem countP_cells_scale (D : Nat) (hD : 0 < D) : ∀ (lo hi : Pt) (q : Pt → Bool),
    (cells (scalePt D lo) (scalePt D hi)).countP (fun z => q (divPt D z)) =
      D ^ lo.length * (cells lo hi).countP q
  | [], [], q => by
    simp only [cells, scalePt_nil, List.length_nil, Nat.pow_zero, Nat.one_mul]
    rfl
  | [], _ :: _, q => by simp [cells]
  | _ :: _, [], q => by simp [cells]
  | l :: lo, h :: hi, q => by
    simp only [scalePt_cons, cells, countP_flatMap_range, toNat_scale_sub, List.countP_map,
      List.length_cons]
    rw [sumTo_congr (g' := fun k => D ^ lo.length *
      (cells lo hi).countP (q ∘ fun z => (l + ((k / D : Nat) : Int)) :: z))]
    · refine (sumTo_div D hD (fun j => D ^ lo.length *
        (cells lo hi).countP (q ∘ fun z => (l + (j : Int)) :: z)) _).trans ?_
      rw [sumTo_mul_left, Nat.pow_succ, Nat.mul_left_comm, Nat.mul_assoc]
    · intro k _
      have e : ((D : Int) * l + (k : Int)) / (D : Int) = l + ((k / D : Nat) : Int) := by
        rw [Int.add_comm, Int.add_mul_ediv_left _ _ (by omega), Int.natCast_ediv, Int.add_comm]
      have := countP_cells_scale D hD lo hi (q ∘ fun z => (l + ((k / D : Nat) : Int)) :: z)
      rw [← this]
      apply List.countP_congr
      intro z _
      simp only [Function.comp, divPt_cons, e]

theorem hvCount_scale (D : Nat) (hD : 0 < D) (lo : Pt) (S : List Pt) (r : Pt) :
    hvCount (scalePt D lo) (S.map (scalePt D)) (scalePt D r) = D ^ lo.length * hvCount lo S r := by
  unfold hvCount
  rw [← countP_cells_scale D hD lo r (covered S)]
  apply List.countP_congr
  intro z _
  rw [covered_scale_div (by omega)]

/-- **homogeneity of the hypervolume**: scaling all points and the reference point by a positive
integer `d` multiplies the hypervolume by `d ^ m` (`m` the dimension).  No assumption on the
dimensions of the points: if they do not fit, both sides are `0`. -/
theorem hvSpec_scale {d : Int} (hd : 0 < d) (S : List Pt) (r : Pt) :
    hvSpec (S.map (scalePt d)) (scalePt d r) = d.toNat ^ r.length * hvSpec S r := by
  obtain ⟨D, rfl⟩ := Int.eq_ofNat_of_zero_le (Int.le_of_lt hd)
  have hD : 0 < D := by omega
  rw [Int.toNat_natCast]
  unfold hvSpec
  rw [lower_scale hd, hvCount_scale D hD]
  by_cases hl : (lower S r).length = r.length
  · rw [hl]
  · unfold hvCount
    rw [cells_of_length_ne hl]
    simp

example : hvSpec ([[1, 3], [2, 1]].map (scalePt 2)) (scalePt 2 [4, 4]) = 2 ^ 2 * 7 ∧
    hvSpec [[1, 3], [2, 1]] [4, 4] = 7 := by decide

example : hvSpec ([[-1, 1, 0], [0, -1, 0]].map (scalePt 2)) (scalePt 2 [1, 2, 1]) = 2 ^ 3 * 4 ∧
    hvSpec [[-1, 1, 0], [0, -1, 0]] [1, 2, 1] = 4 := by
  decide

theorem contribSpec_scale {d : Int} (hd : 0 < d) (S : List Pt) (r : Pt) (i : Nat) :
    contribSpec (S.map (scalePt d)) (scalePt d r) i = (d.toNat ^ r.length : Nat) * contribSpec S r i := by
  unfold contribSpec
  rw [hvSpec_scale hd, eraseIdx_map', hvSpec_scale hd, Int.natCast_mul, Int.natCast_mul, Int.mul_sub]

example : contribSpec ([[1, 3], [2, 1]].map (scalePt 2)) (scalePt 2 [4, 4]) 0 = 2 ^ 2 * 1 := by decide

/-- `boxVolume` is homogeneous of degree `m` -/
theorem boxVol_scale (d : Int) : ∀ (p r : Pt), p.length = r.length →
    boxVol (scalePt d p) (scalePt d r) = d ^ r.length * boxVol p r
  | [], [], _ => by simp [boxVol]
  | [], _ :: _, h => by simp at h
  | _ :: _, [], h => by simp at h
  | a :: p, b :: r, h => by
    simp only [scalePt_cons, boxVol, boxVol_scale d p r (by simpa using h), List.length_cons,
      Int.pow_succ, ← Int.mul_sub]
    simp only [Int.mul_assoc, Int.mul_comm, Int.mul_left_comm]

example : boxVol (scalePt 3 [1, 2]) (scalePt 3 [4, 4]) = 3 ^ 2 * 6 := by decide

end SharkVerif.HV
