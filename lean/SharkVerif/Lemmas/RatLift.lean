/-
Lifting the integer-coordinate specifications of C13 (`leAll`, `dominates`, `rankSpec`,
`hvSpec`) to points with RATIONAL coordinates by "multiply by a common denominator".

For a list of rational points and a natural number `d > 0` that clears all denominators
(`Clears d p`: `(x * d).den = 1` for every coordinate `x`), `toIntPt d` maps the points to the
integer grid.  The theorems below show that
  * `toIntPt d` preserves and reflects the coordinate-wise order, hence dominance and ranks;
  * the rank `rankSpecQ d` and the hypervolume `hvSpecQ d` (= integer hypervolume / `d ^ m`)
    do not depend on the choice of the common denominator `d`
(by `rankSpec_scale` / `hvSpec_scale` of `Lemmas/Scale.lean`, going through `d * d'`).
-/
import SharkVerif.Lemmas.Scale
import Mathlib.Data.Rat.Defs
import Mathlib.Algebra.Order.Field.Rat
import Mathlib.Tactic.Ring
import Mathlib.Tactic.FieldSimp
import Mathlib.Tactic.NormNum
namespace SharkVerif.HV
open SharkVerif.Pareto

/-- points with rational coordinates -/
abbrev QPt := List Rat

/-- scale by `d` and take numerators (meaningful when `d` clears the denominators of `p`) -/
def toIntPt (d : Nat) (p : QPt) : Pt := p.map fun (x : Rat) => (x * (d : Rat)).num

/-- `d` is a common multiple of the denominators of the coordinates of `p` -/
def Clears (d : Nat) (p : QPt) : Prop := ∀ x ∈ p, (x * (d : Rat)).den = 1

/-- the hypervolume of rational points: the integer hypervolume of the points scaled by the common
denominator `d`, divided by `d ^ m` -/
def hvSpecQ (d : Nat) (S : List QPt) (r : QPt) : Rat :=
  (hvSpec (S.map (toIntPt d)) (toIntPt d r) : Rat) / (d : Rat) ^ r.length

/-- the non-domination rank of rational points, via the common denominator `d` -/
def rankSpecQ (d : Nat) (S : List QPt) (p : QPt) : Nat :=
  rankSpec (S.map (toIntPt d)) (toIntPt d p)

/-- coordinate-wise `≤` on rational points (the analogue of `leAll`) -/
def leAllQ : QPt → QPt → Bool
  | [], [] => true
  | a :: as, b :: bs => decide (a ≤ b) && leAllQ as bs
  | _, _ => false

/-- strict Pareto dominance on rational points -/
def dominatesQ (p q : QPt) : Bool := leAllQ p q && !leAllQ q p

@[simp] theorem length_toIntPt (d : Nat) (p : QPt) : (toIntPt d p).length = p.length := by
  simp [toIntPt]

theorem clears_cons {d : Nat} {a : Rat} {p : QPt} :
    Clears d (a :: p) ↔ (a * d).den = 1 ∧ Clears d p := by
  simp [Clears]

/-! ### `toIntPt d` is an order embedding -/

theorem num_le_num_iff {d : Nat} (hd : 0 < d) {a b : Rat} (ha : (a * d).den = 1) (hb : (b * d).den = 1) :
    (a * d).num ≤ (b * d).num ↔ a ≤ b := by
  have hd' : (0 : Rat) < (d : Rat) := by exact_mod_cast hd
  rw [← mul_le_mul_iff_of_pos_right hd', ← Rat.coe_int_num_of_den_eq_one ha,
    ← Rat.coe_int_num_of_den_eq_one hb, Int.cast_le, Rat.coe_int_num_of_den_eq_one ha,
    Rat.coe_int_num_of_den_eq_one hb]

/-- **the scaled integer points are ordered exactly like the rational points** -/
theorem leAll_toIntPt {d : Nat} (hd : 0 < d) : ∀ (p q : QPt), Clears d p → Clears d q →
    leAll (toIntPt d p) (toIntPt d q) = leAllQ p q
  | [], [], _, _ => rfl
  | [], _ :: _, _, _ => rfl
  | _ :: _, [], _, _ => rfl
  | a :: p, b :: q, hp, hq => by
    rw [clears_cons] at hp hq
    simp only [toIntPt, List.map_cons, leAll, leAllQ]
    have ih := leAll_toIntPt hd p q hp.2 hq.2
    simp only [toIntPt] at ih
    rw [ih]
    congr 1
    exact decide_eq_decide.mpr (num_le_num_iff hd hp.1 hq.1)

example : leAll (toIntPt 6 [1/2, -2/3]) (toIntPt 6 [1/2, 1/6]) = true ∧ leAllQ [1/2, -2/3] [1/2, 1/6] = true := by
  constructor
  · have e : toIntPt 6 [1/2, -2/3] = [3, -4] ∧ toIntPt 6 [1/2, 1/6] = [3, 1] := by
      constructor <;> (simp only [toIntPt, List.map]; norm_num)
    rw [e.1, e.2]; decide
  · simp only [leAllQ]; norm_num

theorem dominates_toIntPt {d : Nat} (hd : 0 < d) (p q : QPt) (hp : Clears d p) (hq : Clears d q) :
    dominates (toIntPt d p) (toIntPt d q) = dominatesQ p q := by
  simp [dominates, dominatesQ, leAll_toIntPt hd p q hp hq, leAll_toIntPt hd q p hq hp]

/-! ### changing the common denominator -/

/-- passing from the common denominator `d` to the multiple `d * d'` scales the integer point by `d'` -/
theorem toIntPt_mul (d d' : Nat) (p : QPt) (hp : Clears d p) :
    toIntPt (d * d') p = scalePt (d' : Int) (toIntPt d p) := by
  unfold toIntPt scalePt
  rw [List.map_map]
  apply List.map_congr_left
  intro x hx
  have h := Rat.coe_int_num_of_den_eq_one (hp x hx)
  have e : x * ((d * d' : Nat) : Rat) = (((d' : Int) * (x * d).num : Int) : Rat) := by
    push_cast
    rw [h]
    ring
  simp only [Function.comp, e, Rat.num_intCast]

theorem clears_mul {d : Nat} (d' : Nat) {p : QPt} (hp : Clears d p) : Clears (d * d') p := by
  intro x hx
  have h := Rat.coe_int_num_of_den_eq_one (hp x hx)
  have e : x * ((d * d' : Nat) : Rat) = (((d' : Int) * (x * d).num : Int) : Rat) := by
    push_cast
    rw [h]
    ring
  rw [e, Rat.den_intCast]

theorem map_toIntPt_mul (d d' : Nat) (S : List QPt) (hS : ∀ p ∈ S, Clears d p) :
    S.map (toIntPt (d * d')) = (S.map (toIntPt d)).map (scalePt (d' : Int)) := by
  rw [List.map_map]
  apply List.map_congr_left
  intro p hp
  exact toIntPt_mul d d' p (hS p hp)

theorem hvSpecQ_mul {d d' : Nat} (hd : 0 < d) (hd' : 0 < d') (S : List QPt) (r : QPt)
    (hS : ∀ p ∈ S, Clears d p) (hr : Clears d r) : hvSpecQ (d * d') S r = hvSpecQ d S r := by
  unfold hvSpecQ
  rw [map_toIntPt_mul d d' S hS, toIntPt_mul d d' r hr,
    hvSpec_scale (by exact_mod_cast hd' : (0 : Int) < (d' : Int)), Int.toNat_natCast, length_toIntPt]
  have h1 : (d : Rat) ≠ 0 := by exact_mod_cast Nat.pos_iff_ne_zero.mp hd
  have h2 : (d' : Rat) ≠ 0 := by exact_mod_cast Nat.pos_iff_ne_zero.mp hd'
  push_cast
  rw [mul_pow]
  field_simp

/-- **the rational hypervolume does not depend on the common denominator** -/
theorem hvSpecQ_indep {d d' : Nat} (hd : 0 < d) (hd' : 0 < d') (S : List QPt) (r : QPt)
    (hS : ∀ p ∈ S, Clears d p) (hr : Clears d r) (hS' : ∀ p ∈ S, Clears d' p) (hr' : Clears d' r) :
    hvSpecQ d S r = hvSpecQ d' S r := by
  rw [← hvSpecQ_mul hd hd' S r hS hr, Nat.mul_comm, hvSpecQ_mul hd' hd S r hS' hr']

/-- the box `[1/2, 3/2) × [1, 2)` has area 1, computed with the denominators 2 and 4 -/
example : hvSpecQ 2 [[1/2, 1]] [3/2, 2] = 1 ∧ hvSpecQ 4 [[1/2, 1]] [3/2, 2] = 1 := by
  have e2 : toIntPt 2 [1/2, 1] = [1, 2] ∧ toIntPt 2 [3/2, 2] = [3, 4] := by
    constructor <;> (simp only [toIntPt, List.map]; norm_num)
  have e4 : toIntPt 4 [1/2, 1] = [2, 4] ∧ toIntPt 4 [3/2, 2] = [6, 8] := by
    constructor <;> (simp only [toIntPt, List.map]; norm_num)
  have h2 : hvSpec [[1, 2]] [3, 4] = 4 := by decide
  have h4 : hvSpec [[2, 4]] [6, 8] = 16 := by decide
  constructor
  · simp only [hvSpecQ, List.map, e2.1, e2.2, h2]; norm_num
  · simp only [hvSpecQ, List.map, e4.1, e4.2, h4]; norm_num

theorem rankSpecQ_mul {d d' : Nat} (hd' : 0 < d') (S : List QPt) (p : QPt)
    (hS : ∀ q ∈ S, Clears d q) (hp : Clears d p) : rankSpecQ (d * d') S p = rankSpecQ d S p := by
  unfold rankSpecQ
  rw [map_toIntPt_mul d d' S hS, toIntPt_mul d d' p hp,
    rankSpec_scale (by exact_mod_cast hd' : (0 : Int) < (d' : Int))]

/-- **the rank of a rational point does not depend on the common denominator** -/
theorem rankSpecQ_indep {d d' : Nat} (hd : 0 < d) (hd' : 0 < d') (S : List QPt) (p : QPt)
    (hS : ∀ q ∈ S, Clears d q) (hp : Clears d p) (hS' : ∀ q ∈ S, Clears d' q) (hp' : Clears d' p) :
    rankSpecQ d S p = rankSpecQ d' S p := by
  rw [← rankSpecQ_mul hd' S p hS hp, Nat.mul_comm, rankSpecQ_mul hd S p hS' hp']

/-- `rankSpecQ` satisfies the defining equation of the rank *for the rational dominance relation*:
one plus the largest rank of a dominating point of `S` -/
theorem rankSpecQ_eq {d : Nat} (hd : 0 < d) (S : List QPt) (p : QPt)
    (hS : ∀ q ∈ S, Clears d q) (hp : Clears d p) :
    rankSpecQ d S p = 1 + ((S.filter fun q => dominatesQ q p).map (rankSpecQ d S)).foldl max 0 := by
  unfold rankSpecQ
  rw [rankSpec_eq, List.filter_map, List.map_map]
  have hfilt : S.filter ((fun q => dominates q (toIntPt d p)) ∘ toIntPt d) =
      S.filter fun q => dominatesQ q p := by
    apply List.filter_congr
    intro q hq
    exact dominates_toIntPt hd q p (hS q hq) hp
  rw [hfilt]
  rfl

/-! ### integer points are the special case `d = 1` -/

/-- an integer point as a rational point -/
def castPt (p : Pt) : QPt := p.map Int.cast

theorem clears_castPt (d : Nat) (p : Pt) : Clears d (castPt p) := by
  intro x hx
  obtain ⟨a, _, rfl⟩ := List.mem_map.mp hx
  have e : (a : Rat) * (d : Rat) = ((a * (d : Int) : Int) : Rat) := by push_cast; rfl
  rw [e, Rat.den_intCast]

theorem toIntPt_one_castPt (p : Pt) : toIntPt 1 (castPt p) = p := by
  unfold toIntPt castPt
  rw [List.map_map]
  conv => rhs; rw [← List.map_id p]
  apply List.map_congr_left
  intro a _
  simp

/-- on integer points the rational hypervolume (with any `d > 0`) is the integer hypervolume -/
theorem hvSpecQ_castPt {d : Nat} (hd : 0 < d) (S : List Pt) (r : Pt) :
    hvSpecQ d (S.map castPt) (castPt r) = (hvSpec S r : Rat) := by
  have h1 : hvSpecQ d (S.map castPt) (castPt r) = hvSpecQ 1 (S.map castPt) (castPt r) :=
    hvSpecQ_indep hd Nat.one_pos _ _
      (fun p hp => by obtain ⟨q, _, rfl⟩ := List.mem_map.mp hp; exact clears_castPt d q)
      (clears_castPt d r)
      (fun p hp => by obtain ⟨q, _, rfl⟩ := List.mem_map.mp hp; exact clears_castPt 1 q)
      (clears_castPt 1 r)
  rw [h1]
  unfold hvSpecQ
  rw [List.map_map, toIntPt_one_castPt]
  have : (S.map (toIntPt 1 ∘ castPt)) = S := by
    conv => rhs; rw [← List.map_id S]
    apply List.map_congr_left
    intro p _
    exact toIntPt_one_castPt p
  rw [this]
  simp

/-! ### existence of a common denominator -/

theorem den_mul_eq_one_of_dvd {x : Rat} {d : Nat} (h : x.den ∣ d) : (x * (d : Rat)).den = 1 := by
  obtain ⟨k, rfl⟩ := h
  have e : x * ((x.den * k : Nat) : Rat) = ((x.num * (k : Int) : Int) : Rat) := by
    push_cast
    rw [← mul_assoc, Rat.mul_den_eq_num]
  rw [e, Rat.den_intCast]

/-- product of the denominators of the coordinates -/
def denProd (p : QPt) : Nat := (p.map Rat.den).prod

/-- a common denominator of a list of points -/
def commonDen (S : List QPt) : Nat := (S.map denProd).prod

theorem denProd_pos (p : QPt) : 0 < denProd p := by
  unfold denProd
  induction p with
  | nil => simp
  | cons a p ih => simp only [List.map_cons, List.prod_cons]; exact Nat.mul_pos a.den_pos ih

theorem commonDen_pos (S : List QPt) : 0 < commonDen S := by
  unfold commonDen
  induction S with
  | nil => simp
  | cons a p ih => simp only [List.map_cons, List.prod_cons]; exact Nat.mul_pos (denProd_pos a) ih

theorem den_dvd_denProd {p : QPt} {x : Rat} (hx : x ∈ p) : x.den ∣ denProd p := by
  unfold denProd
  induction p with
  | nil => cases hx
  | cons a p ih =>
    simp only [List.map_cons, List.prod_cons]
    rcases List.mem_cons.mp hx with rfl | hx
    · exact Nat.dvd_mul_right _ _
    · exact Nat.dvd_trans (ih hx) (Nat.dvd_mul_left _ _)

theorem denProd_dvd_commonDen {S : List QPt} {p : QPt} (hp : p ∈ S) : denProd p ∣ commonDen S := by
  unfold commonDen
  induction S with
  | nil => cases hp
  | cons a S ih =>
    simp only [List.map_cons, List.prod_cons]
    rcases List.mem_cons.mp hp with rfl | hp
    · exact Nat.dvd_mul_right _ _
    · exact Nat.dvd_trans (ih hp) (Nat.dvd_mul_left _ _)

theorem clears_commonDen {S : List QPt} {p : QPt} (hp : p ∈ S) : Clears (commonDen S) p :=
  fun _ hx => den_mul_eq_one_of_dvd (Nat.dvd_trans (den_dvd_denProd hx) (denProd_dvd_commonDen hp))


/-! ### translation and scaling by rationals -/

/-- translate a rational point by `t` -/
def shiftQ (t p : QPt) : QPt := List.zipWith (· + ·) p t

/-- multiply every coordinate by the rational `c` -/
def scaleQ (c : Rat) (p : QPt) : QPt := p.map (c * ·)

theorem add_mul_num {d : Nat} {a c : Rat} (ha : (a * (d : Rat)).den = 1) (hc : (c * (d : Rat)).den = 1) :
    (a + c) * (d : Rat) = (((a * (d : Rat)).num + (c * (d : Rat)).num : Int) : Rat) := by
  push_cast
  rw [Rat.coe_int_num_of_den_eq_one ha, Rat.coe_int_num_of_den_eq_one hc]
  ring

theorem toIntPt_shiftQ {d : Nat} : ∀ (t p : QPt), Clears d t → Clears d p →
    toIntPt d (shiftQ t p) = shiftPt (toIntPt d t) (toIntPt d p) ∧ Clears d (shiftQ t p)
  | [], p, _, _ => by
    have : shiftQ [] p = [] := by simp [shiftQ]
    rw [this]; exact ⟨by simp [toIntPt], by simp [Clears]⟩
  | _ :: _, [], _, _ => ⟨by simp [shiftQ, toIntPt], by simp [shiftQ, Clears]⟩
  | c :: t, a :: p, ht, hp => by
    rw [clears_cons] at ht hp
    obtain ⟨ih1, ih2⟩ := toIntPt_shiftQ t p ht.2 hp.2
    have e := add_mul_num hp.1 ht.1
    have hs : shiftQ (c :: t) (a :: p) = (a + c) :: shiftQ t p := rfl
    rw [hs, clears_cons]
    refine ⟨?_, by rw [e, Rat.den_intCast], ih2⟩
    have h1 : toIntPt d ((a + c) :: shiftQ t p) = ((a + c) * (d : Rat)).num :: toIntPt d (shiftQ t p) := rfl
    have h2 : toIntPt d (c :: t) = (c * (d : Rat)).num :: toIntPt d t := rfl
    have h3 : toIntPt d (a :: p) = (a * (d : Rat)).num :: toIntPt d p := rfl
    rw [h1, h2, h3, shiftPt_cons, ih1, e, Rat.num_intCast]

theorem length_shiftQ_of_eq {t p : QPt} (h : p.length = t.length) : (shiftQ t p).length = t.length := by
  simp [shiftQ, h]

/-- **translation invariance of the rational hypervolume** -/
theorem hvSpecQ_shift {d : Nat} (t : QPt) (S : List QPt) (r : QPt) (ht : Clears d t)
    (hS : ∀ p ∈ S, Clears d p) (hr : Clears d r)
    (hSl : ∀ p ∈ S, p.length = t.length) (hrl : r.length = t.length) :
    hvSpecQ d (S.map (shiftQ t)) (shiftQ t r) = hvSpecQ d S r := by
  unfold hvSpecQ
  have e1 : (S.map (shiftQ t)).map (toIntPt d) = (S.map (toIntPt d)).map (shiftPt (toIntPt d t)) := by
    rw [List.map_map, List.map_map]
    apply List.map_congr_left
    intro p hp
    exact (toIntPt_shiftQ t p ht (hS p hp)).1
  rw [e1, (toIntPt_shiftQ t r ht hr).1, hvSpec_shift _ _ _ (by
    intro p hp
    obtain ⟨q, hq, rfl⟩ := List.mem_map.mp hp
    simp [hSl q hq]) (by simp [hrl]), length_shiftQ_of_eq hrl, hrl]

theorem toIntPt_scaleQ {d : Nat} (c : Rat) (p : QPt) (hp : Clears d p) :
    toIntPt (d * c.den) (scaleQ c p) = scalePt c.num (toIntPt d p) ∧ Clears (d * c.den) (scaleQ c p) := by
  have key : ∀ x ∈ p, c * x * ((d * c.den : Nat) : Rat) = ((c.num * (x * (d : Rat)).num : Int) : Rat) := by
    intro x hx
    push_cast
    rw [Rat.coe_int_num_of_den_eq_one (hp x hx), ← Rat.mul_den_eq_num c]
    ring
  constructor
  · unfold toIntPt scaleQ scalePt
    rw [List.map_map, List.map_map]
    apply List.map_congr_left
    intro x hx
    simp only [Function.comp, key x hx, Rat.num_intCast]
  · intro y hy
    obtain ⟨x, hx, rfl⟩ := List.mem_map.mp hy
    rw [key x hx, Rat.den_intCast]

/-- **homogeneity of the rational hypervolume**: scaling by a positive rational `c` multiplies the
hypervolume by `c ^ m` (the common denominator `d` is replaced by `d * c.den`) -/
theorem hvSpecQ_scale {d : Nat} (hd : 0 < d) {c : Rat} (hc : 0 < c) (S : List QPt) (r : QPt)
    (hS : ∀ p ∈ S, Clears d p) (hr : Clears d r) :
    hvSpecQ (d * c.den) (S.map (scaleQ c)) (scaleQ c r) = c ^ r.length * hvSpecQ d S r := by
  unfold hvSpecQ
  have e1 : (S.map (scaleQ c)).map (toIntPt (d * c.den)) = (S.map (toIntPt d)).map (scalePt c.num) := by
    rw [List.map_map, List.map_map]
    apply List.map_congr_left
    intro p hp
    exact (toIntPt_scaleQ c p (hS p hp)).1
  have hn : 0 < c.num := Rat.num_pos.mpr hc
  rw [e1, (toIntPt_scaleQ c r hr).1, hvSpec_scale hn, length_toIntPt]
  have hlen : (scaleQ c r).length = r.length := by simp [scaleQ]
  rw [hlen]
  have h1 : (d : Rat) ≠ 0 := by exact_mod_cast Nat.pos_iff_ne_zero.mp hd
  have h2 : (c.den : Rat) ≠ 0 := by exact_mod_cast c.den_nz
  have h3 : ((c.num.toNat : Nat) : Rat) = (c.num : Rat) := by
    have : ((c.num.toNat : Nat) : Int) = c.num := Int.toNat_of_nonneg (Int.le_of_lt hn)
    exact_mod_cast this
  have h4 : c = (c.num : Rat) / (c.den : Rat) := (Rat.num_div_den c).symm
  push_cast
  rw [h3, mul_pow]
  conv => rhs; rw [h4, div_pow]
  field_simp


/-! ### the canonical rational specifications (no explicit denominator) -/

/-- **dominated hypervolume of rational points** w.r.t. the rational reference point `r` -/
def hvQ (S : List QPt) (r : QPt) : Rat := hvSpecQ (commonDen (r :: S)) S r

/-- **non-domination rank of a rational point** -/
def rankQ (S : List QPt) (p : QPt) : Nat := rankSpecQ (commonDen (p :: S)) S p

/-- `hvQ` can be computed with any common denominator -/
theorem hvQ_eq {d : Nat} (hd : 0 < d) (S : List QPt) (r : QPt) (hS : ∀ p ∈ S, Clears d p)
    (hr : Clears d r) : hvQ S r = hvSpecQ d S r :=
  hvSpecQ_indep (commonDen_pos _) hd S r (fun _ hp => clears_commonDen (List.mem_cons_of_mem _ hp))
    (clears_commonDen List.mem_cons_self) hS hr

/-- `rankQ` can be computed with any common denominator -/
theorem rankQ_eq {d : Nat} (hd : 0 < d) (S : List QPt) (p : QPt) (hS : ∀ q ∈ S, Clears d q)
    (hp : Clears d p) : rankQ S p = rankSpecQ d S p :=
  rankSpecQ_indep (commonDen_pos _) hd S p (fun _ hq => clears_commonDen (List.mem_cons_of_mem _ hq))
    (clears_commonDen List.mem_cons_self) hS hp

/-- **`rankQ` is the rank for the rational dominance relation**: one plus the largest rank of a
point of `S` dominating `p` (the same defining equation as `rankSpec_eq`) -/
theorem rankQ_spec (S : List QPt) (p : QPt) :
    rankQ S p = 1 + ((S.filter fun q => dominatesQ q p).map (rankQ S)).foldl max 0 := by
  have hd := commonDen_pos (p :: S)
  have hS : ∀ q ∈ S, Clears (commonDen (p :: S)) q := fun _ hq => clears_commonDen (List.mem_cons_of_mem _ hq)
  have hp : Clears (commonDen (p :: S)) p := clears_commonDen List.mem_cons_self
  rw [rankQ_eq hd S p hS hp, rankSpecQ_eq hd S p hS hp]
  congr 2
  apply List.map_congr_left
  intro q hq
  exact (rankQ_eq hd S q hS (hS q (List.mem_filter.mp hq).1)).symm

/-- on integer points `hvQ` is the cell-counting specification `hvSpec` -/
theorem hvQ_castPt (S : List Pt) (r : Pt) : hvQ (S.map castPt) (castPt r) = (hvSpec S r : Rat) := by
  rw [hvQ_eq Nat.one_pos _ _
    (fun p hp => by obtain ⟨q, _, rfl⟩ := List.mem_map.mp hp; exact clears_castPt 1 q)
    (clears_castPt 1 r)]
  exact hvSpecQ_castPt Nat.one_pos S r

/-- **translation invariance** -/
theorem hvQ_shift (t : QPt) (S : List QPt) (r : QPt) (hSl : ∀ p ∈ S, p.length = t.length)
    (hrl : r.length = t.length) : hvQ (S.map (shiftQ t)) (shiftQ t r) = hvQ S r := by
  have hd := commonDen_pos (t :: r :: S)
  have ht : Clears (commonDen (t :: r :: S)) t := clears_commonDen List.mem_cons_self
  have hr : Clears (commonDen (t :: r :: S)) r := clears_commonDen (by simp)
  have hS : ∀ p ∈ S, Clears (commonDen (t :: r :: S)) p := fun p hp => clears_commonDen (by simp [hp])
  rw [hvQ_eq hd S r hS hr, ← hvSpecQ_shift t S r ht hS hr hSl hrl]
  apply hvQ_eq hd
  · intro p hp
    obtain ⟨q, hq, rfl⟩ := List.mem_map.mp hp
    exact (toIntPt_shiftQ t q ht (hS q hq)).2
  · exact (toIntPt_shiftQ t r ht hr).2

/-- **homogeneity**: scaling by a positive rational `c` multiplies the hypervolume by `c ^ m` -/
theorem hvQ_scale {c : Rat} (hc : 0 < c) (S : List QPt) (r : QPt) :
    hvQ (S.map (scaleQ c)) (scaleQ c r) = c ^ r.length * hvQ S r := by
  have hd := commonDen_pos (r :: S)
  have hr : Clears (commonDen (r :: S)) r := clears_commonDen List.mem_cons_self
  have hS : ∀ p ∈ S, Clears (commonDen (r :: S)) p := fun p hp => clears_commonDen (by simp [hp])
  rw [hvQ_eq hd S r hS hr, ← hvSpecQ_scale hd hc S r hS hr]
  apply hvQ_eq (Nat.mul_pos hd c.den_pos)
  · intro p hp
    obtain ⟨q, hq, rfl⟩ := List.mem_map.mp hp
    exact (toIntPt_scaleQ c q (hS q hq)).2
  · exact (toIntPt_scaleQ c r hr).2

/-- the coordinate-wise order, dominance and rank of rational points are those of the integer points
obtained with the common denominator -/
theorem leAllQ_eq_commonDen (S : List QPt) {p q : QPt} (hp : p ∈ S) (hq : q ∈ S) :
    leAllQ p q = leAll (toIntPt (commonDen S) p) (toIntPt (commonDen S) q) :=
  (leAll_toIntPt (commonDen_pos S) p q (clears_commonDen hp) (clears_commonDen hq)).symm

/-- the area of `[1/2, 3/2) × [1/3, 1)` is `2/3` -/
example : hvQ [[1/2, 1/3]] [3/2, 1] = 2/3 := by
  have c : Clears 6 [1/2, 1/3] ∧ Clears 6 [3/2, 1] := by
    constructor <;> intro x hx <;> simp only [List.mem_cons, List.not_mem_nil, or_false] at hx <;>
      rcases hx with rfl | rfl <;> norm_num
  rw [hvQ_eq (d := 6) (by decide) _ _ (by intro p hp; simp only [List.mem_singleton] at hp; subst hp; exact c.1) c.2]
  have e : toIntPt 6 [1/2, 1/3] = [3, 2] ∧ toIntPt 6 [3/2, 1] = [9, 6] := by
    constructor <;> (simp only [toIntPt, List.map]; norm_num)
  have h : hvSpec [[3, 2]] [9, 6] = 24 := by decide
  simp only [hvSpecQ, List.map, e.1, e.2, h]; norm_num

end SharkVerif.HV
